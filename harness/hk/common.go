// Package hk: shared helpers of the per-property harness programs.
package hk

import (
	"encoding/json"
	"fmt"
	"os"
	"path/filepath"
	"sort"
	"strings"
	"time"
)

// SplitMix64: the single source of randomness.
type Rng struct{ s uint64 }

func (r *Rng) Next() uint64 {
	r.s += 0x9e3779b97f4a7c15
	z := r.s
	z = (z ^ (z >> 30)) * 0xbf58476d1ce4e5b9
	z = (z ^ (z >> 27)) * 0x94d049bb133111eb
	return z ^ (z >> 31)
}
func (r *Rng) Intn(n int) int {
	if n <= 0 {
		return 0
	}
	return int(r.Next() % uint64(n))
}
func (r *Rng) Bool() bool { return r.Next()&1 == 1 }
func (r *Rng) Byte() byte { return byte(r.Next()) }
func (r *Rng) Bytes(n int) []byte {
	b := make([]byte, n)
	for i := range b {
		b[i] = r.Byte()
	}
	return b
}
func (r *Rng) Pick(xs ...int) int { return xs[r.Intn(len(xs))] }

// Failure: the direct property oracle failed on the implementation.
type Failure struct {
	Site   string      `json:"site"`   // function / call site
	Class  string      `json:"class"`  // short class of the failure (panic, mismatch, ...)
	Input  interface{} `json:"input"`  // replayable input
	Detail string      `json:"detail"` // what was expected / observed
}

type Run struct {
	Prop, Out, Tier string
	Seed            uint64
	Rng             *Rng
	ReplayFile      string

	start     time.Time
	header    string   // Coq header of each cases file
	caseTy    string   // Coq type of a case (for the list annotation)
	cases     []string // Coq terms
	caseIDs   int
	caseBytes int
	perFile   int
	files     int
	Evals     int
	nontriv   map[string]struct{}
	Samples   []interface{}
	Dist      map[string]int
	Failures  []Failure
	Streams   map[string]int
	Extra     map[string]interface{}
	caseIndex []map[string]interface{} // id -> replay description (kept small: only written for mismatching ids on demand)
	descs     []string
	retained  []retained
}

func NewRun(prop, out, tier string, seed uint64) *Run {
	_ = os.MkdirAll(out, 0o755)
	// remove stale case files
	old, _ := filepath.Glob(filepath.Join(out, "cases_*.v"))
	for _, o := range old {
		_ = os.Remove(o)
	}
	return &Run{Prop: prop, Out: out, Tier: tier, Seed: seed, Rng: &Rng{s: seed*0x9e3779b97f4a7c15 + 0x1234567}, start: time.Now(),
		perFile: 400, nontriv: map[string]struct{}{}, Dist: map[string]int{}, Streams: map[string]int{}, Extra: map[string]interface{}{}}
}

func (r *Run) Thorough() bool { return r.Tier == "thorough" }

// N picks the quick or the thorough count.
func (r *Run) N(quick, thorough int) int {
	if r.Thorough() {
		return thorough
	}
	return quick
}

// SetCoq declares the Coq module that checks the cases and the case type.
func (r *Run) SetCoq(header string, caseTy string) { r.header, r.caseTy = header, caseTy }

// AddCase appends one case as a Coq term; the term must start with the case id
// returned by NextID. desc is a compact replay description kept for mismatch reports.
func (r *Run) NextID() int { r.caseIDs++; return r.caseIDs }
func (r *Run) AddCase(term string, desc string) {
	r.cases = append(r.cases, term)
	// keep descs[i] = description of case id i+1 even when ids were drawn for cases that are not
	// replayed in Coq (implementation-only streams, inputs too long for a case file)
	for len(r.descs) < r.caseIDs-1 {
		r.descs = append(r.descs, "(not replayed in Coq)")
	}
	r.descs = append(r.descs, desc)
	r.caseBytes += len(term)
	if len(r.cases) >= r.perFile || r.caseBytes > 400000 {
		r.flush()
	}
}

func (r *Run) flush() {
	if len(r.cases) == 0 {
		return
	}
	var sb strings.Builder
	sb.WriteString(r.header)
	sb.WriteString("\nDefinition cases : list " + r.caseTy + " := [\n")
	sb.WriteString(strings.Join(r.cases, ";\n"))
	sb.WriteString("\n].\nDefinition M := Eval vm_compute in mismatches cases.\nPrint M.\n")
	name := fmt.Sprintf("cases_%04d.v", r.files)
	if err := os.WriteFile(filepath.Join(r.Out, name), []byte(sb.String()), 0o644); err != nil {
		panic(err)
	}
	r.files++
	r.cases = r.cases[:0]
	r.caseBytes = 0
}

// Count records one evaluation; key != "" marks it non-trivial and distinct by key.
func (r *Run) Count(stream string, nontrivialKey string) {
	r.Evals++
	r.Streams[stream]++
	if nontrivialKey != "" {
		if len(r.nontriv) < 2000000 {
			r.nontriv[nontrivialKey] = struct{}{}
		}
	}
}
func (r *Run) Sample(x interface{}) {
	if len(r.Samples) < 6 {
		r.Samples = append(r.Samples, x)
	}
}
func (r *Run) Fail(f Failure) {
	if len(r.Failures) < 200 {
		r.Failures = append(r.Failures, f)
	}
}

// Retain remembers a byte slice returned by the library together with a private copy; every later
// Retain call (and Finish) checks that none of the remembered slices has changed underneath the caller.
// A result that a later, unrelated call overwrites is not a value: parse(serialise(A)) = A fails as soon
// as anything else is serialised in between.
type retained struct {
	site, desc string
	live, copy []byte
}

func (r *Run) Retain(site, desc string, out []byte) {
	r.checkRetained()
	if len(out) == 0 {
		return
	}
	r.retained = append(r.retained, retained{site, desc, out, append([]byte(nil), out...)})
	if len(r.retained) > 8 {
		r.retained = r.retained[1:]
	}
}

func (r *Run) checkRetained() {
	kept := r.retained[:0]
	for _, x := range r.retained {
		if string(x.live) != string(x.copy) {
			r.Fail(Failure{Site: x.site, Class: "returned-bytes-overwritten-by-later-call", Input: x.desc,
				Detail: "the returned octets " + Hex(x.copy) + " later read " + Hex(x.live) + " (the result aliases storage that a later call reuses)"})
			continue
		}
		kept = append(kept, x)
	}
	r.retained = kept
}

func (r *Run) Finish() {
	r.checkRetained()
	r.flush()
	// id -> description map for mismatch reports
	df, err := os.Create(filepath.Join(r.Out, "descs.txt"))
	if err == nil {
		for i, d := range r.descs {
			fmt.Fprintf(df, "%d\t%s\n", i+1, d)
		}
		df.Close()
	}
	keys := make([]string, 0, len(r.Dist))
	for k := range r.Dist {
		keys = append(keys, k)
	}
	sort.Strings(keys)
	meta := map[string]interface{}{
		"property": r.Prop, "tier": r.Tier, "seed": r.Seed,
		"evaluations": r.Evals, "distinct_nontrivial": len(r.nontriv),
		"samples": r.Samples, "distribution": r.Dist, "streams": r.Streams,
		"failures": r.Failures, "case_files": r.files, "cases": r.caseIDs,
		"wall_s": time.Since(r.start).Seconds(), "extra": r.Extra,
	}
	b, _ := json.MarshalIndent(meta, "", " ")
	if err := os.WriteFile(filepath.Join(r.Out, "meta.json"), b, 0o644); err != nil {
		panic(err)
	}
}

// ---- Coq term printers ----

func CoqBytes(b []byte) string {
	if len(b) == 0 {
		return "[]"
	}
	var sb strings.Builder
	sb.WriteByte('[')
	for i, x := range b {
		if i > 0 {
			sb.WriteByte(';')
		}
		fmt.Fprintf(&sb, "%d", x)
	}
	sb.WriteByte(']')
	return sb.String()
}
func CoqStr(s string) string { return CoqBytes([]byte(s)) }
func CoqBool(b bool) string {
	if b {
		return "true"
	}
	return "false"
}
func CoqList(xs []string) string { return "[" + strings.Join(xs, "; ") + "]" }
func Hex(b []byte) string        { return fmt.Sprintf("%x", b) }

// Catch runs f and reports whether it panicked.
func Catch(f func()) (panicked bool, val interface{}) {
	defer func() {
		if v := recover(); v != nil {
			panicked, val = true, v
		}
	}()
	f()
	return false, nil
}

// CatchTimeout runs f in a goroutine; hang = did not finish within d.
func CatchTimeout(d time.Duration, f func()) (panicked bool, hang bool, val interface{}) {
	done := make(chan struct{})
	go func() {
		defer close(done)
		panicked, val = Catch(f)
	}()
	select {
	case <-done:
		return panicked, false, val
	case <-time.After(d):
	}
	// not back after d: on a loaded machine a descheduled goroutine is not a hang -- wait five times
	// longer before calling it one (a real non-termination costs 6*d once)
	select {
	case <-done:
		return panicked, false, val
	case <-time.After(5 * d):
		return false, true, nil
	}
}

// Main parses the command line shared by all harness programs:
//
//	<prog> <outdir> <quick|thorough> <seed> [replay-file]
func Main(prop string, f func(*Run)) {
	if len(os.Args) < 4 {
		fmt.Fprintln(os.Stderr, "usage: "+os.Args[0]+" <outdir> <quick|thorough> <seed> [replay-file]")
		os.Exit(2)
	}
	var seed uint64
	if _, err := fmt.Sscanf(os.Args[3], "%d", &seed); err != nil {
		fmt.Fprintln(os.Stderr, "bad seed")
		os.Exit(2)
	}
	r := NewRun(prop, os.Args[1], os.Args[2], seed)
	if len(os.Args) > 4 {
		r.ReplayFile = os.Args[4]
	}
	f(r)
	r.Finish()
}

// Exact returns a copy of b whose capacity equals its length (what make([]byte, n) and the decoders'
// SetLen produce): a slice expression or append in the library that reaches beyond len then fails or
// reallocates instead of silently using spare capacity.  append([]byte{}, b...) rounds the capacity up.
func Exact(b []byte) []byte {
	o := make([]byte, len(b))
	copy(o, b)
	return o
}

// ExactNil is Exact, but nil for an empty input (the result of append([]byte(nil), b...)).
func ExactNil(b []byte) []byte {
	if len(b) == 0 {
		return nil
	}
	return Exact(b)
}

// BlockMsg builds a message out of nblocks blocks of bs octets, each all-zero, all-ones, a single high or low
// bit, a repeat of the previous block, or random; plus tail extra random octets.  Block ciphers, polynomial
// MACs and word-oriented stream ciphers have their special cases on such inputs (a zero block that must
// still be multiplied in, equal blocks that cancel), which uniformly random octets never produce.
func BlockMsg(r *Rng, bs, nblocks, tail int) []byte {
	out := make([]byte, 0, bs*nblocks+tail)
	for i := 0; i < nblocks; i++ {
		b := make([]byte, bs)
		switch r.Intn(7) {
		case 0, 1: // zero
		case 2:
			for j := range b {
				b[j] = 0xff
			}
		case 3:
			b[0] = 0x80
		case 4:
			b[bs-1] = 0x01
		case 5:
			if i > 0 {
				copy(b, out[len(out)-bs:])
			} else {
				b = r.Bytes(bs)
			}
		default:
			b = r.Bytes(bs)
		}
		out = append(out, b...)
	}
	return append(out, r.Bytes(tail)...)
}

// BeyondLen runs f on a copy of b that is a prefix view of a larger array (spare capacity 24, filled with a
// sentinel) and reports whether f wrote into the array beyond len(b): a caller that hands over buf[:n] still
// owns buf[n:].  A nil b stays nil.  Panics inside f are swallowed (the main call reports them).
func BeyondLen(b []byte, f func(w []byte)) (wrote bool) {
	if b == nil {
		return false
	}
	big := make([]byte, len(b)+24)
	copy(big, b)
	for i := len(b); i < len(big); i++ {
		big[i] = 0xa5
	}
	Catch(func() { f(big[:len(b)]) })
	for i := len(b); i < len(big); i++ {
		if big[i] != 0xa5 {
			return true
		}
	}
	return false
}
