// verifharness: runs the free5gc/nas implementation (built from /repo's
// current working tree, -tags verif) on generated inputs, evaluates each
// property's direct oracle on the implementation, and writes the observed
// behaviour as Coq terms (cases_*.v) for replay on the Coq models.
package main

import (
	"fmt"
	"os"
	"strconv"
)

var props = map[string]func(*Run){}

func main() {
	if len(os.Args) < 5 {
		fmt.Fprintln(os.Stderr, "usage: harness <prop> <outdir> <quick|thorough> <seed> [replay-file]")
		os.Exit(2)
	}
	f, ok := props[os.Args[1]]
	if !ok {
		fmt.Fprintln(os.Stderr, "unknown property", os.Args[1])
		os.Exit(2)
	}
	seed, err := strconv.ParseUint(os.Args[4], 10, 64)
	if err != nil {
		fmt.Fprintln(os.Stderr, "bad seed")
		os.Exit(2)
	}
	r := NewRun(os.Args[1], os.Args[2], os.Args[3], seed)
	if len(os.Args) > 5 {
		r.ReplayFile = os.Args[5]
	}
	f(r)
	r.Finish()
}
