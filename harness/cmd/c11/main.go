package main

import (
	"fmt"
	"strings"

	"github.com/free5gc/nas/security"

	"verifharness/hk"
)

func main() { hk.Main("C11", runC11) }

type c11op struct {
	k    int // 0 Set 1 SetSQN 2 SetOverflow 3 AddOne 4 Get 5 SQN 6 Overflow
	a, b uint32
}

func (o c11op) coq() string {
	switch o.k {
	case 0:
		return fmt.Sprintf("OpSet %d %d", o.a, o.b)
	case 1:
		return fmt.Sprintf("OpSetSQN %d", o.a)
	case 2:
		return fmt.Sprintf("OpSetOverflow %d", o.a)
	case 3:
		return "OpAddOne"
	case 4:
		return "OpGet"
	case 5:
		return "OpSQN"
	}
	return "OpOverflow"
}

// c11history runs ops on a fresh Count (zero value) and returns the observed
// results; it also evaluates the property directly on the implementation.
func c11history(r *hk.Run, ops []c11op) (results []string, final uint32) {
	var c security.Count
	fail := func(i int, what string) {
		var d []string
		for _, o := range ops[:i+1] {
			d = append(d, o.coq())
		}
		r.Fail(hk.Failure{Site: "security.Count", Class: "law", Input: d, Detail: what})
	}
	for i, o := range ops {
		// direct oracle: read the state before (Get masks, harmless below 2^24)
		ovf0, sqn0 := c.Overflow(), c.SQN()
		val0 := uint32(ovf0)*256 + uint32(sqn0)
		switch o.k {
		case 0:
			c.Set(uint16(o.a), uint8(o.b))
			results = append(results, "RNone")
			if c.Overflow() != uint16(o.a) || c.SQN() != uint8(o.b) {
				fail(i, "Set did not store overflow/sqn")
			}
		case 1:
			c.SetSQN(uint8(o.a))
			results = append(results, "RNone")
			if c.Overflow() != ovf0 || c.SQN() != uint8(o.a) {
				fail(i, "SetSQN changed overflow or did not store sqn")
			}
		case 2:
			c.SetOverflow(uint16(o.a))
			results = append(results, "RNone")
			if c.SQN() != sqn0 || c.Overflow() != uint16(o.a) {
				fail(i, "SetOverflow changed sqn or did not store overflow")
			}
		case 3:
			c.AddOne()
			results = append(results, "RNone")
			want := (val0 + 1) % (1 << 24)
			if got := uint32(c.Overflow())*256 + uint32(c.SQN()); got != want {
				fail(i, fmt.Sprintf("AddOne: %d -> %d, want %d", val0, got, want))
			}
		case 4:
			v := c.Get()
			results = append(results, fmt.Sprintf("RVal %d", v))
			if v != val0 || v >= 1<<24 {
				fail(i, fmt.Sprintf("Get = %d, overflow*256+sqn = %d", v, val0))
			}
		case 5:
			v := c.SQN()
			results = append(results, fmt.Sprintf("RVal %d", v))
		case 6:
			v := c.Overflow()
			results = append(results, fmt.Sprintf("RVal %d", v))
		}
		if o.k >= 4 {
			if c.Overflow() != ovf0 || c.SQN() != sqn0 {
				fail(i, "a read changed the value")
			}
		}
		// NOT c.Get() here: Get masks the stored word in place, so an oracle that reads through Get after
		// every operation would heal exactly the states it is looking for; the invariant is observed
		// through Get only where the history itself calls Get (case 4) and at the end
	}
	if v := c.Get(); v >= 1<<24 || v != uint32(c.Overflow())*256+uint32(c.SQN()) {
		fail(len(ops)-1, "value != overflow*256+sqn or >= 2^24")
	}
	return results, c.Get()
}

func runC11(r *hk.Run) {
	r.SetCoq("From NV Require Import Lib.Base Lib.BV C11.Model C11.Corr.\nOpen Scope N_scope.", "case")
	emit := func(stream string, ops []c11op) {
		res, final := c11history(r, ops)
		var os []string
		carry := false
		for _, o := range ops {
			os = append(os, o.coq())
			if o.k == 3 {
				carry = true
			}
		}
		id := r.NextID()
		desc := strings.Join(os, "; ")
		r.AddCase(fmt.Sprintf("(%d, 0, %s, (%d, %s))", id, hk.CoqList(os), final, hk.CoqList(res)), desc)
		key := ""
		if carry {
			key = desc
		}
		r.Count(stream, key)
		r.Dist[fmt.Sprintf("len_%02d", len(ops)/8*8)]++
		r.Sample(map[string]interface{}{"ops": os, "results": res, "final": final})
	}
	// directed: boundaries of sqn and overflow, each followed by AddOne and all reads
	for _, ovf := range []uint32{0, 1, 255, 256, 0x7fff, 0x8000, 0xfffe, 0xffff} {
		for _, sqn := range []uint32{0, 1, 127, 128, 254, 255} {
			emit("directed", []c11op{{0, ovf, sqn}, {4, 0, 0}, {3, 0, 0}, {4, 0, 0}, {5, 0, 0}, {6, 0, 0}, {3, 0, 0}, {4, 0, 0},
				{1, 255, 0}, {3, 0, 0}, {4, 0, 0}, {2, 0xffff, 0}, {1, 255, 0}, {3, 0, 0}, {4, 0, 0}})
		}
	}
	// random histories from random reachable states
	n := r.N(1500, 20000)
	for i := 0; i < n; i++ {
		l := 1 + r.Rng.Intn(24)
		ops := []c11op{{0, uint32(r.Rng.Next() & 0xffff), uint32(r.Rng.Next() & 0xff)}}
		if r.Rng.Intn(4) == 0 { // near a carry / wrap
			ops[0] = c11op{0, uint32([]int{0xffff, 0xfffe, 0, 0x00ff}[r.Rng.Intn(4)]), uint32(250 + r.Rng.Intn(6))}
		}
		for j := 0; j < l; j++ {
			k := r.Rng.Intn(7)
			switch k {
			case 0:
				ops = append(ops, c11op{0, uint32(r.Rng.Next() & 0xffff), uint32(r.Rng.Next() & 0xff)})
			case 1:
				ops = append(ops, c11op{1, uint32(r.Rng.Next() & 0xff), 0})
			case 2:
				ops = append(ops, c11op{2, uint32(r.Rng.Next() & 0xffff), 0})
			default:
				ops = append(ops, c11op{k, 0, 0})
			}
		}
		emit("random", ops)
	}
	// state-derived arguments: the next setter's argument is a function of the current value (its low / high
	// 16 bits, its octets, bytes swapped, +-1): comparisons of an argument with the wrong part of the state
	// ("unchanged, skip the write") only show on such pairs, which independent random draws hit 1 in 2^16
	nd := r.N(1200, 12000)
	for i := 0; i < nd; i++ {
		val := uint32(r.Rng.Next()) & 0xffffff
		ops := []c11op{{0, val >> 8, val & 0xff}}
		l := 1 + r.Rng.Intn(6)
		for j := 0; j < l; j++ {
			parts := []uint32{val & 0xffff, val >> 8, (val >> 8 & 0xff) | (val&0xff)<<8, (val & 0xff) | (val>>16&0xff)<<8,
				(val >> 8) + 1, (val >> 8) - 1, val >> 16, val & 0xff, val >> 8 & 0xff, (val & 0xff) << 8}
			a := parts[r.Rng.Intn(len(parts))] & 0xffff
			switch r.Rng.Intn(5) {
			case 0, 1:
				b := []uint32{val & 0xff, val >> 8 & 0xff, val >> 16, uint32(r.Rng.Next())}[r.Rng.Intn(4)] & 0xff
				ops = append(ops, c11op{0, a, b})
				val = a<<8 | b
			case 2:
				ops = append(ops, c11op{2, a, 0})
				val = a<<8 | val&0xff
			case 3:
				ops = append(ops, c11op{1, a & 0xff, 0})
				val = val&0xffff00 | a&0xff
			default:
				ops = append(ops, c11op{3, 0, 0})
				val = (val + 1) & 0xffffff
			}
			ops = append(ops, c11op{4 + r.Rng.Intn(3), 0, 0})
		}
		emit("state_derived_args", ops)
	}
	if r.Thorough() {
		// every one of the 2^24 states x AddOne and the reads, directly on the implementation
		var c security.Count
		bad := 0
		for v := uint32(0); v < 1<<24; v++ {
			c.Set(uint16(v>>8), uint8(v))
			if c.Get() != v || c.SQN() != uint8(v) || c.Overflow() != uint16(v>>8) {
				bad++
				if bad < 5 {
					r.Fail(hk.Failure{Site: "security.Count", Class: "law", Input: []string{fmt.Sprintf("OpSet %d %d", v>>8, v&255), "OpGet"}, Detail: "reads disagree with the value set"})
				}
			}
			c.AddOne()
			if c.Get() != (v+1)%(1<<24) {
				bad++
				if bad < 5 {
					r.Fail(hk.Failure{Site: "security.Count", Class: "law", Input: []string{fmt.Sprintf("OpSet %d %d", v>>8, v&255), "OpAddOne", "OpGet"}, Detail: "AddOne is not +1 mod 2^24"})
				}
			}
			r.Evals++
		}
		r.Streams["exhaustive_2^24_states_impl_only"] = 1 << 24
		r.Extra["exhaustive_states"] = 1 << 24
	}
}
