// C18 harness: UE policy container (package uePolicyContainer, everything except the
// identifier generator): decoders on arbitrary octets, API-built structures through
// encode -> decode, and the three PLMN octets against TS 24.008.
package main

import (
	"bytes"
	"fmt"
	"strings"
	"time"

	"github.com/free5gc/nas/nasConvert"
	upc "github.com/free5gc/nas/uePolicyContainer"
	"github.com/free5gc/openapi/models"

	"verifharness/hk"
)

func main() { hk.Main("C18", runC18) }

// ---------------------------------------------------------------- flattening (mirrors C18/Corr.v)

func zopt(p *int) uint64 {
	if p == nil {
		return 9999999999
	}
	if *p < 0 {
		return 4000000000 + uint64(-*p)
	}
	return uint64(*p)
}

func flatBytes(b []byte) []uint64 {
	r := []uint64{uint64(len(b))}
	for _, x := range b {
		r = append(r, uint64(x))
	}
	return r
}

func flatPart(p *upc.UEPolicyPart) []uint64 {
	return append([]uint64{uint64(p.Len), uint64(p.UEPolicyPartType.Octet)}, flatBytes(p.UEPolicyPartContents)...)
}

func flatIns(i *upc.Instruction) []uint64 {
	r := []uint64{uint64(i.Len), uint64(i.Upsc), uint64(len(i.UEPolicySectionContents))}
	for k := range i.UEPolicySectionContents {
		r = append(r, flatPart(&i.UEPolicySectionContents[k])...)
	}
	return r
}

func flatSub(s *upc.UEPolicySectionManagementSubList) []uint64 {
	r := []uint64{uint64(s.Len), uint64(s.PlmnDigit1), uint64(s.PlmnDigit2), uint64(s.PlmnDigit3), zopt(s.Mcc), zopt(s.Mnc),
		uint64(len(s.UEPolicySectionManagementSubListContents))}
	for k := range s.UEPolicySectionManagementSubListContents {
		r = append(r, flatIns(&s.UEPolicySectionManagementSubListContents[k])...)
	}
	return r
}

func flatListContent(l upc.UEPolicySectionManagementListContent) []uint64 {
	r := []uint64{uint64(len(l))}
	for k := range l {
		r = append(r, flatSub(&l[k])...)
	}
	return r
}

func flatSubRes(s *upc.UEPolicySectionManagementSubResult) []uint64 {
	r := []uint64{uint64(s.Len), uint64(s.PlmnDigit1), uint64(s.PlmnDigit2), uint64(s.PlmnDigit3), zopt(s.Mcc), zopt(s.Mnc),
		uint64(len(s.UEPolicySectionManagementSubResultContents))}
	for _, x := range s.UEPolicySectionManagementSubResultContents {
		r = append(r, uint64(x.Upsc), uint64(x.FailInstructionOrder), uint64(x.Cause))
	}
	return r
}

func flatResultContent(l upc.UEPolicySectionManagementResultContent) []uint64 {
	r := []uint64{uint64(len(l))}
	for k := range l {
		r = append(r, flatSubRes(&l[k])...)
	}
	return r
}

func flatIE(iei uint8, ln uint16, buf []byte) []uint64 {
	return append([]uint64{uint64(iei), uint64(ln)}, flatBytes(buf)...)
}

func flatSer(u *upc.UePolDeliverySer) []uint64 {
	r := []uint64{uint64(u.GetHeaderPTI()), uint64(u.GetHeaderMessageType())}
	if m := u.ManageUEPolicyCommand; m != nil {
		r = append(r, 1, uint64(m.PTI.Octet), uint64(m.UePolicyDeliveryServiceMsgType.Octet))
		l := &m.UEPolicySectionManagementList
		r = append(r, flatIE(l.Iei, l.Len, l.Buffer)...)
		if c := m.UEPolicyNetworkClassmark; c != nil {
			r = append(r, 1, uint64(c.Iei), uint64(c.Len), uint64(c.NSSUI), uint64(c.Spare))
		} else {
			r = append(r, 0)
		}
	} else {
		r = append(r, 0)
	}
	if m := u.ManageUEPolicyComplete; m != nil {
		r = append(r, 1, uint64(m.PTI.Octet), uint64(m.UePolicyDeliveryServiceMsgType.Octet))
	} else {
		r = append(r, 0)
	}
	if m := u.ManageUEPolicyReject; m != nil {
		r = append(r, 1, uint64(m.PTI.Octet), uint64(m.UePolicyDeliveryServiceMsgType.Octet))
		l := &m.UEPolicySectionManagementResult
		r = append(r, flatIE(l.Iei, l.Len, l.Buffer)...)
	} else {
		r = append(r, 0)
	}
	return r
}

func coqNs(v []uint64) string {
	if len(v) == 0 {
		return "[]"
	}
	var sb strings.Builder
	sb.WriteByte('[')
	for i, x := range v {
		if i > 0 {
			sb.WriteByte(';')
		}
		fmt.Fprintf(&sb, "%d", x)
	}
	sb.WriteByte(']')
	return sb.String()
}

func eqNs(a, b []uint64) bool {
	if len(a) != len(b) {
		return false
	}
	for i := range a {
		if a[i] != b[i] {
			return false
		}
	}
	return true
}

// ---------------------------------------------------------------- Coq terms of the structures

func coqZopt(p *int) string {
	if p == nil {
		return "None"
	}
	return fmt.Sprintf("(Some (%d)%%Z)", *p)
}

func coqPart(p *upc.UEPolicyPart) string {
	return fmt.Sprintf("mkPart %d %d %s", p.Len, p.UEPolicyPartType.Octet, hk.CoqBytes(p.UEPolicyPartContents))
}

func coqIns(i *upc.Instruction) string {
	var ps []string
	for k := range i.UEPolicySectionContents {
		ps = append(ps, coqPart(&i.UEPolicySectionContents[k]))
	}
	return fmt.Sprintf("mkIns %d %d %s", i.Len, i.Upsc, hk.CoqList(ps))
}

func coqSub(s *upc.UEPolicySectionManagementSubList) string {
	var is []string
	for k := range s.UEPolicySectionManagementSubListContents {
		is = append(is, coqIns(&s.UEPolicySectionManagementSubListContents[k]))
	}
	return fmt.Sprintf("mkSubList %d %d %d %d %s %s %s", s.Len, s.PlmnDigit1, s.PlmnDigit2, s.PlmnDigit3, coqZopt(s.Mcc), coqZopt(s.Mnc), hk.CoqList(is))
}

func coqListContent(l upc.UEPolicySectionManagementListContent) string {
	var ss []string
	for k := range l {
		ss = append(ss, coqSub(&l[k]))
	}
	return hk.CoqList(ss)
}

func coqSubRes(s *upc.UEPolicySectionManagementSubResult) string {
	var rs []string
	for _, x := range s.UEPolicySectionManagementSubResultContents {
		rs = append(rs, fmt.Sprintf("mkResult %d %d %d", x.Upsc, x.FailInstructionOrder, x.Cause))
	}
	return fmt.Sprintf("mkSubResult %d %d %d %d %s %s %s", s.Len, s.PlmnDigit1, s.PlmnDigit2, s.PlmnDigit3, coqZopt(s.Mcc), coqZopt(s.Mnc), hk.CoqList(rs))
}

func coqResultContent(l upc.UEPolicySectionManagementResultContent) string {
	var ss []string
	for k := range l {
		ss = append(ss, coqSubRes(&l[k]))
	}
	return hk.CoqList(ss)
}

func coqSer(u *upc.UePolDeliverySer) string {
	cmd, cpl, rej := "None", "None", "None"
	if m := u.ManageUEPolicyCommand; m != nil {
		cm := "None"
		if c := m.UEPolicyNetworkClassmark; c != nil {
			cm = fmt.Sprintf("(Some (mkClassmark %d %d %d %d))", c.Iei, c.Len, c.NSSUI, c.Spare)
		}
		l := &m.UEPolicySectionManagementList
		cmd = fmt.Sprintf("(Some (mkCommand %d %d (mkIE %d %d %s) %s))", m.PTI.Octet, m.UePolicyDeliveryServiceMsgType.Octet, l.Iei, l.Len, hk.CoqBytes(l.Buffer), cm)
	}
	if m := u.ManageUEPolicyComplete; m != nil {
		cpl = fmt.Sprintf("(Some (mkComplete %d %d))", m.PTI.Octet, m.UePolicyDeliveryServiceMsgType.Octet)
	}
	if m := u.ManageUEPolicyReject; m != nil {
		l := &m.UEPolicySectionManagementResult
		rej = fmt.Sprintf("(Some (mkReject %d %d (mkIE %d %d %s)))", m.PTI.Octet, m.UePolicyDeliveryServiceMsgType.Octet, l.Iei, l.Len, hk.CoqBytes(l.Buffer))
	}
	return fmt.Sprintf("(mkSer %d %d %s %s %s)", u.GetHeaderPTI(), u.GetHeaderMessageType(), cmd, cpl, rej)
}

// ---------------------------------------------------------------- independent reference (written from TS 24.501 D.6.2 / D.6.3, TS 24.008 10.5.1.3)

// refPlmn: octets of a PLMN given as decimal digit strings (MCC 3 digits, MNC 2 or 3 digits):
// octet 1 = MCC digit 2 | MCC digit 1, octet 2 = MNC digit 3 (1111 if absent) | MCC digit 3,
// octet 3 = MNC digit 2 | MNC digit 1 (digit 1 = first = most significant digit).
func refPlmn(mcc, mnc string) [3]byte {
	d := func(c byte) byte { return c - '0' }
	n3 := byte(0x0f)
	if len(mnc) == 3 {
		n3 = d(mnc[2])
	}
	return [3]byte{d(mcc[1])<<4 | d(mcc[0]), n3<<4 | d(mcc[2]), d(mnc[1])<<4 | d(mnc[0])}
}

type refPart struct {
	typ     byte
	content []byte
}
type refIns struct {
	upsc  uint16
	parts []refPart
}
type refSub struct {
	plmn [3]byte
	ins  []refIns
}

func be16(v int) []byte { return []byte{byte(v >> 8), byte(v)} }

// refEncodeList returns the octets of a section-management list content and the
// offsets of every 16-bit length field (for the malformed stream)
func refEncodeList(subs []refSub) (out []byte, lenPos []int) {
	for _, s := range subs {
		var sb []byte
		var spos []int
		for _, in := range s.ins {
			var ib []byte
			var ipos []int
			for _, p := range in.parts {
				ipos = append(ipos, len(ib))
				ib = append(ib, be16(1+len(p.content))...)
				ib = append(ib, p.typ)
				ib = append(ib, p.content...)
			}
			spos = append(spos, len(sb))
			for _, q := range ipos {
				spos = append(spos, len(sb)+4+q)
			}
			sb = append(sb, be16(2+len(ib))...)
			sb = append(sb, be16(int(in.upsc))...)
			sb = append(sb, ib...)
		}
		lenPos = append(lenPos, len(out))
		for _, q := range spos {
			lenPos = append(lenPos, len(out)+5+q)
		}
		out = append(out, be16(3+len(sb))...)
		out = append(out, s.plmn[:]...)
		out = append(out, sb...)
	}
	return
}

// ---------------------------------------------------------------- the harness

type c18 struct {
	r        *hk.Run
	hangs    int
	f17      int // failures of the known wrong digit order already reported
	nInvalid int
	noCase   bool // oracle only: the input is too large to be written as a Coq term
	seen     map[string]bool
	// values that are decoded into again and again (stale state must not survive a decode)
	reSer map[byte]*upc.UePolDeliverySer
}

func (c *c18) fail(site, class string, input interface{}, detail string) {
	if t, ok := input.(string); ok && len(t) > 400 {
		input = t[:400] + "..."
	}
	if len(detail) > 900 {
		detail = detail[:900] + "..."
	}
	c.r.Fail(hk.Failure{Site: site, Class: class, Input: input, Detail: detail})
}

const (
	decSer = iota
	decListIE
	decResultIE
	decListContent
	decResultContent
)

var decName = []string{"UePolDeliverySerDecode", "UEPolicySectionManagementList.UnmarshalBinary", "UEPolicySectionManagementResult.UnmarshalBinary",
	"UEPolicySectionManagementListContent.UnmarshalBinary", "UEPolicySectionManagementResultContent.UnmarshalBinary"}
var decCase = []string{"CDecSer", "CDecListIE", "CDecResultIE", "CDecListContent", "CDecResultContent"}

// decode runs one decoder; the input is copied (len = cap) so that the caller's octets
// are never aliased.  Returns the observation as a Coq term and the flattened value.
func (c *c18) decodeOnce(which int, in []byte) (obs string, flat []uint64, class string) {
	b := append(make([]byte, 0, len(in)), in...)
	var err error
	run := func() {
		switch which {
		case decSer:
			u := upc.NewUePolDeliverySer()
			err = u.UePolDeliverySerDecode(b)
			flat = flatSer(u)
		case decListIE:
			var l upc.UEPolicySectionManagementList
			buf := bytes.NewBuffer(b)
			err = l.UnmarshalBinary(buf)
			flat = append(flatIE(l.Iei, l.Len, l.Buffer), uint64(buf.Len()))
		case decResultIE:
			var l upc.UEPolicySectionManagementResult
			buf := bytes.NewBuffer(b)
			err = l.UnmarshalBinary(buf)
			flat = append(flatIE(l.Iei, l.Len, l.Buffer), uint64(buf.Len()))
		case decListContent:
			var l upc.UEPolicySectionManagementListContent
			err = l.UnmarshalBinary(b)
			flat = flatListContent(l)
		case decResultContent:
			var l upc.UEPolicySectionManagementResultContent
			err = l.UnmarshalBinary(b)
			flat = flatResultContent(l)
		}
	}
	if c.hangs >= 2 {
		return "OHang", nil, "skipped"
	}
	p, hang, _ := hk.CatchTimeout(5*time.Second, run)
	switch {
	case hang:
		c.hangs++
		return "OHang", nil, "hang"
	case p:
		return "OPanic", nil, "panic"
	case err != nil:
		return "OErr", nil, "err"
	}
	return "OOk " + coqNs(flat), flat, "ok"
}

// decodeReused decodes a whole container into a value that earlier containers OF THE SAME MESSAGE TYPE were
// decoded into (one long-lived target per message type: the unchanged code allocates the message body anew
// on every decode, so a target that only ever saw this type must end up exactly like a fresh one; the list
// decoders append by design and are not included)
func (c *c18) decodeReused(which int, in []byte) (flat []uint64, ok bool) {
	if which != decSer || len(in) < 2 {
		return nil, false
	}
	b := append(make([]byte, 0, len(in)), in...)
	if c.reSer == nil {
		c.reSer = map[byte]*upc.UePolDeliverySer{}
	}
	u := c.reSer[in[1]]
	if u == nil {
		u = upc.NewUePolDeliverySer()
		c.reSer[in[1]] = u
	}
	var err error
	p, _ := hk.Catch(func() {
		err = u.UePolDeliverySerDecode(b)
		flat = flatSer(u)
	})
	return flat, !p && err == nil
}

// emitDecode: one decoder on one input = one correspondence case + the totality oracle
func (c *c18) emitDecode(stream string, which int, in []byte) (flat []uint64, class string) {
	r := c.r
	obs, flat, class := c.decodeOnce(which, in)
	if class == "skipped" {
		return nil, class
	}
	if class == "panic" || class == "hang" {
		c.fail("uePolicyContainer."+decName[which], class, hk.Hex(in), decName[which]+" must return a value or an error")
	}
	if !c.noCase {
		id := r.NextID()
		r.AddCase(fmt.Sprintf("%s %d %s (%s)", decCase[which], id, hk.CoqBytes(in), obs), fmt.Sprintf("%s %s", decName[which], hk.Hex(in)))
	}
	// decoding into a value that was already decoded into before must give what a fresh value gives:
	// decode is the inverse of encode, whatever the target held
	if class == "ok" {
		if got, ok := c.decodeReused(which, in); ok && fmt.Sprint(got) != fmt.Sprint(flat) {
			c.fail("uePolicyContainer."+decName[which], "decode-into-used-value-differs", hk.Hex(in),
				"decoding into a value that already holds an earlier message gives a different result than decoding into a fresh one (stale fields survive)")
		}
	}
	key := ""
	if class == "ok" && len(in) > 4 {
		key = fmt.Sprintf("%d:%x", which, in)
	}
	r.Count(stream, key)
	r.Dist[fmt.Sprintf("dec%d_%s", which, class)]++
	l := len(in)
	switch {
	case l > 64:
		l = 999
	case l > 16:
		l = l / 16 * 16
	}
	r.Dist[fmt.Sprintf("declen_%03d", l)]++
	return flat, class
}

func (c *c18) emitDecodeAll(stream string, in []byte) {
	for w := 0; w < 5; w++ {
		c.emitDecode(stream, w, in)
	}
}

// ---- building nested lists through the API

type shape struct {
	subs []subShape
}
type subShape struct {
	mcc, mnc int
	setPlmn  bool
	preLen   uint16 // value given to SetLen before encoding (MarshalBinary must overwrite it)
	ins      []insShape
}
type insShape struct {
	upsc   uint16
	preLen uint16
	parts  []refPart
	// value given to SetLen of every part before encoding (0 = left alone): MarshalBinary must overwrite it (F24)
	partPreLen uint16
}

func (c *c18) buildList(sh shape) (upc.UEPolicySectionManagementListContent, []refSub) {
	var l upc.UEPolicySectionManagementListContent
	var ref []refSub
	for _, s := range sh.subs {
		var sub upc.UEPolicySectionManagementSubList
		sub.SetLen(s.preLen)
		rs := refSub{}
		if s.setPlmn {
			if err := sub.SetPlmnDigit(s.mcc, s.mnc); err != nil {
				panic("generator: SetPlmnDigit rejected " + fmt.Sprint(s.mcc, s.mnc))
			}
			// the reference uses the octets the implementation produced: the digit order is
			// judged separately (plmn stream), here only the framing is
			rs.plmn = [3]byte{sub.PlmnDigit1, sub.PlmnDigit2, sub.PlmnDigit3}
		}
		for _, in := range s.ins {
			var ins upc.Instruction
			ins.SetUpsc(in.upsc)
			ins.SetLen(in.preLen)
			ri := refIns{upsc: in.upsc}
			// half of the instructions are built the way application code does it: ONE part variable,
			// refilled and appended again (AppendUEPolicyPart copies the struct); the other half uses a
			// fresh variable per part
			var reused upc.UEPolicyPart
			reuse := (int(in.upsc)+len(in.parts))%2 == 0
			for _, p := range in.parts {
				var fresh upc.UEPolicyPart
				part := &fresh
				if reuse {
					part = &reused
				}
				_ = part
				part.UEPolicyPartType.SetPartType(p.typ)
				part.SetPartContent(hk.ExactNil(p.content))
				if in.partPreLen != 0 {
					part.SetLen(in.partPreLen)
				}
				ins.UEPolicySectionContents.AppendUEPolicyPart(part)
				ri.parts = append(ri.parts, p)
			}
			sub.UEPolicySectionManagementSubListContents.AppendInstruction(ins)
			rs.ins = append(rs.ins, ri)
		}
		l.AppendSublist(sub)
		ref = append(ref, rs)
	}
	return l, ref
}

// emitList: build through the API, encode, compare with the reference encoder, decode, compare
func (c *c18) emitList(stream string, sh shape) (enc []byte, lenPos []int) {
	r := c.r
	l, ref := c.buildList(sh)
	before := coqListContent(l)
	var out []byte
	var err error
	p, _ := hk.Catch(func() { out, err = l.MarshalBinary() })
	c.r.Retain("uePolicyContainer.UEPolicySectionManagementListContent.MarshalBinary", before, out)
	desc := "ListContent.MarshalBinary " + before
	if p || err != nil {
		c.fail("uePolicyContainer.UEPolicySectionManagementListContent.MarshalBinary", "encode-failed", before, "MarshalBinary of an API-built list panicked or failed")
		return nil, nil
	}
	after := flatListContent(l)
	if !c.noCase {
		id := r.NextID()
		r.AddCase(fmt.Sprintf("CEncListContent %d %s %s %s", id, before, hk.CoqBytes(out), coqNs(after)), desc)
	}
	want, lenPos := refEncodeList(ref)
	if !bytes.Equal(out, want) {
		c.fail("uePolicyContainer.UEPolicySectionManagementListContent.MarshalBinary", "wrong-encoding", before,
			fmt.Sprintf("octets %x, reference encoder (lengths computed from content) gives %x", out, want))
	}
	// decode what was encoded: equal structure (lengths as recomputed by MarshalBinary)
	flat, class := c.emitDecode(stream, decListContent, out)
	// a sublist whose PLMN was never set has nil Mcc / Mnc and zero octets; the decoder derives 0 / 0
	zero := 0
	for k := range l {
		if l[k].Mcc == nil {
			l[k].Mcc, l[k].Mnc = &zero, &zero
		}
	}
	after = flatListContent(l)
	if class != "skipped" && (class != "ok" || !eqNs(flat, after)) {
		c.fail("uePolicyContainer.UEPolicySectionManagementListContent", "roundtrip", before,
			fmt.Sprintf("decode(encode x) is %s %v, x with recomputed lengths is %v (octets %x)", class, flat, after, out))
	}
	nparts := 0
	for _, s := range sh.subs {
		for _, in := range s.ins {
			nparts += len(in.parts)
		}
	}
	key := ""
	if nparts > 0 {
		key = "enc:" + hk.Hex(out)
	}
	r.Count(stream, key)
	r.Dist[fmt.Sprintf("list_subs_%d", len(sh.subs))]++
	r.Sample(map[string]interface{}{"list": before, "octets": hk.Hex(out)})
	return out, lenPos
}

type resShape struct {
	mcc, mnc int
	setPlmn  bool
	preLen   uint16
	res      [][3]int // upsc, order, cause
}

func (c *c18) emitResult(stream string, sh []resShape) []byte {
	r := c.r
	var l upc.UEPolicySectionManagementResultContent
	var want []byte
	for _, s := range sh {
		var sub upc.UEPolicySectionManagementSubResult
		sub.SetLen(s.preLen)
		if s.setPlmn {
			if err := sub.SetPlmnDigit(s.mcc, s.mnc); err != nil {
				panic("generator: SetPlmnDigit rejected")
			}
		}
		want = append(want, be16(3+5*len(s.res))...)
		want = append(want, sub.PlmnDigit1, sub.PlmnDigit2, sub.PlmnDigit3)
		for _, x := range s.res {
			res := upc.NewResult()
			res.SetUpsc(uint16(x[0]))
			res.FailInstructionOrder = uint16(x[1])
			res.Cause = uint8(x[2])
			sub.UEPolicySectionManagementSubResultContents.AppendResult(res)
			want = append(want, be16(x[0])...)
			want = append(want, be16(x[1])...)
			want = append(want, 0x6f)
		}
		l.AppendSublist(sub)
	}
	before := coqResultContent(l)
	var out []byte
	var err error
	p, _ := hk.Catch(func() { out, err = l.MarshalBinary() })
	c.r.Retain("uePolicyContainer.UEPolicySectionManagementResultContent.MarshalBinary", before, out)
	if p || err != nil {
		c.fail("uePolicyContainer.UEPolicySectionManagementResultContent.MarshalBinary", "encode-failed", before, "MarshalBinary of an API-built result panicked or failed")
		return nil
	}
	after := flatResultContent(l)
	id := r.NextID()
	r.AddCase(fmt.Sprintf("CEncResultContent %d %s %s %s", id, before, hk.CoqBytes(out), coqNs(after)), "ResultContent.MarshalBinary "+before)
	if !bytes.Equal(out, want) {
		c.fail("uePolicyContainer.UEPolicySectionManagementResultContent.MarshalBinary", "wrong-encoding", before,
			fmt.Sprintf("octets %x, reference encoder gives %x", out, want))
	}
	flat, class := c.emitDecode(stream, decResultContent, out)
	zero := 0
	for k := range l {
		if l[k].Mcc == nil {
			l[k].Mcc, l[k].Mnc = &zero, &zero
		}
	}
	after = flatResultContent(l)
	if class != "skipped" && (class != "ok" || !eqNs(flat, after)) {
		c.fail("uePolicyContainer.UEPolicySectionManagementResultContent", "roundtrip", before,
			fmt.Sprintf("decode(encode x) is %s %v, x after MarshalBinary is %v (octets %x)", class, flat, after, out))
	}
	key := ""
	if len(out) > 5 {
		key = "encres:" + hk.Hex(out)
	}
	r.Count(stream, key)
	r.Dist[fmt.Sprintf("result_subs_%d", len(sh))]++
	return out
}

// ---- messages

type serShape struct {
	hPTI, hType  uint8
	kind         int // 0 none, 1 command, 2 complete, 3 reject
	pti, typ     uint8
	iei          uint8
	ln           int // -1: len(buffer)
	buf          []byte
	classmark    bool
	cIei, cNSSUI uint8
}

func buildSer(s serShape) *upc.UePolDeliverySer {
	u := upc.NewUePolDeliverySer()
	u.SetHeaderPTI(s.hPTI)
	u.SetHeaderMessageType(s.hType)
	ln := uint16(len(s.buf))
	if s.ln >= 0 {
		ln = uint16(s.ln)
	}
	switch s.kind {
	case 1:
		m := upc.NewManageUEPolicyCommand(s.typ)
		m.SetPTI(s.pti)
		m.UEPolicySectionManagementList.SetIei(s.iei)
		m.UEPolicySectionManagementList.SetLen(ln)
		m.UEPolicySectionManagementList.SetUEPolicySectionManagementListContent(s.buf)
		if s.classmark {
			m.UEPolicyNetworkClassmark = upc.NewUEPolicyNetworkClassmark()
			m.UEPolicyNetworkClassmark.SetIei(s.cIei)
			_ = m.UEPolicyNetworkClassmark.SetNSSUI(s.cNSSUI)
		}
		u.ManageUEPolicyCommand = m
	case 2:
		m := upc.NewManageUEPolicyComplete(s.typ)
		m.SetPTI(s.pti)
		u.ManageUEPolicyComplete = m
	case 3:
		m := upc.NewManageUEPolicyReject(s.typ)
		m.SetPTI(s.pti)
		m.UEPolicySectionManagementResult.SetIei(s.iei)
		m.UEPolicySectionManagementResult.SetLen(ln)
		m.UEPolicySectionManagementResult.SetUEPolicySectionManagementResultContent(s.buf)
		u.ManageUEPolicyReject = m
	}
	return u
}

func (c *c18) emitSer(stream string, s serShape) []byte {
	r := c.r
	u := buildSer(s)
	term := coqSer(u)
	var out []byte
	var err error
	p, _ := hk.Catch(func() { out, err = u.UePolDeliverySerEncode() })
	r.Retain("uePolicyContainer.UePolDeliverySer.UePolDeliverySerEncode", term, out)
	obs := "OErr"
	switch {
	case p:
		obs = "OPanic"
	case err == nil:
		obs = "OOk " + hk.CoqBytes(out)
	}
	if !c.noCase {
		id := r.NextID()
		r.AddCase(fmt.Sprintf("CEncSer %d %s (%s)", id, term, obs), "UePolDeliverySerEncode "+term)
	}
	// well-formed as the API intends: header type = body type = kind, body present, Len = len(Buffer)
	wf := s.kind >= 1 && s.kind <= 3 && int(s.hType) == s.kind && int(s.typ) == s.kind && (s.ln < 0 || s.ln == len(s.buf)) && len(s.buf) < 65536
	key := ""
	if wf {
		key = "ser:" + term
		if p || err != nil {
			c.fail("uePolicyContainer.UePolDeliverySerEncode", "encode-failed", term, "encoding a well-formed message panicked or failed")
		} else {
			// expected: the decoded message equals the built one, its header being the body's PTI and type
			want := buildSer(s)
			want.SetHeaderPTI(s.pti)
			flat, class := c.emitDecode(stream, decSer, out)
			if class != "skipped" && (class != "ok" || !eqNs(flat, flatSer(want))) {
				c.fail("uePolicyContainer.UePolDeliverySer", "roundtrip", term,
					fmt.Sprintf("decode(encode x) is %s %v, expected %v (octets %x)", class, flat, flatSer(want), out))
			}
		}
	}
	r.Count(stream, key)
	r.Dist[fmt.Sprintf("ser_kind_%d", s.kind)]++
	if err == nil && !p {
		return out
	}
	return nil
}

// ---- PLMN

func digits(v, n int) string { return fmt.Sprintf("%0*d", n, v) }

// plmnOracle: SetPlmnDigit(mcc, mnc) for a 3-digit MCC and a 2-/3-digit MNC against TS 24.008
// and against the library's other PLMN encoder; returns the observed octets
func (c *c18) plmnOracle(mcc, mnc int, asCase bool) {
	r := c.r
	var s upc.UEPolicySectionManagementSubList
	var s2 upc.UEPolicySectionManagementSubResult
	var err, err2 error
	p, _ := hk.Catch(func() { err = s.SetPlmnDigit(mcc, mnc); err2 = s2.SetPlmnDigit(mcc, mnc) })
	in := fmt.Sprintf("%d-%d", mcc, mnc)
	if p {
		c.fail("uePolicyContainer.SetPlmnDigit", "panic", in, "SetPlmnDigit panicked")
		return
	}
	got := [3]byte{s.PlmnDigit1, s.PlmnDigit2, s.PlmnDigit3}
	got2 := [3]byte{s2.PlmnDigit1, s2.PlmnDigit2, s2.PlmnDigit3}
	if asCase {
		id := r.NextID()
		r.AddCase(fmt.Sprintf("CSetPlmn %d (%d)%%Z (%d)%%Z %s %d %d %d", id, mcc, mnc, hk.CoqBool(err == nil), got[0], got[1], got[2]), "SubList.SetPlmnDigit "+in)
		id = r.NextID()
		r.AddCase(fmt.Sprintf("CSetPlmn %d (%d)%%Z (%d)%%Z %s %d %d %d", id, mcc, mnc, hk.CoqBool(err2 == nil), got2[0], got2[1], got2[2]), "SubResult.SetPlmnDigit "+in)
	}
	r.Evals++
	r.Streams["plmn_pairs"]++
	inDomain := mcc >= 100 && mcc <= 999 && mnc >= 10 && mnc <= 999
	if inDomain {
		if err != nil || err2 != nil {
			c.fail("uePolicyContainer.SetPlmnDigit", "rejected", in, "a 3-digit MCC with a 2- or 3-digit MNC was rejected")
			return
		}
		mccS := digits(mcc, 3)
		mncS := digits(mnc, 2)
		if mnc >= 100 {
			mncS = digits(mnc, 3)
		}
		want := refPlmn(mccS, mncS)
		lib := nasConvert.PlmnIDToNas(models.PlmnId{Mcc: mccS, Mnc: mncS})
		if len(lib) != 3 || lib[0] != want[0] || lib[1] != want[1] || lib[2] != want[2] {
			c.fail("nasConvert.PlmnIDToNas", "wrong-encoding", in, fmt.Sprintf("PlmnIDToNas gives %x, TS 24.008 10.5.1.3 gives %x", lib, want))
		}
		// the digit strings read the same in both directions: the only pairs on which the
		// reversed digit order of the known defect F17 cannot show (theorem C18_plmn_partial)
		pal := mccS[0] == mccS[2] && mncS[0] == mncS[len(mncS)-1]
		for _, g := range [][3]byte{got, got2} {
			if g != want {
				// F17 fails on 98.8 % of all pairs: keep a few witnesses of it, but every
				// failure on a palindromic pair (which is never F17)
				if pal || c.f17 < 8 {
					c.fail("uePolicyContainer.SetPlmnDigit", "wrong-encoding", in,
						fmt.Sprintf("SetPlmnDigit(%d, %d) gives octets %x; TS 24.008 10.5.1.3 and nasConvert.PlmnIDToNas give %x", mcc, mnc, g, want))
				}
				if !pal {
					c.f17++
				}
				break
			}
		}
		if got == want {
			r.Streams["plmn_agrees_with_24008"]++
		} else {
			r.Streams["plmn_differs_from_24008"]++
		}
	}
	// a value that is not a 3-digit MCC / at most 3-digit MNC must be refused (F23, fixed)
	if (mcc > 999 || mnc > 999 || mcc < 0 || mnc < 0) && (err == nil || err2 == nil) {
		c.nInvalid++
		if c.nInvalid <= 6 {
			c.fail("uePolicyContainer.SetPlmnDigit", "accepts-invalid", in, fmt.Sprintf("SetPlmnDigit(%d, %d) returned nil for a value with more than three digits or a negative one; octets %x (repaired defect F23 is back)", mcc, mnc, got))
		}
		return
	}
	// whatever SetPlmnDigit accepts must survive encode -> decode with the same MCC / MNC
	if err == nil {
		var l upc.UEPolicySectionManagementListContent
		l.AppendSublist(s)
		var out []byte
		var l2 upc.UEPolicySectionManagementListContent
		var derr error
		p, _ := hk.Catch(func() {
			out, _ = l.MarshalBinary()
			derr = l2.UnmarshalBinary(out)
		})
		ok := !p && derr == nil && len(l2) == 1 && l2[0].Mcc != nil && l2[0].Mnc != nil && *l2[0].Mcc == mcc && *l2[0].Mnc == mnc
		if ok && err2 == nil { // the same through the result sublist
			var rl, rl2 upc.UEPolicySectionManagementResultContent
			rl.AppendSublist(s2)
			p, _ = hk.Catch(func() {
				out, _ = rl.MarshalBinary()
				derr = rl2.UnmarshalBinary(out)
			})
			ok = !p && derr == nil && len(rl2) == 1 && rl2[0].Mcc != nil && rl2[0].Mnc != nil && *rl2[0].Mcc == mcc && *rl2[0].Mnc == mnc
			got = got2
		}
		if !ok {
			class := "roundtrip"
			if !inDomain {
				class = "accepts-invalid"
				c.nInvalid++
				if c.nInvalid > 6 { // one cause: a few witnesses are enough, do not crowd out other failures
					return
				}
			}
			note := ""
			if !inDomain {
				note = "; the value is outside MCC 100..999 / MNC 10..999 and should have been rejected (repaired defect F23 for MNC >= 1000)"
			}
			c.fail("uePolicyContainer.SetPlmnDigit", class, in,
				fmt.Sprintf("SetPlmnDigit(%d, %d) returned nil, octets %x do not decode back to the same MCC/MNC (panic=%v err=%v)%s", mcc, mnc, got, p, derr, note))
		}
	}
}

func runC18(r *hk.Run) {
	r.SetCoq("From NV Require Import Lib.Base C18.Model C18.Corr.\nOpen Scope N_scope.", "case")
	c := &c18{r: r, seen: map[string]bool{}}
	rng := r.Rng

	// ---------------- further oracles on the implementation only
	// a UEPolicyPart re-encoded after its content changed must carry the length of the new content
	{
		var part upc.UEPolicyPart
		part.UEPolicyPartType.SetPartType(upc.UEPolicyPartType_URSP)
		part.SetPartContent([]byte{1, 2, 3})
		_, _ = part.MarshalBinary()
		part.SetPartContent([]byte{9})
		out, _ := part.MarshalBinary()
		if len(out) < 2 || int(out[0])<<8|int(out[1]) != 2 {
			c.fail("uePolicyContainer.UEPolicyPart.MarshalBinary", "stale-length", "content 010203 encoded, content replaced by 09, encoded again",
				fmt.Sprintf("second encoding %x does not carry the length of the new content (repaired defect F24 is back)", out))
		}
		r.Evals++
	}

	// the element-level encoders (IEI, 2-octet length, contents) against their decoders
	for i := 0; i < 40; i++ {
		n := rng.Pick(0, 1, 2, 255, 256, 300)
		if i >= 6 {
			n = rng.Intn(40)
		}
		l := upc.NewUEPolicySectionManagementList(byte(rng.Intn(256)))
		l.Len, l.Buffer = uint16(n), rng.Bytes(n)
		res := upc.NewUEPolicySectionManagementResult(byte(rng.Intn(256)))
		res.Len, res.Buffer = uint16(n), rng.Bytes(n)
		o1, e1 := l.MarshalBinary()
		o2, e2 := res.MarshalBinary()
		r.Retain("uePolicyContainer.UEPolicySectionManagementList.MarshalBinary", hk.Hex(l.Buffer), o1)
		r.Retain("uePolicyContainer.UEPolicySectionManagementResult.MarshalBinary", hk.Hex(res.Buffer), o2)
		var bl upc.UEPolicySectionManagementList
		var br upc.UEPolicySectionManagementResult
		if e1 != nil || bl.UnmarshalBinary(bytes.NewBuffer(hk.ExactNil(o1))) != nil || bl.Iei != l.Iei || bl.Len != l.Len || !bytes.Equal(bl.Buffer, l.Buffer) {
			c.fail("uePolicyContainer.UEPolicySectionManagementList.MarshalBinary", "roundtrip", hk.Hex(o1), "decode(encode(element)) differs from the element")
		}
		if e2 != nil || br.UnmarshalBinary(bytes.NewBuffer(hk.ExactNil(o2))) != nil || br.Iei != res.Iei || br.Len != res.Len || !bytes.Equal(br.Buffer, res.Buffer) {
			c.fail("uePolicyContainer.UEPolicySectionManagementResult.MarshalBinary", "roundtrip", hk.Hex(o2), "decode(encode(element)) differs from the element")
		}
		r.Evals += 2
	}

	// ---------------- (1) corpus
	// F16 (fixed): instruction with Len < 2 inside a sublist; and as raw instruction stream via sublist framing
	for _, in := range [][]byte{
		{0x00, 0x07, 0x02, 0xf8, 0x39, 0x00, 0x01, 0x00, 0x00},
		{0x00, 0x07, 0x02, 0xf8, 0x39, 0x00, 0x00, 0x00, 0x00},
		{0x00, 0x01, 0x00, 0x00},
		{0x00, 0x00, 0x02, 0xf8, 0x39}, // sublist Len < 3: uint16 subtraction wraps
		{0x00, 0x02, 0x02, 0xf8, 0x39, 0x00, 0x02, 0x00, 0x01},
		{0x00, 0x0a, 0x02, 0xf8, 0x39, 0x00, 0x05, 0x00, 0x01, 0x00, 0x00, 0x01}, // part Len 0: asks for 65535 octets
		{0x00, 0x0a, 0x02, 0xf8, 0x39, 0x00, 0x05, 0x00, 0x01, 0x00, 0x01, 0x01}, // part Len 1: empty contents
		{0x00, 0x09, 0x02, 0xf8, 0x39, 0x00, 0x04, 0x00, 0x01, 0x00, 0x01},       // part type missing: io.EOF ends the list silently
		{0x00, 0x03, 0x0a, 0xf8, 0x39}, {0x00, 0x03, 0xa0, 0xf8, 0x39}, {0x00, 0x03, 0x02, 0xa8, 0x39}, {0x00, 0x03, 0x02, 0xfa, 0x39},
		{0x00, 0x03, 0x02, 0xf8, 0xa9}, {0x00, 0x03, 0x02, 0xf8, 0x3a}, {0x00, 0x03, 0x02, 0x18, 0x39},
		{}, {0x01}, {0x01, 0x01}, {0x01, 0x02}, {0x01, 0x03}, {0x01, 0x04}, {0x01, 0x05}, {0x01, 0x06}, {0x01, 0x00}, {0x01, 0x07}, {0x01, 0xff},
		{0x05, 0x01, 0x70, 0x00, 0x00}, {0x05, 0x01, 0x70, 0x00, 0x01, 0xaa}, {0x05, 0x01, 0x70, 0x00, 0x01, 0xaa, 0x71, 0x02, 0x01, 0x00},
		{0x05, 0x01, 0x70, 0x00, 0x01, 0xaa, 0x71, 0x02, 0x01, 0x00, 0x00}, {0x05, 0x01, 0x70, 0x00, 0x01, 0xaa, 0x71, 0x02, 0x01},
		{0x05, 0x03, 0x72, 0x00, 0x02, 0x01, 0x02, 0x99}, {0x05, 0x03, 0x72, 0x00, 0x03, 0x01, 0x02}, {0x05, 0x02, 0x99},
	} {
		c.emitDecodeAll("corpus", in)
	}
	// F17: the PLMN of the defect report and its neighbours
	for _, pr := range [][2]int{{208, 93}, {208, 930}, {1, 1}, {262, 2}, {99, 9}, {98, 10}, {100, 8}, {100, 10}, {999, 999}, {1000, 10}, {208, 1000}, {208, 1500}, {208, 1600}, {208, 2550}, {208, 25600}, {-208, 93}, {208, -93}, {101, 11}, {101, 111}, {121, 22}, {313, 494}} {
		c.plmnOracle(pr[0], pr[1], true)
	}

	// F24 (fixed): parts, instructions and sublists carrying stale / garbage Len values
	c.emitList("corpus", shape{subs: []subShape{{mcc: 208, mnc: 93, setPlmn: true, preLen: 9, ins: []insShape{{upsc: 1, preLen: 9, partPreLen: 4, parts: []refPart{{typ: 1, content: []byte{9}}}}}}}})
	c.emitList("corpus", shape{subs: []subShape{{mcc: 208, mnc: 93, setPlmn: true, ins: []insShape{{upsc: 1, partPreLen: 65535, parts: []refPart{{typ: 1, content: []byte{1, 2, 3}}, {typ: 2, content: nil}}}}}}})

	// ---------------- (2) finite directed sets
	// PLMN: all MCC x MNC at thorough, a grid at quick; a sample as correspondence cases
	step := r.N(7, 1)
	k := 0
	for mcc := 100; mcc <= 999; mcc += step {
		for mnc := 10; mnc <= 999; mnc += step {
			k++
			c.plmnOracle(mcc, mnc, k%r.N(60, 300) == 0)
		}
		if step > 1 { // every MCC against the MNC boundaries
			for _, mnc := range []int{10, 11, 99, 100, 101, 999} {
				c.plmnOracle(mcc, mnc, false)
			}
		}
	}
	for v := -2; v <= 1100; v++ { // the acceptance boundaries of both arguments
		c.plmnOracle(v, 93, v < 101 || v > 997)
		c.plmnOracle(208, v, v < 12 || (v > 97 && v < 102) || v > 997)
	}

	// nested lists: every shape 0..3 sublists x 0..3 instructions x 0..3 parts, every part type, boundary lengths
	var bases [][]byte
	var basePos [][]int
	contentLens := []int{0, 1, 2, 3, 16, 255, 256}
	types := []byte{1, 2, 3, 4, 0, 5, 0xff}
	plmns := [][2]int{{208, 93}, {101, 11}, {460, 0}, {310, 410}, {999, 999}, {100, 10}}
	n := 0
	for ns := 0; ns <= 3; ns++ {
		for ni := 0; ni <= 3; ni++ {
			for np := 0; np <= 3; np++ {
				if ns == 0 && (ni > 0 || np > 0) {
					continue
				}
				if ni == 0 && np > 0 {
					continue
				}
				var sh shape
				for a := 0; a < ns; a++ {
					pl := plmns[(n+a)%len(plmns)]
					ss := subShape{mcc: pl[0], mnc: pl[1], setPlmn: pl[1] >= 9, preLen: []uint16{0, 1, 3, 65535}[(n+a)%4]}
					for b := 0; b < ni; b++ {
						is := insShape{upsc: uint16(n*257 + b), preLen: []uint16{0, 2, 1, 40000}[(n+b)%4], partPreLen: []uint16{0, 1, 4, 65535, 300}[(n+a+b)%5]}
						for d := 0; d < np; d++ {
							cl := contentLens[(n+a+b+d)%len(contentLens)]
							is.parts = append(is.parts, refPart{typ: types[(n+d)%len(types)], content: rng.Bytes(cl)})
						}
						ss.ins = append(ss.ins, is)
					}
					sh.subs = append(sh.subs, ss)
				}
				n++
				enc, pos := c.emitList("directed_shapes", sh)
				if enc != nil && len(enc) < 120 && len(enc) > 0 {
					bases = append(bases, enc)
					basePos = append(basePos, pos)
				}
			}
		}
	}
	// every part type value with boundary content lengths in one instruction
	for t := 0; t < 256; t += r.N(17, 1) {
		for _, cl := range []int{0, 1, 255} {
			c.emitList("directed_types", shape{subs: []subShape{{mcc: 208, mnc: 93, setPlmn: true, ins: []insShape{{upsc: uint16(t), parts: []refPart{{typ: byte(t), content: rng.Bytes(cl)}}}}}}})
		}
	}
	// boundary size of the 16-bit length fields: the largest part whose sublist still fits (sublist Len = 65535)
	c.noCase = true
	c.emitList("directed_max", shape{subs: []subShape{{mcc: 208, mnc: 93, setPlmn: true, ins: []insShape{{upsc: 1, parts: []refPart{{typ: 1, content: make([]byte, 65525)}}}}}}})
	c.emitSer("directed_max", serShape{hType: 3, kind: 3, pti: 0, typ: 3, ln: -1, buf: make([]byte, 65535)})
	c.emitSer("directed_max", serShape{hType: 1, kind: 1, pti: 0, typ: 1, ln: -1, buf: make([]byte, 65535), classmark: true})
	c.noCase = false
	c.emitList("directed_max", shape{subs: []subShape{{mcc: 208, mnc: 93, setPlmn: true, ins: []insShape{{upsc: 1, parts: []refPart{{typ: 1, content: rng.Bytes(1500)}}}}}}})
	// results
	for ns := 0; ns <= 3; ns++ {
		for nr := 0; nr <= 3; nr++ {
			var sh []resShape
			for a := 0; a < ns; a++ {
				pl := plmns[(ns+nr+a)%len(plmns)]
				rs := resShape{mcc: pl[0], mnc: pl[1], setPlmn: pl[1] >= 9, preLen: []uint16{0, 7, 65535}[(ns+nr+a)%3]}
				for b := 0; b < nr; b++ {
					rs.res = append(rs.res, [3]int{rng.Intn(65536), rng.Intn(65536), []int{0x6f, 0, 0xff, 0x1a}[(a+b)%4]})
				}
				sh = append(sh, rs)
			}
			if enc := c.emitResult("directed_shapes", sh); enc != nil && len(enc) > 0 && len(enc) < 60 {
				bases = append(bases, enc)
				basePos = append(basePos, nil)
			}
		}
	}
	// messages: every kind, with / without classmark, consistent and inconsistent headers
	var serBases [][]byte
	for kind := 0; kind <= 3; kind++ {
		for hType := 0; hType <= 7; hType++ {
			for _, cm := range []bool{false, true} {
				for _, bl := range []int{0, 1, 5} {
					for _, ln := range []int{-1, 0, bl + 1} {
						if (kind == 0 || kind == 2) && (cm || bl > 0 || ln >= 0) {
							continue
						}
						if kind == 3 && cm {
							continue
						}
						s := serShape{hPTI: uint8(rng.Intn(256)), hType: uint8(hType), kind: kind, typ: uint8(kind), iei: uint8(0x70 + kind), ln: ln, buf: rng.Bytes(bl), classmark: cm, cIei: 0x71, cNSSUI: uint8(rng.Intn(2))}
						s.pti = s.hPTI
						if rng.Intn(3) == 0 {
							s.pti = uint8(rng.Intn(256))
						}
						if out := c.emitSer("directed_messages", s); out != nil && int(s.hType) == kind && ln < 0 {
							serBases = append(serBases, out)
						}
					}
				}
			}
		}
	}
	// body type different from the header type
	for _, s := range []serShape{{hType: 1, kind: 1, typ: 2, ln: -1}, {hType: 1, kind: 1, typ: 3, ln: -1, buf: []byte{1, 2}}, {hType: 2, kind: 2, typ: 1, ln: -1}, {hType: 3, kind: 3, typ: 9, ln: -1},
		{hType: 1, kind: 1, typ: 1, ln: -1, buf: make([]byte, 300)}} {
		c.emitSer("directed_messages", s)
	}

	// ---------------- (3) structured random
	ngen := r.N(150, 2500)
	for i := 0; i < ngen; i++ {
		var sh shape
		for a := rng.Intn(4); a > 0; a-- {
			ss := subShape{mcc: 100 + rng.Intn(900), mnc: 10 + rng.Intn(990), setPlmn: rng.Intn(8) != 0}
			if rng.Intn(3) == 0 {
				ss.preLen = uint16(rng.Next())
			}
			for b := rng.Intn(4); b > 0; b-- {
				is := insShape{upsc: uint16(rng.Next())}
				if rng.Intn(3) == 0 {
					is.partPreLen = uint16(rng.Next())
				}
				if rng.Intn(3) == 0 {
					is.preLen = uint16(rng.Next())
				}
				for d := rng.Intn(4); d > 0; d-- {
					cl := rng.Intn(6)
					if rng.Intn(6) == 0 {
						cl = rng.Pick(0, 1, 254, 255, 256, 257, 1000)
					}
					is.parts = append(is.parts, refPart{typ: byte(rng.Pick(1, 2, 3, 4, rng.Intn(256))), content: rng.Bytes(cl)})
				}
				ss.ins = append(ss.ins, is)
			}
			sh.subs = append(sh.subs, ss)
		}
		enc, pos := c.emitList("random_structured", sh)
		if enc != nil && len(enc) > 0 && len(enc) < 100 && len(bases) < r.N(40, 300) {
			bases = append(bases, enc)
			basePos = append(basePos, pos)
		}
		if i%2 == 0 {
			var rs []resShape
			for a := rng.Intn(4); a > 0; a-- {
				x := resShape{mcc: 100 + rng.Intn(900), mnc: 10 + rng.Intn(990), setPlmn: rng.Intn(8) != 0, preLen: uint16(rng.Intn(3) * rng.Intn(65536))}
				for b := rng.Intn(4); b > 0; b-- {
					x.res = append(x.res, [3]int{rng.Intn(65536), rng.Intn(65536), rng.Intn(256)})
				}
				rs = append(rs, x)
			}
			renc := c.emitResult("random_structured", rs)
			// a list / result inside a command / reject message
			kind := 1 + 2*rng.Intn(2)
			body := enc
			if kind == 3 {
				body = renc
			}
			if len(body) < 65536 {
				s := serShape{hPTI: uint8(rng.Intn(256)), hType: uint8(kind), kind: kind, typ: uint8(kind), iei: uint8(rng.Intn(256)), ln: -1, buf: body, classmark: kind == 1 && rng.Bool(), cIei: uint8(rng.Intn(256)), cNSSUI: uint8(rng.Intn(2))}
				s.pti = s.hPTI
				if out := c.emitSer("random_structured", s); out != nil && len(out) < 80 && len(serBases) < r.N(30, 200) {
					serBases = append(serBases, out)
				}
			}
		}
	}

	// ---------------- (4) malformed
	// every length field 0 / 1 / actual-1 / actual+1 / 65535, truncation at every octet, one-octet mutations
	nb := r.N(14, 120)
	for bi, base := range bases {
		if bi >= nb {
			break
		}
		which := decListContent
		if basePos[bi] == nil {
			which = decResultContent
			for off := 0; off+1 < len(base); off += 5 { // result sublists have one length field each; try every plausible offset
				basePos[bi] = append(basePos[bi], off)
			}
		}
		for _, p := range basePos[bi] {
			if p+1 >= len(base) {
				continue
			}
			actual := int(base[p])<<8 | int(base[p+1])
			for _, v := range []int{0, 1, 2, 3, actual - 1, actual + 1, 65535} {
				if v < 0 || v > 65535 || v == actual {
					continue
				}
				m := hk.ExactNil(base)
				m[p], m[p+1] = byte(v>>8), byte(v)
				c.emitDecode("malformed_lengths", which, m)
			}
		}
		for cut := 0; cut < len(base); cut++ {
			c.emitDecode("malformed_truncated", which, base[:cut])
		}
		for j := 0; j < 6; j++ {
			m := hk.ExactNil(base)
			m[rng.Intn(len(m))] = rng.Byte()
			c.emitDecode("malformed_mutated", which, m)
		}
	}
	for bi, base := range serBases {
		if bi >= r.N(10, 100) {
			break
		}
		for cut := 0; cut <= len(base); cut++ {
			c.emitDecode("malformed_truncated", decSer, base[:cut])
		}
		if len(base) >= 5 {
			actual := int(base[3])<<8 | int(base[4])
			for _, v := range []int{0, 1, actual - 1, actual + 1, actual + 4, actual + 5, 65535} {
				if v < 0 || v > 65535 || v == actual {
					continue
				}
				m := hk.ExactNil(base)
				m[3], m[4] = byte(v>>8), byte(v)
				c.emitDecode("malformed_lengths", decSer, m)
				c.emitDecode("malformed_lengths", decListIE, m[2:])
				c.emitDecode("malformed_lengths", decResultIE, m[2:])
			}
			c.emitDecode("malformed_truncated", decListIE, base[2:])
			c.emitDecode("malformed_truncated", decResultIE, base[2:])
		}
		m := append(hk.ExactNil(base), rng.Bytes(1+rng.Intn(4))...) // trailing octets
		c.emitDecode("malformed_trailing", decSer, m)
	}
	// random octets into all five decoders
	nr := r.N(120, 2500)
	for i := 0; i < nr; i++ {
		l := rng.Intn(24)
		if rng.Intn(10) == 0 {
			l = rng.Intn(300)
		}
		in := rng.Bytes(l)
		if l >= 2 && rng.Intn(2) == 0 {
			in[1] = byte(1 + rng.Intn(3)) // a known message type
		}
		if l >= 5 && rng.Intn(2) == 0 { // a plausible PLMN so that the sublist parsers get further
			in[0], in[1] = 0, byte(rng.Intn(l+2))
			in[2], in[3], in[4] = byte(rng.Intn(10)<<4|rng.Intn(10)), byte(rng.Pick(0xf0, rng.Intn(10)<<4)|rng.Intn(10)), byte(rng.Intn(10)<<4|rng.Intn(10))
		}
		c.emitDecodeAll("random_octets", in)
	}

}
