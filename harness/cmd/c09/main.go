// C09 harness: calls every translated nasType accessor by reflection on random prior
// element contents and values; direct oracle = the documented bit layout (from the
// source annotation) evaluated independently here; observations are replayed on the
// BV interpreter in Coq.
package main

import (
	"sort"
	"bytes"
	"fmt"
	"reflect"
	"strings"

	"verifharness/hk"
)

func main() { hk.Main("C09", run) }

type elem struct {
	v            reflect.Value // pointer to struct
	hasIei       bool
	lenW         int
	scalar       bool
	arrN         int
	isBuf        bool
	hasOct       bool
}

func inspect(p interface{}) elem {
	e := elem{v: reflect.ValueOf(p)}
	s := e.v.Elem()
	for i := 0; i < s.NumField(); i++ {
		f := s.Type().Field(i)
		switch f.Name {
		case "Iei":
			e.hasIei = true
		case "Len":
			e.lenW = int(f.Type.Size())
		case "Octet":
			e.hasOct = true
			if f.Type.Kind() == reflect.Uint8 {
				e.scalar = true
			} else {
				e.arrN = f.Type.Len()
			}
		case "Buffer":
			e.isBuf = true
		}
	}
	return e
}

func (e elem) set(iei uint8, ln uint16, oct []byte) {
	s := e.v.Elem()
	if e.hasIei {
		s.FieldByName("Iei").SetUint(uint64(iei))
	}
	if e.lenW > 0 {
		s.FieldByName("Len").SetUint(uint64(ln))
	}
	switch {
	case e.scalar:
		s.FieldByName("Octet").SetUint(uint64(oct[0]))
	case e.hasOct:
		f := s.FieldByName("Octet")
		for i := 0; i < e.arrN; i++ {
			f.Index(i).SetUint(uint64(oct[i]))
		}
	case e.isBuf:
		b := make([]byte, len(oct))
		copy(b, oct)
		s.FieldByName("Buffer").SetBytes(b)
	}
}

func (e elem) get() (iei uint8, ln uint16, oct []byte) {
	s := e.v.Elem()
	if e.hasIei {
		iei = uint8(s.FieldByName("Iei").Uint())
	}
	if e.lenW > 0 {
		ln = uint16(s.FieldByName("Len").Uint())
	}
	switch {
	case e.scalar:
		oct = []byte{byte(s.FieldByName("Octet").Uint())}
	case e.hasOct:
		f := s.FieldByName("Octet")
		for i := 0; i < e.arrN; i++ {
			oct = append(oct, byte(f.Index(i).Uint()))
		}
	case e.isBuf:
		oct = append([]byte{}, s.FieldByName("Buffer").Bytes()...)
	}
	return
}

// bit (1..8, 8 = MSB) of octet o of the field bit j (LSB-first) for layout (r0, sbit, len)
func fpos(r0, sbit, ln, j int) (int, int) {
	g := (8 - sbit) + (ln - 1 - j)
	return r0 + g/8, 7 - g%8
}

func run(r *hk.Run) {
	r.SetCoq("From NV Require Import Lib.Base Lib.BV C09.Types C09.Corr.\nFrom Coq Require Import String.\nOpen Scope N_scope.\nOpen Scope string_scope.", "case")
	reps := r.N(2, 12)
	// the generated table, then the pinned entries the generated table no longer has (implementation only)
	have := map[string]bool{}
	for _, a := range genAccs {
		have[a.T+"."+a.M] = true
	}
	accs := append([]accInfo(nil), genAccs...)
	nGen := len(accs)
	for _, a := range pinnedAccs {
		if !have[a.T+"."+a.M] {
			accs = append(accs, a)
		}
	}
	r.Extra["pinned_accessors_not_in_generated_table"] = len(accs) - nGen
	for ai, a := range accs {
		implOnly := ai >= nGen
		mk, ok := genTypes[a.T]
		if !ok {
			continue
		}
		// beyond the random repetitions: elements that are a fixed octet array with a length field are also
		// tried with every small value of that field (an accessor must not move with the declared length)
		sweep := 0
		if pe := inspect(mk()); pe.lenW > 0 && pe.hasOct && !pe.isBuf && !pe.scalar && a.M != "SetLen" && a.M != "GetLen" {
			sweep = pe.arrN + 1
			if sweep > 10 {
				sweep = 10
			}
		}
		for rep := 0; rep < reps+sweep; rep++ {
			p := mk()
			e := inspect(p)
			m := e.v.MethodByName(a.M)
			if !m.IsValid() && implOnly {
				continue // removed from the API: nothing to check
			}
			if !m.IsValid() {
				r.Fail(hk.Failure{Site: "nasType." + a.T + "." + a.M, Class: "missing", Input: "", Detail: "method not found by reflection"})
				continue
			}
			// prior contents
			noct := 1
			if e.hasOct && !e.scalar {
				noct = e.arrN
			}
			if e.isBuf {
				need := 0
				if a.R1 >= 0 {
					need = a.R1 + 1
				}
				switch r.Rng.Intn(6) {
				case 0:
					noct = need // exactly enough
				case 1:
					noct = r.Rng.Intn(need + 1) // possibly too short: both sides must panic alike
				default:
					noct = need + r.Rng.Intn(6)
				}
			}
			if !e.hasOct && !e.isBuf {
				noct = 0
			}
			oct := r.Rng.Bytes(noct)
			if rep == 0 {
				for i := range oct {
					oct[i] = 0xff
				}
			}
			if rep == 1 {
				for i := range oct {
					oct[i] = 0
				}
			}
			iei := r.Rng.Byte()
			ln := uint16(r.Rng.Next())
			if e.lenW == 1 {
				ln &= 0xff
			}
			if e.lenW == 0 {
				ln = 0
			}
			if !e.hasIei {
				iei = 0
			}
			if rep >= reps {
				ln = uint16(rep - reps)
			}
			if a.Set && strings.HasSuffix(a.M, "SetLen") && e.isBuf {
				ln %= 40 // allocating SetLen: keep the allocation small
			}
			e.set(iei, ln, oct)
			// argument
			mt := m.Type()
			var args []reflect.Value
			var v uint64
			var pb []byte
			if mt.NumIn() == 1 {
				at := mt.In(0)
				switch at.Kind() {
				case reflect.Uint8, reflect.Uint16, reflect.Uint32, reflect.Uint64:
					v = r.Rng.Next()
					switch rep {
					case 0:
						v = 0
					case 1:
						v = ^uint64(0)
					}
					v &= (uint64(1)<<(8*uint(at.Size())) - 1)
					if strings.HasSuffix(a.M, "SetLen") && e.isBuf {
						v %= 40
					}
					av := reflect.New(at).Elem()
					av.SetUint(v)
					args = append(args, av)
				case reflect.Array:
					pb = r.Rng.Bytes(at.Len())
					av := reflect.New(at).Elem()
					for i := 0; i < at.Len(); i++ {
						av.Index(i).SetUint(uint64(pb[i]))
					}
					args = append(args, av)
				case reflect.Slice:
					pb = r.Rng.Bytes(r.Rng.Intn(noct + 4))
					args = append(args, reflect.ValueOf(hk.Exact(pb)))
				default:
					continue
				}
			} else if mt.NumIn() != 0 {
				continue
			}
			var outs []reflect.Value
			panicked, _ := hk.Catch(func() { outs = m.Call(args) })
			id := r.NextID()
			in := fmt.Sprintf("%s.%s prior iei=%d len=%d oct=%s arg=%d/%s", a.T, a.M, iei, ln, hk.Hex(oct), v, hk.Hex(pb))
			obs := "OPanic"
			i2, l2, o2 := e.get()
			ret := "RNone"
			var retVal uint64
			var retBytes []byte
			if !panicked {
				if len(outs) == 1 {
					switch outs[0].Kind() {
					case reflect.Uint8, reflect.Uint16, reflect.Uint32, reflect.Uint64:
						retVal = outs[0].Uint()
						ret = fmt.Sprintf("(RVal %d)", retVal)
					case reflect.Array:
						for i := 0; i < outs[0].Len(); i++ {
							retBytes = append(retBytes, byte(outs[0].Index(i).Uint()))
						}
						ret = "(RBytes " + hk.CoqBytes(retBytes) + ")"
					case reflect.Slice:
						retBytes = outs[0].Bytes()
						ret = "(RBytes " + hk.CoqBytes(retBytes) + ")"
					}
				}
				obs = fmt.Sprintf("(ORes %d %d %s %s)", i2, l2, hk.CoqBytes(o2), ret)
			}
			if !implOnly {
				r.AddCase(fmt.Sprintf("(%d, %q, %q, (%d, %d, %s), %d, %s, %s)", id, a.T, a.M, iei, ln, hk.CoqBytes(oct), v, hk.CoqBytes(pb), obs), in)
			}
			key := ""
			if rep >= 2 {
				key = in
			}
			stream := map[bool]string{true: "setters", false: "getters"}[a.Set]
			if rep >= reps {
				stream += "_len_sweep"
			}
			r.Count(stream, key)
			if rep == 2 {
				r.Sample(in)
			}
			// ---- direct oracle: the documented layout
			if !a.HasLayout || a.R0 < 0 || a.Len < 0 || panicked || a.R1 >= len(oct) {
				if panicked && a.R1 < len(oct) && !(a.R0 < 0) {
					r.Fail(hk.Failure{Site: "nasType." + a.T + "." + a.M, Class: "panic", Input: in, Detail: "panics although the element holds all documented octets"})
				}
				continue
			}
			site := "nasType." + a.T + "." + a.M
			if len(outs) == 1 && outs[0].Kind() >= reflect.Uint8 && outs[0].Kind() <= reflect.Uint64 && !a.Set {
				var want uint64
				for j := 0; j < a.Len; j++ {
					o, b := fpos(a.R0, a.SBit, a.Len, j)
					if o < len(oct) && oct[o]>>uint(b)&1 == 1 {
						want |= 1 << uint(j)
					}
				}
				if retVal != want || !reflect.DeepEqual(o2, oct) || i2 != iei || l2 != ln {
					r.Fail(hk.Failure{Site: site, Class: "getter-bits", Input: in, Detail: fmt.Sprintf("got %d want %d (or element modified)", retVal, want)})
				}
			}
			if a.Set && len(args) == 1 && args[0].Kind() >= reflect.Uint8 && args[0].Kind() <= reflect.Uint64 {
				want := hk.Exact(oct)
				for j := 0; j < a.Len; j++ {
					o, b := fpos(a.R0, a.SBit, a.Len, j)
					if o < len(want) {
						want[o] &^= 1 << uint(b)
						if v>>uint(j)&1 == 1 {
							want[o] |= 1 << uint(b)
						}
					}
				}
				if !reflect.DeepEqual(o2, want) || i2 != iei || l2 != ln {
					r.Fail(hk.Failure{Site: site, Class: "setter-bits", Input: in, Detail: fmt.Sprintf("after: iei=%d len=%d oct=%s, want oct=%s with iei/len unchanged", i2, l2, hk.Hex(o2), hk.Hex(want))})
				}
			}
		}
	}
	// ---- copy-style accessors (SetX([]uint8) / SetX([n]uint8)): what was set is read back.
	// For every such setter with a getter of the same name: elements at and above the documented size,
	// arguments shorter than, equal to and longer than the room; GetX() after SetX(p) must start with
	// p as far as it fits, and the octets before the field must be untouched.
	copyTrials := 0
	// the accessors are found by reflection on the element types (not through the translated table, which
	// drops an accessor whose body it cannot classify)
	typeNames := make([]string, 0, len(genTypes))
	for n := range genTypes {
		typeNames = append(typeNames, n)
	}
	sort.Strings(typeNames)
	for _, tn := range typeNames {
		mk := genTypes[tn]
		probe := inspect(mk())
		pt := probe.v.Type()
		for mi := 0; mi < pt.NumMethod(); mi++ {
			mname := pt.Method(mi).Name
			if !strings.HasPrefix(mname, "Set") || mname == "SetLen" {
				continue
			}
			ms := probe.v.Method(mi)
			mg := probe.v.MethodByName("Get" + mname[3:])
			if !mg.IsValid() || ms.Type().NumIn() != 1 || mg.Type().NumIn() != 0 || mg.Type().NumOut() != 1 {
				continue
			}
			at := ms.Type().In(0)
			if (at.Kind() != reflect.Slice && at.Kind() != reflect.Array) || at.Elem().Kind() != reflect.Uint8 {
				continue
			}
			sizes := []int{1}
			if probe.hasOct && !probe.scalar {
				sizes = []int{probe.arrN}
			}
			if probe.isBuf {
				sizes = nil
				for n := 1; n <= 24; n++ {
					sizes = append(sizes, n)
				}
				sizes = append(sizes, 32, 40, 64)
			}
			for _, noct := range sizes {
				for trial := 0; trial < 2; trial++ {
					e := inspect(mk())
					oct := r.Rng.Bytes(noct)
					ln := uint16(noct)
					if e.lenW == 1 {
						ln &= 0xff
					}
					if e.lenW == 0 {
						ln = 0
					}
					e.set(0, ln, oct)
					m := e.v.MethodByName(mname)
					g := e.v.MethodByName("Get" + mname[3:])
					// how much the field holds: length of what the getter returns on this element
					var outs0 []reflect.Value
					if p0, _ := hk.Catch(func() { outs0 = g.Call(nil) }); p0 || len(outs0) != 1 {
						continue
					}
					room := outs0[0].Len()
					var arg reflect.Value
					var pb []byte
					if at.Kind() == reflect.Array {
						pb = r.Rng.Bytes(at.Len())
						arg = reflect.New(at).Elem()
						for i := range pb {
							arg.Index(i).SetUint(uint64(pb[i]))
						}
					} else {
						pb = r.Rng.Bytes(room + trial*2) // exactly the room; two more than the room
						if len(pb) == 0 {
							continue
						}
						arg = reflect.ValueOf(hk.Exact(pb))
					}
					for i := range pb {
						pb[i] |= 1
						if at.Kind() == reflect.Array {
							arg.Index(i).SetUint(uint64(pb[i]))
						}
					}
					if at.Kind() == reflect.Slice {
						arg = reflect.ValueOf(hk.Exact(pb))
					}
					var outs []reflect.Value
					p1, _ := hk.Catch(func() { m.Call([]reflect.Value{arg}) })
					p2, _ := hk.Catch(func() { outs = g.Call(nil) })
					copyTrials++
					if p1 || p2 || len(outs) != 1 {
						continue
					}
					var got []byte
					switch outs[0].Kind() {
					case reflect.Slice:
						got = outs[0].Bytes()
					case reflect.Array:
						for i := 0; i < outs[0].Len(); i++ {
							got = append(got, byte(outs[0].Index(i).Uint()))
						}
					default:
						continue
					}
					n := len(pb)
					if len(got) < n {
						n = len(got)
					}
					if !bytes.Equal(got[:n], pb[:n]) {
						r.Fail(hk.Failure{Site: "nasType." + tn + "." + mname, Class: "set-then-get",
							Input:  fmt.Sprintf("%s.%s on %d octets %s, argument %s", tn, mname, noct, hk.Hex(oct), hk.Hex(pb)),
							Detail: fmt.Sprintf("Get%s() = %s does not start with what was set", mname[3:], hk.Hex(got))})
					}
				}
			}
		}
	}
	// ---- SetLen on a Buffer-backed element hands out storage of its own: a value that still refers to the
	// previous Buffer (a struct copy, a slice kept by the caller) is not written through the new one
	setLenTrials := 0
	for _, tn := range typeNames {
		e := inspect(genTypes[tn]())
		if !e.isBuf {
			continue
		}
		m := e.v.MethodByName("SetLen")
		if !m.IsValid() || m.Type().NumIn() != 1 {
			continue
		}
		for _, n := range []int{1, 5, 13} {
			e = inspect(genTypes[tn]())
			old := bytes.Repeat([]byte{0xee}, 16)
			e.set(0, 16, old)
			_, _, cur := e.get()
			if len(cur) != 16 {
				continue
			}
			// the element now refers to its own copy of old (e.set copies); keep a second reference to it
			held := e.v.Elem().FieldByName("Buffer").Bytes()
			arg := reflect.New(m.Type().In(0)).Elem()
			arg.SetUint(uint64(n))
			m = e.v.MethodByName("SetLen")
			if p, _ := hk.Catch(func() { m.Call([]reflect.Value{arg}) }); p {
				continue
			}
			nb := e.v.Elem().FieldByName("Buffer").Bytes()
			for i := range nb {
				nb[i] = 0x11
			}
			setLenTrials++
			for _, x := range held {
				if x != 0xee {
					r.Fail(hk.Failure{Site: "nasType." + tn + ".SetLen", Class: "setlen-reuses-storage",
						Input:  fmt.Sprintf("Buffer of 16 octets, SetLen(%d), then the new Buffer is filled", n),
						Detail: "the octets of the previous Buffer changed: SetLen did not allocate, a value still referring to the old Buffer (struct copy) is written through"})
					break
				}
			}
		}
	}
	r.Extra["setlen_alias_trials"] = setLenTrials
	r.Extra["copy_accessor_trials"] = copyTrials
	r.Extra["accessors"] = len(genAccs)
}
