package main

// C13 (+ C14 for the helpers of the same files): correspondence cases and the
// direct oracle (independent decoders of oracle.go applied to the library's
// encodings, library round trips, no panic / hang on any octet string).

import (
	"encoding/hex"
	"fmt"
	"io"
	"strings"

	"github.com/free5gc/nas/logger"
	"github.com/free5gc/nas/nasType"
	"github.com/free5gc/openapi/models"

	"verifharness/hk"
)

func main() { hk.Main("C13", run) }

func run(r *hk.Run) {
	r.SetCoq("From NV Require Import Lib.Base C13.GoStd C13.Model C13.Corr.\nOpen Scope N_scope.", "case")
	logger.GetLogger().SetOutput(io.Discard) // decode warnings of the library are not observables
	c := &ctx{r: r}
	streamCorpus(c)
	streamSnssai(c)
	streamNssai(c)
	streamRejected(c)
	streamTai(c)
	streamServiceArea(c)
	streamLadn(c)
	streamDnn(c)
	streamUpu(c)
	streamRaw(c)
}

func (c *ctx) fail(site, class string, input interface{}, detail string) {
	c.r.Fail(hk.Failure{Site: site, Class: class, Input: input, Detail: detail})
}

func randHex(r *hk.Run, n int, upper bool) string {
	s := fmt.Sprintf("%x", r.Rng.Bytes(n))
	if upper {
		s = strings.ToUpper(s)
	}
	return s
}

// ------------------------------------------------------------------ S-NSSAI

// checkSnssai: spec decoder on SnssaiToNas / RejectedSnssaiToNas output and the library round trip
func checkSnssai(c *ctx, s models.Snssai, emit bool) {
	sdWant := int64(-1)
	if s.Sd != "" {
		v, _ := hexTextValue(s.Sd)
		sdWant = int64(v)
	}
	in := fmt.Sprintf("sst=%d sd=%s", s.Sst, s.Sd)
	c.quiet = !emit
	out, x := c.snssaiToNas(s)
	if !c.failIfAbnormal(x, "nasConvert.SnssaiToNas", in) {
		l, err := specNssai(out)
		if err != nil || len(l) != 1 || l[0].sst != uint8(s.Sst) || l[0].sd != sdWant || l[0].mSst != -1 || l[0].mSd != -1 {
			c.fail("nasConvert.SnssaiToNas", "spec-decode", in, fmt.Sprintf("encoding %x does not decode (9.11.2.8) to the input: %v %v", out, l, err))
		}
		// library round trip through nasType.SNSSAI
		if len(out) >= 2 && len(out) <= 9 {
			var oct [8]uint8
			copy(oct[:], out[1:])
			back, x2 := c.snssaiToModels(out[0], oct)
			if !c.failIfAbnormal(x2, "nasConvert.SnssaiToModels", hk.Hex(out)) {
				if back.Sst != s.Sst || back.Sd != strings.ToLower(s.Sd) {
					c.fail("nasConvert.SnssaiToModels", "roundtrip", in, fmt.Sprintf("got sst=%d sd=%q", back.Sst, back.Sd))
				}
			}
		}
	}
	for ci, cause := range []uint8{0, 1, uint8(2 + c.r.Rng.Intn(14))} {
		c.quiet = !emit || ci != int(s.Sst)%3 // one rotating cause as a case, the oracle on all three
		out, x := c.rejectedSnssaiToNas(s, cause)
		if c.failIfAbnormal(x, "nasConvert.RejectedSnssaiToNas", in) {
			continue
		}
		l, err := specRejectedNssai(out)
		if err != nil || len(l) != 1 || l[0].sst != uint8(s.Sst) || l[0].sd != sdWant || l[0].cause != cause {
			c.fail("nasConvert.RejectedSnssaiToNas", "spec-decode", fmt.Sprintf("%s cause=%d", in, cause),
				fmt.Sprintf("encoding %x does not decode (9.11.3.46) to the input: %v %v", out, l, err))
		}
	}
	c.quiet = false
}

func streamSnssai(c *ctx) {
	c.stream = "snssai-directed"
	for sst := 0; sst < 256; sst++ {
		sds := []string{"", "000000", "ffffff", "FFFFFF", "000001", "800000", randHex(c.r, 3, false), randHex(c.r, 3, true), "aBcDeF"}
		for i, sd := range sds {
			// quick: every SST with no SD and with one rotating SD as cases; the oracle runs on all
			emit := c.r.Thorough() || i == 0 || i == 1+sst%(len(sds)-1)
			checkSnssai(c, models.Snssai{Sst: int32(sst), Sd: sd}, emit)
		}
	}
	c.stream = "snssai-random"
	n := c.r.N(60, 2000)
	for i := 0; i < n; i++ {
		s := models.Snssai{Sst: int32(c.r.Rng.Intn(256))}
		if c.r.Rng.Intn(4) != 0 {
			s.Sd = randHex(c.r, 3, c.r.Rng.Intn(3) == 0)
		}
		checkSnssai(c, s, true)
	}
	// SnssaiToModels on every Len with arbitrary octets (decoder-produced values have Len in {1,2,4,5,8})
	c.stream = "snssai-tomodels"
	for l := 0; l < 256; l++ {
		if !c.r.Thorough() && l > 12 && l%16 != 0 && l != 255 {
			continue
		}
		var oct [8]uint8
		copy(oct[:], c.r.Rng.Bytes(8))
		out, x := c.snssaiToModels(uint8(l), oct)
		if c.failIfAbnormal(x, "nasConvert.SnssaiToModels", fmt.Sprintf("Len=%d Octet=%x", l, oct)) {
			continue
		}
		if out.Sst != int32(oct[0]) || (l == 4 && out.Sd != fmt.Sprintf("%02x%02x%02x", oct[1], oct[2], oct[3])) {
			c.fail("nasConvert.SnssaiToModels", "value", fmt.Sprintf("Len=%d Octet=%x", l, oct), fmt.Sprintf("got %+v", out))
		}
	}
}

// ------------------------------------------------------------------ NSSAI lists

// independent encoder of one S-NSSAI (length + value) from 9.11.2.8
func specEncodeSnssai(v sNssai) []byte {
	b := []byte{0, v.sst}
	p24 := func(x int64) []byte { return []byte{byte(x >> 16), byte(x >> 8), byte(x)} }
	if v.sd >= 0 {
		b = append(b, p24(v.sd)...)
	}
	if v.mSst >= 0 {
		b = append(b, byte(v.mSst))
	}
	if v.mSd >= 0 {
		b = append(b, p24(v.mSd)...)
	}
	b[0] = byte(len(b) - 1)
	return b
}

func randSnssaiForm(r *hk.Run, form int) sNssai {
	v := sNssai{sst: r.Rng.Byte(), sd: -1, mSst: -1, mSd: -1}
	bnd := func() int64 {
		switch r.Rng.Intn(4) {
		case 0:
			return 0
		case 1:
			return 0xffffff
		}
		return int64(r.Rng.Next() & 0xffffff)
	}
	switch form {
	case 2:
		v.mSst = int(r.Rng.Byte())
	case 4:
		v.sd = bnd()
	case 5:
		v.sd, v.mSst = bnd(), int(r.Rng.Byte())
	case 8:
		v.sd, v.mSst, v.mSd = bnd(), int(r.Rng.Byte()), bnd()
	}
	return v
}

func mappingMatches(m models.MappingOfSnssai, v sNssai) bool {
	sdText := func(x int64) string {
		if x < 0 {
			return ""
		}
		return fmt.Sprintf("%06x", x)
	}
	if m.ServingSnssai == nil || m.ServingSnssai.Sst != int32(v.sst) || m.ServingSnssai.Sd != sdText(v.sd) {
		return false
	}
	if v.mSst < 0 {
		return m.HomeSnssai == nil
	}
	return m.HomeSnssai != nil && m.HomeSnssai.Sst != -1 && m.HomeSnssai.Sst == int32(v.mSst) && m.HomeSnssai.Sd == sdText(v.mSd)
}

// checkNssaiDecode: the decoder against the independent decoder on an arbitrary octet string
func checkNssaiDecode(c *ctx, buf []byte, emit bool) {
	if len(buf) > 255 {
		return
	}
	c.quiet = !emit
	out, err, x := c.requestedNssaiToModels(uint8(len(buf)), buf)
	c.quiet = false
	if c.failIfAbnormal(x, "nasConvert.RequestedNssaiToModels", hk.Hex(buf)) {
		return
	}
	want, werr := specNssai(buf)
	switch {
	case werr != nil && err == nil:
		c.fail("nasConvert.RequestedNssaiToModels", "accepts-malformed", hk.Hex(buf), fmt.Sprintf("malformed NSSAI (%v) decoded to %d entries without error", werr, len(out)))
	case werr == nil && err != nil:
		c.fail("nasConvert.RequestedNssaiToModels", "rejects-wellformed", hk.Hex(buf), err.Error())
	case werr == nil:
		ok := len(out) == len(want)
		for i := 0; ok && i < len(out); i++ {
			ok = mappingMatches(out[i], want[i])
		}
		if !ok {
			c.fail("nasConvert.RequestedNssaiToModels", "roundtrip", hk.Hex(buf), fmt.Sprintf("decoded %s, the standard gives %v", coqMappings(out), want))
		}
	}
}

func streamNssai(c *ctx) {
	forms := []int{1, 2, 4, 5, 8}
	c.stream = "nssai-lists"
	// every list length 0..9, several form mixes; spec-encoded
	for n := 0; n <= 9; n++ {
		reps := c.r.N(6, 40)
		for rep := 0; rep < reps; rep++ {
			var buf []byte
			for i := 0; i < n; i++ {
				f := forms[(i+rep)%5]
				if rep >= 5 {
					f = forms[c.r.Rng.Intn(5)]
				}
				buf = append(buf, specEncodeSnssai(randSnssaiForm(c.r, f))...)
			}
			checkNssaiDecode(c, buf, true)
		}
	}
	// far more entries than the 8 of TS 24.501 9.11.3.37: UE-supplied contents are not bound by the maximum, and a
	// result container sized from it (fixed array, pre-sized slice) must not be overrun
	for _, n := range []int{10, 15, 16, 17, 31, 32, 33, 64, 65, 100} {
		for rep := 0; rep < 2; rep++ {
			var buf []byte
			for i := 0; i < n; i++ {
				f := forms[(i+rep)%5]
				if rep == 1 {
					f = forms[0]
				}
				buf = append(buf, specEncodeSnssai(randSnssaiForm(c.r, f))...)
			}
			checkNssaiDecode(c, buf, true)
		}
	}
	// library-encoded lists (SnssaiToNas emits forms 1 and 4 only)
	c.stream = "nssai-lib-encoded"
	for n := 1; n <= 8; n++ {
		for rep := 0; rep < c.r.N(3, 20); rep++ {
			var l []models.Snssai
			var buf []byte
			for i := 0; i < n; i++ {
				s := models.Snssai{Sst: int32(c.r.Rng.Intn(256))}
				if (i+rep)%2 == 0 {
					s.Sd = randHex(c.r, 3, false)
				}
				l = append(l, s)
				c.quiet = true
				e, _ := c.snssaiToNas(s)
				c.quiet = false
				buf = append(buf, e...)
			}
			out, err, x := c.requestedNssaiToModels(uint8(len(buf)), buf)
			if c.failIfAbnormal(x, "nasConvert.RequestedNssaiToModels", hk.Hex(buf)) {
				continue
			}
			ok := err == nil && len(out) == n
			for i := 0; ok && i < n; i++ {
				ok = out[i].HomeSnssai == nil && out[i].ServingSnssai != nil && *out[i].ServingSnssai == l[i]
			}
			if !ok {
				c.fail("nasConvert.RequestedNssaiToModels", "roundtrip", hk.Hex(buf), fmt.Sprintf("library-encoded list %v decoded to %s (err %v)", l, coqMappings(out), err))
			}
		}
	}
	// malformed: every length octet 0..255 at every entry position x every truncation point
	c.stream = "nssai-malformed"
	bases := [][]int{{4, 1, 8}, {1, 2, 5, 4}, {8, 8}, {1}}
	for bi, base := range bases {
		var buf []byte
		var pos []int
		for _, f := range base {
			pos = append(pos, len(buf))
			buf = append(buf, specEncodeSnssai(randSnssaiForm(c.r, f))...)
		}
		for pi, p := range pos {
			for l := 0; l < 256; l++ {
				m := hk.Exact(buf)
				m[p] = byte(l)
				for cut := len(m); cut >= p+1; cut-- {
					// cases: all length octets untruncated at each position of the first base; sampled otherwise
					emit := (cut == len(m) && (c.r.Thorough() || bi == 0 || l < 12)) || (l < 10 && bi == 0 && pi == 1) || (c.r.Thorough() && l < 16) || c.r.Rng.Intn(c.r.N(200, 12)) == 0
					checkNssaiDecode(c, m[:cut], emit)
				}
			}
		}
		// every truncation point of the well-formed stream
		for cut := 0; cut <= len(buf); cut++ {
			checkNssaiDecode(c, buf[:cut], true)
		}
	}
	// Len field different from len(Buffer): correspondence only (the NAS decoder always makes them equal);
	// Len > len(Buffer) indexes past the end (modelled as Panic, outside the documented domain)
	c.stream = "nssai-len-mismatch"
	for _, t := range []struct {
		l   uint8
		buf []byte
	}{{0, []byte{1, 2}}, {2, []byte{1, 2, 1, 3}}, {3, []byte{1, 2, 1, 3}}, {1, nil}, {4, []byte{1, 2}}, {255, []byte{1, 2, 4, 1, 2, 3, 4}}} {
		c.requestedNssaiToModels(t.l, t.buf)
	}
}

// ------------------------------------------------------------------ rejected NSSAI

func streamRejected(c *ctx) {
	c.stream = "rejected-nssai"
	mk := func(n int) []models.Snssai {
		var l []models.Snssai
		for i := 0; i < n; i++ {
			s := models.Snssai{Sst: int32(c.r.Rng.Intn(256))}
			if c.r.Rng.Bool() {
				s.Sd = randHex(c.r, 3, c.r.Rng.Intn(4) == 0)
			}
			l = append(l, s)
		}
		return l
	}
	check := func(a, b []models.Snssai, inDomain bool) {
		out, x := c.rejectedNssaiToNas(a, b)
		in := fmt.Sprintf("inPlmn=%v inTa=%v", a, b)
		if c.failIfAbnormal(x, "nasConvert.RejectedNssaiToNas", in) || !inDomain {
			return
		}
		l, err := specRejectedNssai(out.Buffer)
		ok := err == nil && int(out.Len) == len(out.Buffer) && len(l) == len(a)+len(b)
		for i := 0; ok && i < len(l); i++ {
			s, cause := models.Snssai{}, uint8(0)
			if i < len(a) {
				s = a[i]
			} else {
				s, cause = b[i-len(a)], 1
			}
			sd := int64(-1)
			if s.Sd != "" {
				v, _ := hexTextValue(s.Sd)
				sd = int64(v)
			}
			ok = l[i].sst == uint8(s.Sst) && l[i].sd == sd && l[i].cause == cause
		}
		if !ok {
			c.fail("nasConvert.RejectedNssaiToNas", "spec-decode", in, fmt.Sprintf("Len=%d Buffer=%x decodes (9.11.3.46) to %v %v", out.Len, out.Buffer, l, err))
		}
	}
	for na := 0; na <= 8; na++ {
		for nb := 0; na+nb <= 8; nb++ {
			if !c.r.Thorough() && (na+nb)%2 == 1 && na != 0 && nb != 0 && na+nb != 7 {
				continue
			}
			check(mk(na), mk(nb), true)
		}
	}
	// beyond the element's capacity: 52 x 5 octets = 260 > 255 (Len wraps; correspondence only)
	long := make([]models.Snssai, 52)
	for i := range long {
		long[i] = models.Snssai{Sst: int32(i), Sd: "0000ff"}
	}
	check(long[:51], nil, true)
	check(long, nil, false)
	check(long[:30], long[:30], false)
}

// ------------------------------------------------------------------ TAI lists

// neighbours differ in one field only (same MCC / other MNC, same MNC / other MCC, "00" vs "000")
var plmnPool = []models.PlmnId{{Mcc: "208", Mnc: "93"}, {Mcc: "208", Mnc: "01"}, {Mcc: "001", Mnc: "01"}, {Mcc: "466", Mnc: "092"}, {Mcc: "999", Mnc: "999"},
	{Mcc: "310", Mnc: "00"}, {Mcc: "310", Mnc: "000"}, {Mcc: "000", Mnc: "000"}, {Mcc: "001", Mnc: "000"}}

func wantPlmn(p models.PlmnId) plmn { return plmn{p.Mcc, p.Mnc} }

func checkTaiList(c *ctx, l []models.Tai, emit bool) []byte {
	c.quiet = !emit
	out, x := c.taiListToNas(l)
	c.quiet = false
	in := taiDesc(l)
	if c.failIfAbnormal(x, "nasConvert.TaiListToNas", in) {
		return nil
	}
	ps, err := specTaiList(out)
	var flat []tai
	for _, p := range ps {
		flat = append(flat, p.tais...)
	}
	ok := err == nil && len(flat) == len(l) && len(ps) == 1
	for i := 0; ok && i < len(l); i++ {
		v, _ := hexTextValue(l[i].Tac)
		ok = flat[i].p == wantPlmn(*l[i].PlmnId) && flat[i].tac == int64(v)
	}
	if !ok {
		c.fail("nasConvert.TaiListToNas", "spec-decode", in, fmt.Sprintf("encoding %x decodes (9.11.3.9) to %v %v", out, ps, err))
	}
	return out
}

func mkTais(r *hk.Run, assign []int, pool []models.PlmnId) []models.Tai {
	var l []models.Tai
	for i, a := range assign {
		p := pool[a]
		tac := randHex(r, 3, r.Rng.Intn(5) == 0)
		switch (i + len(assign)) % 7 {
		case 0:
			tac = "000000"
		case 1:
			tac = "ffffff"
		}
		l = append(l, models.Tai{PlmnId: &p, Tac: tac})
	}
	return l
}

func streamTai(c *ctx) {
	c.stream = "plmn"
	for _, p := range plmnPool {
		out, x := c.plmnIDToNas(p)
		if !c.failIfAbnormal(x, "nasConvert.PlmnIDToNas", p.Mcc+"-"+p.Mnc) && (len(out) != 3 || specPlmn(out) != wantPlmn(p)) {
			c.fail("nasConvert.PlmnIDToNas", "spec-decode", p.Mcc+"-"+p.Mnc, fmt.Sprintf("%x decodes (24.008 10.5.1.3) to %v", out, specPlmn(out)))
		}
	}
	for i := 0; i < c.r.N(150, 3000); i++ {
		p := models.PlmnId{Mcc: fmt.Sprintf("%03d", c.r.Rng.Intn(1000))}
		if c.r.Rng.Bool() {
			p.Mnc = fmt.Sprintf("%02d", c.r.Rng.Intn(100))
		} else {
			p.Mnc = fmt.Sprintf("%03d", c.r.Rng.Intn(1000))
		}
		out, x := c.plmnIDToNas(p)
		if !c.failIfAbnormal(x, "nasConvert.PlmnIDToNas", p.Mcc+"-"+p.Mnc) && (len(out) != 3 || specPlmn(out) != wantPlmn(p)) {
			c.fail("nasConvert.PlmnIDToNas", "spec-decode", p.Mcc+"-"+p.Mnc, fmt.Sprintf("%x decodes (24.008 10.5.1.3) to %v", out, specPlmn(out)))
		}
	}
	c.stream = "tai-lists"
	// n <= 4: every assignment of 3 PLMNs to the entries (every grouping order)
	for n := 1; n <= 4; n++ {
		tot := 1
		for i := 0; i < n; i++ {
			tot *= 3
		}
		for code := 0; code < tot; code++ {
			assign := make([]int, n)
			for i, x := 0, code; i < n; i, x = i+1, x/3 {
				assign[i] = x % 3
			}
			rot := (code + n) % (len(plmnPool) - 2)
			checkTaiList(c, mkTais(c.r, assign, plmnPool[rot:rot+3]), c.r.Thorough() || n <= 3 || code%3 == 0)
		}
	}
	// n = 5..16: grouping patterns over 1..3 PLMNs
	for n := 5; n <= 16; n++ {
		pats := map[string]func(i int) int{
			"same": func(i int) int { return 0 },
			"last-differs": func(i int) int {
				if i == n-1 {
					return 1
				}
				return 0
			},
			"first-differs": func(i int) int {
				if i == 0 {
					return 1
				}
				return 0
			},
			"second-differs": func(i int) int {
				if i == 1 {
					return 2
				}
				return 0
			},
			"alternate2": func(i int) int { return i % 2 },
			"alternate3": func(i int) int { return i % 3 },
			"blocks2": func(i int) int {
				if i < n/2 {
					return 0
				}
				return 1
			},
			"blocks3": func(i int) int { return 3 * i / n },
			"aba": func(i int) int {
				if i >= n/3 && i < 2*n/3 {
					return 1
				}
				return 0
			},
			"random": func(i int) int { return c.r.Rng.Intn(3) },
		}
		names := []string{"same", "last-differs", "first-differs", "second-differs", "alternate2", "alternate3", "blocks2", "blocks3", "aba", "random"}
		for k, nm := range names {
			assign := make([]int, n)
			for i := range assign {
				assign[i] = pats[nm](i)
			}
			rot := (n + k) % (len(plmnPool) - 2)
			checkTaiList(c, mkTais(c.r, assign, plmnPool[rot:rot+3]), c.r.Thorough() || k < 2 || (n+k)%3 == 0 || n == 16)
		}
	}
	// same PLMN value through distinct pointers and through one shared pointer
	{
		p := models.PlmnId{Mcc: "208", Mnc: "93"}
		q := p
		checkTaiList(c, []models.Tai{{PlmnId: &p, Tac: "000001"}, {PlmnId: &p, Tac: "000002"}, {PlmnId: &q, Tac: "000003"}}, true)
	}
	// outside the documented domain (correspondence only): 0 entries and nil PlmnId panic; > 16 entries; malformed text
	c.stream = "tai-out-of-domain"
	c.taiListToNas(nil)
	c.taiListToNas([]models.Tai{{PlmnId: nil, Tac: "000001"}})
	p0 := plmnPool[0]
	c.taiListToNas([]models.Tai{{PlmnId: &p0, Tac: "000001"}, {PlmnId: nil, Tac: "000002"}})
	c.taiListToNas([]models.Tai{{PlmnId: nil, Tac: "000001"}, {PlmnId: nil, Tac: "000002"}})
	for _, n := range []int{17, 32, 33, 64, 256, 257} {
		assign := make([]int, n)
		c.taiListToNas(mkTais(c.r, assign, plmnPool))
		assign[n-1] = 1
		c.taiListToNas(mkTais(c.r, assign, plmnPool))
	}
	for _, tac := range []string{"", "0", "00", "0000", "00000", "0000000", "00000g", "zz0000", "00 001"} {
		c.taiListToNas([]models.Tai{{PlmnId: &p0, Tac: tac}, {PlmnId: &p0, Tac: "0000ff"}})
		p1 := plmnPool[1]
		c.taiListToNas([]models.Tai{{PlmnId: &p0, Tac: tac}, {PlmnId: &p1, Tac: "0000ff"}})
	}
	for _, p := range []models.PlmnId{{Mcc: "", Mnc: "93"}, {Mcc: "2", Mnc: "93"}, {Mcc: "20", Mnc: "93"}, {Mcc: "2089", Mnc: "93"}, {Mcc: "208", Mnc: ""}, {Mcc: "208", Mnc: "9"},
		{Mcc: "208", Mnc: "9345"}, {Mcc: "2a8", Mnc: "9x"}, {Mcc: "+08", Mnc: "-3"}, {Mcc: "20\x80", Mnc: "\xff3"}, {Mcc: "208", Mnc: "93z"}, {Mcc: "\x00\x2f\x3a", Mnc: "\x39\x30\x7f"}} {
		c.plmnIDToNas(p)
	}
}

// ------------------------------------------------------------------ service area list

func streamServiceArea(c *ctx) {
	c.stream = "service-area"
	check := func(p models.PlmnId, rt models.RestrictionType, split []int, inDomain bool) {
		var areas []models.Area
		var all []string
		for _, k := range split {
			a := models.Area{AreaCode: "x"}
			for i := 0; i < k; i++ {
				tac := randHex(c.r, 3, c.r.Rng.Intn(5) == 0)
				switch c.r.Rng.Intn(8) {
				case 0:
					tac = "000000"
				case 1:
					tac = "ffffff"
				}
				a.Tacs = append(a.Tacs, tac)
				all = append(all, tac)
			}
			areas = append(areas, a)
		}
		// half of the restrictions hold their TAC lists the way a caller with one TAC pool does: every
		// area is a window pool[i:j] (spare capacity reaching into the other areas), the areas placed in
		// the pool in a permuted order and followed by entries the restriction does not refer to
		var pool, pool0 []string
		if len(areas) > 0 && c.r.Rng.Intn(2) == 0 {
			order := make([]int, len(areas))
			for i := range order {
				order[i] = i
			}
			for i := len(order) - 1; i > 0; i-- {
				j := c.r.Rng.Intn(i + 1)
				if c.r.Rng.Intn(3) > 0 { // mostly keep the first area in front
					j = 1 + c.r.Rng.Intn(i)
					if i < 1 || j > i {
						continue
					}
				}
				order[i], order[j] = order[j], order[i]
			}
			offs := make([]int, len(areas))
			for _, ai := range order {
				offs[ai] = len(pool)
				pool = append(pool, areas[ai].Tacs...)
			}
			pool = append(pool, "a5a5a5", "a5a5a5", "a5a5a5")
			pool = append(make([]string, 0, len(pool)), pool...)
			pool0 = append([]string(nil), pool...)
			for ai := range areas {
				areas[ai].Tacs = pool[offs[ai] : offs[ai]+len(areas[ai].Tacs)]
			}
		}
		sar := models.ServiceAreaRestriction{RestrictionType: rt, Areas: areas, MaxNumOfTAs: 3}
		out, x := c.serviceArea(p, sar)
		in := fmt.Sprintf("%s-%s %s %v", p.Mcc, p.Mnc, rt, areas)
		if pool != nil {
			in += fmt.Sprintf(" (areas are windows of one pool %v)", pool0)
			for i := range pool {
				if pool[i] != pool0[i] {
					c.fail("nasConvert.PartialServiceAreaListToNas", "caller-list-overwritten", in, fmt.Sprintf("the caller's TAC pool reads %v after the call", pool))
					break
				}
			}
		}
		if c.failIfAbnormal(x, "nasConvert.PartialServiceAreaListToNas", in) || !inDomain {
			return
		}
		ps, err := specServiceAreaList(out)
		ok := err == nil && len(ps) == 1 && ps[0].typ == 0 && len(ps[0].tais) == len(all) &&
			ps[0].allowed == (rt != models.RestrictionType_ALLOWED_AREAS)
		for i := 0; ok && i < len(all); i++ {
			v, _ := hexTextValue(all[i])
			ok = ps[0].tais[i].p == wantPlmn(p) && ps[0].tais[i].tac == int64(v)
		}
		if !ok {
			c.fail("nasConvert.PartialServiceAreaListToNas", "spec-decode", in, fmt.Sprintf("encoding %x decodes (9.11.3.49) to %v %v", out, ps, err))
		}
	}
	rts := []models.RestrictionType{models.RestrictionType_ALLOWED_AREAS, models.RestrictionType_NOT_ALLOWED_AREAS}
	for n := 1; n <= 16; n++ {
		// n TACs split over 1..4 areas, including empty areas
		splits := [][]int{{n}, {1, n - 1}, {n - 1, 1}, {n / 2, n - n/2}, {n / 3, n / 3, n - 2*(n/3)}, {0, n, 0}, {n / 4, n / 4, n / 4, n - 3*(n/4)}, {1, 0, n - 1, 0}}
		for k, s := range splits {
			for ri, rt := range rts {
				if !c.r.Thorough() && (k+ri+n)%2 == 1 && k > 1 {
					continue
				}
				check(plmnPool[(n+k)%len(plmnPool)], rt, s, true)
			}
		}
	}
	// outside the domain: no TAC at all, > 16 TACs, unknown restriction type, malformed TAC text
	c.stream = "service-area-out-of-domain"
	for _, s := range [][]int{{}, {0}, {17}, {16, 16}, {33}, {200, 57}, {256}} {
		check(plmnPool[0], rts[0], s, false)
		check(plmnPool[2], rts[1], s, false)
	}
	check(plmnPool[0], "", []int{2}, false)
	check(plmnPool[0], "allowed_areas", []int{2}, false)
	for _, tac := range []string{"", "0", "0000", "00000g", "0000000"} {
		c.serviceArea(plmnPool[1], models.ServiceAreaRestriction{RestrictionType: rts[0], Areas: []models.Area{{Tacs: []string{"000001", tac, "000003"}}}})
	}
	c.serviceArea(models.PlmnId{Mcc: "20", Mnc: "93"}, models.ServiceAreaRestriction{RestrictionType: rts[0], Areas: []models.Area{{Tacs: []string{"000001"}}}})
}

// ------------------------------------------------------------------ LADN

func dnnOfLen(r *hk.Run, n int) string {
	b := make([]byte, n)
	for i := range b {
		switch r.Rng.Intn(6) {
		case 0:
			b[i] = r.Rng.Byte()
		case 1:
			b[i] = '.'
		default:
			b[i] = byte('a' + r.Rng.Intn(26))
		}
	}
	return string(b)
}

func checkLadnRaw(c *ctx, buf []byte, emit bool) {
	c.quiet = !emit
	out, x := c.ladnToModels(buf)
	c.quiet = false
	if c.failIfAbnormal(x, "nasConvert.LadnToModels", hk.Hex(buf)) {
		return
	}
	want, _ := specLadnIndication(buf) // entries before the first overrun
	ok := len(out) == len(want)
	for i := 0; ok && i < len(out); i++ {
		ok = out[i] == want[i]
	}
	if !ok {
		c.fail("nasConvert.LadnToModels", "roundtrip", hk.Hex(buf), fmt.Sprintf("got %q, the complete entries are %q", out, want))
	}
}

func streamLadn(c *ctx) {
	lens := []int{0, 1, 2, 62, 63, 64, 100, 101, 254, 255}
	c.stream = "ladn-tonas"
	for i, n := range append(lens, c.r.Rng.Intn(256), c.r.Rng.Intn(256), c.r.Rng.Intn(40), c.r.Rng.Intn(40)) {
		for _, nt := range []int{1, 1 + (i*5)%16, 16} {
			assign := make([]int, nt)
			if i%2 == 1 {
				for k := range assign {
					assign[k] = k % 3
				}
			}
			dnn := dnnOfLen(c.r, n)
			tais := mkTais(c.r, assign, plmnPool)
			out, x := c.ladnToNas(dnn, tais)
			in := fmt.Sprintf("dnn=%x tais=%s", dnn, taiDesc(tais))
			if c.failIfAbnormal(x, "nasConvert.LadnToNas", in) {
				continue
			}
			ls, err := specLadnInfo(out)
			ok := err == nil && len(ls) == 1 && ls[0].dnn == dnn && len(ls[0].tais) == 1 && len(ls[0].tais[0].tais) == nt
			for k := 0; ok && k < nt; k++ {
				v, _ := hexTextValue(tais[k].Tac)
				ok = ls[0].tais[0].tais[k].p == wantPlmn(*tais[k].PlmnId) && ls[0].tais[0].tais[k].tac == int64(v)
			}
			if !ok {
				c.fail("nasConvert.LadnToNas", "spec-decode", in, fmt.Sprintf("encoding %x decodes (9.11.3.30) to %v %v", out, ls, err))
			}
		}
	}
	// outside the domain (correspondence only): DNN longer than 255 octets, empty TAI list
	c.ladnToNas(dnnOfLen(c.r, 256), mkTais(c.r, []int{0}, plmnPool))
	c.ladnToNas(dnnOfLen(c.r, 300), mkTais(c.r, []int{0, 1}, plmnPool))
	c.ladnToNas("internet", nil)

	c.stream = "ladn-indication"
	check := func(dnns []string) {
		var buf []byte
		for _, d := range dnns {
			buf = append(buf, byte(len(d)))
			buf = append(buf, d...)
		}
		out, x := c.ladnToModels(buf)
		if c.failIfAbnormal(x, "nasConvert.LadnToModels", hk.Hex(buf)) {
			return
		}
		ok := len(out) == len(dnns)
		for i := 0; ok && i < len(out); i++ {
			ok = out[i] == dnns[i]
		}
		if !ok {
			c.fail("nasConvert.LadnToModels", "roundtrip", hk.Hex(buf), fmt.Sprintf("got %q want %q", out, dnns))
		}
	}
	check(nil)
	for _, n := range lens {
		check([]string{dnnOfLen(c.r, n)})
		check([]string{dnnOfLen(c.r, n), "internet", dnnOfLen(c.r, n)})
		check([]string{"", dnnOfLen(c.r, n), ""})
	}
	for i := 0; i < c.r.N(40, 600); i++ {
		var l []string
		for k := c.r.Rng.Intn(9); k > 0; k-- {
			l = append(l, dnnOfLen(c.r, c.r.Rng.Pick(0, 1, 5, 20, 63, 100, 255)))
		}
		check(l)
	}
	// more entries than the 8 of TS 24.501 9.11.3.29 (the contents come from the UE, which is not bound by it):
	// many short entries, and n zero-length entries (= n octets 0x00)
	for _, n := range []int{9, 10, 15, 16, 17, 31, 32, 33, 64, 65, 100, 255, 256, 300} {
		l := make([]string, n)
		for k := range l {
			l[k] = dnnOfLen(c.r, c.r.Rng.Pick(0, 0, 1, 2, 5))
		}
		check(l)
		check(make([]string, n))
	}
	// every truncation point / every length octet at the second entry
	c.stream = "ladn-indication-malformed"
	base := []byte{3, 'a', 'b', 'c', 2, 'd', 'e', 0, 1, 'f'}
	checkRaw := func(buf []byte, emit bool) { checkLadnRaw(c, buf, emit) }
	for cut := 0; cut <= len(base); cut++ {
		checkRaw(base[:cut], true)
	}
	for l := 0; l < 256; l++ {
		m := hk.Exact(base)
		m[4] = byte(l)
		checkRaw(m, c.r.Thorough() || l < 16 || l%16 == 0 || l == 255)
		m2 := append(hk.Exact(m), c.r.Rng.Bytes(l)...)
		checkRaw(m2, c.r.Thorough() || l%32 == 5)
	}
}

// ------------------------------------------------------------------ DNN (nasType)

func streamDnn(c *ctx) {
	c.stream = "dnn"
	lab := func(n int) string {
		b := make([]byte, n)
		for i := range b {
			b[i] = byte('a' + c.r.Rng.Intn(26))
		}
		return string(b)
	}
	texts := []string{"", "internet", "a.b", "ims.mnc093.mcc208.gprs", ".", "..", "a.", ".a", "a..b", lab(62), lab(63), lab(62) + "." + lab(36), lab(62) + "." + lab(37),
		lab(49) + "." + lab(49), lab(49) + "." + lab(50), lab(100), lab(99), lab(20) + "." + lab(20) + "." + lab(20) + "." + lab(20) + "." + lab(15), "x\x00y.\xff"}
	for i := 0; i < c.r.N(20, 300); i++ {
		var segs []string
		for k := 1 + c.r.Rng.Intn(5); k > 0; k-- {
			segs = append(segs, lab(c.r.Rng.Intn(30)))
		}
		texts = append(texts, strings.Join(segs, "."))
	}
	for _, s := range texts {
		d, x := c.setDNN(s)
		if c.failIfAbnormal(x, "nasType.DNN.SetDNN", fmt.Sprintf("%x", s)) {
			continue
		}
		// independent expectation: labels <= 62, total <= 100, else unchanged
		valid := true
		tot := 0
		for _, seg := range strings.Split(s, ".") {
			if len(seg) > 62 {
				valid = false
			}
			tot += 1 + len(seg)
		}
		valid = valid && tot <= 100
		if !valid {
			if d.Len != 0 || len(d.Buffer) != 0 {
				c.fail("nasType.DNN.SetDNN", "accepts-malformed", fmt.Sprintf("%x", s), "an over-long DNN was stored")
			}
			continue
		}
		if back, ok := specLabels(d.Buffer); !ok || back != s || int(d.Len) != len(d.Buffer) {
			c.fail("nasType.DNN.SetDNN", "spec-decode", fmt.Sprintf("%x", s), fmt.Sprintf("Buffer %x reads (label coding) as %q", d.Buffer, back))
		}
		got, x2 := c.getDNN(d.Buffer)
		if !c.failIfAbnormal(x2, "nasType.DNN.GetDNN", hk.Hex(d.Buffer)) && got != s {
			c.fail("nasType.DNN.GetDNN", "roundtrip", fmt.Sprintf("%x", s), fmt.Sprintf("GetDNN(SetDNN(s)) = %q", got))
		}
	}
}

// ------------------------------------------------------------------ UPU

func streamUpu(c *ctx) {
	c.stream = "upu"
	mac, ctr := "00112233445566778899aabbccddeeff", "0001"
	for i := 0; i < 4; i++ {
		reg, ack := i&1 == 1, i&2 == 2
		u := models.UpuInfo{UpuRegInd: reg, UpuAckInd: ack, UpuMacIausf: mac, CounterUpu: ctr,
			UpuDataList: []models.UpuData{{SecPacket: "0a0b0c"}, {DefaultConfNssai: []models.Snssai{{Sst: 1, Sd: "010203"}, {Sst: 2}}}, {}}}
		out, x := c.upuInfoToNas(u)
		if c.failIfAbnormal(x, "nasConvert.UpuInfoToNas", fmt.Sprintf("%+v", u)) {
			continue
		}
		hdr := byte(0)
		if reg {
			hdr |= 4
		}
		if ack {
			hdr |= 2
		}
		want := append([]byte{hdr}, mustHex(mac+ctr)...)
		want = append(want, 1, 3, 0x0a, 0x0b, 0x0c, 2, 7, 4, 1, 1, 2, 3, 1, 2, 2, 0)
		if hk.Hex(out) != hk.Hex(want) {
			c.fail("nasConvert.UpuInfoToNas", "layout", fmt.Sprintf("%+v", u), fmt.Sprintf("got %x want %x", out, want))
		}
	}
	// malformed text: correspondence only (decode errors are logged and skipped)
	for _, u := range []models.UpuInfo{
		{}, {UpuMacIausf: "zz", CounterUpu: "0001"}, {UpuMacIausf: "0011", CounterUpu: "00zz"}, {UpuMacIausf: "0011", CounterUpu: "001"},
		{UpuMacIausf: "001", CounterUpu: "0001"}, {UpuMacIausf: "0011", CounterUpu: "0a0bxx0c"},
		{UpuDataList: []models.UpuData{{SecPacket: "xyz"}, {SecPacket: "0"}, {SecPacket: strings.Repeat("ab", 256)}, {SecPacket: strings.Repeat("ab", 255)}}},
		{UpuDataList: []models.UpuData{{DefaultConfNssai: []models.Snssai{{Sst: -1, Sd: "zz"}, {Sst: 256, Sd: "01"}, {Sst: 300}}}}},
	} {
		c.upuInfoToNas(u)
	}
	for i := 0; i < c.r.N(20, 300); i++ {
		u := models.UpuInfo{UpuRegInd: c.r.Rng.Bool(), UpuAckInd: c.r.Rng.Bool(), UpuMacIausf: randHex(c.r, 16, false), CounterUpu: randHex(c.r, 2, c.r.Rng.Bool())}
		for k := c.r.Rng.Intn(4); k > 0; k-- {
			if c.r.Rng.Bool() {
				u.UpuDataList = append(u.UpuDataList, models.UpuData{SecPacket: randHex(c.r, 1+c.r.Rng.Intn(20), false)})
			} else {
				var l []models.Snssai
				for j := c.r.Rng.Intn(5); j > 0; j-- {
					s := models.Snssai{Sst: int32(c.r.Rng.Intn(256))}
					if c.r.Rng.Bool() {
						s.Sd = randHex(c.r, 3, false)
					}
					l = append(l, s)
				}
				u.UpuDataList = append(u.UpuDataList, models.UpuData{DefaultConfNssai: l})
			}
		}
		c.upuInfoToNas(u)
	}
	c.stream = "upu-ack"
	for _, n := range []int{0, 1, 2, 16, 17, 18, 32} {
		for _, first := range []int{0, 1, 2, 255} {
			buf := c.r.Rng.Bytes(n)
			if n > 0 {
				buf[0] = byte(first)
			}
			checkUpuAck(c, buf, true)
		}
	}
}

func checkUpuAck(c *ctx, buf []byte, emit bool) {
	c.quiet = !emit
	out, err, x := c.upuAckToModels(buf)
	c.quiet = false
	if c.failIfAbnormal(x, "nasConvert.UpuAckToModels", hk.Hex(buf)) {
		return
	}
	valid := len(buf) == 17 && buf[0] == 1
	if valid != (err == nil) || (valid && out != hk.Hex(buf[1:])) {
		c.fail("nasConvert.UpuAckToModels", "value", hk.Hex(buf), fmt.Sprintf("got %q err=%v", out, err))
	}
}

// ------------------------------------------------------------------ raw octet strings (C14)

func checkSecCap(c *ctx, buf []byte, emit bool) {
	c.quiet = !emit
	o, x := c.ueSecCap(buf)
	c.quiet = false
	if c.failIfAbnormal(x, "nasConvert.UESecurityCapabilityToByteArray", hk.Hex(buf)) {
		return
	}
	var want [4][2]byte
	if len(buf) >= 2 {
		for i := 0; i < 4 && i < len(buf); i++ {
			want[i][0] = buf[i] << 1
		}
	}
	if o != want {
		c.fail("nasConvert.UESecurityCapabilityToByteArray", "value", hk.Hex(buf), fmt.Sprintf("got %v want %v", o, want))
	}
}

func checkGetDNN(c *ctx, buf []byte, emit bool) {
	c.quiet = !emit
	out, x := c.getDNN(buf)
	c.quiet = false
	if c.failIfAbnormal(x, "nasType.DNN.GetDNN", hk.Hex(buf)) {
		return
	}
	if want, ok := specLabels(buf); ok && out != want {
		c.fail("nasType.DNN.GetDNN", "value", hk.Hex(buf), fmt.Sprintf("got %q, the labels read %q", out, want))
	}
}

func checkSnssaiRaw(c *ctx, buf []byte, emit bool) {
	// the NAS decoder fills Len and Octet[:Len] from the element (Len <= 8 enforced there); any Len is tried here
	var oct [8]uint8
	l := uint8(0)
	if len(buf) > 0 {
		l = buf[0]
		copy(oct[:], buf[1:])
	}
	c.quiet = !emit
	_, x := c.snssaiToModels(l, oct)
	c.quiet = false
	c.failIfAbnormal(x, "nasConvert.SnssaiToModels", hk.Hex(buf))
}

func streamRaw(c *ctx) {
	helpers := []func(*ctx, []byte, bool){
		func(c *ctx, b []byte, e bool) { checkNssaiDecode(c, b, e) },
		checkLadnRaw,
		checkSecCap, checkUpuAck, checkGetDNN, checkSnssaiRaw,
	}
	c.stream = "raw-exhaustive"
	for _, h := range helpers {
		h(c, nil, true)
		for a := 0; a < 256; a++ {
			h(c, []byte{byte(a)}, c.r.Thorough() || a < 10 || a%8 == 0 || a == 255)
		}
	}
	// length 2: quick = sampled (all first octets x a few second octets), thorough = exhaustive on the Go side
	for _, h := range helpers {
		for a := 0; a < 256; a++ {
			for b := 0; b < 256; b++ {
				if !c.r.Thorough() && b != a && b != 0 && b != 255 && b != (a*7+1)%256 {
					continue
				}
				emit := (a < 10 && (b < 10 || b == 255)) || (c.r.Thorough() && b == (a*7+1)%256)
				h(c, []byte{byte(a), byte(b)}, emit)
			}
		}
	}
	if c.r.Thorough() {
		// length 3 exhaustively on the implementation only
		for _, h := range helpers {
			for v := 0; v < 1<<24; v++ {
				h(c, []byte{byte(v >> 16), byte(v >> 8), byte(v)}, false)
			}
		}
		c.r.Extra["raw_len3_exhaustive_per_helper"] = 1 << 24
	}
	c.stream = "raw-random"
	for i := 0; i < c.r.N(300, 6000); i++ {
		n := 3 + c.r.Rng.Intn(40)
		if c.r.Rng.Intn(8) == 0 {
			n = 200 + c.r.Rng.Intn(56)
		}
		buf := c.r.Rng.Bytes(n)
		// structured prefixes: plausible length octets
		for k := 0; k < n; k += 1 + c.r.Rng.Intn(6) {
			buf[k] = byte([]int{0, 1, 2, 4, 5, 8, 3, 255, n - k - 1, n - k}[c.r.Rng.Intn(10)])
		}
		h := helpers[i%len(helpers)]
		h(c, buf, true)
		if i%len(helpers) == 3 { // UPU ack: the accepted shape and its neighbours
			b := c.r.Rng.Bytes(16 + c.r.Rng.Intn(3))
			b[0] = byte(c.r.Rng.Intn(3))
			checkUpuAck(c, b, true)
		}
	}
	_ = nasType.DNN{}
}

func mustHex(s string) []byte {
	b, err := hex.DecodeString(s)
	if err != nil {
		panic(err)
	}
	return b
}

// ------------------------------------------------------------------ corpus: witnesses of repaired defects and boundaries

func streamCorpus(c *ctx) {
	c.stream = "corpus"
	// F15: header must carry number of TACs - 1, not the number of areas
	p := models.PlmnId{Mcc: "208", Mnc: "93"}
	for _, areas := range [][]models.Area{
		{{Tacs: []string{"000001", "000002", "000003"}}},
		{{Tacs: []string{"000001"}}, {Tacs: []string{"000002"}}, {Tacs: []string{"000003"}}},
		{{Tacs: []string{"000001"}}},
	} {
		for _, rt := range []models.RestrictionType{models.RestrictionType_ALLOWED_AREAS, models.RestrictionType_NOT_ALLOWED_AREAS} {
			out, x := c.serviceArea(p, models.ServiceAreaRestriction{RestrictionType: rt, Areas: areas})
			in := fmt.Sprintf("%v %s", areas, rt)
			if c.failIfAbnormal(x, "nasConvert.PartialServiceAreaListToNas", in) {
				continue
			}
			n := 0
			for _, a := range areas {
				n += len(a.Tacs)
			}
			ps, err := specServiceAreaList(out)
			if err != nil || len(ps) != 1 || len(ps[0].tais) != n {
				c.fail("nasConvert.PartialServiceAreaListToNas", "spec-decode", in, fmt.Sprintf("encoding %x decodes (9.11.3.49) to %v %v", out, ps, err))
			}
		}
	}
	// F7
	checkLadnRaw(c, []byte{3, 'a', 'b', 'c'}, true)
	checkLadnRaw(c, []byte{0, 0}, true)
	checkLadnRaw(c, []byte{0}, true)
	checkLadnRaw(c, []byte{8, 'i', 'n', 't', 'e', 'r', 'n', 'e', 't', 3, 'i', 'm', 's'}, true)
	// F5, F6, F8
	checkSecCap(c, []byte{0xe0, 0xe0, 0xe0}, true)
	checkSecCap(c, []byte{0xe0, 0xe0, 0xe0, 0xe0, 0x12}, true)
	checkUpuAck(c, nil, true)
	checkGetDNN(c, nil, true)
	checkGetDNN(c, []byte{0}, true)
	checkGetDNN(c, []byte{8, 'i', 'n', 't', 'e', 'r', 'n', 'e', 't'}, true)
	// the repository's own NSSAI test vectors
	checkNssaiDecode(c, []byte{0x04, 0x01, 0x01, 0x02, 0x03, 0x01, 0x02}, true)
	checkNssaiDecode(c, []byte{0x08, 0x01, 0x01, 0x02, 0x03, 0x02, 0x04, 0x05, 0x06}, true)
	checkNssaiDecode(c, []byte{0x04, 0x01, 0x01, 0x02}, true)
	checkNssaiDecode(c, []byte{0x03, 0x01, 0x01, 0x02}, true)
	// non-canonical S-NSSAI text / SST outside 0..255: correspondence only
	for _, s := range []models.Snssai{{Sst: -1}, {Sst: 256, Sd: "010203"}, {Sst: 0x7fffffff}, {Sst: -2147483648, Sd: "ff"}, {Sst: 1, Sd: "zz"}, {Sst: 1, Sd: "0"}, {Sst: 1, Sd: "01"},
		{Sst: 1, Sd: "01020"}, {Sst: 1, Sd: "0102030"}, {Sst: 1, Sd: "01020304"}, {Sst: 1, Sd: "0102zz"}, {Sst: 1, Sd: "01 203"}, {Sst: 1, Sd: "\x80\xff0000"}} {
		c.snssaiToNas(s)
		c.rejectedSnssaiToNas(s, 1)
		c.rejectedSnssaiToNas(s, 255)
		c.rejectedSnssaiToNas(s, 0xf0)
	}
}
