package main

// Independent decoders written from TS 24.501 / TS 24.008 (they never call the
// library).  They return abstract values: digits, 24-bit numbers, raw octets.

import (
	"errors"
	"fmt"
)

var errTrunc = errors.New("truncated")

// ---- text <-> number (hex text denotes a number; digits 0-9 a-f A-F) ----

func hexTextValue(s string) (uint64, bool) {
	const lo, up = "0123456789abcdef", "0123456789ABCDEF"
	var v uint64
	for i := 0; i < len(s); i++ {
		d := -1
		for k := 0; k < 16; k++ {
			if s[i] == lo[k] || s[i] == up[k] {
				d = k
			}
		}
		if d < 0 {
			return 0, false
		}
		v = v*16 + uint64(d)
	}
	return v, true
}

// ---- S-NSSAI value, 9.11.2.8 ----

type sNssai struct {
	sst    uint8
	sd     int64 // -1 = absent, else 24-bit
	mSst   int   // -1 = absent
	mSd    int64 // -1 = absent
	length int
}

func be24(b []byte) int64 { return int64(b[0])<<16 | int64(b[1])<<8 | int64(b[2]) }

// contents = the octets after the length octet, exactly `length` of them
func specSnssaiValue(contents []byte) (sNssai, error) {
	v := sNssai{sd: -1, mSst: -1, mSd: -1, length: len(contents)}
	switch len(contents) {
	case 1:
		v.sst = contents[0]
	case 2:
		v.sst, v.mSst = contents[0], int(contents[1])
	case 4:
		v.sst, v.sd = contents[0], be24(contents[1:4])
	case 5:
		v.sst, v.sd, v.mSst = contents[0], be24(contents[1:4]), int(contents[4])
	case 8:
		v.sst, v.sd, v.mSst, v.mSd = contents[0], be24(contents[1:4]), int(contents[4]), be24(contents[5:8])
	default:
		return v, fmt.Errorf("reserved S-NSSAI length %d", len(contents))
	}
	return v, nil
}

// NSSAI IE contents, 9.11.3.37: sequence of (length, S-NSSAI value)
func specNssai(b []byte) ([]sNssai, error) {
	var out []sNssai
	for len(b) > 0 {
		l := int(b[0])
		if len(b)-1 < l {
			return nil, errTrunc
		}
		v, err := specSnssaiValue(b[1 : 1+l])
		if err != nil {
			return nil, err
		}
		out = append(out, v)
		b = b[1+l:]
	}
	return out, nil
}

// rejected NSSAI contents, 9.11.3.46: each entry (length<<4 | cause), SST [, SD]
type rejected struct {
	sst   uint8
	sd    int64
	cause uint8
}

func specRejectedNssai(b []byte) ([]rejected, error) {
	var out []rejected
	for len(b) > 0 {
		l, cause := int(b[0]>>4), b[0]&0x0f
		if len(b)-1 < l {
			return nil, errTrunc
		}
		switch l {
		case 1:
			out = append(out, rejected{b[1], -1, cause})
		case 4:
			out = append(out, rejected{b[1], be24(b[2:5]), cause})
		default:
			return nil, fmt.Errorf("reserved rejected S-NSSAI length %d", l)
		}
		b = b[1+l:]
	}
	return out, nil
}

// ---- PLMN, TS 24.008 10.5.1.3 ----

type plmn struct{ mcc, mnc string }

func specPlmn(b []byte) plmn {
	d := func(x byte) string { return fmt.Sprintf("%x", x) } // digits > 9 show as a-f
	p := plmn{}
	p.mcc = d(b[0]&0x0f) + d(b[0]>>4) + d(b[1]&0x0f)
	p.mnc = d(b[2]&0x0f) + d(b[2]>>4)
	if b[1]>>4 != 0x0f {
		p.mnc += d(b[1] >> 4)
	}
	return p
}

type tai struct {
	p   plmn
	tac int64
}

// number of elements field: 0..15 = 1..16 elements, other values are to be read as 16
func specCount(field byte) int {
	if field > 15 {
		return 16
	}
	return int(field) + 1
}

// one partial list as decoded
type partial struct {
	allowed bool // service-area list only: false = allowed area (bit 0), true = non-allowed (bit 1)
	typ     int
	tais    []tai // flattened
	allPlmn bool  // service-area type 11
}

// 5GS tracking area identity list contents, 9.11.3.9
func specTaiList(b []byte) ([]partial, error) {
	var out []partial
	for len(b) > 0 {
		h := b[0]
		typ, n := int(h>>5)&3, specCount(h&0x1f)
		pl := partial{typ: typ}
		b = b[1:]
		switch typ {
		case 0:
			if len(b) < 3+3*n {
				return nil, errTrunc
			}
			p := specPlmn(b[:3])
			for i := 0; i < n; i++ {
				pl.tais = append(pl.tais, tai{p, be24(b[3+3*i:])})
			}
			b = b[3+3*n:]
		case 1:
			if len(b) < 6 {
				return nil, errTrunc
			}
			p := specPlmn(b[:3])
			for i := 0; i < n; i++ {
				pl.tais = append(pl.tais, tai{p, be24(b[3:]) + int64(i)})
			}
			b = b[6:]
		case 2:
			if len(b) < 6*n {
				return nil, errTrunc
			}
			for i := 0; i < n; i++ {
				pl.tais = append(pl.tais, tai{specPlmn(b[6*i:]), be24(b[6*i+3:])})
			}
			b = b[6*n:]
		default:
			return nil, errors.New("reserved type of list")
		}
		out = append(out, pl)
	}
	return out, nil
}

// service area list contents, 9.11.3.49
func specServiceAreaList(b []byte) ([]partial, error) {
	var out []partial
	for len(b) > 0 {
		h := b[0]
		typ, n := int(h>>5)&3, specCount(h&0x1f)
		pl := partial{typ: typ, allowed: h&0x80 != 0}
		b = b[1:]
		switch typ {
		case 0:
			if len(b) < 3+3*n {
				return nil, errTrunc
			}
			p := specPlmn(b[:3])
			for i := 0; i < n; i++ {
				pl.tais = append(pl.tais, tai{p, be24(b[3+3*i:])})
			}
			b = b[3+3*n:]
		case 1:
			if len(b) < 6 {
				return nil, errTrunc
			}
			p := specPlmn(b[:3])
			for i := 0; i < n; i++ {
				pl.tais = append(pl.tais, tai{p, be24(b[3:]) + int64(i)})
			}
			b = b[6:]
		case 2:
			if len(b) < 6*n {
				return nil, errTrunc
			}
			for i := 0; i < n; i++ {
				pl.tais = append(pl.tais, tai{specPlmn(b[6*i:]), be24(b[6*i+3:])})
			}
			b = b[6*n:]
		case 3:
			if len(b) < 3 {
				return nil, errTrunc
			}
			pl.allPlmn = true
			pl.tais = []tai{{specPlmn(b[:3]), -1}}
			b = b[3:]
		}
		out = append(out, pl)
	}
	return out, nil
}

// LADN information contents, 9.11.3.30: (DNN length, DNN, TAI list length, TAI list)*
type ladn struct {
	dnn  string
	tais []partial
}

func specLadnInfo(b []byte) ([]ladn, error) {
	var out []ladn
	for len(b) > 0 {
		l := int(b[0])
		if len(b) < 1+l+1 {
			return nil, errTrunc
		}
		dnn := string(b[1 : 1+l])
		b = b[1+l:]
		tl := int(b[0])
		if len(b) < 1+tl {
			return nil, errTrunc
		}
		ps, err := specTaiList(b[1 : 1+tl])
		if err != nil {
			return nil, err
		}
		out = append(out, ladn{dnn, ps})
		b = b[1+tl:]
	}
	return out, nil
}

// LADN indication contents, 9.11.3.29: (DNN length, DNN)*
func specLadnIndication(b []byte) ([]string, error) {
	var out []string
	for len(b) > 0 {
		l := int(b[0])
		if len(b) < 1+l {
			return out, errTrunc
		}
		out = append(out, string(b[1:1+l]))
		b = b[1+l:]
	}
	return out, nil
}

// DNN value as labels (TS 23.003 9.1 / RFC 1035): (len, label)* -> dotted text
func specLabels(b []byte) (string, bool) {
	s := ""
	for i := 0; i < len(b); {
		l := int(b[i])
		if i+1+l > len(b) {
			return "", false
		}
		if i > 0 {
			s += "."
		}
		s += string(b[i+1 : i+1+l])
		i += 1 + l
	}
	return s, true
}
