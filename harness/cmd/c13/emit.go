package main

// Coq printers for the models.* values and one wrapper per library function:
// each wrapper runs the implementation (panic / hang caught), prints the
// correspondence case and returns what was observed.

import (
	"fmt"
	"strings"
	"time"

	"github.com/free5gc/nas/nasConvert"
	"github.com/free5gc/nas/nasType"
	"github.com/free5gc/openapi/models"

	"verifharness/hk"
)

func coqSnssai(s models.Snssai) string {
	return fmt.Sprintf("(mkSnssai %d %s)", uint32(s.Sst), hk.CoqStr(s.Sd))
}
func coqSnssaiPtr(s *models.Snssai) string {
	if s == nil {
		return "None"
	}
	return "(Some " + coqSnssai(*s) + ")"
}
func coqSnssaiList(l []models.Snssai) string {
	var xs []string
	for _, s := range l {
		xs = append(xs, coqSnssai(s))
	}
	return hk.CoqList(xs)
}
func coqPlmn(p models.PlmnId) string {
	return fmt.Sprintf("(mkPlmnId %s %s)", hk.CoqStr(p.Mcc), hk.CoqStr(p.Mnc))
}
func coqTai(t models.Tai) string {
	if t.PlmnId == nil {
		return fmt.Sprintf("(mkTai None %s)", hk.CoqStr(t.Tac))
	}
	return fmt.Sprintf("(mkTai (Some %s) %s)", coqPlmn(*t.PlmnId), hk.CoqStr(t.Tac))
}
func coqTaiList(l []models.Tai) string {
	var xs []string
	for _, t := range l {
		xs = append(xs, coqTai(t))
	}
	return hk.CoqList(xs)
}
func coqStrs(l []string) string {
	var xs []string
	for _, s := range l {
		xs = append(xs, hk.CoqStr(s))
	}
	return hk.CoqList(xs)
}
func coqAreas(areas []models.Area) string {
	var xs []string
	for _, a := range areas {
		xs = append(xs, coqStrs(a.Tacs))
	}
	return hk.CoqList(xs)
}
func coqMappings(l []models.MappingOfSnssai) string {
	var xs []string
	for _, m := range l {
		xs = append(xs, fmt.Sprintf("(mkMapping %s %s)", coqSnssaiPtr(m.ServingSnssai), coqSnssaiPtr(m.HomeSnssai)))
	}
	return hk.CoqList(xs)
}
func coqUpu(u models.UpuInfo) string {
	var ds []string
	for _, d := range u.UpuDataList {
		ds = append(ds, fmt.Sprintf("(mkUpuData %s %s)", hk.CoqStr(d.SecPacket), coqSnssaiList(d.DefaultConfNssai)))
	}
	return fmt.Sprintf("(mkUpuInfo %s %s %s %s %s)", hk.CoqList(ds), hk.CoqBool(u.UpuRegInd), hk.CoqBool(u.UpuAckInd),
		hk.CoqStr(u.UpuMacIausf), hk.CoqStr(u.CounterUpu))
}

// result of one guarded call
type res struct {
	panicked, hang bool
	val            interface{}
}

func guard(f func()) res {
	p, h, v := hk.CatchTimeout(2*time.Second, f)
	return res{p, h, v}
}

// obs picks the Coq observation: OPanic / OHang or the value term
func (x res) obs(okTerm string) string {
	if x.hang {
		return "OHang"
	}
	if x.panicked {
		return "OPanic"
	}
	return okTerm
}
func (x res) class() string {
	if x.hang {
		return "hang"
	}
	if x.panicked {
		return "panic"
	}
	return "ok"
}

type ctx struct {
	r      *hk.Run
	stream string
	quiet  bool // run the oracle only, do not print a correspondence case
}

// addf prints a case (lazily formatted); key != "" marks it non-trivial
func (c *ctx) addf(f func() (call, obs, desc, key string)) {
	if c.quiet {
		c.r.Count(c.stream+"(oracle-only)", "")
		return
	}
	call, obs, desc, key := f()
	id := c.r.NextID()
	c.r.AddCase(fmt.Sprintf("(%d, %s, %s)", id, call, obs), desc)
	c.r.Count(c.stream, key)
}

// failIfAbnormal reports panics / hangs of helpers that must be total on the given input
func (c *ctx) failIfAbnormal(x res, site string, input interface{}) bool {
	if x.hang || x.panicked {
		c.r.Fail(hk.Failure{Site: site, Class: x.class(), Input: input, Detail: fmt.Sprintf("%v", x.val)})
		return true
	}
	return false
}

// ---- wrappers ----

func (c *ctx) snssaiToNas(s models.Snssai) ([]byte, res) {
	var out []byte
	x := guard(func() { out = nasConvert.SnssaiToNas(s) })
	c.addf(func() (string, string, string, string) {
		return "CSnssaiToNas " + coqSnssai(s), x.obs("OBytes " + hk.CoqBytes(out)),
			fmt.Sprintf("SnssaiToNas sst=%d sd=%q", s.Sst, s.Sd), fmt.Sprintf("s2n/%d/%s", s.Sst, s.Sd)
	})
	return out, x
}

func (c *ctx) rejectedSnssaiToNas(s models.Snssai, cause uint8) ([]byte, res) {
	var out []byte
	x := guard(func() { out = nasConvert.RejectedSnssaiToNas(s, cause) })
	c.addf(func() (string, string, string, string) {
		return fmt.Sprintf("CRejectedSnssaiToNas %s %d", coqSnssai(s), cause), x.obs("OBytes " + hk.CoqBytes(out)),
			fmt.Sprintf("RejectedSnssaiToNas sst=%d sd=%q cause=%d", s.Sst, s.Sd, cause), fmt.Sprintf("rs2n/%d/%s/%d", s.Sst, s.Sd, cause)
	})
	return out, x
}

func (c *ctx) snssaiToModels(l uint8, octet [8]uint8) (models.Snssai, res) {
	var out models.Snssai
	v := nasType.SNSSAI{Len: l, Octet: octet}
	x := guard(func() { out = nasConvert.SnssaiToModels(&v) })
	c.addf(func() (string, string, string, string) {
		return fmt.Sprintf("CSnssaiToModels %d %s", l, hk.CoqBytes(octet[:])), x.obs("OSnssai " + coqSnssai(out)),
			fmt.Sprintf("SnssaiToModels Len=%d Octet=%x", l, octet), fmt.Sprintf("s2m/%d/%x", l, octet)
	})
	return out, x
}

func (c *ctx) requestedNssaiToModels(l uint8, buffer []byte) ([]models.MappingOfSnssai, error, res) {
	var out []models.MappingOfSnssai
	var err error
	v := nasType.RequestedNSSAI{Len: l, Buffer: hk.Exact(buffer)}
	x := guard(func() { out, err = nasConvert.RequestedNssaiToModels(&v) })
	o := "OMappings " + coqMappings(out)
	key := ""
	if err != nil {
		o = "OErr"
	} else if len(out) > 0 {
		key = fmt.Sprintf("rn2m/%d/%x", l, buffer)
	}
	c.addf(func() (string, string, string, string) {
		return fmt.Sprintf("CRequestedNssaiToModels %d %s", l, hk.CoqBytes(buffer)), x.obs(o),
			fmt.Sprintf("RequestedNssaiToModels Len=%d Buffer=%x", l, buffer), key
	})
	return out, err, x
}

func (c *ctx) rejectedNssaiToNas(a, b []models.Snssai) (nasType.RejectedNSSAI, res) {
	var out nasType.RejectedNSSAI
	x := guard(func() { out = nasConvert.RejectedNssaiToNas(a, b) })
	c.addf(func() (string, string, string, string) {
		return fmt.Sprintf("CRejectedNssaiToNas %s %s", coqSnssaiList(a), coqSnssaiList(b)),
			x.obs(fmt.Sprintf("OLenBuf %d %s", out.Len, hk.CoqBytes(out.Buffer))),
			fmt.Sprintf("RejectedNssaiToNas inPlmn=%v inTa=%v", a, b), fmt.Sprintf("rjn/%v/%v", a, b)
	})
	return out, x
}

func (c *ctx) plmnIDToNas(p models.PlmnId) ([]byte, res) {
	var out []byte
	x := guard(func() { out = nasConvert.PlmnIDToNas(p) })
	c.addf(func() (string, string, string, string) {
		return "CPlmnIDToNas " + coqPlmn(p), x.obs("OBytes " + hk.CoqBytes(out)),
			fmt.Sprintf("PlmnIDToNas mcc=%q mnc=%q", p.Mcc, p.Mnc), fmt.Sprintf("plmn/%s/%s", p.Mcc, p.Mnc)
	})
	return out, x
}

func taiDesc(l []models.Tai) string {
	var xs []string
	for _, t := range l {
		if t.PlmnId == nil {
			xs = append(xs, "nil/"+t.Tac)
		} else {
			xs = append(xs, t.PlmnId.Mcc+"-"+t.PlmnId.Mnc+"/"+t.Tac)
		}
	}
	return strings.Join(xs, ",")
}

func (c *ctx) taiListToNas(l []models.Tai) ([]byte, res) {
	var out []byte
	x := guard(func() { out = nasConvert.TaiListToNas(l) })
	c.addf(func() (string, string, string, string) {
		return "CTaiListToNas " + coqTaiList(l), x.obs("OBytes " + hk.CoqBytes(out)),
			"TaiListToNas " + taiDesc(l), "tai/" + taiDesc(l)
	})
	return out, x
}

func (c *ctx) serviceArea(p models.PlmnId, sar models.ServiceAreaRestriction) ([]byte, res) {
	var out []byte
	x := guard(func() { out = nasConvert.PartialServiceAreaListToNas(p, sar) })
	d := fmt.Sprintf("PartialServiceAreaListToNas %s-%s %s %v", p.Mcc, p.Mnc, sar.RestrictionType, sar.Areas)
	c.addf(func() (string, string, string, string) {
		return fmt.Sprintf("CPartialServiceAreaListToNas %s %s %s", coqPlmn(p), hk.CoqStr(string(sar.RestrictionType)), coqAreas(sar.Areas)),
			x.obs("OBytes " + hk.CoqBytes(out)), d, d
	})
	return out, x
}

func (c *ctx) ladnToModels(buf []byte) ([]string, res) {
	var out []string
	in := hk.Exact(buf)
	x := guard(func() { out = nasConvert.LadnToModels(in) })
	key := ""
	if len(out) > 0 {
		key = "l2m/" + hk.Hex(buf)
	}
	c.addf(func() (string, string, string, string) {
		return "CLadnToModels " + hk.CoqBytes(buf), x.obs("OStrs " + coqStrs(out)), "LadnToModels " + hk.Hex(buf), key
	})
	return out, x
}

func (c *ctx) ladnToNas(dnn string, l []models.Tai) ([]byte, res) {
	var out []byte
	x := guard(func() { out = nasConvert.LadnToNas(dnn, l) })
	c.addf(func() (string, string, string, string) {
		return fmt.Sprintf("CLadnToNas %s %s", hk.CoqStr(dnn), coqTaiList(l)), x.obs("OBytes " + hk.CoqBytes(out)),
			fmt.Sprintf("LadnToNas dnn=%x tais=%s", dnn, taiDesc(l)), fmt.Sprintf("l2n/%x/%s", dnn, taiDesc(l))
	})
	return out, x
}

func (c *ctx) ueSecCap(buf []byte) ([4][2]byte, res) {
	var o [4][2]byte
	in := hk.Exact(buf)
	x := guard(func() { o[0], o[1], o[2], o[3] = nasConvert.UESecurityCapabilityToByteArray(in) })
	key := ""
	if len(buf) >= 2 {
		key = "uesc/" + hk.Hex(buf)
	}
	c.addf(func() (string, string, string, string) {
		return "CUESecurityCapabilityToByteArray " + hk.CoqBytes(buf),
			x.obs(fmt.Sprintf("OCaps %s %s %s %s", hk.CoqBytes(o[0][:]), hk.CoqBytes(o[1][:]), hk.CoqBytes(o[2][:]), hk.CoqBytes(o[3][:]))),
			"UESecurityCapabilityToByteArray " + hk.Hex(buf), key
	})
	return o, x
}

func (c *ctx) upuInfoToNas(u models.UpuInfo) ([]byte, res) {
	var out []byte
	x := guard(func() { out = nasConvert.UpuInfoToNas(u) })
	d := fmt.Sprintf("UpuInfoToNas %+v", u)
	c.addf(func() (string, string, string, string) {
		return "CUpuInfoToNas " + coqUpu(u), x.obs("OBytes " + hk.CoqBytes(out)), d, d
	})
	return out, x
}

func (c *ctx) upuAckToModels(buf []byte) (string, error, res) {
	var out string
	var err error
	in := hk.Exact(buf)
	x := guard(func() { out, err = nasConvert.UpuAckToModels(in) })
	o := "OBytes " + hk.CoqStr(out)
	key := ""
	if err != nil {
		o = "OErr"
	} else {
		key = "upuack/" + hk.Hex(buf)
	}
	c.addf(func() (string, string, string, string) {
		return "CUpuAckToModels " + hk.CoqBytes(buf), x.obs(o), "UpuAckToModels " + hk.Hex(buf), key
	})
	return out, err, x
}

func (c *ctx) getDNN(buffer []byte) (string, res) {
	var out string
	d := nasType.DNN{Len: uint8(len(buffer)), Buffer: hk.Exact(buffer)}
	x := guard(func() { out = d.GetDNN() })
	key := ""
	if len(out) > 0 {
		key = "getdnn/" + hk.Hex(buffer)
	}
	c.addf(func() (string, string, string, string) {
		return "CGetDNN " + hk.CoqBytes(buffer), x.obs("OBytes " + hk.CoqStr(out)), "DNN.GetDNN Buffer=" + hk.Hex(buffer), key
	})
	return out, x
}

func (c *ctx) setDNN(s string) (nasType.DNN, res) {
	var d nasType.DNN
	x := guard(func() { d.SetDNN(s) })
	c.addf(func() (string, string, string, string) {
		return "CSetDNN " + hk.CoqStr(s), x.obs(fmt.Sprintf("OLenBuf %d %s", d.Len, hk.CoqBytes(d.Buffer))),
			fmt.Sprintf("DNN.SetDNN %x", s), fmt.Sprintf("setdnn/%x", s)
	})
	return d, x
}
