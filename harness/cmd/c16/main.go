// C16: protocol configuration options, PDU session status bitmap, reactivation
// result error cause.  Runs the implementation, evaluates the property on it
// (direct oracle) and prints the observed behaviour as cases for coq/C16/Corr.v.
//
// Normalisation: a nil and an empty []byte are the same (printed as []).
package main

import (
	"bytes"
	"fmt"
	"io"
	"net"
	"strings"

	"github.com/free5gc/nas/logger"
	"github.com/free5gc/nas/nasConvert"

	"verifharness/hk"
)

func main() { hk.Main("C16", run) }

type unit struct {
	id  uint16
	ln  uint8
	cts []byte
}

func coqUnits(us []unit) string {
	var s []string
	for _, u := range us {
		s = append(s, fmt.Sprintf("mkpcu %d %d %s", u.id, u.ln, hk.CoqBytes(u.cts)))
	}
	return hk.CoqList(s)
}

func toPCO(us []unit) *nasConvert.ProtocolConfigurationOptions {
	p := nasConvert.NewProtocolConfigurationOptions()
	for _, u := range us {
		c := nasConvert.NewProtocolOrContainerUnit()
		c.ProtocolOrContainerID = u.id
		c.LengthOfContents = u.ln
		c.Contents = hk.Exact(u.cts)
		if len(u.cts) == 0 && (int(u.id)+len(us))%2 == 0 {
			// an empty container built as a struct literal: nil, not empty, contents (same unit to the format)
			c = &nasConvert.ProtocolOrContainerUnit{ProtocolOrContainerID: u.id, LengthOfContents: u.ln}
		}
		p.ProtocolOrContainerList = append(p.ProtocolOrContainerList, c)
	}
	return p
}

func fromPCO(p *nasConvert.ProtocolConfigurationOptions) []unit {
	var us []unit
	for _, c := range p.ProtocolOrContainerList {
		us = append(us, unit{c.ProtocolOrContainerID, c.LengthOfContents, hk.Exact(c.Contents)})
	}
	return us
}

func sameUnits(a, b []unit) bool {
	if len(a) != len(b) {
		return false
	}
	for i := range a {
		if a[i].id != b[i].id || a[i].ln != b[i].ln || !bytes.Equal(a[i].cts, b[i].cts) {
			return false
		}
	}
	return true
}

// specEncode: TS 24.008 10.5.6.3 contents from octet 3 on: 1 ext | 0000 spare | 000
// configuration protocol, then per unit identifier (2 octets, high first),
// length, contents.  Written independently of the implementation.
func specEncode(us []unit) []byte {
	out := []byte{0x80}
	for _, u := range us {
		out = append(out, byte(u.id>>8), byte(u.id), byte(len(u.cts)))
		out = append(out, u.cts...)
	}
	return out
}

// chainOK: the property "never yields contents that are not in the input":
// unit k sits at the offset where unit k-1 ended (the first at 1), its header
// octets are id/len and its contents are the next len octets of the input.
// Returns the offset after the last unit.
func chainOK(bs []byte, us []unit) (bool, int) {
	off := 1
	for _, u := range us {
		if off+3 > len(bs) {
			return false, off
		}
		if uint16(bs[off])<<8|uint16(bs[off+1]) != u.id || bs[off+2] != u.ln {
			return false, off
		}
		end := off + 3 + int(u.ln)
		if end > len(bs) || len(u.cts) != int(u.ln) || !bytes.Equal(u.cts, bs[off+3:end]) {
			return false, off
		}
		off = end
	}
	return true, off
}

// specDecode: independent reference reader: walks (id, len, contents) units
// from offset 1; a unit that does not fit is an error; what was complete
// before stays.  Two lenient cases of the implementation are mirrored (dangling =
// true): input ending right after a 2-octet identifier, or right after a
// non-zero length octet: the incomplete unit is dropped without an error.
func specDecode(bs []byte) (us []unit, err bool, dangling bool) {
	if len(bs) == 0 {
		return nil, true, false
	}
	off := 1
	for off < len(bs) {
		if off+2 > len(bs) {
			return us, true, false
		}
		if off+2 == len(bs) {
			return us, false, true
		}
		l := int(bs[off+2])
		if off+3 == len(bs) && l > 0 {
			// input ends right after a non-zero length octet: the implementation
			// leaves its loop (no octets left) without appending and without error
			return us, false, true
		}
		if off+3+l > len(bs) {
			return us, true, false
		}
		us = append(us, unit{uint16(bs[off])<<8 | uint16(bs[off+1]), bs[off+2], append([]byte{}, bs[off+3:off+3+l]...)})
		off += 3 + l
	}
	return us, false, false
}

func run(r *hk.Run) {
	logger.GetLogger().SetOutput(io.Discard)
	r.SetCoq("From NV Require Import Lib.Base C16.Model C16.Corr.\nOpen Scope N_scope.", "case")

	// ---------------- Marshal (and the round trip on well-formed lists)
	doMarshal := func(stream string, us []unit, wf bool) []byte {
		var out []byte
		p := toPCO(us)
		panicked, pv := hk.Catch(func() { out = p.Marshal() })
		r.Retain("nasConvert.ProtocolConfigurationOptions.Marshal", coqUnits(us), out)
		id := r.NextID()
		desc := "Marshal " + coqUnits(us)
		if panicked {
			r.AddCase(fmt.Sprintf("(%d, IMarshal %s, OPanic)", id, coqUnits(us)), desc)
			r.Fail(hk.Failure{Site: "nasConvert.ProtocolConfigurationOptions.Marshal", Class: "panic", Input: coqUnits(us), Detail: fmt.Sprint(pv)})
			return nil
		}
		r.AddCase(fmt.Sprintf("(%d, IMarshal %s, OBytes %s)", id, coqUnits(us), hk.CoqBytes(out)), desc)
		key := ""
		if len(us) > 0 {
			key = "m" + hk.Hex(out)
		}
		r.Count(stream, key)
		r.Dist[fmt.Sprintf("marshal_units_%02d", len(us))]++
		r.Sample(map[string]interface{}{"marshal": coqUnits(us), "out": hk.Hex(out)})
		if len(out) == 0 || out[0] != 0x80 {
			r.Fail(hk.Failure{Site: "nasConvert.ProtocolConfigurationOptions.Marshal", Class: "first-octet", Input: coqUnits(us), Detail: "first octet is not 0x80"})
		}
		if wf {
			if want := specEncode(us); !bytes.Equal(out, want) {
				r.Fail(hk.Failure{Site: "nasConvert.ProtocolConfigurationOptions.Marshal", Class: "wrong-encoding", Input: coqUnits(us), Detail: fmt.Sprintf("got %x want %x", out, want)})
			}
		}
		return out
	}

	doUnMarshal := func(stream string, bs []byte, want []unit, haveWant bool) {
		p := nasConvert.NewProtocolConfigurationOptions()
		var err error
		in := hk.Exact(bs)
		panicked, hang, pv := hk.CatchTimeout(2e9, func() { err = p.UnMarshal(in) })
		id := r.NextID()
		desc := "UnMarshal " + hk.Hex(bs)
		if hang {
			r.AddCase(fmt.Sprintf("(%d, IUnMarshal %s, OPanic)", id, hk.CoqBytes(bs)), desc)
			r.Fail(hk.Failure{Site: "nasConvert.ProtocolConfigurationOptions.UnMarshal", Class: "hang", Input: hk.Hex(bs), Detail: "no result within 2 s"})
			return
		}
		if panicked {
			r.AddCase(fmt.Sprintf("(%d, IUnMarshal %s, OPanic)", id, hk.CoqBytes(bs)), desc)
			r.Fail(hk.Failure{Site: "nasConvert.ProtocolConfigurationOptions.UnMarshal", Class: "panic", Input: hk.Hex(bs), Detail: fmt.Sprint(pv)})
			r.Count(stream, "p"+hk.Hex(bs))
			return
		}
		got := fromPCO(p)
		r.AddCase(fmt.Sprintf("(%d, IUnMarshal %s, OUnits %s %s)", id, hk.CoqBytes(bs), coqUnits(got), hk.CoqBool(err != nil)), desc)
		key := ""
		if len(got) > 0 {
			key = "u" + hk.Hex(bs)
		}
		r.Count(stream, key)
		r.Dist[fmt.Sprintf("unmarshal_len_%03d", len(bs)/16*16)]++
		if err != nil {
			r.Dist["unmarshal_err"]++
		} else {
			r.Dist["unmarshal_ok"]++
		}
		r.Sample(map[string]interface{}{"unmarshal": hk.Hex(bs), "units": coqUnits(got), "err": err != nil})
		if !bytes.Equal(in, bs) {
			r.Fail(hk.Failure{Site: "nasConvert.ProtocolConfigurationOptions.UnMarshal", Class: "mutates-input", Input: hk.Hex(bs), Detail: "input slice was modified"})
		}
		// property: contents come from the input, at the announced positions
		if ok, off := chainOK(bs, got); !ok {
			r.Fail(hk.Failure{Site: "nasConvert.ProtocolConfigurationOptions.UnMarshal", Class: "contents-not-in-input", Input: hk.Hex(bs), Detail: fmt.Sprintf("unit at offset %d does not match the input; units %s", off, coqUnits(got))})
		}
		// independent reference reader
		su, serr, _ := specDecode(bs)
		if !sameUnits(su, got) || serr != (err != nil) {
			r.Fail(hk.Failure{Site: "nasConvert.ProtocolConfigurationOptions.UnMarshal", Class: "wrong-decoding", Input: hk.Hex(bs), Detail: fmt.Sprintf("got %s err=%v, reference %s err=%v", coqUnits(got), err != nil, coqUnits(su), serr)})
		}
		if haveWant {
			if err != nil || !sameUnits(got, want) {
				r.Fail(hk.Failure{Site: "nasConvert.ProtocolConfigurationOptions.UnMarshal", Class: "roundtrip", Input: hk.Hex(bs), Detail: fmt.Sprintf("UnMarshal(Marshal(l)) = %s err=%v, l = %s", coqUnits(got), err != nil, coqUnits(want))})
			}
		}
	}

	roundtrip := func(stream string, us []unit) []byte {
		out := doMarshal(stream, us, true)
		if out != nil {
			doUnMarshal(stream, out, us, true)
		}
		return out
	}

	mkUnit := func(id uint16, n int) unit {
		return unit{id, uint8(n), r.Rng.Bytes(n)}
	}
	ids := []uint16{0, 1, 0x8000, 0xffff}
	lens := []int{0, 1, 254, 255}

	// (1) corpus / boundary
	roundtrip("corpus", nil)
	roundtrip("corpus", []unit{{0x000d, 0, nil}})
	roundtrip("corpus", []unit{{0x000d, 4, []byte{8, 8, 8, 8}}, {0x0010, 2, []byte{5, 220}}, {0x0003, 0, nil}})
	roundtrip("corpus", []unit{{0, 0, nil}, {0, 0, nil}, {0xffff, 255, bytes.Repeat([]byte{0xff}, 255)}})
	for _, bs := range [][]byte{nil, {0x80}, {0x00}, {0x80, 0}, {0x80, 0, 1}, {0x80, 0, 1, 0}, {0x80, 0, 1, 1}, {0x80, 0, 1, 1, 7}, {0x80, 0, 1, 0, 0}, {0x80, 0, 1, 0, 0, 2}, {0x80, 0, 1, 0, 0, 2, 0},
		{0x80, 0, 1, 255}, {0xff, 0, 1, 0, 0, 3, 0, 0xaa}} {
		doUnMarshal("corpus", bs, nil, false)
	}

	// (2) directed: every identifier x every length boundary, list sizes 0,1,2,10,50
	var valid [][]byte
	for _, id := range ids {
		for _, n := range lens {
			valid = append(valid, roundtrip("directed", []unit{mkUnit(id, n)}))
			valid = append(valid, roundtrip("directed", []unit{mkUnit(id, n), mkUnit(uint16(r.Rng.Next()), 3)}))
			valid = append(valid, roundtrip("directed", []unit{mkUnit(uint16(r.Rng.Next()), 2), mkUnit(id, n)}))
		}
	}
	// 17 .. 300 units: the list has no maximum of its own (only the element length bounds it), so a result
	// container sized from any "usual" count must not be overrun
	for _, cnt := range []int{0, 1, 2, 10, 50, 17, 33, 65, 129, 257, 300} {
		reps := r.N(3, 12)
		if cnt > 50 || cnt == 17 || cnt == 33 {
			reps = 2
		}
		for rep := 0; rep < reps; rep++ {
			var us []unit
			for i := 0; i < cnt; i++ {
				id := uint16(r.Rng.Next())
				if r.Rng.Intn(3) == 0 {
					id = ids[r.Rng.Intn(len(ids))]
				}
				n := r.Rng.Intn(12)
				switch r.Rng.Intn(8) {
				case 0:
					n = 0
				case 1:
					n = lens[r.Rng.Intn(len(lens))]
					if cnt >= 10 && n > 1 && r.Rng.Intn(4) != 0 {
						n = 1
					}
				}
				us = append(us, mkUnit(id, n))
			}
			out := roundtrip("directed", us)
			if cnt <= 2 || rep == 0 {
				valid = append(valid, out)
			}
		}
	}
	// lists whose LengthOfContents field disagrees with len(Contents) (Marshal writes both as they are)
	for i := 0; i < r.N(20, 100); i++ {
		us := []unit{{uint16(r.Rng.Next()), uint8(r.Rng.Intn(6)), r.Rng.Bytes(r.Rng.Intn(6))}, mkUnit(uint16(r.Rng.Next()), r.Rng.Intn(4))}
		if out := doMarshal("marshal_len_field_free", us, false); out != nil {
			doUnMarshal("marshal_len_field_free", out, nil, false)
		}
	}

	// every truncation point and every length-octet mutation of valid encodings
	nTrunc := 0
	for vi, v := range valid {
		if v == nil {
			continue
		}
		short := len(v) <= 24
		if !short && vi%7 != 0 && !r.Thorough() {
			continue
		}
		step := 1
		if len(v) > 80 && !r.Thorough() {
			step = len(v)/40 + 1
		}
		for cut := 0; cut < len(v); cut += step {
			doUnMarshal("truncation", v[:cut], nil, false)
			nTrunc++
		}
		// the last few cut points always
		for cut := len(v) - 4; cut < len(v); cut++ {
			if cut >= 0 && step > 1 {
				doUnMarshal("truncation", v[:cut], nil, false)
			}
		}
		// length octets: walk the units
		us, _, _ := specDecode(v)
		off := 1
		for k, u := range us {
			if k < 3 || r.Thorough() {
				for _, nv := range []int{0, 1, int(u.ln) - 1, int(u.ln) + 1, 254, 255, len(v) - off - 3, len(v) - off - 2} {
					if nv < 0 || nv > 255 || nv == int(u.ln) {
						continue
					}
					m := hk.Exact(v)
					m[off+2] = byte(nv)
					doUnMarshal("length_mutation", m, nil, false)
				}
			}
			off += 3 + int(u.ln)
		}
	}
	r.Extra["truncation_cases"] = nTrunc

	// (3) structured random: valid encodings with a random octet changed / inserted / dropped
	for i := 0; i < r.N(300, 4000); i++ {
		var us []unit
		for k := r.Rng.Intn(5); k >= 0; k-- {
			us = append(us, mkUnit(uint16(r.Rng.Next()), r.Rng.Pick(0, 0, 1, 2, 3, 4, 16)))
		}
		v := specEncode(us)
		switch r.Rng.Intn(4) {
		case 0:
			v[r.Rng.Intn(len(v))] = r.Rng.Byte()
		case 1:
			p := r.Rng.Intn(len(v))
			v = append(v[:p], v[p+1:]...)
		case 2:
			p := r.Rng.Intn(len(v) + 1)
			v = append(v[:p], append([]byte{byte(r.Rng.Pick(0, 1, 2, 255, int(r.Rng.Byte())))}, v[p:]...)...)
		case 3:
			v = append(v, r.Rng.Bytes(1+r.Rng.Intn(3))...)
		}
		doUnMarshal("structured_random", v, nil, false)
	}
	// (4) malformed random
	for i := 0; i < r.N(300, 4000); i++ {
		n := r.Rng.Intn(40)
		bs := r.Rng.Bytes(n)
		if r.Rng.Bool() { // small length octets make longer chains
			for j := range bs {
				if r.Rng.Intn(3) == 0 {
					bs[j] = byte(r.Rng.Intn(4))
				}
			}
		}
		doUnMarshal("random", bs, nil, false)
	}

	// ---------------- Add* helpers
	doAdds := func(ops []string, apply []func(p *nasConvert.ProtocolConfigurationOptions) error, want []unit, wantErr []bool) {
		p := nasConvert.NewProtocolConfigurationOptions()
		var errs []string
		var wire []byte
		panicked, pv := hk.Catch(func() {
			for _, f := range apply {
				errs = append(errs, hk.CoqBool(f(p) != nil))
			}
			wire = p.Marshal()
		})
		id := r.NextID()
		desc := "Add* " + strings.Join(ops, "; ")
		if panicked {
			r.AddCase(fmt.Sprintf("(%d, IAdds %s, OPanic)", id, hk.CoqList(ops)), desc)
			r.Fail(hk.Failure{Site: "nasConvert.ProtocolConfigurationOptions.Add", Class: "panic", Input: strings.Join(ops, "; "), Detail: fmt.Sprint(pv)})
			return
		}
		us := fromPCO(p)
		r.AddCase(fmt.Sprintf("(%d, IAdds %s, OAdds %s %s %s)", id, hk.CoqList(ops), coqUnits(us), hk.CoqList(errs), hk.CoqBytes(wire)), desc)
		r.Count("add_helpers", "a"+strings.Join(ops, ";"))
		// oracle: what the helpers built survives the round trip
		q := nasConvert.NewProtocolConfigurationOptions()
		if err := q.UnMarshal(wire); err != nil || !sameUnits(fromPCO(q), us) {
			r.Fail(hk.Failure{Site: "nasConvert.ProtocolConfigurationOptions.Add", Class: "roundtrip", Input: strings.Join(ops, "; "), Detail: "list built by the Add helpers does not survive Marshal/UnMarshal"})
		}
		// oracle: the units the helpers must have appended (TS 24.008 10.5.6.3 identifiers), computed here
		if !sameUnits(us, want) {
			r.Fail(hk.Failure{Site: "nasConvert.ProtocolConfigurationOptions.Add", Class: "wrong-unit", Input: strings.Join(ops, "; "), Detail: fmt.Sprintf("got %s want %s", coqUnits(us), coqUnits(want))})
		}
		for i, e := range wantErr {
			if i < len(errs) && errs[i] != hk.CoqBool(e) {
				r.Fail(hk.Failure{Site: "nasConvert.ProtocolConfigurationOptions.Add", Class: "wrong-error", Input: strings.Join(ops, "; "), Detail: fmt.Sprintf("call %d: error = %s, want %v", i, errs[i], e)})
			}
		}
		for _, u := range us {
			if int(u.ln) != len(u.cts) {
				r.Fail(hk.Failure{Site: "nasConvert.ProtocolConfigurationOptions.Add", Class: "length-field", Input: strings.Join(ops, "; "), Detail: "LengthOfContents differs from len(Contents)"})
			}
		}
	}
	type pf = func(p *nasConvert.ProtocolConfigurationOptions) error
	genIP := func() []byte {
		switch r.Rng.Intn(6) {
		case 0:
			return r.Rng.Bytes(4)
		case 1:
			return r.Rng.Bytes(16)
		case 2:
			return net.IP(r.Rng.Bytes(4)).To16()
		case 3:
			return r.Rng.Bytes(r.Rng.Pick(0, 1, 3, 5, 15, 17))
		case 4:
			ip := net.IP(r.Rng.Bytes(4)).To16()
			ip[r.Rng.Intn(12)] ^= 1 << uint(r.Rng.Intn(8)) // spoil the v4-in-v6 prefix
			return ip
		}
		return nil
	}
	for i := 0; i < r.N(150, 1500); i++ {
		var ops []string
		var apply []pf
		var want []unit
		var wantErr []bool
		v4 := func(id uint16, ip []byte) {
			// IPv4 address: 4 octets, or 16 octets with the ::ffff:0:0/96 prefix
			var a []byte
			if len(ip) == 4 {
				a = ip
			} else if len(ip) == 16 && bytes.Equal(ip[:12], []byte{0, 0, 0, 0, 0, 0, 0, 0, 0, 0, 0xff, 0xff}) {
				a = ip[12:]
			}
			if a == nil {
				wantErr = append(wantErr, true)
				return
			}
			wantErr = append(wantErr, false)
			want = append(want, unit{id, 4, hk.Exact(a)})
		}
		for k := 1 + r.Rng.Intn(5); k > 0; k-- {
			switch r.Rng.Intn(7) {
			case 0:
				ops = append(ops, "AReq4")
				want, wantErr = append(want, unit{0x000d, 0, nil}), append(wantErr, false)
				apply = append(apply, func(p *nasConvert.ProtocolConfigurationOptions) error { p.AddDNSServerIPv4AddressRequest(); return nil })
			case 1:
				ops = append(ops, "AReq6")
				want, wantErr = append(want, unit{0x0003, 0, nil}), append(wantErr, false)
				apply = append(apply, func(p *nasConvert.ProtocolConfigurationOptions) error { p.AddDNSServerIPv6AddressRequest(); return nil })
			case 2:
				ops = append(ops, "AAlloc")
				want, wantErr = append(want, unit{0x000a, 0, nil}), append(wantErr, false)
				apply = append(apply, func(p *nasConvert.ProtocolConfigurationOptions) error {
					p.AddIPAddressAllocationViaNASSignallingUL()
					return nil
				})
			case 3:
				ip := genIP()
				ops = append(ops, "ADns4 "+hk.CoqBytes(ip))
				v4(0x000d, ip)
				apply = append(apply, func(p *nasConvert.ProtocolConfigurationOptions) error { return p.AddDNSServerIPv4Address(net.IP(ip)) })
			case 4:
				ip := genIP()
				ops = append(ops, "APcscf4 "+hk.CoqBytes(ip))
				v4(0x000c, ip)
				apply = append(apply, func(p *nasConvert.ProtocolConfigurationOptions) error { return p.AddPCSCFIPv4Address(net.IP(ip)) })
			case 5:
				ip := genIP()
				ops = append(ops, "ADns6 "+hk.CoqBytes(ip))
				if len(ip) == 16 {
					want, wantErr = append(want, unit{0x0003, 16, hk.Exact(ip)}), append(wantErr, false)
				} else {
					wantErr = append(wantErr, true)
				}
				apply = append(apply, func(p *nasConvert.ProtocolConfigurationOptions) error { return p.AddDNSServerIPv6Address(net.IP(ip)) })
			case 6:
				mtu := uint16(r.Rng.Pick(0, 1, 255, 256, 1500, 0x7fff, 0x8000, 0xffff, int(r.Rng.Next()&0xffff)))
				ops = append(ops, fmt.Sprintf("AMtu %d", mtu))
				want, wantErr = append(want, unit{0x0010, 2, []byte{byte(mtu / 256), byte(mtu % 256)}}), append(wantErr, false)
				apply = append(apply, func(p *nasConvert.ProtocolConfigurationOptions) error { return p.AddIPv4LinkMTU(mtu) })
			}
		}
		doAdds(ops, apply, want, wantErr)
	}

	// ---------------- PSI bitmap
	coqBools := func(a [16]bool) string {
		var s []string
		for _, b := range a {
			s = append(s, hk.CoqBool(b))
		}
		return hk.CoqList(s)
	}
	psiFail := map[string]int{}
	psiCheck := func(v int, emit bool) {
		buf := []byte{byte(v), byte(v >> 8)}
		var arr [16]bool
		var back []byte
		panicked, pv := hk.Catch(func() { arr = nasConvert.PSIToBooleanArray(buf); back = nasConvert.PSIToBuf(arr) })
		if panicked {
			if psiFail["panic"]++; psiFail["panic"] < 4 {
				r.Fail(hk.Failure{Site: "nasConvert.PSIToBooleanArray", Class: "panic", Input: hk.Hex(buf), Detail: fmt.Sprint(pv)})
			}
			return
		}
		// TS 24.501 9.11.3.44: octet 3 bit k+1 = PSI(k), octet 4 bit k+1 = PSI(8+k)
		var want [16]bool
		for i := 0; i < 16; i++ {
			want[i] = (v>>uint(i))&1 == 1
		}
		if arr != want {
			if psiFail["arr"]++; psiFail["arr"] < 4 {
				r.Fail(hk.Failure{Site: "nasConvert.PSIToBooleanArray", Class: "wrong-bit", Input: hk.Hex(buf), Detail: fmt.Sprintf("got %v want %v", arr, want)})
			}
		}
		if !bytes.Equal(back, buf) {
			if psiFail["rt"]++; psiFail["rt"] < 4 {
				r.Fail(hk.Failure{Site: "nasConvert.PSIToBuf", Class: "roundtrip", Input: hk.Hex(buf), Detail: fmt.Sprintf("PSIToBuf(PSIToBooleanArray(%x)) = %x", buf, back)})
			}
		}
		// the other direction, from the array built by the reference
		var b2 []byte
		var a2 [16]bool
		hk.Catch(func() { b2 = nasConvert.PSIToBuf(want); a2 = nasConvert.PSIToBooleanArray(b2) })
		if !bytes.Equal(b2, buf) || a2 != want {
			if psiFail["rt2"]++; psiFail["rt2"] < 4 {
				r.Fail(hk.Failure{Site: "nasConvert.PSIToBuf", Class: "roundtrip", Input: coqBools(want), Detail: fmt.Sprintf("PSIToBuf = %x, want %x; back %v", b2, buf, a2)})
			}
		}
		if !emit {
			r.Evals++
		}
		if emit {
			id := r.NextID()
			r.AddCase(fmt.Sprintf("(%d, IPsiArr %s, OBools %s)", id, hk.CoqBytes(buf), coqBools(arr)), "PSIToBooleanArray "+hk.Hex(buf))
			id = r.NextID()
			r.AddCase(fmt.Sprintf("(%d, IPsiBuf %s, OBytes %s)", id, coqBools(want), hk.CoqBytes(b2)), "PSIToBuf "+coqBools(want))
			key := ""
			if v != 0 {
				key = fmt.Sprintf("psi%04x", v)
			}
			r.Count("psi_bitmap", key) // two cases per value
		}
	}
	// all 2^16 bitmaps on the implementation, always
	for v := 0; v < 1<<16; v++ {
		psiCheck(v, false)
	}
	r.Streams["psi_all_65536_impl_only"] = 1 << 16
	r.Extra["psi_exhaustive_impl"] = 1 << 16
	// to the model: single bits, boundaries, and a sample (all at thorough)
	emitted := map[int]bool{}
	em := func(v int) {
		if !emitted[v] {
			emitted[v] = true
			psiCheck(v, true)
		}
	}
	for _, v := range []int{0, 0xffff, 0x00ff, 0xff00, 0x8000, 0x0001, 0x7fff, 0xfffe, 0x5555, 0xaaaa, 0x0100, 0x0080} {
		em(v)
	}
	for i := 0; i < 16; i++ {
		em(1 << uint(i))
		em(0xffff ^ (1 << uint(i)))
	}
	if r.Thorough() {
		for v := 0; v < 1<<16; v++ {
			em(v)
		}
	} else {
		for i := 0; i < 700; i++ {
			em(int(r.Rng.Next() & 0xffff))
		}
	}
	// PSIToBooleanArray on byte strings of other lengths (never panics; < 2 octets: all false)
	for _, n := range []int{0, 1, 2, 3, 4, 17} {
		for rep := 0; rep < 6; rep++ {
			bs := r.Rng.Bytes(n)
			if rep == 0 {
				bs = bytes.Repeat([]byte{0xff}, n)
			}
			var arr [16]bool
			panicked, pv := hk.Catch(func() { arr = nasConvert.PSIToBooleanArray(bs) })
			id := r.NextID()
			if panicked {
				r.AddCase(fmt.Sprintf("(%d, IPsiArr %s, OPanic)", id, hk.CoqBytes(bs)), "PSIToBooleanArray "+hk.Hex(bs))
				r.Fail(hk.Failure{Site: "nasConvert.PSIToBooleanArray", Class: "panic", Input: hk.Hex(bs), Detail: fmt.Sprint(pv)})
				continue
			}
			r.AddCase(fmt.Sprintf("(%d, IPsiArr %s, OBools %s)", id, hk.CoqBytes(bs), coqBools(arr)), "PSIToBooleanArray "+hk.Hex(bs))
			r.Count("psi_lengths", fmt.Sprintf("psilen%x", bs))
			var want [16]bool
			if n >= 2 {
				for i := 0; i < 16; i++ {
					want[i] = bs[i/8]>>(uint(i)%8)&1 == 1
				}
			}
			if arr != want {
				r.Fail(hk.Failure{Site: "nasConvert.PSIToBooleanArray", Class: "wrong-bit", Input: hk.Hex(bs), Detail: fmt.Sprintf("got %v want %v", arr, want)})
			}
		}
	}

	// ---------------- reactivation result error cause
	doReact := func(a, b []byte) {
		var out []byte
		panicked, pv := hk.Catch(func() { out = nasConvert.PDUSessionReactivationResultErrorCauseToBuf(a, b) })
		id := r.NextID()
		desc := fmt.Sprintf("ReactivationErrorCause ids=%x causes=%x", a, b)
		if panicked {
			r.AddCase(fmt.Sprintf("(%d, IReact %s %s, OPanic)", id, hk.CoqBytes(a), hk.CoqBytes(b)), desc)
			r.Fail(hk.Failure{Site: "nasConvert.PDUSessionReactivationResultErrorCauseToBuf", Class: "panic", Input: fmt.Sprintf("%x/%x", a, b), Detail: fmt.Sprint(pv)})
			return
		}
		r.AddCase(fmt.Sprintf("(%d, IReact %s %s, OBytes %s)", id, hk.CoqBytes(a), hk.CoqBytes(b), hk.CoqBytes(out)), desc)
		key := ""
		if len(out) > 0 {
			key = fmt.Sprintf("re%x/%x", a, b)
		}
		r.Count("reactivation", key)
		// TS 24.501 9.11.3.43: (PDU session ID, cause value) pairs
		var want []byte
		if len(a) == len(b) {
			for i := range a {
				want = append(want, a[i], b[i])
			}
		}
		if !bytes.Equal(out, want) {
			r.Fail(hk.Failure{Site: "nasConvert.PDUSessionReactivationResultErrorCauseToBuf", Class: "wrong-encoding", Input: fmt.Sprintf("%x/%x", a, b), Detail: fmt.Sprintf("got %x want %x", out, want)})
		}
	}
	doReact(nil, nil)
	doReact([]byte{}, []byte{})
	doReact(nil, []byte{1})
	doReact([]byte{1}, nil)
	doReact([]byte{5}, []byte{43})
	for i := 0; i < r.N(120, 1200); i++ {
		n := r.Rng.Intn(17)
		m := n
		if r.Rng.Intn(4) == 0 {
			m = r.Rng.Intn(17)
		}
		doReact(r.Rng.Bytes(n), r.Rng.Bytes(m))
	}
}
