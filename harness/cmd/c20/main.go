// C20 harness: operation histories on uePolicyContainer.IDGenerator, observed only
// through the exported API (NewGenerator, Allocate, Allocate_inRange, FreeID).
package main

import (
	"fmt"
	"math"
	"strings"
	"sync/atomic"
	"time"

	upc "github.com/free5gc/nas/uePolicyContainer"

	"verifharness/hk"
)

func main() { hk.Main("C20", runC20) }

const site = "uePolicyContainer.IDGenerator"

type op struct {
	k    int // 0 Allocate, 1 Allocate_inRange(a, b), 2 FreeID(a)
	a, b int64
}

func z(v int64) string {
	if v < 0 {
		return fmt.Sprintf("(%d)", v)
	}
	return fmt.Sprintf("%d", v)
}

func (o op) coq() string {
	switch o.k {
	case 0:
		return "OpAllocate"
	case 1:
		return "OpAllocateInRange " + z(o.a) + " " + z(o.b)
	}
	return "OpFreeID " + z(o.a)
}

func coqOps(ops []op) []string {
	s := make([]string, len(ops))
	for i, o := range ops {
		s[i] = o.coq()
	}
	return s
}

// the allocators the property speaks about: min <= max and the width is an int64
func valid(lo, hi int64) bool {
	if lo > hi {
		return false
	}
	w := uint64(hi) - uint64(lo) // exact difference as unsigned
	return w < math.MaxInt64     // width = w + 1 <= MaxInt64
}

func width(lo, hi int64) uint64 { return uint64(hi) - uint64(lo) + 1 }

// result of replaying one history
type outcome struct {
	obs      []string // Coq terms of the observed results
	codes    []uint64 // digest codes of the results
	panicked bool
	bad      int    // index of the first operation at which the property fails, -1 if none
	what     string // which clause
	class    string
}

// replay runs the history on a fresh generator and evaluates the property on the
// implementation with a shadow set of live identifiers:
//   - a returned id lies in [lo, hi] and is not live,
//   - Allocate fails only when every identifier is live,
//   - (drain) after the history, repeated Allocate hands out every identifier that is
//     not live -- in particular every freed one -- before it fails.
//
// The oracle applies to valid allocators only; panics are failures for valid allocators.
func replay(lo, hi int64, ops []op, drain bool, at *atomic.Int64) (out outcome) {
	out.bad = -1
	ok := valid(lo, hi)
	live := map[int64]bool{}
	fail := func(i int, class, what string) {
		if out.bad < 0 && ok {
			out.bad, out.class, out.what = i, class, what
		}
	}
	var g *upc.IDGenerator
	if p, _ := hk.Catch(func() { g = upc.NewGenerator(lo, hi) }); p {
		out.panicked = true
		out.obs = append(out.obs, "OPanic")
		fail(0, "panic", "NewGenerator panicked")
		return
	}
	checkAlloc := func(i int, id int64, err error, plain bool) {
		if err == nil {
			if id < lo || id > hi {
				fail(i, "out-of-bounds", fmt.Sprintf("returned id %d outside [%d, %d]", id, lo, hi))
			}
			if live[id] {
				fail(i, "duplicate", fmt.Sprintf("returned id %d is already allocated and not freed", id))
			}
			live[id] = true
		} else if plain && uint64(len(live)) != width(lo, hi) {
			fail(i, "spurious-exhaustion", fmt.Sprintf("Allocate failed with only %d of %d identifiers live", len(live), width(lo, hi)))
		}
	}
	for i, o := range ops {
		var id int64
		var err error
		if at != nil {
			at.Store(int64(i)) // the call in progress, should it never return
		}
		p, _ := hk.Catch(func() {
			switch o.k {
			case 0:
				id, err = g.Allocate()
			case 1:
				id, err = g.Allocate_inRange(o.a, o.b)
			case 2:
				g.FreeID(o.a)
			}
		})
		if p {
			out.panicked = true
			out.obs = append(out.obs, "OPanic")
			out.codes = append(out.codes, 3)
			fail(i, "panic", o.coq()+" panicked")
			return
		}
		switch o.k {
		case 0, 1:
			if err == nil {
				out.obs = append(out.obs, "OId "+z(id))
				out.codes = append(out.codes, 10+(uint64(id)-uint64(lo))%1000000)
			} else {
				out.obs = append(out.obs, "OFail")
				out.codes = append(out.codes, 1)
			}
			checkAlloc(i, id, err, o.k == 0)
		case 2:
			out.obs = append(out.obs, "ONone")
			out.codes = append(out.codes, 2)
			delete(live, o.a)
		}
	}
	if drain && ok && width(lo, hi) <= 64 {
		n := len(ops)
		if at != nil {
			at.Store(int64(n))
		}
		for j := uint64(0); j <= width(lo, hi); j++ {
			var id int64
			var err error
			if p, _ := hk.Catch(func() { id, err = g.Allocate() }); p {
				fail(n, "panic", "Allocate panicked while draining")
				return
			}
			checkAlloc(n, id, err, true)
			if err != nil {
				break
			}
			if j == width(lo, hi) {
				fail(n, "no-exhaustion", "more successful allocations than identifiers")
			}
		}
	}
	return
}

// replayGuarded = replay under a timeout (a hang is a property failure)
func replayGuarded(lo, hi int64, ops []op, drain bool, d time.Duration) (out outcome, hang bool) {
	var at atomic.Int64
	var res outcome
	_, hang, _ = hk.CatchTimeout(d, func() { res = replay(lo, hi, ops, drain, &at) })
	if hang {
		return outcome{bad: int(at.Load()), class: "hang", what: "a call did not return"}, true
	}
	out = res
	return
}

// shrink: remove operations, then shrink arguments, keeping the same class of failure
func shrink(lo, hi int64, ops []op, class string) []op {
	budget := 400
	d := 2 * time.Second
	if class == "hang" { // every hanging attempt leaves a spinning goroutine behind: keep it short
		budget, d = 12, 250*time.Millisecond
	}
	fails := func(c []op) bool {
		if budget <= 0 {
			return false
		}
		budget--
		o, _ := replayGuarded(lo, hi, c, false, d)
		return o.bad >= 0 && o.class == class
	}
	cur := append([]op(nil), ops...)
	for changed := true; changed; {
		changed = false
		for i := 0; i < len(cur); i++ {
			c := append(append([]op(nil), cur[:i]...), cur[i+1:]...)
			if fails(c) {
				cur, changed = c, true
				i--
			}
		}
	}
	for i := range cur {
		for _, cand := range []int64{0, lo, 1, -1} {
			if cur[i].k != 0 && cur[i].a != cand {
				c := append([]op(nil), cur...)
				c[i].a = cand
				if fails(c) {
					cur = c
					break
				}
			}
		}
		for _, cand := range []int64{0, -1} {
			if cur[i].k == 1 && cur[i].b != cand {
				c := append([]op(nil), cur...)
				c[i].b = cand
				if fails(c) {
					cur = c
					break
				}
			}
		}
	}
	return cur
}

type c20 struct {
	r        *hk.Run
	reported map[string]bool
	hangs    int           // calls that never returned; after maxHangs the remaining streams are skipped
	pending  []pendingTree // tree cases not yet written: spread over the case files, one per file
}

type pendingTree struct{ format, desc string }

func (c *c20) flushTree() {
	if len(c.pending) == 0 {
		return
	}
	t := c.pending[0]
	c.pending = c.pending[1:]
	c.r.AddCase(fmt.Sprintf(t.format, c.r.NextID()), t.desc)
}

const maxHangs = 2

func (c *c20) report(lo, hi int64, ops []op, out outcome) {
	key := out.class
	if c.reported[key] { // one shrunk witness per class is enough
		return
	}
	c.reported[key] = true
	// make the drain explicit, so that the reported history is self-contained
	full := append([]op(nil), ops...)
	if valid(lo, hi) && width(lo, hi) <= 64 {
		for j := uint64(0); j <= width(lo, hi); j++ {
			full = append(full, op{0, 0, 0})
		}
	}
	d := 2 * time.Second
	if out.class == "hang" {
		d = 250 * time.Millisecond
	}
	if fo, _ := replayGuarded(lo, hi, full, false, d); fo.bad >= 0 && fo.class == out.class {
		out = fo
	} else {
		full = ops
	}
	upto := full
	if out.bad+1 <= len(full) {
		upto = full[:out.bad+1]
	}
	small := shrink(lo, hi, upto, out.class)
	detail := out.what
	if out.class != "hang" {
		if so, hang := replayGuarded(lo, hi, small, false, 2*time.Second); !hang && so.bad >= 0 {
			detail = so.what
		}
	}
	c.r.Fail(hk.Failure{Site: site, Class: out.class,
		Input:  map[string]interface{}{"min": lo, "max": hi, "ops": coqOps(small)},
		Detail: detail + fmt.Sprintf(" (NewGenerator(%d, %d); shrunk from %d operations)", lo, hi, len(full))})
}

// emit one history as a correspondence case
func (c *c20) emit(stream string, lo, hi int64, ops []op, drain bool) {
	r := c.r
	if c.hangs >= maxHangs {
		r.Streams["skipped_after_hangs"]++
		return
	}
	out, hang := replayGuarded(lo, hi, ops, drain, 2*time.Second)
	if hang {
		c.hangs++
		c.report(lo, hi, ops, out)
		// the model never hangs on valid allocators: record the hang as observed
		out.obs = []string{"OHang"}
	} else if out.bad >= 0 {
		c.report(lo, hi, ops, out)
	}
	id := r.NextID()
	if id%400 == 200 {
		defer c.flushTree()
	}
	os := coqOps(ops)
	desc := fmt.Sprintf("NewGenerator(%d,%d): %s", lo, hi, strings.Join(os, "; "))
	if hang {
		// cannot tell where it hung: only the oracle failure is reported, no case
		r.AddCase(fmt.Sprintf("CHist %d %s %s [] []", id, z(lo), z(hi)), desc)
	} else {
		r.AddCase(fmt.Sprintf("CHist %d %s %s %s %s", id, z(lo), z(hi), hk.CoqList(os), hk.CoqList(out.obs)), desc)
	}
	// non-trivial: an allocation after a free
	key, freed := "", false
	for _, o := range ops {
		if o.k == 2 {
			freed = true
		} else if freed {
			key = desc
		}
	}
	r.Count(stream, key)
	r.Dist[fmt.Sprintf("len_%03d", len(ops)/16*16)]++
	if valid(lo, hi) {
		w := width(lo, hi)
		if w > 16 {
			w = 99
		}
		r.Dist[fmt.Sprintf("width_%02d", w)]++
	} else {
		r.Dist["width_degenerate"]++
	}
	r.Sample(map[string]interface{}{"min": lo, "max": hi, "ops": os, "observed": out.obs})
}

// alphabet of the exhaustive walk over an allocator of width n
func alphabet(lo, hi int64) []op {
	n := int64(width(lo, hi))
	al := []op{{0, 0, 0}}
	for _, a := range []int64{-1, 1, n} {
		for _, b := range []int64{0, n - 1, n + 5} {
			al = append(al, op{1, a, b})
		}
	}
	for x := lo - 1; ; x++ { // lo-1 (out of range), lo .. hi
		al = append(al, op{2, x, 0})
		if x == hi {
			break
		}
	}
	return al
}

func mix(h, c uint64) uint64 { return (h*1000003 + c) & 2147483647 }

// walk: every history of depth <= d over the alphabet, in pre-order; each is replayed
// from a fresh generator with the direct oracle; returns the digest of the last results.
type walker struct {
	c        *c20
	lo, hi   int64
	al       []op
	progress atomic.Uint64
	cur      atomic.Value // []op being replayed
	nodes    int
	firstBad *outcome
	badOps   []op
}

func (w *walker) rec(d int, path []op, h uint64) uint64 {
	if d == 0 {
		return h
	}
	for _, o := range w.al {
		p := append(append(make([]op, 0, len(path)+1), path...), o)
		w.cur.Store(p)
		w.progress.Add(1)
		out := replay(w.lo, w.hi, p, true, nil)
		w.nodes++
		if out.bad >= 0 && w.firstBad == nil {
			oc := out
			w.firstBad, w.badOps = &oc, p
		}
		h = mix(h, out.codes[len(out.codes)-1])
		if !out.panicked {
			h = w.rec(d-1, p, h)
		}
	}
	return h
}

// tree: the oracle walks every history up to depth dOracle on the implementation; the
// digest compared with the model covers depth dModel <= dOracle (the model needs about
// 20 microseconds per history)
func (c *c20) tree(lo, hi int64, dOracle, dModel int) {
	r := c.r
	for pass, depth := range []int{dOracle, dModel} {
		if pass == 1 && dModel == dOracle {
			break
		}
		if c.hangs >= maxHangs {
			r.Streams["skipped_after_hangs"]++
			return
		}
		w := &walker{c: c, lo: lo, hi: hi, al: alphabet(lo, hi)}
		var digest uint64
		done := make(chan struct{})
		go func() {
			defer close(done)
			digest = w.rec(depth, nil, 7)
		}()
		tick := time.NewTicker(500 * time.Millisecond)
		last, stale := uint64(0), 0
		hung := false
	loop:
		for {
			select {
			case <-done:
				break loop
			case <-tick.C:
				if p := w.progress.Load(); p == last {
					stale++
					if stale >= 6 { // no history finished for 3 s
						hung = true
						break loop
					}
				} else {
					last, stale = p, 0
				}
			}
		}
		tick.Stop()
		if hung {
			c.hangs++
			ops, _ := w.cur.Load().([]op)
			c.report(lo, hi, ops, outcome{bad: len(ops) - 1, class: "hang", what: "a call did not return"})
			r.Streams["exhaustive_tree_hung"]++
			return
		}
		if w.firstBad != nil {
			c.report(lo, hi, w.badOps, *w.firstBad)
		}
		if depth == dModel {
			c.pending = append(c.pending, pendingTree{
				fmt.Sprintf("CTree %%d %s %s %s %d %d", z(lo), z(hi), hk.CoqList(coqOps(w.al)), depth, digest),
				fmt.Sprintf("all histories of depth <= %d over %d operations on NewGenerator(%d,%d)", depth, len(w.al), lo, hi)})
		}
		if pass == 0 {
			r.Evals += w.nodes
			r.Streams["exhaustive_tree_histories"] += w.nodes
			r.Dist[fmt.Sprintf("tree_width_%02d_depth_%d", width(lo, hi), depth)] += w.nodes
		}
	}
}

func runC20(r *hk.Run) {
	r.SetCoq("From NV Require Import Lib.Base C20.Model C20.Corr.\nOpen Scope Z_scope.", "case")
	c := &c20{r: r, reported: map[string]bool{}}
	A := op{0, 0, 0}
	IR := func(a, b int64) op { return op{1, a, b} }
	F := func(x int64) op { return op{2, x, 0} }
	rep := func(o op, n int) []op {
		s := make([]op, n)
		for i := range s {
			s[i] = o
		}
		return s
	}
	cat := func(xs ...[]op) []op {
		var s []op
		for _, x := range xs {
			s = append(s, x...)
		}
		return s
	}

	// (1) corpus: witness of the repaired defect F18 and boundary allocators
	c.emit("corpus", 0, 10, []op{IR(-5, 3), A, A}, true)
	c.emit("corpus", 0, 10, cat([]op{IR(-5, 3), IR(-11, 0), IR(-1, 0), IR(-12, 5)}, rep(A, 12)), true)
	c.emit("corpus", 5, 7, []op{A, A, A, A, F(6), F(9), A, A, F(5), F(7), IR(-1, 100), IR(4, 0), IR(0, 1)}, true)
	c.emit("corpus", 0, 0, []op{A, A, F(0), A, IR(0, 0), F(0), IR(7, 0), IR(-7, 0)}, true)
	for _, b := range [][2]int64{{math.MaxInt64 - 3, math.MaxInt64}, {math.MinInt64, math.MinInt64 + 2}, {-2, 1}, {math.MinInt64, -2}, {1, math.MaxInt64}, {0, math.MaxInt64 - 1}} {
		lo, hi := b[0], b[1]
		c.emit("corpus", lo, hi, []op{A, A, A, A, A, F(lo), F(hi), F(lo + 1), A, A, A, A,
			IR(math.MinInt64, math.MaxInt64), IR(math.MaxInt64, math.MinInt64), IR(-1, -1), F(math.MinInt64), F(math.MaxInt64), A, A}, true)
	}

	// (2) finite directed set: every history up to a depth over a small alphabet, widths 1..4
	type tr struct {
		lo, hi         int64
		oq, mq, ot, mt int // oracle / model depth at quick, at thorough
	}
	trees := []tr{{0, 0, 5, 5, 6, 6}, {-1, 0, 5, 5, 6, 6}, {5, 7, 5, 4, 6, 5}, {-2, 1, 5, 4, 6, 5}}
	if r.Thorough() {
		trees = append(trees, tr{math.MaxInt64 - 2, math.MaxInt64, 5, 5, 5, 5}, tr{math.MinInt64, math.MinInt64 + 1, 5, 5, 5, 5})
	}
	for _, t := range trees {
		c.tree(t.lo, t.hi, r.N(t.oq, t.ot), r.N(t.mq, t.mt))
	}
	// histories up to depth 2 (3 for width <= 2) also as individual cases
	for _, t := range trees[:4] {
		al := alphabet(t.lo, t.hi)
		for _, o1 := range al {
			for _, o2 := range al {
				c.emit("directed_depth2", t.lo, t.hi, []op{o1, o2}, true)
			}
		}
	}

	// (3) random long histories with exhaustion and wrap-around of the scan offset
	n := r.N(1500, 15000)
	for i := 0; i < n; i++ {
		w := int64(1 + r.Rng.Intn(12))
		if r.Rng.Intn(10) == 0 {
			w = int64(13 + r.Rng.Intn(40))
		}
		var lo int64
		switch r.Rng.Intn(8) {
		case 0:
			lo = 0
		case 1:
			lo = 1
		case 2:
			lo = -int64(r.Rng.Intn(int(w) + 2))
		case 3:
			lo = math.MaxInt64 - w + 1
		case 4:
			lo = math.MinInt64
		case 5:
			lo = int64(r.Rng.Next()>>1) - w
		case 6:
			lo = -int64(r.Rng.Next() >> 1)
		default:
			lo = int64(r.Rng.Intn(2000)) - 1000
		}
		hi := lo + w - 1
		l := 8 + r.Rng.Intn(int(3*w)+40)
		var ops []op
		live := []int64{} // ids believed live (only steers the generator)
		for len(ops) < l {
			switch x := r.Rng.Intn(20); {
			case x < 8:
				ops = append(ops, A)
			case x < 10: // burst to exhaustion
				k := r.Rng.Intn(int(w) + 2)
				ops = append(ops, rep(A, k)...)
			case x < 15:
				var id int64
				switch r.Rng.Intn(6) {
				case 0:
					id = lo - 1 - int64(r.Rng.Intn(3))
				case 1:
					id = hi + 1 + int64(r.Rng.Intn(3))
				case 2:
					id = int64(r.Rng.Next())
				default:
					id = lo + int64(r.Rng.Intn(int(w)))
				}
				ops = append(ops, F(id))
				live = append(live, id)
			default:
				pick := func() int64 {
					switch r.Rng.Intn(8) {
					case 0:
						return int64(r.Rng.Next())
					case 1:
						return -int64(r.Rng.Intn(int(2*w) + 2))
					case 2:
						return w + int64(r.Rng.Intn(int(w)+2))
					case 3:
						return lo + int64(r.Rng.Intn(int(w)))
					default:
						return int64(r.Rng.Intn(int(w)))
					}
				}
				ops = append(ops, IR(pick(), pick()))
			}
		}
		c.emit("random", lo, hi, ops, r.Rng.Intn(3) != 0)
	}

	// (4) outside the property's quantifier (correspondence only, no oracle):
	// degenerate allocators with max < min or a width that does not fit int64
	for _, b := range [][2]int64{{5, 4}, {5, 3}, {5, 2}, {0, -3}, {math.MinInt64, math.MaxInt64}, {math.MinInt64, 0}, {-2, math.MaxInt64}, {math.MaxInt64, math.MinInt64}, {0, math.MaxInt64}} {
		for k := 0; k < r.N(6, 30); k++ {
			var ops []op
			for j := 0; j < 1+r.Rng.Intn(7); j++ {
				if r.Rng.Intn(3) == 0 {
					ops = append(ops, F(b[0]+int64(r.Rng.Intn(4))-1))
				} else {
					ops = append(ops, A)
				}
			}
			c.emit("degenerate", b[0], b[1], ops, false)
		}
	}
	for len(c.pending) > 0 {
		c.flushTree()
	}
}
