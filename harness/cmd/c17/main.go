// C17: GPRS timers 2/3, session AMBR, time zone / daylight saving / universal
// time, network names.  Runs the implementation, evaluates the property on it
// with decoders written here from the standards (direct oracle) and prints the
// observed behaviour as cases for coq/C17/Corr.v.
//
// Normalisation: nil and empty slices are the same; a time.Time is observed
// through Year/Month/Day/Hour/Minute/Second/Zone offset/IsDST only.
package main

import (
	"bytes"
	"fmt"
	"io"
	"reflect"
	"time"

	"github.com/free5gc/nas/logger"
	"github.com/free5gc/nas/nasConvert"
	"github.com/free5gc/nas/nasType"

	"verifharness/hk"
)

func main() { hk.Main("C17", run) }

// ---- decoders / tables from the standards (independent of the implementation)

// TS 24.008 10.5.7.4 GPRS timer 2 (= GPRS timer): seconds, ok=false: deactivated
func dec2(o byte) (int, bool) {
	v := int(o & 0x1f)
	switch o >> 5 {
	case 0:
		return 2 * v, true
	case 1:
		return 60 * v, true
	case 2:
		return 360 * v, true
	case 7:
		return 0, false
	}
	return 60 * v, true // "other values shall be interpreted as multiples of 1 minute"
}

// TS 24.008 10.5.7.4a GPRS timer 3
func dec3(o byte) (int, bool) {
	v := int(o & 0x1f)
	switch o >> 5 {
	case 0:
		return 600 * v, true
	case 1:
		return 3600 * v, true
	case 2:
		return 36000 * v, true
	case 3:
		return 2 * v, true
	case 4:
		return 30 * v, true
	case 5:
		return 60 * v, true
	case 6:
		return 320 * 3600 * v, true
	}
	return 0, false
}

func representable2(d int) bool {
	return (d%2 == 0 && d <= 62) || (d%60 == 0 && d <= 60*31) || (d%360 == 0 && d <= 360*31)
}
func representable3(d int) bool {
	for _, u := range []int{2, 30, 60, 600, 3600, 36000} {
		if d%u == 0 && d <= u*31 {
			return true
		}
	}
	return false
}

// TS 24.501 Table 9.11.4.14.1
var ambrUnits = []struct {
	text string
	code byte
}{{"Kbps", 0x01}, {"Mbps", 0x06}, {"Gbps", 0x0b}, {"Tbps", 0x10}, {"Pbps", 0x15}}

// TS 24.008 10.5.3.8 / TS 23.040 9.2.3.11: quarter hours; low nibble (sent
// first) = tens digit in bits 2..0 and sign in bit 3, high nibble = units digit
func decTZ(o byte) (q int, ok bool) {
	lo, hi := o&0x0f, o>>4
	if hi > 9 {
		return 0, false
	}
	q = int(lo&7)*10 + int(hi)
	if lo&8 != 0 {
		q = -q
	}
	return q, true
}

// semi-octet BCD, TS 23.040 9.1.2.3
func decSemi(o byte) (int, bool) {
	if o&0x0f > 9 || o>>4 > 9 {
		return 0, false
	}
	return int(o&0x0f)*10 + int(o>>4), true
}

// TS 23.038 6.1.2.1.1: septets packed LSB first; spare = unused bits of the last octet
func unpack7(octs []byte, spare int) []byte {
	nbits := 8*len(octs) - spare
	if nbits < 0 {
		return nil
	}
	var out []byte
	for k := 0; 7*k+7 <= nbits; k++ {
		var c byte
		for b := 0; b < 7; b++ {
			pos := 7*k + b
			if octs[pos/8]>>(uint(pos)%8)&1 == 1 {
				c |= 1 << uint(b)
			}
		}
		out = append(out, c)
	}
	return out
}

func tzText(q, dst int) string {
	a, s := q, "+"
	if q < 0 {
		a, s = -q, "-"
	}
	t := fmt.Sprintf("%s%02d:%02d", s, a/4, (a%4)*15)
	if dst > 0 {
		t += fmt.Sprintf("+%d", dst)
	}
	return t
}

func z(v int) string { return fmt.Sprintf("(%d)%%Z", v) }

type civil struct {
	y, mo, d, h, mi, s, off int
	dst                     bool
}

func (c civil) coq() string {
	return fmt.Sprintf("(mkgotime %s %s %s %s %s %s %s %s)", z(c.y), z(c.mo), z(c.d), z(c.h), z(c.mi), z(c.s), z(c.off), hk.CoqBool(c.dst))
}
func observe(t time.Time) civil {
	_, off := t.Zone()
	return civil{t.Year(), int(t.Month()), t.Day(), t.Hour(), t.Minute(), t.Second(), off, t.IsDST()}
}

func run(r *hk.Run) {
	logger.GetLogger().SetOutput(io.Discard)
	r.SetCoq("From NV Require Import Lib.Base C17.Model C17.Corr.\nOpen Scope N_scope.", "case")

	// ================= GPRS timer 2 / 3
	t2fails, t3fails := 0, 0
	check2 := func(d int) byte {
		o := nasConvert.GPRSTimer2ToNas(d)
		if d < 0 {
			return o
		}
		v, ok := dec2(o)
		bad := ""
		if representable2(d) && (!ok || v != d) {
			bad = fmt.Sprintf("representable duration %d s encoded as %#02x which decodes to %d (active=%v)", d, o, v, ok)
		} else if d <= 11160 && (!ok || v > d) {
			bad = fmt.Sprintf("duration %d s encoded as %#02x which decodes to more: %d (active=%v)", d, o, v, ok)
		}
		if bad != "" {
			if t2fails++; t2fails <= 5 {
				r.Fail(hk.Failure{Site: "nasConvert.GPRSTimer2ToNas", Class: "wrong-encoding", Input: fmt.Sprint(d), Detail: bad})
			}
		}
		return o
	}
	check3 := func(d int) byte {
		o := nasConvert.GPRSTimer3ToNas(d)
		if d < 0 {
			return o
		}
		v, ok := dec3(o)
		bad := ""
		if representable3(d) && (!ok || v != d) {
			bad = fmt.Sprintf("representable duration %d s encoded as %#02x which decodes to %d (active=%v)", d, o, v, ok)
		} else if d <= 1116000 && (!ok || v > d) {
			bad = fmt.Sprintf("duration %d s encoded as %#02x which decodes to more: %d (active=%v)", d, o, v, ok)
		}
		if bad != "" {
			if t3fails++; t3fails <= 5 {
				r.Fail(hk.Failure{Site: "nasConvert.GPRSTimer3ToNas", Class: "wrong-encoding", Input: fmt.Sprint(d), Detail: bad})
			}
		}
		return o
	}
	// exhaustive on the implementation, always
	for d := 0; d <= 20000; d++ {
		check2(d)
		r.Evals++
	}
	for d := 0; d <= 1116000+40000; d++ {
		check3(d)
		r.Evals++
	}
	r.Streams["timer2_all_0..20000_impl_only"] = 20001
	r.Streams["timer3_all_0..1156000_impl_only"] = 1156001
	r.Extra["timer2_exhaustive_impl"] = "0..20000"
	r.Extra["timer3_exhaustive_impl"] = "0..1156000"
	emitT := func(kind int, stream string, d int) {
		id := r.NextID()
		var o byte
		if kind == 2 {
			o = check2(d)
			r.AddCase(fmt.Sprintf("(%d, IT2 %s, ON %d)", id, z(d), o), fmt.Sprintf("GPRSTimer2ToNas(%d)", d))
		} else {
			o = check3(d)
			r.AddCase(fmt.Sprintf("(%d, IT3 %s, ON %d)", id, z(d), o), fmt.Sprintf("GPRSTimer3ToNas(%d)", d))
		}
		key := ""
		if o&0x1f != 0 {
			key = fmt.Sprintf("t%d:%d", kind, d)
		}
		r.Count(stream, key)
		r.Dist[fmt.Sprintf("timer%d_unit_%d", kind, o>>5)]++
		r.Sample(map[string]interface{}{"timer": kind, "seconds": d, "octet": o})
	}
	seen2, seen3 := map[int]bool{}, map[int]bool{}
	e2 := func(s string, d int) {
		if !seen2[d] {
			seen2[d] = true
			emitT(2, s, d)
		}
	}
	e3 := func(s string, d int) {
		if !seen3[d] {
			seen3[d] = true
			emitT(3, s, d)
		}
	}
	for k := 0; k <= 32; k++ { // every representable value, its neighbours, one step beyond
		for _, u := range []int{2, 60, 360} {
			for _, dd := range []int{-1, 0, 1} {
				e2("timer2_directed", u*k+dd)
			}
		}
		for _, u := range []int{2, 30, 60, 600, 3600, 36000, 320 * 3600} {
			for _, dd := range []int{-1, 0, 1} {
				e3("timer3_directed", u*k+dd)
			}
		}
	}
	for _, d := range []int{-2, -3, -64, -120, 62, 63, 64, 65, 66, 119, 1860, 1919, 1920, 2160, 11159, 11160, 11161, 11519, 11520, 15359, 15360, 15420, 20000, 1 << 20, 1<<31 - 1} {
		e2("timer2_directed", d)
	}
	for _, d := range []int{-2, -3, -64, 62, 63, 64, 930, 931, 1860, 1861, 18600, 18601, 111600, 111601, 1115999, 1116000, 1116001, 1151999, 1152000, 4608000, 4788000, 5760000, 9216000, 1<<31 - 1} {
		e3("timer3_directed", d)
	}
	if r.Thorough() {
		for d := 0; d <= 11160; d++ {
			e2("timer2_all", d)
		}
		for d := 0; d <= 1116000; d += 7 {
			e3("timer3_stride", d)
		}
	} else {
		for i := 0; i < 150; i++ {
			e2("timer2_random", r.Rng.Intn(12000))
		}
		for i := 0; i < 210; i++ { // stratified over the six ladder steps
			hi := []int{62, 930, 1860, 18600, 111600, 1116000, 1200000}[i%7]
			e3("timer3_random", r.Rng.Intn(hi+1))
		}
	}

	// ================= session AMBR (models.Ambr built by reflection: the
	// harness module does not import the openapi module directly)
	fn := reflect.ValueOf(nasConvert.ModelsToSessionAMBR)
	ambrT := fn.Type().In(0).Elem()
	callAmbr := func(up, down string) (oct [6]byte, panicked bool) {
		p := reflect.New(ambrT)
		p.Elem().FieldByName("Uplink").SetString(up)
		p.Elem().FieldByName("Downlink").SetString(down)
		panicked, _ = hk.Catch(func() {
			res := fn.Call([]reflect.Value{p})[0].Interface().(nasType.SessionAMBR)
			oct = res.Octet
		})
		return
	}
	ambrFails := 0
	ambrOracle := func(vu, uu, vd, ud int) [6]byte {
		up := fmt.Sprintf("%d %s", vu, ambrUnits[uu].text)
		down := fmt.Sprintf("%d %s", vd, ambrUnits[ud].text)
		oct, p := callAmbr(up, down)
		want := [6]byte{ambrUnits[ud].code, byte(vd >> 8), byte(vd), ambrUnits[uu].code, byte(vu >> 8), byte(vu)}
		if p || oct != want {
			if ambrFails++; ambrFails <= 5 {
				r.Fail(hk.Failure{Site: "nasConvert.ModelsToSessionAMBR", Class: "wrong-encoding", Input: up + " / " + down, Detail: fmt.Sprintf("octets %x, want %x (panic=%v)", oct, want, p)})
			}
		}
		return oct
	}
	// all 65 536 values x 5 units x 2 directions on the implementation (thorough); sample at quick
	nA := 0
	for v := 0; v < 1<<16; v++ {
		if !r.Thorough() && v%16 != 0 && v > 300 && v < 65236 && v != 32767 && v != 32768 {
			continue
		}
		for u := 0; u < 5; u++ {
			ambrOracle(v, u, 65535-v, (u+v)%5) // uplink carries v
			ambrOracle(65535-v, (u+v)%5, v, u) // downlink carries v
			nA += 2
			r.Evals += 2
		}
	}
	r.Streams["ambr_values_x_units_x_directions_impl_only"] = nA
	r.Extra["ambr_impl_evaluations"] = nA
	emitAmbr := func(stream, up, down string) {
		oct, p := callAmbr(up, down)
		id := r.NextID()
		desc := fmt.Sprintf("ModelsToSessionAMBR(%q, %q)", up, down)
		if p {
			r.AddCase(fmt.Sprintf("(%d, IAmbr %s %s, OPanic)", id, hk.CoqStr(up), hk.CoqStr(down)), desc)
			r.Count(stream, "")
			r.Dist["ambr_panic_text_without_space"]++
			return
		}
		r.AddCase(fmt.Sprintf("(%d, IAmbr %s %s, OBytes %s)", id, hk.CoqStr(up), hk.CoqStr(down), hk.CoqBytes(oct[:])), desc)
		r.Count(stream, "ambr"+up+"/"+down)
		r.Sample(map[string]interface{}{"uplink": up, "downlink": down, "octets": hk.Hex(oct[:])})
	}
	bvals := []int{0, 1, 9, 10, 255, 256, 32767, 32768, 40000, 65534, 65535}
	for i, v := range bvals {
		for u := 0; u < 5; u++ {
			ambrOracle(v, u, bvals[(i+3)%len(bvals)], (u+2)%5)
			emitAmbr("ambr_directed", fmt.Sprintf("%d %s", v, ambrUnits[u].text), fmt.Sprintf("%d %s", bvals[(i+3)%len(bvals)], ambrUnits[(u+2)%5].text))
		}
	}
	for i := 0; i < r.N(150, 3000); i++ {
		vu, vd := int(r.Rng.Next()&0xffff), int(r.Rng.Next()&0xffff)
		uu, ud := r.Rng.Intn(5), r.Rng.Intn(5)
		ambrOracle(vu, uu, vd, ud)
		emitAmbr("ambr_random", fmt.Sprintf("%d %s", vu, ambrUnits[uu].text), fmt.Sprintf("%d %s", vd, ambrUnits[ud].text))
	}
	// texts outside the documented form (correspondence only: what the code does with them)
	odd := []string{"", " ", "5", "5 ", " 5", "5  Mbps", " 5 Mbps", "5 Mbps ", "5 bps", "5 mbps", "5 MBPS", "5 Mbps x", "65536 Mbps", "65535 Mbps", "99999999999999999999999 Gbps",
		"18446744073709551616 Kbps", "-1 Kbps", "+1 Kbps", "1_0 Kbps", "0x10 Kbps", "007 Kbps", "00000000000000000000065535 Pbps", "1.5 Gbps", "Mbps 5", "12 Kbps\x00", "1\t2 Kbps", "٣ Kbps", "5 Kbp", "5 Kbpss", "5 Ebps"}
	for _, a := range odd {
		emitAmbr("ambr_odd_text", a, "1 Kbps")
		emitAmbr("ambr_odd_text", "2 Mbps", a)
	}

	// ================= time zone text -> octet, daylight saving
	tzSite := "nasConvert.parseTimeZoneToNas"
	emitTz := func(stream, s string) (byte, bool) {
		var o nasType.LocalTimeZone
		p, _ := hk.Catch(func() { o = nasConvert.EncodeLocalTimeZoneToNas(s) })
		id := r.NextID()
		desc := fmt.Sprintf("EncodeLocalTimeZoneToNas(%q)", s)
		if p {
			r.AddCase(fmt.Sprintf("(%d, ITz %s, OPanic)", id, hk.CoqStr(s)), desc)
			r.Count(stream, "")
			return 0, true
		}
		r.AddCase(fmt.Sprintf("(%d, ITz %s, ON %d)", id, hk.CoqStr(s), o.Octet), desc)
		r.Count(stream, "tz"+s)
		r.Sample(map[string]interface{}{"timezone": s, "octet": o.Octet})
		return o.Octet, false
	}
	emitDst := func(stream, s string) (byte, bool) {
		var o nasType.NetworkDaylightSavingTime
		p, _ := hk.Catch(func() { o = nasConvert.EncodeDaylightSavingTimeToNas(s) })
		id := r.NextID()
		desc := fmt.Sprintf("EncodeDaylightSavingTimeToNas(%q)", s)
		if p {
			r.AddCase(fmt.Sprintf("(%d, IDst %s, OPanic)", id, hk.CoqStr(s)), desc)
			r.Count(stream, "")
			return 0, true
		}
		r.AddCase(fmt.Sprintf("(%d, IDst %s, ONN %d %d)", id, hk.CoqStr(s), o.Len, o.Octet), desc)
		r.Count(stream, "dst"+s)
		if o.Len != 1 {
			r.Fail(hk.Failure{Site: "nasConvert.EncodeDaylightSavingTimeToNas", Class: "wrong-encoding", Input: s, Detail: fmt.Sprintf("Len = %d, want 1", o.Len)})
		}
		return o.Octet, false
	}
	// corpus: witnesses of F14 (fixed by 95fc7fd): negative zone smaller than the adjustment
	for _, w := range []struct {
		s string
		q int
	}{{"-00:30+1", 2}, {"-00:15+2", 7}, {"-01:45+2", 1}, {"-01:00+1", 0}, {"-01:00+2", 4}} {
		o, p := emitTz("corpus", w.s)
		if got, ok := decTZ(o); p || !ok || got != w.q {
			r.Fail(hk.Failure{Site: tzSite, Class: "wrong-encoding", Input: w.s, Detail: fmt.Sprintf("octet %#02x decodes to %d quarter hours (valid=%v, panic=%v), want %d", o, got, ok, p, w.q)})
		}
	}
	outOfRange := 0
	for q := -79; q <= 79; q++ {
		for dst := 0; dst <= 2; dst++ {
			s := tzText(q, dst)
			o, p := emitTz("tz_all_159x3", s)
			want := q + 4*dst
			r.Dist[fmt.Sprintf("tz_dst_%d", dst)]++
			if want > 79 {
				outOfRange++ // zone + adjustment beyond +19:45 has no encoding: no verdict
			} else {
				got, ok := decTZ(o)
				if p || !ok || got != want {
					r.Fail(hk.Failure{Site: tzSite, Class: "wrong-encoding", Input: s,
						Detail: fmt.Sprintf("octet %#02x decodes to %d quarter hours (valid=%v, panic=%v), want %d", o, got, ok, p, want)})
				} else if back := nasConvert.DecodeLocalTimeZone(nasType.LocalTimeZone{Octet: o}); back != tzText(want, 0) {
					r.Fail(hk.Failure{Site: "nasConvert.DecodeLocalTimeZone", Class: "wrong-decoding", Input: s, Detail: fmt.Sprintf("decoded text %q, want %q", back, tzText(want, 0))})
				}
			}
			d, p2 := emitDst("dst_all", s)
			if p2 || int(d) != dst {
				r.Fail(hk.Failure{Site: "nasConvert.EncodeDaylightSavingTimeToNas", Class: "wrong-encoding", Input: s, Detail: fmt.Sprintf("value %d want %d", d, dst)})
			} else if back := nasConvert.DecodeDaylightSavingTime(nasType.NetworkDaylightSavingTime{Len: 1, Octet: d}); back != map[int]string{0: "", 1: "+1", 2: "+2"}[dst] {
				r.Fail(hk.Failure{Site: "nasConvert.DecodeDaylightSavingTime", Class: "wrong-decoding", Input: s, Detail: "decoded " + back})
			}
		}
	}
	r.Extra["tz_zone_plus_dst_beyond_79_quarters_no_verdict"] = outOfRange
	// texts outside the documented form sign hh:mm [+1|+2] (correspondence only; < 6 octets panics)
	for _, s := range []string{"", "+", "+0", "+08", "+08:", "+08:0", "+08:00", "-00:00", "-00:00+1", "+08:00+3", "+08:00+", "+08:00 +1", "+20:00", "+29:45", "+1a:15", "08:00", "+08:07", "+08:60", "+0800+1", "++1", "+1", "+08:00+1+2", "-12:45+2+1", "Z", "UTC+8", "+08:15:30"} {
		emitTz("tz_odd_text", s)
		emitDst("dst_odd_text", s)
	}

	// ================= decoders on arbitrary octets (never panic)
	for o := 0; o < 256; o++ {
		var s, d string
		p, pv := hk.Catch(func() {
			s = nasConvert.DecodeLocalTimeZone(nasType.LocalTimeZone{Octet: byte(o)})
			d = nasConvert.DecodeDaylightSavingTime(nasType.NetworkDaylightSavingTime{Len: 1, Octet: byte(o)})
		})
		if p {
			r.Fail(hk.Failure{Site: "nasConvert.DecodeLocalTimeZone", Class: "panic", Input: fmt.Sprintf("%02x", o), Detail: fmt.Sprint(pv)})
			continue
		}
		id := r.NextID()
		r.AddCase(fmt.Sprintf("(%d, IDecTz %d, OBytes %s)", id, o, hk.CoqStr(s)), fmt.Sprintf("DecodeLocalTimeZone(%#02x)", o))
		r.Count("decode_tz_all_octets", fmt.Sprintf("dtz%02x", o))
		id = r.NextID()
		r.AddCase(fmt.Sprintf("(%d, IDecDst %d, OBytes %s)", id, o, hk.CoqStr(d)), fmt.Sprintf("DecodeDaylightSavingTime(%#02x)", o))
		r.Count("decode_dst_all_octets", fmt.Sprintf("ddst%02x", o))
		if q, ok := decTZ(byte(o)); ok && s != tzText(q, 0) && !(q == 0 && s == "+00:00") {
			r.Fail(hk.Failure{Site: "nasConvert.DecodeLocalTimeZone", Class: "wrong-decoding", Input: fmt.Sprintf("%02x", o), Detail: fmt.Sprintf("got %q want %q", s, tzText(q, 0))})
		}
		if want := map[int]string{0: "", 1: "+1", 2: "+2", 3: ""}[o&3]; d != want {
			r.Fail(hk.Failure{Site: "nasConvert.DecodeDaylightSavingTime", Class: "wrong-decoding", Input: fmt.Sprintf("%02x", o), Detail: fmt.Sprintf("got %q want %q", d, want)})
		}
	}

	// ================= universal time and local time zone
	decUT := func(stream string, oct [7]byte) {
		var got time.Time
		p, pv := hk.Catch(func() {
			got = nasConvert.DecodeUniversalTimeAndLocalTimeZone(nasType.UniversalTimeAndLocalTimeZone{Octet: oct})
		})
		id := r.NextID()
		desc := fmt.Sprintf("DecodeUniversalTimeAndLocalTimeZone(%x)", oct)
		if p {
			r.AddCase(fmt.Sprintf("(%d, IDecUT %s, OPanic)", id, hk.CoqBytes(oct[:])), desc)
			r.Fail(hk.Failure{Site: "nasConvert.DecodeUniversalTimeAndLocalTimeZone", Class: "panic", Input: hk.Hex(oct[:]), Detail: fmt.Sprint(pv)})
			return
		}
		// arguments the decoder must hand to time.Date, computed here from the octets
		raw := func(x byte) int { return int(x&0x0f)*10 + int(x>>4) }
		qq := raw(oct[6] &^ 0x08)
		off := 900 * qq
		if oct[6]&0x08 != 0 {
			off = -off
		}
		args := civil{2000 + raw(oct[0]), raw(oct[1]), raw(oct[2]), raw(oct[3]), raw(oct[4]), raw(oct[5]), off, false}
		want := time.Date(args.y, time.Month(args.mo), args.d, args.h, args.mi, args.s, 0, time.FixedZone("x", off))
		obsd := args
		if _, goff := got.Zone(); !got.Equal(want) || goff != off || observe(got) != observe(want) {
			obsd = observe(got)
			r.Fail(hk.Failure{Site: "nasConvert.DecodeUniversalTimeAndLocalTimeZone", Class: "wrong-decoding", Input: hk.Hex(oct[:]), Detail: fmt.Sprintf("got %v want %v", got, want)})
		}
		r.AddCase(fmt.Sprintf("(%d, IDecUT %s, OTime %s)", id, hk.CoqBytes(oct[:]), obsd.coq()), desc)
		r.Count(stream, "dut"+hk.Hex(oct[:]))
	}
	encFails := 0
	encUT := func(stream string, t time.Time) {
		var enc nasType.UniversalTimeAndLocalTimeZone
		in := observe(t)
		p, pv := hk.Catch(func() { enc = nasConvert.EncodeUniversalTimeAndLocalTimeZoneToNas(t) })
		id := r.NextID()
		desc := fmt.Sprintf("EncodeUniversalTimeAndLocalTimeZoneToNas(%s)", t.Format(time.RFC3339))
		if p {
			r.AddCase(fmt.Sprintf("(%d, IEncUT %s, OPanic)", id, in.coq()), desc)
			r.Fail(hk.Failure{Site: "nasConvert.EncodeUniversalTimeAndLocalTimeZoneToNas", Class: "panic", Input: t.Format(time.RFC3339), Detail: fmt.Sprint(pv)})
			return
		}
		r.AddCase(fmt.Sprintf("(%d, IEncUT %s, OBytes %s)", id, in.coq(), hk.CoqBytes(enc.Octet[:])), desc)
		r.Count(stream, "eut"+desc)
		r.Sample(map[string]interface{}{"time": t.Format(time.RFC3339), "isDST": t.IsDST(), "octets": hk.Hex(enc.Octet[:])})
		tzs := nasConvert.GetTimeZone(t)
		id = r.NextID()
		r.AddCase(fmt.Sprintf("(%d, IGetTz %s, OBytes %s)", id, in.coq(), hk.CoqStr(tzs)), "GetTimeZone("+t.Format(time.RFC3339)+")")
		r.Count(stream, "")
		// oracle 1: the octets decode, by the standard's rules, to the civil fields and the offset
		if in.y >= 2000 && in.y <= 2099 && in.off%900 == 0 && in.off >= -79*900 && in.off <= 79*900 {
			bad := ""
			f := []int{in.y - 2000, in.mo, in.d, in.h, in.mi, in.s}
			for i, w := range f {
				if v, ok := decSemi(enc.Octet[i]); !ok || v != w {
					bad = fmt.Sprintf("octet %d = %#02x decodes to %d (valid=%v), want %d", i, enc.Octet[i], v, ok, w)
				}
			}
			if q, ok := decTZ(enc.Octet[6]); !ok || q*900 != in.off {
				bad = fmt.Sprintf("time zone octet %#02x decodes to %d quarter hours (valid=%v), want %d", enc.Octet[6], q, ok, in.off/900)
			}
			// oracle 2: the implementation's own decoder returns the instant and the offset
			back := nasConvert.DecodeUniversalTimeAndLocalTimeZone(enc)
			if _, boff := back.Zone(); !back.Equal(t.Truncate(time.Second)) || boff != in.off {
				bad = fmt.Sprintf("decodes back to %v, encoded %v", back, t)
			}
			if bad != "" {
				if encFails++; encFails <= 8 {
					r.Fail(hk.Failure{Site: "nasConvert.EncodeUniversalTimeAndLocalTimeZoneToNas", Class: "wrong-encoding", Input: t.Format(time.RFC3339) + fmt.Sprintf(" isDST=%v zone=%s", t.IsDST(), tzs), Detail: bad})
				}
			}
		}
		decUT(stream+"_decode", enc.Octet)
	}
	fz := func(q int) *time.Location { return time.FixedZone("", q*900) }
	// field boundaries
	for _, y := range []int{2000, 2001, 2009, 2010, 2019, 2020, 2024, 2089, 2090, 2099} {
		for _, md := range [][2]int{{1, 1}, {2, 28}, {2, 29}, {9, 9}, {9, 10}, {10, 10}, {11, 30}, {12, 31}} {
			if md == [2]int{2, 29} && y%4 != 0 {
				continue
			}
			h, mi, s := r.Rng.Pick(0, 9, 10, 19, 20, 23), r.Rng.Pick(0, 9, 10, 59), r.Rng.Pick(0, 9, 10, 59)
			encUT("timestamp_boundaries", time.Date(y, time.Month(md[0]), md[1], h, mi, s, 0, fz(r.Rng.Intn(159)-79)))
		}
	}
	for _, hms := range [][3]int{{0, 0, 0}, {23, 59, 59}, {9, 9, 9}, {10, 10, 10}, {19, 49, 50}, {20, 0, 1}} {
		encUT("timestamp_boundaries", time.Date(2023, 7, 13, hms[0], hms[1], hms[2], 0, fz(32)))
	}
	for q := -79; q <= 79; q++ { // every zone on the quarter-hour grid
		encUT("timestamp_all_zones", time.Date(2000+r.Rng.Intn(100), time.Month(1+r.Rng.Intn(12)), 1+r.Rng.Intn(28), r.Rng.Intn(24), r.Rng.Intn(60), r.Rng.Intn(60), 0, fz(q)))
	}
	// zones from the system tzdata, in and out of daylight saving time
	locs := []string{"Asia/Taipei", "Asia/Kolkata", "Asia/Kathmandu", "America/New_York", "Europe/Berlin", "Europe/Lisbon", "Atlantic/Azores", "Australia/Lord_Howe",
		"Pacific/Chatham", "America/St_Johns", "Pacific/Kiritimati", "Pacific/Niue", "Australia/Adelaide", "America/Caracas", "Europe/Dublin", "Africa/Casablanca"}
	loaded := 0
	for _, name := range locs {
		loc, err := time.LoadLocation(name)
		if err != nil {
			continue
		}
		loaded++
		for _, mo := range []int{1, 4, 7, 10} {
			encUT("timestamp_tzdata", time.Date(2001+r.Rng.Intn(98), time.Month(mo), 1+r.Rng.Intn(28), r.Rng.Intn(24), r.Rng.Intn(60), r.Rng.Intn(60), 0, loc))
		}
	}
	// the same Location at many instants in a row, across the changes of its standard offset and its DST
	// rules (Caracas 2007/2016, Pyongyang 2015/2018, Moscow 2011/2014, Apia 2011, Istanbul 2016, ...):
	// the zone octet is a function of the instant, not of the Location value
	hist := append([]string{"Asia/Pyongyang", "Europe/Moscow", "Pacific/Apia", "Europe/Istanbul", "Asia/Seoul", "America/Sao_Paulo", "Africa/Cairo"}, locs...)
	for _, name := range hist {
		loc, err := time.LoadLocation(name)
		if err != nil {
			continue
		}
		for y := 2001; y <= 2032; y++ {
			for _, mo := range []int{1, 7} {
				encUT("timestamp_tzdata_history", time.Date(y, time.Month(mo), 15, 12, 0, 0, 0, loc))
			}
		}
	}
	r.Extra["tzdata_locations_loaded"] = loaded
	for i := 0; i < r.N(150, 5000); i++ {
		encUT("timestamp_random", time.Date(2000+r.Rng.Intn(100), time.Month(1+r.Rng.Intn(12)), 1+r.Rng.Intn(28), r.Rng.Intn(24), r.Rng.Intn(60), r.Rng.Intn(60), 0, fz(r.Rng.Intn(159)-79)))
	}
	// outside the property's range (correspondence only): other years, zones off the grid
	encUT("timestamp_out_of_range", time.Date(1999, 12, 31, 23, 59, 59, 0, fz(0)))
	encUT("timestamp_out_of_range", time.Date(2100, 1, 1, 0, 0, 0, 0, fz(4)))
	encUT("timestamp_out_of_range", time.Date(2023, 1, 1, 0, 0, 0, 0, time.FixedZone("", 8*3600+6*60)))
	encUT("timestamp_out_of_range", time.Date(2023, 1, 1, 0, 0, 0, 0, time.FixedZone("", -(3*3600+1))))
	encUT("timestamp_out_of_range", time.Date(2023, 1, 1, 0, 0, 0, 0, time.FixedZone("", 25*3600)))
	// decoder on arbitrary octets
	for i := 0; i < r.N(250, 5000); i++ {
		var oct [7]byte
		copy(oct[:], r.Rng.Bytes(7))
		if i%3 == 0 { // mostly-BCD
			for j := range oct {
				oct[j] = byte(r.Rng.Intn(10))<<4 | byte(r.Rng.Intn(10))
			}
		}
		decUT("timestamp_decode_random", oct)
	}
	for _, b := range []byte{0x00, 0xff, 0x99, 0x0a, 0xa0, 0x9f, 0xf9} {
		decUT("timestamp_decode_random", [7]byte{b, b, b, b, b, b, b})
	}

	// ================= network names
	nameCase := func(stream string, full bool, name []byte, verdict bool) {
		var ln uint8
		var buf []byte
		site := "nasConvert.FullNetworkNameToNas"
		if !full {
			site = "nasConvert.ShortNetworkNameToNas"
		}
		p, pv := hk.Catch(func() {
			if full {
				x := nasConvert.FullNetworkNameToNas(string(name))
				ln, buf = x.Len, x.Buffer
			} else {
				x := nasConvert.ShortNetworkNameToNas(string(name))
				ln, buf = x.Len, x.Buffer
			}
		})
		id := r.NextID()
		desc := fmt.Sprintf("%s(%q)", site, name)
		if p {
			r.AddCase(fmt.Sprintf("(%d, IName %s %s, OPanic)", id, hk.CoqBool(full), hk.CoqBytes(name)), desc)
			r.Count(stream, "")
			if verdict {
				r.Fail(hk.Failure{Site: site, Class: "panic", Input: string(name), Detail: fmt.Sprint(pv)})
			}
			return
		}
		r.AddCase(fmt.Sprintf("(%d, IName %s %s, OName %d %s)", id, hk.CoqBool(full), hk.CoqBytes(name), ln, hk.CoqBytes(buf)), desc)
		key := ""
		if len(name) > 0 {
			key = fmt.Sprintf("name%v%x", full, name)
		}
		r.Count(stream, key)
		r.Dist[fmt.Sprintf("name_len_%02d", len(name)/8*8)]++
		r.Sample(map[string]interface{}{"name": string(name), "len": ln, "buffer": hk.Hex(buf)})
		if !verdict {
			return
		}
		// TS 24.008 10.5.3.5a: octet 3 = ext 1 | coding scheme 000 | add CI 0 | spare bits; then the packed text
		bad := ""
		if len(buf) == 0 || int(ln) != len(buf) {
			bad = fmt.Sprintf("Len %d, %d buffer octets", ln, len(buf))
		} else {
			spare := int(buf[0] & 7)
			if buf[0]&0xf8 != 0x80 {
				bad = fmt.Sprintf("octet 3 = %#02x: ext/coding scheme/add CI are not 1/000/0", buf[0])
			} else if spare != (8-7*len(name)%8)%8 {
				bad = fmt.Sprintf("spare bits %d, want %d", spare, (8-7*len(name)%8)%8)
			} else if got := unpack7(buf[1:], spare); !bytes.Equal(got, name) {
				bad = fmt.Sprintf("%d text octets with %d spare bits unpack to %d septets %q, want the %d septets of the name", len(buf)-1, spare, len(got), got, len(name))
			}
		}
		if bad != "" {
			r.Fail(hk.Failure{Site: site, Class: "wrong-encoding", Input: string(name), Detail: bad})
		}
	}
	alpha := []byte("ABCDEFGHIJKLMNOPQRSTUVWXYZabcdefghijklmnopqrstuvwxyz0123456789 -.")
	// corpus: witnesses of F13 (fixed by 12a658d)
	for _, w := range []string{"ABCDEFGH", "ABCDEFGHIJ", "ABCDEFG", "free5GC Mobile Network"} {
		nameCase("corpus", true, []byte(w), true)
		nameCase("corpus", false, []byte(w), true)
	}
	for i := 0; i < r.N(60, 1500); i++ { // short names, random septets
		n := r.Rng.Intn(8)
		nm := r.Rng.Bytes(n)
		for j := range nm {
			nm[j] &= 0x7f
		}
		nameCase("name_short_random", r.Rng.Bool(), nm, true)
	}
	for n := 0; n <= 64; n++ {
		for _, full := range []bool{true, false} {
			nm := make([]byte, n)
			for i := range nm {
				nm[i] = alpha[(i+n)%len(alpha)]
			}
			nameCase("name_every_length", full, nm, true)
			// boundary septets: all ones, all zeros, alternating, random 7-bit
			nameCase("name_boundary_chars", full, bytes.Repeat([]byte{0x7f}, n), true)
			if n > 0 && (n <= 9 || n%8 <= 1 || r.Thorough()) {
				nameCase("name_boundary_chars", full, bytes.Repeat([]byte{0x00}, n), true)
				alt := make([]byte, n)
				rnd := make([]byte, n)
				for i := range alt {
					alt[i] = []byte{0x55, 0x2a}[i%2]
					rnd[i] = r.Rng.Byte() & 0x7f
					if rnd[i] == '\n' {
						rnd[i] = ' '
					}
				}
				nameCase("name_boundary_chars", full, alt, true)
				nameCase("name_random_chars", full, rnd, true)
			}
		}
	}
	// outside the property's range (correspondence only): octets >= 0x80, very long names (Len wraps at 255)
	// long names: the element holds 254 text octets = 290 septets; beyond that the length
	// octet wraps (291: panic on the empty Buffer, 292...: text cut) -- correspondence only
	for _, n := range []int{100, 254, 255, 256, 257, 289, 290} {
		nm := make([]byte, n)
		for i := range nm {
			nm[i] = alpha[(i*7+n)%len(alpha)]
		}
		nameCase("name_long", n%2 == 0, nm, true)
		nameCase("name_long", n%2 == 1, bytes.Repeat([]byte{0x7f}, n), true)
	}
	for _, n := range []int{291, 292, 300, 600} {
		nameCase("name_out_of_range", n%2 == 0, bytes.Repeat([]byte{'x'}, n), false)
	}
	// octets >= 0x80 are no septets (the code masks them with 0x7f): correspondence only
	nameCase("name_out_of_range", true, []byte{0x80}, false)
	nameCase("name_out_of_range", false, []byte{0xff, 0xff, 0xff}, false)
	nameCase("name_out_of_range", true, []byte{0x41, 0xc3, 0xa9, 0x42}, false)
}
