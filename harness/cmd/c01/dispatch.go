package main

import (
	"bytes"
	"fmt"
	"reflect"
	"strings"

	"github.com/free5gc/nas"

	"verifharness/hk"
)

// observed state of a nas.Message after PlainNasDecode / Gmm|GsmMessageDecode
type plainObs struct {
	class  string
	gmm    bool
	header []byte
	bodies []string
	vals   map[string][]*ie
}

func observe(m *nas.Message) (o plainObs) {
	o.vals = map[string][]*ie{}
	var part reflect.Value
	switch {
	case m.GmmMessage != nil:
		o.gmm = true
		o.header = hk.Exact(m.GmmMessage.GmmHeader.Octet[:])
		part = reflect.ValueOf(m.GmmMessage).Elem()
	case m.GsmMessage != nil:
		o.header = hk.Exact(m.GsmMessage.GsmHeader.Octet[:])
		part = reflect.ValueOf(m.GsmMessage).Elem()
	default:
		return
	}
	for i := 0; i < part.NumField(); i++ {
		f := part.Field(i)
		if f.Kind() == reflect.Ptr && !f.IsNil() {
			n := part.Type().Field(i).Name
			o.bodies = append(o.bodies, n)
			o.vals[n] = getMsg(f.Interface())
		}
	}
	return
}

func (o plainObs) coq() string {
	switch o.class {
	case "err":
		return "PErr"
	case "panic":
		return "PPanic"
	}
	var bs []string
	for _, n := range o.bodies {
		bs = append(bs, fmt.Sprintf("(%q, %s)", n, coqMsg(o.vals[n])))
	}
	return fmt.Sprintf("POk %v %s [%s]", o.gmm, hk.CoqBytes(o.header), strings.Join(bs, "; "))
}

func msgByName(n string) *msgT {
	for i := range msgs {
		if msgs[i].Name == n {
			return &msgs[i]
		}
	}
	return nil
}

// inputs that are complete minimal messages (right discriminator, known type, valid mandatory part)
var validTails = map[string]bool{}

// long-lived Messages, one per entry point and family
var reusedMsgs = map[string]*nas.Message{}

func dispatchCases(r *hk.Run) {
	quick := !r.Thorough()
	dec := func(stream string, entry int, in []byte, isNil bool, toModel bool) {
		m := nas.NewMessage()
		var err error
		big := make([]byte, len(in)+16) // the input is a window; the octets after it are a sentinel
		copy(big, in)
		for i := len(in); i < len(big); i++ {
			big[i] = 0xa5
		}
		arg := big[:len(in)]
		panicked, _ := hk.Catch(func() {
			switch entry {
			case 0:
				if isNil {
					err = m.PlainNasDecode(nil)
				} else {
					err = m.PlainNasDecode(&arg)
				}
			case 1:
				err = m.GmmMessageDecode(&arg)
			case 2:
				err = m.GsmMessageDecode(&arg)
			}
		})
		var o plainObs
		switch {
		case panicked:
			o.class = "panic"
		case err != nil:
			o.class = "err"
		default:
			o = observe(m)
			o.class = "ok"
		}
		names := []string{"PlainNasDecode", "GmmMessageDecode", "GsmMessageDecode"}
		desc := fmt.Sprintf("%s %s", names[entry], hk.Hex(in))
		if isNil {
			desc = "PlainNasDecode nil"
		}
		if toModel {
			id := r.NextID()
			inS := "Some " + hk.CoqBytes(in)
			if isNil {
				inS = "None"
			}
			r.AddCase(fmt.Sprintf("CDisp %d %d (%s) (%s)", id, entry, inS, o.coq()), desc)
		}
		key := ""
		if o.class == "ok" {
			key = desc
		}
		r.Count(stream, key)
		r.Dist["disp_"+o.class]++
		site := "nas." + names[entry]
		// ---- C05 on a Message that was decoded into before (same entry point, same family): the family
		// struct is allocated anew by every decode, so exactly the body named by THIS message type is populated
		if o.class == "ok" && !isNil && len(in) > 0 {
			key := fmt.Sprintf("%d-%02x", entry, in[0])
			if entry != 0 {
				key = fmt.Sprintf("%d", entry)
			}
			rm := reusedMsgs[key]
			if rm == nil {
				rm = nas.NewMessage()
				reusedMsgs[key] = rm
			}
			arg2 := hk.Exact(in)
			var err2 error
			p2, _ := hk.Catch(func() {
				switch entry {
				case 0:
					err2 = rm.PlainNasDecode(&arg2)
				case 1:
					err2 = rm.GmmMessageDecode(&arg2)
				case 2:
					err2 = rm.GsmMessageDecode(&arg2)
				}
			})
			if p2 || err2 != nil {
				fail(r, "C05", site, "reused-message-rejected", hk.Hex(in), "decoding into a Message that was used before fails although a fresh Message accepts the input")
				fail(r, "C02", site, "reused-message-rejected", hk.Hex(in), "decoding into a Message that was used before fails although a fresh Message accepts the input")
			} else if o2 := observe(rm); o2.coq() != o.coq() {
				fail(r, "C05", site, "reused-message-differs", hk.Hex(in), fmt.Sprintf("decoding into a Message used before populates %v, a fresh Message %v", o2.bodies, o.bodies))
				fail(r, "C02", site, "reused-message-differs", hk.Hex(in), fmt.Sprintf("decoding into a Message used before populates %v, a fresh Message %v", o2.bodies, o.bodies))
			}
		}
		// ---- C10: the entry points neither write to nor keep a reference into the caller's bytes
		if !isNil && (!bytes.Equal(arg, in) || !bytes.Equal(big[len(in):], bytes.Repeat([]byte{0xa5}, 16))) {
			fail(r, "C10", site, "input-modified", hk.Hex(in), "the decoder wrote to the input bytes or to the octets following them: "+hk.Hex(big))
		}
		// ---- C10: the result is a function of the input octets alone: the same octets at exact capacity and in
		// front of other leftovers (a reused receive buffer) decode to the same outcome, error text included
		if !isNil && (prop == "C10" || len(in) < 8) {
			errText := func(e error) string {
				if e == nil {
					return ""
				}
				return e.Error()
			}
			for _, fill := range []int{-1, 0xc1, 0x41, 0x00} {
				var arg2 []byte
				if fill < 0 {
					arg2 = hk.Exact(in)
				} else {
					b2 := bytes.Repeat([]byte{byte(fill)}, len(in)+16)
					copy(b2, in)
					arg2 = b2[:len(in)]
				}
				m2 := nas.NewMessage()
				var err2 error
				p2, _ := hk.Catch(func() {
					switch entry {
					case 0:
						err2 = m2.PlainNasDecode(&arg2)
					case 1:
						err2 = m2.GmmMessageDecode(&arg2)
					case 2:
						err2 = m2.GsmMessageDecode(&arg2)
					}
				})
				same := p2 == panicked
				if same && !panicked {
					same = errText(err2) == errText(err) && (err != nil || observe(m2).coq() == o.coq())
				}
				if !same {
					fail(r, "C10", site, "depends-on-octets-beyond-input", hk.Hex(in),
						fmt.Sprintf("the same octets decode differently when the slice has no spare capacity / is followed by 0x%02x octets (first: err=%q, now: err=%q)", fill&0xff, errText(err), errText(err2)))
					break
				}
			}
		}
		if prop == "C10" && o.class == "ok" {
			for i := range arg {
				arg[i] ^= 0xff
			}
			if o2 := observe(m); o2.coq() != o.coq() {
				fail(r, "C10", site, "aliases-input", hk.Hex(in), "mutating the input after decoding changed the message")
			}
		}
		if o.class == "panic" {
			fail(r, "C01", site, "panic", hk.Hex(in), "dispatching decoder panicked")
			fail(r, "C05", site, "panic", hk.Hex(in), "dispatching decoder panicked")
			return
		}
		// ---- C05 direct oracle (pinned TS 24.501 type tables)
		wantErr := isNil || len(in) == 0
		var wantName string
		var hlen int
		if !wantErr {
			gmm := false
			switch entry {
			case 0:
				switch in[0] {
				case 0x7e:
					gmm = true
				case 0x2e:
				default:
					wantErr = true
				}
			case 1:
				gmm = true
			}
			if !wantErr {
				hlen = 4
				tbl := pinnedGsmTypes
				if gmm {
					hlen, tbl = 3, pinnedGmmTypes
				}
				if len(in) < hlen {
					wantErr = true
				} else if n, ok := tbl[in[hlen-1]]; ok {
					wantName = n
				} else {
					wantErr = true
				}
			}
		}
		if wantErr {
			if o.class == "ok" {
				fail(r, "C05", site, "accepted", hk.Hex(in), "nil/empty/short input, foreign discriminator or unknown message type was accepted")
			}
			return
		}
		if o.class != "ok" {
			// the body decoder may legitimately reject the rest -- unless the input is a complete minimal
			// message of the type its header names
			if validTails[hk.Hex(in)] {
				fail(r, "C05", site, "rejects-valid-message", hk.Hex(in), "a complete "+wantName+" message is rejected")
			}
			return
		}
		if len(o.bodies) != 1 || o.bodies[0] != wantName {
			fail(r, "C05", site, "wrong-body", hk.Hex(in), fmt.Sprintf("populated bodies %v, message type names %s", o.bodies, wantName))
			return
		}
		if !bytes.Equal(o.header, in[:hlen]) {
			fail(r, "C05", site, "header-view", hk.Hex(in), "header view differs from the first octets")
		}
		body := o.vals[wantName]
		for i := 0; i < hlen && i < len(body); i++ {
			if body[i] == nil || len(body[i].Oct) != 1 || body[i].Oct[0] != in[i] {
				fail(r, "C05", site, "header-body-disagree", hk.Hex(in), "the body's own header octets differ from the header view")
				break
			}
		}
	}
	// short inputs and nil
	dec("short", 0, nil, true, true)
	for _, e := range []int{0, 1, 2} {
		dec("short", e, []byte{}, false, true)
		for _, b0 := range []byte{0x7e, 0x2e, 0x00, 0xff} {
			for n := 1; n <= 4; n++ {
				in := []byte{b0, 0, 0x41, 0xc1}[:n]
				dec("short", e, in, false, true)
			}
		}
	}
	// the 256 x 256 (discriminator, message type) grid at both header offsets with a minimal valid tail
	tails := map[string][]byte{}
	for _, m := range msgs {
		tails[m.Name] = m.mandatory(r.Rng, true)
	}
	for epd := 0; epd < 256; epd++ {
		for ty := 0; ty < 256; ty++ {
			for off := 2; off <= 3; off++ {
				var in []byte
				name := ""
				if off == 2 {
					name = pinnedGmmTypes[uint8(ty)]
				} else {
					name = pinnedGsmTypes[uint8(ty)]
				}
				tailOK := false
				if t, ok := tails[name]; ok {
					in = hk.Exact(t)
					tailOK = true
				} else {
					in = []byte{0, 0, 0, 0, 0, 0, 0, 0}
				}
				in[0] = byte(epd)
				in[off] = byte(ty)
				if tailOK && ((epd == 0x7e && off == 2) || (epd == 0x2e && off == 3)) {
					validTails[hk.Hex(in)] = true
				}
				interesting := epd == 0x7e || epd == 0x2e
				toModel := !quick || (interesting && (off == 2) == (epd == 0x7e)) || (ty%37 == 0 && epd%29 == 0)
				dec("grid", 0, in, false, toModel)
				if epd == 0x7e && off == 2 {
					dec("grid", 1, in, false, toModel && ty%4 == 0)
				}
				if epd == 0x2e && off == 3 {
					dec("grid", 2, in, false, toModel && ty%4 == 0)
				}
			}
		}
	}
	// ---- encode through the dispatcher
	enc := func(stream string, pm *plainIn) {
		m := nas.NewMessage()
		pm.install(m)
		var out []byte
		var err error
		panicked, _ := hk.Catch(func() { out, err = m.PlainNasEncode() })
		r.Retain("nas.PlainNasEncode", pm.coq(), out) // the encoding belongs to the caller: a later encode must not change it
		cls, obs := "ok", "EOk "+hk.CoqBytes(out)
		switch {
		case panicked:
			cls, obs = "panic", "EPanic"
		case err != nil:
			cls, obs = "err", "EErr"
		}
		id := r.NextID()
		desc := "PlainNasEncode " + pm.coq()
		r.AddCase(fmt.Sprintf("CDispEnc %d (%s) (%s)", id, pm.coq(), obs), desc)
		key := ""
		if cls == "ok" {
			key = desc
		}
		r.Count(stream, key)
		r.Dist["dispenc_"+cls]++
		site := "nas.PlainNasEncode"
		in := map[string]interface{}{"part": pm.part, "type": pm.typ, "body": pm.body}
		if cls == "panic" {
			fail(r, "C05", site, "panic", in, "encoding panicked (a message whose header names a type but whose body pointer is nil must be an error)")
			return
		}
		// expected class
		wantErr := pm.part == ""
		if !wantErr {
			tbl := pinnedGsmTypes
			if pm.part == "gmm" {
				tbl = pinnedGmmTypes
			}
			n, ok := tbl[pm.typ]
			if !ok {
				wantErr = true
			} else if pm.body != n {
				wantErr = true
			}
		}
		if wantErr && cls == "ok" {
			fail(r, "C05", site, "accepted", in, "message with no body / unknown type / body of another type was encoded")
		}
		if !wantErr && cls != "ok" {
			fail(r, "C05", site, "rejected", in, "well-formed message was not encoded")
		}
		if !wantErr && cls == "ok" {
			mt := msgByName(pm.body)
			want := specFormat(*mt, pm.val)
			if !bytes.Equal(out, want) {
				fail(r, "C05", site, "wrong-callee", in, "output is not the encoding of the named body")
			}
		}
	}
	enc("encode", &plainIn{})
	for part, tbl := range map[string]map[uint8]string{"gmm": pinnedGmmTypes, "gsm": pinnedGsmTypes} {
		for ty := 0; ty < 256; ty++ {
			name, known := tbl[uint8(ty)]
			if !known {
				if ty%16 == 3 {
					enc("encode", &plainIn{part: part, typ: uint8(ty)})
				}
				continue
			}
			mt := msgByName(name)
			val := wfMessage(r.Rng, *mt, false, false)
			hl := 3
			if part == "gsm" {
				hl = 4
			}
			// make the body's own header octets agree with the header view
			val[0].Oct = []byte{map[string]byte{"gmm": 0x7e, "gsm": 0x2e}[part]}
			val[hl-1].Oct = []byte{byte(ty)}
			enc("encode", &plainIn{part: part, typ: uint8(ty), body: name, val: val})
			enc("encode", &plainIn{part: part, typ: uint8(ty)}) // header names the type, body pointer nil
		}
	}
}

type plainIn struct {
	part string // "", "gmm", "gsm"
	typ  uint8
	body string
	val  []*ie
}

func (p *plainIn) coq() string {
	if p.part == "" {
		return "None"
	}
	hdr := []byte{0x7e, 0, p.typ}
	if p.part == "gsm" {
		hdr = []byte{0x2e, 0, 0, p.typ}
	}
	bodies := "[]"
	if p.body != "" {
		bodies = fmt.Sprintf("[(%q, %s)]", p.body, coqMsg(p.val))
	}
	return fmt.Sprintf("Some (mkpm %v %s %s)", p.part == "gmm", hk.CoqBytes(hdr), bodies)
}

func (p *plainIn) install(m *nas.Message) {
	var part reflect.Value
	switch p.part {
	case "gmm":
		m.GmmMessage = nas.NewGmmMessage()
		m.GmmMessage.GmmHeader.Octet = [3]uint8{0x7e, 0, p.typ}
		part = reflect.ValueOf(m.GmmMessage).Elem()
	case "gsm":
		m.GsmMessage = nas.NewGsmMessage()
		m.GsmMessage.GsmHeader.Octet = [4]uint8{0x2e, 0, 0, p.typ}
		part = reflect.ValueOf(m.GsmMessage).Elem()
	default:
		return
	}
	if p.body != "" {
		f := part.FieldByName(p.body)
		n := reflect.New(f.Type().Elem())
		setMsg(n.Interface(), p.val)
		f.Set(n)
	}
}
