// Codec harness shared by C01, C02, C03, C04, C05 and C10 (VERIF_PROP selects which
// direct oracles report).  Inputs: corpus (repo test vectors), the finite directed set
// (every message x every slot x boundary lengths x truncation points), structured
// random element sequences (reordered, duplicated, unknown identifiers), malformed
// random bytes, and generated well-formed / ill-formed message values for the encoder.
package main

import (
	"bytes"
	"fmt"
	"os"
	"path/filepath"
	"reflect"
	"runtime"
	"sort"
	"strings"
	"time"

	"github.com/free5gc/nas"

	"verifharness/hk"
)

var prop = "C01"

func main() {
	if p := os.Getenv("VERIF_PROP"); p != "" {
		prop = p
	}
	hk.Main(prop, run)
}

// ---------------------------------------------------------------- reflection <-> model values

type ie struct {
	Iei uint8
	Len uint16
	Oct []byte
}

func ieOf(v reflect.Value) *ie {
	e := &ie{}
	if f := v.FieldByName("Iei"); f.IsValid() {
		e.Iei = uint8(f.Uint())
	}
	if f := v.FieldByName("Len"); f.IsValid() {
		e.Len = uint16(f.Uint())
	}
	if f := v.FieldByName("Octet"); f.IsValid() {
		if f.Kind() == reflect.Uint8 {
			e.Oct = []byte{byte(f.Uint())}
		} else {
			for i := 0; i < f.Len(); i++ {
				e.Oct = append(e.Oct, byte(f.Index(i).Uint()))
			}
		}
	}
	if f := v.FieldByName("Buffer"); f.IsValid() {
		e.Oct = append([]byte{}, f.Bytes()...)
	}
	return e
}

func ieInto(v reflect.Value, e *ie) {
	if f := v.FieldByName("Iei"); f.IsValid() {
		f.SetUint(uint64(e.Iei))
	}
	if f := v.FieldByName("Len"); f.IsValid() {
		if f.Kind() == reflect.Uint8 {
			f.SetUint(uint64(e.Len & 0xff))
		} else {
			f.SetUint(uint64(e.Len))
		}
	}
	if f := v.FieldByName("Octet"); f.IsValid() {
		if f.Kind() == reflect.Uint8 {
			if len(e.Oct) > 0 {
				f.SetUint(uint64(e.Oct[0]))
			}
		} else {
			for i := 0; i < f.Len() && i < len(e.Oct); i++ {
				f.Index(i).SetUint(uint64(e.Oct[i]))
			}
		}
	}
	if f := v.FieldByName("Buffer"); f.IsValid() {
		f.SetBytes(hk.Exact(e.Oct))
	}
}

// getMsg reads a *nasMessage.X into the model's slot list (nil = absent)
func getMsg(p interface{}) []*ie {
	s := reflect.ValueOf(p).Elem()
	var out []*ie
	for i := 0; i < s.NumField(); i++ {
		f := s.Field(i)
		if f.Kind() == reflect.Ptr {
			if f.IsNil() {
				out = append(out, nil)
			} else {
				out = append(out, ieOf(f.Elem()))
			}
		} else {
			out = append(out, ieOf(f))
		}
	}
	return out
}

func setMsg(p interface{}, m []*ie) {
	s := reflect.ValueOf(p).Elem()
	for i := 0; i < s.NumField() && i < len(m); i++ {
		f := s.Field(i)
		if f.Kind() == reflect.Ptr {
			if m[i] == nil {
				f.Set(reflect.Zero(f.Type()))
			} else {
				n := reflect.New(f.Type().Elem())
				ieInto(n.Elem(), m[i])
				f.Set(n)
			}
		} else if m[i] != nil {
			ieInto(f, m[i])
		}
	}
}

func coqMsg(m []*ie) string {
	var xs []string
	for _, e := range m {
		if e == nil {
			xs = append(xs, "None")
		} else {
			xs = append(xs, fmt.Sprintf("Some (mkie %d %d %s)", e.Iei, e.Len, hk.CoqBytes(e.Oct)))
		}
	}
	return "[" + strings.Join(xs, "; ") + "]"
}

func eqMsg(a, b []*ie) bool {
	if len(a) != len(b) {
		return false
	}
	for i := range a {
		if (a[i] == nil) != (b[i] == nil) {
			return false
		}
		if a[i] != nil && (a[i].Iei != b[i].Iei || a[i].Len != b[i].Len || !bytes.Equal(a[i].Oct, b[i].Oct)) {
			return false
		}
	}
	return true
}

// ---------------------------------------------------------------- slot facts

type slot struct {
	slotInfo
	lenW, cap int
	isBuf     bool
	hasIei    bool
}

type msgT struct {
	msgInfo
	slots []slot
}

func analyse(mi msgInfo) msgT {
	m := msgT{msgInfo: mi}
	t := reflect.TypeOf(mi.New()).Elem()
	for i, si := range mi.Slots {
		s := slot{slotInfo: si}
		ft := t.Field(i).Type
		if ft.Kind() == reflect.Ptr {
			ft = ft.Elem()
		}
		if f, ok := ft.FieldByName("Len"); ok {
			s.lenW = int(f.Type.Size())
		}
		if f, ok := ft.FieldByName("Octet"); ok {
			if f.Type.Kind() == reflect.Uint8 {
				s.cap = 1
			} else {
				s.cap = f.Type.Len()
			}
		}
		if _, ok := ft.FieldByName("Buffer"); ok {
			s.isBuf = true
		}
		_, s.hasIei = ft.FieldByName("Iei")
		m.slots = append(m.slots, s)
	}
	return m
}

// allowed lengths: [min,max] or an explicit set
func (s slot) lenRange() (min, max int, set []int) {
	min, max = 0, 255
	if s.lenW == 2 {
		max = 65535
	}
	if !s.HasLen {
		return 0, 0, nil
	}
	switch s.CheckKind {
	case "or":
		for _, a := range s.Atoms {
			switch a.Op {
			case "CLt":
				min = a.N
			case "CGt":
				max = a.N
			case "CNe":
				min, max = a.N, a.N
			}
		}
	case "and":
		for _, a := range s.Atoms {
			set = append(set, a.N)
		}
		sort.Ints(set)
		min, max = set[0], set[len(set)-1]
	}
	return
}

func (s slot) lenOK(l int) bool {
	min, max, set := s.lenRange()
	if set != nil {
		for _, x := range set {
			if x == l {
				return true
			}
		}
		return false
	}
	return l >= min && l <= max
}

// number of content octets the decoder reads for declared length l
func (s slot) contentLen(l int) int {
	switch s.Val {
	case "octet":
		return 1
	case "arrall":
		return s.cap
	case "arrn":
		return s.ValN
	case "arrlen", "buf":
		if s.HasLen {
			return l
		}
		return 0
	}
	return 0
}

// wire form of one element with declared length l and the given content (content may be cut short)
func (s slot) wire(r *hk.Rng, l int, content []byte) []byte {
	var b []byte
	if !s.Mand {
		if s.Val == "half" {
			return []byte{byte(s.Iei<<4) | (r.Byte() & 0x0f)}
		}
		b = append(b, byte(s.Iei))
	}
	if s.HasLen {
		if s.lenW == 2 {
			b = append(b, byte(l>>8), byte(l))
		} else {
			b = append(b, byte(l))
		}
	}
	return append(b, content...)
}

func (s slot) validWire(r *hk.Rng, l int) []byte {
	return s.wire(r, l, r.Bytes(s.contentLen(l)))
}

func (s slot) pickLen(r *hk.Rng) int {
	min, max, set := s.lenRange()
	if set != nil {
		return set[r.Intn(len(set))]
	}
	if max > min+40 && r.Intn(8) != 0 {
		max = min + 40
	}
	return min + r.Intn(max-min+1)
}

func (m msgT) mandatory(r *hk.Rng, minimal bool) []byte {
	var b []byte
	for _, s := range m.slots {
		if s.Mand {
			l := 0
			if s.HasLen {
				if minimal {
					l, _, _ = s.lenRange()
				} else {
					l = s.pickLen(r)
				}
			}
			b = append(b, s.validWire(r, l)...)
		}
	}
	return b
}

// ---------------------------------------------------------------- calling the implementation

type decRes struct {
	class string // ok err panic hang
	msg   []*ie
	alloc uint64
	dur   time.Duration
}

func decodeMsg(mi msgInfo, in []byte) (res decRes, obj interface{}) {
	obj = mi.New()
	meth := reflect.ValueOf(obj).MethodByName("Decode" + mi.Name)
	// the input is a window into a larger array (as a NAS PDU inside a received packet is): the octets
	// after the window are a sentinel that the decoder must not touch either
	big := make([]byte, len(in)+16)
	copy(big, in)
	for i := len(in); i < len(big); i++ {
		big[i] = 0xa5
	}
	buf := big[:len(in)]
	var err error
	var ms0, ms1 runtime.MemStats
	runtime.ReadMemStats(&ms0)
	t0 := time.Now()
	panicked, hang, _ := hk.CatchTimeout(5*time.Second, func() {
		out := meth.Call([]reflect.Value{reflect.ValueOf(&buf)})
		if !out[0].IsNil() {
			err = out[0].Interface().(error)
		}
	})
	res.dur = time.Since(t0)
	runtime.ReadMemStats(&ms1)
	res.alloc = ms1.TotalAlloc - ms0.TotalAlloc
	switch {
	case hang:
		res.class = "hang"
	case panicked:
		res.class = "panic"
	case err != nil:
		res.class = "err"
	default:
		res.class = "ok"
		res.msg = getMsg(obj)
	}
	if !bytes.Equal(buf, in) {
		res.class += "+inputmodified"
	}
	for i := len(in); i < len(big); i++ {
		if big[i] != 0xa5 {
			res.class += "+inputmodified"
			break
		}
	}
	return
}

func encodeObj(mi msgInfo, obj interface{}, prefix []byte) (class string, out []byte) {
	meth := reflect.ValueOf(obj).MethodByName("Encode" + mi.Name)
	b := bytes.NewBuffer(hk.Exact(prefix))
	var err error
	panicked, _ := hk.Catch(func() {
		o := meth.Call([]reflect.Value{reflect.ValueOf(b)})
		if !o[0].IsNil() {
			err = o[0].Interface().(error)
		}
	})
	switch {
	case panicked:
		return "panic", nil
	case err != nil:
		return "err", nil
	}
	return "ok", b.Bytes()
}

// ---------------------------------------------------------------- the run

var msgs []msgT

func fail(r *hk.Run, p, site, class string, in interface{}, detail string) {
	if p == prop || (prop == "C01" && p == "C01") {
		r.Fail(hk.Failure{Site: site, Class: class, Input: in, Detail: detail})
	}
}

func run(r *hk.Run) {
	r.SetCoq("From NV Require Import Lib.Base Codec.Lang Codec.Def Codec.Sem Codec.Stmt Codec.Dispatch Codec.GenDefs Codec.Corr.\nFrom Coq Require Import String.\nOpen Scope N_scope.\nOpen Scope string_scope.", "case")
	pinned := map[string]msgInfo{}
	for _, mi := range pinnedMsgs {
		pinned[mi.Name] = mi
	}
	differs := 0
	var diffMsgs []msgT // the current source's own table, where it differs: its guard constants are boundary hints
	for _, mi := range genMsgs {
		// inputs are generated from the pinned table; a message unknown to it falls back to the
		// table extracted from the current source
		if pm, ok := pinned[mi.Name]; ok && len(pm.Slots) == len(mi.Slots) {
			if fmt.Sprintf("%v", pm.Slots) != fmt.Sprintf("%v", mi.Slots) {
				differs++
				diffMsgs = append(diffMsgs, analyse(mi))
			}
			mi.Slots = pm.Slots
		} else {
			differs++
		}
		msgs = append(msgs, analyse(mi))
	}
	r.Extra["messages_whose_extracted_table_differs_from_pinned"] = differs
	maxAllocRatio := 0.0
	remeasured := 0
	implOnly := false // true: the case is checked by the Go-side oracles only (not replayed in Coq)
	// ---- decode cases
	decCase := func(stream string, m msgT, in []byte, nontrivial bool) {
		res, _ := decodeMsg(m.msgInfo, in)
		id := r.NextID()
		obs := "DErr"
		cls := res.class
		switch {
		case strings.HasPrefix(cls, "ok"):
			obs = "DOk " + coqMsg(res.msg)
		case strings.HasPrefix(cls, "panic"), strings.HasPrefix(cls, "hang"):
			obs = "DPanic"
		}
		desc := fmt.Sprintf("Decode%s %s", m.Name, hk.Hex(in))
		if len(in) <= 3000 && !implOnly {
			r.AddCase(fmt.Sprintf("CDec %d %q %s (%s)", id, m.Name, hk.CoqBytes(in), obs), desc)
		}
		key := ""
		if nontrivial {
			key = desc
		}
		r.Count(stream, key)
		r.Dist["dec_"+strings.SplitN(cls, "+", 2)[0]]++
		r.Dist[fmt.Sprintf("inlen_%05d", len(in)/64*64)]++
		if nontrivial && len(in) < 80 {
			r.Sample(map[string]string{"call": "Decode" + m.Name, "input": hk.Hex(in), "result": cls})
		}
		site := "nasMessage.Decode" + m.Name
		// C01: never panics / hangs, bounded work and allocation
		if strings.HasPrefix(cls, "panic") {
			fail(r, "C01", site, "panic", hk.Hex(in), "decoder panicked")
		}
		if strings.HasPrefix(cls, "hang") {
			fail(r, "C01", site, "hang", hk.Hex(in), "decoder did not return within 5 s")
		}
		bound := float64(64*len(in) + 4096 + 2*65535 + 65536)
		if float64(res.alloc) > bound {
			// runtime.MemStats.TotalAlloc is process-wide (runtime bookkeeping, map growth of the harness
			// itself can fall into the window); the decoder's own allocation is deterministic, so an
			// excess only counts when it is reproduced: minimum over three further measurements
			for k := 0; k < 3; k++ {
				if again, _ := decodeMsg(m.msgInfo, in); again.alloc < res.alloc {
					res.alloc = again.alloc
				}
			}
			remeasured++
		}
		ratio := float64(res.alloc) / bound
		if ratio > maxAllocRatio {
			maxAllocRatio = ratio
		}
		if ratio > 1.0 {
			fail(r, "C01", site, "alloc", hk.Hex(in), fmt.Sprintf("allocated %d octets for %d input octets (bound %d)", res.alloc, len(in), int(bound)))
		}
		if res.dur > 2*time.Second {
			// wall time on a loaded machine: only a reproduced excess counts
			for k := 0; k < 2 && res.dur > 2*time.Second; k++ {
				if again, _ := decodeMsg(m.msgInfo, in); again.dur < res.dur {
					res.dur = again.dur
				}
			}
		}
		if res.dur > 2*time.Second {
			fail(r, "C01", site, "slow", hk.Hex(in), fmt.Sprintf("took %v", res.dur))
		}
		// C10: input not modified
		if strings.Contains(cls, "inputmodified") {
			fail(r, "C10", site, "input-modified", hk.Hex(in), "decoder wrote to the input bytes (or to the octets that follow them in the caller's array)")
		}
		if prop == "C10" {
			// the same with a slice that has no spare capacity (a write through a bytes.Buffer then lands elsewhere)
			ex := make([]byte, len(in))
			copy(ex, in)
			objX := m.New()
			hk.Catch(func() { reflect.ValueOf(objX).MethodByName("Decode" + m.Name).Call([]reflect.Value{reflect.ValueOf(&ex)}) })
			if !bytes.Equal(ex, in) {
				fail(r, "C10", site, "input-modified", hk.Hex(in), "decoder wrote to the input bytes: "+hk.Hex(ex))
			}
		}
		if !strings.HasPrefix(cls, "ok") {
			return
		}
		// what the decoder accepts is a well-formed value: a Buffer-backed element holds exactly Len octets
		// (C03_decode_wf; a short read that is not reported leaves Len > len(Buffer))
		for i, e := range res.msg {
			if e != nil && i < len(m.slots) && m.slots[i].isBuf && m.slots[i].HasLen && int(e.Len) != len(e.Oct) {
				d := fmt.Sprintf("%s: Len=%d but Buffer holds %d octets", m.slots[i].Name, e.Len, len(e.Oct))
				fail(r, "C03", site, "accepted-value-ill-formed", hk.Hex(in), d)
				fail(r, "C04", site, "accepted-value-ill-formed", hk.Hex(in), d)
				fail(r, "C01", site, "accepted-value-ill-formed", hk.Hex(in), d)
				break
			}
		}
		// C03: re-encode is stable
		obj := m.New()
		setMsg(obj, res.msg)
		c1, b1 := encodeObj(m.msgInfo, obj, nil)
		if c1 != "ok" {
			fail(r, "C03", site, "reencode-"+c1, hk.Hex(in), "re-encoding a decoded message failed")
			return
		}
		res2, _ := decodeMsg(m.msgInfo, b1)
		if res2.class != "ok" || !eqMsg(res2.msg, res.msg) {
			fail(r, "C03", site, "redecode-differs", hk.Hex(in), "decode(encode(decode(x))) differs from decode(x): "+hk.Hex(b1))
			return
		}
		obj2 := m.New()
		setMsg(obj2, res2.msg)
		c2, b2 := encodeObj(m.msgInfo, obj2, nil)
		if c2 != "ok" || !bytes.Equal(b1, b2) {
			fail(r, "C03", site, "not-a-fixed-point", hk.Hex(in), "second re-encoding differs from the first")
		}
		// C10: no aliasing between input and message; determinism; append-only encoding
		if prop == "C10" {
			in2 := hk.Exact(in)
			objA := m.New()
			methA := reflect.ValueOf(objA).MethodByName("Decode" + m.Name)
			methA.Call([]reflect.Value{reflect.ValueOf(&in2)})
			before := getMsg(objA)
			for i := range in2 {
				in2[i] ^= 0xff
			}
			if !eqMsg(getMsg(objA), before) {
				fail(r, "C10", site, "aliases-input", hk.Hex(in), "mutating the input after decoding changed the message")
			}
			// mutate message buffers, input must stay
			in3 := hk.Exact(in)
			objB := m.New()
			reflect.ValueOf(objB).MethodByName("Decode" + m.Name).Call([]reflect.Value{reflect.ValueOf(&in3)})
			sv := reflect.ValueOf(objB).Elem()
			for i := 0; i < sv.NumField(); i++ {
				f := sv.Field(i)
				if f.Kind() == reflect.Ptr {
					if f.IsNil() {
						continue
					}
					f = f.Elem()
				}
				if b := f.FieldByName("Buffer"); b.IsValid() {
					bs := b.Bytes()
					for j := range bs {
						bs[j] ^= 0xff
					}
				}
			}
			if !bytes.Equal(in3, in) {
				fail(r, "C10", site, "aliases-message", hk.Hex(in), "mutating the decoded message changed the input")
			}
			if !eqMsg(before, res.msg) {
				fail(r, "C10", site, "nondeterministic", hk.Hex(in), "two decodings of the same input differ")
			}
			pre := r.Rng.Bytes(1 + r.Rng.Intn(9))
			cP, bP := encodeObj(m.msgInfo, obj, pre)
			if cP != "ok" || !bytes.Equal(bP, append(hk.Exact(pre), b1...)) {
				fail(r, "C10", site, "not-append-only", hk.Hex(in), "encoding into a non-empty buffer is not prefix ++ encoding")
			}
			if !eqMsg(getMsg(obj), res.msg) {
				fail(r, "C10", site, "encode-modifies-message", hk.Hex(in), "encoding changed the message")
			}
		}
	}

	quick := !r.Thorough()
	wantDec := prop == "C01" || prop == "C03" || prop == "C04" || prop == "C10"
	wantEnc := prop == "C02" || prop == "C04" || prop == "C10" || prop == "C03"
	wantDisp := prop == "C05" || prop == "C01" || prop == "C10" || prop == "C02"
	lean := false // every truncation for every property (a truncated element that is accepted shows up as an ill-formed value)
	decStreams := func() {
		// S1 corpus: the repository's own vectors, through the message decoders
		for _, dir := range []string{"GmmMessage", "GsmMessage"} {
			files, _ := filepath.Glob(filepath.Join(os.Getenv("VERIF_REPO"), "testdata", dir, "*"))
			if len(files) == 0 {
				files, _ = filepath.Glob(filepath.Join("/repo/testdata", dir, "*"))
			}
			for _, f := range files {
				name := strings.TrimPrefix(strings.TrimPrefix(filepath.Base(f), "Max"), "Min")
				data, err := os.ReadFile(f)
				if err != nil {
					continue
				}
				for _, m := range msgs {
					if m.Name == name {
						if len(data) <= 3000 || !quick {
							decCase("corpus", m, data, true)
						}
					}
				}
			}
		}
		// S2 directed: every message x every slot x boundary lengths x truncation points
		// (also with the current source's own table where it differs from the pinned one)
		for _, m := range append(append([]msgT{}, msgs...), diffMsgs...) {
			base := m.mandatory(r.Rng, true)
			decCase("directed", m, base, true)
			for k := 0; k < len(base); k++ { // every truncation of the mandatory part
				if lean {
					continue
				}
				decCase("directed", m, base[:k], false)
			}
			for _, s := range m.slots {
				if !s.HasLen && s.Mand {
					continue
				}
				min, max, set := s.lenRange()
				cands := map[int]bool{0: true, 1: true, min - 1: true, min: true, min + 1: true, (min + max) / 2: true, max - 1: true, max: true, max + 1: true, s.cap: true, s.cap + 1: true, 255: true}
				if s.lenW == 2 {
					cands[256] = true
					if !quick {
						cands[65535] = true
					}
				}
				for _, x := range set {
					cands[x], cands[x-1], cands[x+1] = true, true, true
				}
				var ls []int
				for l := range cands {
					if l >= 0 && (s.lenW == 2 || l <= 255) && (l <= 2200 || !quick) {
						ls = append(ls, l)
					}
				}
				if !s.HasLen {
					ls = []int{0}
				}
				sort.Ints(ls)
				for _, l := range ls {
					var w []byte
					prefix := base
					if s.Mand {
						// rebuild the mandatory part with this slot's length l
						prefix = nil
						for _, t := range m.slots {
							if !t.Mand {
								continue
							}
							if t.Name == s.Name {
								prefix = append(prefix, t.validWire(r.Rng, l)...)
							} else {
								tl, _, _ := t.lenRange()
								prefix = append(prefix, t.validWire(r.Rng, tl)...)
							}
						}
						w = nil
					} else {
						w = s.validWire(r.Rng, l)
					}
					full := append(hk.Exact(prefix), w...)
					decCase("directed", m, full, true)
					if !s.Mand && l > 0 && s.contentLen(l) > 0 {
						// the same element with all-zero and with all-ones content (trailing zero octets,
						// spare bits: what a re-encoder might be tempted to trim or mask)
						for _, fill := range []byte{0x00, 0xff} {
							ct := bytes.Repeat([]byte{fill}, s.contentLen(l))
							decCase("directed-fill", m, append(hk.Exact(prefix), s.wire(r.Rng, l, ct)...), true)
							if len(ct) > 1 {
								ct2 := r.Rng.Bytes(len(ct))
								ct2[len(ct2)-1] = fill
								decCase("directed-fill", m, append(hk.Exact(prefix), s.wire(r.Rng, l, ct2)...), true)
							}
						}
					}
					if prop == "C04" && s.HasLen {
						// the pinned table decides: a declared length outside its bounds is an error,
						// one inside them (content complete) is accepted
						got, _ := decodeMsg(m.msgInfo, full)
						site := "nasMessage.Decode" + m.Name
						if !s.lenOK(l) && got.class != "err" {
							fail(r, "C04", site, "accepts-length-out-of-bounds", hk.Hex(full), fmt.Sprintf("%s declared length %d is outside the table bounds but the decoder returned %s", s.Name, l, got.class))
						}
						if s.lenOK(l) && got.class != "ok" {
							fail(r, "C04", site, "rejects-length-in-bounds", hk.Hex(full), fmt.Sprintf("%s declared length %d is within the table bounds but the decoder returned %s", s.Name, l, got.class))
						}
					}
					// truncation points inside the element: each octet of its header, then a few in the content
					start := len(prefix)
					if s.Mand {
						start = 0
					}
					cuts := map[int]bool{}
					for c := start; c < len(full) && c < start+4; c++ {
						cuts[c] = true
					}
					cuts[len(full)-1] = true
					cuts[(start+len(full))/2] = true
					if !s.Mand {
						// followed by another element / an unknown octet
						decCase("directed", m, append(hk.Exact(full), 0x00), true)
					}
					for c := range cuts {
						if c >= 0 && c < len(full) && !lean {
							decCase("directed", m, full[:c], false)
						}
					}
				}
			}
		}
		// S3 structured random: element sequences, reordered / duplicated / unknown identifiers
		nrand := r.N(900, 12000)
		for i := 0; i < nrand; i++ {
			m := msgs[r.Rng.Intn(len(msgs))]
			in := m.mandatory(r.Rng, r.Rng.Bool())
			var opts []slot
			for _, s := range m.slots {
				if !s.Mand {
					opts = append(opts, s)
				}
			}
			k := r.Rng.Intn(6)
			for j := 0; j < k && len(opts) > 0; j++ {
				s := opts[r.Rng.Intn(len(opts))]
				l := s.pickLen(r.Rng)
				switch r.Rng.Intn(12) {
				case 0:
					mn, _, _ := s.lenRange()
					l = mn - 1
				case 1:
					_, mx, _ := s.lenRange()
					l = mx + 1
				}
				if l < 0 {
					l = 0
				}
				if s.lenW == 1 && l > 255 {
					l = 255
				}
				in = append(in, s.validWire(r.Rng, l)...)
				if r.Rng.Intn(5) == 0 {
					in = append(in, r.Rng.Byte()) // an octet that may be an unknown identifier
				}
			}
			if r.Rng.Intn(6) == 0 && len(in) > 0 {
				in = in[:r.Rng.Intn(len(in)+1)]
			}
			decCase("structured", m, in, true)
		}
		// S4 malformed: random octets after a plausible header, and short inputs
		nmal := r.N(500, 6000)
		for i := 0; i < nmal; i++ {
			m := msgs[r.Rng.Intn(len(msgs))]
			n := r.Rng.Intn(40)
			in := r.Rng.Bytes(n)
			if n >= 4 && r.Rng.Intn(3) != 0 {
				copy(in, m.mandatory(r.Rng, true))
			}
			decCase("malformed", m, in, n > 4)
		}
		// S4b padding: a valid mandatory part followed by a long run of one ignorable octet (work and
		// allocation must stay linear: the oracle in decCase measures both)
		if prop == "C01" {
			implOnly = true
			for _, m := range msgs {
				used := map[int]bool{}
				for _, s := range m.slots {
					if !s.Mand {
						used[s.Iei] = true
					}
				}
				pad := byte(0)
				for u := 0; u < 128; u++ {
					if !used[u] {
						pad = byte(u)
						break
					}
				}
				base := m.mandatory(r.Rng, true)
				for _, n := range []int{600, 3000, 12000} {
					decCase("padding", m, append(hk.Exact(base), bytes.Repeat([]byte{pad}, n)...), true)
				}
			}
			implOnly = false
		}
		// S5 length sweep, implementation only (C01 oracles: no panic, no hang, bounded allocation):
		// every declared length of every element that carries one, with the content present and cut short
		if prop == "C01" {
			implOnly = true
			for _, m := range msgs {
				base := m.mandatory(r.Rng, true)
				for _, s := range m.slots {
					if !s.HasLen {
						continue
					}
					var ls []int
					if s.lenW == 1 {
						for l := 0; l < 256; l++ {
							ls = append(ls, l)
						}
					} else {
						for l := 0; l <= 300; l++ {
							ls = append(ls, l)
						}
						for k := 9; k <= 16; k++ {
							ls = append(ls, 1<<uint(k)-1)
							if k < 16 {
								ls = append(ls, 1<<uint(k), 1<<uint(k)+1)
							}
						}
						if quick {
							ls = ls[:len(ls)-12] // up to 2^12-1 at quick
						}
					}
					for _, l := range ls {
						var full []byte
						if s.Mand {
							for _, t := range m.slots {
								if !t.Mand {
									continue
								}
								if t.Name == s.Name {
									full = append(full, t.validWire(r.Rng, l)...)
								} else {
									tl, _, _ := t.lenRange()
									full = append(full, t.validWire(r.Rng, tl)...)
								}
							}
						} else {
							full = append(hk.Exact(base), s.validWire(r.Rng, l)...)
						}
						decCase("sweep", m, full, true)
						if l > 0 && len(full) > 0 {
							decCase("sweep", m, full[:len(full)-1], false)
							if len(full) >= l {
								decCase("sweep", m, full[:len(full)-l], false)
							}
						}
					}
				}
			}
			implOnly = false
		}
		if !quick {
			// long inputs up to 70 000 octets: implementation only (the oracle), the model is not run on them
			for _, n := range []int{4096, 20000, 65535, 65600, 70000} {
				for _, m := range msgs[:12] {
					in := append(m.mandatory(r.Rng, true), r.Rng.Bytes(n)...)
					decCase("long", m, in[:n], true)
				}
			}
		}
	}
	if wantDec {
		decStreams()
	}
	// ---- C04 metamorphic stream on the implementation alone: the unordered part is a table lookup
	// (last duplicate wins, unknown identifier octets are skipped, order is irrelevant)
	if prop == "C04" || prop == "C03" { // C03: the same inputs feed its decode / re-encode / re-decode oracle
		sameDecode := func(kind string, m msgT, in, ref []byte) {
			decCase("meta-"+kind, m, in, true)
			a, _ := decodeMsg(m.msgInfo, in)
			b, _ := decodeMsg(m.msgInfo, ref)
			site := "nasMessage.Decode" + m.Name
			if a.class != b.class || (a.class == "ok" && !eqMsg(a.msg, b.msg)) {
				fail(r, "C04", site, kind, hk.Hex(in), "decodes differently from "+hk.Hex(ref)+" ("+a.class+" vs "+b.class+")")
			}
		}
		cat := func(parts ...[]byte) []byte {
			var o []byte
			for _, x := range parts {
				o = append(o, x...)
			}
			return o
		}
		for _, m := range msgs {
			base := m.mandatory(r.Rng, true)
			var opts []slot
			used := map[int]bool{}
			for _, s := range m.slots {
				if !s.Mand {
					opts = append(opts, s)
					used[s.Iei] = true
				}
			}
			unknown := byte(0)
			for u := 1; u < 128; u++ {
				if !used[u] {
					unknown = byte(u)
					break
				}
			}
			pair := func(s slot) (lo, hi []byte) {
				mn, mx, set := s.lenRange()
				l1, l2 := mn, mx
				if set != nil {
					l1, l2 = set[0], set[len(set)-1]
				} else if mx > mn+40 {
					l2 = mn + 40
				}
				return s.validWire(r.Rng, l1), s.validWire(r.Rng, l2)
			}
			for i, s := range opts {
				lo, hi := pair(s)
				sameDecode("duplicate-not-last", m, cat(base, hi, lo), cat(base, lo))
				sameDecode("duplicate-not-last", m, cat(base, lo, hi), cat(base, hi))
				sameDecode("unknown-not-skipped", m, cat(base, []byte{unknown}, hi), cat(base, hi))
				sameDecode("unknown-not-skipped", m, cat(base, lo, []byte{unknown}), cat(base, lo))
				if i+1 < len(opts) {
					lo2, _ := pair(opts[i+1])
					sameDecode("order-matters", m, cat(base, lo2, hi), cat(base, hi, lo2))
					if i+2 < len(opts) {
						lo3, _ := pair(opts[i+2])
						sameDecode("duplicate-not-last", m, cat(base, hi, lo2, lo3, lo), cat(base, lo2, lo3, lo))
					}
				}
			}
		}
	}
	// ---- encode cases (C02, C04, C05 oracles; correspondence of encode_def)
	encCase := func(stream string, m msgT, mv []*ie, wf bool) {
		obj := m.New()
		setMsg(obj, mv)
		// the model sees the message the Go struct actually holds (a generated Len that does not fit
		// the struct's uint8 Len field is truncated by the assignment, array contents are padded)
		mv = getMsg(obj)
		cls, out := encodeObj(m.msgInfo, obj, nil)
		id := r.NextID()
		obs := "EErr"
		switch cls {
		case "ok":
			obs = "EOk " + hk.CoqBytes(out)
		case "panic":
			obs = "EPanic"
		}
		desc := fmt.Sprintf("Encode%s %s", m.Name, coqMsg(mv))
		r.AddCase(fmt.Sprintf("CEnc %d %q %s (%s)", id, m.Name, coqMsg(mv), obs), desc)
		key := ""
		if wf {
			key = desc
		}
		r.Count(stream, key)
		r.Dist["enc_"+cls]++
		site := "nasMessage.Encode" + m.Name
		if !wf {
			return
		}
		if cls != "ok" {
			fail(r, "C02", site, "encode-"+cls, desc, "encoding a well-formed message failed")
			return
		}
		// C04: independent formatter from the table
		want := specFormat(m, mv)
		if !bytes.Equal(out, want) {
			fail(r, "C04", site, "format", desc, "encoder output "+hk.Hex(out)+" differs from the table-driven format "+hk.Hex(want))
		}
		res, _ := decodeMsg(m.msgInfo, out)
		if res.class != "ok" || !eqMsg(res.msg, mv) {
			fail(r, "C02", site, "roundtrip", desc, "decode(encode(m)) = "+res.class+" "+coqMsg(res.msg))
		}
		if len(desc) < 300 {
			r.Sample(map[string]string{"call": "Encode" + m.Name, "message": coqMsg(mv), "bytes": hk.Hex(out)})
		}
	}
	// directed presence patterns: each optional element alone (so it is the LAST element of the message),
	// and every prefix of the optional list (earlier present, later absent)
	if wantEnc {
		for _, m := range msgs {
			var optIdx []int
			for i, s := range m.slots {
				if !s.Mand {
					optIdx = append(optIdx, i)
				}
			}
			for k, oi := range optIdx {
				full := wfMessage(r.Rng, m, false, true)
				alone := make([]*ie, len(full))
				prefix := make([]*ie, len(full))
				for i, s := range m.slots {
					if s.Mand {
						alone[i], prefix[i] = full[i], full[i]
					}
				}
				alone[oi] = full[oi]
				for _, pj := range optIdx[:k+1] {
					prefix[pj] = full[pj]
				}
				encCase("wf-directed", m, alone, true)
				if k > 0 {
					encCase("wf-directed", m, prefix, true)
				}
			}
		}
	}
	// directed lengths: every element that carries a length, at the boundaries of its range and around
	// the one-octet / two-octet limits, in an otherwise minimal well-formed message
	if wantEnc {
		for _, m := range msgs {
			for si, s := range m.slots {
				if !s.HasLen {
					continue
				}
				mn, mx, set := s.lenRange()
				cands := map[int]bool{mn: true, mn + 1: true, mx - 1: true, mx: true, (mn + mx) / 2: true, 127: true, 128: true, 255: true, 256: true, 257: true}
				for _, x := range set {
					cands[x] = true
				}
				var ls []int
				for l := range cands {
					if s.lenOK(l) && (s.isBuf || l <= s.cap) && (l <= 3000 || !quick) {
						ls = append(ls, l)
					}
				}
				sort.Ints(ls)
				for _, l := range ls {
					mv := make([]*ie, len(m.slots))
					base := wfMessage(r.Rng, m, true, true)
					for i, t := range m.slots {
						if t.Mand || i == si {
							mv[i] = base[i]
						}
					}
					e := mv[si]
					e.Len = uint16(l)
					if s.isBuf {
						e.Oct = r.Rng.Bytes(s.contentLen(l))
					} else if s.cap > 0 {
						e.Oct = make([]byte, s.cap)
						copy(e.Oct, r.Rng.Bytes(s.contentLen(l)))
					}
					encCase("wf-lengths", m, mv, true)
				}
			}
		}
	}
	nenc := r.N(700, 9000)
	if !wantEnc {
		nenc = 0
	}
	for i := 0; i < nenc; i++ {
		m := msgs[i%len(msgs)]
		mv := wfMessage(r.Rng, m, i < 2*len(msgs), i%len(msgs) == i/len(msgs)%len(msgs))
		encCase("wf-messages", m, mv, true)
	}
	// ill-formed message values: the model must agree on the result class (e.g. Octet[:Len] with Len > cap panics)
	for i := 0; i < r.N(200, 2000) && wantEnc; i++ {
		m := msgs[r.Rng.Intn(len(msgs))]
		mv := wfMessage(r.Rng, m, false, false)
		for _, e := range mv {
			if e != nil && r.Rng.Intn(3) == 0 {
				e.Len = uint16(r.Rng.Intn(300))
			}
		}
		encCase("illformed-messages", m, mv, false)
	}
	r.Extra["max_alloc_over_bound"] = maxAllocRatio
	r.Extra["alloc_measurements_repeated"] = remeasured
	r.Extra["messages"] = len(msgs)
	if wantDisp {
		dispatchCases(r)
	}
}

// wfMessage builds a well-formed message value (C02's hypothesis): declared length = content length
// within bounds, identifiers of the definition, mandatory Iei = 0, arrays zero beyond Len.
func wfMessage(r *hk.Rng, m msgT, boundary bool, all bool) []*ie {
	var mv []*ie
	for _, s := range m.slots {
		if !s.Mand && !all && r.Intn(2) == 0 {
			mv = append(mv, nil)
			continue
		}
		e := &ie{}
		l := 0
		if s.HasLen {
			l = s.pickLen(r)
			if boundary {
				mn, mx, set := s.lenRange()
				if set != nil {
					l = set[r.Intn(len(set))]
				} else if r.Bool() {
					l = mn
				} else if mx <= 2000 {
					l = mx
				}
			}
			e.Len = uint16(l)
		}
		switch {
		case s.isBuf:
			e.Oct = r.Bytes(s.contentLen(l))
		case s.cap > 0:
			e.Oct = make([]byte, s.cap)
			copy(e.Oct, r.Bytes(s.contentLen(l)))
		}
		if !s.Mand {
			if s.Val == "half" {
				e.Oct = []byte{byte(s.Iei<<4) | r.Byte()&0x0f}
			} else if s.hasIei {
				e.Iei = uint8(s.Iei)
			}
		}
		mv = append(mv, e)
	}
	return mv
}

// specFormat: header + mandatory elements in table order in V/LV/LV-E form, then the present
// optional elements in table order as T / TV / TLV / TLV-E (independent of the library's encoder)
func specFormat(m msgT, mv []*ie) []byte {
	var b []byte
	emit := func(s slot, e *ie) {
		if !s.Mand && s.Val != "half" {
			b = append(b, byte(s.Iei))
		}
		if s.HasLen {
			if s.lenW == 2 {
				b = append(b, byte(e.Len>>8), byte(e.Len))
			} else {
				b = append(b, byte(e.Len))
			}
		}
		n := s.contentLen(int(e.Len))
		if s.Val == "half" {
			n = 1
		}
		if n > len(e.Oct) {
			n = len(e.Oct)
		}
		b = append(b, e.Oct[:n]...)
	}
	for i, s := range m.slots {
		if s.Mand {
			emit(s, mv[i])
		}
	}
	for i, s := range m.slots {
		if !s.Mand && mv[i] != nil {
			emit(s, mv[i])
		}
	}
	return b
}

var _ = nas.NewMessage
