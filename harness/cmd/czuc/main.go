// Harness of check CZUC (the ZUC part of C06 / C07 / C08): zuc.Zuc, security.NEA3,
// security.NIA3 and security.NASEncrypt / NASMacCalculate with algorithm identity 3.
//
// Every call is (a) compared on the spot with an independent reference written from the
// ETSI/SAGE documents (arithmetic mod 2^31-1 on uint64, bit-by-bit EEA3 / EIA3) and with the
// algebraic laws of C08 (direct oracle, r.Fail), and (b) printed as a Coq case that is
// replayed on the model CZUC/Model.v (correspondence).
package main

import (
	"bytes"
	"encoding/binary"
	"encoding/hex"
	"fmt"
	"strings"

	"github.com/free5gc/nas/security"
	"github.com/free5gc/nas/security/zuc"

	"verifharness/hk"
)

func main() { hk.Main("CZUC", run) }

// ---------------------------------------------------------------- reference (from the documents)

var refS0 = [256]uint32{
	0x3e, 0x72, 0x5b, 0x47, 0xca, 0xe0, 0x00, 0x33, 0x04, 0xd1, 0x54, 0x98, 0x09, 0xb9, 0x6d, 0xcb,
	0x7b, 0x1b, 0xf9, 0x32, 0xaf, 0x9d, 0x6a, 0xa5, 0xb8, 0x2d, 0xfc, 0x1d, 0x08, 0x53, 0x03, 0x90,
	0x4d, 0x4e, 0x84, 0x99, 0xe4, 0xce, 0xd9, 0x91, 0xdd, 0xb6, 0x85, 0x48, 0x8b, 0x29, 0x6e, 0xac,
	0xcd, 0xc1, 0xf8, 0x1e, 0x73, 0x43, 0x69, 0xc6, 0xb5, 0xbd, 0xfd, 0x39, 0x63, 0x20, 0xd4, 0x38,
	0x76, 0x7d, 0xb2, 0xa7, 0xcf, 0xed, 0x57, 0xc5, 0xf3, 0x2c, 0xbb, 0x14, 0x21, 0x06, 0x55, 0x9b,
	0xe3, 0xef, 0x5e, 0x31, 0x4f, 0x7f, 0x5a, 0xa4, 0x0d, 0x82, 0x51, 0x49, 0x5f, 0xba, 0x58, 0x1c,
	0x4a, 0x16, 0xd5, 0x17, 0xa8, 0x92, 0x24, 0x1f, 0x8c, 0xff, 0xd8, 0xae, 0x2e, 0x01, 0xd3, 0xad,
	0x3b, 0x4b, 0xda, 0x46, 0xeb, 0xc9, 0xde, 0x9a, 0x8f, 0x87, 0xd7, 0x3a, 0x80, 0x6f, 0x2f, 0xc8,
	0xb1, 0xb4, 0x37, 0xf7, 0x0a, 0x22, 0x13, 0x28, 0x7c, 0xcc, 0x3c, 0x89, 0xc7, 0xc3, 0x96, 0x56,
	0x07, 0xbf, 0x7e, 0xf0, 0x0b, 0x2b, 0x97, 0x52, 0x35, 0x41, 0x79, 0x61, 0xa6, 0x4c, 0x10, 0xfe,
	0xbc, 0x26, 0x95, 0x88, 0x8a, 0xb0, 0xa3, 0xfb, 0xc0, 0x18, 0x94, 0xf2, 0xe1, 0xe5, 0xe9, 0x5d,
	0xd0, 0xdc, 0x11, 0x66, 0x64, 0x5c, 0xec, 0x59, 0x42, 0x75, 0x12, 0xf5, 0x74, 0x9c, 0xaa, 0x23,
	0x0e, 0x86, 0xab, 0xbe, 0x2a, 0x02, 0xe7, 0x67, 0xe6, 0x44, 0xa2, 0x6c, 0xc2, 0x93, 0x9f, 0xf1,
	0xf6, 0xfa, 0x36, 0xd2, 0x50, 0x68, 0x9e, 0x62, 0x71, 0x15, 0x3d, 0xd6, 0x40, 0xc4, 0xe2, 0x0f,
	0x8e, 0x83, 0x77, 0x6b, 0x25, 0x05, 0x3f, 0x0c, 0x30, 0xea, 0x70, 0xb7, 0xa1, 0xe8, 0xa9, 0x65,
	0x8d, 0x27, 0x1a, 0xdb, 0x81, 0xb3, 0xa0, 0xf4, 0x45, 0x7a, 0x19, 0xdf, 0xee, 0x78, 0x34, 0x60,
}

var refS1 = [256]uint32{
	0x55, 0xc2, 0x63, 0x71, 0x3b, 0xc8, 0x47, 0x86, 0x9f, 0x3c, 0xda, 0x5b, 0x29, 0xaa, 0xfd, 0x77,
	0x8c, 0xc5, 0x94, 0x0c, 0xa6, 0x1a, 0x13, 0x00, 0xe3, 0xa8, 0x16, 0x72, 0x40, 0xf9, 0xf8, 0x42,
	0x44, 0x26, 0x68, 0x96, 0x81, 0xd9, 0x45, 0x3e, 0x10, 0x76, 0xc6, 0xa7, 0x8b, 0x39, 0x43, 0xe1,
	0x3a, 0xb5, 0x56, 0x2a, 0xc0, 0x6d, 0xb3, 0x05, 0x22, 0x66, 0xbf, 0xdc, 0x0b, 0xfa, 0x62, 0x48,
	0xdd, 0x20, 0x11, 0x06, 0x36, 0xc9, 0xc1, 0xcf, 0xf6, 0x27, 0x52, 0xbb, 0x69, 0xf5, 0xd4, 0x87,
	0x7f, 0x84, 0x4c, 0xd2, 0x9c, 0x57, 0xa4, 0xbc, 0x4f, 0x9a, 0xdf, 0xfe, 0xd6, 0x8d, 0x7a, 0xeb,
	0x2b, 0x53, 0xd8, 0x5c, 0xa1, 0x14, 0x17, 0xfb, 0x23, 0xd5, 0x7d, 0x30, 0x67, 0x73, 0x08, 0x09,
	0xee, 0xb7, 0x70, 0x3f, 0x61, 0xb2, 0x19, 0x8e, 0x4e, 0xe5, 0x4b, 0x93, 0x8f, 0x5d, 0xdb, 0xa9,
	0xad, 0xf1, 0xae, 0x2e, 0xcb, 0x0d, 0xfc, 0xf4, 0x2d, 0x46, 0x6e, 0x1d, 0x97, 0xe8, 0xd1, 0xe9,
	0x4d, 0x37, 0xa5, 0x75, 0x5e, 0x83, 0x9e, 0xab, 0x82, 0x9d, 0xb9, 0x1c, 0xe0, 0xcd, 0x49, 0x89,
	0x01, 0xb6, 0xbd, 0x58, 0x24, 0xa2, 0x5f, 0x38, 0x78, 0x99, 0x15, 0x90, 0x50, 0xb8, 0x95, 0xe4,
	0xd0, 0x91, 0xc7, 0xce, 0xed, 0x0f, 0xb4, 0x6f, 0xa0, 0xcc, 0xf0, 0x02, 0x4a, 0x79, 0xc3, 0xde,
	0xa3, 0xef, 0xea, 0x51, 0xe6, 0x6b, 0x18, 0xec, 0x1b, 0x2c, 0x80, 0xf7, 0x74, 0xe7, 0xff, 0x21,
	0x5a, 0x6a, 0x54, 0x1e, 0x41, 0x31, 0x92, 0x35, 0xc4, 0x33, 0x07, 0x0a, 0xba, 0x7e, 0x0e, 0x34,
	0x88, 0xb1, 0x98, 0x7c, 0xf3, 0x3d, 0x60, 0x6c, 0x7b, 0xca, 0xd3, 0x1f, 0x32, 0x65, 0x04, 0x28,
	0x64, 0xbe, 0x85, 0x9b, 0x2f, 0x59, 0x8a, 0xd7, 0xb0, 0x25, 0xac, 0xaf, 0x12, 0x03, 0xe2, 0xf2,
}

var refD = [16]uint64{
	0x44d7, 0x26bc, 0x626b, 0x135e, 0x5789, 0x35e2, 0x7135, 0x09af, 0x4d78, 0x2f13, 0x6bc4, 0x1af1, 0x5e26, 0x3c4d, 0x789a, 0x47ac,
}

const p31 = uint64(1)<<31 - 1

type refState struct {
	s      [16]uint64
	r1, r2 uint32
}

func nz(x uint64) uint64 {
	if x == 0 {
		return p31
	}
	return x
}

func (z *refState) feedback() uint64 {
	s := &z.s
	return ((s[15]<<15)%p31 + (s[13]<<17)%p31 + (s[10]<<21)%p31 + (s[4]<<20)%p31 + (s[0]<<8)%p31 + s[0]) % p31
}

func (z *refState) shift(s16 uint64) {
	copy(z.s[:15], z.s[1:])
	z.s[15] = s16
}

func rotl(x uint32, k uint) uint32 { return x<<k | x>>(32-k) }

func refS(x uint32) uint32 {
	return refS0[x>>24]<<24 | refS1[(x>>16)&0xff]<<16 | refS0[(x>>8)&0xff]<<8 | refS1[x&0xff]
}

// one clock: bit reorganisation and F; returns W and X3
func (z *refState) brF() (w, x3 uint32) {
	s := &z.s
	x0 := uint32(s[15]>>15)<<16 | uint32(s[14]&0xffff)
	x1 := uint32(s[11]&0xffff)<<16 | uint32(s[9]>>15)
	x2 := uint32(s[7]&0xffff)<<16 | uint32(s[5]>>15)
	x3 = uint32(s[2]&0xffff)<<16 | uint32(s[0]>>15)
	w = (x0 ^ z.r1) + z.r2
	w1 := z.r1 + x1
	w2 := z.r2 ^ x2
	a := w1<<16 | w2>>16
	b := w2<<16 | w1>>16
	z.r1 = refS(a ^ rotl(a, 2) ^ rotl(a, 10) ^ rotl(a, 18) ^ rotl(a, 24))
	z.r2 = refS(b ^ rotl(b, 8) ^ rotl(b, 14) ^ rotl(b, 22) ^ rotl(b, 30))
	return w, x3
}

func refZuc(k, iv []byte, n int) []uint32 {
	z := &refState{}
	for i := 0; i < 16; i++ {
		z.s[i] = uint64(k[i])<<23 | refD[i]<<8 | uint64(iv[i])
	}
	for i := 0; i < 32; i++ {
		w, _ := z.brF()
		v := z.feedback()
		z.shift(nz((v + uint64(w>>1)) % p31))
	}
	z.brF()
	z.shift(nz(z.feedback()))
	out := make([]uint32, n)
	for i := range out {
		w, x3 := z.brF()
		out[i] = w ^ x3
		z.shift(nz(z.feedback()))
	}
	return out
}

func ksBit(z []uint32, i int) uint32 { return (z[i/32] >> (31 - uint(i%32))) & 1 }
func msgBit(m []byte, i int) uint32  { return uint32(m[i/8]>>(7-uint(i%8))) & 1 }

// 128-EEA3 on the first length bits of ibs; the remaining bits of the result are zero
func refEEA3(ck []byte, count uint32, bearer, dir uint8, ibs []byte, length int) []byte {
	iv := make([]byte, 16)
	binary.BigEndian.PutUint32(iv, count)
	iv[4] = bearer<<3 | dir<<2
	copy(iv[8:], iv[:8])
	z := refZuc(ck, iv, (length+31)/32)
	out := make([]byte, len(ibs))
	for i := 0; i < length; i++ {
		if msgBit(ibs, i)^ksBit(z, i) == 1 {
			out[i/8] |= 1 << (7 - uint(i%8))
		}
	}
	return out
}

// 128-EIA3
func refEIA3(ik []byte, count uint32, bearer, dir uint8, m []byte, length int) uint32 {
	iv := make([]byte, 16)
	binary.BigEndian.PutUint32(iv, count)
	iv[4] = bearer << 3
	copy(iv[8:], iv[:8])
	iv[8] ^= dir << 7
	iv[14] ^= dir << 7
	L := (length+64+31)/32
	z := refZuc(ik, iv, L)
	word := func(i int) uint32 {
		var w uint32
		for j := 0; j < 32; j++ {
			w = w<<1 | ksBit(z, i+j)
		}
		return w
	}
	var t uint32
	for i := 0; i < length; i++ {
		if msgBit(m, i) == 1 {
			t ^= word(i)
		}
	}
	t ^= word(length)
	return t ^ word(32*(L-1))
}

// ---------------------------------------------------------------- printing

func coqWords(w []uint32) string {
	var sb strings.Builder
	sb.WriteByte('[')
	for i, x := range w {
		if i > 0 {
			sb.WriteByte(';')
		}
		fmt.Fprintf(&sb, "%d", x)
	}
	sb.WriteByte(']')
	return sb.String()
}

type env struct {
	r *hk.Run
}

func (e *env) fail(site, class string, input map[string]interface{}, detail string) {
	e.r.Fail(hk.Failure{Site: site, Class: class, Input: input, Detail: detail})
}

func lenBucket(n int) string {
	switch {
	case n == 0:
		return "octets_000"
	case n < 8:
		return "octets_001-007"
	case n < 32:
		return "octets_008-031"
	case n < 128:
		return "octets_032-127"
	}
	return "octets_128+"
}

// ---------------------------------------------------------------- zuc.Zuc

func (e *env) doZuc(stream string, k, iv []byte, n uint32) {
	r := e.r
	id := r.NextID()
	in := map[string]interface{}{"k": hk.Hex(k), "iv": hk.Hex(iv), "n": n}
	k0, iv0 := hk.Exact(k), hk.Exact(iv)
	var out []uint32
	panicked, pv := hk.Catch(func() { out = zuc.Zuc(k, iv, n) })
	obs := "OPanic"
	wellFormed := len(k) >= 16 && len(iv) >= 16
	if !panicked {
		obs = "OWords " + coqWords(out)
		if len(out) != int(n) {
			e.fail("zuc.Zuc", "length", in, fmt.Sprintf("%d words returned, want %d", len(out), n))
		}
		if wellFormed {
			want := refZuc(k, iv, int(n))
			for i := range want {
				if i >= len(out) || out[i] != want[i] {
					e.fail("zuc.Zuc", "not-standard", in, fmt.Sprintf("keystream word %d differs from the ZUC v1.6 reference (%08x...)", i, want[i]))
					break
				}
			}
		}
	} else if wellFormed {
		e.fail("zuc.Zuc", "panic", in, fmt.Sprint(pv))
	}
	if !bytes.Equal(k, k0) || !bytes.Equal(iv, iv0) {
		e.fail("zuc.Zuc", "mutation", in, "key or iv modified by the call")
	}
	r.AddCase(fmt.Sprintf("(%d, CZuc %s %s %d, %s)", id, hk.CoqBytes(k), hk.CoqBytes(iv), n, obs),
		fmt.Sprintf("zuc.Zuc(k=%x, iv=%x, n=%d)", k, iv, n))
	key := ""
	if n > 0 && wellFormed {
		key = fmt.Sprintf("z%x%x%d", k, iv, n)
	}
	r.Count(stream, key)
	r.Dist[fmt.Sprintf("zuc_words_%s", lenBucket(int(n)))]++
	r.Sample(map[string]interface{}{"call": "zuc.Zuc", "k": hk.Hex(k), "iv": hk.Hex(iv), "n": n, "out": fmt.Sprintf("%08x", out)})
}

// ---------------------------------------------------------------- security.NEA3

func (e *env) doNea3(stream string, ck [16]byte, count uint32, bearer, dir uint8, ibs []byte, length uint32) {
	r := e.r
	id := r.NextID()
	in := map[string]interface{}{"ck": hk.Hex(ck[:]), "count": count, "bearer": bearer, "direction": dir, "ibs": hk.Hex(ibs), "length": length}
	ibs0 := hk.Exact(ibs)
	var out []byte
	var err error
	panicked, pv := hk.Catch(func() { out, err = security.NEA3(ck, count, bearer, dir, ibs, length) })
	inDomain := uint64(length) <= 8*uint64(len(ibs))
	obs := "OPanic"
	switch {
	case panicked:
		if inDomain {
			e.fail("security.NEA3", "panic", in, fmt.Sprint(pv))
		}
	case err != nil:
		obs = "OErr"
		e.fail("security.NEA3", "error", in, err.Error())
	default:
		obs = "OBytes " + hk.CoqBytes(out)
		if len(out) != len(ibs) {
			e.fail("security.NEA3", "length", in, fmt.Sprintf("%d octets returned for %d", len(out), len(ibs)))
		}
		if inDomain && bearer < 32 && dir < 2 {
			if want := refEEA3(ck[:], count, bearer, dir, ibs, int(length)); !bytes.Equal(out, want) {
				e.fail("security.NEA3", "not-standard", in, fmt.Sprintf("got %x, 128-EEA3 reference gives %x", out, want))
			}
		}
	}
	if !bytes.Equal(ibs, ibs0) {
		e.fail("security.NEA3", "mutation", in, "input modified by the call")
	}
	r.AddCase(fmt.Sprintf("(%d, CNea3 %s %d %d %d %s %d, %s)", id, hk.CoqBytes(ck[:]), count, bearer, dir, hk.CoqBytes(ibs), length, obs),
		fmt.Sprintf("security.NEA3(ck=%x, count=%d, bearer=%d, dir=%d, ibs=%x, length=%d)", ck, count, bearer, dir, ibs, length))
	key := ""
	if length > 0 && inDomain {
		key = fmt.Sprintf("e%x%d.%d.%d.%x.%d", ck, count, bearer, dir, ibs, length)
	}
	r.Count(stream, key)
	r.Dist[fmt.Sprintf("nea3_bits_mod32_%02d", length%32)]++
	r.Dist["nea3_"+lenBucket(len(ibs))]++
	r.Sample(map[string]interface{}{"call": "security.NEA3", "in": in, "out": hk.Hex(out)})
}

// ---------------------------------------------------------------- security.NIA3

func (e *env) doNia3(stream string, ik [16]byte, count uint32, bearer, dir uint8, msg []byte, length uint32) {
	r := e.r
	id := r.NextID()
	in := map[string]interface{}{"ik": hk.Hex(ik[:]), "count": count, "bearer": bearer, "direction": dir, "msg": hk.Hex(msg), "length": length}
	msg0 := hk.Exact(msg)
	if hk.BeyondLen(msg, func(w []byte) { _, _ = security.NIA3(ik, count, bearer, dir, w, length) }) {
		e.fail("security.NIA3", "writes-beyond-message", in, "octets of the caller's array beyond len(msg) were overwritten")
	}
	var out []byte
	var err error
	panicked, pv := hk.Catch(func() { out, err = security.NIA3(ik, count, bearer, dir, msg, length) })
	inDomain := uint64(length) <= 8*uint64(len(msg))
	obs := "OPanic"
	switch {
	case panicked:
		if inDomain {
			e.fail("security.NIA3", "panic", in, fmt.Sprint(pv))
		}
	case err != nil:
		obs = "OErr"
		e.fail("security.NIA3", "error", in, err.Error())
	default:
		obs = "OBytes " + hk.CoqBytes(out)
		if len(out) != 4 {
			e.fail("security.NIA3", "mac-length", in, fmt.Sprintf("MAC has %d octets", len(out)))
		} else if inDomain && bearer < 32 && dir < 2 {
			if want := refEIA3(ik[:], count, bearer, dir, msg, int(length)); binary.BigEndian.Uint32(out) != want {
				e.fail("security.NIA3", "not-standard", in, fmt.Sprintf("got %x, 128-EIA3 reference gives %08x", out, want))
			}
		}
	}
	if !bytes.Equal(msg, msg0) {
		e.fail("security.NIA3", "mutation", in, "message modified by the call")
	}
	r.AddCase(fmt.Sprintf("(%d, CNia3 %s %d %d %d %s %d, %s)", id, hk.CoqBytes(ik[:]), count, bearer, dir, hk.CoqBytes(msg), length, obs),
		fmt.Sprintf("security.NIA3(ik=%x, count=%d, bearer=%d, dir=%d, msg=%x, length=%d)", ik, count, bearer, dir, msg, length))
	key := ""
	if length > 0 && inDomain {
		key = fmt.Sprintf("i%x%d.%d.%d.%x.%d", ik, count, bearer, dir, msg, length)
	}
	r.Count(stream, key)
	r.Dist[fmt.Sprintf("nia3_bits_mod32_%02d", length%32)]++
	r.Dist["nia3_"+lenBucket(len(msg))]++
	r.Sample(map[string]interface{}{"call": "security.NIA3", "in": in, "out": hk.Hex(out)})
}

// ---------------------------------------------------------------- security.NASEncrypt(3, ...)

// enc3 runs NASEncrypt on a copy and returns the resulting payload
func enc3(key [16]byte, count uint32, bearer, dir uint8, p []byte) (out []byte, err error, panicked bool, pv interface{}) {
	out = hk.Exact(p)
	panicked, pv = hk.Catch(func() { err = security.NASEncrypt(security.AlgCiphering128NEA3, key, count, bearer, dir, out) })
	return
}

func (e *env) doEnc(stream string, key [16]byte, count uint32, bearer, dir uint8, payload []byte) {
	r := e.r
	id := r.NextID()
	in := map[string]interface{}{"alg": 3, "key": hk.Hex(key[:]), "count": count, "bearer": bearer, "direction": dir, "payload": hk.Hex(payload)}
	if hk.BeyondLen(payload, func(w []byte) { _ = security.NASEncrypt(security.AlgCiphering128NEA3, key, count, bearer, dir, w) }) {
		e.fail("security.NASEncrypt", "writes-beyond-payload", in, "octets of the caller's array beyond len(payload) were overwritten")
	}
	key0 := key
	out, err, panicked, pv := enc3(key, count, bearer, dir, payload)
	valid := bearer <= 31 && dir <= 1
	obs := "OPanic"
	switch {
	case panicked:
		e.fail("security.NASEncrypt", "panic", in, fmt.Sprint(pv))
	case err != nil:
		obs = "OErr"
		if valid {
			e.fail("security.NASEncrypt", "error", in, err.Error())
		}
		if !bytes.Equal(out, payload) {
			e.fail("security.NASEncrypt", "mutation", in, "payload changed although an error was returned")
		}
	default:
		obs = "OBytes " + hk.CoqBytes(out)
		if !valid {
			e.fail("security.NASEncrypt", "validation", in, "bearer > 31 or direction > 1 accepted")
			break
		}
		if len(out) != len(payload) {
			e.fail("security.NASEncrypt", "length", in, "length changed")
		}
		// = 128-EEA3 with LENGTH = 8 * octets
		if want := refEEA3(key[:], count, bearer, dir, payload, 8*len(payload)); !bytes.Equal(out, want) {
			e.fail("security.NASEncrypt", "not-standard", in, fmt.Sprintf("got %x, 128-EEA3 reference gives %x", out, want))
		}
		// involution
		back, err2, p2, _ := enc3(key, count, bearer, dir, out)
		if p2 || err2 != nil || !bytes.Equal(back, payload) {
			e.fail("security.NASEncrypt", "involution", in, fmt.Sprintf("enc(enc(p)) = %x", back))
		}
		// the ciphertext of a prefix is the prefix of the ciphertext
		for _, n := range []int{0, len(payload) / 2, len(payload) - 1, r.Rng.Intn(len(payload) + 1)} {
			if n < 0 {
				continue
			}
			pre, err3, p3, _ := enc3(key, count, bearer, dir, payload[:n])
			if p3 || err3 != nil || !bytes.Equal(pre, out[:n]) {
				e.fail("security.NASEncrypt", "prefix", in, fmt.Sprintf("enc(p[:%d]) = %x, enc(p)[:%d] = %x", n, pre, n, out[:n]))
				break
			}
		}
		// ciphertext xor plaintext does not depend on the plaintext
		ks, err4, p4, _ := enc3(key, count, bearer, dir, make([]byte, len(payload)))
		if p4 || err4 != nil {
			e.fail("security.NASEncrypt", "keystream-independence", in, "all-zero payload fails")
		} else {
			for i := range payload {
				if out[i]^payload[i] != ks[i] {
					e.fail("security.NASEncrypt", "keystream-independence", in, fmt.Sprintf("octet %d: c xor p = %02x, keystream %02x", i, out[i]^payload[i], ks[i]))
					break
				}
			}
		}
	}
	if key != key0 {
		e.fail("security.NASEncrypt", "mutation", in, "key modified")
	}
	r.AddCase(fmt.Sprintf("(%d, CEnc %s %d %d %d %s, %s)", id, hk.CoqBytes(key[:]), count, bearer, dir, hk.CoqBytes(payload), obs),
		fmt.Sprintf("security.NASEncrypt(3, key=%x, count=%d, bearer=%d, dir=%d, payload=%x)", key, count, bearer, dir, payload))
	k := ""
	if len(payload) > 0 && valid {
		k = fmt.Sprintf("E%x%d.%d.%d.%x", key, count, bearer, dir, payload)
	}
	r.Count(stream, k)
	r.Dist["enc_"+lenBucket(len(payload))]++
	r.Dist[fmt.Sprintf("bearer_%02d_dir_%d", bearer&31, dir&1)]++
	r.Sample(map[string]interface{}{"call": "security.NASEncrypt", "in": in, "out": hk.Hex(out)})
}

// ---------------------------------------------------------------- security.NASMacCalculate(3, ...)

func (e *env) doMac(stream string, key [16]byte, count uint32, bearer, dir uint8, msg []byte) {
	r := e.r
	id := r.NextID()
	in := map[string]interface{}{"alg": 3, "key": hk.Hex(key[:]), "count": count, "bearer": bearer, "direction": dir, "msg": hk.Hex(msg)}
	if hk.BeyondLen(msg, func(w []byte) {
		_, _ = security.NASMacCalculate(security.AlgIntegrity128NIA3, key, count, bearer, dir, w)
	}) {
		e.fail("security.NASMacCalculate", "writes-beyond-message", in, "octets of the caller's array beyond len(msg) were overwritten")
	}
	msg0 := hk.Exact(msg)
	key0 := key
	var out []byte
	var err error
	panicked, pv := hk.Catch(func() { out, err = security.NASMacCalculate(security.AlgIntegrity128NIA3, key, count, bearer, dir, msg) })
	valid := bearer <= 31 && dir <= 1
	obs := "OPanic"
	switch {
	case panicked:
		e.fail("security.NASMacCalculate", "panic", in, fmt.Sprint(pv))
	case err != nil:
		obs = "OErr"
		if valid {
			e.fail("security.NASMacCalculate", "error", in, err.Error())
		}
	default:
		obs = "OBytes " + hk.CoqBytes(out)
		if !valid {
			e.fail("security.NASMacCalculate", "validation", in, "bearer > 31 or direction > 1 accepted")
			break
		}
		if len(out) != 4 {
			e.fail("security.NASMacCalculate", "mac-length", in, fmt.Sprintf("MAC has %d octets", len(out)))
			break
		}
		if want := refEIA3(key[:], count, bearer, dir, msg, 8*len(msg)); binary.BigEndian.Uint32(out) != want {
			e.fail("security.NASMacCalculate", "not-standard", in, fmt.Sprintf("got %x, 128-EIA3 reference gives %08x", out, want))
		}
		var again []byte
		p2, _ := hk.Catch(func() { again, _ = security.NASMacCalculate(security.AlgIntegrity128NIA3, key, count, bearer, dir, msg) })
		if p2 || !bytes.Equal(again, out) {
			e.fail("security.NASMacCalculate", "determinism", in, "second call gives a different MAC")
		}
	}
	if !bytes.Equal(msg, msg0) || key != key0 {
		e.fail("security.NASMacCalculate", "mutation", in, "key or message modified by the call")
	}
	r.AddCase(fmt.Sprintf("(%d, CMac %s %d %d %d %s, %s)", id, hk.CoqBytes(key[:]), count, bearer, dir, hk.CoqBytes(msg), obs),
		fmt.Sprintf("security.NASMacCalculate(3, key=%x, count=%d, bearer=%d, dir=%d, msg=%x)", key, count, bearer, dir, msg))
	k := ""
	if len(msg) > 0 && valid {
		k = fmt.Sprintf("M%x%d.%d.%d.%x", key, count, bearer, dir, msg)
	}
	r.Count(stream, k)
	r.Dist["mac_"+lenBucket(len(msg))]++
	r.Dist[fmt.Sprintf("bearer_%02d_dir_%d", bearer&31, dir&1)]++
	r.Sample(map[string]interface{}{"call": "security.NASMacCalculate", "in": in, "out": hk.Hex(out)})
}

// ---------------------------------------------------------------- generators

func key16(b []byte) (k [16]byte) { copy(k[:], b); return }

func singleBit(i int) []byte {
	b := make([]byte, 16)
	b[i/8] = 0x80 >> uint(i%8)
	return b
}

func fill(v byte) []byte { return bytes.Repeat([]byte{v}, 16) }

var counts = []uint32{0, 1, 1 << 31, 1<<32 - 1}

func (e *env) count(i int) uint32 {
	if i%5 < 4 {
		return counts[i%5]
	}
	return uint32(e.r.Rng.Next())
}

// a key: random, all-zero, all-one or a single bit
func (e *env) key(i int) [16]byte {
	switch i % 8 {
	case 0:
		return key16(fill(0))
	case 1:
		return key16(fill(0xff))
	case 2:
		return key16(singleBit(e.r.Rng.Intn(128)))
	}
	return key16(e.r.Rng.Bytes(16))
}

// an N-bit message in ceil(N/8) + extra octets; pad = value of the bits beyond N
func (e *env) bitsMsg(nbits, extra int, pad int) []byte {
	m := e.r.Rng.Bytes((nbits+7)/8 + extra)
	if pad == 2 {
		return m // garbage beyond N
	}
	for i := nbits; i < 8*len(m); i++ {
		if pad == 0 {
			m[i/8] &^= 1 << (7 - uint(i%8))
		} else {
			m[i/8] |= 1 << (7 - uint(i%8))
		}
	}
	return m
}

func run(r *hk.Run) {
	r.SetCoq("From NV Require Import Lib.Base CZUC.Model CZUC.Corr.\nOpen Scope N_scope.", "case")
	e := &env{r: r}
	rng := r.Rng

	// (1) corpus: published vectors (ZUC test sets 1-4, 128-EEA3 set 1, 128-EIA3 sets 1-2)
	unhex := func(s string) []byte {
		b, err := hex.DecodeString(s)
		if err != nil {
			panic(err)
		}
		return b
	}
	e.doZuc("corpus", fill(0), fill(0), 2)
	e.doZuc("corpus", fill(0xff), fill(0xff), 2)
	e.doZuc("corpus", unhex("3d4c4be96a82fdaeb58f641db17b455b"), unhex("84319aa8de6915ca1f6bda6bfbd8c766"), 2)
	e.doZuc("corpus", unhex("4d320bfad4c285bfd6b8bd00f39d8b41"), unhex("52959daba0bf176ece2dc315049eb574"), 2)
	// key / iv pairs for which the LFSR feedback of the first initialisation round is 0 modulo 2^31-1,
	// i.e. the cell must become 2^31-1 ("if s16 = 0 then set s16 = 2^31-1"); found by a meet-in-the-middle search
	zeroFeedback := 0
	for _, kv := range [][2]string{
		{"0f4dca18fd30bb1d6d132cded6237b2e", "871e3f728ecb1971174494d6493c9d5c"},
		{"1f4dca18fe30bb1d6d132cded6237b2e", "771e3f720ecb1971174494d6493c9d5c"},
		{"e560be31e81e69fedaa0eee8b9997f5c", "932999fdd7e593253cd654af4dfad714"},
		{"f560be31e91e69fedaa0eee8b9997f5c", "832999fd57e593253cd654af4dfad714"},
	} {
		k, iv := unhex(kv[0]), unhex(kv[1])
		z := &refState{}
		for i := 0; i < 16; i++ {
			z.s[i] = uint64(k[i])<<23 | refD[i]<<8 | uint64(iv[i])
		}
		w, _ := z.brF()
		if (z.feedback()+uint64(w>>1))%p31 == 0 {
			zeroFeedback++
		}
		e.doZuc("corpus", k, iv, 4)
	}
	// ... and key / iv pairs for which the feedback of working-stage clock n is 0 modulo 2^31-1
	// (n = 0 is the clock whose output is discarded); found by a random search over ~2^31 clocks
	for _, kv := range []struct {
		k, iv string
		n     int
	}{
		{"ffeeb90682dc89e502d591718e117ce2", "1f63f6de6d2210c56be40c339ffbb2b8", 83},
		{"3a5a595c064efa7c95d6e6f4ad098345", "cc88b63d110b2a070b185df846debb10", 185},
		{"cabc566589ecd978b38f5d983dcc8d71", "288cb043057a00c5c73ac8ce1958129a", 310},
	} {
		k, iv := unhex(kv.k), unhex(kv.iv)
		z := &refState{}
		for i := 0; i < 16; i++ {
			z.s[i] = uint64(k[i])<<23 | refD[i]<<8 | uint64(iv[i])
		}
		for i := 0; i < 32; i++ {
			w, _ := z.brF()
			z.shift(nz((z.feedback() + uint64(w>>1)) % p31))
		}
		for i := 0; i < kv.n; i++ {
			z.brF()
			z.shift(nz(z.feedback()))
		}
		z.brF()
		if z.feedback() == 0 {
			zeroFeedback++
		}
		e.doZuc("corpus", k, iv, uint32(kv.n+20))
	}
	r.Extra["zero_feedback_witnesses"] = zeroFeedback
	if zeroFeedback != 7 {
		e.fail("harness", "stale-corpus", map[string]interface{}{"witnesses": zeroFeedback}, "the zero-feedback corpus no longer hits s16 = 0")
	}
	e.doNea3("corpus", key16(unhex("173d14ba5003731d7a60049470f00a29")), 0x66035492, 0xf, 0,
		unhex("6cf65340735552ab0c9752fa6f9025fe0bd675d9005875b200000000"), 193)
	e.doNia3("corpus", key16(fill(0)), 0, 0, 0, make([]byte, 4), 1)
	e.doNia3("corpus", key16(unhex("47054125561eb2dda94059da05097850")), 0x561eb2dd, 0x14, 0, make([]byte, 12), 90)

	// (2) directed
	// every bearer x both directions, through all four entry points
	for b := 0; b < 32; b++ {
		for d := 0; d < 2; d++ {
			n := rng.Intn(25)
			bits := rng.Intn(8*n + 1)
			e.doEnc("directed", e.key(3+b), e.count(b+d), uint8(b), uint8(d), rng.Bytes(n))
			e.doMac("directed", e.key(3+b), e.count(b+d+1), uint8(b), uint8(d), rng.Bytes(n))
			e.doNea3("directed", e.key(3+b), e.count(b+d+2), uint8(b), uint8(d), e.bitsMsg(bits, rng.Intn(2), 2), uint32(bits))
			e.doNia3("directed", e.key(3+b), e.count(b+d+3), uint8(b), uint8(d), e.bitsMsg(bits, rng.Intn(2), 0), uint32(bits))
		}
	}
	// every length mod 32 with 0..5 whole words in front; trailing octets and all tail shapes
	i := 0
	for w := 0; w <= 5; w++ {
		for m := 0; m < 32; m++ {
			bits := 32*w + m
			i++
			e.doNea3("directed", e.key(i), e.count(i), uint8(rng.Intn(32)), uint8(rng.Intn(2)), e.bitsMsg(bits, i%3, i%3), uint32(bits))
			e.doNia3("directed", e.key(i+1), e.count(i+1), uint8(rng.Intn(32)), uint8(rng.Intn(2)), e.bitsMsg(bits, (i+1)%3, (i/3)%3), uint32(bits))
		}
	}
	// +-1 bit around larger multiples of 32 / 64
	for _, w := range []int{8, 16, 33, 64} {
		for dlt := -1; dlt <= 1; dlt++ {
			bits := 32*w + dlt
			i++
			e.doNea3("directed", e.key(i), e.count(i), uint8(rng.Intn(32)), uint8(rng.Intn(2)), e.bitsMsg(bits, 0, 2), uint32(bits))
			e.doNia3("directed", e.key(i), e.count(i), uint8(rng.Intn(32)), uint8(rng.Intn(2)), e.bitsMsg(bits, 0, 0), uint32(bits))
		}
	}
	// lengths 0..9 octets through the byte-length API, every kind of key, every boundary count
	for n := 0; n <= 9; n++ {
		for kk := 0; kk < 4; kk++ {
			for c := 0; c < 5; c++ {
				i++
				if (kk+c+n)%2 == 0 || n < 2 {
					e.doEnc("directed", e.key(kk), e.count(c), uint8(rng.Intn(32)), uint8(rng.Intn(2)), rng.Bytes(n))
				}
				if (kk+c+n)%2 == 1 || n < 2 {
					e.doMac("directed", e.key(kk), e.count(c), uint8(rng.Intn(32)), uint8(rng.Intn(2)), rng.Bytes(n))
				}
			}
		}
	}
	// key loading: all-zero, all-one and every single-bit key and iv
	for b := 0; b < 128; b++ {
		e.doZuc("directed", singleBit(b), [][]byte{fill(0), fill(0xff), rng.Bytes(16)}[b%3], 2)
		e.doZuc("directed", [][]byte{fill(0), fill(0xff), rng.Bytes(16)}[b%3], singleBit(b), 2)
	}
	for _, k := range [][]byte{fill(0), fill(0xff)} {
		for _, iv := range [][]byte{fill(0), fill(0xff), rng.Bytes(16)} {
			e.doZuc("directed", k, iv, 3)
		}
	}
	// keystream lengths 0..40 words (and slices longer than 16 octets: only the first 16 are read)
	for n := 0; n <= 40; n++ {
		e.doZuc("directed", rng.Bytes(16), rng.Bytes(16), uint32(n))
	}
	e.doZuc("directed", rng.Bytes(20), rng.Bytes(17), 3)
	e.doZuc("directed", rng.Bytes(16), rng.Bytes(16), uint32(r.N(300, 3000)))
	// parameter validation of the API (bearer > 31, direction > 1) and empty payloads
	for _, bd := range [][2]uint8{{32, 0}, {255, 1}, {0, 2}, {31, 255}, {32, 2}, {31, 1}, {0, 0}} {
		e.doEnc("directed", e.key(3), uint32(rng.Next()), bd[0], bd[1], rng.Bytes(5))
		e.doMac("directed", e.key(3), uint32(rng.Next()), bd[0], bd[1], rng.Bytes(5))
		e.doEnc("directed", e.key(3), uint32(rng.Next()), bd[0], bd[1], []byte{})
		e.doMac("directed", e.key(3), uint32(rng.Next()), bd[0], bd[1], []byte{})
	}
	// nil payload: an error, no panic (the model identifies nil and empty, so this is oracle-only)
	{
		var err1, err2 error
		p, pv := hk.Catch(func() {
			err1 = security.NASEncrypt(security.AlgCiphering128NEA3, e.key(3), 0, 0, 0, nil)
			_, err2 = security.NASMacCalculate(security.AlgIntegrity128NIA3, e.key(3), 0, 0, 0, nil)
		})
		if p || err1 == nil || err2 == nil {
			e.fail("security.NASEncrypt", "nil-payload", map[string]interface{}{"alg": 3, "payload": nil}, fmt.Sprint("nil payload: panic or no error ", pv))
		}
		r.Evals++
	}

	// (3) structured random
	n3 := r.N(1800, 20000)
	maxOct := r.N(48, 400)
	for j := 0; j < n3; j++ {
		key := e.key(3 + rng.Intn(6))
		if rng.Intn(10) == 0 {
			key = e.key(rng.Intn(3))
		}
		cnt := e.count(rng.Intn(25))
		b, d := uint8(rng.Intn(32)), uint8(rng.Intn(2))
		n := rng.Intn(maxOct + 1)
		if rng.Intn(3) == 0 {
			n = rng.Intn(9)
		}
		bits := 0
		if n > 0 {
			bits = 8*n - rng.Intn(8)
			if rng.Intn(4) == 0 {
				bits = rng.Intn(8*n + 1)
			}
		}
		switch j % 5 {
		case 0:
			e.doEnc("random", key, cnt, b, d, rng.Bytes(n))
		case 1:
			e.doMac("random", key, cnt, b, d, rng.Bytes(n))
		case 2:
			e.doNea3("random", key, cnt, b, d, e.bitsMsg(bits, n-(bits+7)/8, rng.Intn(3)), uint32(bits))
		case 3:
			e.doNia3("random", key, cnt, b, d, e.bitsMsg(bits, n-(bits+7)/8, rng.Intn(3)), uint32(bits))
		case 4:
			e.doZuc("random", rng.Bytes(16), rng.Bytes(16), uint32(rng.Intn(12)))
		}
	}

	// (3b) block-structured messages (zero / all-ones / single-bit / repeated 4-, 8-, 16-octet blocks): EIA3
	// accumulates keystream words per set message bit, zero words and equal words are its special cases
	for j := 0; j < r.N(240, 4000); j++ {
		key := e.key(3 + rng.Intn(6))
		cnt := e.count(rng.Intn(25))
		b, d := uint8(rng.Intn(32)), uint8(rng.Intn(2))
		bs := []int{4, 4, 8, 16}[rng.Intn(4)]
		msg := hk.BlockMsg(rng, bs, 1+rng.Intn(7), rng.Intn(bs+1))
		if rng.Intn(4) == 0 {
			msg = append(rng.Bytes(1+rng.Intn(3)), msg...)
		}
		switch j % 4 {
		case 0:
			e.doNia3("block-structured", key, cnt, b, d, msg, uint32(8*len(msg)))
		case 1, 2:
			e.doMac("block-structured", key, cnt, b, d, msg)
		default:
			e.doEnc("block-structured", key, cnt, b, d, msg)
		}
	}

	// (4) malformed: bit length beyond the buffer, out-of-range bearer / direction on the
	// per-algorithm functions (uint8 arithmetic wraps), short key / iv slices
	n4 := r.N(160, 1500)
	for j := 0; j < n4; j++ {
		key := e.key(3 + rng.Intn(6))
		cnt := uint32(rng.Next())
		n := rng.Intn(13)
		switch j % 4 {
		case 0:
			e.doNea3("malformed", key, cnt, uint8(rng.Intn(256)), uint8(rng.Intn(256)), rng.Bytes(n), uint32(rng.Intn(8*n+1)))
		case 1:
			e.doNia3("malformed", key, cnt, uint8(rng.Intn(256)), uint8(rng.Intn(256)), rng.Bytes(n), uint32(rng.Intn(8*n+1)))
		case 2:
			over := uint32(8*n + 1 + rng.Intn(70))
			if rng.Bool() {
				e.doNea3("malformed", key, cnt, uint8(rng.Intn(32)), uint8(rng.Intn(2)), rng.Bytes(n), over)
			} else {
				e.doNia3("malformed", key, cnt, uint8(rng.Intn(32)), uint8(rng.Intn(2)), rng.Bytes(n), over)
			}
		case 3:
			e.doZuc("malformed", rng.Bytes(rng.Intn(17)), rng.Bytes(rng.Intn(18)), uint32(rng.Intn(3)))
		}
	}

	// (5) mass differential sweep of zuc.Zuc against the Go reference above (written from the
	// specification with % (2^31-1) arithmetic and validated by the published vectors and by the
	// Coq spec on every other stream).  Rare events of the mod 2^31-1 adder (a double fold, a zero
	// residue) have probability about 1e-9 per clock; sweeping all NAS COUNT values for a few keys
	// reaches them.  Implementation only (the Coq model is not run on these).
	massSweep(r, e)
}

func massSweep(r *hk.Run, e *env) {
	total := r.N(1<<26, 1<<28)
	workers := 16
	keys := [][]byte{
		{0x17, 0x3d, 0x14, 0xba, 0x50, 0x03, 0x73, 0x1d, 0x7a, 0x60, 0x04, 0x94, 0x70, 0xf0, 0x0a, 0x29},
		fill(0), fill(0xff), r.Rng.Bytes(16),
	}
	type bad struct {
		key, iv []byte
		got, want []uint32
	}
	ch := make(chan bad, 64)
	done := make(chan int, workers)
	per := total / workers
	for w := 0; w < workers; w++ {
		go func(w int) {
			n := 0
			iv := make([]byte, 16)
			for i := 0; i < per; i++ {
				x := uint64(w)*uint64(per) + uint64(i)
				key := keys[(x>>26)%uint64(len(keys))]
				count := uint32(x & 0xffffff)
				bearer := uint8((x >> 24) & 1) + 1
				dir := uint8((x >> 25) & 1)
				iv[0], iv[1], iv[2], iv[3] = byte(count>>24), byte(count>>16), byte(count>>8), byte(count)
				iv[4] = bearer<<3 | dir<<2
				iv[5], iv[6], iv[7] = 0, 0, 0
				copy(iv[8:], iv[:8])
				var got []uint32
				func() {
					defer func() { _ = recover() }()
					got = zuc.Zuc(key, iv, 2)
				}()
				want := refZuc(key, iv, 2)
				n++
				if len(got) != 2 || got[0] != want[0] || got[1] != want[1] {
					select {
					case ch <- bad{hk.Exact(key), hk.Exact(iv), got, want}:
					default:
					}
				}
			}
			done <- n
		}(w)
	}
	n := 0
	for w := 0; w < workers; w++ {
		n += <-done
	}
	close(ch)
	r.Evals += n
	r.Streams["mass-sweep-vs-go-reference(impl only)"] = n
	k := 0
	for b := range ch {
		if k < 5 {
			e.fail("zuc.Zuc", "keystream-differs-from-standard", map[string]interface{}{"key": hk.Hex(b.key), "iv": hk.Hex(b.iv)},
				fmt.Sprintf("keystream %08x, ZUC v1.6 gives %08x", b.got, b.want))
		}
		k++
	}
}
