package main

import (
	"bytes"
	"net"
	"runtime"
	"time"

	"github.com/free5gc/nas/nasConvert"
	"github.com/free5gc/nas/nasType"
	"github.com/free5gc/nas/uePolicyContainer"
	"github.com/free5gc/openapi/models"

	"verifharness/hk"
)

// inputs shared (read-only) by every goroutine; built with append, so they have spare capacity
var sharedPlmn = models.PlmnId{Mcc: "208", Mnc: "93"}
var sharedSnssaiList = append(make([]models.Snssai, 0, 8), models.Snssai{Sst: 1, Sd: "010203"}, models.Snssai{Sst: 2})
var sharedTaiList = append(make([]models.Tai, 0, 8), models.Tai{PlmnId: &sharedPlmn, Tac: "000001"}, models.Tai{PlmnId: &sharedPlmn, Tac: "000002"})

var sharedPayload = func() nasType.PayloadContainer {
	var p nasType.PayloadContainer
	p.SetLen(32)
	for i := range p.Buffer {
		p.Buffer[i] = 0xee
	}
	return p
}()

// sharedInputsIntact: the library only read them (also beyond len, inside the spare capacity)
func sharedInputsIntact() bool {
	full := sharedSnssaiList[:cap(sharedSnssaiList)]
	for i, e := range full {
		switch {
		case i == 0 && (e.Sst != 1 || e.Sd != "010203"), i == 1 && (e.Sst != 2 || e.Sd != ""), i >= 2 && (e.Sst != 0 || e.Sd != ""):
			return false
		}
	}
	ft := sharedTaiList[:cap(sharedTaiList)]
	for i, e := range ft {
		if i >= 2 && (e.PlmnId != nil || e.Tac != "") {
			return false
		}
	}
	for _, x := range sharedPayload.Buffer {
		if x != 0xee {
			return false
		}
	}
	return len(sharedSnssaiList) == 2 && len(sharedTaiList) == 2 && len(sharedPayload.Buffer) == 32
}

// more call kinds for a goroutine's program: the conversion helpers (time, timers, names, NSSAI, lists),
// QoS rules / flow descriptions, PCO, UE policy container; every value is built from x and private
func extraOps(x uint64, w func(format string, a ...interface{})) {
	defer func() {
		if e := recover(); e != nil {
			w("panic")
		}
	}()
	b := func(n int) []byte {
		o := make([]byte, n)
		for j := range o {
			o[j] = byte((x >> uint(j%8*8)) + uint64(j)*31)
		}
		return o
	}
	switch (x / 16) % 16 {
	case 0: // universal time and zone: zones differ between goroutines
		off := int(x%97)*900 - 43200
		t := time.Date(2000+int(x%60), time.Month(1+x%12), 1+int(x%28), int(x%24), int(x%60), int(x%60), 0, time.FixedZone("z", off))
		n := nasConvert.EncodeUniversalTimeAndLocalTimeZoneToNas(t)
		d := nasConvert.DecodeUniversalTimeAndLocalTimeZone(n)
		_, o2 := d.Zone()
		w("t%x|%d|%d|%s", n.Octet, d.Unix(), o2, d.Format(time.RFC3339))
		var raw nasType.UniversalTimeAndLocalTimeZone
		copy(raw.Octet[:], b(7))
		d2 := nasConvert.DecodeUniversalTimeAndLocalTimeZone(raw)
		_, o3 := d2.Zone()
		w("%d|%d", d2.Unix(), o3)
	case 1:
		tz := nasConvert.GetTimeZone(time.Date(2020, 1, 1, 0, 0, 0, 0, time.FixedZone("z", int(x%53)*900-23400)))
		l := nasConvert.EncodeLocalTimeZoneToNas(tz)
		w("z%s|%x|%s", tz, l.Octet, nasConvert.DecodeLocalTimeZone(l))
		var dn nasType.NetworkDaylightSavingTime
		dn.SetLen(1)
		dn.Octet = byte(x % 4)
		w("%s", nasConvert.DecodeDaylightSavingTime(dn))
		ds := nasConvert.EncodeDaylightSavingTimeToNas(tz + "+" + string(rune('0'+x%3)))
		w("%x", ds.Octet)
	case 2:
		w("p%d|%d", nasConvert.GPRSTimer2ToNas(int(x%8000)), nasConvert.GPRSTimer3ToNas(int(x%2000000)))
	case 3:
		name := "net" + string(rune('A'+x%26)) + string(rune('a'+(x>>5)%26))
		f := nasConvert.FullNetworkNameToNas(name)
		s := nasConvert.ShortNetworkNameToNas(name[:3+int(x%3)])
		w("n%x|%x", f.Buffer, s.Buffer)
	case 4:
		sn := models.Snssai{Sst: int32(x % 256)}
		if x%3 != 0 {
			sn.Sd = "0a" + string("0123456789abcdef"[x%16]) + "f3c"
		}
		enc := nasConvert.SnssaiToNas(sn)
		var v nasType.SNSSAI
		v.SetLen(uint8(len(enc) - 1))
		copy(v.Octet[:], enc[1:])
		back := nasConvert.SnssaiToModels(&v)
		w("s%x|%d|%s|%x", enc, back.Sst, back.Sd, nasConvert.RejectedSnssaiToNas(sn, uint8(x%2)))
		var rq nasType.RequestedNSSAI
		buf := append(hk.Exact(enc), enc...)
		rq.SetLen(uint8(len(buf)))
		rq.Buffer = buf
		l, err := nasConvert.RequestedNssaiToModels(&rq)
		w("%d%v", len(l), err == nil)
		rj := nasConvert.RejectedNssaiToNas([]models.Snssai{sn}, []models.Snssai{sn})
		w("%x", rj.Buffer)
		// read-only use of inputs shared by all goroutines (a configured list with spare capacity, as append builds it)
		rs := nasConvert.RejectedNssaiToNas(sharedSnssaiList, []models.Snssai{sn})
		w("%x", rs.Buffer)
		w("%x", nasConvert.TaiListToNas(sharedTaiList))
	case 5:
		p := models.PlmnId{Mcc: "20" + string(rune('0'+x%10)), Mnc: "9" + string(rune('0'+(x>>4)%10))}
		tais := []models.Tai{{PlmnId: &p, Tac: "0000" + string("0123456789abcdef"[x%16]) + "1"}, {PlmnId: &p, Tac: "00aa01"}}
		w("l%x|%x|%x", nasConvert.PlmnIDToNas(p), nasConvert.TaiListToNas(tais), nasConvert.LadnToNas("internet", tais))
		w("%q", nasConvert.LadnToModels(nasConvert.LadnToNas("ims", tais)))
		sar := models.ServiceAreaRestriction{Areas: []models.Area{{Tacs: []string{"000001", "00000" + string(rune('2'+x%7))}}}}
		w("%x", nasConvert.PartialServiceAreaListToNas(p, sar))
	case 6:
		w("i%v|%x", nasConvert.PSIToBooleanArray(b(2)), nasConvert.PSIToBuf(nasConvert.PSIToBooleanArray(b(2))))
		w("%x", nasConvert.PDUSessionReactivationResultErrorCauseToBuf(b(3), b(3)))
		w("%s|%d", nasConvert.PDUSessionTypeToModels(uint8(x%6)), nasConvert.ModelsToPDUSessionType(models.PduSessionType_IPV4_V6))
		a, c, d, e := nasConvert.UESecurityCapabilityToByteArray(b(2 + int(x%7)))
		w("%x%x%x%x", a, c, d, e)
	case 7:
		am := &models.Ambr{Uplink: string(rune('1'+x%9)) + "00 Mbps", Downlink: string(rune('1'+(x>>3)%9)) + " Gbps"}
		s := nasConvert.ModelsToSessionAMBR(am)
		w("b%x", s.Octet)
		k := nasConvert.SpareHalfOctetAndNgksiToNas(models.NgKsi{Tsc: models.ScType_NATIVE, Ksi: int32(x % 7)})
		w("%x|%+v", k.Octet, nasConvert.SpareHalfOctetAndNgksiToModels(k))
	case 8:
		pco := nasConvert.NewProtocolConfigurationOptions()
		pco.AddDNSServerIPv4AddressRequest()
		pco.AddIPAddressAllocationViaNASSignallingUL()
		_ = pco.AddDNSServerIPv4Address(net.IPv4(8, 8, byte(x), byte(x>>8)))
		_ = pco.AddIPv4LinkMTU(uint16(1200 + x%300))
		_ = pco.AddPCSCFIPv4Address(net.IPv4(10, 0, byte(x>>3), 1))
		m := pco.Marshal()
		q := nasConvert.NewProtocolConfigurationOptions()
		err := q.UnMarshal(m)
		w("o%x|%v|%d", m, err == nil, len(q.ProtocolOrContainerList))
	case 9:
		var g nasType.MobileIdentity5GS
		suci := append([]byte{0x01, 0x02, 0xf8, 0x39, 0xf0, 0xff, 0x00, 0x00}, b(5)...)
		g.SetLen(uint16(len(suci)))
		g.Buffer = suci
		w("m%s|%s|%s", g.GetSUCI(), g.GetPlmnID(), g.GetMCC()+g.GetMNC())
		s1, s2, err := nasConvert.SuciToStringWithError(suci)
		w("%s|%s|%v", s1, s2, err == nil)
		pei := append([]byte{0x03 | byte(x%2)<<3 | 0x30}, b(7)...)
		s3, err3 := nasConvert.PeiToStringWithError(pei)
		w("%s%v", s3, err3 == nil)
		gu, gs, err4 := nasConvert.GutiToStringWithError(append([]byte{0xf2, 0x02, 0xf8, 0x39}, b(7)...))
		w("%v|%s|%v", gu.AmfId, gs, err4 == nil)
	case 10:
		r, s, p := nasConvert.AmfIdToNas("cafe" + string("0123456789abcdef"[x%16]) + "0")
		w("f%d|%d|%d|%s", r, s, p, nasConvert.AmfIdToModels(r, s, p))
	case 11: // QoS rules
		rule := nasType.QoSRule{Identifier: uint8(1 + x%200), Operation: nasType.OperationCodeCreateNewQoSRule, DQR: x%2 == 0,
			Precedence: uint8(x >> 4), QFI: uint8(1 + x%60),
			PacketFilterList: nasType.PacketFilterList{{Identifier: uint8(x % 16), Direction: nasType.PacketFilterDirectionBidirectional,
				Components: nasType.PacketFilterComponentList{&nasType.PacketFilterMatchAll{}}}}}
		rs := nasType.QoSRules{rule}
		enc, err := rs.MarshalBinary()
		var back nasType.QoSRules
		err2 := back.UnmarshalBinary(enc)
		w("r%x|%v|%v|%d", enc, err == nil, err2 == nil, len(back))
	case 12: // QoS flow descriptions
		fd := nasType.QoSFlowDesc{QFI: uint8(1 + x%60), OperationCode: nasType.OperationCodeCreateNewQoSFlowDescription,
			Parameters: nasType.QoSFlowParameterList{&nasType.QoSFlow5QI{FiveQI: uint8(x % 90)}}}
		ds := nasType.QoSFlowDescs{fd}
		enc, err := ds.MarshalBinary()
		var back nasType.QoSFlowDescs
		err2 := back.UnmarshalBinary(enc)
		w("w%x|%v|%v|%d", enc, err == nil, err2 == nil, len(back))
	case 13: // UE policy container
		var sub uePolicyContainer.UEPolicySectionManagementSubListContents
		var ins uePolicyContainer.Instruction
		ins.SetUpsc(uint16(x))
		ins.UEPolicySectionContents = uePolicyContainer.UEPolicySectionContents{}
		sub.AppendInstruction(ins)
		enc, err := sub.MarshalBinary()
		var back uePolicyContainer.UEPolicySectionManagementSubListContents
		err2 := back.UnmarshalBinary(enc)
		w("u%x|%v|%v", enc, err == nil, err2 == nil)
		c := uePolicyContainer.NewManageUEPolicyReject(uePolicyContainer.MsgTypeManageUEPolicyReject)
		bb := new(bytes.Buffer)
		err3 := c.EncodeManageUEPolicyReject(bb)
		w("%x%v", bb.Bytes(), err3 == nil)
		d := uePolicyContainer.NewUePolDeliverySer()
		err4 := d.UePolDeliverySerDecode(append([]byte{byte(x), 0x01 + byte(x%4)}, b(int(x%9))...))
		w("%v", err4 == nil)
	case 14:
		u := models.UpuInfo{UpuDataList: []models.UpuData{{SecPacket: "00aa" + string("0123456789abcdef"[x%16]) + "f"}}, UpuRegInd: x%2 == 0, UpuAckInd: x%4 < 2}
		w("k%x", nasConvert.UpuInfoToNas(u))
		s, err := nasConvert.UpuAckToModels(b(17))
		w("%s%v", s, err == nil)
	case 15:
		// a private struct copy of a shared template element, resized and filled: SetLen gives the copy
		// storage of its own, the template (read by everybody) stays what it was
		pc := sharedPayload
		pc.SetLen(uint16(4 + x%24))
		pc.SetPayloadContainerContents(b(int(4 + x%24)))
		runtime.Gosched()
		w("c%x", pc.Buffer)
		var d nasType.DNN
		d.SetDNN("internet" + string(rune('a'+x%26)))
		w("d%s|%x", d.GetDNN(), d.Buffer)
	}
}
