// C19 harness (built with -race): 64 goroutines run a mix of library calls on values private to
// each goroutine, plus read-only use of one shared decoded message; the results must equal those of
// a sequential run of the same per-goroutine programs, and the race detector must stay silent
// (a detected race makes the process exit with status 66).
package main

import (
	"bytes"
	"crypto/sha256"
	"fmt"
	"os"
	"path/filepath"
	"runtime"
	"sync"

	"github.com/free5gc/nas"
	"github.com/free5gc/nas/nasConvert"
	"github.com/free5gc/nas/nasMessage"
	"github.com/free5gc/nas/nasType"
	"github.com/free5gc/nas/security"
	"github.com/free5gc/nas/uePolicyContainer"

	"verifharness/hk"
)

func main() { hk.Main("C19", run) }

var vectors [][]byte

// one goroutine's program: deterministic in (seed); touches only its own values and reads `shared`
func program(seed uint64, shared *nas.Message, ops int) string {
	r := &hk.Rng{}
	for i := uint64(0); i < seed%7+1; i++ {
		r.Next()
	}
	h := sha256.New()
	w := func(format string, a ...interface{}) { fmt.Fprintf(h, format, a...) }
	var cnt security.Count
	for i := 0; i < ops; i++ {
		x := seed*1000003 + uint64(i)*7919
		if i%2 == 1 {
			extraOps(x, w)
			continue
		}
		switch x % 9 {
		case 0: // decode a vector
			v := append([]byte{}, vectors[int(x/9)%len(vectors)]...)
			m := nas.NewMessage()
			err := m.PlainNasDecode(&v)
			w("d%v", err == nil)
			if err == nil {
				out, err2 := m.PlainNasEncode()
				w("%x%v", out, err2 == nil)
			}
		case 1: // ciphering, own payload
			var key [16]byte
			for j := range key {
				key[j] = byte(x >> uint(j%8))
			}
			p := make([]byte, int(x%67))
			for j := range p {
				p[j] = byte(x + uint64(j))
			}
			err := security.NASEncrypt(uint8(x%4), key, uint32(x), uint8(x%32), uint8(x%2), p)
			w("e%x%v", p, err == nil)
		case 2: // integrity
			var key [16]byte
			key[0] = byte(x)
			p := make([]byte, int(x%40))
			mac, err := security.NASMacCalculate(uint8(x%4), key, uint32(x), uint8(x%32), uint8(x%2), p)
			w("m%x%v", mac, err == nil)
			// the result belongs to the caller: build the protected message on it, as senders do
			msg := append(mac, byte(x), byte(x>>8), byte(x>>16))
			msg = append(msg, p[:len(p)%9]...)
			if len(mac) > 0 {
				mac[0] ^= byte(x >> 24)
			}
			runtime.Gosched()
			w("%x", msg)
		case 3: // accessors on an own element
			var g nasType.GUTI5G
			g.SetAMFSetID(uint16(x))
			g.SetAMFPointer(uint8(x >> 3))
			g.SetTMSI5G([4]uint8{byte(x), byte(x >> 8), 1, 2})
			w("a%d%d%x", g.GetAMFSetID(), g.GetAMFPointer(), g.GetTMSI5G())
		case 4: // conversions
			guti := fmt.Sprintf("20893cafe%02x%08x", byte(x), uint32(x))
			m := nasConvert.GutiToNas(guti)
			w("g%x", m.Octet)
			w("%x", nasConvert.PlmnIDToString([]byte{0x02, 0xf8, 0x39}))
		case 5: // counter
			cnt.AddOne()
			cnt.SetSQN(uint8(x))
			w("c%d", cnt.Get())
		case 6: // read the shared decoded message (read only)
			if shared.GmmMessage != nil && shared.GmmMessage.RegistrationRequest != nil {
				rr := shared.GmmMessage.RegistrationRequest
				w("s%d%d", rr.GetRegistrationType5GS(), rr.MobileIdentity5GS.GetLen())
				b := new(bytes.Buffer)
				err := rr.EncodeRegistrationRequest(b)
				w("%x%v", b.Bytes(), err == nil)
			}
		case 7: // UE policy container, own allocator
			gen := uePolicyContainer.NewGenerator(1, 8)
			for k := 0; k < 10; k++ {
				id, err := gen.Allocate()
				w("u%d%v", id, err == nil)
				if k%3 == 0 {
					gen.FreeID(id)
				}
			}
		case 8: // message-level codec on an own struct
			a := nasMessage.NewAuthenticationRequest(0)
			in := []byte{0x7e, 0, 0x56, byte(x % 8), 2, 0, 0, 0x21, 1, 2, 3, 4, 5, 6, 7, 8, 9, 10, 11, 12, 13, 14, 15, 16}
			err := a.DecodeAuthenticationRequest(&in)
			b := new(bytes.Buffer)
			err2 := a.EncodeAuthenticationRequest(b)
			w("q%v%v%x", err == nil, err2 == nil, b.Bytes())
		}
	}
	return fmt.Sprintf("%x", h.Sum(nil))
}

func run(r *hk.Run) {
	r.SetCoq("", "")
	for _, dir := range []string{"GmmMessage", "GsmMessage"} {
		files, _ := filepath.Glob(filepath.Join("/repo/testdata", dir, "Min*"))
		if v := os.Getenv("VERIF_REPO"); v != "" {
			if f2, _ := filepath.Glob(filepath.Join(v, "testdata", dir, "Min*")); len(f2) > 0 {
				files = f2
			}
		}
		for _, f := range files {
			if b, err := os.ReadFile(f); err == nil && len(b) < 400 {
				vectors = append(vectors, b)
			}
		}
	}
	if len(vectors) == 0 {
		vectors = [][]byte{{0x7e, 0, 0x43}}
	}
	// the shared decoded message
	shared := nas.NewMessage()
	for _, v := range vectors {
		if len(v) > 2 && v[0] == 0x7e && v[2] == 0x41 {
			vv := hk.Exact(v)
			_ = shared.PlainNasDecode(&vv)
		}
	}
	rounds := r.N(3, 25)
	G := 64
	ops := r.N(120, 400)
	for round := 0; round < rounds; round++ {
		seeds := make([]uint64, G)
		for i := range seeds {
			seeds[i] = r.Rng.Next()
		}
		conc := make([]string, G)
		var wg sync.WaitGroup
		for i := 0; i < G; i++ {
			wg.Add(1)
			go func(i int) {
				defer wg.Done()
				conc[i] = program(seeds[i], shared, ops)
			}(i)
		}
		wg.Wait()
		for i := 0; i < G; i++ {
			seq := program(seeds[i], shared, ops)
			r.Count("goroutines", fmt.Sprintf("%d-%d", round, i))
			if seq != conc[i] {
				r.Fail(hk.Failure{Site: "library (concurrent use)", Class: "result-differs", Input: map[string]interface{}{"seed": seeds[i], "goroutine": i, "ops": ops},
					Detail: "a goroutine working on its own values obtained a different result than the same program run alone"})
			}
		}
		if !sharedInputsIntact() {
			r.Fail(hk.Failure{Site: "library (concurrent use)", Class: "shared-input-modified", Input: map[string]interface{}{"round": round},
				Detail: "a list that all goroutines only passed as an argument (read-only) was written to (inside its spare capacity)"})
		}
		r.Sample(map[string]interface{}{"round": round, "goroutines": G, "ops_each": ops, "digest_0": conc[0][:16]})
	}
	r.Extra["goroutines"] = G
	r.Extra["race_detector"] = "enabled (go build -race); a detected race aborts the harness with exit status 66"
}
