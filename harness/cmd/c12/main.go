// C12 (+ the C14 obligations of the same functions): identities between wire and text.
//
// For every generated input: run the implementation, evaluate the property
// directly (expected text / wire from an independent encoder written from the
// TS 24.501 9.11.3.4 layout below, round trips, no panic), and print the call
// with its observed result as a Coq case for the correspondence run.
//
// Normalisation: Go nil and empty slices/strings are both printed as [].
package main

import (
	"bytes"
	"encoding/binary"
	"encoding/hex"
	"encoding/json"
	"fmt"
	"io"
	"log"
	"math/bits"
	"os"
	"regexp"
	"strconv"
	"strings"

	"github.com/free5gc/nas/logger"
	"github.com/free5gc/nas/nasConvert"
	"github.com/free5gc/nas/nasType"
	"github.com/free5gc/openapi/models"

	"verifharness/hk"
)

func main() { hk.Main("C12", runC12) }

// ---------------------------------------------------------------- observations

type obsT struct {
	panicked bool
	err      bool
	strs     []string
	nums     []int64
}

func coqZ(z int64) string {
	if z < 0 {
		return fmt.Sprintf("(%d)%%Z", z)
	}
	return fmt.Sprintf("%d%%Z", z)
}

func (o obsT) coq() string {
	if o.panicked {
		return "OPanic"
	}
	if o.err {
		return "OErr"
	}
	ss := make([]string, len(o.strs))
	for i, s := range o.strs {
		ss[i] = hk.CoqStr(s)
	}
	ns := make([]string, len(o.nums))
	for i, n := range o.nums {
		ns[i] = coqZ(n)
	}
	return "(OOk " + hk.CoqList(ss) + " " + hk.CoqList(ns) + ")"
}

func (o obsT) class() string {
	if o.panicked {
		return "panic"
	}
	if o.err {
		return "err"
	}
	return "ok"
}

func catch(f func() obsT) (o obsT) {
	p, _ := hk.Catch(func() { o = f() })
	if p {
		return obsT{panicked: true}
	}
	return o
}

func okS(ss ...string) obsT { return obsT{strs: ss} }
func okN(ns ...int64) obsT  { return obsT{nums: ns} }

// ---------------------------------------------------------------- the implementation under test

func iSuciE(b []byte) obsT {
	return catch(func() obsT {
		s, p, err := nasConvert.SuciToStringWithError(b)
		if err != nil {
			return obsT{err: true}
		}
		return okS(s, p)
	})
}
func iSuci(b []byte) obsT {
	return catch(func() obsT { s, p := nasConvert.SuciToString(b); return okS(s, p) })
}
func iNai(b []byte) obsT {
	return catch(func() obsT { return okS(nasConvert.NaiToString(b)) })
}
func guamiStrs(g models.Guami, guti string) obsT {
	mcc, mnc := "", ""
	if g.PlmnId != nil {
		mcc, mnc = g.PlmnId.Mcc, g.PlmnId.Mnc
	}
	return okS(mcc, mnc, g.AmfId, guti)
}
func iGutiStrE(b []byte) obsT {
	return catch(func() obsT {
		g, s, err := nasConvert.GutiToStringWithError(b)
		if err != nil {
			return obsT{err: true}
		}
		return guamiStrs(g, s)
	})
}
func iGutiStr(b []byte) obsT {
	return catch(func() obsT { g, s := nasConvert.GutiToString(b); return guamiStrs(g, s) })
}
func gutiObs(g nasType.GUTI5G) obsT {
	return obsT{strs: []string{string(g.Octet[:])}, nums: []int64{int64(g.Iei), int64(g.Len)}}
}
func iGutiNasE(s string) obsT {
	return catch(func() obsT {
		g, err := nasConvert.GutiToNasWithError(s)
		if err != nil {
			return obsT{err: true}
		}
		return gutiObs(g)
	})
}
func iGutiNas(s string) obsT {
	return catch(func() obsT { return gutiObs(nasConvert.GutiToNas(s)) })
}
func iPeiE(b []byte) obsT {
	return catch(func() obsT {
		s, err := nasConvert.PeiToStringWithError(b)
		if err != nil {
			return obsT{err: true}
		}
		return okS(s)
	})
}
func iPei(b []byte) obsT {
	return catch(func() obsT { return okS(nasConvert.PeiToString(b)) })
}
func iPlmnNas(mcc, mnc string) obsT {
	return catch(func() obsT { return okS(string(nasConvert.PlmnIDToNas(models.PlmnId{Mcc: mcc, Mnc: mnc}))) })
}
func iPlmnStr(b []byte) obsT {
	return catch(func() obsT { return okS(nasConvert.PlmnIDToString(b)) })
}
func iAmfNasE(s string) obsT {
	return catch(func() obsT {
		r, st, p, err := nasConvert.AmfIdToNasWithError(s)
		if err != nil {
			return obsT{err: true}
		}
		return okN(int64(r), int64(st), int64(p))
	})
}
func iAmfNas(s string) obsT {
	return catch(func() obsT { r, st, p := nasConvert.AmfIdToNas(s); return okN(int64(r), int64(st), int64(p)) })
}
func iAmfModels(r uint8, s uint16, p uint8) obsT {
	return catch(func() obsT { return okS(nasConvert.AmfIdToModels(r, s, p)) })
}

// nasType.MobileIdentity5GS getters
type getter struct {
	name   string // Go method name
	coq    string // constructor of Corr.getter
	minLen int    // from this Buffer length on the getter never panics (theorem C12_total_<getter>_partial)
	f      func(a *nasType.MobileIdentity5GS) obsT
}

var getters = []getter{
	{"GetTypeOfIdentity", "GTypeOfIdentity", 1, func(a *nasType.MobileIdentity5GS) obsT {
		s, err := a.GetTypeOfIdentity()
		if err != nil {
			return obsT{err: true}
		}
		return okS(s)
	}},
	{"GetMobileIdentity", "GMobileIdentity", 9, func(a *nasType.MobileIdentity5GS) obsT {
		s, t, err := a.GetMobileIdentity()
		if err != nil {
			return obsT{err: true}
		}
		return okS(s, t)
	}},
	{"GetSUCI", "GSUCI", 9, func(a *nasType.MobileIdentity5GS) obsT { return okS(a.GetSUCI()) }},
	{"GetPlmnID", "GPlmnID", 4, func(a *nasType.MobileIdentity5GS) obsT { return okS(a.GetPlmnID()) }},
	{"GetMCC", "GMCC", 3, func(a *nasType.MobileIdentity5GS) obsT { return okS(a.GetMCC()) }},
	{"GetMNC", "GMNC", 4, func(a *nasType.MobileIdentity5GS) obsT { return okS(a.GetMNC()) }},
	{"Get5GGUTI", "G5GGUTI", 7, func(a *nasType.MobileIdentity5GS) obsT { return okS(a.Get5GGUTI()) }},
	{"GetAmfID", "GAmfID", 7, func(a *nasType.MobileIdentity5GS) obsT { return okS(a.GetAmfID()) }},
	{"GetAmfRegionID", "GAmfRegionID", 5, func(a *nasType.MobileIdentity5GS) obsT { return okS(a.GetAmfRegionID()) }},
	{"GetAmfSetID", "GAmfSetID", 7, func(a *nasType.MobileIdentity5GS) obsT { return okS(a.GetAmfSetID()) }},
	{"GetAmfPointer", "GAmfPointer", 7, func(a *nasType.MobileIdentity5GS) obsT { return okS(a.GetAmfPointer()) }},
	{"Get5GTMSI", "G5GTMSI", 7, func(a *nasType.MobileIdentity5GS) obsT { return okS(a.Get5GTMSI()) }},
	{"GetIMEI", "GIMEI", 1, func(a *nasType.MobileIdentity5GS) obsT { return okS(a.GetIMEI()) }},
	{"GetIMEISV", "GIMEISV", 1, func(a *nasType.MobileIdentity5GS) obsT { return okS(a.GetIMEISV()) }},
	{"Get5GSTMSI", "G5GSTMSI", 7, func(a *nasType.MobileIdentity5GS) obsT {
		s, t, err := a.Get5GSTMSI()
		if err != nil {
			return obsT{err: true}
		}
		return okS(s, t)
	}},
}

func getterByName(n string) *getter {
	for i := range getters {
		if getters[i].name == n {
			return &getters[i]
		}
	}
	panic("no getter " + n)
}

func (g *getter) run(buf []byte) obsT {
	b := make([]byte, len(buf)) // len = cap, as SetLen's make does
	copy(b, buf)
	a := &nasType.MobileIdentity5GS{Len: uint16(len(b)), Buffer: b}
	o := catch(func() obsT { return g.f(a) })
	// a getter is a read: the element must be unchanged afterwards and a second call on the same
	// element must give the same answer (otherwise every later conversion of this identity is wrong)
	if !o.panicked {
		if !bytes.Equal(b, buf) || int(a.Len) != len(buf) {
			getterSideEffects = append(getterSideEffects, [3]string{g.name, hk.Hex(buf), "the getter modified the element: Buffer is now " + hk.Hex(b)})
		} else if o2 := catch(func() obsT { return g.f(a) }); fmt.Sprint(o2) != fmt.Sprint(o) {
			getterSideEffects = append(getterSideEffects, [3]string{g.name, hk.Hex(buf), "a second call on the same element returns a different result"})
		}
	}
	return o
}

// (getter, input, what) for getters that are not pure reads; reported as failures at the end of the run
var getterSideEffects [][3]string

// ---------------------------------------------------------------- independent encoders (TS 24.501 9.11.3.4, TS 24.008 10.5.1.3, TS 23.003)

const hexAlphabet = "0123456789abcdef"

// n hex digits of v, most significant first
func hexN(v uint64, n int) string {
	out := make([]byte, n)
	for i := n - 1; i >= 0; i-- {
		out[i] = hexAlphabet[v&15]
		v >>= 4
	}
	return string(out)
}
func hexOfOctets(b []byte) string {
	var sb strings.Builder
	for _, x := range b {
		sb.WriteByte(hexAlphabet[x>>4])
		sb.WriteByte(hexAlphabet[x&15])
	}
	return sb.String()
}
func digitsText(ds []int) string {
	out := make([]byte, len(ds))
	for i, d := range ds {
		out[i] = hexAlphabet[d] // decimal digits for valid identities; hex letters only in malformed ones
	}
	return string(out)
}

type plmnT struct {
	mcc [3]int
	mnc []int // 2 or 3 digits
}

func (p plmnT) mccText() string { return digitsText(p.mcc[:]) }
func (p plmnT) mncText() string { return digitsText(p.mnc) }
func (p plmnT) text() string    { return p.mccText() + p.mncText() }

// TS 24.008 10.5.1.3: octet 1 = MCC digit 2 | MCC digit 1, octet 2 = MNC digit 3 | MCC digit 3, octet 3 = MNC digit 2 | MNC digit 1
func (p plmnT) wire() []byte {
	mnc3 := 0xf
	if len(p.mnc) == 3 {
		mnc3 = p.mnc[2]
	}
	return []byte{byte(p.mcc[1]<<4 | p.mcc[0]), byte(mnc3<<4 | p.mcc[2]), byte(p.mnc[1]<<4 | p.mnc[0])}
}

type amfT struct{ region, set, ptr uint32 } // 8 / 10 / 6 bits

func (a amfT) value() uint32  { return a.region<<16 | a.set<<6 | a.ptr }
func (a amfT) octets() []byte { v := a.value(); return []byte{byte(v >> 16), byte(v >> 8), byte(v)} }
func (a amfT) text() string   { return hexN(uint64(a.value()), 6) }

func be32(v uint32) []byte { return []byte{byte(v >> 24), byte(v >> 16), byte(v >> 8), byte(v)} }

// Figure 9.11.3.4.1: 5G-GUTI
func specGutiWire(p plmnT, a amfT, tmsi uint32) []byte {
	w := []byte{0xf2}
	w = append(w, p.wire()...)
	w = append(w, a.octets()...)
	return append(w, be32(tmsi)...)
}
func specGutiText(p plmnT, a amfT, tmsi uint32) string {
	return p.text() + a.text() + hexN(uint64(tmsi), 8)
}

// Figure 9.11.3.4.5: 5G-S-TMSI
func specStmsiWire(a amfT, tmsi uint32) []byte {
	w := []byte{0xf4, byte(a.set >> 2), byte((a.set&3)<<6 | a.ptr)}
	return append(w, be32(tmsi)...)
}
func specStmsiText(a amfT, tmsi uint32) string {
	return hexN(uint64(a.set)<<38|uint64(a.ptr)<<32|uint64(tmsi), 12)
}

// BCD digits, two per octet, low nibble first, 0xF end mark when odd
func bcd(ds []int) []byte {
	var out []byte
	for i := 0; i < len(ds); i += 2 {
		hi := 0xf
		if i+1 < len(ds) {
			hi = ds[i+1]
		}
		out = append(out, byte(hi<<4|ds[i]))
	}
	return out
}

// Figure 9.11.3.4.3: SUCI, SUPI format IMSI
type suciT struct {
	p      plmnT
	ri     []int // 1..4 digits
	scheme int
	hnpki  int
	msin   []int  // null scheme
	out    []byte // other schemes
}

func (s suciT) wire() []byte {
	w := []byte{0x01}
	w = append(w, s.p.wire()...)
	ri := []int{0xf, 0xf, 0xf, 0xf}
	copy(ri, s.ri)
	w = append(w, byte(ri[1]<<4|ri[0]), byte(ri[3]<<4|ri[2]), byte(s.scheme), byte(s.hnpki))
	if s.scheme == 0 {
		return append(w, bcd(s.msin)...)
	}
	return append(w, s.out...)
}
func (s suciT) text() string {
	out := ""
	if s.scheme == 0 {
		out = digitsText(s.msin)
	} else {
		out = hexOfOctets(s.out)
	}
	sch := hexN(uint64(s.scheme), 1)
	if s.scheme > 15 {
		sch = hexN(uint64(s.scheme), 2)
	}
	return "suci-0-" + s.p.mccText() + "-" + s.p.mncText() + "-" + digitsText(s.ri) + "-" + sch + "-" +
		decText(s.hnpki) + "-" + out
}
func decText(n int) string {
	if n == 0 {
		return "0"
	}
	s := ""
	for n > 0 {
		s = string(rune('0'+n%10)) + s
		n /= 10
	}
	return s
}

// Figure 9.11.3.4.4 / .4a: IMEI, IMEISV (typ 3 / 5)
func specPeiWire(typ int, ds []int) []byte {
	odd := len(ds) % 2
	w := []byte{byte(ds[0]<<4 | odd<<3 | typ)}
	return append(w, bcd(ds[1:])...)
}
func specPeiText(typ int, ds []int) string {
	if typ == 3 {
		return "imei-" + digitsText(ds)
	}
	return "imeisv-" + digitsText(ds)
}

// grammar of the GUTI text accepted by GutiToNasWithError (free5gc convention):
// 3 MCC digits, 2 (19 octets) or 3 (20 octets) MNC digits, 6 hex digits AMF id, 8 hex digits 5G-TMSI (either case)
func isDig(c byte) bool { return c >= '0' && c <= '9' }
func isHex(c byte) bool {
	return isDig(c) || (c >= 'a' && c <= 'f') || (c >= 'A' && c <= 'F')
}
func validGutiText(s string) bool {
	if len(s) != 19 && len(s) != 20 {
		return false
	}
	nd := len(s) - 14
	for i := 0; i < len(s); i++ {
		if i < nd && !isDig(s[i]) || i >= nd && !isHex(s[i]) {
			return false
		}
	}
	return true
}
func validAmfText(s string) bool {
	if len(s) != 6 {
		return false
	}
	for i := 0; i < 6; i++ {
		if !isHex(s[i]) {
			return false
		}
	}
	return true
}

// ---------------------------------------------------------------- run

type ctx struct {
	r *hk.Run
	// F9-class panics of the nasType getters, one witness per (getter, length); flushed last so that they
	// cannot crowd out other failures
	f9       map[string]hk.Failure
	f9order  []string
	f9count  int
	proposed []map[string]interface{}
	suppress int
}

func (c *ctx) emit(stream, call, desc string, o obsT, key string) {
	id := c.r.NextID()
	c.r.AddCase(fmt.Sprintf("(%d, %s, %s)", id, call, o.coq()), desc)
	c.r.Count(stream, key)
	c.r.Dist["class_"+o.class()]++
}

func (c *ctx) fail(site, class string, input interface{}, detail string) {
	c.r.Fail(hk.Failure{Site: site, Class: class, Input: input, Detail: detail})
}

// proposedKnown: with VERIF_ASSUME_KNOWN_PROPOSED=1 (self-test only) failures matching
// build/known_proposed/C12.json are counted, not reported -- as if the coordinator had merged that file.
func (c *ctx) proposedKnown(site, class, inputHex string) bool {
	for _, e := range c.proposed {
		if e["site"] != site || e["class"] != class {
			continue
		}
		m, _ := e["match"].(map[string]interface{})
		if m == nil {
			continue
		}
		switch m["kind"] {
		case "hexlen_lt":
			if n, ok := m["n"].(float64); ok && len(inputHex)/2 < int(n) {
				return true
			}
		case "regex":
			if pat, ok := m["pattern"].(string); ok {
				if re, err := regexp.Compile(pat); err == nil && re.MatchString(inputHex) {
					return true
				}
			}
		case "any":
			return true
		}
	}
	return false
}

func (c *ctx) getterPanic(g *getter, buf []byte) {
	site := "nasType.MobileIdentity5GS." + g.name
	c.f9count++
	if c.proposedKnown(site, "panic", hk.Hex(buf)) {
		c.suppress++
		return
	}
	k := fmt.Sprintf("%s/%d", g.name, len(buf))
	if len(buf) >= g.minLen {
		k = fmt.Sprintf("%s/%d/%x", g.name, len(buf), buf) // beyond the proven bound: every witness is new
	}
	if _, ok := c.f9[k]; ok {
		return
	}
	c.f9[k] = hk.Failure{Site: site, Class: "panic", Input: hk.Hex(buf),
		Detail: fmt.Sprintf("%s panics on a %d-octet Buffer (index/slice without length guard)", g.name, len(buf))}
	c.f9order = append(c.f9order, k)
}

// one getter on one buffer: run, oracle "no panic", case
func (c *ctx) getterCase(stream string, g *getter, buf []byte, withCase bool) obsT {
	o := g.run(buf)
	if o.panicked {
		c.getterPanic(g, buf)
	}
	if withCase {
		key := ""
		if !o.panicked {
			key = g.name + hk.Hex(buf)
		}
		c.emit(stream, fmt.Sprintf("CMI %s %s", g.coq, hk.CoqBytes(buf)), g.name+" "+hk.Hex(buf), o, key)
	} else {
		c.r.Evals++
	}
	return o
}

type byteFn struct {
	name, coq string
	f         func([]byte) obsT
	mustTotal bool // C14: takes UE-supplied octets and has an error / empty result
}

var byteFns = []byteFn{
	{"SuciToStringWithError", "CSuciE", iSuciE, true},
	{"SuciToString", "CSuci", iSuci, true},
	{"NaiToString", "CNai", iNai, true},
	{"GutiToStringWithError", "CGutiStrE", iGutiStrE, true},
	{"GutiToString", "CGutiStr", iGutiStr, true},
	{"PeiToStringWithError", "CPeiE", iPeiE, true},
	{"PeiToString", "CPei", iPei, true},
	{"PlmnIDToString", "CPlmnStr", iPlmnStr, false}, // documented domain: 3 octets
}

func (c *ctx) byteFnCase(stream string, f *byteFn, buf []byte, withCase bool) obsT {
	o := f.f(buf)
	if o.panicked && f.mustTotal {
		c.fail("nasConvert."+f.name, "panic", hk.Hex(buf), "panics on UE-supplied octets")
	}
	if withCase {
		key := ""
		if !o.panicked && !o.err {
			key = f.name + hk.Hex(buf)
		}
		c.emit(stream, fmt.Sprintf("%s %s", f.coq, hk.CoqBytes(buf)), f.name+" "+hk.Hex(buf), o, key)
	} else {
		c.r.Evals++
	}
	return o
}

func fnByName(n string) *byteFn {
	for i := range byteFns {
		if byteFns[i].name == n {
			return &byteFns[i]
		}
	}
	panic("no fn " + n)
}

func (c *ctx) expectStrs(site string, input interface{}, o obsT, want ...string) {
	if o.panicked {
		c.fail(site, "panic", input, "panicked on a valid identity")
		return
	}
	if o.err {
		c.fail(site, "mismatch", input, fmt.Sprintf("error on a valid identity, want %q", want))
		return
	}
	for i, w := range want {
		if i >= len(o.strs) || o.strs[i] != w {
			c.fail(site, "mismatch", input, fmt.Sprintf("got %q, want %q", o.strs, want))
			return
		}
	}
}

func digitsOf(v, n int) []int {
	ds := make([]int, n)
	for i := n - 1; i >= 0; i-- {
		ds[i] = v % 10
		v /= 10
	}
	return ds
}

func mkPlmn(mcc, mnc, mncLen int) plmnT {
	var p plmnT
	copy(p.mcc[:], digitsOf(mcc, 3))
	p.mnc = digitsOf(mnc, mncLen)
	return p
}

func (c *ctx) randPlmn() plmnT {
	w := 2 + c.r.Rng.Intn(2)
	return mkPlmn(c.r.Rng.Intn(1000), c.r.Rng.Intn(pow10(w)), w)
}
func pow10(n int) int {
	p := 1
	for i := 0; i < n; i++ {
		p *= 10
	}
	return p
}

func (c *ctx) randAmf() amfT {
	rng := c.r.Rng
	pick := func(bits uint, edge []uint32) uint32 {
		if rng.Intn(3) == 0 {
			return edge[rng.Intn(len(edge))]
		}
		return uint32(rng.Next()) & (1<<bits - 1)
	}
	return amfT{pick(8, []uint32{0, 1, 0x7f, 0x80, 0xfe, 0xff}),
		pick(10, []uint32{0, 1, 2, 3, 4, 0xff, 0x100, 0x1ff, 0x200, 0x2aa, 0x155, 0x3fc, 0x3fd, 0x3fe, 0x3ff}),
		pick(6, []uint32{0, 1, 0x1f, 0x20, 0x2a, 0x15, 0x3e, 0x3f})}
}

func (c *ctx) randTmsi() uint32 {
	switch c.r.Rng.Intn(6) {
	case 0:
		return []uint32{0, 1, 0xff, 0x100, 0xffff, 0x10000, 0x7fffffff, 0x80000000, 0xfffffffe, 0xffffffff}[c.r.Rng.Intn(10)]
	}
	return uint32(c.r.Rng.Next())
}

func (c *ctx) randDigits(n int) []int {
	ds := make([]int, n)
	for i := range ds {
		ds[i] = c.r.Rng.Intn(10)
	}
	return ds
}

// ---- PLMN
func (c *ctx) plmnCheck(p plmnT, withCase bool, stream string) {
	wire, text := p.wire(), p.text()
	oN := iPlmnNas(p.mccText(), p.mncText())
	c.expectStrs("nasConvert.PlmnIDToNas", text, oN, string(wire))
	oS := iPlmnStr(wire)
	c.expectStrs("nasConvert.PlmnIDToString", hk.Hex(wire), oS, text)
	// round trips on the implementation
	if !oN.panicked && len(oN.strs) == 1 {
		if back := iPlmnStr([]byte(oN.strs[0])); back.panicked || len(back.strs) != 1 || back.strs[0] != text {
			c.fail("nasConvert.PlmnIDToNas", "roundtrip", text, "PlmnIDToString(PlmnIDToNas(text)) != text")
		}
	}
	if !oS.panicked && len(oS.strs) == 1 && len(oS.strs[0]) >= 5 {
		if back := iPlmnNas(oS.strs[0][:3], oS.strs[0][3:]); back.panicked || len(back.strs) != 1 || back.strs[0] != string(wire) {
			c.fail("nasConvert.PlmnIDToString", "roundtrip", hk.Hex(wire), "PlmnIDToNas(PlmnIDToString(wire)) != wire")
		}
	}
	if withCase {
		c.emit(stream, fmt.Sprintf("CPlmnNas %s %s", hk.CoqStr(p.mccText()), hk.CoqStr(p.mncText())), "PlmnIDToNas "+text, oN, "plmnnas"+text)
		c.emit(stream, "CPlmnStr "+hk.CoqBytes(wire), "PlmnIDToString "+hk.Hex(wire), oS, "plmnstr"+text)
	} else {
		c.r.Evals += 2
	}
}

// ---- AMF id
func (c *ctx) amfCheck(a amfT, withCase bool, stream string) {
	text := a.text()
	oN := iAmfNasE(text)
	if oN.panicked || oN.err || oN.nums[0] != int64(a.region) || oN.nums[1] != int64(a.set) || oN.nums[2] != int64(a.ptr) {
		c.fail("nasConvert.AmfIdToNasWithError", "mismatch", text, fmt.Sprintf("got %v %v, want region %d set %d pointer %d", oN.class(), oN.nums, a.region, a.set, a.ptr))
	}
	oM := iAmfModels(uint8(a.region), uint16(a.set), uint8(a.ptr))
	c.expectStrs("nasConvert.AmfIdToModels", text, oM, text)
	if withCase {
		c.emit(stream, "CAmfNasE "+hk.CoqStr(text), "AmfIdToNasWithError "+text, oN, "amfnas"+text)
		c.emit(stream, fmt.Sprintf("CAmfModels %d %d %d", a.region, a.set, a.ptr), "AmfIdToModels "+text, oM, "amfmod"+text)
	} else {
		c.r.Evals += 2
	}
}

// ---- GUTI
func (c *ctx) gutiCheck(p plmnT, a amfT, tmsi uint32, upper bool, full bool, stream string) {
	wire, text := specGutiWire(p, a, tmsi), specGutiText(p, a, tmsi)
	in := text
	if upper {
		in = strings.ToUpper(text)
	}
	oN := iGutiNasE(in)
	if oN.panicked || oN.err || oN.strs[0] != string(wire) || oN.nums[0] != 0 || oN.nums[1] != 11 {
		c.fail("nasConvert.GutiToNasWithError", "mismatch", in, fmt.Sprintf("got %s %x, want %x", oN.class(), oN.strs, wire))
	}
	oS := iGutiStrE(wire)
	c.expectStrs("nasConvert.GutiToStringWithError", hk.Hex(wire), oS, p.mccText(), p.mncText(), a.text(), text)
	// round trips on the implementation
	if !oN.panicked && !oN.err {
		if back := iGutiStrE([]byte(oN.strs[0])); back.panicked || back.err || back.strs[3] != text {
			c.fail("nasConvert.GutiToNasWithError", "roundtrip", in, "GutiToString(GutiToNas(text)) != text")
		}
	}
	if !oS.panicked && !oS.err {
		if back := iGutiNasE(oS.strs[3]); back.panicked || back.err || back.strs[0] != string(wire) {
			c.fail("nasConvert.GutiToStringWithError", "roundtrip", hk.Hex(wire), "GutiToNas(GutiToString(wire)) != wire")
		}
	}
	c.emit(stream, "CGutiNasE "+hk.CoqStr(in), "GutiToNasWithError "+in, oN, "gutinas"+in)
	c.emit(stream, "CGutiStrE "+hk.CoqBytes(wire), "GutiToStringWithError "+hk.Hex(wire), oS, "gutistr"+text)
	if !full {
		return
	}
	// the no-error wrappers and the nasType getters on the same octets
	c.emit(stream, "CGutiNas "+hk.CoqStr(in), "GutiToNas "+in, iGutiNas(in), "")
	c.emit(stream, "CGutiStr "+hk.CoqBytes(wire), "GutiToString "+hk.Hex(wire), iGutiStr(wire), "")
	for _, e := range []struct{ g, want string }{
		{"Get5GGUTI", text}, {"GetMCC", p.mccText()}, {"GetMNC", p.mncText()}, {"GetPlmnID", p.text()},
		{"GetAmfID", a.text()}, {"GetAmfRegionID", hexN(uint64(a.region), 2)},
		{"GetAmfSetID", decText(int(a.set))}, {"GetAmfPointer", decText(int(a.ptr))},
		{"Get5GTMSI", hexN(uint64(tmsi), 8)}, {"GetTypeOfIdentity", "5G-GUTI"},
	} {
		g := getterByName(e.g)
		o := c.getterCase(stream, g, wire, true)
		c.expectStrs("nasType.MobileIdentity5GS."+e.g, hk.Hex(wire), o, e.want)
	}
	o := c.getterCase(stream, getterByName("GetMobileIdentity"), wire, true)
	c.expectStrs("nasType.MobileIdentity5GS.GetMobileIdentity", hk.Hex(wire), o, text, "5G-GUTI")
	// GUTI5G accessors agree with AmfIdToNasWithError on the same octets
	var g5 nasType.GUTI5G
	copy(g5.Octet[:], wire)
	acc := okN(int64(g5.GetAMFRegionID()), int64(g5.GetAMFSetID()), int64(g5.GetAMFPointer()))
	if acc.nums[0] != int64(a.region) || acc.nums[1] != int64(a.set) || acc.nums[2] != int64(a.ptr) {
		c.fail("nasType.GUTI5G.GetAMFSetID/GetAMFPointer", "mismatch", hk.Hex(wire), fmt.Sprintf("got %v", acc.nums))
	}
	c.emit(stream, "CGutiAcc "+hk.CoqBytes(wire), "GUTI5G accessors "+hk.Hex(wire), acc, "")
}

// ---- 5G-S-TMSI
func (c *ctx) stmsiCheck(a amfT, tmsi uint32, stream string) {
	wire, text := specStmsiWire(a, tmsi), specStmsiText(a, tmsi)
	for _, e := range []struct {
		g    string
		want []string
	}{
		{"Get5GSTMSI", []string{text, "5G-S-TMSI"}}, {"Get5GTMSI", []string{hexN(uint64(tmsi), 8)}},
		{"GetAmfSetID", []string{decText(int(a.set))}}, {"GetAmfPointer", []string{decText(int(a.ptr))}},
		{"GetTypeOfIdentity", []string{"5G-S-TMSI"}},
	} {
		o := c.getterCase(stream, getterByName(e.g), wire, true)
		c.expectStrs("nasType.MobileIdentity5GS."+e.g, hk.Hex(wire), o, e.want...)
	}
	// F25 (fixed, c23cc0d): GetMobileIdentity used to answer the 5G-TMSI only
	og := c.getterCase(stream, getterByName("GetMobileIdentity"), wire, true)
	c.expectStrs("nasType.MobileIdentity5GS.GetMobileIdentity", hk.Hex(wire), og, text, "5G-S-TMSI")
	var t nasType.TMSI5GS
	copy(t.Octet[:], wire)
	o := catch(func() obsT {
		s, ty, err := t.Get5GSTMSI()
		if err != nil {
			return obsT{err: true}
		}
		return okS(s, ty)
	})
	c.expectStrs("nasType.TMSI5GS.Get5GSTMSI", hk.Hex(wire), o, text, "5G-S-TMSI")
	c.emit(stream, "CTmsiStmsi "+hk.CoqBytes(wire), "TMSI5GS.Get5GSTMSI "+hk.Hex(wire), o, "stmsi"+text)
	acc := okN(int64(t.GetAMFSetID()), int64(t.GetAMFPointer()))
	if acc.nums[0] != int64(a.set) || acc.nums[1] != int64(a.ptr) {
		c.fail("nasType.TMSI5GS.GetAMFSetID/GetAMFPointer", "mismatch", hk.Hex(wire), fmt.Sprintf("got %v", acc.nums))
	}
	c.emit(stream, "CTmsiAcc "+hk.CoqBytes(wire), "TMSI5GS accessors "+hk.Hex(wire), acc, "")
}

// ---- accessors: set then get, and agreement with AmfIdToNasWithError
func (c *ctx) accCheck(prior []byte, set uint16, ptr uint8, stream string) {
	var g nasType.GUTI5G
	copy(g.Octet[:], prior)
	region := g.Octet[4]
	g.SetAMFSetID(set)
	g.SetAMFPointer(ptr)
	oct := hk.Exact(g.Octet[:])
	c.emit(stream, fmt.Sprintf("CGutiSet %s %d %d", hk.CoqBytes(prior[:11]), set, ptr), fmt.Sprintf("GUTI5G set %x %d %d", prior[:11], set, ptr), okS(string(oct)), "gset"+hk.Hex(oct))
	wantSet, wantPtr := set&0x3ff, ptr&0x3f
	if g.GetAMFSetID() != wantSet || g.GetAMFPointer() != wantPtr || g.Octet[4] != region {
		c.fail("nasType.GUTI5G.SetAMFSetID/SetAMFPointer", "mismatch", fmt.Sprintf("%x/%d/%d", prior[:11], set, ptr), "get after set differs")
	}
	o := iAmfNasE(hexOfOctets(oct[4:7]))
	if o.panicked || o.err || o.nums[0] != int64(region) || o.nums[1] != int64(g.GetAMFSetID()) || o.nums[2] != int64(g.GetAMFPointer()) {
		c.fail("nasType.GUTI5G.GetAMFSetID/GetAMFPointer", "mismatch", hk.Hex(oct), "accessors disagree with AmfIdToNasWithError on the same octets")
	}
	for i := 0; i < 11; i++ {
		if i != 5 && i != 6 && oct[i] != prior[i] {
			c.fail("nasType.GUTI5G.SetAMFSetID/SetAMFPointer", "mismatch", fmt.Sprintf("%x/%d/%d", prior[:11], set, ptr), "octet outside 5..6 changed")
		}
	}
	// each setter alone leaves the other field (and every other octet) as it was
	{
		var g1, g2 nasType.GUTI5G
		copy(g1.Octet[:], prior)
		copy(g2.Octet[:], prior)
		g1.SetAMFSetID(set)
		g2.SetAMFPointer(ptr)
		c.emit(stream, fmt.Sprintf("CGutiSetId %s %d", hk.CoqBytes(prior[:11]), set), fmt.Sprintf("GUTI5G SetAMFSetID %x %d", prior[:11], set), okS(string(g1.Octet[:])), "")
		c.emit(stream, fmt.Sprintf("CGutiSetPtr %s %d", hk.CoqBytes(prior[:11]), ptr), fmt.Sprintf("GUTI5G SetAMFPointer %x %d", prior[:11], ptr), okS(string(g2.Octet[:])), "")
		if g1.GetAMFSetID() != wantSet || g1.GetAMFPointer() != prior[6]&0x3f {
			c.fail("nasType.GUTI5G.SetAMFSetID", "mismatch", fmt.Sprintf("%x/%d", prior[:11], set), "SetAMFSetID did not store the set id or changed the AMF pointer")
		}
		if g2.GetAMFPointer() != wantPtr || g2.GetAMFSetID() != uint16(prior[5])<<2|uint16(prior[6])>>6 {
			c.fail("nasType.GUTI5G.SetAMFPointer", "mismatch", fmt.Sprintf("%x/%d", prior[:11], ptr), "SetAMFPointer did not store the pointer or changed the AMF set id")
		}
		var t1, t2 nasType.TMSI5GS
		copy(t1.Octet[:], prior[:7])
		copy(t2.Octet[:], prior[:7])
		t1.SetAMFSetID(set)
		t2.SetAMFPointer(ptr)
		c.emit(stream, fmt.Sprintf("CTmsiSetId %s %d", hk.CoqBytes(prior[:7]), set), fmt.Sprintf("TMSI5GS SetAMFSetID %x %d", prior[:7], set), okS(string(t1.Octet[:])), "")
		c.emit(stream, fmt.Sprintf("CTmsiSetPtr %s %d", hk.CoqBytes(prior[:7]), ptr), fmt.Sprintf("TMSI5GS SetAMFPointer %x %d", prior[:7], ptr), okS(string(t2.Octet[:])), "")
		if t1.GetAMFSetID() != wantSet || t1.GetAMFPointer() != prior[2]&0x3f {
			c.fail("nasType.TMSI5GS.SetAMFSetID", "mismatch", fmt.Sprintf("%x/%d", prior[:7], set), "SetAMFSetID did not store the set id or changed the AMF pointer")
		}
		if t2.GetAMFPointer() != wantPtr || t2.GetAMFSetID() != uint16(prior[1])<<2|uint16(prior[2])>>6 {
			c.fail("nasType.TMSI5GS.SetAMFPointer", "mismatch", fmt.Sprintf("%x/%d", prior[:7], ptr), "SetAMFPointer did not store the pointer or changed the AMF set id")
		}
	}
	var t nasType.TMSI5GS
	copy(t.Octet[:], prior[:7])
	t.SetAMFSetID(set)
	t.SetAMFPointer(ptr)
	c.emit(stream, fmt.Sprintf("CTmsiSet %s %d %d", hk.CoqBytes(prior[:7]), set, ptr), fmt.Sprintf("TMSI5GS set %x %d %d", prior[:7], set, ptr), okS(string(t.Octet[:])), "")
	if t.GetAMFSetID() != wantSet || t.GetAMFPointer() != wantPtr {
		c.fail("nasType.TMSI5GS.SetAMFSetID/SetAMFPointer", "mismatch", fmt.Sprintf("%x/%d/%d", prior[:7], set, ptr), "get after set differs")
	}
}

// ---- SUCI
func (c *ctx) suciCheck(s suciT, stream string) {
	wire, text := s.wire(), s.text()
	o := c.byteFnCase(stream, fnByName("SuciToStringWithError"), wire, true)
	c.expectStrs("nasConvert.SuciToStringWithError", hk.Hex(wire), o, text, s.p.text())
	c.byteFnCase(stream, fnByName("SuciToString"), wire, true)
	for _, e := range []struct{ g, want string }{
		{"GetSUCI", text}, {"GetMCC", s.p.mccText()}, {"GetMNC", s.p.mncText()}, {"GetPlmnID", s.p.text()}, {"GetTypeOfIdentity", "SUCI"},
	} {
		og := c.getterCase(stream, getterByName(e.g), wire, true)
		c.expectStrs("nasType.MobileIdentity5GS."+e.g, hk.Hex(wire), og, e.want)
	}
	og := c.getterCase(stream, getterByName("GetMobileIdentity"), wire, true)
	c.expectStrs("nasType.MobileIdentity5GS.GetMobileIdentity", hk.Hex(wire), og, text, "SUCI")
}

func (c *ctx) naiCheck(nai []byte, stream string) {
	wire := append([]byte{0x11}, nai...)
	text := "nai-1-" + hexOfOctets(nai)
	o := c.byteFnCase(stream, fnByName("SuciToStringWithError"), wire, true)
	c.expectStrs("nasConvert.SuciToStringWithError", hk.Hex(wire), o, text, "")
	o = c.byteFnCase(stream, fnByName("NaiToString"), wire, true)
	c.expectStrs("nasConvert.NaiToString", hk.Hex(wire), o, text)
	og := c.getterCase(stream, getterByName("GetSUCI"), wire, true)
	c.expectStrs("nasType.MobileIdentity5GS.GetSUCI", hk.Hex(wire), og, text)
}

// ---- PEI
func (c *ctx) peiCheck(typ int, ds []int, stream string) {
	wire, text := specPeiWire(typ, ds), specPeiText(typ, ds)
	o := c.byteFnCase(stream, fnByName("PeiToStringWithError"), wire, true)
	c.expectStrs("nasConvert.PeiToStringWithError", hk.Hex(wire), o, text)
	c.byteFnCase(stream, fnByName("PeiToString"), wire, true)
	name, tyName := "GetIMEI", "IMEI"
	if typ == 5 {
		name, tyName = "GetIMEISV", "IMEISV"
	}
	og := c.getterCase(stream, getterByName(name), wire, true)
	c.expectStrs("nasType.MobileIdentity5GS."+name, hk.Hex(wire), og, text)
	og = c.getterCase(stream, getterByName("GetMobileIdentity"), wire, true)
	c.expectStrs("nasType.MobileIdentity5GS.GetMobileIdentity", hk.Hex(wire), og, text, tyName)
	// the other one of GetIMEI/GetIMEISV answers ""
	other := "GetIMEISV"
	if typ == 5 {
		other = "GetIMEI"
	}
	og = c.getterCase(stream, getterByName(other), wire, true)
	c.expectStrs("nasType.MobileIdentity5GS."+other, hk.Hex(wire), og, "")
}

// ---- malformed / arbitrary text
func (c *ctx) gutiTextCase(s string, stream string) {
	o := iGutiNasE(s)
	valid := validGutiText(s)
	switch {
	case o.panicked:
		c.fail("nasConvert.GutiToNasWithError", "panic", fmt.Sprintf("%q", s), "panics on text input")
	case !valid && !o.err:
		c.fail("nasConvert.GutiToNasWithError", "accepts-invalid", fmt.Sprintf("%q", s), "invalid GUTI text is not reported as an error")
	case valid && o.err:
		c.fail("nasConvert.GutiToNasWithError", "mismatch", fmt.Sprintf("%q", s), "valid GUTI text rejected")
	}
	key := ""
	if valid {
		key = "gt" + s
	}
	c.emit(stream, "CGutiNasE "+hk.CoqStr(s), fmt.Sprintf("GutiToNasWithError %q", s), o, key)
	if c.r.Rng.Intn(4) == 0 {
		ow := iGutiNas(s)
		if ow.panicked {
			c.fail("nasConvert.GutiToNas", "panic", fmt.Sprintf("%q", s), "panics on text input")
		}
		c.emit(stream, "CGutiNas "+hk.CoqStr(s), fmt.Sprintf("GutiToNas %q", s), ow, "")
	}
}

func (c *ctx) amfTextCase(s string, stream string) {
	o := iAmfNasE(s)
	valid := validAmfText(s)
	switch {
	case o.panicked:
		c.fail("nasConvert.AmfIdToNasWithError", "panic", fmt.Sprintf("%q", s), "panics on text input")
	case !valid && !o.err:
		c.fail("nasConvert.AmfIdToNasWithError", "accepts-invalid", fmt.Sprintf("%q", s), "invalid AMF id text is not reported as an error")
	case valid && o.err:
		c.fail("nasConvert.AmfIdToNasWithError", "mismatch", fmt.Sprintf("%q", s), "valid AMF id text rejected")
	}
	key := ""
	if valid {
		key = "at" + s
	}
	c.emit(stream, "CAmfNasE "+hk.CoqStr(s), fmt.Sprintf("AmfIdToNasWithError %q", s), o, key)
	if c.r.Rng.Intn(4) == 0 {
		ow := iAmfNas(s)
		if ow.panicked {
			c.fail("nasConvert.AmfIdToNas", "panic", fmt.Sprintf("%q", s), "panics on text input")
		}
		c.emit(stream, "CAmfNas "+hk.CoqStr(s), fmt.Sprintf("AmfIdToNas %q", s), ow, "")
	}
}

var junkChars = []string{"g", "G", "x", " ", "-", "+", "_", ":", "/", "@", "`", "\x00", "\x7f", "\x80", "\xff", "é", "９", "²", "a", "F", "0", "9"}

func (c *ctx) mutateText(s string) string {
	rng := c.r.Rng
	b := []byte(s)
	switch rng.Intn(6) {
	case 0: // replace one octet by junk (length preserved when the junk is one octet)
		if len(b) > 0 {
			i := rng.Intn(len(b))
			j := junkChars[rng.Intn(len(junkChars))]
			return string(b[:i]) + j + string(b[i+1:])
		}
	case 1: // replace keeping the length even for multi-byte junk
		if len(b) > 2 {
			j := junkChars[rng.Intn(len(junkChars))]
			i := rng.Intn(len(b) - len(j) + 1)
			return string(b[:i]) + j + string(b[i+len(j):])
		}
	case 2: // drop
		if len(b) > 0 {
			i := rng.Intn(len(b))
			return string(b[:i]) + string(b[i+1:])
		}
	case 3: // insert
		i := rng.Intn(len(b) + 1)
		return string(b[:i]) + junkChars[rng.Intn(len(junkChars))] + string(b[i:])
	case 4: // truncate
		return string(b[:rng.Intn(len(b)+1)])
	case 5: // random octet
		if len(b) > 0 {
			b[rng.Intn(len(b))] = rng.Byte()
			return string(b)
		}
	}
	return s + "0"
}

// ---------------------------------------------------------------- stdlib micro-correspondence
func (c *ctx) stdlib() {
	r, rng := c.r, c.r.Rng
	st := "stdlib"
	randStr := func(alpha string, n int) string {
		b := make([]byte, n)
		for i := range b {
			b[i] = alpha[rng.Intn(len(alpha))]
		}
		return string(b)
	}
	// hex
	for i := 0; i < r.N(40, 400); i++ {
		b := rng.Bytes(rng.Intn(9))
		c.emit(st, "CHexEnc "+hk.CoqBytes(b), "hex.EncodeToString "+hk.Hex(b), okS(hex.EncodeToString(b)), "he"+hk.Hex(b))
	}
	hexDec := func(s string) {
		b, err := hex.DecodeString(s)
		o := okS(string(b))
		if err != nil {
			o = obsT{err: true}
		}
		c.emit(st, "CHexDec "+hk.CoqStr(s), fmt.Sprintf("hex.DecodeString %q", s), o, "hd"+s)
	}
	for _, s := range []string{"", "0", "00", "0g", "g0", "fF", "Ff", "aA0", "zz", "0x10", " 00", "00 ", "/0", ":0", "@0", "G0", "`0", "g", "\x80\x80", "é"} {
		hexDec(s)
	}
	for i := 0; i < r.N(60, 600); i++ {
		s := randStr("0123456789abcdefABCDEF", rng.Intn(10))
		if rng.Intn(3) == 0 {
			s = c.mutateText(s)
		}
		hexDec(s)
	}
	// Atoi
	atoi := func(s string) {
		v, err := strconv.Atoi(s)
		o := okN(int64(v))
		if err != nil {
			o = obsT{err: true}
		}
		c.emit(st, "CAtoi "+hk.CoqStr(s), fmt.Sprintf("strconv.Atoi %q", s), o, "at"+s)
	}
	for _, s := range []string{"", "0", "9", "+", "-", "+0", "-0", "-9", "+9", "++1", "--1", "+-1", "1+", "1-", " 1", "1 ", "1_0", "0x1", "1e3", "12a",
		"00012", "-00012", "9223372036854775807", "9223372036854775808", "-9223372036854775808", "-9223372036854775809",
		"18446744073709551615", "18446744073709551616", "99999999999999999999999", "-99999999999999999999999", "999999999999999999", "1234567890123456789",
		"/", ":", "a", "é", "\x80", "٣"} {
		atoi(s)
	}
	for i := 0; i < r.N(60, 600); i++ {
		s := randStr("0123456789", 1+rng.Intn(21))
		switch rng.Intn(5) {
		case 0:
			s = "-" + s
		case 1:
			s = "+" + s
		case 2:
			s = c.mutateText(s)
		}
		atoi(s)
	}
	for b := 0; b < 256; b++ { // strconv.Atoi(string(byte)) exactly as PlmnIDToNas / GutiToNasWithError call it
		v, err := strconv.Atoi(string(byte(b)))
		o := okN(int64(v))
		if err != nil {
			o = obsT{err: true}
		}
		c.emit(st, fmt.Sprintf("CAtoiByte %d", b), fmt.Sprintf("strconv.Atoi(string(byte(%d)))", b), o, fmt.Sprintf("ab%d", b))
	}
	// ParseInt: directed (order of syntax / range errors; the bitSize-1 quirk found by the thorough run)
	for _, e := range []struct {
		s        string
		base, bs int
	}{{"-5a8b3", 10, 1}, {"-32768", 8, 1}, {"-2", 10, 1}, {"-1", 10, 1}, {"-0", 10, 1}, {"-1x", 10, 1}, {"1x", 10, 1}, {"1", 10, 1}, {"0", 10, 1},
		{"-2x", 10, 2}, {"-3", 10, 2}, {"-2", 10, 2}, {"1", 10, 2}, {"2", 10, 2}, {"99999999999999999999x", 10, 64}, {"-99999999999999999999x", 10, 0},
		{"x99999999999999999999", 10, 64}, {"ffffffffffffffffg", 16, 64}, {"7fffffffffffffff", 16, 64}, {"-8000000000000000", 16, 64}, {"8000000000000000", 16, 0}} {
		v, err := strconv.ParseInt(e.s, e.base, e.bs)
		o := okN(v)
		if err != nil {
			o = obsT{err: true}
		}
		c.emit(st, fmt.Sprintf("CParseInt %s %d %d", hk.CoqStr(e.s), e.base, e.bs), fmt.Sprintf("strconv.ParseInt(%q,%d,%d)", e.s, e.base, e.bs), o, fmt.Sprintf("pi%s/%d/%d", e.s, e.base, e.bs))
	}
	// ParseInt
	for i := 0; i < r.N(80, 800); i++ {
		base := []int{10, 16, 2, 36, 8, 1, 37}[rng.Intn(7)]
		if i%3 == 0 {
			base = 10
		}
		bitsz := []int{0, 8, 16, 32, 64, 1, 7, 65}[rng.Intn(8)]
		s := randStr("0123456789abcdefzZAF"[:1+rng.Intn(20)], 1+rng.Intn(8))
		switch rng.Intn(8) {
		case 0:
			s = "-" + s
		case 1:
			s = "+" + s
		case 2:
			s = c.mutateText(s)
		case 3:
			s = []string{"127", "128", "-128", "-129", "32767", "32768", "-32768", "-32769", "2147483647", "2147483648", "-2147483648", "-2147483649",
				"9223372036854775807", "9223372036854775808", "-9223372036854775808", "-9223372036854775809", "7fff", "8000", "-8000", "-8001", "0", "-0", "1", "-1", "-2"}[rng.Intn(25)]
		}
		v, err := strconv.ParseInt(s, base, bitsz)
		o := okN(v)
		if err != nil {
			o = obsT{err: true}
		}
		c.emit(st, fmt.Sprintf("CParseInt %s %d %d", hk.CoqStr(s), base, bitsz), fmt.Sprintf("strconv.ParseInt(%q,%d,%d)", s, base, bitsz), o, fmt.Sprintf("pi%s/%d/%d", s, base, bitsz))
	}
	// FormatUint, Sprintf
	for i := 0; i < r.N(60, 600); i++ {
		v := rng.Next() >> uint(rng.Intn(64))
		if i < 12 {
			v = []uint64{0, 1, 9, 10, 99, 100, 255, 256, 1023, 65535, 1<<63 - 1, 1<<64 - 1}[i]
		}
		base := []int{10, 16, 2}[rng.Intn(3)]
		if i < 24 {
			base = 10 + 6*(i%2)
		}
		c.emit(st, fmt.Sprintf("CFormatUint %d %d", v, base), fmt.Sprintf("strconv.FormatUint(%d,%d)", v, base), okS(strconv.FormatUint(v, base)), fmt.Sprintf("fu%d/%d", v, base))
	}
	for b := 0; b < 256; b++ {
		if !r.Thorough() && b > 20 && b < 250 && b%7 != 0 && b != 99 && b != 100 && b != 101 && b != 127 && b != 128 {
			continue
		}
		c.emit(st, fmt.Sprintf("CSprintfX %d", b), fmt.Sprintf("Sprintf(%%x,%d)", b), okS(fmt.Sprintf("%x", byte(b))), fmt.Sprintf("sx%d", b))
		c.emit(st, fmt.Sprintf("CSprintfD %d", b), fmt.Sprintf("Sprintf(%%d,%d)", b), okS(fmt.Sprintf("%d", byte(b))), fmt.Sprintf("sd%d", b))
	}
	for _, z := range []int{0, 1, 9, 10, 11, 59, 99, 100, 101, 1234, -1, -9, -10, -99, -100} {
		c.emit(st, "CSprintf02d "+coqZ(int64(z)), fmt.Sprintf("Sprintf(%%02d,%d)", z), okS(fmt.Sprintf("%02d", z)), fmt.Sprintf("s2%d", z))
	}
	// strings
	coqStrs := func(l []string) string {
		ss := make([]string, len(l))
		for i, s := range l {
			ss[i] = hk.CoqStr(s)
		}
		return hk.CoqList(ss)
	}
	for i := 0; i < r.N(80, 800); i++ {
		s := randStr("ab-", rng.Intn(10))
		sep := randStr("ab-", 1+rng.Intn(2))
		if i%2 == 0 {
			sep = "-"
		}
		if i%5 == 0 {
			sep = "--"
			s = randStr("-a", rng.Intn(10))
		}
		parts := strings.Split(s, sep)
		c.emit(st, fmt.Sprintf("CSplit %s %s", hk.CoqStr(s), hk.CoqStr(sep)), fmt.Sprintf("strings.Split(%q,%q)", s, sep), obsT{strs: parts}, "sp"+s+"/"+sep)
		c.emit(st, fmt.Sprintf("CJoin %s %s", coqStrs(parts), hk.CoqStr(sep)), fmt.Sprintf("strings.Join(%q,%q)", parts, sep), okS(strings.Join(parts, sep)), "")
		sub := randStr("ab-", rng.Intn(3))
		c.emit(st, fmt.Sprintf("CIndex %s %s", hk.CoqStr(s), hk.CoqStr(sub)), fmt.Sprintf("strings.Index(%q,%q)", s, sub), okN(int64(strings.Index(s, sub))), "ix"+s+"/"+sub)
		hp := int64(0)
		if strings.HasPrefix(s, sub) {
			hp = 1
		}
		c.emit(st, fmt.Sprintf("CHasPrefix %s %s", hk.CoqStr(s), hk.CoqStr(sub)), fmt.Sprintf("strings.HasPrefix(%q,%q)", s, sub), okN(hp), "")
	}
	c.emit(st, "CJoin [] [45]", "strings.Join([],-)", okS(strings.Join(nil, "-")), "")
	c.emit(st, "CJoin [[97]] [45]", "strings.Join([a],-)", okS(strings.Join([]string{"a"}, "-")), "")
	// bits.RotateLeft8
	for x := 0; x < 256; x++ {
		if !r.Thorough() && x%5 != 0 && x != 255 && x != 1 && x != 0x0f && x != 0xf1 {
			continue
		}
		c.emit(st, fmt.Sprintf("CRotl %d %s", x, coqZ(4)), fmt.Sprintf("RotateLeft8(%d,4)", x), okN(int64(bits.RotateLeft8(uint8(x), 4))), fmt.Sprintf("r4/%d", x))
	}
	for i := 0; i < r.N(40, 400); i++ {
		x, k := rng.Byte(), rng.Intn(41)-20
		c.emit(st, fmt.Sprintf("CRotl %d %s", x, coqZ(int64(k))), fmt.Sprintf("RotateLeft8(%d,%d)", x, k), okN(int64(bits.RotateLeft8(x, k))), fmt.Sprintf("r%d/%d", k, x))
	}
	// binary.BigEndian
	for i := 0; i < r.N(30, 300); i++ {
		b := rng.Bytes(rng.Intn(7))
		c.emit(st, "CBE16 "+hk.CoqBytes(b), "BigEndian.Uint16 "+hk.Hex(b), catch(func() obsT { return okN(int64(binary.BigEndian.Uint16(b))) }), "")
		c.emit(st, "CBE32 "+hk.CoqBytes(b), "BigEndian.Uint32 "+hk.Hex(b), catch(func() obsT { return okN(int64(binary.BigEndian.Uint32(b))) }), "")
		v := uint32(rng.Next())
		b2 := hk.Exact(b)
		c.emit(st, fmt.Sprintf("CPut16 %s %d", hk.CoqBytes(b), uint16(v)), "BigEndian.PutUint16", catch(func() obsT { binary.BigEndian.PutUint16(b2, uint16(v)); return okS(string(b2)) }), "")
		b3 := hk.Exact(b)
		c.emit(st, fmt.Sprintf("CPut32 %s %d", hk.CoqBytes(b), v), "BigEndian.PutUint32", catch(func() obsT { binary.BigEndian.PutUint32(b3, v); return okS(string(b3)) }), "")
	}
	// nasType.GetBitMask as used by the accessors
	for _, p := range [][2]uint8{{6, 0}, {8, 2}, {8, 4}, {4, 0}, {3, 0}, {4, 3}, {8, 0}, {6, 6}, {0, 0}, {2, 5}, {8, 7}} {
		c.emit(st, fmt.Sprintf("CBitMask %d %d", p[0], p[1]), fmt.Sprintf("GetBitMask(%d,%d)", p[0], p[1]), okN(int64(nasType.GetBitMask(p[0], p[1]))), "")
	}
	for b := 0; b < 256; b += 17 {
		c.emit(st, fmt.Sprintf("CConvType %d", b), fmt.Sprintf("nasConvert.GetTypeOfIdentity(%d)", b), okN(int64(nasConvert.GetTypeOfIdentity(byte(b)))), "")
	}
}

func runC12(r *hk.Run) {
	logger.GetLogger().SetOutput(io.Discard) // PlmnIDToNas / the no-error wrappers log every rejected input
	log.SetOutput(io.Discard)                // AmfIdToNas uses the standard logger
	r.SetCoq("From NV Require Import Lib.Base C12.GoStd C12.Model C12.Corr.\nOpen Scope N_scope.", "case")
	c := &ctx{r: r, f9: map[string]hk.Failure{}}
	if os.Getenv("VERIF_ASSUME_KNOWN_PROPOSED") == "1" {
		if data, err := os.ReadFile("/verif/build/known_proposed/C12.json"); err == nil {
			var doc struct {
				Findings []map[string]interface{} `json:"findings"`
			}
			if json.Unmarshal(data, &doc) == nil {
				c.proposed = doc.Findings
			}
		}
	}
	rng := r.Rng

	// ================= (1) corpus: witnesses of fixed / known defects and the repository's own test vectors
	st := "corpus"
	c.amfTextCase("", st)       // F3 (fixed): index panic
	c.amfTextCase("aa", st)     // F3
	c.amfTextCase("cafe41", st) // F2 (fixed): AmfIdToModels lost the << 6
	c.amfCheck(amfT{0xca, 0x3f9, 0x01}, true, st)
	c.amfCheck(amfT{0xca, 0x3f8, 0x00}, true, st)
	c.accCheck([]byte{0xf2, 0, 0, 0, 0, 0, 0x2a, 0, 0, 0, 0}, 0x155, 0x2a, st) // F1 (fixed): SetAMFSetID cleared the pointer
	c.accCheck([]byte{0xf2, 0, 0, 0, 0, 0xff, 0xff, 0, 0, 0, 0}, 0, 0, st)
	for _, w := range [][]byte{
		{0x01, 0x02, 0xf8, 0x39, 0xf0, 0xff, 0x00, 0x00, 0x00, 0x00, 0x00, 0xf1},
		{0x01, 0x02, 0x58, 0x39, 0xf0, 0xff, 0x01, 0x00, 0x00, 0x00, 0x00, 0x10},
		{0x11, 0x02, 0x58, 0x39, 0xf0, 0xff, 0x01, 0x00, 0x00, 0x00, 0x00, 0x10},
		{0x01, 0x02, 0xf8, 0x39, 0xf0, 0xff, 0x00, 0x00, 0x00},
		{0x01, 0x02, 0xf8, 0x39, 0xf0, 0xff, 0x00, 0x00}, // 8 octets, null scheme: GetSUCI indexes schemeOutput[-1] (F9)
		{0x01, 0x02, 0xf8, 0x39, 0xf0, 0xff, 0x01, 0x00}, // 8 octets, scheme 1: GetSUCI returns an empty scheme output
		{0x11, 0x02}, {0x11}, {},
		{0x01, 0x13, 0x00, 0x13, 0x0f, 0xff, 0x00, 0x00, 0x41, 0x00, 0x00, 0x21, 0xf0},
		{0xf2, 0x13, 0x00, 0x13, 0xca, 0xfe, 0x00, 0x00, 0x00, 0x00, 0x01},
		{0xf4, 0xfe, 0x00, 0x00, 0x00, 0x00, 0x01},
		{0x03, 0x00, 0x00, 0x00, 0x00, 0x00, 0x00, 0x02, 0xf0},
		{0x05, 0x00, 0x00, 0x00, 0x00, 0x00, 0x00, 0x02, 0xf0},
	} {
		for i := range byteFns {
			c.byteFnCase(st, &byteFns[i], w, true)
		}
		for i := range getters {
			c.getterCase(st, &getters[i], w, true)
		}
	}
	c.stmsiCheck(amfT{0, 0x3f8, 0}, 1, st) // F25 (fixed): f4 fe 00 00 00 00 01 -> GetMobileIdentity = "fe0000000001"
	c.gutiTextCase("20893cafe0000000001", st)
	c.gutiTextCase("208930cafe0000000001", st)
	c.suciCheck(suciT{p: mkPlmn(208, 93, 2), ri: []int{0}, scheme: 0, hnpki: 0, msin: []int{0, 0, 0, 0, 7, 4, 8, 7}}, st) // "suci-0-208-93-0-0-0-00007487"

	// ================= (2) directed
	st = "directed"
	// PLMN: every MCC x MNC of both widths on the implementation (1.1 M); boundary values as cases
	for mcc := 0; mcc < 1000; mcc++ {
		for mnc := 0; mnc < 100; mnc++ {
			c.plmnCheck(mkPlmn(mcc, mnc, 2), false, st)
		}
		for mnc := 0; mnc < 1000; mnc++ {
			c.plmnCheck(mkPlmn(mcc, mnc, 3), false, st)
		}
	}
	r.Streams["plmn_exhaustive_impl_only"] = 1100000
	r.Extra["plmn_exhaustive"] = 1100000
	for _, mcc := range []int{0, 1, 9, 10, 99, 100, 208, 310, 460, 901, 990, 999} {
		for _, mnc := range []int{0, 1, 9, 10, 93, 99} {
			c.plmnCheck(mkPlmn(mcc, mnc, 2), true, st)
		}
		for _, mnc := range []int{0, 1, 9, 10, 99, 100, 260, 935, 999} {
			c.plmnCheck(mkPlmn(mcc, mnc, 3), true, st)
		}
	}
	// PLMN text outside the documented domain: short (panic), non-digits (digit 0 + warning), long
	for _, e := range [][2]string{{"", "93"}, {"20", "93"}, {"208", ""}, {"208", "9"}, {"2a8", "93"}, {"208", "9x"}, {"208", "93\xff"}, {"2080", "9300"},
		{"é08", "93"}, {"+08", "-3"}, {"208", "935"}, {"\x80\x81\x82", "\xfe\xff"}} {
		c.emit(st, fmt.Sprintf("CPlmnNas %s %s", hk.CoqStr(e[0]), hk.CoqStr(e[1])), fmt.Sprintf("PlmnIDToNas %q %q", e[0], e[1]), iPlmnNas(e[0], e[1]), "")
	}
	// PlmnIDToString on arbitrary nibbles (hex letters, filler in other positions)
	for i := 0; i < r.N(60, 600); i++ {
		b := rng.Bytes(3)
		if i%4 == 0 {
			b[1] |= 0xf0
		}
		c.byteFnCase(st, fnByName("PlmnIDToString"), b, true)
	}
	// AMF ids: stratified over the 8/10/6 split
	for _, region := range []uint32{0, 1, 0x7f, 0x80, 0xff} {
		for _, set := range []uint32{0, 1, 2, 3, 4, 0xff, 0x100, 0x155, 0x2aa, 0x3fb, 0x3fc, 0x3ff} {
			for _, ptr := range []uint32{0, 1, 0x20, 0x3f} {
				c.amfCheck(amfT{region, set, ptr}, true, st)
			}
		}
	}
	for bit := uint(0); bit < 24; bit++ {
		v := uint32(1) << bit
		c.amfCheck(amfT{v >> 16, (v >> 6) & 0x3ff, v & 0x3f}, true, st)
		v = ^v & 0xffffff
		c.amfCheck(amfT{v >> 16, (v >> 6) & 0x3ff, v & 0x3f}, true, st)
	}
	if r.Thorough() {
		for v := uint32(0); v < 1<<24; v++ {
			c.amfCheck(amfT{v >> 16, (v >> 6) & 0x3ff, v & 0x3f}, false, st)
		}
		r.Streams["amfid_exhaustive_2^24_impl_only"] = 1 << 24
		r.Extra["amfid_exhaustive"] = 1 << 24
	}
	// AmfIdToModels outside its documented ranges (set >= 1024, pointer >= 64): correspondence only
	for _, e := range [][3]uint32{{0, 1024, 0}, {0, 0xffff, 0xff}, {0xff, 0x7ff, 0x40}, {1, 0x400, 0x7f}, {2, 0xfffc, 0x80}} {
		c.emit(st, fmt.Sprintf("CAmfModels %d %d %d", e[0], e[1], e[2]), fmt.Sprintf("AmfIdToModels %d %d %d", e[0], e[1], e[2]), iAmfModels(uint8(e[0]), uint16(e[1]), uint8(e[2])), "")
	}
	// AMF id text: every length 0..8, either case, junk in every position
	for n := 0; n <= 8; n++ {
		c.amfTextCase(strings.Repeat("a", n), st)
		c.amfTextCase(strings.Repeat("F", n), st)
	}
	for i := 0; i < 6; i++ {
		for _, j := range []string{"g", "G", " ", "\x80", "/", ":", "@", "`"} {
			s := []byte("0a1B2c")
			c.amfTextCase(string(s[:i])+j+string(s[i+1:]), st)
		}
	}
	c.amfTextCase("é0a1b", st)
	c.amfTextCase("0a1bé", st)
	c.amfTextCase("CAFE41", st)
	// GUTI
	for pi, p := range []plmnT{mkPlmn(208, 93, 2), mkPlmn(208, 935, 3), mkPlmn(0, 0, 2), mkPlmn(0, 0, 3), mkPlmn(999, 99, 2), mkPlmn(999, 999, 3), mkPlmn(310, 260, 3), mkPlmn(1, 1, 2)} {
		for ai, a := range []amfT{{0, 0, 0}, {0xff, 0x3ff, 0x3f}, {0xca, 0x3f9, 0x01}, {0x80, 0x200, 0x20}, {1, 1, 1}, {0, 3, 0}, {0, 0x3fc, 0}} {
			for k, t := range []uint32{0, 1, 0x80000000, 0xffffffff, 0xdeadbeef} {
				if r.Thorough() || (pi+ai)%5 == k {
					c.gutiCheck(p, a, t, false, (pi+ai)%3 == 0, st)
				}
			}
		}
	}
	c.gutiCheck(mkPlmn(208, 93, 2), amfT{0xca, 0x3f9, 0x01}, 0xdeadbeef, true, true, st) // upper-case hex is accepted text
	c.gutiCheck(mkPlmn(208, 935, 3), amfT{0xab, 0x2cd, 0x2f}, 0xabcdef01, true, true, st)
	// GUTI text: every length 0..24; junk at every position of both widths
	for n := 0; n <= 24; n++ {
		c.gutiTextCase(strings.Repeat("1", n), st)
	}
	for _, base := range []string{"20893cafe0000000001", "208930cafe0000000001"} {
		for i := 0; i < len(base); i++ {
			for _, j := range []string{"a", "g", "+", "-", " ", "\x80", "\xff", "/", ":"} {
				c.gutiTextCase(base[:i]+j+base[i+1:], st)
			}
		}
		c.gutiTextCase("é"+base[2:], st)
		c.gutiTextCase(base[:len(base)-2]+"é", st)
		c.gutiTextCase(base[:7]+"é"+base[9:], st)
	}
	// GUTI wire: wrong lengths, wrong type octet, hex-letter nibbles
	for n := 0; n <= 13; n++ {
		w := specGutiWire(mkPlmn(208, 93, 2), amfT{0xca, 0x3f9, 1}, 1)
		for len(w) < n {
			w = append(w, 0xaa)
		}
		c.byteFnCase(st, fnByName("GutiToStringWithError"), w[:n], true)
		c.byteFnCase(st, fnByName("GutiToString"), w[:n], true)
	}
	// 5G-S-TMSI
	for _, a := range []amfT{{0, 0, 0}, {0, 0x3ff, 0x3f}, {0, 0x3f8, 0}, {0, 0x155, 0x2a}, {0, 3, 1}, {0, 4, 0x20}} {
		for _, t := range []uint32{0, 1, 0xffffffff, 0x12345678} {
			c.stmsiCheck(a, t, st)
		}
	}
	// accessors
	for _, set := range []uint16{0, 1, 2, 3, 4, 0x155, 0x2aa, 0x3fc, 0x3ff, 0x400, 0x7ff, 0xffff} {
		for _, ptr := range []uint8{0, 1, 0x2a, 0x3f, 0x40, 0xff} {
			c.accCheck(make([]byte, 11), set, ptr, st)
			ff := []byte{0xff, 0xff, 0xff, 0xff, 0xff, 0xff, 0xff, 0xff, 0xff, 0xff, 0xff}
			c.accCheck(ff, set, ptr, st)
		}
	}
	// SUCI: routing indicators of every length, all digit boundaries
	for n := 1; n <= 4; n++ {
		for _, d := range []int{0, 1, 9} {
			ri := make([]int, n)
			for i := range ri {
				ri[i] = d
			}
			c.suciCheck(suciT{p: mkPlmn(208, 93, 2), ri: ri, scheme: 0, hnpki: 0, msin: []int{0, 0, 0, 0, 0, 0, 0, 0, 0, 1}}, st)
			ri2 := append([]int{}, ri...)
			ri2[n-1] = 9 - d
			c.suciCheck(suciT{p: mkPlmn(208, 935, 3), ri: ri2, scheme: 1, hnpki: 255, out: []byte{0xde, 0xad, 0xbe, 0xef}}, st)
		}
	}
	// MSIN lengths (odd / even), protection schemes, key ids
	for n := 1; n <= 12; n++ {
		c.suciCheck(suciT{p: mkPlmn(310, 260, 3), ri: []int{1, 2}, scheme: 0, hnpki: n, msin: digitsOf(123456789012%pow10(n), n)}, st)
		ds := make([]int, n)
		for i := range ds {
			ds[i] = 9
		}
		c.suciCheck(suciT{p: mkPlmn(1, 1, 2), ri: []int{0}, scheme: 0, hnpki: 0, msin: ds}, st)
	}
	for _, sch := range []int{1, 2, 3, 9, 10, 12, 15} {
		for _, k := range []int{0, 1, 9, 10, 99, 100, 199, 200, 255} {
			c.suciCheck(suciT{p: mkPlmn(208, 93, 2), ri: []int{6, 7, 8}, scheme: sch, hnpki: k, out: rng.Bytes(1 + rng.Intn(40))}, st)
		}
	}
	// SUCI wire not in the valid domain: filler patterns in the routing indicator, spare bits in the scheme octet,
	// hex-letter digits, 'f' inside the MSIN, every truncation point
	for i := 0; i < 16; i++ {
		w := suciT{p: mkPlmn(208, 93, 2), ri: []int{1, 2, 3, 4}, scheme: 0, hnpki: 7, msin: []int{1, 2, 3, 4, 5}}.wire()
		if i&1 != 0 {
			w[4] |= 0x0f
		}
		if i&2 != 0 {
			w[4] |= 0xf0
		}
		if i&4 != 0 {
			w[5] |= 0x0f
		}
		if i&8 != 0 {
			w[5] |= 0xf0
		}
		c.byteFnCase(st, fnByName("SuciToStringWithError"), w, true)
		c.getterCase(st, getterByName("GetSUCI"), w, true)
	}
	{
		full := suciT{p: mkPlmn(208, 935, 3), ri: []int{1}, scheme: 0, hnpki: 7, msin: []int{1, 2, 3, 4, 5}}.wire()
		full2 := suciT{p: mkPlmn(208, 935, 3), ri: []int{1}, scheme: 2, hnpki: 7, out: []byte{1, 2, 3}}.wire()
		for _, f := range [][]byte{full, full2, append([]byte{0x11}, full[1:]...), specGutiWire(mkPlmn(208, 93, 2), amfT{1, 2, 3}, 4), specStmsiWire(amfT{0, 2, 3}, 4),
			specPeiWire(3, digitsOf(123456789012345, 15)), specPeiWire(5, digitsOf(1234567890123456, 16)), {0x06, 1, 2, 3, 4, 5, 6, 7, 8, 9}, {0x00, 1, 2, 3, 4, 5, 6, 7, 8, 9}} {
			for n := 0; n <= len(f); n++ {
				for i := range byteFns {
					if byteFns[i].name != "PlmnIDToString" {
						c.byteFnCase(st, &byteFns[i], f[:n], n <= 9 || n == len(f))
					}
				}
				for i := range getters {
					c.getterCase(st, &getters[i], f[:n], n <= 9 || n == len(f))
				}
			}
		}
	}
	for _, w := range [][]byte{
		{0x01, 0xa2, 0xfb, 0xc9, 0x21, 0x43, 0x00, 0x00, 0x21, 0xf3},             // hex-letter digits
		{0x01, 0x02, 0xf8, 0x39, 0x21, 0x43, 0x10, 0x00, 0x21, 0xf3},             // spare bits set in the scheme octet
		{0x01, 0x02, 0xf8, 0x39, 0x21, 0x43, 0x00, 0x00, 0xf1, 0x32},             // filler inside the MSIN
		{0x01, 0x02, 0xf8, 0x39, 0x21, 0x43, 0x00, 0x00, 0xff},                   // MSIN = "ff"
		{0x21, 0x02, 0xf8, 0x39, 0x21, 0x43, 0x00, 0x00, 0x21},                   // SUPI format 2 (reserved)
		{0x09, 0x02, 0xf8, 0x39, 0x21, 0x43, 0x00, 0x00, 0x21},                   // spare bit 4 set
		{0x07, 0x02, 0xf8, 0x39, 0x21, 0x43, 0x00, 0x00, 0x21},                   // type 7: interpreted as SUCI
		{0x06, 0x02, 0xf8, 0x39, 0x21, 0x43, 0x00, 0x00, 0x21},                   // type 6: interpreted as SUCI
		{0x00, 0x02, 0xf8, 0x39, 0x21, 0x43, 0x00, 0x00, 0x21},                   // no identity
		{0x01, 0x02, 0xf8, 0x39, 0x21, 0x43, 0xff, 0xff, 0x21, 0x43, 0x65, 0x87}, // scheme 0xff
	} {
		for i := range byteFns {
			c.byteFnCase(st, &byteFns[i], w, true)
		}
		for i := range getters {
			c.getterCase(st, &getters[i], w, true)
		}
	}
	// NAI
	for _, n := range []int{1, 2, 3, 16, 40} {
		c.naiCheck(rng.Bytes(n), st)
	}
	c.naiCheck([]byte("type1.rid678.schid1.hnkey27.ecckey.cip.mac@example.com"), st)
	// IMEI / IMEISV
	c.peiCheck(3, digitsOf(123456789012345, 15), st)
	c.peiCheck(3, digitsOf(0, 15), st)
	c.peiCheck(3, digitsOf(999999999999999, 15), st)
	c.peiCheck(5, digitsOf(1234567890123456, 16), st)
	c.peiCheck(5, digitsOf(0, 16), st)
	c.peiCheck(5, digitsOf(9999999999999999, 16), st)
	for n := 1; n <= 20; n++ { // other digit counts, odd and even
		c.peiCheck(3, c.randDigits(n), st)
		c.peiCheck(5, c.randDigits(n), st)
	}

	// byte-input functions: every Buffer of length 0..2 on the implementation; as cases: length <= 1 exhaustively,
	// length 2 sampled (thorough: every first octet x 16 second octets), length 3 sampled
	st = "small_buffers"
	small := func(buf []byte, withCase bool) {
		for i := range byteFns {
			c.byteFnCase(st, &byteFns[i], buf, withCase)
		}
		for i := range getters {
			c.getterCase(st, &getters[i], buf, withCase)
		}
	}
	small([]byte{}, true)
	for a := 0; a < 256; a++ {
		// the first octet only matters through type (3 bits), odd bit, SUPI format nibble: as cases keep every value
		// for the getters that can return from one octet, every 5th value otherwise
		buf := []byte{byte(a)}
		for i := range byteFns {
			c.byteFnCase(st, &byteFns[i], buf, r.Thorough() || a%5 == 0 || byteFns[i].name == "PeiToStringWithError" || byteFns[i].name == "SuciToStringWithError")
		}
		for i := range getters {
			n := getters[i].name
			c.getterCase(st, &getters[i], buf, r.Thorough() || a%5 == 0 || n == "GetTypeOfIdentity" || n == "GetIMEI" || n == "GetIMEISV" || n == "GetMobileIdentity" || n == "GetAmfPointer")
		}
	}
	for a := 0; a < 256; a++ {
		for b := 0; b < 256; b++ {
			small([]byte{byte(a), byte(b)}, r.Thorough() && b%16 == (a*7)%16)
		}
	}
	r.Extra["buffers_len_le_2_exhaustive_impl"] = 1 + 256 + 65536
	for i := 0; i < r.N(12, 200); i++ {
		small(rng.Bytes(2), true)
	}
	for i := 0; i < r.N(12, 200); i++ {
		small(rng.Bytes(3), true)
	}
	if r.Thorough() { // every 3-octet Buffer on the implementation for the functions that can get past 3 octets
		for v := 0; v < 1<<24; v++ {
			buf := []byte{byte(v >> 16), byte(v >> 8), byte(v)}
			for _, n := range []string{"SuciToStringWithError", "PeiToStringWithError", "GutiToStringWithError"} {
				c.byteFnCase(st, fnByName(n), buf, false)
			}
			for _, n := range []string{"GetIMEI", "GetIMEISV", "GetAmfSetID", "GetAmfPointer", "GetMCC", "GetTypeOfIdentity"} {
				c.getterCase(st, getterByName(n), buf, false)
			}
		}
		r.Extra["buffers_len_3_exhaustive_impl"] = 1 << 24
	}

	// ================= (3) structured, mostly valid, random
	st = "random_valid"
	for i := 0; i < r.N(60, 1500); i++ {
		c.gutiCheck(c.randPlmn(), c.randAmf(), c.randTmsi(), rng.Intn(8) == 0, i%4 == 0, st)
	}
	for i := 0; i < r.N(100, 2000); i++ {
		c.plmnCheck(c.randPlmn(), true, st)
		c.amfCheck(c.randAmf(), true, st)
	}
	for i := 0; i < r.N(40, 800); i++ {
		c.stmsiCheck(c.randAmf(), c.randTmsi(), st)
	}
	for i := 0; i < r.N(80, 1500); i++ {
		s := suciT{p: c.randPlmn(), ri: c.randDigits(1 + rng.Intn(4)), hnpki: rng.Intn(256)}
		switch rng.Intn(3) {
		case 0:
			s.scheme, s.msin = 0, c.randDigits(1+rng.Intn(10))
		case 1:
			s.scheme, s.out = 1+rng.Intn(2), rng.Bytes(1+rng.Intn(48))
		case 2:
			s.scheme, s.out = 1+rng.Intn(15), rng.Bytes(1+rng.Intn(8))
		}
		c.suciCheck(s, st)
	}
	for i := 0; i < r.N(40, 800); i++ {
		if rng.Bool() {
			c.peiCheck(3, c.randDigits(15), st)
		} else {
			c.peiCheck(5, c.randDigits(16), st)
		}
	}
	for i := 0; i < r.N(10, 200); i++ {
		c.naiCheck(rng.Bytes(1+rng.Intn(60)), st)
	}
	for i := 0; i < r.N(60, 1000); i++ {
		c.accCheck(rng.Bytes(11), uint16(rng.Next()), rng.Byte(), st)
	}

	// ================= (4) malformed
	st = "malformed"
	for i := 0; i < r.N(250, 4000); i++ {
		s := specGutiText(c.randPlmn(), c.randAmf(), c.randTmsi())
		if rng.Intn(5) == 0 {
			s = strings.ToUpper(s)
		}
		for k := 0; k <= rng.Intn(2); k++ {
			s = c.mutateText(s)
		}
		c.gutiTextCase(s, st)
	}
	for i := 0; i < r.N(120, 2000); i++ {
		s := c.randAmf().text()
		for k := 0; k <= rng.Intn(2); k++ {
			s = c.mutateText(s)
		}
		c.amfTextCase(s, st)
	}
	for i := 0; i < r.N(30, 500); i++ { // arbitrary octet strings as text
		c.gutiTextCase(string(rng.Bytes(19+rng.Intn(2))), st)
		c.amfTextCase(string(rng.Bytes(6)), st)
	}
	// arbitrary Buffers with a structured first octet (each identity type, each SUPI format), lengths around the
	// decoder's / the getters' minimum lengths
	for i := 0; i < r.N(60, 1500); i++ {
		n := []int{4, 5, 6, 7, 8, 9, 10, 11, 12, 13, 20}[rng.Intn(11)]
		buf := rng.Bytes(n)
		buf[0] = byte(rng.Intn(8)) | byte(rng.Intn(2))<<3 | byte([]int{0, 1, 2, 0xf}[rng.Intn(4)])<<4
		if n > 6 && rng.Bool() {
			buf[6] = byte(rng.Intn(3))
		}
		for j := range byteFns {
			if byteFns[j].name != "PlmnIDToString" {
				c.byteFnCase(st, &byteFns[j], buf, j%2 == i%2)
			}
		}
		for j := range getters {
			c.getterCase(st, &getters[j], buf, j%3 == i%3)
		}
	}

	c.stdlib()

	// F9-class panics last
	for _, k := range c.f9order {
		r.Fail(c.f9[k])
	}
	for i, e := range getterSideEffects {
		if i >= 20 {
			break
		}
		c.fail("nasType.MobileIdentity5GS."+e[0], "getter-not-a-pure-read", e[1], e[2])
	}
	r.Extra["getter_purity_violations"] = len(getterSideEffects)
	r.Extra["getter_panics_total"] = c.f9count
	r.Extra["failures_suppressed_as_proposed_known"] = c.suppress
}
