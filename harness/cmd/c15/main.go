// C15: QoS rules (TS 24.501 9.11.4.13) and QoS flow descriptions (9.11.4.12).
//
// Runs nasType.QoSRules / nasType.QoSFlowDescs Marshal/UnmarshalBinary on generated
// values and byte strings, prints every call with its observed result as a Coq case
// (replayed on the model of coq/C15/Model.v), and evaluates the property directly:
//   - UnmarshalBinary never panics or hangs, on any byte string;
//   - an unknown component / parameter identifier gives an error;
//   - for a well-formed value x: Marshal succeeds, Unmarshal(Marshal(x)) equals x
//     (Go nil and empty slices identified), and Marshal(x) equals the octets computed
//     by specRules / specDescs below, an independent transcription of the TS format.
package main

import (
	"bytes"
	"fmt"
	"net"
	"strings"
	"time"

	"github.com/free5gc/nas/nasType"

	"verifharness/hk"
)

func main() { hk.Main("C15", run) }

// ---------------------------------------------------------------- Coq printers

func coqComp(c nasType.PacketFilterComponent) string {
	switch v := c.(type) {
	case *nasType.PacketFilterMatchAll:
		return "MatchAll"
	case *nasType.PacketFilterIPv4RemoteAddress:
		return fmt.Sprintf("IPv4RemoteAddress %s %s", hk.CoqBytes(v.Address), hk.CoqBytes(v.Mask))
	case *nasType.PacketFilterIPv4LocalAddress:
		return fmt.Sprintf("IPv4LocalAddress %s %s", hk.CoqBytes(v.Address), hk.CoqBytes(v.Mask))
	case *nasType.PacketFilterProtocolIdentifier:
		return fmt.Sprintf("ProtocolIdentifier %d", v.Value)
	case *nasType.PacketFilterSingleLocalPort:
		return fmt.Sprintf("SingleLocalPort %d", v.Value)
	case *nasType.PacketFilterLocalPortRange:
		return fmt.Sprintf("LocalPortRange %d %d", v.LowLimit, v.HighLimit)
	case *nasType.PacketFilterSingleRemotePort:
		return fmt.Sprintf("SingleRemotePort %d", v.Value)
	case *nasType.PacketFilterRemotePortRange:
		return fmt.Sprintf("RemotePortRange %d %d", v.LowLimit, v.HighLimit)
	case *nasType.PacketFilterSecurityParameterIndex:
		return fmt.Sprintf("SecurityParameterIndex %d", v.Index)
	case *nasType.PacketFilterServiceClass:
		return fmt.Sprintf("ServiceClass %d %d", v.Class, v.Mask)
	case *nasType.PacketFilterFlowLabel:
		return fmt.Sprintf("FlowLabel %d", v.Label)
	case *nasType.PacketFilterDestinationMACAddress:
		return fmt.Sprintf("DestinationMACAddress %s", hk.CoqBytes(v.MAC))
	case *nasType.PacketFilterSourceMACAddress:
		return fmt.Sprintf("SourceMACAddress %s", hk.CoqBytes(v.MAC))
	case *nasType.PacketFilterCTagVID:
		return fmt.Sprintf("CTagVID %d", v.VID)
	case *nasType.PacketFilterSTagVID:
		return fmt.Sprintf("STagVID %d", v.VID)
	case *nasType.PacketFilterCTagPCPDEI:
		return fmt.Sprintf("CTagPCPDEI %d", v.Value)
	case *nasType.PacketFilterSTagPCPDEI:
		return fmt.Sprintf("STagPCPDEI %d", v.Value)
	case *nasType.PacketFilterEtherType:
		return fmt.Sprintf("EtherType %d", v.EtherType)
	}
	panic(fmt.Sprintf("harness: component type %T has no model constructor", c))
}

func coqRules(q nasType.QoSRules) string {
	var rs []string
	for _, r := range q {
		var pfs []string
		for _, pf := range r.PacketFilterList {
			var cs []string
			for _, c := range pf.Components {
				cs = append(cs, coqComp(c))
			}
			pfs = append(pfs, fmt.Sprintf("mkPF %d %d %s", pf.Identifier, pf.Direction, hk.CoqList(cs)))
		}
		rs = append(rs, fmt.Sprintf("mkRule %d %d %s %s %d %s %d", r.Identifier, r.Operation, hk.CoqBool(r.DQR),
			hk.CoqList(pfs), r.Precedence, hk.CoqBool(r.Segregation), r.QFI))
	}
	return hk.CoqList(rs)
}

func coqParam(p nasType.QoSFlowParameter) string {
	switch v := p.(type) {
	case *nasType.QoSFlow5QI:
		return fmt.Sprintf("P5QI %d", v.FiveQI)
	case *nasType.QoSFlowGFBRUplink:
		return fmt.Sprintf("GFBRUplink %d %d", v.Unit, v.Value)
	case *nasType.QoSFlowGFBRDownlink:
		return fmt.Sprintf("GFBRDownlink %d %d", v.Unit, v.Value)
	case *nasType.QoSFlowMFBRUplink:
		return fmt.Sprintf("MFBRUplink %d %d", v.Unit, v.Value)
	case *nasType.QoSFlowMFBRDownlink:
		return fmt.Sprintf("MFBRDownlink %d %d", v.Unit, v.Value)
	case *nasType.QoSFlowAveragingWindow:
		return fmt.Sprintf("AveragingWindow %d", v.AverageWindow)
	case *nasType.QoSFlowEBI:
		return fmt.Sprintf("EBI %d", v.EBI)
	}
	panic(fmt.Sprintf("harness: parameter type %T has no model constructor", p))
}

func coqDescs(q nasType.QoSFlowDescs) string {
	var ds []string
	for _, d := range q {
		var ps []string
		for _, p := range d.Parameters {
			ps = append(ps, coqParam(p))
		}
		ds = append(ds, fmt.Sprintf("mkDesc %d %d %s", d.QFI, d.OperationCode, hk.CoqList(ps)))
	}
	return hk.CoqList(ds)
}

// ---------------------------------------------------------------- well-formedness
// (mirrors wf_rules_code / wf_descs_code of coq/C15/Proofs.v: what the round trip needs)

func wfComp(c nasType.PacketFilterComponent) bool {
	switch v := c.(type) {
	case *nasType.PacketFilterIPv4RemoteAddress:
		return len(v.Address) == 4 && len(v.Mask) == 4
	case *nasType.PacketFilterIPv4LocalAddress:
		return len(v.Address) == 4 && len(v.Mask) == 4
	case *nasType.PacketFilterFlowLabel:
		return v.Label < 1<<20
	case *nasType.PacketFilterDestinationMACAddress:
		return len(v.MAC) == 6
	case *nasType.PacketFilterSourceMACAddress:
		return len(v.MAC) == 6
	}
	return true
}

func wfRule(r nasType.QoSRule) bool {
	if r.Operation >= 8 || len(r.PacketFilterList) > 15 || r.QFI >= 64 {
		return false
	}
	for _, pf := range r.PacketFilterList {
		if pf.Identifier >= 16 {
			return false
		}
		if r.Operation == 5 {
			if pf.Direction != 0 || len(pf.Components) != 0 {
				return false
			}
			continue
		}
		if pf.Direction >= 16 {
			return false
		}
		n := 0
		for _, c := range pf.Components {
			if !wfComp(c) {
				return false
			}
			n += 1 + c.Length()
		}
		if n > 255 {
			return false
		}
	}
	return true
}

func wfRules(q nasType.QoSRules) bool {
	for _, r := range q {
		if !wfRule(r) {
			return false
		}
	}
	return true
}

func wfDescs(q nasType.QoSFlowDescs) bool {
	for _, d := range q {
		if d.OperationCode >= 8 || len(d.Parameters) > 63 {
			return false
		}
	}
	return true
}

// the domain named by the property text (a subset of the above)
func inPropertyDomainRules(q nasType.QoSRules) bool {
	for _, r := range q {
		if r.Operation < 1 || r.Operation > 6 {
			return false
		}
	}
	return wfRules(q)
}

// ---------------------------------------------------------------- the TS format, independently
// TS 24.501 9.11.4.13 (figure 9.11.4.13.2-4, table 9.11.4.13.1)

func specComp(c nasType.PacketFilterComponent) []byte {
	be16 := func(v uint16) []byte { return []byte{byte(v / 256), byte(v % 256)} }
	switch v := c.(type) {
	case *nasType.PacketFilterMatchAll:
		return []byte{0x01}
	case *nasType.PacketFilterIPv4RemoteAddress:
		return append(append([]byte{0x10}, v.Address...), v.Mask...)
	case *nasType.PacketFilterIPv4LocalAddress:
		return append(append([]byte{0x11}, v.Address...), v.Mask...)
	case *nasType.PacketFilterProtocolIdentifier:
		return []byte{0x30, v.Value}
	case *nasType.PacketFilterSingleLocalPort:
		return append([]byte{0x40}, be16(v.Value)...)
	case *nasType.PacketFilterLocalPortRange:
		return append(append([]byte{0x41}, be16(v.LowLimit)...), be16(v.HighLimit)...)
	case *nasType.PacketFilterSingleRemotePort:
		return append([]byte{0x50}, be16(v.Value)...)
	case *nasType.PacketFilterRemotePortRange:
		return append(append([]byte{0x51}, be16(v.LowLimit)...), be16(v.HighLimit)...)
	case *nasType.PacketFilterSecurityParameterIndex:
		return []byte{0x60, byte(v.Index / 16777216), byte(v.Index / 65536 % 256), byte(v.Index / 256 % 256), byte(v.Index % 256)}
	case *nasType.PacketFilterServiceClass:
		return []byte{0x70, v.Class, v.Mask}
	case *nasType.PacketFilterFlowLabel:
		return []byte{0x80, byte(v.Label / 65536 % 256), byte(v.Label / 256 % 256), byte(v.Label % 256)}
	case *nasType.PacketFilterDestinationMACAddress:
		return append([]byte{0x81}, v.MAC...)
	case *nasType.PacketFilterSourceMACAddress:
		return append([]byte{0x82}, v.MAC...)
	case *nasType.PacketFilterCTagVID:
		return append([]byte{0x83}, be16(v.VID)...)
	case *nasType.PacketFilterSTagVID:
		return append([]byte{0x84}, be16(v.VID)...)
	case *nasType.PacketFilterCTagPCPDEI:
		return []byte{0x85, v.Value}
	case *nasType.PacketFilterSTagPCPDEI:
		return []byte{0x86, v.Value}
	case *nasType.PacketFilterEtherType:
		return append([]byte{0x87}, be16(v.EtherType)...)
	}
	panic("specComp")
}

// positions of the length fields inside the encoding (for the malformed stream)
type lenPos struct {
	off  int // offset of the field
	size int // 1 or 2 octets
	val  int
}

func specRules(q nasType.QoSRules, pos *[]lenPos) []byte {
	var out []byte
	for _, r := range q {
		var content []byte
		dqr, seg := 0, 0
		if r.DQR {
			dqr = 1
		}
		if r.Segregation {
			seg = 1
		}
		content = append(content, byte(int(r.Operation)*32+dqr*16+len(r.PacketFilterList)))
		base := len(out) + 3
		for _, pf := range r.PacketFilterList {
			if r.Operation == 5 { // modify existing QoS rule and delete packet filters: identifiers only
				content = append(content, pf.Identifier)
				continue
			}
			var cs []byte
			for _, c := range pf.Components {
				cs = append(cs, specComp(c)...)
			}
			content = append(content, byte(int(pf.Direction)*16+int(pf.Identifier)))
			if pos != nil {
				*pos = append(*pos, lenPos{base + len(content), 1, len(cs)})
			}
			content = append(content, byte(len(cs)))
			content = append(content, cs...)
		}
		if r.Operation != 2 { // "delete existing QoS rule": precedence and QFI octets shall not be included
			content = append(content, r.Precedence, byte(seg*64+int(r.QFI)))
		}
		if pos != nil {
			*pos = append(*pos, lenPos{len(out) + 1, 2, len(content)})
		}
		out = append(out, r.Identifier, byte(len(content)/256), byte(len(content)%256))
		out = append(out, content...)
	}
	return out
}

// TS 24.501 9.11.4.12 (figure 9.11.4.12.2-4, table 9.11.4.12.1)
func specParam(p nasType.QoSFlowParameter) []byte {
	rate := func(id byte, unit uint8, v uint16) []byte { return []byte{id, 3, unit, byte(v / 256), byte(v % 256)} }
	switch v := p.(type) {
	case *nasType.QoSFlow5QI:
		return []byte{1, 1, v.FiveQI}
	case *nasType.QoSFlowGFBRUplink:
		return rate(2, uint8(v.Unit), v.Value)
	case *nasType.QoSFlowGFBRDownlink:
		return rate(3, uint8(v.Unit), v.Value)
	case *nasType.QoSFlowMFBRUplink:
		return rate(4, uint8(v.Unit), v.Value)
	case *nasType.QoSFlowMFBRDownlink:
		return rate(5, uint8(v.Unit), v.Value)
	case *nasType.QoSFlowAveragingWindow:
		return []byte{6, 2, byte(v.AverageWindow / 256), byte(v.AverageWindow % 256)}
	case *nasType.QoSFlowEBI:
		return []byte{7, 1, v.EBI}
	}
	panic("specParam")
}

func specDescs(q nasType.QoSFlowDescs, pos *[]lenPos) []byte {
	var out []byte
	for _, d := range q {
		e := 0
		if len(d.Parameters) > 0 {
			e = 1
		}
		out = append(out, d.QFI, byte(int(d.OperationCode)*32), byte(e*64+len(d.Parameters)))
		for _, p := range d.Parameters {
			b := specParam(p)
			if pos != nil {
				*pos = append(*pos, lenPos{len(out) + 1, 1, len(b) - 2})
			}
			out = append(out, b...)
		}
	}
	return out
}

// ---------------------------------------------------------------- runner

type runner struct {
	r        *hk.Run
	knownCap int
	seenU    map[string]bool
	wins     []window
}

// window: a caller-owned array parts of which were handed to the library as address / mask / MAC fields
type window struct{ live, copy []byte }

// win returns n octets the way a caller holding a captured packet header has them: a sub-slice of a larger
// array whose other octets are live data (spare capacity behind the slice), sometimes the octets right
// behind the previous window (local and remote address of one header).  Half of the time: exact capacity.
func (x *runner) win(n int) []byte {
	g := x.r.Rng
	if g.Intn(2) == 0 {
		return g.Bytes(n)
	}
	if len(x.wins) > 0 && g.Intn(3) == 0 {
		w := x.wins[len(x.wins)-1]
		if off := len(w.live) - 8; off >= 0 && n <= 8 && g.Intn(2) == 0 {
			return w.live[off : off+n]
		}
	}
	arr := g.Bytes(n + 8)
	x.wins = append(x.wins, window{arr, append([]byte(nil), arr...)})
	if len(x.wins) > 64 {
		x.wins = x.wins[1:]
	}
	return arr[:n]
}

// winsIntact: serialising reads its value; the caller's arrays are what they were
func (x *runner) winsIntact(site, term string) {
	kept := x.wins[:0]
	for _, w := range x.wins {
		if string(w.live) != string(w.copy) {
			x.fail(site, "caller-bytes-overwritten", term, fmt.Sprintf("an array the value's address / mask / MAC fields are sub-slices of read %x before and reads %x after", w.copy, w.live))
			continue
		}
		kept = append(kept, w)
	}
	x.wins = kept
}

func (x *runner) fail(site, class string, input interface{}, detail string) {
	x.r.Fail(hk.Failure{Site: site, Class: class, Input: input, Detail: detail})
}

func obsStr(panicked, hang bool, err error, okv string) string {
	switch {
	case hang:
		return "OHang"
	case panicked:
		return "OPanic"
	case err != nil:
		return "OErr"
	}
	return "(OOk " + okv + ")"
}

func cls(panicked, hang bool, err error) string {
	switch {
	case hang:
		return "hang"
	case panicked:
		return "panic"
	case err != nil:
		return "err"
	}
	return "ok"
}

// QoSRules.UnmarshalBinary on b; mustErr: the directed case contains an unknown component identifier
func (x *runner) rulesU(stream string, b []byte, mustErr bool) (nasType.QoSRules, error, bool) {
	key := "RU" + string(b)
	if x.seenU[key] && !mustErr {
		return nil, nil, false
	}
	x.seenU[key] = true
	in := hk.ExactNil(b)
	var q nasType.QoSRules
	var err error
	panicked, hang, pv := hk.CatchTimeout(2*time.Second, func() { err = q.UnmarshalBinary(in) })
	id := x.r.NextID()
	okv := ""
	if !panicked && !hang && err == nil {
		okv = coqRules(q)
	}
	x.r.AddCase(fmt.Sprintf("CRulesU %d %s %s", id, hk.CoqBytes(b), obsStr(panicked, hang, err, okv)), "QoSRules.UnmarshalBinary "+hk.Hex(b))
	nk := ""
	if err == nil && len(q) > 0 {
		nk = key
	}
	x.r.Count(stream, nk)
	x.r.Dist["rulesU_"+cls(panicked, hang, err)]++
	x.r.Dist[fmt.Sprintf("len_%03d", len(b)/16*16)]++
	if panicked || hang {
		x.fail("nasType.QoSRules.UnmarshalBinary", cls(panicked, hang, err), hk.Hex(b), fmt.Sprintf("parsing must end with a value or an error: %v", pv))
		return nil, nil, false
	}
	if mustErr && err == nil {
		x.fail("nasType.QoSRules.UnmarshalBinary", "unknown-id-accepted", hk.Hex(b), "unknown packet filter component identifier parsed without error")
	}
	return q, err, true
}

func (x *runner) descsU(stream string, b []byte, mustErr bool) (nasType.QoSFlowDescs, error, bool) {
	key := "DU" + string(b)
	if x.seenU[key] && !mustErr {
		return nil, nil, false
	}
	x.seenU[key] = true
	in := hk.ExactNil(b)
	var q nasType.QoSFlowDescs
	var err error
	panicked, hang, pv := hk.CatchTimeout(2*time.Second, func() { err = q.UnmarshalBinary(in) })
	id := x.r.NextID()
	okv := ""
	if !panicked && !hang && err == nil {
		okv = coqDescs(q)
	}
	x.r.AddCase(fmt.Sprintf("CDescsU %d %s %s", id, hk.CoqBytes(b), obsStr(panicked, hang, err, okv)), "QoSFlowDescs.UnmarshalBinary "+hk.Hex(b))
	nk := ""
	if err == nil && len(q) > 0 {
		nk = key
	}
	x.r.Count(stream, nk)
	x.r.Dist["descsU_"+cls(panicked, hang, err)]++
	x.r.Dist[fmt.Sprintf("len_%03d", len(b)/16*16)]++
	if panicked || hang {
		x.fail("nasType.QoSFlowDescs.UnmarshalBinary", cls(panicked, hang, err), hk.Hex(b), fmt.Sprintf("parsing must end with a value or an error: %v", pv))
		return nil, nil, false
	}
	if mustErr && err == nil {
		x.fail("nasType.QoSFlowDescs.UnmarshalBinary", "unknown-id-accepted", hk.Hex(b), "unknown QoS flow parameter identifier parsed without error")
	}
	return q, err, true
}

// QoSRules.MarshalBinary on q, then the direct oracle when q is well-formed
func (x *runner) rulesM(stream string, q nasType.QoSRules) []byte {
	term := coqRules(q)
	var out []byte
	var err error
	panicked, pv := hk.Catch(func() { out, err = q.MarshalBinary() })
	x.r.Retain("nasType.QoSRules.MarshalBinary", term, out)
	x.winsIntact("nasType.QoSRules.MarshalBinary", term)
	id := x.r.NextID()
	x.r.AddCase(fmt.Sprintf("CRulesM %d %s %s", id, term, obsStr(panicked, false, err, hk.CoqBytes(out))), "QoSRules.MarshalBinary "+term)
	wf := wfRules(q)
	nk := ""
	if wf && len(q) > 0 {
		nk = "RM" + term
	}
	x.r.Count(stream, nk)
	x.r.Dist["rulesM_"+cls(panicked, false, err)]++
	x.r.Sample(map[string]interface{}{"call": "QoSRules.MarshalBinary", "value": term, "result": cls(panicked, false, err), "octets": hk.Hex(out)})
	if panicked {
		x.fail("nasType.QoSRules.MarshalBinary", "panic", term, fmt.Sprint(pv))
		return nil
	}
	if !wf {
		if err == nil {
			x.rulesU(stream, out, false)
		}
		return nil
	}
	if err != nil {
		x.fail("nasType.QoSRules.MarshalBinary", "error-on-well-formed", term, err.Error())
		return nil
	}
	// round trip
	back, uerr, ran := x.rulesU(stream, out, false)
	if !ran { // already parsed these octets: parse again for the comparison
		uerr = back.UnmarshalBinary(hk.ExactNil(out))
	}
	if uerr != nil || coqRules(back) != term {
		x.fail("nasType.QoSRules.UnmarshalBinary", "roundtrip", term, fmt.Sprintf("Marshal = %x, Unmarshal of it = %s (err %v)", out, coqRules(back), uerr))
	}
	// format: every rule separately against the TS, and the list is the concatenation
	var cat []byte
	for _, rule := range q {
		one := nasType.QoSRules{rule}
		got, e1 := one.MarshalBinary()
		cat = append(cat, got...)
		want := specRules(one, nil)
		if e1 != nil || !bytes.Equal(got, want) {
			if rule.Operation == 2 {
				// known deviation: the precedence and QFI octets are emitted for "delete existing QoS rule"
				if x.knownCap <= 0 {
					continue
				}
				x.knownCap--
			}
			x.fail("nasType.QoSRules.MarshalBinary", "format", map[string]interface{}{"op": fmt.Sprint(uint8(rule.Operation)), "rule": coqRules(one)},
				fmt.Sprintf("got %x, TS 24.501 9.11.4.13 gives %x", got, want))
		}
	}
	if !bytes.Equal(cat, out) {
		x.fail("nasType.QoSRules.MarshalBinary", "format", map[string]interface{}{"op": "list", "rule": term}, "encoding of the list is not the concatenation of the encodings of its rules")
	}
	return out
}

func (x *runner) descsM(stream string, q nasType.QoSFlowDescs) []byte {
	term := coqDescs(q)
	var out []byte
	var err error
	panicked, pv := hk.Catch(func() { out, err = q.MarshalBinary() })
	x.r.Retain("nasType.QoSFlowDescs.MarshalBinary", term, out)
	id := x.r.NextID()
	x.r.AddCase(fmt.Sprintf("CDescsM %d %s %s", id, term, obsStr(panicked, false, err, hk.CoqBytes(out))), "QoSFlowDescs.MarshalBinary "+term)
	wf := wfDescs(q)
	nk := ""
	if wf && len(q) > 0 {
		nk = "DM" + term
	}
	x.r.Count(stream, nk)
	x.r.Dist["descsM_"+cls(panicked, false, err)]++
	if panicked {
		x.fail("nasType.QoSFlowDescs.MarshalBinary", "panic", term, fmt.Sprint(pv))
		return nil
	}
	if !wf {
		if err == nil {
			x.descsU(stream, out, false)
		}
		return nil
	}
	if err != nil {
		x.fail("nasType.QoSFlowDescs.MarshalBinary", "error-on-well-formed", term, err.Error())
		return nil
	}
	back, uerr, ran := x.descsU(stream, out, false)
	if !ran {
		uerr = back.UnmarshalBinary(hk.ExactNil(out))
	}
	if uerr != nil || coqDescs(back) != term {
		x.fail("nasType.QoSFlowDescs.UnmarshalBinary", "roundtrip", term, fmt.Sprintf("Marshal = %x, Unmarshal of it = %s (err %v)", out, coqDescs(back), uerr))
	}
	if want := specDescs(q, nil); !bytes.Equal(out, want) {
		x.fail("nasType.QoSFlowDescs.MarshalBinary", "format", term, fmt.Sprintf("got %x, TS 24.501 9.11.4.12 gives %x", out, want))
	}
	return out
}

// ---------------------------------------------------------------- value generators

func ip4(a, b, c, d byte) net.IP       { return net.IP{a, b, c, d} }
func mask4(a, b, c, d byte) net.IPMask { return net.IPMask{a, b, c, d} }

// every component type with boundary values (well-formed ones)
func boundaryComps() []nasType.PacketFilterComponent {
	var cs []nasType.PacketFilterComponent
	add := func(c nasType.PacketFilterComponent) { cs = append(cs, c) }
	add(&nasType.PacketFilterMatchAll{})
	for _, am := range [][2][4]byte{{{0, 0, 0, 0}, {0, 0, 0, 0}}, {{255, 255, 255, 255}, {255, 255, 255, 255}}, {{10, 1, 2, 3}, {255, 255, 255, 0}}, {{192, 168, 0, 1}, {255, 255, 255, 254}}} {
		a, m := am[0], am[1]
		add(&nasType.PacketFilterIPv4RemoteAddress{Address: ip4(a[0], a[1], a[2], a[3]), Mask: mask4(m[0], m[1], m[2], m[3])})
		add(&nasType.PacketFilterIPv4LocalAddress{Address: ip4(a[0], a[1], a[2], a[3]), Mask: mask4(m[0], m[1], m[2], m[3])})
	}
	// the forms the net package itself produces
	add(&nasType.PacketFilterIPv4RemoteAddress{Address: net.ParseIP("10.9.8.7").To4(), Mask: net.CIDRMask(20, 32)})
	add(&nasType.PacketFilterIPv4LocalAddress{Address: net.IPv4(172, 16, 0, 9).To4(), Mask: net.IPv4Mask(255, 240, 0, 0)})
	for _, v := range []uint8{0, 1, 6, 17, 127, 128, 255} {
		add(&nasType.PacketFilterProtocolIdentifier{Value: v})
	}
	for _, v := range []uint16{0, 1, 255, 256, 0x1234, 0x7fff, 0x8000, 65535} {
		add(&nasType.PacketFilterSingleLocalPort{Value: v})
		add(&nasType.PacketFilterSingleRemotePort{Value: v})
		add(&nasType.PacketFilterCTagVID{VID: v})
		add(&nasType.PacketFilterSTagVID{VID: v})
		add(&nasType.PacketFilterEtherType{EtherType: v})
	}
	for _, v := range []uint16{4095, 4096, 0x0800, 0x86dd} {
		add(&nasType.PacketFilterCTagVID{VID: v})
		add(&nasType.PacketFilterSTagVID{VID: v})
		add(&nasType.PacketFilterEtherType{EtherType: v})
	}
	for _, lh := range [][2]uint16{{0, 0}, {0, 65535}, {65535, 0}, {65535, 65535}, {1024, 2048}, {0x0102, 0x0304}} {
		add(&nasType.PacketFilterLocalPortRange{LowLimit: lh[0], HighLimit: lh[1]})
		add(&nasType.PacketFilterRemotePortRange{LowLimit: lh[0], HighLimit: lh[1]})
	}
	for _, v := range []uint32{0, 1, 255, 256, 0x01020304, 0x7fffffff, 0x80000000, 0xffffffff} {
		add(&nasType.PacketFilterSecurityParameterIndex{Index: v})
	}
	for _, cm := range [][2]uint8{{0, 0}, {255, 255}, {0x12, 0x34}, {0, 255}, {255, 0}, {0x80, 0x01}} {
		add(&nasType.PacketFilterServiceClass{Class: cm[0], Mask: cm[1]})
	}
	for _, v := range []uint32{0, 1, 0xff, 0x100, 0xffff, 0x10000, 0x12345, 0x7ffff, 0x80000, 0xfffff} {
		add(&nasType.PacketFilterFlowLabel{Label: v})
	}
	for _, m := range [][]byte{{0, 0, 0, 0, 0, 0}, {255, 255, 255, 255, 255, 255}, {1, 2, 3, 4, 5, 6}, {0x80, 0, 0x7f, 0xff, 0, 1}} {
		add(&nasType.PacketFilterDestinationMACAddress{MAC: net.HardwareAddr(m)})
		add(&nasType.PacketFilterSourceMACAddress{MAC: net.HardwareAddr(m)})
	}
	for _, v := range []uint8{0, 1, 7, 8, 15, 16, 255} {
		add(&nasType.PacketFilterCTagPCPDEI{Value: v})
		add(&nasType.PacketFilterSTagPCPDEI{Value: v})
	}
	return cs
}

// values outside the well-formed domain (the model must still agree with the code on them)
func illFormedComps() []nasType.PacketFilterComponent {
	return []nasType.PacketFilterComponent{
		&nasType.PacketFilterFlowLabel{Label: 0x100000},
		&nasType.PacketFilterFlowLabel{Label: 0x100001},
		&nasType.PacketFilterFlowLabel{Label: 0xffffffff},
		&nasType.PacketFilterIPv4RemoteAddress{Address: net.ParseIP("10.0.0.1"), Mask: net.CIDRMask(24, 32)}, // 16-octet form
		&nasType.PacketFilterIPv4LocalAddress{Address: net.IPv4(10, 0, 0, 1), Mask: net.CIDRMask(24, 32)},
		&nasType.PacketFilterIPv4RemoteAddress{Address: ip4(1, 2, 3, 4), Mask: net.CIDRMask(64, 128)},
		&nasType.PacketFilterIPv4RemoteAddress{Address: nil, Mask: nil},
		&nasType.PacketFilterIPv4LocalAddress{Address: ip4(1, 2, 3, 4), Mask: net.IPMask{255, 255, 255}},
		&nasType.PacketFilterIPv4LocalAddress{Address: net.IP{1, 2, 3, 4, 5}, Mask: mask4(255, 0, 0, 0)},
		&nasType.PacketFilterDestinationMACAddress{MAC: nil},
		&nasType.PacketFilterDestinationMACAddress{MAC: net.HardwareAddr{1, 2, 3, 4, 5}},
		&nasType.PacketFilterSourceMACAddress{MAC: net.HardwareAddr{1, 2, 3, 4, 5, 6, 7}},
		&nasType.PacketFilterSourceMACAddress{MAC: net.HardwareAddr{1, 2, 3, 4, 5, 6, 7, 8}},
	}
}

func (x *runner) randComp(wf bool) nasType.PacketFilterComponent {
	g := x.r.Rng
	u16 := func() uint16 {
		switch g.Intn(5) {
		case 0:
			return uint16(g.Pick(0, 1, 255, 256, 4095, 4096, 65535))
		}
		return uint16(g.Next())
	}
	u8 := func() uint8 {
		if g.Intn(4) == 0 {
			return uint8(g.Pick(0, 1, 15, 16, 127, 128, 255))
		}
		return g.Byte()
	}
	n := 18
	if !wf {
		n = 19
	}
	switch g.Intn(n) {
	case 0:
		return &nasType.PacketFilterMatchAll{}
	case 1:
		return &nasType.PacketFilterIPv4RemoteAddress{Address: net.IP(x.win(4)), Mask: net.IPMask(x.win(4))}
	case 2:
		return &nasType.PacketFilterIPv4LocalAddress{Address: net.IP(x.win(4)), Mask: net.CIDRMask(g.Intn(33), 32)}
	case 3:
		return &nasType.PacketFilterProtocolIdentifier{Value: u8()}
	case 4:
		return &nasType.PacketFilterSingleLocalPort{Value: u16()}
	case 5:
		return &nasType.PacketFilterLocalPortRange{LowLimit: u16(), HighLimit: u16()}
	case 6:
		return &nasType.PacketFilterSingleRemotePort{Value: u16()}
	case 7:
		return &nasType.PacketFilterRemotePortRange{LowLimit: u16(), HighLimit: u16()}
	case 8:
		return &nasType.PacketFilterSecurityParameterIndex{Index: uint32(g.Next())}
	case 9:
		return &nasType.PacketFilterServiceClass{Class: u8(), Mask: u8()}
	case 10:
		return &nasType.PacketFilterFlowLabel{Label: uint32(g.Next()) & 0xfffff}
	case 11:
		return &nasType.PacketFilterDestinationMACAddress{MAC: net.HardwareAddr(x.win(6))}
	case 12:
		return &nasType.PacketFilterSourceMACAddress{MAC: net.HardwareAddr(x.win(6))}
	case 13:
		return &nasType.PacketFilterCTagVID{VID: u16()}
	case 14:
		return &nasType.PacketFilterSTagVID{VID: u16()}
	case 15:
		return &nasType.PacketFilterCTagPCPDEI{Value: u8()}
	case 16:
		return &nasType.PacketFilterSTagPCPDEI{Value: u8()}
	case 17:
		return &nasType.PacketFilterEtherType{EtherType: u16()}
	}
	ill := illFormedComps()
	return ill[g.Intn(len(ill))]
}

func (x *runner) randFilter(op nasType.QoSRuleOperationCode, wf bool) nasType.PacketFilter {
	g := x.r.Rng
	pf := nasType.PacketFilter{Identifier: uint8(g.Intn(16))}
	if !wf && g.Intn(6) == 0 {
		pf.Identifier = g.Byte()
	}
	if op == 5 && (wf || g.Intn(3) != 0) {
		return pf
	}
	pf.Direction = nasType.PacketFilterDirection(1 + g.Intn(3))
	if g.Intn(8) == 0 {
		pf.Direction = nasType.PacketFilterDirection(g.Intn(16))
	}
	if !wf && g.Intn(8) == 0 {
		pf.Direction = nasType.PacketFilterDirection(g.Byte())
	}
	nc := g.Pick(0, 1, 1, 2, 3, 5)
	for i := 0; i < nc; i++ {
		pf.Components = append(pf.Components, x.randComp(wf))
	}
	return pf
}

func (x *runner) randRule(wf bool) nasType.QoSRule {
	g := x.r.Rng
	r := nasType.QoSRule{Identifier: g.Byte(), Operation: nasType.QoSRuleOperationCode(1 + g.Intn(6)), DQR: g.Bool(),
		Precedence: g.Byte(), Segregation: g.Bool(), QFI: uint8(g.Intn(64))}
	if g.Intn(10) == 0 {
		r.Operation = nasType.QoSRuleOperationCode(g.Pick(0, 7))
	}
	if g.Intn(6) == 0 {
		r.QFI = uint8(g.Pick(0, 1, 62, 63))
	}
	if !wf {
		switch g.Intn(4) {
		case 0:
			r.QFI = uint8(g.Pick(64, 65, 127, 128, 255))
		case 1:
			r.Operation = nasType.QoSRuleOperationCode(g.Pick(8, 9, 13, 255))
		}
	}
	nf := g.Pick(0, 0, 1, 1, 2, 3, 4, 15)
	if !wf && g.Intn(4) == 0 {
		nf = g.Pick(16, 17, 31, 32)
	}
	for i := 0; i < nf; i++ {
		r.PacketFilterList = append(r.PacketFilterList, x.randFilter(r.Operation, wf))
	}
	return r
}

func boundaryParams() []nasType.QoSFlowParameter {
	var ps []nasType.QoSFlowParameter
	for _, v := range []uint8{0, 1, 9, 127, 128, 255} {
		ps = append(ps, &nasType.QoSFlow5QI{FiveQI: v}, &nasType.QoSFlowEBI{EBI: v})
	}
	for _, uv := range [][2]uint16{{0, 0}, {1, 1}, {1, 65535}, {25, 0x1234}, {6, 0x8000}, {255, 0x00ff}, {26, 256}} {
		u, v := nasType.QoSFlowBitRateUnit(uv[0]), uv[1]
		ps = append(ps, &nasType.QoSFlowGFBRUplink{Unit: u, Value: v}, &nasType.QoSFlowGFBRDownlink{Unit: u, Value: v},
			&nasType.QoSFlowMFBRUplink{Unit: u, Value: v}, &nasType.QoSFlowMFBRDownlink{Unit: u, Value: v})
	}
	for _, v := range []uint16{0, 1, 255, 256, 2000, 0x7fff, 0x8000, 65535} {
		ps = append(ps, &nasType.QoSFlowAveragingWindow{AverageWindow: v})
	}
	return ps
}

func (x *runner) randParam() nasType.QoSFlowParameter {
	g := x.r.Rng
	u := nasType.QoSFlowBitRateUnit(g.Byte())
	if g.Bool() {
		u = nasType.QoSFlowBitRateUnit(1 + g.Intn(25))
	}
	v := uint16(g.Next())
	if g.Intn(5) == 0 {
		v = uint16(g.Pick(0, 1, 255, 256, 65535))
	}
	switch g.Intn(7) {
	case 0:
		return &nasType.QoSFlow5QI{FiveQI: g.Byte()}
	case 1:
		return &nasType.QoSFlowGFBRUplink{Unit: u, Value: v}
	case 2:
		return &nasType.QoSFlowGFBRDownlink{Unit: u, Value: v}
	case 3:
		return &nasType.QoSFlowMFBRUplink{Unit: u, Value: v}
	case 4:
		return &nasType.QoSFlowMFBRDownlink{Unit: u, Value: v}
	case 5:
		return &nasType.QoSFlowAveragingWindow{AverageWindow: v}
	}
	return &nasType.QoSFlowEBI{EBI: g.Byte()}
}

func (x *runner) randDesc(wf bool) nasType.QoSFlowDesc {
	g := x.r.Rng
	d := nasType.QoSFlowDesc{QFI: uint8(g.Intn(64)), OperationCode: nasType.QoSFlowOperationCode(1 + g.Intn(3))}
	if g.Intn(8) == 0 {
		d.QFI = g.Byte()
	}
	if g.Intn(8) == 0 {
		d.OperationCode = nasType.QoSFlowOperationCode(g.Intn(8))
	}
	if !wf && g.Intn(3) == 0 {
		d.OperationCode = nasType.QoSFlowOperationCode(g.Pick(8, 9, 16, 255))
	}
	np := g.Pick(0, 1, 1, 2, 3, 5, 7)
	if g.Intn(40) == 0 {
		np = g.Pick(62, 63)
	}
	if !wf && g.Intn(3) == 0 {
		np = g.Pick(64, 65, 127, 128)
	}
	for i := 0; i < np; i++ {
		d.Parameters = append(d.Parameters, x.randParam())
	}
	return d
}

// ---------------------------------------------------------------- malformed streams

func setLen(b []byte, p lenPos, v int) []byte {
	c := hk.ExactNil(b)
	if p.size == 2 {
		c[p.off], c[p.off+1] = byte(v>>8), byte(v)
	} else {
		c[p.off] = byte(v)
	}
	return c
}

func lenValues(p lenPos) []int {
	vs := []int{0, 1, p.val - 1, p.val + 1, 255}
	if p.size == 2 {
		vs = append(vs, 256, 65535)
	}
	var out []int
	for _, v := range vs {
		if v >= 0 && v != p.val && (p.size == 2 || v < 256) {
			out = append(out, v)
		}
	}
	return out
}

func (x *runner) mutate(b []byte) []byte {
	g := x.r.Rng
	c := hk.ExactNil(b)
	k := 1 + g.Intn(3)
	for i := 0; i < k; i++ {
		switch g.Intn(5) {
		case 0: // flip a bit
			if len(c) > 0 {
				c[g.Intn(len(c))] ^= 1 << uint(g.Intn(8))
			}
		case 1: // overwrite with an interesting value
			if len(c) > 0 {
				c[g.Intn(len(c))] = byte(g.Pick(0, 1, 2, 3, 15, 16, 0x20, 0x21, 0x23, 0x3f, 0x40, 0x41, 0x7f, 0x80, 0x88, 0xa1, 0xff))
			}
		case 2: // delete an octet
			if len(c) > 0 {
				i := g.Intn(len(c))
				c = append(c[:i], c[i+1:]...)
			}
		case 3: // insert an octet
			i := g.Intn(len(c) + 1)
			c = append(c[:i], append([]byte{g.Byte()}, c[i:]...)...)
		case 4: // cut
			if len(c) > 0 {
				c = c[:g.Intn(len(c))]
			}
		}
	}
	return c
}

// ---------------------------------------------------------------- main

func run(r *hk.Run) {
	r.SetCoq("From NV Require Import Lib.Base C15.Model C15.Corr.\nOpen Scope N_scope.", "case")
	x := &runner{r: r, knownCap: 3, seenU: map[string]bool{}}
	g := r.Rng

	rule := func(op int, pfs ...nasType.PacketFilter) nasType.QoSRule {
		return nasType.QoSRule{Identifier: 1, Operation: nasType.QoSRuleOperationCode(op), PacketFilterList: pfs, Precedence: 0x55, QFI: 9}
	}
	filt := func(id, dir int, cs ...nasType.PacketFilterComponent) nasType.PacketFilter {
		return nasType.PacketFilter{Identifier: uint8(id), Direction: nasType.PacketFilterDirection(dir), Components: cs}
	}
	hexb := func(s string) []byte {
		var b []byte
		s = strings.ReplaceAll(s, " ", "")
		for i := 0; i+1 < len(s); i += 2 {
			var v byte
			fmt.Sscanf(s[i:i+2], "%02x", &v)
			b = append(b, v)
		}
		return b
	}

	// ---- (1) corpus: witnesses of repaired defects and of the recorded finding
	x.descsU("corpus", hexb("01 20 41 ff 00"), true) // F10: unknown parameter identifier used to panic
	x.descsU("corpus", hexb("01 20 42 01 01 09 ff 01 00"), true)
	for _, l := range []uint32{0x7ffff, 0x80000, 0xfffff} { // F11: 20-bit flow labels
		x.rulesM("corpus", nasType.QoSRules{rule(1, filt(1, 3, &nasType.PacketFilterFlowLabel{Label: l}))})
	}
	x.rulesM("corpus", nasType.QoSRules{{Identifier: 1, Operation: 2, Precedence: 7, QFI: 9}}) // "delete existing QoS rule": see report
	x.rulesU("corpus", hexb("01 00 01 40"), false)                                             // its TS encoding
	x.rulesU("corpus", hexb("01 00 01 40 02 00 03 20 0a 05"), false)
	x.rulesU("corpus", hexb("01 00 03 40 07 09"), false)
	for _, s := range []string{"", "01", "01 20", "01 20 00", "01 20 40", "01 20 80", "01 20 41 01", "01 20 41 01 01", "01 20 41 01 01 09",
		"01 20 41 01 00 09 20", "01 20 41 ff", "01 20 41 02 03 01 00 02", "01 20 41 02 02 01 00", "01 20 41 02 01 01",
		"01 20 01 01 01 09 05 20 01 01", "01 20 41 01 05 09 08 07 06 05 04", "01 20 41 06 02 07 d0", "01 20 41 06 01 07", "01 20 41 06 00", "01 20 41 07 01 50"} {
		x.descsU("corpus", hexb(s), false)
	}
	for _, s := range []string{"", "01", "01 00", "01 00 01", "01 00 03 20 05 41", "01 00 ff 20 05 41", "01 00 06 21 31 01 01 05 41",
		"01 00 06 21 31 04 80 ff ff ff 05 c1", "01 00 06 21 31 ff 80 ff ff ff", "01 00 06 a3 01 02 03 05 c1", "01 00 06 a3 f1 e2 d3 05 c1",
		"01 00 06 21 31 03 80 ff ff 05 41"} {
		x.rulesU("corpus", hexb(s), false)
	}

	// ---- (2) directed, rules
	bc := boundaryComps()
	var encR [][]byte // valid encodings collected for the malformed streams
	keepR := func(b []byte) {
		if b != nil {
			encR = append(encR, b)
		}
	}
	// every component value alone in a filter
	for i, c := range bc {
		keepR(x.rulesM("directed", nasType.QoSRules{rule(1+i%4*0, filt(i%16, 1+i%3, c))}))
	}
	// every component type once, all in one filter (61 octets), and the whole boundary set split over 15 filters
	{
		seen := map[string]bool{}
		var all []nasType.PacketFilterComponent
		for _, c := range bc {
			t := fmt.Sprintf("%T", c)
			if !seen[t] {
				seen[t] = true
				all = append(all, c)
			}
		}
		keepR(x.rulesM("directed", nasType.QoSRules{rule(1, filt(15, 3, all...))}))
		var pfs []nasType.PacketFilter
		per := (len(bc) + 14) / 15
		for i := 0; i < 15; i++ {
			lo, hi := i*per, (i+1)*per
			if hi > len(bc) {
				hi = len(bc)
			}
			if lo > hi {
				lo = hi
			}
			pfs = append(pfs, filt(i, 1+i%3, bc[lo:hi]...))
		}
		keepR(x.rulesM("directed", nasType.QoSRules{rule(4, pfs...)}))
	}
	// every operation code 0..7 (and 8, 255: outside the 3-bit field) x 0 / 1 / 15 (16, 17: outside the 4-bit field) filters x DQR x segregation
	for _, op := range []int{0, 1, 2, 3, 4, 5, 6, 7, 8, 255} {
		for _, nf := range []int{0, 1, 15, 16, 17} {
			for flags := 0; flags < 4; flags++ {
				if flags != 0 && flags != 3 && nf > 1 {
					continue
				}
				var pfs []nasType.PacketFilter
				for i := 0; i < nf; i++ {
					if op == 5 {
						pfs = append(pfs, filt(i%16, 0))
					} else {
						pfs = append(pfs, filt(i%16, 1+i%3, bc[(op*31+i*7)%len(bc)], bc[(op*17+i*3+1)%len(bc)]))
					}
				}
				ru := rule(op, pfs...)
				ru.DQR, ru.Segregation = flags&1 != 0, flags&2 != 0
				ru.Identifier, ru.Precedence, ru.QFI = uint8(op*16+nf), uint8(255-nf), uint8(63-op%8)
				keepR(x.rulesM("directed", nasType.QoSRules{ru}))
			}
		}
	}
	// boundary scalars of the rule itself
	for _, v := range []int{0, 1, 15, 16, 62, 63, 64, 65, 127, 128, 255} {
		ru := rule(1, filt(v, 3, bc[0]))
		ru.Identifier, ru.Precedence, ru.QFI = uint8(v), uint8(v), uint8(v)
		x.rulesM("directed", nasType.QoSRules{ru})
		x.rulesM("directed", nasType.QoSRules{rule(3, filt(1, v, bc[5]))})      // direction beyond 2 / 4 bits
		x.rulesM("directed", nasType.QoSRules{rule(5, filt(v, 0), filt(1, 0))}) // delete list identifiers
	}
	// delete-type operation whose filters carry more than an identifier (dropped by the format)
	x.rulesM("directed", nasType.QoSRules{rule(5, filt(1, 2), filt(2, 0, bc[3]))})
	// filter contents of 255 / 256 / 261 octets (length octet wraps beyond 255)
	{
		mk := func(n9 int, extra ...nasType.PacketFilterComponent) nasType.PacketFilter {
			var cs []nasType.PacketFilterComponent
			for i := 0; i < n9; i++ {
				cs = append(cs, &nasType.PacketFilterIPv4RemoteAddress{Address: ip4(10, 0, byte(i), 1), Mask: mask4(255, 255, 255, 0)})
			}
			return filt(1, 1, append(cs, extra...)...)
		}
		x.rulesM("directed", nasType.QoSRules{rule(1, mk(28, &nasType.PacketFilterProtocolIdentifier{Value: 6}, &nasType.PacketFilterMatchAll{}))})                   // 255
		x.rulesM("directed", nasType.QoSRules{rule(1, mk(28, &nasType.PacketFilterProtocolIdentifier{Value: 6}, &nasType.PacketFilterProtocolIdentifier{Value: 7}))}) // 256
		x.rulesM("directed", nasType.QoSRules{rule(1, mk(29))})                                                                                                       // 261
		// 15 filters of 255 octets: the largest well-formed rule (3858 octets)
		var pfs []nasType.PacketFilter
		for i := 0; i < 15; i++ {
			pf := mk(28, &nasType.PacketFilterProtocolIdentifier{Value: uint8(i)}, &nasType.PacketFilterMatchAll{})
			pf.Identifier = uint8(i)
			pfs = append(pfs, pf)
		}
		x.rulesM("directed", nasType.QoSRules{rule(1, pfs...)})
	}
	// (rule contents beyond 65535 octets, where the 2-octet length wraps, need a value of > 7000
	// components: Coq cannot read a literal of that size, so that wrap is not exercised here)
	// 256 filters: uint8(len) = 0
	{
		var pfs []nasType.PacketFilter
		for i := 0; i < 256; i++ {
			pfs = append(pfs, filt(i%16, 1))
		}
		x.rulesM("directed", nasType.QoSRules{rule(1, pfs...)})
	}
	// ill-formed component values
	for _, c := range illFormedComps() {
		x.rulesM("directed", nasType.QoSRules{rule(1, filt(1, 1, c))})
		x.rulesM("directed", nasType.QoSRules{rule(1, filt(1, 1, bc[1], c, bc[2]))})
	}
	// lists of 0 / 2 / 3 rules
	x.rulesM("directed", nasType.QoSRules{})
	x.rulesM("directed", nil)
	keepR(x.rulesM("directed", nasType.QoSRules{rule(1, filt(1, 3, bc[1], bc[20])), rule(5, filt(3, 0), filt(4, 0)), rule(6)}))
	keepR(x.rulesM("directed", nasType.QoSRules{rule(2), rule(1, filt(2, 2, bc[9]))}))
	keepR(x.rulesM("directed", nasType.QoSRules{rule(3, filt(7, 1, bc[30], bc[40], bc[50])), rule(4)}))

	// ---- (2) directed, descriptions
	bp := boundaryParams()
	var encD [][]byte
	keepD := func(b []byte) {
		if b != nil {
			encD = append(encD, b)
		}
	}
	desc := func(qfi, op int, ps ...nasType.QoSFlowParameter) nasType.QoSFlowDesc {
		return nasType.QoSFlowDesc{QFI: uint8(qfi), OperationCode: nasType.QoSFlowOperationCode(op), Parameters: ps}
	}
	for i, p := range bp {
		keepD(x.descsM("directed", nasType.QoSFlowDescs{desc(i%64, 1+i%3, p)}))
	}
	for _, op := range []int{0, 1, 2, 3, 4, 5, 6, 7, 8, 255} {
		for _, np := range []int{0, 1, 2, 62, 63, 64, 65, 255, 256, 257} {
			if np > 2 && op > 3 && op != 7 {
				continue
			}
			var ps []nasType.QoSFlowParameter
			for i := 0; i < np; i++ {
				ps = append(ps, bp[(op*13+i*5)%len(bp)])
			}
			keepD(x.descsM("directed", nasType.QoSFlowDescs{desc(63-op%8, op, ps...)}))
		}
	}
	for _, qfi := range []int{0, 1, 62, 63, 64, 127, 128, 255} {
		x.descsM("directed", nasType.QoSFlowDescs{desc(qfi, 1, bp[0])})
	}
	{ // every parameter kind once
		seen := map[string]bool{}
		var all []nasType.QoSFlowParameter
		for _, p := range bp {
			t := fmt.Sprintf("%T", p)
			if !seen[t] {
				seen[t] = true
				all = append(all, p)
			}
		}
		keepD(x.descsM("directed", nasType.QoSFlowDescs{desc(5, 1, all...)}))
		keepD(x.descsM("directed", nasType.QoSFlowDescs{desc(5, 1, all...), desc(6, 2), desc(7, 3, all[1], all[5])}))
	}
	x.descsM("directed", nasType.QoSFlowDescs{})
	x.descsM("directed", nil)

	// ---- (2) directed, malformed: unknown identifiers
	known := map[int]bool{0x01: true, 0x10: true, 0x11: true, 0x30: true, 0x40: true, 0x41: true, 0x50: true, 0x51: true, 0x60: true,
		0x70: true, 0x80: true, 0x81: true, 0x82: true, 0x83: true, 0x84: true, 0x85: true, 0x86: true, 0x87: true}
	for id := 0; id < 256; id++ {
		// a filter whose only / second component has this type, with room for any value
		b1 := append([]byte{1, 0, 15, 0x21, 0x31, 9, byte(id)}, 1, 2, 3, 4, 5, 6, 7, 8)
		b1 = append(b1, 5, 9)
		b1[2] = byte(len(b1) - 3)
		x.rulesU("unknown-id", b1, !known[id])
		b2 := []byte{1, 0, 9, 0x21, 0x31, 3, 0x30, 6, byte(id), 5, 9}
		b2[2] = byte(len(b2) - 3)
		x.rulesU("unknown-id", b2, !known[id])
		// a parameter with this identifier: length 1, 2, 3 contents
		kp := id >= 1 && id <= 7
		x.descsU("unknown-id", []byte{9, 0x20, 0x41, byte(id), 1, 7}, !kp)
		x.descsU("unknown-id", []byte{9, 0x20, 0x42, 1, 1, 9, byte(id), 3, 1, 2, 3, 10, 0x40, 0x00}, !kp)
		x.descsU("unknown-id", []byte{9, 0x20, 0x41, byte(id), 0}, !kp)
		if !kp || id%2 == 1 { // in the second description / the second rule
			x.descsU("unknown-id", []byte{9, 0x20, 0x41, 1, 1, 9, 10, 0x60, 0x41, byte(id), 2, 7, 8, 11, 0x40, 0}, !kp)
		}
		if !known[id] || id%2 == 1 {
			x.rulesU("unknown-id", []byte{1, 0, 3, 0x20, 7, 9, 2, 0, 9, 0x21, 0x31, 4, byte(id), 1, 2, 3, 5, 9}, !known[id])
		}
	}
	// every implemented component type followed by 0 .. Length+1 octets of value inside the filter
	// (the length test of each UnmarshalBinary), alone and after another component
	for id := 0; id < 256; id++ {
		if !known[id] {
			continue
		}
		for k := 0; k <= 9; k++ {
			val := []byte{0xa1, 0xb2, 0xc3, 0xd4, 0xe5, 0xf6, 0x07, 0x18, 0x29}[:k]
			b := append([]byte{1, 0, 0, 0x21, 0x31, byte(1 + k), byte(id)}, val...)
			b = append(b, 5, 9)
			b[2] = byte(len(b) - 3)
			x.rulesU("short-value", b, false)
			b = append([]byte{1, 0, 0, 0x21, 0x31, byte(2 + k), 0x01, byte(id)}, val...)
			b = append(b, 5, 9)
			b[2] = byte(len(b) - 3)
			x.rulesU("short-value", b, false)
		}
	}
	// every parameter kind with 0 .. 4 octets of contents
	for id := 1; id <= 7; id++ {
		for k := 0; k <= 4; k++ {
			val := []byte{0x11, 0x22, 0x33, 0x44}[:k]
			b := append([]byte{9, 0x20, 0x41, byte(id), byte(k)}, val...)
			x.descsU("short-value", b, false)
			x.descsU("short-value", append(b, 10, 0x40, 0), false)
		}
	}
	// every value of the header octets
	for h := 0; h < 256; h++ {
		b := []byte{7, 0, 40, byte(h)}
		for i := 0; i < 15; i++ {
			b = append(b, byte(0x10+i), 2, 0x30, byte(i))
		}
		b = append(b, 200, 0x49)
		x.rulesU("header-sweep", b, false)
		x.rulesU("header-sweep", []byte{7, 0, 3, 0x20, 9, byte(h)}, false)          // spare | segregation | QFI octet
		x.rulesU("header-sweep", []byte{7, 0, 6, 0x21, byte(h), 1, 1, 9, 9}, false) // direction | identifier octet
		d := []byte{5, 0x20, byte(h)}
		for i := 0; i < 63; i++ {
			d = append(d, 1, 1, byte(i))
		}
		x.descsU("header-sweep", d, false)
		x.descsU("header-sweep", []byte{5, byte(h), 0}, false)
		x.descsU("header-sweep", []byte{byte(h), 0x20, 0x41, 7, 1, byte(h)}, false)
	}
	// every length field set to 0, 1, actual-1, actual+1, 255 (65535); truncation at every octet
	nTrunc := 0
	for i, b := range encR {
		if len(b) > 120 {
			continue
		}
		var q nasType.QoSRules
		if q.UnmarshalBinary(hk.ExactNil(b)) != nil {
			continue
		}
		var pos []lenPos
		sp := specRules(q, &pos)
		if bytes.Equal(sp, b) && (i%5 == 0 || i >= len(encR)-3) { // (not equal for a "delete existing QoS rule")
			for _, p := range pos {
				for _, v := range lenValues(p) {
					x.rulesU("length-fields", setLen(b, p, v), false)
				}
			}
		}
		if i%7 == 0 || i >= len(encR)-3 {
			for k := 0; k < len(b); k++ {
				x.rulesU("truncation", b[:k], false)
				nTrunc++
			}
		}
	}
	for i, b := range encD {
		if len(b) > 120 {
			continue
		}
		var q nasType.QoSFlowDescs
		if q.UnmarshalBinary(hk.ExactNil(b)) != nil {
			continue
		}
		var pos []lenPos
		sp := specDescs(q, &pos)
		if bytes.Equal(sp, b) && (i%4 == 0 || i >= len(encD)-3) {
			for _, p := range pos {
				for _, v := range lenValues(p) {
					x.descsU("length-fields", setLen(b, p, v), false)
				}
			}
		}
		if i%5 == 0 || i >= len(encD)-3 {
			for k := 0; k < len(b); k++ {
				x.descsU("truncation", b[:k], false)
				nTrunc++
			}
		}
	}
	r.Extra["truncation_points"] = nTrunc

	// ---- (3) structured random
	n := r.N(260, 4000)
	for i := 0; i < n; i++ {
		wf := g.Intn(5) != 0
		var q nasType.QoSRules
		for k := g.Pick(1, 1, 1, 2, 3); k > 0; k-- {
			q = append(q, x.randRule(wf))
		}
		if b := x.rulesM("random-structured", q); b != nil && len(b) < 200 && len(encR) < 4000 {
			encR = append(encR, b)
		}
		var d nasType.QoSFlowDescs
		for k := g.Pick(1, 1, 2, 3, 4); k > 0; k-- {
			d = append(d, x.randDesc(wf))
		}
		if b := x.descsM("random-structured", d); b != nil && len(b) < 200 && len(encD) < 4000 {
			encD = append(encD, b)
		}
	}

	// ---- (3b) long lists: the number of rules / descriptions is bounded only by the two-octet IE length, so a
	// result container sized from a "usual" count must not be overrun or silently cut
	for _, cnt := range []int{5, 9, 17, 33, 65, 100} {
		var q nasType.QoSRules
		for k := 0; k < cnt; k++ {
			q = append(q, x.randRule(true))
		}
		x.rulesM("long-lists", q)
		var d nasType.QoSFlowDescs
		for k := 0; k < cnt; k++ {
			d = append(d, x.randDesc(true))
		}
		x.descsM("long-lists", d)
	}

	// ---- (4) malformed random: mutations of valid encodings, then plain random octets
	n = r.N(500, 8000)
	for i := 0; i < n; i++ {
		x.rulesU("random-mutated", x.mutate(encR[g.Intn(len(encR))]), false)
		x.descsU("random-mutated", x.mutate(encD[g.Intn(len(encD))]), false)
	}
	n = r.N(200, 4000)
	for i := 0; i < n; i++ {
		x.rulesU("random-bytes", g.Bytes(g.Intn(40)), false)
		x.descsU("random-bytes", g.Bytes(g.Intn(24)), false)
		// plausible prefix + random tail
		x.rulesU("random-bytes", append([]byte{g.Byte(), 0, g.Byte(), byte(g.Pick(0x20, 0x21, 0x22, 0x31, 0x61, 0xa2, 0x80, 0xc1))}, g.Bytes(g.Intn(30))...), false)
		x.descsU("random-bytes", append([]byte{g.Byte(), byte(g.Pick(0x20, 0x40, 0x60)), byte(g.Pick(0x41, 0x42, 0x43, 1, 2, 0x7f))}, g.Bytes(g.Intn(20))...), false)
	}
}
