// CAES: correspondence + direct oracle for security.NEA2, NIA2, NASEncrypt, NASMacCalculate
// (the AES part of properties C06, C07, C08).
//
// Normalisation used by the printed cases: a Go nil slice is printed as None, a non-nil
// slice (including the empty one) as Some [...]; returned slices are compared by content.
package main

import (
	"bytes"
	"crypto/aes"
	"crypto/cipher"
	"encoding/binary"
	"encoding/hex"
	"fmt"
	"io"
	"sync"

	"github.com/aead/cmac"

	"github.com/free5gc/nas/logger"
	"github.com/free5gc/nas/security"

	"verifharness/hk"
)

func main() { hk.Main("CAES", run) }

// ---------------------------------------------------------------------------
// Independent reference (the direct oracle's expected values): AES-128 from FIPS-197 with a
// computed S-box, 128-EEA2 (TS 33.401 B.1.3, 64-bit counter field) and 128-EIA2 (B.2.3,
// CMAC per RFC 4493).  Shares no code with crypto/aes, crypto/cipher or aead/cmac.

func refXtime(b byte) byte {
	if b&0x80 != 0 {
		return (b << 1) ^ 0x1b
	}
	return b << 1
}
func refMul(a, b byte) byte {
	var r byte
	for i := 0; i < 8; i++ {
		if b&1 != 0 {
			r ^= a
		}
		a = refXtime(a)
		b >>= 1
	}
	return r
}

var refSbox [256]byte

func init() {
	for x := 0; x < 256; x++ {
		var inv byte
		for y := 1; y < 256 && x != 0; y++ {
			if refMul(byte(x), byte(y)) == 1 {
				inv = byte(y)
				break
			}
		}
		rot := func(v byte, n uint) byte { return v<<n | v>>(8-n) }
		refSbox[x] = inv ^ rot(inv, 1) ^ rot(inv, 2) ^ rot(inv, 3) ^ rot(inv, 4) ^ 0x63
	}
}

func refAES(key [16]byte, in [16]byte) (out [16]byte) {
	var w [44][4]byte
	for i := 0; i < 4; i++ {
		copy(w[i][:], key[4*i:4*i+4])
	}
	rc := byte(1)
	for i := 4; i < 44; i++ {
		t := w[i-1]
		if i%4 == 0 {
			t = [4]byte{refSbox[t[1]] ^ rc, refSbox[t[2]], refSbox[t[3]], refSbox[t[0]]}
			rc = refXtime(rc)
		}
		for j := 0; j < 4; j++ {
			w[i][j] = w[i-4][j] ^ t[j]
		}
	}
	s := in
	ark := func(r int) {
		for c := 0; c < 4; c++ {
			for rr := 0; rr < 4; rr++ {
				s[4*c+rr] ^= w[4*r+c][rr]
			}
		}
	}
	ark(0)
	for r := 1; r <= 10; r++ {
		var t [16]byte
		for c := 0; c < 4; c++ {
			for rr := 0; rr < 4; rr++ {
				t[4*c+rr] = refSbox[s[4*((c+rr)%4)+rr]]
			}
		}
		if r < 10 {
			for c := 0; c < 4; c++ {
				a0, a1, a2, a3 := t[4*c], t[4*c+1], t[4*c+2], t[4*c+3]
				s[4*c] = refMul(a0, 2) ^ refMul(a1, 3) ^ a2 ^ a3
				s[4*c+1] = a0 ^ refMul(a1, 2) ^ refMul(a2, 3) ^ a3
				s[4*c+2] = a0 ^ a1 ^ refMul(a2, 2) ^ refMul(a3, 3)
				s[4*c+3] = refMul(a0, 3) ^ a1 ^ a2 ^ refMul(a3, 2)
			}
		} else {
			s = t
		}
		ark(r)
	}
	return s
}

func refEEA2(key [16]byte, count uint32, bearer, dir uint8, msg []byte) []byte {
	out := make([]byte, len(msg))
	hi := uint64(count)<<32 | uint64(bearer&0x1f)<<27 | uint64(dir&1)<<26
	var lo uint64
	for off := 0; off < len(msg); off += 16 {
		var t [16]byte
		binary.BigEndian.PutUint64(t[:8], hi)
		binary.BigEndian.PutUint64(t[8:], lo)
		o := refAES(key, t)
		for i := 0; i < 16 && off+i < len(msg); i++ {
			out[off+i] = msg[off+i] ^ o[i]
		}
		lo++
	}
	return out
}

func refDbl(l [16]byte) (r [16]byte) {
	for i := 0; i < 16; i++ {
		r[i] = l[i] << 1
		if i < 15 {
			r[i] |= l[i+1] >> 7
		}
	}
	if l[0]&0x80 != 0 {
		r[15] ^= 0x87
	}
	return r
}

func refCMAC(key [16]byte, m []byte) [16]byte {
	k1 := refDbl(refAES(key, [16]byte{}))
	k2 := refDbl(k1)
	n := (len(m) + 15) / 16
	flag := n > 0 && len(m)%16 == 0
	if n == 0 {
		n = 1
	}
	var x [16]byte
	for i := 0; i < n-1; i++ {
		for j := 0; j < 16; j++ {
			x[j] ^= m[16*i+j]
		}
		x = refAES(key, x)
	}
	var last [16]byte
	rest := m[16*(n-1):]
	copy(last[:], rest)
	if flag {
		for j := range last {
			last[j] ^= k1[j]
		}
	} else {
		last[len(rest)] = 0x80
		for j := range last {
			last[j] ^= k2[j]
		}
	}
	for j := range last {
		last[j] ^= x[j]
	}
	return refAES(key, last)
}

func refEIA2(key [16]byte, count uint32, bearer, dir uint8, msg []byte) []byte {
	m := make([]byte, 8+len(msg))
	binary.BigEndian.PutUint32(m, count)
	m[4] = (bearer&0x1f)<<3 | (dir&1)<<2
	copy(m[8:], msg)
	t := refCMAC(key, m)
	return t[:4]
}

// ---------------------------------------------------------------------------

type tuple struct {
	alg       uint8
	key       [16]byte
	count     uint32
	bearer    uint8
	dir       uint8
	payload   []byte // nil = Go nil
	stream    string
	printCase bool
}

func (t tuple) input() map[string]interface{} {
	p := interface{}(nil)
	if t.payload != nil {
		p = hk.Hex(t.payload)
	}
	return map[string]interface{}{"alg": t.alg, "key": hk.Hex(t.key[:]), "count": t.count, "bearer": t.bearer,
		"direction": t.dir, "payload": p}
}

func coqOpt(b []byte) string {
	if b == nil {
		return "None"
	}
	return "(Some " + hk.CoqBytes(b) + ")"
}

func clone(b []byte) []byte {
	if b == nil {
		return nil
	}
	c := make([]byte, len(b))
	copy(c, b)
	return c
}

type harness struct {
	r *hk.Run
}

func (h *harness) fail(site, class string, in interface{}, detail string) {
	h.r.Fail(hk.Failure{Site: site, Class: class, Input: in, Detail: detail})
}

// encOnce runs NASEncrypt on a private copy; returns class ("ok","err","panic") and the payload after.
func encOnce(t tuple, p []byte) (string, []byte) {
	q := clone(p)
	var err error
	panicked, _ := hk.Catch(func() { err = security.NASEncrypt(t.alg, t.key, t.count, t.bearer, t.dir, q) })
	if panicked {
		return "panic", q
	}
	if err != nil {
		return "err", q
	}
	return "ok", q
}

func xorBytes(a, b []byte) []byte {
	o := make([]byte, len(a))
	for i := range a {
		o[i] = a[i] ^ b[i]
	}
	return o
}

// checkEnc: C06 (alg 2 value) and C08 laws evaluated directly on the implementation.
func (h *harness) checkEnc(t tuple) {
	const site = "security.NASEncrypt"
	r := h.r
	if hk.BeyondLen(t.payload, func(w []byte) { _ = security.NASEncrypt(t.alg, t.key, t.count, t.bearer, t.dir, w) }) {
		h.fail(site, "writes-beyond-payload", t.input(), "octets of the caller's array beyond len(payload) were overwritten")
	}
	key0 := t.key
	class, after := encOnce(t, t.payload)
	invalid := t.bearer > 31 || t.dir > 1 || t.payload == nil || t.alg > 3
	switch {
	case class == "panic":
		h.fail(site, "panic", t.input(), "panicked")
	case invalid && class != "err":
		h.fail(site, "validation", t.input(), "bearer > 31, direction > 1, nil payload or unknown algorithm accepted")
	case invalid && !bytes.Equal(after, t.payload):
		h.fail(site, "validation-touched", t.input(), "payload modified although an error was returned")
	case invalid && (after == nil) != (t.payload == nil):
		h.fail(site, "validation-touched", t.input(), "nil-ness changed")
	case !invalid && class != "ok":
		h.fail(site, "rejected", t.input(), "valid parameters rejected")
	}
	if key0 != t.key {
		h.fail(site, "key-modified", t.input(), "key array changed")
	}
	if !invalid && class == "ok" {
		p := t.payload
		if len(after) != len(p) {
			h.fail(site, "length", t.input(), "length changed")
		}
		if t.alg == 0 && !bytes.Equal(after, p) {
			h.fail(site, "null", t.input(), "algorithm 0 changed the payload")
		}
		if t.alg == 2 {
			if want := refEEA2(t.key, t.count, t.bearer, t.dir, p); !bytes.Equal(after, want) {
				h.fail(site, "eea2", t.input(), fmt.Sprintf("got %x want %x (128-EEA2)", after, want))
			}
		}
		// involution
		c2, back := encOnce(t, after)
		if c2 != "ok" || !bytes.Equal(back, p) {
			h.fail(site, "involution", t.input(), fmt.Sprintf("enc(enc(p)) = %x", back))
		}
		// prefix stability at a few cut points
		for _, n := range cutPoints(r, len(p)) {
			c3, pre := encOnce(t, p[:n:n])
			if c3 != "ok" || !bytes.Equal(pre, after[:n]) {
				h.fail(site, "prefix", map[string]interface{}{"tuple": t.input(), "n": n}, fmt.Sprintf("enc(p[:%d]) = %x, enc(p)[:%d] = %x", n, pre, n, after[:n]))
			}
		}
		// keystream independence: another plaintext of the same length
		other := r.Rng.Bytes(len(p))
		if r.Rng.Intn(3) == 0 {
			other = make([]byte, len(p))
		}
		c4, oc := encOnce(t, other)
		if c4 != "ok" || !bytes.Equal(xorBytes(oc, other), xorBytes(after, p)) {
			h.fail(site, "keystream", map[string]interface{}{"tuple": t.input(), "other": hk.Hex(other)}, "ciphertext xor plaintext depends on the plaintext")
		}
	}
	if t.printCase {
		id := r.NextID()
		o := map[string]string{"ok": "(OOk [])", "err": "OErr", "panic": "OPanic"}[class]
		r.AddCase(fmt.Sprintf("(%d, IEnc %d %s %d %d %d %s, %s, %s)", id, t.alg, hk.CoqBytes(t.key[:]), t.count, t.bearer, t.dir,
			coqOpt(t.payload), o, coqOpt(after)),
			fmt.Sprintf("NASEncrypt alg=%d key=%x count=%d bearer=%d dir=%d payload=%v", t.alg, t.key, t.count, t.bearer, t.dir, t.input()["payload"]))
	}
	key := ""
	if !invalid && t.alg != 0 && len(t.payload) > 0 {
		key = fmt.Sprintf("e%d|%x|%d|%d|%d|%x", t.alg, t.key, t.count, t.bearer, t.dir, t.payload)
	}
	r.Count(t.stream, key)
	r.Dist[fmt.Sprintf("enc_alg_%s", algClass(t.alg))]++
	r.Dist[fmt.Sprintf("enc_%s", class)]++
	r.Dist[lenClass(t.payload)]++
}

func cutPoints(r *hk.Run, n int) []int {
	if n == 0 {
		return []int{0}
	}
	pts := map[int]bool{0: true, 1: true, n - 1: true, r.Rng.Intn(n + 1): true}
	for _, b := range []int{3, 4, 5, 15, 16, 17, 31, 32, 33} {
		if b < n && r.Rng.Intn(3) == 0 {
			pts[b] = true
		}
	}
	var out []int
	for p := range pts {
		if p >= 0 && p <= n {
			out = append(out, p)
		}
	}
	// deterministic order
	for i := range out {
		for j := i + 1; j < len(out); j++ {
			if out[j] < out[i] {
				out[i], out[j] = out[j], out[i]
			}
		}
	}
	return out
}

func algClass(a uint8) string {
	if a <= 3 {
		return fmt.Sprintf("%d", a)
	}
	return "unknown"
}

func lenClass(p []byte) string {
	switch {
	case p == nil:
		return "len_nil"
	case len(p) == 0:
		return "len_000"
	case len(p) < 16:
		return "len_001_015"
	case len(p) == 16:
		return "len_016"
	case len(p) < 64:
		return "len_017_063"
	}
	return "len_064_up"
}

// checkMac: C07 (alg 2 value) and the MAC part of C08.
func (h *harness) checkMac(t tuple) {
	const site = "security.NASMacCalculate"
	r := h.r
	if hk.BeyondLen(t.payload, func(w []byte) { _, _ = security.NASMacCalculate(t.alg, t.key, t.count, t.bearer, t.dir, w) }) {
		h.fail(site, "writes-beyond-message", t.input(), "octets of the caller's array beyond len(msg) were overwritten")
	}
	msg := clone(t.payload)
	key0 := t.key
	var mac []byte
	var err error
	panicked, _ := hk.Catch(func() { mac, err = security.NASMacCalculate(t.alg, t.key, t.count, t.bearer, t.dir, msg) })
	invalid := t.bearer > 31 || t.dir > 1 || t.payload == nil || t.alg > 3
	class := "ok"
	switch {
	case panicked:
		class = "panic"
		h.fail(site, "panic", t.input(), "panicked")
	case err != nil:
		class = "err"
	}
	if !panicked {
		switch {
		case invalid && err == nil:
			h.fail(site, "validation", t.input(), "bearer > 31, direction > 1, nil message or unknown algorithm accepted")
		case invalid && mac != nil:
			h.fail(site, "validation", t.input(), "a MAC was returned together with an error")
		case !invalid && err != nil:
			h.fail(site, "rejected", t.input(), "valid parameters rejected")
		case !invalid && len(mac) != 4:
			h.fail(site, "mac-length", t.input(), fmt.Sprintf("MAC has %d octets", len(mac)))
		case !invalid && t.alg == 0 && !bytes.Equal(mac, []byte{0, 0, 0, 0}):
			h.fail(site, "null", t.input(), fmt.Sprintf("algorithm 0 MAC = %x", mac))
		}
		if !invalid && err == nil && t.alg == 2 {
			if want := refEIA2(t.key, t.count, t.bearer, t.dir, t.payload); !bytes.Equal(mac, want) {
				h.fail(site, "eia2", t.input(), fmt.Sprintf("got %x want %x (128-EIA2)", mac, want))
			}
		}
		if !invalid && err == nil {
			// deterministic, and does not depend on memory beyond the message
			var mac2 []byte
			p2, _ := hk.Catch(func() { mac2, _ = security.NASMacCalculate(t.alg, t.key, t.count, t.bearer, t.dir, clone(t.payload)) })
			if p2 || !bytes.Equal(mac, mac2) {
				h.fail(site, "determinism", t.input(), fmt.Sprintf("second call gave %x, first %x", mac2, mac))
			}
		}
	}
	if !bytes.Equal(msg, t.payload) || (msg == nil) != (t.payload == nil) {
		h.fail(site, "message-modified", t.input(), fmt.Sprintf("message after the call: %x", msg))
	}
	if key0 != t.key {
		h.fail(site, "key-modified", t.input(), "key array changed")
	}
	if t.printCase {
		id := r.NextID()
		o := "OErr"
		if class == "panic" {
			o = "OPanic"
		} else if class == "ok" {
			o = "(OOk " + hk.CoqBytes(mac) + ")"
		}
		r.AddCase(fmt.Sprintf("(%d, IMac %d %s %d %d %d %s, %s, None)", id, t.alg, hk.CoqBytes(t.key[:]), t.count, t.bearer, t.dir,
			coqOpt(t.payload), o),
			fmt.Sprintf("NASMacCalculate alg=%d key=%x count=%d bearer=%d dir=%d msg=%v", t.alg, t.key, t.count, t.bearer, t.dir, t.input()["payload"]))
	}
	key := ""
	if !invalid && t.alg != 0 {
		key = fmt.Sprintf("m%d|%x|%d|%d|%d|%x", t.alg, t.key, t.count, t.bearer, t.dir, t.payload)
	}
	r.Count(t.stream, key)
	r.Dist[fmt.Sprintf("mac_alg_%s", algClass(t.alg))]++
	r.Dist[fmt.Sprintf("mac_%s", class)]++
}

// direct calls of NEA2 / NIA2 (any uint8 bearer / direction: the shifts wrap in uint8)
func (h *harness) checkNEA2(stream string, key [16]byte, count uint32, bearer, dir uint8, ibs []byte) {
	r := h.r
	in := tuple{alg: 2, key: key, count: count, bearer: bearer, dir: dir, payload: ibs}.input()
	src := clone(ibs)
	var obs []byte
	var err error
	panicked, _ := hk.Catch(func() { obs, err = security.NEA2(key, count, bearer, dir, src) })
	o := "OErr"
	switch {
	case panicked:
		o = "OPanic"
		h.fail("security.NEA2", "panic", in, "panicked")
	case err == nil:
		o = "(OOk " + hk.CoqBytes(obs) + ")"
		if len(obs) != len(ibs) {
			h.fail("security.NEA2", "length", in, fmt.Sprintf("%d octets in, %d out", len(ibs), len(obs)))
		}
		if bearer < 32 && dir < 2 {
			if want := refEEA2(key, count, bearer, dir, ibs); !bytes.Equal(obs, want) {
				h.fail("security.NEA2", "eea2", in, fmt.Sprintf("got %x want %x (128-EEA2)", obs, want))
			}
		}
	default:
		h.fail("security.NEA2", "rejected", in, "error returned")
	}
	if !bytes.Equal(src, ibs) {
		h.fail("security.NEA2", "message-modified", in, "input modified")
	}
	id := r.NextID()
	r.AddCase(fmt.Sprintf("(%d, INea2 %s %d %d %d %s, %s, None)", id, hk.CoqBytes(key[:]), count, bearer, dir, hk.CoqBytes(ibs), o),
		fmt.Sprintf("NEA2 key=%x count=%d bearer=%d dir=%d ibs=%x", key, count, bearer, dir, ibs))
	k := ""
	if len(ibs) > 0 {
		k = fmt.Sprintf("n|%x|%d|%d|%d|%x", key, count, bearer, dir, ibs)
	}
	r.Count(stream, k)
	r.Dist[lenClass(ibs)]++
	r.Sample(map[string]interface{}{"f": "NEA2", "in": in, "out": hk.Hex(obs)})
}

func (h *harness) checkNIA2(stream string, key [16]byte, count uint32, bearer, dir uint8, msg []byte) {
	r := h.r
	in := tuple{alg: 2, key: key, count: count, bearer: bearer, dir: dir, payload: msg}.input()
	src := clone(msg)
	var mac []byte
	var err error
	panicked, _ := hk.Catch(func() { mac, err = security.NIA2(key, count, bearer, dir, src) })
	o := "OErr"
	switch {
	case panicked:
		o = "OPanic"
		h.fail("security.NIA2", "panic", in, "panicked")
	case err == nil:
		o = "(OOk " + hk.CoqBytes(mac) + ")"
		if len(mac) != 4 {
			h.fail("security.NIA2", "mac-length", in, fmt.Sprintf("MAC has %d octets", len(mac)))
		}
		if bearer < 32 && dir < 2 {
			if want := refEIA2(key, count, bearer, dir, msg); !bytes.Equal(mac, want) {
				h.fail("security.NIA2", "eia2", in, fmt.Sprintf("got %x want %x (128-EIA2)", mac, want))
			}
		}
	default:
		h.fail("security.NIA2", "rejected", in, "error returned")
	}
	if !bytes.Equal(src, msg) {
		h.fail("security.NIA2", "message-modified", in, "input modified")
	}
	id := r.NextID()
	r.AddCase(fmt.Sprintf("(%d, INia2 %s %d %d %d %s, %s, None)", id, hk.CoqBytes(key[:]), count, bearer, dir, hk.CoqBytes(msg), o),
		fmt.Sprintf("NIA2 key=%x count=%d bearer=%d dir=%d msg=%x", key, count, bearer, dir, msg))
	r.Count(stream, fmt.Sprintf("i|%x|%d|%d|%d|%x", key, count, bearer, dir, msg))
	r.Dist[lenClass(msg)]++
	r.Sample(map[string]interface{}{"f": "NIA2", "in": in, "out": hk.Hex(mac)})
}

// external primitives against the model's renderings of them (and the reference)
func (h *harness) checkAES(key, block [16]byte) {
	r := h.r
	c, _ := aes.NewCipher(key[:])
	out := make([]byte, 16)
	c.Encrypt(out, block[:])
	if want := refAES(key, block); !bytes.Equal(out, want[:]) {
		h.fail("crypto/aes.Encrypt", "aes", map[string]string{"key": hk.Hex(key[:]), "block": hk.Hex(block[:])}, "differs from FIPS-197 reference")
	}
	id := r.NextID()
	r.AddCase(fmt.Sprintf("(%d, IAes %s %s, (OOk %s), None)", id, hk.CoqBytes(key[:]), hk.CoqBytes(block[:]), hk.CoqBytes(out)),
		fmt.Sprintf("aes key=%x block=%x", key, block))
	r.Count("ext_aes", fmt.Sprintf("a|%x|%x", key, block))
}

func (h *harness) checkCTR(key [16]byte, iv [16]byte, src []byte) {
	r := h.r
	c, _ := aes.NewCipher(key[:])
	out := make([]byte, len(src))
	panicked, _ := hk.Catch(func() { cipher.NewCTR(c, iv[:]).XORKeyStream(out, src) })
	o := "(OOk " + hk.CoqBytes(out) + ")"
	if panicked {
		o = "OPanic"
	}
	id := r.NextID()
	r.AddCase(fmt.Sprintf("(%d, ICtr %s %s %s, %s, None)", id, hk.CoqBytes(key[:]), hk.CoqBytes(iv[:]), hk.CoqBytes(src), o),
		fmt.Sprintf("ctr key=%x iv=%x src=%x", key, iv, src))
	r.Count("ext_ctr", fmt.Sprintf("c|%x|%x|%x", key, iv, src))
}

func (h *harness) checkCMAC(key [16]byte, msg []byte) {
	r := h.r
	c, _ := aes.NewCipher(key[:])
	m := clone(msg)
	tag, err := cmac.Sum(m, c, 16)
	o := "OErr"
	if err == nil {
		o = "(OOk " + hk.CoqBytes(tag) + ")"
		if want := refCMAC(key, msg); !bytes.Equal(tag, want[:]) {
			h.fail("cmac.Sum", "cmac", map[string]string{"key": hk.Hex(key[:]), "msg": hk.Hex(msg)}, "differs from RFC 4493 reference")
		}
	}
	id := r.NextID()
	r.AddCase(fmt.Sprintf("(%d, ICmac %s %s, %s, None)", id, hk.CoqBytes(key[:]), hk.CoqBytes(msg), o),
		fmt.Sprintf("cmac key=%x msg=%x", key, msg))
	r.Count("ext_cmac", fmt.Sprintf("m|%x|%x", key, msg))
}

func hexBytes(s string) []byte {
	b, err := hex.DecodeString(s)
	if err != nil {
		panic(err)
	}
	return b
}
func hexKey(s string) (k [16]byte) {
	copy(k[:], hexBytes(s))
	return k
}

func run(r *hk.Run) {
	logger.GetLogger().SetOutput(io.Discard)
	r.SetCoq("From NV Require Import Lib.Base CAES.Model CAES.Corr.\nOpen Scope N_scope.", "case")
	h := &harness{r: r}
	rng := r.Rng

	randKey := func() (k [16]byte) { copy(k[:], rng.Bytes(16)); return k }
	specialKeys := func() [][16]byte {
		var ks [][16]byte
		var z, o [16]byte
		for i := range o {
			o[i] = 0xff
		}
		ks = append(ks, z, o)
		for _, bit := range []int{0, 7, 8, 63, 64, 120, 127} {
			var k [16]byte
			k[bit/8] = 0x80 >> uint(bit%8)
			ks = append(ks, k)
		}
		return ks
	}()
	counts := []uint32{0, 1, 0x7fffffff, 0x80000000, 0xffffffff, 0x00ff00ff, 0x01020304}
	pickCount := func() uint32 {
		if rng.Intn(3) == 0 {
			return counts[rng.Intn(len(counts))]
		}
		return uint32(rng.Next())
	}
	pickKey := func() [16]byte {
		if rng.Intn(6) == 0 {
			return specialKeys[rng.Intn(len(specialKeys))]
		}
		return randKey()
	}
	payloadOf := func(n int) []byte {
		switch rng.Intn(6) {
		case 0:
			return make([]byte, n)
		case 1:
			return bytes.Repeat([]byte{0xff}, n)
		}
		return rng.Bytes(n)
	}

	// ---------------- (1) corpus: published vectors and witnesses of fixed defects
	k1 := hexKey("d3c5d592327fb11c4035c6680af8c6d1")
	h.checkNEA2("corpus", k1, 0x398a59b4, 0x15, 1, hexBytes("981ba6824c1bfb1ab485472029b71d808ce33e2cc3c0b5fc1f3de8a6dc66b1"))
	h.checkNIA2("corpus", k1, 0x398a59b4, 0x1a, 1, hexBytes("484583d5afe082ae"))
	h.checkAES(hexKey("2b7e151628aed2a6abf7158809cf4f3c"), hexKey("3243f6a8885a308d313198a2e0370734"))
	h.checkAES(hexKey("000102030405060708090a0b0c0d0e0f"), hexKey("00112233445566778899aabbccddeeff"))
	h.checkCTR(hexKey("2b7e151628aed2a6abf7158809cf4f3c"), hexKey("f0f1f2f3f4f5f6f7f8f9fafbfcfdfeff"),
		hexBytes("6bc1bee22e409f96e93d7e117393172aae2d8a571e03ac9c9eb76fac45af8e5130c81c46a35ce411e5fbc1191a0a52eff69f2445df4f9b17ad2b417be66c3710"))
	rfcMsg := hexBytes("6bc1bee22e409f96e93d7e117393172aae2d8a571e03ac9c9eb76fac45af8e5130c81c46a35ce411e5fbc1191a0a52eff69f2445df4f9b17ad2b417be66c3710")
	for _, n := range []int{0, 16, 40, 64} {
		h.checkCMAC(hexKey("2b7e151628aed2a6abf7158809cf4f3c"), rfcMsg[:n])
	}
	// F4 (fixed): empty message through every algorithm; nil through every algorithm
	for alg := 0; alg < 6; alg++ {
		for _, p := range [][]byte{{}, nil, {0}} {
			t := tuple{alg: uint8(alg), key: k1, count: 0x398a59b4, bearer: 3, dir: 1, payload: p, stream: "corpus", printCase: true}
			h.checkMac(t)
			h.checkEnc(t)
		}
	}

	// ---------------- (2) directed
	// crypto/aes against the FIPS-197 model
	for _, k := range specialKeys {
		h.checkAES(k, [16]byte{})
		h.checkAES(k, randKey())
	}
	for i := 0; i < r.N(40, 2000); i++ {
		h.checkAES(randKey(), randKey())
	}
	// cipher.NewCTR: counter carries through 1..16 octets (incl. wrap of the whole block),
	// lengths around the block size and around Go's 512-octet stream buffer
	for nff := 0; nff <= 16; nff++ {
		var iv [16]byte
		copy(iv[:], rng.Bytes(16))
		if nff < 16 {
			iv[15-nff] &= 0xfe // stop the carry here
		}
		for i := 16 - nff; i < 16; i++ {
			iv[i] = 0xff
		}
		h.checkCTR(randKey(), iv, rng.Bytes(33+rng.Intn(16)))
	}
	{
		var iv [16]byte
		for i := range iv {
			iv[i] = 0xff
		}
		iv[15] = 0xfd // wraps at the third block
		h.checkCTR(randKey(), iv, rng.Bytes(80))
	}
	for _, n := range []int{0, 1, 15, 16, 17, 31, 32, 33, 47, 48, 49, 511, 512, 513, 1023, 1025} {
		var iv [16]byte
		copy(iv[:], rng.Bytes(16))
		h.checkCTR(randKey(), iv, rng.Bytes(n))
	}
	// cmac.Sum: 0..4 blocks +- 1 octet
	for _, n := range []int{0, 1, 2, 7, 8, 9, 15, 16, 17, 31, 32, 33, 47, 48, 49, 63, 64, 65, 80} {
		h.checkCMAC(randKey(), rng.Bytes(n))
		h.checkCMAC(pickKey(), payloadOf(n))
	}
	// NEA2 / NIA2: every bearer x direction; lengths 0..49 cycling; boundary counts; special keys
	ln := 0
	for b := 0; b < 32; b++ {
		for d := 0; d < 2; d++ {
			h.checkNEA2("directed", pickKey(), counts[(b+d)%len(counts)], uint8(b), uint8(d), payloadOf(ln%50))
			h.checkNIA2("directed", pickKey(), counts[(b+d+3)%len(counts)], uint8(b), uint8(d), payloadOf((ln*7)%50))
			ln++
		}
	}
	for n := 0; n <= 49; n++ {
		h.checkNEA2("directed", randKey(), pickCount(), uint8(rng.Intn(32)), uint8(rng.Intn(2)), payloadOf(n))
		h.checkNIA2("directed", randKey(), pickCount(), uint8(rng.Intn(32)), uint8(rng.Intn(2)), payloadOf(n))
	}
	for _, k := range specialKeys {
		for _, c := range []uint32{0, 0xffffffff} {
			h.checkNEA2("directed", k, c, 31, 1, payloadOf(20))
			h.checkNIA2("directed", k, c, 31, 1, payloadOf(9))
		}
	}
	// direct calls outside the 5-bit / 1-bit range: the uint8 shifts wrap
	for _, bd := range [][2]uint8{{32, 0}, {33, 1}, {255, 255}, {0, 2}, {1, 64}, {31, 3}, {128, 128}, {0x1f, 0x41}} {
		h.checkNEA2("directed_wrap", randKey(), pickCount(), bd[0], bd[1], rng.Bytes(18))
		h.checkNIA2("directed_wrap", randKey(), pickCount(), bd[0], bd[1], rng.Bytes(5))
	}
	// the (alg, bearer, direction) grid on its boundaries, 3 payload lengths each + nil
	bnd := []uint8{0, 1, 2, 3, 4, 31, 32, 255}
	if r.Thorough() {
		bnd = []uint8{0, 1, 2, 3, 4, 5, 15, 16, 30, 31, 32, 33, 64, 127, 128, 254, 255}
	}
	gridLens := func() []int { return []int{0, 1 + rng.Intn(15), 16 + rng.Intn(34)} }
	for _, alg := range bnd {
		for _, b := range bnd {
			for _, d := range bnd {
				key, cnt := pickKey(), pickCount()
				for _, n := range gridLens() {
					t := tuple{alg: alg, key: key, count: cnt, bearer: b, dir: d, payload: payloadOf(n), stream: "grid_boundary", printCase: true}
					h.checkEnc(t)
					h.checkMac(t)
				}
				if rng.Intn(4) == 0 {
					t := tuple{alg: alg, key: key, count: cnt, bearer: b, dir: d, payload: nil, stream: "grid_boundary", printCase: true}
					h.checkEnc(t)
					h.checkMac(t)
				}
			}
		}
	}

	// ---------------- (3) structured random: valid parameters, every algorithm
	for i := 0; i < r.N(240, 6000); i++ {
		n := rng.Intn(70)
		if rng.Intn(10) == 0 {
			n = 100 + rng.Intn(200)
		}
		t := tuple{alg: uint8(rng.Intn(4)), key: pickKey(), count: pickCount(), bearer: uint8(rng.Intn(32)), dir: uint8(rng.Intn(2)),
			payload: payloadOf(n), stream: "random_valid", printCase: true}
		h.checkEnc(t)
		h.checkMac(t)
	}
	for i := 0; i < r.N(60, 3000); i++ {
		h.checkNEA2("random_valid", pickKey(), pickCount(), uint8(rng.Intn(32)), uint8(rng.Intn(2)), payloadOf(rng.Intn(90)))
		h.checkNIA2("random_valid", pickKey(), pickCount(), uint8(rng.Intn(32)), uint8(rng.Intn(2)), payloadOf(rng.Intn(90)))
	}

	// ---------------- (3b) block-structured messages (zero / all-ones / single-bit / repeated 8- and 16-octet
	// blocks): CMAC chains 16-octet blocks, EIA1 multiplies 8-octet blocks, EIA3 sums words -- through the API
	// with every algorithm, and NIA2 / NEA2 directly
	for i := 0; i < r.N(160, 4000); i++ {
		bs := []int{4, 8, 16, 16}[rng.Intn(4)]
		msg := hk.BlockMsg(rng, bs, 1+rng.Intn(6), rng.Intn(bs+1))
		t := tuple{alg: uint8(1 + rng.Intn(3)), key: pickKey(), count: pickCount(), bearer: uint8(rng.Intn(32)), dir: uint8(rng.Intn(2)),
			payload: msg, stream: "block_structured", printCase: true}
		h.checkEnc(t)
		h.checkMac(t)
		if i%4 == 0 {
			h.checkNIA2("block_structured", t.key, t.count, t.bearer, t.dir, msg)
			h.checkNEA2("block_structured", t.key, t.count, t.bearer, t.dir, msg)
		}
	}

	// ---------------- (4) malformed: anything from the 256^3 grid, nil payloads
	for i := 0; i < r.N(300, 20000); i++ {
		var p []byte
		if rng.Intn(8) != 0 {
			p = payloadOf(rng.Intn(40))
		}
		alg := uint8(rng.Next())
		if rng.Intn(2) == 0 {
			alg = uint8(rng.Intn(5))
		}
		b := uint8(rng.Next())
		if rng.Intn(2) == 0 {
			b = uint8(28 + rng.Intn(8))
		}
		d := uint8(rng.Next())
		if rng.Intn(2) == 0 {
			d = uint8(rng.Intn(4))
		}
		t := tuple{alg: alg, key: pickKey(), count: pickCount(), bearer: b, dir: d, payload: p, stream: "random_grid", printCase: true}
		h.checkEnc(t)
		h.checkMac(t)
	}

	// ---------------- concurrent contexts: several goroutines, each with its own key (an AMF serving several
	// UEs), ciphering and MACing at the same time; every result must be the value of the function at its own
	// arguments (128-EEA2 / 128-EIA2 for algorithm 2, the sequentially computed value for 1 and 3)
	{
		type job struct {
			t       tuple
			wantEnc []byte
			wantMac []byte
		}
		const workers = 8
		per := r.N(1500, 20000)
		jobs := make([][]job, workers)
		for w := range jobs {
			key := randKey()
			for i := 0; i < per; i++ {
				alg := uint8(2)
				if i%5 == 3 {
					alg = 1
				} else if i%5 == 4 {
					alg = 3
				}
				t := tuple{alg: alg, key: key, count: uint32(i), bearer: uint8(rng.Intn(32)), dir: uint8(rng.Intn(2)), payload: rng.Bytes(1 + rng.Intn(80)), stream: "concurrent_contexts"}
				j := job{t: t}
				if alg == 2 {
					j.wantEnc = refEEA2(t.key, t.count, t.bearer, t.dir, t.payload)
					j.wantMac = refEIA2(t.key, t.count, t.bearer, t.dir, t.payload)
				} else {
					_, j.wantEnc = encOnce(t, t.payload)
					j.wantMac, _ = security.NASMacCalculate(t.alg, t.key, t.count, t.bearer, t.dir, clone(t.payload))
				}
				jobs[w] = append(jobs[w], j)
			}
		}
		var mu sync.Mutex
		var wg sync.WaitGroup
		bad := 0
		for w := 0; w < workers; w++ {
			wg.Add(1)
			go func(js []job) {
				defer wg.Done()
				for _, j := range js {
					class, got := encOnce(j.t, j.t.payload)
					var mac []byte
					var merr error
					mp, _ := hk.Catch(func() {
						mac, merr = security.NASMacCalculate(j.t.alg, j.t.key, j.t.count, j.t.bearer, j.t.dir, clone(j.t.payload))
					})
					var direct []byte
					if j.t.alg == 2 {
						hk.Catch(func() { direct, _ = security.NEA2(j.t.key, j.t.count, j.t.bearer, j.t.dir, clone(j.t.payload)) })
					}
					mu.Lock()
					if class != "ok" || !bytes.Equal(got, j.wantEnc) {
						if bad < 5 {
							h.fail("security.NASEncrypt", "concurrent-contexts-differ", j.t.input(), fmt.Sprintf("%d goroutines with distinct keys: got %s %x want %x", workers, class, got, j.wantEnc))
						}
						bad++
					}
					if j.t.alg == 2 && !bytes.Equal(direct, j.wantEnc) {
						if bad < 5 {
							h.fail("security.NEA2", "concurrent-contexts-differ", j.t.input(), fmt.Sprintf("%d goroutines with distinct keys: got %x want %x", workers, direct, j.wantEnc))
						}
						bad++
					}
					if mp || merr != nil || !bytes.Equal(mac, j.wantMac) {
						if bad < 5 {
							h.fail("security.NASMacCalculate", "concurrent-contexts-differ", j.t.input(), fmt.Sprintf("%d goroutines with distinct keys: got %x want %x", workers, mac, j.wantMac))
						}
						bad++
					}
					mu.Unlock()
				}
			}(jobs[w])
		}
		wg.Wait()
		for w := range jobs {
			for _, j := range jobs[w] {
				r.Count("concurrent_contexts", fmt.Sprintf("cc|%d|%x|%d|%x", j.t.alg, j.t.key, j.t.count, j.t.payload))
			}
		}
		r.Extra["concurrent_contexts_workers"] = workers
		r.Extra["concurrent_contexts_wrong"] = bad
	}

	// ---------------- thorough: the whole 256^3 grid on the implementation (oracle only)
	if r.Thorough() {
		n := 0
		for alg := 0; alg < 256; alg++ {
			for b := 0; b < 256; b++ {
				for d := 0; d < 256; d++ {
					valid := alg <= 3 && b <= 31 && d <= 1
					lens := []int{0, 1 + rng.Intn(15), 16 + rng.Intn(34)}
					if !valid {
						lens = []int{[]int{0, 1 + rng.Intn(15), 16 + rng.Intn(34)}[rng.Intn(3)]}
					}
					for _, ll := range lens {
						t := tuple{alg: uint8(alg), key: randKey(), count: uint32(rng.Next()), bearer: uint8(b), dir: uint8(d), payload: rng.Bytes(ll), stream: "grid_full_impl_only"}
						h.checkEnc(t)
						h.checkMac(t)
						n++
					}
				}
			}
		}
		r.Extra["grid_full_points"] = 256 * 256 * 256
		r.Extra["grid_full_calls"] = n
	}
}
