// CS3G: SNOW 3G / NEA1 / NIA1 (algorithm identity 1) -- part of C06, C07, C08.
//
// Correspondence: every call made here on the Go implementation is printed as a Coq case and
// replayed on the hand-written model coq/CS3G/Model.v, which is proven equal to the ETSI/SAGE
// SNOW 3G / UEA2 / UIA2 specification (coq/CS3G/Spec.v); a disagreement is therefore a failing input.
// Direct oracle (Go side, r.Fail): published known answers, in-place API = per-algorithm function,
// involution, prefix stability, length, keystream independence of the plaintext, MAC length 4,
// determinism, inputs unchanged, no panic (including empty and nil).
// Normalisation: Go nil and empty slices are both [] in the model; a nil payload (an error in
// NASEncrypt/NASMacCalculate) is checked on the Go side only.
package main

import (
	"bytes"
	"encoding/binary"
	"fmt"
	"strings"

	"github.com/free5gc/nas/security"
	"github.com/free5gc/nas/security/snow3g"

	"verifharness/hk"
)

func main() { hk.Main("CS3G", run) }

var R *hk.Run

func coqWords(ws []uint32) string {
	var sb strings.Builder
	sb.WriteByte('[')
	for i, w := range ws {
		if i > 0 {
			sb.WriteByte(';')
		}
		fmt.Fprintf(&sb, "%d", w)
	}
	sb.WriteByte(']')
	return sb.String()
}

func hexWords(ws []uint32) string {
	var s []string
	for _, w := range ws {
		s = append(s, fmt.Sprintf("%08x", w))
	}
	return strings.Join(s, ",")
}

func fail(site, class string, input map[string]interface{}, detail string) {
	R.Fail(hk.Failure{Site: site, Class: class, Input: input, Detail: detail})
}

func lenBucket(n int) string {
	switch {
	case n == 0:
		return "000"
	case n < 8:
		return "001-007"
	case n < 32:
		return "008-031"
	case n < 128:
		return "032-127"
	}
	return "128+"
}

// ---------------------------------------------------------------- snow3g.GetKeyStream

func emitKS(stream string, k, iv [4]uint32, n int) {
	var ks []uint32
	k0, iv0 := k, iv
	panicked, pv := hk.Catch(func() { ks = snow3g.GetKeyStream(k, iv, n) })
	in := map[string]interface{}{"op": "GetKeyStream", "k": hexWords(k[:]), "iv": hexWords(iv[:]), "n": n}
	obs := "OPanic"
	if panicked {
		fail("snow3g.GetKeyStream", "panic", in, fmt.Sprint(pv))
	} else {
		obs = "OWords " + coqWords(ks)
		if len(ks) != n {
			fail("snow3g.GetKeyStream", "length", in, fmt.Sprintf("%d words returned, %d requested", len(ks), n))
		}
		// prefix law: the first m words do not depend on n
		for _, m := range []int{0, 1, n / 2} {
			if m <= n {
				p := snow3g.GetKeyStream(k, iv, m)
				for i := range p {
					if p[i] != ks[i] {
						fail("snow3g.GetKeyStream", "prefix", in, fmt.Sprintf("word %d differs between n=%d and n=%d", i, m, n))
						break
					}
				}
			}
		}
		if k != k0 || iv != iv0 {
			fail("snow3g.GetKeyStream", "input-modified", in, "key or iv array changed")
		}
	}
	id := R.NextID()
	desc := fmt.Sprintf("GetKeyStream k=%s iv=%s n=%d", hexWords(k[:]), hexWords(iv[:]), n)
	R.AddCase(fmt.Sprintf("(%d, OpKS %s %s %d, %s)", id, coqWords(k[:]), coqWords(iv[:]), n, obs), desc)
	key := ""
	if n > 0 {
		key = desc
	}
	R.Count(stream, key)
	R.Dist["ks_words_"+lenBucket(n)]++
	R.Sample(map[string]interface{}{"op": "GetKeyStream", "k": hexWords(k[:]), "iv": hexWords(iv[:]), "n": n, "ks": hexWords(ks)})
}

// ---------------------------------------------------------------- security.NEA1

func emitNEA1(stream string, ck [16]byte, count, bearer, dir uint32, ibs []byte, length uint32) []byte {
	var out []byte
	var err error
	in0 := hk.ExactNil(ibs)
	ck0 := ck
	panicked, pv := hk.Catch(func() { out, err = security.NEA1(ck, count, bearer, dir, ibs, length) })
	in := map[string]interface{}{"op": "NEA1", "key": hk.Hex(ck[:]), "count": count, "bearer": bearer, "direction": dir,
		"ibs": hk.Hex(in0), "length": length}
	inDomain := bearer < 32 && dir < 2 && uint64(length) <= 8*uint64(len(ibs))
	obs := "OPanic"
	switch {
	case panicked:
		if inDomain {
			fail("security.NEA1", "panic", in, fmt.Sprint(pv))
		}
	case err != nil:
		obs = "OErr"
		if inDomain {
			fail("security.NEA1", "error", in, err.Error())
		}
	default:
		obs = "OBytes " + hk.CoqBytes(out)
		if inDomain {
			if len(out) != len(ibs) {
				fail("security.NEA1", "length", in, fmt.Sprintf("output has %d octets, input %d", len(out), len(ibs)))
			}
			if !bytes.Equal(ibs, in0) || ck != ck0 {
				fail("security.NEA1", "input-modified", in, "ibs or key changed by the call")
			}
			// involution on the first `length` bits: deciphering the ciphertext gives the plaintext bits back
			nb := int((uint64(length) + 7) / 8)
			if len(out) >= nb {
				back, err2 := security.NEA1(ck, count, bearer, dir, out[:nb], length)
				if err2 != nil || len(back) != nb || !bytes.Equal(back, in0[:nb]) {
					fail("security.NEA1", "involution", in, fmt.Sprintf("NEA1(NEA1(x)) = %x, x = %x", back, in0[:nb]))
				}
			}
			// the keystream does not depend on the plaintext
			z, _ := security.NEA1(ck, count, bearer, dir, make([]byte, len(ibs)), length)
			for i := 0; i < nb && i < len(z) && i < len(out); i++ {
				m := byte(0xff)
				if i == nb-1 && length%8 != 0 {
					m = 0xff << (8 - length%8)
				}
				if (out[i]^in0[i])&m != z[i]&m {
					fail("security.NEA1", "keystream-depends-on-plaintext", in, fmt.Sprintf("octet %d", i))
					break
				}
			}
		}
	}
	id := R.NextID()
	desc := fmt.Sprintf("NEA1 key=%x count=%d bearer=%d dir=%d ibs=%x length=%d", ck, count, bearer, dir, in0, length)
	R.AddCase(fmt.Sprintf("(%d, OpNEA1 %s %d %d %d %s %d, %s)", id, hk.CoqBytes(ck[:]), count, bearer, dir, hk.CoqBytes(in0), length, obs), desc)
	key := ""
	if length > 0 && inDomain {
		key = desc
	}
	R.Count(stream, key)
	R.Dist[fmt.Sprintf("nea1_bits_mod32_%02d", length%32)]++
	R.Dist["nea1_octets_"+lenBucket(len(ibs))]++
	R.Sample(map[string]interface{}{"op": "NEA1", "input": in, "obs": hk.Hex(out)})
	return out
}

// ---------------------------------------------------------------- security.NIA1

func emitNIA1(stream string, ik [16]byte, count uint32, bearer byte, dir uint32, msg []byte, length uint64) []byte {
	var mac []byte
	var err error
	m0 := hk.ExactNil(msg)
	ik0 := ik
	panicked, pv := hk.Catch(func() { mac, err = security.NIA1(ik, count, bearer, dir, msg, length) })
	in := map[string]interface{}{"op": "NIA1", "key": hk.Hex(ik[:]), "count": count, "bearer": bearer, "direction": dir,
		"msg": hk.Hex(m0), "length": length}
	if hk.BeyondLen(msg, func(w []byte) { _, _ = security.NIA1(ik, count, bearer, dir, w, length) }) {
		fail("security.NIA1", "writes-beyond-message", in, "octets of the caller's array beyond len(msg) were overwritten")
	}
	inDomain := bearer < 32 && dir < 2 && length <= 8*uint64(len(msg))
	obs := "OPanic"
	switch {
	case panicked:
		if inDomain {
			fail("security.NIA1", "panic", in, fmt.Sprint(pv))
		}
	case err != nil:
		obs = "OErr"
		if inDomain {
			fail("security.NIA1", "error", in, err.Error())
		}
	default:
		obs = "OBytes " + hk.CoqBytes(mac)
		if inDomain {
			if len(mac) != 4 {
				fail("security.NIA1", "mac-length", in, fmt.Sprintf("MAC has %d octets", len(mac)))
			}
			if !bytes.Equal(msg, m0) || ik != ik0 {
				fail("security.NIA1", "input-modified", in, "msg or key changed by the call")
			}
			again, _ := security.NIA1(ik, count, bearer, dir, msg, length)
			if !bytes.Equal(again, mac) {
				fail("security.NIA1", "nondeterministic", in, fmt.Sprintf("%x then %x", mac, again))
			}
		}
	}
	id := R.NextID()
	desc := fmt.Sprintf("NIA1 key=%x count=%d bearer=%d dir=%d msg=%x length=%d", ik, count, bearer, dir, m0, length)
	R.AddCase(fmt.Sprintf("(%d, OpNIA1 %s %d %d %d %s %d, %s)", id, hk.CoqBytes(ik[:]), count, bearer, dir, hk.CoqBytes(m0), length, obs), desc)
	key := ""
	if inDomain {
		key = desc
	}
	R.Count(stream, key)
	R.Dist[fmt.Sprintf("nia1_bits_mod64_%02d", length%64)]++
	R.Dist["nia1_octets_"+lenBucket(len(msg))]++
	R.Sample(map[string]interface{}{"op": "NIA1", "input": in, "mac": hk.Hex(mac)})
	return mac
}

// ---------------------------------------------------------------- security.NASEncrypt, AlgoID 1

func encrypt(ck [16]byte, count uint32, bearer, dir uint8, p []byte) (out []byte, err error, panicked bool) {
	out = hk.Exact(p)
	panicked, _ = hk.Catch(func() { err = security.NASEncrypt(security.AlgCiphering128NEA1, ck, count, bearer, dir, out) })
	return
}

func emitEnc(stream string, ck [16]byte, count uint32, bearer, dir uint8, payload []byte) {
	p0 := hk.Exact(payload)
	ck0 := ck
	in := map[string]interface{}{"op": "NASEncrypt", "alg": 1, "key": hk.Hex(ck[:]), "count": count, "bearer": bearer,
		"direction": dir, "payload": hk.Hex(p0)}
	buf := hk.Exact(payload)
	if hk.BeyondLen(payload, func(w []byte) { _ = security.NASEncrypt(security.AlgCiphering128NEA1, ck, count, bearer, dir, w) }) {
		fail("security.NASEncrypt", "writes-beyond-payload", in, "octets of the caller's array beyond len(payload) were overwritten")
	}
	var err error
	panicked, pv := hk.Catch(func() {
		err = security.NASEncrypt(security.AlgCiphering128NEA1, ck, count, bearer, dir, buf)
	})
	valid := bearer < 32 && dir < 2
	obs := "OPanic"
	switch {
	case panicked:
		fail("security.NASEncrypt", "panic", in, fmt.Sprint(pv))
	case err != nil:
		obs = "OErr"
		if valid {
			fail("security.NASEncrypt", "error", in, err.Error())
		} else if !bytes.Equal(buf, p0) {
			fail("security.NASEncrypt", "payload-modified-on-error", in, hk.Hex(buf))
		}
	default:
		obs = "OBytes " + hk.CoqBytes(buf)
		if !valid {
			fail("security.NASEncrypt", "validation", in, "bearer > 31 or direction > 1 accepted")
			break
		}
		if len(buf) != len(p0) {
			fail("security.NASEncrypt", "length", in, "length changed")
		}
		if ck != ck0 {
			fail("security.NASEncrypt", "input-modified", in, "key changed")
		}
		// in-place API = per-algorithm function with length = 8*len
		direct, derr := security.NEA1(ck, count, uint32(bearer), uint32(dir), p0, uint32(len(p0))*8)
		if derr != nil || !bytes.Equal(direct, buf) {
			fail("security.NASEncrypt", "api-vs-NEA1", in, fmt.Sprintf("NASEncrypt %x, NEA1 %x", buf, direct))
		}
		// involution
		back, err2, pn := encrypt(ck, count, bearer, dir, buf)
		if pn || err2 != nil || !bytes.Equal(back, p0) {
			fail("security.NASEncrypt", "involution", in, fmt.Sprintf("deciphering gives %x", back))
		}
		// prefix stability: every prefix (short payloads), a sample (long payloads)
		step := 1
		if len(p0) > 48 {
			step = 7
		}
		for n := 0; n <= len(p0); n += step {
			pre, err3, pn3 := encrypt(ck, count, bearer, dir, p0[:n])
			if pn3 || err3 != nil || !bytes.Equal(pre, buf[:n]) {
				fail("security.NASEncrypt", "prefix", in, fmt.Sprintf("prefix of %d octets enciphers to %x, expected %x", n, pre, buf[:n]))
				break
			}
		}
		// ciphertext xor plaintext does not depend on the plaintext
		zs, _, _ := encrypt(ck, count, bearer, dir, make([]byte, len(p0)))
		for i := range p0 {
			if buf[i]^p0[i] != zs[i] {
				fail("security.NASEncrypt", "keystream-depends-on-plaintext", in, fmt.Sprintf("octet %d", i))
				break
			}
		}
	}
	id := R.NextID()
	desc := fmt.Sprintf("NASEncrypt alg=1 key=%x count=%d bearer=%d dir=%d payload=%x", ck, count, bearer, dir, p0)
	R.AddCase(fmt.Sprintf("(%d, OpEnc %s %d %d %d %s, %s)", id, hk.CoqBytes(ck[:]), count, bearer, dir, hk.CoqBytes(p0), obs), desc)
	key := ""
	if valid && len(p0) > 0 {
		key = desc
	}
	R.Count(stream, key)
	R.Dist["enc_octets_"+lenBucket(len(p0))]++
	R.Sample(map[string]interface{}{"op": "NASEncrypt", "input": in, "out": hk.Hex(buf)})
}

// ---------------------------------------------------------------- security.NASMacCalculate, AlgoID 1

func emitMac(stream string, ik [16]byte, count uint32, bearer, dir uint8, msg []byte) {
	m0 := hk.Exact(msg)
	ik0 := ik
	in := map[string]interface{}{"op": "NASMacCalculate", "alg": 1, "key": hk.Hex(ik[:]), "count": count, "bearer": bearer,
		"direction": dir, "msg": hk.Hex(m0)}
	buf := hk.Exact(msg)
	if hk.BeyondLen(msg, func(w []byte) {
		_, _ = security.NASMacCalculate(security.AlgIntegrity128NIA1, ik, count, bearer, dir, w)
	}) {
		fail("security.NASMacCalculate", "writes-beyond-message", in, "octets of the caller's array beyond len(msg) were overwritten")
	}
	var mac []byte
	var err error
	panicked, pv := hk.Catch(func() {
		mac, err = security.NASMacCalculate(security.AlgIntegrity128NIA1, ik, count, bearer, dir, buf)
	})
	valid := bearer < 32 && dir < 2
	obs := "OPanic"
	switch {
	case panicked:
		fail("security.NASMacCalculate", "panic", in, fmt.Sprint(pv))
	case err != nil:
		obs = "OErr"
		if valid {
			fail("security.NASMacCalculate", "error", in, err.Error())
		}
	default:
		obs = "OBytes " + hk.CoqBytes(mac)
		if !valid {
			fail("security.NASMacCalculate", "validation", in, "bearer > 31 or direction > 1 accepted")
			break
		}
		if len(mac) != 4 {
			fail("security.NASMacCalculate", "mac-length", in, fmt.Sprintf("MAC has %d octets", len(mac)))
		}
		if !bytes.Equal(buf, m0) || ik != ik0 {
			fail("security.NASMacCalculate", "input-modified", in, "message or key changed by the call")
		}
		direct, derr := security.NIA1(ik, count, bearer, uint32(dir), m0, uint64(len(m0))*8)
		if derr != nil || !bytes.Equal(direct, mac) {
			fail("security.NASMacCalculate", "api-vs-NIA1", in, fmt.Sprintf("NASMacCalculate %x, NIA1 %x", mac, direct))
		}
	}
	id := R.NextID()
	desc := fmt.Sprintf("NASMacCalculate alg=1 key=%x count=%d bearer=%d dir=%d msg=%x", ik, count, bearer, dir, m0)
	R.AddCase(fmt.Sprintf("(%d, OpMac %s %d %d %d %s, %s)", id, hk.CoqBytes(ik[:]), count, bearer, dir, hk.CoqBytes(m0), obs), desc)
	key := ""
	if valid {
		key = desc
	}
	R.Count(stream, key)
	R.Dist["mac_octets_"+lenBucket(len(m0))]++
	R.Sample(map[string]interface{}{"op": "NASMacCalculate", "input": in, "mac": hk.Hex(mac)})
}

// ---------------------------------------------------------------- generators

func rndKey() (k [16]byte) {
	copy(k[:], R.Rng.Bytes(16))
	return
}

func bitKey(i int) (k [16]byte) {
	k[i/8] = 0x80 >> (i % 8)
	return
}

func onesKey() (k [16]byte) {
	for i := range k {
		k[i] = 0xff
	}
	return
}

func keyWords(k [16]byte) (w [4]uint32) {
	for i := 0; i < 4; i++ {
		w[i] = binary.BigEndian.Uint32(k[4*i:])
	}
	return
}

var fixedCounts = []uint32{0, 1, 1 << 31, 0xffffffff}

func pickCount(i int) uint32 {
	if i%5 == 4 {
		return uint32(R.Rng.Next())
	}
	return fixedCounts[i%5]
}

// an N-bit message: ceil(N/8) octets, pad bits zero
func bitMsg(nbits int) []byte {
	b := R.Rng.Bytes((nbits + 7) / 8)
	if nbits%8 != 0 {
		b[len(b)-1] &= 0xff << (8 - nbits%8)
	}
	return b
}

func specialKey(i int) [16]byte {
	switch i % 4 {
	case 0:
		return [16]byte{}
	case 1:
		return onesKey()
	case 2:
		return bitKey(R.Rng.Intn(128))
	}
	return rndKey()
}

// published known answers (ETSI/SAGE SNOW 3G implementors' test data; 128-EEA1 / 128-EIA1 test sets as
// carried by the repository's own tests): a wrong answer is a failing input by itself
func knownAnswers() {
	type kv struct{ k, iv [4]uint32; z []uint32 }
	for i, v := range []kv{
		{[4]uint32{0x2bd6459f, 0x82c5b300, 0x952c4910, 0x4881ff48}, [4]uint32{0xea024714, 0xad5c4d84, 0xdf1f9b25, 0x1c0bf45f}, []uint32{0xabee9704, 0x7ac31373}},
		{[4]uint32{0x8ce33e2c, 0xc3c0b5fc, 0x1f3de8a6, 0xdc66b1f3}, [4]uint32{0xd3c5d592, 0x327fb11c, 0xde551988, 0xceb2f9b7}, []uint32{0xeff8a342, 0xf751480f}},
		{[4]uint32{0x4035c668, 0x0af8c6d1, 0xa8ff8667, 0xb1714013}, [4]uint32{0x62a54098, 0x1ba6f9b7, 0x4592b0e7, 0x8690f71b}, []uint32{0xa8c874a9, 0x7ae7c4f8}},
		{[4]uint32{0x0ded7263, 0x109cf92e, 0x3352255a, 0x140e0f76}, [4]uint32{0x6b68079a, 0x41a7c4c9, 0x1befd79f, 0x7fdcc233}, []uint32{0xd712c05c, 0xa937c2a6, 0xeb7eaae3}},
	} {
		var ks []uint32
		p, _ := hk.Catch(func() { ks = snow3g.GetKeyStream(v.k, v.iv, len(v.z)) })
		if p || hexWords(ks) != hexWords(v.z) {
			fail("snow3g.GetKeyStream", "known-answer", map[string]interface{}{"op": "GetKeyStream", "k": hexWords(v.k[:]), "iv": hexWords(v.iv[:]), "n": len(v.z)},
				fmt.Sprintf("SNOW 3G test set %d: got %s, published %s", i+1, hexWords(ks), hexWords(v.z)))
		}
		emitKS("known-answers", v.k, v.iv, len(v.z))
	}
	// 128-EEA1 test set 3 (120 bits) and the 224-bit set
	ck3 := [16]byte{0x5a, 0xcb, 0x1d, 0x64, 0x4c, 0x0d, 0x51, 0x20, 0x4e, 0xa5, 0xf1, 0x45, 0x10, 0x10, 0xd8, 0x52}
	in3 := []byte{0xad, 0x9c, 0x44, 0x1f, 0x89, 0x0b, 0x38, 0xc4, 0x57, 0xa4, 0x9d, 0x42, 0x14, 0x07, 0xe8}
	want3 := []byte{0xba, 0x0f, 0x31, 0x30, 0x03, 0x34, 0xc5, 0x6b, 0x52, 0xa7, 0x49, 0x7c, 0xba, 0xc0, 0x46}
	got3 := emitNEA1("known-answers", ck3, 0xfa556b26, 3, 1, in3, 120)
	if !bytes.Equal(got3, want3) {
		fail("security.NEA1", "known-answer", map[string]interface{}{"op": "NEA1", "key": hk.Hex(ck3[:]), "count": uint32(0xfa556b26), "bearer": 3, "direction": 1, "ibs": hk.Hex(in3), "length": 120},
			fmt.Sprintf("128-EEA1 test set 3: got %x, published %x", got3, want3))
	}
	ck4 := [16]byte{0xd3, 0xc5, 0xd5, 0x92, 0x32, 0x7f, 0xb1, 0x1c, 0x40, 0x35, 0xc6, 0x68, 0x0a, 0xf8, 0xc6, 0xd1}
	in4 := []byte{0x98, 0x1b, 0xa6, 0x82, 0x4c, 0x1b, 0xfb, 0x1a, 0xb4, 0x85, 0x47, 0x20, 0x29, 0xb7, 0x1d, 0x80,
		0x8c, 0xe3, 0x3e, 0x2c, 0xc3, 0xc0, 0xb5, 0xfc, 0x1f, 0x3d, 0xe8, 0xa6, 0xdc, 0x66, 0xb1, 0xf0}
	want4 := []byte{0x98, 0x9b, 0x71, 0x9c, 0xdc, 0x33, 0xce, 0xb7, 0xcf, 0x27, 0x6a, 0x52, 0x82, 0x7c, 0xef, 0x94,
		0xa5, 0x6c, 0x40, 0xc0, 0xab, 0x9d, 0x81, 0xf7, 0xa2, 0xa9, 0xba, 0xc6, 0x0e, 0x11, 0xc4, 0xb0}
	got4 := emitNEA1("known-answers", ck4, 0x398a59b4, 5, 1, in4, 253)
	if !bytes.Equal(got4, want4) {
		fail("security.NEA1", "known-answer", map[string]interface{}{"op": "NEA1", "key": hk.Hex(ck4[:]), "count": uint32(0x398a59b4), "bearer": 5, "direction": 1, "ibs": hk.Hex(in4), "length": 253},
			fmt.Sprintf("128-EEA1 test set 4 (253 bits): got %x, published %x", got4, want4))
	}
	// 128-EIA1 test sets 1 (88 bits) and 2 (254 bits)
	ik1 := [16]byte{0x2b, 0xd6, 0x45, 0x9f, 0x82, 0xc5, 0xb3, 0x00, 0x95, 0x2c, 0x49, 0x10, 0x48, 0x81, 0xff, 0x48}
	m1 := []byte{0x33, 0x32, 0x34, 0x62, 0x63, 0x39, 0x38, 0x61, 0x37, 0x34, 0x79}
	mac1 := emitNIA1("known-answers", ik1, 0x38a6f056, 0x1f, 0, m1, 88)
	if hk.Hex(mac1) != "731f1165" {
		fail("security.NIA1", "known-answer", map[string]interface{}{"op": "NIA1", "key": hk.Hex(ik1[:]), "count": uint32(0x38a6f056), "bearer": 0x1f, "direction": 0, "msg": hk.Hex(m1), "length": 88},
			fmt.Sprintf("128-EIA1 test set 1: got %x, published 731f1165", mac1))
	}
	ik2 := [16]byte{0x7e, 0x5e, 0x94, 0x43, 0x1e, 0x11, 0xd7, 0x38, 0x28, 0xd7, 0x39, 0xcc, 0x6c, 0xed, 0x45, 0x73}
	m2 := []byte{0xb3, 0xd3, 0xc9, 0x17, 0x0a, 0x4e, 0x16, 0x32, 0xf6, 0x0f, 0x86, 0x10, 0x13, 0xd2, 0x2d, 0x84,
		0xb7, 0x26, 0xb6, 0xa2, 0x78, 0xd8, 0x02, 0xd1, 0xee, 0xaf, 0x13, 0x21, 0xba, 0x59, 0x29, 0xdc}
	mac2 := emitNIA1("known-answers", ik2, 0x36af6144, 0x18, 1, m2, 254)
	if hk.Hex(mac2) != "e3259f6f" {
		fail("security.NIA1", "known-answer", map[string]interface{}{"op": "NIA1", "key": hk.Hex(ik2[:]), "count": uint32(0x36af6144), "bearer": 0x18, "direction": 1, "msg": hk.Hex(m2), "length": 254},
			fmt.Sprintf("128-EIA1 test set 2: got %x, published e3259f6f", mac2))
	}
	// short messages: expected values computed with the Coq specification (coq/CS3G/Spec.v:
	// Spec.EIA1 / Spec.EEA1 on the first n bits of `pat`), pinned here as an independent oracle
	pat := []byte{0xb3, 0xd3, 0xc9, 0x17, 0x0a, 0x4e, 0x16, 0x32, 0xf6, 0x0f, 0x86, 0x10, 0x13, 0xd2, 0x2d, 0x84, 0xb7}
	bitsOf := func(n int) []byte {
		b := append([]byte{}, pat[:(n+7)/8]...)
		if n%8 != 0 {
			b[len(b)-1] &= 0xff << (8 - n%8)
		}
		return b
	}
	for i, n := range []int{0, 1, 7, 8, 9, 63, 64, 65, 128} {
		want := []uint32{301028474, 121710442, 578209909, 2389405601, 809218534, 3643856747, 756293727, 2251050613, 4099795214}[i]
		m := bitsOf(n)
		mac := emitNIA1("known-answers", ik1, 0x38a6f056, 0x1d, 1, m, uint64(n))
		if len(mac) != 4 || binary.BigEndian.Uint32(mac) != want {
			fail("security.NIA1", "known-answer", map[string]interface{}{"op": "NIA1", "key": hk.Hex(ik1[:]), "count": uint32(0x38a6f056), "bearer": 0x1d, "direction": 1, "msg": hk.Hex(m), "length": n},
				fmt.Sprintf("UIA2 specification (Coq) on %d bits: got %x, expected %08x", n, mac, want))
		}
	}
	for i, n := range []int{1, 7, 8, 9, 31, 32, 33, 40, 64, 65} {
		want := [][]byte{{0}, {64}, {65}, {65, 128}, {65, 254, 125, 76}, {65, 254, 125, 76}, {65, 254, 125, 76, 0},
			{65, 254, 125, 76, 61}, {65, 254, 125, 76, 61, 169, 10, 105}, {65, 254, 125, 76, 61, 169, 10, 105, 128}}[i]
		in := bitsOf(n)
		got := emitNEA1("known-answers", ik1, 0x72a4f20f, 0x0c, 1, in, uint32(n))
		ok := len(got) == len(want)
		if ok {
			g := hk.Exact(got)
			if n%8 != 0 {
				g[len(g)-1] &= 0xff << (8 - n%8) // only the first n bits are defined by the standard
			}
			ok = bytes.Equal(g, want)
		}
		if !ok {
			fail("security.NEA1", "known-answer", map[string]interface{}{"op": "NEA1", "key": hk.Hex(ik1[:]), "count": uint32(0x72a4f20f), "bearer": 0x0c, "direction": 1, "ibs": hk.Hex(in), "length": n},
				fmt.Sprintf("UEA2 specification (Coq) on %d bits: got %x, expected %x", n, got, want))
		}
	}
	// witness of the repaired defect F4: empty message through the API and directly
	emitMac("known-answers", ik1, 0x38a6f056, 0x1f, 0, []byte{})
	emitNIA1("known-answers", ik1, 0x38a6f056, 0x1f, 0, []byte{}, 0)
	emitNIA1("known-answers", ik1, 0x38a6f056, 0x1f, 0, nil, 0)
	emitNEA1("known-answers", ck3, 0, 0, 0, nil, 0)
	emitEnc("known-answers", ck3, 0, 0, 0, []byte{})
	// nil payload / message: an error, never a panic (Go side only: the model has one empty list)
	var err error
	p, pv := hk.Catch(func() { err = security.NASEncrypt(security.AlgCiphering128NEA1, ck3, 0, 0, 0, nil) })
	if p || err == nil {
		fail("security.NASEncrypt", "nil-payload", map[string]interface{}{"op": "NASEncrypt", "alg": 1, "payload": nil}, fmt.Sprint("panic or no error: ", pv))
	}
	p, pv = hk.Catch(func() { _, err = security.NASMacCalculate(security.AlgIntegrity128NIA1, ik1, 0, 0, 0, nil) })
	if p || err == nil {
		fail("security.NASMacCalculate", "nil-payload", map[string]interface{}{"op": "NASMacCalculate", "alg": 1, "msg": nil}, fmt.Sprint("panic or no error: ", pv))
	}
	R.Evals += 2
}

func run(r *hk.Run) {
	R = r
	r.SetCoq("From NV Require Import Lib.Base CS3G.Model CS3G.Corr.\nOpen Scope N_scope.", "case")

	// (1) corpus
	knownAnswers()

	// (2) directed ---------------------------------------------------------
	// GetKeyStream: all-zero / all-one / single-bit keys and IVs
	zero4, ones4 := [4]uint32{}, [4]uint32{0xffffffff, 0xffffffff, 0xffffffff, 0xffffffff}
	for _, k := range [][4]uint32{zero4, ones4} {
		for _, iv := range [][4]uint32{zero4, ones4} {
			for _, n := range []int{0, 1, 3} {
				emitKS("directed-keystream", k, iv, n)
			}
		}
	}
	bitStep := r.N(2, 1)
	for b := 0; b < 128; b += bitStep {
		bit := b + r.Rng.Intn(bitStep)
		emitKS("directed-keystream", keyWords(bitKey(bit)), keyWords(rndKey()), 2)
		emitKS("directed-keystream", keyWords(rndKey()), keyWords(bitKey(bit)), 2)
	}
	emitKS("directed-keystream", keyWords(rndKey()), keyWords(rndKey()), r.N(40, 600))

	// NEA1: every bearer x direction; every bit length mod 32 with 0..5 whole words in front
	var lens []uint32
	for w := uint32(0); w <= 5; w++ {
		for m := uint32(0); m < 32; m++ {
			lens = append(lens, 32*w+m)
		}
	}
	ci := 0
	for bearer := uint32(0); bearer < 32; bearer++ {
		for dir := uint32(0); dir < 2; dir++ {
			length := lens[r.Rng.Intn(len(lens))]
			ci++
			emitNEA1("directed-nea1-bearer-direction", specialKey(ci), pickCount(ci), bearer, dir, r.Rng.Bytes(int(length+7)/8), length)
		}
	}
	for i, length := range lens {
		ibs := r.Rng.Bytes(int(length+7) / 8)
		if i%6 == 5 { // input longer than the bit length: what lies beyond is outside the standard, still compared with the model
			ibs = append(ibs, r.Rng.Bytes(1+r.Rng.Intn(6))...)
		}
		emitNEA1("directed-nea1-bitlength", specialKey(i+3), pickCount(i), uint32(i%32), uint32(i/32%2), ibs, length)
	}
	// through the in-place API: 0..40 octets (every tail shape 8*len mod 32), special keys
	for n := 0; n <= 40; n++ {
		emitEnc("directed-nasencrypt", specialKey(n), pickCount(n), uint8(n%32), uint8(n/3%2), r.Rng.Bytes(n))
	}
	for i, bd := range [][2]uint8{{32, 0}, {255, 1}, {0, 2}, {31, 255}, {33, 2}} {
		emitEnc("directed-nasencrypt-invalid", rndKey(), pickCount(i), bd[0], bd[1], r.Rng.Bytes(5))
	}

	// NIA1: every bearer x direction; every bit length 0..130; multiples of 64 bits +-1
	nlens := []int{0, 1, 7, 8, 9, 31, 32, 33, 63, 64, 65, 127, 128, 129, 191, 192, 193, 255, 256, 257}
	for bearer := 0; bearer < 32; bearer++ {
		for dir := uint32(0); dir < 2; dir++ {
			ci++
			n := nlens[r.Rng.Intn(len(nlens))]
			emitNIA1("directed-nia1-bearer-direction", specialKey(ci), pickCount(ci), byte(bearer), dir, bitMsg(n), uint64(n))
		}
	}
	for n := 0; n <= 130; n++ {
		emitNIA1("directed-nia1-bitlength", specialKey(n+1), pickCount(n), byte(n%32), uint32(n/5%2), bitMsg(n), uint64(n))
	}
	for _, k := range []int{3, 4, 5, 8} {
		for d := -1; d <= 1; d++ {
			n := 64*k + d
			emitNIA1("directed-nia1-bitlength", rndKey(), pickCount(n), byte(n%32), uint32(k%2), bitMsg(n), uint64(n))
		}
	}
	for n := 0; n <= 40; n++ {
		emitMac("directed-nasmac", specialKey(n+2), pickCount(n+1), uint8((n*7)%32), uint8(n%2), r.Rng.Bytes(n))
	}
	for i, bd := range [][2]uint8{{32, 0}, {255, 1}, {0, 2}, {31, 255}} {
		emitMac("directed-nasmac-invalid", rndKey(), pickCount(i), bd[0], bd[1], r.Rng.Bytes(5))
	}

	// (3) structured random -------------------------------------------------
	maxOct := r.N(48, 400)
	nr := r.N(420, 8000)
	for i := 0; i < nr; i++ {
		key := rndKey()
		if r.Rng.Intn(8) == 0 {
			key = specialKey(r.Rng.Intn(4))
		}
		count := pickCount(r.Rng.Intn(10))
		bearer := uint8(r.Rng.Intn(32))
		dir := uint8(r.Rng.Intn(2))
		n := r.Rng.Intn(maxOct + 1)
		if r.Rng.Intn(3) == 0 {
			n = r.Rng.Intn(9)
		}
		switch r.Rng.Intn(5) {
		case 0:
			emitEnc("random", key, count, bearer, dir, r.Rng.Bytes(n))
		case 1:
			emitMac("random", key, count, bearer, dir, r.Rng.Bytes(n))
		case 2:
			bits := 0
			if n > 0 {
				bits = 8*n - r.Rng.Intn(8)
			}
			emitNEA1("random", key, count, uint32(bearer), uint32(dir), r.Rng.Bytes(n), uint32(bits))
		case 3:
			bits := 0
			if n > 0 {
				bits = 8*n - r.Rng.Intn(8)
			}
			emitNIA1("random", key, count, bearer, uint32(dir), bitMsg(bits), uint64(bits))
		default:
			emitKS("random", keyWords(key), keyWords(rndKey()), r.Rng.Intn(8))
		}
	}

	// (3b) block-structured messages: 4-, 8- and 16-octet blocks that are zero, all-ones, a single bit, or a
	// repeat of the block before (EIA1 evaluates a polynomial over 64-bit blocks; a zero block must still be
	// multiplied in, equal blocks must not cancel), aligned and shifted by a few octets
	nb := r.N(240, 4000)
	for i := 0; i < nb; i++ {
		key := rndKey()
		count := pickCount(r.Rng.Intn(10))
		bearer := uint8(r.Rng.Intn(32))
		dir := uint8(r.Rng.Intn(2))
		bs := []int{4, 8, 8, 8, 16}[r.Rng.Intn(5)]
		msg := hk.BlockMsg(r.Rng, bs, 1+r.Rng.Intn(7), r.Rng.Intn(bs+1))
		if r.Rng.Intn(4) == 0 {
			msg = append(r.Rng.Bytes(1+r.Rng.Intn(3)), msg...)
		}
		switch i % 4 {
		case 0:
			emitNIA1("block-structured", key, count, bearer, uint32(dir), msg, uint64(8*len(msg)))
		case 1, 2:
			emitMac("block-structured", key, count, bearer, dir, msg)
		default:
			emitEnc("block-structured", key, count, bearer, dir, msg)
		}
	}

	// (4) outside the property's domain: only model = implementation is compared --------
	nm := r.N(40, 400)
	for i := 0; i < nm; i++ {
		key := rndKey()
		n := r.Rng.Intn(20)
		switch r.Rng.Intn(4) {
		case 0: // bit length beyond the input: index panic in both
			emitNEA1("out-of-domain", key, pickCount(i), uint32(r.Rng.Intn(32)), uint32(r.Rng.Intn(2)), r.Rng.Bytes(n), uint32(8*n+1+r.Rng.Intn(70)))
		case 1: // bearer / direction beyond 5 / 1 bits (uint32 parameters of NEA1 wrap)
			emitNEA1("out-of-domain", key, pickCount(i), uint32(r.Rng.Next()), uint32(r.Rng.Next()), r.Rng.Bytes(n), uint32(8*n))
		case 2: // message shorter than the bit length, garbage pad bits, longer messages
			emitNIA1("out-of-domain", key, pickCount(i), r.Rng.Byte(), uint32(r.Rng.Next()), r.Rng.Bytes(n), uint64(r.Rng.Intn(8*n+80)))
		default:
			l := []uint32{0xffffffff, 0xffffffe1, 0xfffffff0}[r.Rng.Intn(3)]
			emitNEA1("out-of-domain", key, pickCount(i), 1, 1, r.Rng.Bytes(n), l)
		}
	}
}
