(* C17: GPRS timer 2 / 3 *)
From NV Require Import Lib.Base Lib.Bits C17.Model C17.Spec.
From Coq Require Import ZifyN ZifyNat ZifyBool.
Open Scope N_scope.
Ltac Zify.zify_post_hook ::= Z.to_euclidean_division_equations.

Ltac ifs := repeat match goal with
  | |- context[if ?b then _ else _] => let E := fresh "E" in destruct b eqn:E
  end.

Lemma t3_val u t : u < 8 -> t < 256 -> t3 u t = (u * 32 + t) mod 256.
Proof.
  intros Hu Ht. unfold t3. rewrite shiftl_mul. change (2 ^ 5) with 32.
  rewrite (N.mod_small (u * 32)) by lia. reflexivity.
Qed.

Lemma u8_lt z : u8 z < 256.
Proof. unfold u8. lia. Qed.

(* ---- timer 2 ---- *)

(* for every duration d >= 0 the octet is an active timer that decodes to at most d *)
Lemma timer2_no_overshoot (d : Z) : (0 <= d)%Z ->
  exists v, dec2 (GPRSTimer2ToNas d) = Some v /\ (Z.of_N v <= d)%Z.
Proof.
  intro Hd. unfold GPRSTimer2ToNas, u8. change (N.lor 0 32) with 32. change (N.lor 0 64) with 64.
  cbv zeta. ifs; unfold dec2; cbv zeta; ifs; try (eexists; split; [reflexivity|lia]); exfalso; lia.
Qed.

Lemma timer2_exact (d : N) : representable2 d ->
  dec2 (GPRSTimer2ToNas (Z.of_N d)) = Some d.
Proof.
  intros (k & Hk & H). unfold GPRSTimer2ToNas, u8. change (N.lor 0 32) with 32. change (N.lor 0 64) with 64.
  cbv zeta. ifs; unfold dec2; cbv zeta; ifs; try (f_equal; lia); exfalso; lia.
Qed.

(* above the range nothing is representable: the result is a smaller value *)
Lemma timer2_above (d : Z) : (11160 < d)%Z ->
  exists v, dec2 (GPRSTimer2ToNas d) = Some v /\ (Z.of_N v <= 11160)%Z.
Proof.
  intro Hd. unfold GPRSTimer2ToNas, u8. change (N.lor 0 32) with 32. change (N.lor 0 64) with 64.
  cbv zeta. ifs; unfold dec2; cbv zeta; ifs; try (eexists; split; [reflexivity|lia]); exfalso; lia.
Qed.

(* ---- timer 3 ---- *)
Lemma timer3_unfold (d : Z) :
  GPRSTimer3ToNas d =
  if (d <=? 62)%Z then (96 + u8 (Z.quot d 2)) mod 256
  else if (d <=? 930)%Z then (128 + u8 (Z.quot d 30)) mod 256
  else if (d <=? 1860)%Z then (160 + u8 (Z.quot d 60)) mod 256
  else if (d <=? 18600)%Z then (0 + u8 (Z.quot d 600)) mod 256
  else if (d <=? 111600)%Z then (32 + u8 (Z.quot d 3600)) mod 256
  else (64 + u8 (Z.quot d 36000)) mod 256.
Proof.
  unfold GPRSTimer3ToNas. rewrite !t3_val by (try apply u8_lt; reflexivity).
  reflexivity.
Qed.

Lemma timer3_no_overshoot (d : Z) : (0 <= d <= 1116000)%Z ->
  exists v, dec3 (GPRSTimer3ToNas d) = Some v /\ (Z.of_N v <= d)%Z.
Proof.
  intro Hd. rewrite timer3_unfold. unfold u8.
  ifs; unfold dec3; cbv zeta; ifs; try (eexists; split; [reflexivity|lia]); exfalso; lia.
Qed.

Lemma timer3_exact (d : N) : representable3 d ->
  dec3 (GPRSTimer3ToNas (Z.of_N d)) = Some d.
Proof.
  intros (k & Hk & H). rewrite timer3_unfold. unfold u8.
  ifs; unfold dec3; cbv zeta; ifs; try (f_equal; lia); exfalso; lia.
Qed.

(* above the range: the unit bits are overwritten by the overflowing value;
   closed form, and two instances: 320 h (representable with unit 110) is coded
   as "0 x 2 s", and 1330 h as "5 x 320 h" = 1600 h: more than requested *)
Lemma timer3_above (d : Z) : (1116000 < d)%Z ->
  GPRSTimer3ToNas d = (64 + Z.to_N ((d / 36000) mod 256)) mod 256.
Proof.
  intro Hd. rewrite timer3_unfold. unfold u8. ifs; lia.
Qed.

Lemma timer3_above_examples :
  dec3 (GPRSTimer3ToNas 1152000) = Some 0 /\
  dec3 (GPRSTimer3ToNas 4788000) = Some 5760000.
Proof. split; reflexivity. Qed.
