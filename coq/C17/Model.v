(* C17: hand-written executable model of
     /repo/nasConvert/GPRSTimer2.go, GPRSTimer3.go, SessionAMBR.go, Time.go,
     NetWorkName.go
   and of the few nasType accessors they call (NAS_SessionAMBR.go,
   NAS_FullNameForNetwork.go = NAS_ShortNameForNetwork.go,
   NAS_UniversalTimeAndLocalTimeZone.go, NAS_LocalTimeZone.go,
   NAS_NetworkDaylightSavingTime.go, comm_util.go GetBitMask).

   Go int is Z (64-bit range never reached by the modelled arithmetic; / and %
   are Z.quot / Z.rem: truncation toward zero), uint8 is N with explicit
   "mod 256", conversions uint8(x) are [u8].  Strings are byte lists.

   Modelled library calls (trusted; exercised by the correspondence run):
     strings.Split(s, " ")              [split_on 32]
     strconv.ParseUint(s, 10, 16)       [ParseUint16]: non-empty, decimal digits
                                        only, value <= 65535, else error
     binary.BigEndian.PutUint16         [hi8; lo8]
     strings.LastIndex(s, "+")          [last_index 43]
     fmt.Sprintf("%02d:%02d", a, b)     [fmt02 a ++ ":" ++ fmt02 b], a, b >= 0
     time.Time                          abstracted to the record [gotime]:
        t.Year() t.Month() t.Day() t.Hour() t.Minute() t.Second()  -> fields
        t.Zone() (second result)        -> [zoff] (seconds east of UTC)
        t.IsDST()                       -> [isdst]
        time.FixedZone(_, off) + time.Date(y, mo, d, h, mi, s, 0, loc)
                                        -> the record with those fields, zoff =
                                        off, isdst = false (no normalisation:
                                        meaningful for in-range civil fields)
   Logging is not modelled. *)
From NV Require Import Lib.Base.
Open Scope N_scope.

Definition u8 (z : Z) : N := Z.to_N (z mod 256).

(* ------------------------------------------------------------------ *)
(* GPRSTimer2.go *)
Definition GPRSTimer2ToNas (timerValue : Z) : N :=
  let timerValueNas := 0 in
  if (timerValue <=? 64)%Z then
    if negb (Z.rem timerValue 2 =? 0)%Z then timerValueNas
    else u8 (Z.quot timerValue 2)
  else
    let t := u8 (Z.quot timerValue 60) in
    if t <=? 31 then (N.lor timerValueNas 32 + t) mod 256
    else
      if negb (t mod 6 =? 0) then timerValueNas
      else let t := t / 6 in (N.lor timerValueNas 64 + t) mod 256.

(* ------------------------------------------------------------------ *)
(* GPRSTimer3.go; nasMessage.GPRSTimer3Unit... constants *)
Definition GPRSTimer3UnitMultiplesOf10Minutes : N := 0.
Definition GPRSTimer3UnitMultiplesOf1Hour : N := 1.
Definition GPRSTimer3UnitMultiplesOf10Hours : N := 2.
Definition GPRSTimer3UnitMultiplesOf2Seconds : N := 3.
Definition GPRSTimer3UnitMultiplesOf30Seconds : N := 4.
Definition GPRSTimer3UnitMultiplesOf1Minute : N := 5.

(* (unit << 5) + t in uint8 *)
Definition t3 (unit : N) (t : N) : N := ((N.shiftl unit 5) mod 256 + t) mod 256.

Definition GPRSTimer3ToNas (timerValue : Z) : N :=
  if (timerValue <=? 2 * 31)%Z then
    t3 GPRSTimer3UnitMultiplesOf2Seconds (u8 (Z.quot timerValue 2))
  else if (timerValue <=? 30 * 31)%Z then
    t3 GPRSTimer3UnitMultiplesOf30Seconds (u8 (Z.quot timerValue 30))
  else if (timerValue <=? 60 * 31)%Z then
    t3 GPRSTimer3UnitMultiplesOf1Minute (u8 (Z.quot timerValue 60))
  else if (timerValue <=? 600 * 31)%Z then
    t3 GPRSTimer3UnitMultiplesOf10Minutes (u8 (Z.quot timerValue 600))
  else if (timerValue <=? 3600 * 31)%Z then
    t3 GPRSTimer3UnitMultiplesOf1Hour (u8 (Z.quot timerValue 3600))
  else
    t3 GPRSTimer3UnitMultiplesOf10Hours (u8 (Z.quot timerValue 36000)).

(* ------------------------------------------------------------------ *)
(* SessionAMBR.go *)

(* strings.Split(s, sep) for a one-octet separator: never empty *)
Fixpoint split_on (sep : N) (s : bytes) : list bytes :=
  match s with
  | [] => [[]]
  | c :: t =>
      if c =? sep then [] :: split_on sep t
      else match split_on sep t with
           | h :: r => (c :: h) :: r
           | [] => [[c]]
           end
  end.

(* strconv.ParseUint(s, 10, 16) *)
Fixpoint parse_digits (s : bytes) (acc : N) : outcome N :=
  match s with
  | [] => Ok acc
  | c :: t =>
      if ((48 <=? c) && (c <=? 57))%bool then parse_digits t (acc * 10 + (c - 48))
      else Err
  end.
Definition ParseUint16 (s : bytes) : outcome N :=
  match s with
  | [] => Err
  | _ => match parse_digits s 0 with
         | Ok v => if v <? 65536 then Ok v else Err
         | _ => Err
         end
  end.

Definition SessionAMBRUnitNotUsed : N := 0.
Definition SessionAMBRUnit1Kbps : N := 1.
Definition SessionAMBRUnit1Mbps : N := 6.
Definition SessionAMBRUnit1Gbps : N := 11.
Definition SessionAMBRUnit1Tbps : N := 16.
Definition SessionAMBRUnit1Pbps : N := 21.

Definition s_bps : bytes := [98;112;115].
Definition s_Kbps : bytes := 75 :: s_bps.
Definition s_Mbps : bytes := 77 :: s_bps.
Definition s_Gbps : bytes := 71 :: s_bps.
Definition s_Tbps : bytes := 84 :: s_bps.
Definition s_Pbps : bytes := 80 :: s_bps.

Definition strToAMBRUnit (unit : bytes) : N :=
  if eqb_bytes unit s_bps then SessionAMBRUnitNotUsed
  else if eqb_bytes unit s_Kbps then SessionAMBRUnit1Kbps
  else if eqb_bytes unit s_Mbps then SessionAMBRUnit1Mbps
  else if eqb_bytes unit s_Gbps then SessionAMBRUnit1Gbps
  else if eqb_bytes unit s_Tbps then SessionAMBRUnit1Tbps
  else if eqb_bytes unit s_Pbps then SessionAMBRUnit1Pbps
  else SessionAMBRUnitNotUsed.

(* x[i] on a []string *)
Definition sidx (l : list bytes) (i : nat) : outcome bytes :=
  match nth_error l i with Some b => Ok b | None => Panic end.

(* one direction: Split, ParseUint (an error only logs a warning and leaves
   the two value octets 0), PutUint16, then the unit from the second word
   (index out of range panic when the text has no space).
   Result: (unit, high octet, low octet) *)
Definition ambr_side (text : bytes) : outcome (N * N * N) :=
  let words := split_on 32 text in
  w0 <- sidx words 0 ;;
  let '(h, l) := match ParseUint16 w0 with
                 | Ok bitRate => (hi8 bitRate, lo8 bitRate)
                 | _ => (0, 0)
                 end in
  w1 <- sidx words 1 ;;
  Ok (strToAMBRUnit w1, h, l).

(* ModelsToSessionAMBR: the Octet [6]uint8 of the result (Iei = Len = 0):
   Octet[0] unit downlink, [1:3] downlink, Octet[3] unit uplink, [4:6] uplink;
   uplink is processed first *)
Definition ModelsToSessionAMBR (uplink downlink : bytes) : outcome bytes :=
  u <- ambr_side uplink ;;
  d <- ambr_side downlink ;;
  let '(uu, uh, ul) := u in
  let '(du, dh, dl) := d in
  Ok [du; dh; dl; uu; uh; ul].

(* ------------------------------------------------------------------ *)
(* Time.go *)

Definition toBinaryCodedDecimal (val : Z) : Z :=
  (Z.shiftl (Z.quot val 10) 4 + Z.rem val 10)%Z.

Definition toSemiOctet (val : Z) : Z :=
  Z.lor (Z.shiftl (Z.land val 15) 4) (Z.shiftr (Z.land val 240) 4).

(* strings.LastIndex(s, c) for a one-octet needle *)
Fixpoint last_index_from (c : N) (s : bytes) (i : nat) (found : option nat) : option nat :=
  match s with
  | [] => found
  | x :: t => last_index_from c t (S i) (if x =? c then Some i else found)
  end.
Definition last_index (c : N) (s : bytes) : option nat := last_index_from c s 0%nat None.

(* timezone[len(timezone)-2:] : a negative low bound panics *)
Definition last2 (s : bytes) : outcome bytes :=
  if (length s <? 2)%nat then Panic else slice s (length s - 2) (length s).

Definition s_plus1 : bytes := [43; 49].
Definition s_plus2 : bytes := [43; 50].

Definition parseTimeZoneToNas (timezone : bytes) : outcome Z :=
  let time := 0%Z in
  (* Parse hour *)
  c1 <- idx timezone 1 ;;
  let time := if c1 =? 49 then (time + 10 * 4)%Z else time in
  c2 <- idx timezone 2 ;;
  let time := fold_left (fun tm i => if Z.of_N c2 =? i + 48 then tm + i * 4 else tm)%Z
                        [0;1;2;3;4;5;6;7;8;9]%Z time in
  suffix <- last2 timezone ;;
  time <- (if (eqb_bytes suffix s_plus1 || eqb_bytes suffix s_plus2)%bool then
             match last_index 43 timezone with
             | Some i =>
                 c0 <- idx timezone 0 ;;
                 d <- idx timezone (i + 1) ;;
                 if c0 =? 45 then Ok (time - (Z.of_N d - 48) * 4)%Z
                 else Ok (time + (Z.of_N d - 48) * 4)%Z
             | None => Ok time
             end
           else Ok time) ;;
  (* Parse minute *)
  mm <- slice timezone 4 6 ;;
  let time := if eqb_bytes mm [49; 53] then (time + 1)%Z
              else if eqb_bytes mm [51; 48] then (time + 2)%Z
              else if eqb_bytes mm [52; 53] then (time + 3)%Z
              else (time + 0)%Z in
  (* negative := timezone[0] == '-'; if time < 0 { time = -time; negative = false } *)
  c0 <- idx timezone 0 ;;
  let negative := c0 =? 45 in
  let '(time, negative) := if (time <? 0)%Z then ((- time)%Z, false) else (time, negative) in
  let time := toBinaryCodedDecimal time in
  let time := if negative then Z.lor time 128 else time in
  Ok (toSemiOctet time).

(* time.Time as the code observes it *)
Record gotime := mkgotime {
  t_year : Z; t_month : Z; t_day : Z; t_hour : Z; t_minute : Z; t_second : Z;
  zoff : Z;        (* second result of Zone(): seconds east of UTC *)
  isdst : bool     (* IsDST() *)
}.

(* decimal digits of a non-negative int, most significant first *)
Fixpoint dec_digits_fuel (fuel : nat) (v : N) (acc : bytes) : bytes :=
  match fuel with
  | O => acc
  | S f => if v <? 10 then (48 + v) :: acc
           else dec_digits_fuel f (v / 10) ((48 + v mod 10) :: acc)
  end.
Definition dec_digits (v : N) : bytes := dec_digits_fuel 20 v [].

(* %02d of a non-negative int *)
Definition fmt02 (v : Z) : bytes :=
  let n := Z.to_N v in
  if n <? 10 then [48; 48 + n] else dec_digits n.

Definition GetTimeZone (now : gotime) : bytes :=
  let offset := zoff now in
  let offset := if isdst now then (offset - 3600)%Z else offset in
  let '(sign, offset) := if (offset <? 0)%Z then (45, (0 - offset)%Z) else (43, offset) in
  [sign] ++ fmt02 (Z.quot offset 3600) ++ [58] ++ fmt02 (Z.quot (Z.rem offset 3600) 60)
    ++ (if isdst now then s_plus1 else []).

Definition semi_bcd (v : Z) : N := u8 (toSemiOctet (toBinaryCodedDecimal v)).

(* the Octet [7]uint8 of the result *)
Definition EncodeUniversalTimeAndLocalTimeZoneToNas (t : gotime) : outcome bytes :=
  let year := semi_bcd (Z.rem (t_year t) 100) in
  let month := semi_bcd (t_month t) in
  let day := semi_bcd (t_day t) in
  let hour := semi_bcd (t_hour t) in
  let minute := semi_bcd (t_minute t) in
  let second := semi_bcd (t_second t) in
  tz <- parseTimeZoneToNas (GetTimeZone t) ;;
  Ok [year; month; day; hour; minute; second; u8 tz].

(* the Octet of the result *)
Definition EncodeLocalTimeZoneToNas (timezone : bytes) : outcome N :=
  tz <- parseTimeZoneToNas timezone ;; Ok (u8 tz).

(* NetworkDaylightSavingTime: SetLen(1); Setvalue: Octet = (Octet & 252) + (value & 3);
   result (Len, Octet) *)
Definition EncodeDaylightSavingTimeToNas (timezone : bytes) : outcome (N * N) :=
  s1 <- last2 timezone ;;
  let value := if eqb_bytes s1 s_plus1 then 1 else 0 in
  s2 <- last2 timezone ;;
  let value := if eqb_bytes s2 s_plus2 then 2 else value in
  Ok (1, (N.land 0 252 + N.land (value mod 256) 3) mod 256).

Definition getTimeZoneOffset (timezone : N) : Z :=
  let octet := Z.of_N ((N.shiftr timezone 4 + (N.land timezone 7 * 10) mod 256) mod 256) in
  let offset := (Z.quot octet 4 * 60 * 60 + Z.rem octet 4 * 15 * 60)%Z in
  if N.land timezone 8 =? 8 then (0 - offset)%Z else offset.

(* (x & 0x0f)*10 + ((x & 0xf0) >> 4) in uint8 *)
Definition unsemi (x : N) : Z :=
  Z.of_N (((N.land x 15 * 10) mod 256 + N.shiftr (N.land x 240) 4) mod 256).

(* argument: the Octet [7]uint8 (seven octets: a shorter list is impossible in
   Go; the model answers Panic) *)
Definition DecodeUniversalTimeAndLocalTimeZone (o : bytes) : outcome gotime :=
  y <- idx o 0 ;; mo <- idx o 1 ;; d <- idx o 2 ;; h <- idx o 3 ;;
  mi <- idx o 4 ;; s <- idx o 5 ;; tz <- idx o 6 ;;
  Ok (mkgotime (2000 + unsemi y)%Z (unsemi mo) (unsemi d) (unsemi h) (unsemi mi) (unsemi s)
               (getTimeZoneOffset tz) false).

Definition DecodeLocalTimeZone (octet : N) : bytes :=
  let offset := getTimeZoneOffset octet in
  let '(sign, offset) := if (offset <? 0)%Z then (45, (0 - offset)%Z) else (43, offset) in
  [sign] ++ fmt02 (Z.quot offset 3600) ++ [58] ++ fmt02 (Z.quot (Z.rem offset 3600) 60).

(* Getvalue = Octet & GetBitMask(2, 0) *)
Definition GetBitMask (ub lb : N) : N :=
  (N.shiftl (((N.shiftl 1 ((ub + 256 - lb) mod 256)) mod 256 + 255) mod 256) lb) mod 256.

Definition DecodeDaylightSavingTime (octet : N) : bytes :=
  let v := N.land octet (GetBitMask 2 0) in
  if v =? 0 then [] else if v =? 1 then s_plus1 else if v =? 2 then s_plus2 else [].

(* ------------------------------------------------------------------ *)
(* NetWorkName.go: the packing loop (identical in Full... and Short...), as of
   commit 12a658d *)

(* one iteration of "for i, char := range asciiArray":
     pos := 7 * i
     buf[pos/8] |= (char & 0x7f) << uint(pos%8)              (in uint8)
     if pos%8 > 1 { buf[pos/8+1] |= (char & 0x7f) >> uint(8-pos%8) }
   an index outside buf is a Panic *)
Definition name_step (char : N) (i : nat) (buf : bytes) : outcome bytes :=
  let pos := (7 * i)%nat in
  let k := (pos / 8)%nat in
  let o := N.of_nat (pos mod 8) in
  let c := N.land char 127 in
  b <- idx buf k ;;
  let buf := upd buf k (N.lor b ((N.shiftl c o) mod 256)) in
  if 1 <? o then
    b1 <- idx buf (k + 1) ;;
    Ok (upd buf (k + 1) (N.lor b1 (N.shiftr c (8 - o))))
  else Ok buf.

Fixpoint name_loop (chars : bytes) (i : nat) (buf : bytes) : outcome bytes :=
  match chars with
  | [] => Ok buf
  | char :: t => buf' <- name_step char i buf ;; name_loop t (S i) buf'
  end.

(* result: (Len, Buffer) of the FullNameForNetwork / ShortNameForNetwork *)
Definition NetworkNameToNas (name : bytes) : outcome (N * bytes) :=
  let numOfSpareBits := (8 - Z.rem (7 * Z.of_nat (length name)) 8)%Z in
  (* buf := make([]uint8, (7*len(asciiArray)+7)/8) *)
  let buf0 := repeat 0 (Z.to_nat (Z.quot (7 * Z.of_nat (length name) + 7) 8)) in
  buf <- name_loop name 0%nat buf0 ;;
  (* SetLen(uint8(1 + len(buf))): Buffer = make([]uint8, Len) *)
  let len := u8 (1 + Z.of_nat (length buf)) in
  let buffer := repeat 0 (N.to_nat len) in
  (* SetCodingScheme(0) *)
  b0 <- idx buffer 0 ;;
  let buffer := upd buffer 0 ((N.land b0 143 + (N.shiftl (N.land 0 7) 4) mod 256) mod 256) in
  (* SetAddCI(0) *)
  b0 <- idx buffer 0 ;;
  let buffer := upd buffer 0 ((N.land b0 247 + (N.shiftl (N.land 0 1) 3) mod 256) mod 256) in
  (* SetExt(1) *)
  b0 <- idx buffer 0 ;;
  let buffer := upd buffer 0 ((N.land b0 127 + (N.shiftl (N.land 1 1) 7) mod 256) mod 256) in
  (* SetNumberOfSpareBitsInLastOctet(uint8(numOfSpareBits)) *)
  b0 <- idx buffer 0 ;;
  let buffer := upd buffer 0 ((N.land b0 248 + N.land (u8 numOfSpareBits) 7) mod 256) in
  (* SetTextString(buf): copy(a.Buffer[1:], buf) *)
  tail <- slice_from buffer 1 ;;
  let n := Nat.min (length tail) (length buf) in
  Ok (len, firstn 1 buffer ++ firstn n buf ++ skipn n tail).

Definition FullNetworkNameToNas := NetworkNameToNas.
Definition ShortNetworkNameToNas := NetworkNameToNas.
