(* C17: definitions taken from the standards, independent of the Go code. *)
From NV Require Import Lib.Base.
Open Scope N_scope.

(* ---- TS 24.008 10.5.7.4 GPRS timer 2 (coded as GPRS timer, 10.5.7.3):
   bits 8-6 unit: 000 = 2 s, 001 = 1 min, 010 = decihours (6 min),
   111 = timer deactivated, other values = 1 min; bits 5-1 value.
   Result in seconds; None = deactivated. *)
Definition dec2 (o : N) : option N :=
  let u := o / 32 in
  let v := o mod 32 in
  if u =? 0 then Some (2 * v)
  else if u =? 1 then Some (60 * v)
  else if u =? 2 then Some (360 * v)
  else if u =? 7 then None
  else Some (60 * v).

(* ---- TS 24.008 10.5.7.4a GPRS timer 3: 000 = 10 min, 001 = 1 h, 010 = 10 h,
   011 = 2 s, 100 = 30 s, 101 = 1 min, 110 = 320 h, 111 = deactivated *)
Definition dec3 (o : N) : option N :=
  let u := o / 32 in
  let v := o mod 32 in
  if u =? 0 then Some (600 * v)
  else if u =? 1 then Some (3600 * v)
  else if u =? 2 then Some (36000 * v)
  else if u =? 3 then Some (2 * v)
  else if u =? 4 then Some (30 * v)
  else if u =? 5 then Some (60 * v)
  else if u =? 6 then Some (1152000 * v)
  else None.

(* durations (seconds) that have an exact code: 5-bit multiple of a unit *)
Definition representable2 (d : N) : Prop :=
  exists k, k <= 31 /\ (d = 2 * k \/ d = 60 * k \/ d = 360 * k).
(* within the property's range 0..1 116 000 s (the 320 h unit only reaches 0 there) *)
Definition representable3 (d : N) : Prop :=
  exists k, k <= 31 /\
    (d = 2 * k \/ d = 30 * k \/ d = 60 * k \/ d = 600 * k \/ d = 3600 * k \/ d = 36000 * k).

(* ---- TS 24.501 Table 9.11.4.14.1, unit for session AMBR (the rows the text
   form "<int> <unit>" can name) *)
Inductive ambr_unit := Kbps | Mbps | Gbps | Tbps | Pbps.
Definition ambr_code (u : ambr_unit) : N :=
  match u with
  | Kbps => 1    (* 00000001 value is incremented in multiples of 1 Kbps *)
  | Mbps => 6    (* 00000110 1 Mbps *)
  | Gbps => 11   (* 00001011 1 Gbps *)
  | Tbps => 16   (* 00010000 1 Tbps *)
  | Pbps => 21   (* 00010101 1 Pbps *)
  end.
(* "Kbps", "Mbps", "Gbps", "Tbps", "Pbps" *)
Definition ambr_text (u : ambr_unit) : bytes :=
  match u with
  | Kbps => [75;98;112;115] | Mbps => [77;98;112;115] | Gbps => [71;98;112;115]
  | Tbps => [84;98;112;115] | Pbps => [80;98;112;115]
  end.
(* a decimal numeral: digits (each < 10), most significant first *)
Definition digits_val (ds : list N) : N := fold_left (fun a d => a * 10 + d) ds 0.
Definition digits_text (ds : list N) : bytes := map (fun d => 48 + d) ds.

(* ---- TS 23.040 9.1.2.3 semi-octet representation of a two-digit decimal:
   the low nibble carries the first (tens) digit, the high nibble the second *)
Definition semi_dec (o : N) : option N :=
  let tens := o mod 16 in
  let units := o / 16 in
  if (tens <=? 9) && (units <=? 9) then Some (10 * tens + units) else None.

(* ---- TS 24.008 10.5.3.8 / TS 23.040 9.2.3.11 time zone: difference to GMT in
   quarters of an hour, semi-octet; bit 3 of the first (low) nibble is the
   algebraic sign (1 = negative), its bits 2..0 the tens digit *)
Definition tz_dec (o : N) : option Z :=
  let lo := o mod 16 in
  let units := o / 16 in
  let tens := lo mod 8 in
  if units <=? 9 then
    let q := Z.of_N (10 * tens + units) in
    Some (if 8 <=? lo then (- q)%Z else q)
  else None.

(* ---- TS 24.008 10.5.3.12 daylight saving time: bits 2-1: 00 none, 01 +1 h,
   10 +2 h, 11 reserved *)
Definition dst_dec (o : N) : option N :=
  let v := o mod 4 in if v =? 3 then None else Some v.

(* ---- TS 23.038 6.1.2.1.1 packing of 7-bit characters: the septets form a bit
   stream, least significant bit first, cut into octets; TS 24.008 10.5.3.5a:
   "number of spare bits in last octet" *)
Fixpoint le_val (B : N) (l : list N) : N :=
  match l with [] => 0 | c :: t => c + B * le_val B t end.

Definition unpack7 (octs : bytes) (spare : N) : list N :=
  let nbits := 8 * N.of_nat (length octs) - spare in
  map (fun k => (le_val 256 octs / 128 ^ N.of_nat k) mod 128) (seq 0 (N.to_nat (nbits / 7))).

Definition pack7 (s : list N) : bytes :=
  map (fun i => (le_val 128 s / 256 ^ N.of_nat i) mod 256)
      (seq 0 (N.to_nat ((7 * N.of_nat (length s) + 7) / 8))).

Definition spare_spec (n : N) : N := (8 - (7 * n) mod 8) mod 8.

Definition septets_ok (s : list N) : Prop := Forall (fun c => c < 128) s.
