(* C17: network names (GSM 7-bit packing) *)
From NV Require Import Lib.Base Lib.Bits C17.Model C17.Spec.
From Coq Require Import ZifyN ZifyNat ZifyBool.
Open Scope N_scope.
Ltac Zify.zify_post_hook ::= Z.to_euclidean_division_equations.

Arguments N.land : simpl never.
Arguments N.lor : simpl never.
Arguments N.shiftl : simpl never.
Arguments N.shiftr : simpl never.
Arguments N.modulo : simpl never.
Arguments N.div : simpl never.
Arguments N.pow : simpl never.
Arguments N.add : simpl never.
Arguments N.mul : simpl never.
Arguments N.sub : simpl never.

(* ---- the specification's unpacking: digit extraction ---- *)
Lemma le_val_digit B l : 1 < B -> Forall (fun c => c < B) l ->
  forall j, (j < length l)%nat -> (le_val B l / B ^ N.of_nat j) mod B = nth j l 0.
Proof.
  intros HB. induction l as [|c t IH]; intros Hl j Hj; [cbn in Hj; lia|].
  pose proof (Forall_inv Hl) as Hc. pose proof (Forall_inv_tail Hl) as Ht. cbv beta in Hc.
  cbn [le_val]. destruct j as [|j].
  - change (B ^ N.of_nat 0) with (B ^ 0). rewrite N.pow_0_r, N.div_1_r. cbn [nth].
    rewrite N.mul_comm, N.mod_add by lia. apply N.mod_small; assumption.
  - cbn [nth length] in *. rewrite Nat2N.inj_succ, N.pow_succ_r'.
    rewrite <- N.div_div by (try apply N.pow_nonzero; lia).
    rewrite (N.mul_comm B), N.div_add by lia.
    rewrite (N.div_small c B) by assumption. rewrite N.add_0_l.
    apply IH; [assumption|lia].
Qed.

Lemma map_nth_seq (l : list N) : map (fun k => nth k l 0) (seq 0 (length l)) = l.
Proof.
  induction l as [|c t IH]; [reflexivity|].
  cbn [length seq map nth]. f_equal. rewrite <- seq_shift, map_map. exact IH.
Qed.

Lemma unpack7_of_val octs spare s :
  septets_ok s -> le_val 256 octs = le_val 128 s ->
  (8 * N.of_nat (length octs) - spare) / 7 = N.of_nat (length s) ->
  unpack7 octs spare = s.
Proof.
  intros Hs Hv Hn. unfold unpack7. cbv zeta. rewrite Hn, Nat2N.id, Hv.
  rewrite <- (map_nth_seq s) at 2. apply map_ext_in. intros k Hk. apply in_seq in Hk.
  apply le_val_digit; [lia|exact Hs|lia].
Qed.

(* ---- the loop, one step at a time ---- *)
Definition next_ix (ix : N) : N := let x := (ix + 255) mod 256 in if x =? 255 then 7 else x.

Lemma nl_first char t buf ix :
  name_loop (char :: t) 0%nat buf ix = name_loop t 1%nat (buf ++ [char]) ix.
Proof. reflexivity. Qed.

Lemma nl_step char t j buf ix b : idx buf j = Ok b ->
  name_loop (char :: t) (S j) buf ix =
  name_loop t (S (S j))
    (upd buf j ((N.land b (GetBitMask ((ix + 1) mod 256) 0) + (N.shiftl char ix) mod 256) mod 256)
       ++ [N.shiftr char (8 - ix)]) (next_ix ix).
Proof. intro H. cbn [name_loop]. rewrite H. reflexivity. Qed.

(* the loop never panics and emits one octet per character *)
Lemma name_loop_length chars : forall i buf ix, length buf = i ->
  exists r, name_loop chars i buf ix = Ok r /\ length r = (i + length chars)%nat.
Proof.
  induction chars as [|c t IH]; intros i buf ix Hl.
  - exists buf. split; [reflexivity|cbn; lia].
  - destruct i as [|j].
    + rewrite nl_first. destruct (IH 1%nat (buf ++ [c]) ix) as (r & Hr & Hlr).
      { rewrite app_length, Hl. reflexivity. }
      exists r. split; [exact Hr|]. cbn [length]. lia.
    + destruct (nth_error buf j) as [b|] eqn:E.
      * rewrite (nl_step c t j buf ix b) by (unfold idx; rewrite E; reflexivity).
        destruct (IH (S (S j)) (upd buf j ((N.land b (GetBitMask ((ix + 1) mod 256) 0) +
                     (N.shiftl c ix) mod 256) mod 256) ++ [N.shiftr c (8 - ix)]) (next_ix ix))
          as (r & Hr & Hlr).
        { rewrite app_length, upd_length, Hl. cbn [length]. lia. }
        exists r. split; [exact Hr|]. cbn [length]. lia.
      * apply nth_error_None in E. lia.
Qed.

(* ---- the information element built around the packed text ---- *)
Lemma land_7 x : N.land x 7 = x mod 8.
Proof. change 7 with (N.ones 3). apply land_ones_mod. Qed.

Lemma NetworkNameToNas_closed s : (length s < 255)%nat ->
  exists buf, name_loop s 0%nat [] 7 = Ok buf /\ length buf = length s /\
    NetworkNameToNas s =
      Ok (1 + N.of_nat (length s), (128 + spare_spec (N.of_nat (length s))) :: buf).
Proof.
  intro Hn. destruct (name_loop_length s 0%nat [] 7 eq_refl) as (buf & Hb & Hl).
  cbn [Nat.add] in Hl. exists buf. split; [exact Hb|]. split; [exact Hl|].
  unfold NetworkNameToNas. rewrite Hb. cbn [obind]. rewrite Hl.
  assert (E : N.to_nat (u8 (1 + Z.of_nat (length s))) = S (length s)) by (unfold u8; lia).
  rewrite E. cbn [repeat idx nth_error obind upd].
  unfold slice_from, slice. cbn [length]. rewrite repeat_length.
  replace ((1 <=? S (length s)) && (S (length s) <=? S (length s)))%nat%bool with true by lia.
  cbn [obind skipn firstn]. replace (S (length s) - 1)%nat with (length s) by lia.
  rewrite (firstn_all2 (repeat 0 (length s))) by (rewrite repeat_length; lia).
  rewrite repeat_length, Nat.min_id.
  rewrite (firstn_all2 buf) by lia.
  rewrite (skipn_all2 (repeat 0 (length s))) by (rewrite repeat_length; lia).
  rewrite app_nil_r.
  f_equal. f_equal; [unfold u8; lia|]. cbn [app]. f_equal.
  change (N.land 0 143) with 0. change (N.land 0 7) with 0. change (N.shiftl 0 4) with 0.
  change ((0 + 0 mod 256) mod 256) with 0.
  change (N.land 0 247) with 0. change (N.land 0 1) with 0. change (N.shiftl 0 3) with 0.
  change ((0 + 0 mod 256) mod 256) with 0.
  change (N.land 0 127) with 0. change (N.land 1 1) with 1. change (N.shiftl 1 7) with 128.
  change ((0 + 128 mod 256) mod 256) with 128.
  change (N.land 128 248) with 128. rewrite land_7. unfold u8, spare_spec. lia.
Qed.

(* the stored spare-bit count is the standard's, for every length *)
Lemma name_spare s : (length s < 255)%nat ->
  exists len b0 txt, NetworkNameToNas s = Ok (len, b0 :: txt) /\
    b0 mod 8 = spare_spec (N.of_nat (length s)) /\ b0 / 8 = 16 /\
    len = 1 + N.of_nat (length txt) /\ length txt = length s.
Proof.
  intro Hn. destruct (NetworkNameToNas_closed s Hn) as (buf & _ & Hl & E).
  eexists _, _, _. split; [exact E|]. unfold spare_spec. rewrite Hl. repeat split; lia.
Qed.

(* ---- lengths 0..7: the packed text is right ---- *)
Lemma land_mask_255 x : N.land x 255 = x mod 256.
Proof. change 255 with (N.ones 8). apply land_ones_mod. Qed.
Lemma land_mask_127 x : N.land x 127 = x mod 128.
Proof. change 127 with (N.ones 7). apply land_ones_mod. Qed.
Lemma land_mask_63 x : N.land x 63 = x mod 64.
Proof. change 63 with (N.ones 6). apply land_ones_mod. Qed.
Lemma land_mask_31 x : N.land x 31 = x mod 32.
Proof. change 31 with (N.ones 5). apply land_ones_mod. Qed.
Lemma land_mask_15 x : N.land x 15 = x mod 16.
Proof. change 15 with (N.ones 4). apply land_ones_mod. Qed.
Lemma land_mask_3 x : N.land x 3 = x mod 4.
Proof. change 3 with (N.ones 2). apply land_ones_mod. Qed.
Lemma land_mask_1 x : N.land x 1 = x mod 2.
Proof. change 1 with (N.ones 1). apply land_ones_mod. Qed.

Ltac nl_steps :=
  rewrite ?nl_first; cbn [app];
  repeat (erewrite nl_step by reflexivity; cbn [upd app];
          match goal with |- context[next_ix ?k] =>
            let v := eval vm_compute in (next_ix k) in change (next_ix k) with v end).

Ltac arith_norm :=
  repeat match goal with |- context[GetBitMask ?a ?b] =>
    let v := eval vm_compute in (GetBitMask a b) in change (GetBitMask a b) with v end;
  rewrite ?land_mask_255, ?land_mask_127, ?land_mask_63, ?land_mask_31, ?land_mask_15,
          ?land_7, ?land_mask_3, ?land_mask_1, ?shiftl_mul, ?shiftr_div;
  repeat match goal with |- context[2 ^ ?k] =>
    let v := eval vm_compute in (2 ^ k) in change (2 ^ k) with v end;
  repeat match goal with |- context[8 - ?k] =>
    let v := eval vm_compute in (8 - k) in change (8 - k) with v end.

(* one packed octet: the high bits of a septet (already shifted down) and the low
   bits of the next one; masks and wrap-around are no-ops on septets *)
Lemma oct7 x c : x < 128 -> (x mod 256 + (c * 128) mod 256) mod 256 = x + 128 * (c mod 2).
Proof. intro. lia. Qed.
Lemma oct6 x c : x < 64 -> (x mod 128 + (c * 64) mod 256) mod 256 = x + 64 * (c mod 4).
Proof. intro. lia. Qed.
Lemma oct5 x c : x < 32 -> (x mod 64 + (c * 32) mod 256) mod 256 = x + 32 * (c mod 8).
Proof. intro. lia. Qed.
Lemma oct4 x c : x < 16 -> (x mod 32 + (c * 16) mod 256) mod 256 = x + 16 * (c mod 16).
Proof. intro. lia. Qed.
Lemma oct3 x c : x < 8 -> (x mod 16 + (c * 8) mod 256) mod 256 = x + 8 * (c mod 32).
Proof. intro. lia. Qed.
Lemma oct2 x c : x < 4 -> (x mod 8 + (c * 4) mod 256) mod 256 = x + 4 * (c mod 64).
Proof. intro. lia. Qed.
Lemma oct1 x c : x < 2 -> (x mod 4 + (c * 2) mod 256) mod 256 = x + 2 * (c mod 128).
Proof. intro. lia. Qed.

Lemma name_loop_val_le7 s : septets_ok s -> (length s <= 7)%nat ->
  exists buf, name_loop s 0%nat [] 7 = Ok buf /\ le_val 256 buf = le_val 128 s.
Proof.
  intros Hs Hn. unfold septets_ok in Hs.
  destruct s as [|c0 [|c1 [|c2 [|c3 [|c4 [|c5 [|c6 [|c7 t]]]]]]]]; cbn [length] in Hn; try lia;
    repeat match goal with H : Forall _ (_ :: _) |- _ =>
      let Hc := fresh "Hc" in
      pose proof (Forall_inv H) as Hc; cbv beta in Hc; apply Forall_inv_tail in H end;
    nl_steps; eexists; (split; [reflexivity|]);
    arith_norm; rewrite ?oct7, ?oct6, ?oct5, ?oct4, ?oct3, ?oct2, ?oct1 by lia;
    cbn [le_val]; lia.
Qed.

Lemma name_partial s : septets_ok s -> (length s <= 7)%nat ->
  exists len b0 txt, NetworkNameToNas s = Ok (len, b0 :: txt) /\
    b0 = 128 + spare_spec (N.of_nat (length s)) /\
    len = 1 + N.of_nat (length txt) /\
    unpack7 txt (b0 mod 8) = s.
Proof.
  intros Hs Hn.
  destruct (NetworkNameToNas_closed s ltac:(lia)) as (buf & Hb & Hl & E).
  destruct (name_loop_val_le7 s Hs Hn) as (buf' & Hb' & Hv).
  rewrite Hb in Hb'. inversion Hb'; subst buf'. clear Hb'.
  eexists _, _, _. split; [exact E|]. split; [reflexivity|]. split; [rewrite Hl; reflexivity|].
  apply unpack7_of_val; [exact Hs|exact Hv|].
  rewrite Hl. unfold spare_spec.
  assert (N.of_nat (length s) <= 7) by lia.
  generalize dependent (N.of_nat (length s)). intros n _ Hn'. clear - Hn'. lia.
Qed.

(* ---- lengths 8..254: always wrong: the text decodes to more septets than the name has ---- *)
Lemma unpack7_length octs spare :
  length (unpack7 octs spare) = N.to_nat ((8 * N.of_nat (length octs) - spare) / 7).
Proof. unfold unpack7. cbv zeta. rewrite map_length, seq_length. reflexivity. Qed.

Lemma name_wrong_from_8 s : (8 <= length s < 255)%nat ->
  exists len b0 txt, NetworkNameToNas s = Ok (len, b0 :: txt) /\
    length txt = length s /\
    (length (unpack7 txt (b0 mod 8)) > length s)%nat /\ unpack7 txt (b0 mod 8) <> s.
Proof.
  intro Hn. destruct (NetworkNameToNas_closed s ltac:(lia)) as (buf & Hb & Hl & E).
  eexists _, _, _. split; [exact E|]. split; [exact Hl|].
  assert (Hlen : (length (unpack7 buf ((128 + spare_spec (N.of_nat (length s))) mod 8)) > length s)%nat).
  { rewrite unpack7_length, Hl. unfold spare_spec. lia. }
  split; [exact Hlen|]. intro Eq. rewrite Eq in Hlen. lia.
Qed.

(* witnesses (F13): "ABCDEFGH" and "ABCDEFGHIJ" *)
Lemma name_refuted :
  NetworkNameToNas [65;66;67;68;69;70;71;72] = Ok (9, [128; 65;225;144;88;52;30;145;0]) /\
  unpack7 [65;225;144;88;52;30;145;0] 0 = [65;66;67;68;69;70;71;72;0] /\
  pack7 [65;66;67;68;69;70;71;72] = [65;225;144;88;52;30;145] /\
  NetworkNameToNas [65;66;67;68;69;70;71;72;73;74] = Ok (11, [130; 65;225;144;88;52;30;145;73;0;37]) /\
  unpack7 [65;225;144;88;52;30;145;73;0;37] 2 = [65;66;67;68;69;70;71;72;73;0;20] /\
  pack7 [65;66;67;68;69;70;71;72;73;74] = [65;225;144;88;52;30;145;73;37].
Proof. repeat split; vm_compute; reflexivity. Qed.

(* a name of 255 characters makes the length octet wrap to 0 and the first setter panic *)
Lemma name_255_panics : NetworkNameToNas (repeat 65 255) = Panic.
Proof. vm_compute. reflexivity. Qed.
