(* C17: network names (GSM 7-bit packing) *)
From NV Require Import Lib.Base Lib.Bits C17.Model C17.Spec.
From Coq Require Import ZifyN ZifyNat ZifyBool.
Open Scope N_scope.
Ltac Zify.zify_post_hook ::= Z.to_euclidean_division_equations.

Arguments N.land : simpl never.
Arguments N.lor : simpl never.
Arguments N.shiftl : simpl never.
Arguments N.shiftr : simpl never.
Arguments N.modulo : simpl never.
Arguments N.div : simpl never.
Arguments N.pow : simpl never.
Arguments N.add : simpl never.
Arguments N.mul : simpl never.
Arguments N.sub : simpl never.

(* ---- the specification's unpacking: digit extraction ---- *)
Lemma le_val_digit B l : 1 < B -> Forall (fun c => c < B) l ->
  forall j, (j < length l)%nat -> (le_val B l / B ^ N.of_nat j) mod B = nth j l 0.
Proof.
  intros HB. induction l as [|c t IH]; intros Hl j Hj; [cbn in Hj; lia|].
  pose proof (Forall_inv Hl) as Hc. pose proof (Forall_inv_tail Hl) as Ht. cbv beta in Hc.
  cbn [le_val]. destruct j as [|j].
  - change (B ^ N.of_nat 0) with (B ^ 0). rewrite N.pow_0_r, N.div_1_r. cbn [nth].
    rewrite N.mul_comm, N.mod_add by lia. apply N.mod_small; assumption.
  - cbn [nth length] in *. rewrite Nat2N.inj_succ, N.pow_succ_r'.
    rewrite <- N.div_div by (try apply N.pow_nonzero; lia).
    rewrite (N.mul_comm B), N.div_add by lia.
    rewrite (N.div_small c B) by assumption. rewrite N.add_0_l.
    apply IH; [assumption|lia].
Qed.

Lemma map_nth_seq (l : list N) : map (fun k => nth k l 0) (seq 0 (length l)) = l.
Proof.
  induction l as [|c t IH]; [reflexivity|].
  cbn [length seq map nth]. f_equal. rewrite <- seq_shift, map_map. exact IH.
Qed.

Lemma unpack7_of_val octs spare s :
  septets_ok s -> le_val 256 octs = le_val 128 s ->
  (8 * N.of_nat (length octs) - spare) / 7 = N.of_nat (length s) ->
  unpack7 octs spare = s.
Proof.
  intros Hs Hv Hn. unfold unpack7. cbv zeta. rewrite Hn, Nat2N.id, Hv.
  rewrite <- (map_nth_seq s) at 2. apply map_ext_in. intros k Hk. apply in_seq in Hk.
  apply le_val_digit; [lia|exact Hs|lia].
Qed.

Lemma pow2_pos_256 n : 0 < 256 ^ n.
Proof. apply N.neq_0_lt_0, N.pow_nonzero. lia. Qed.

(* ---- the specification is consistent: packing per TS 23.038 and unpacking with
   the TS 24.008 spare-bit count return the septets, for every length ---- *)
Lemma le_val_bound B l : 0 < B -> Forall (fun c => c < B) l -> le_val B l < B ^ N.of_nat (length l).
Proof.
  intros HB H. induction l as [|c t IH].
  - cbn. lia.
  - pose proof (Forall_inv H) as Hc. cbv beta in Hc. specialize (IH (Forall_inv_tail H)).
    cbn [le_val length]. rewrite Nat2N.inj_succ, N.pow_succ_r'. nia.
Qed.

Lemma le_val_digits_of m : forall V, V < 256 ^ N.of_nat m ->
  le_val 256 (map (fun i => (V / 256 ^ N.of_nat i) mod 256) (seq 0 m)) = V.
Proof.
  induction m as [|m IH]; intros V HV.
  - cbn in *. change (256 ^ 0) with 1 in HV. lia.
  - cbn [seq map le_val]. rewrite <- seq_shift, map_map.
    change (256 ^ N.of_nat 0) with 1. rewrite N.div_1_r.
    rewrite (map_ext _ (fun i => ((V / 256) / 256 ^ N.of_nat i) mod 256)).
    + rewrite IH.
      * pose proof (N.div_mod V 256). lia.
      * rewrite Nat2N.inj_succ, N.pow_succ_r' in HV. apply N.div_lt_upper_bound; lia.
    + intro i. rewrite Nat2N.inj_succ, N.pow_succ_r', N.div_div by (try apply N.pow_nonzero; lia).
      reflexivity.
Qed.

Lemma spec_gsm7_roundtrip s : septets_ok s ->
  unpack7 (pack7 s) (spare_spec (N.of_nat (length s))) = s /\
  N.of_nat (length (pack7 s)) = (7 * N.of_nat (length s) + 7) / 8.
Proof.
  intro Hs. set (n := N.of_nat (length s)).
  assert (Hlen : length (pack7 s) = N.to_nat ((7 * n + 7) / 8)).
  { unfold pack7. rewrite map_length, seq_length. reflexivity. }
  split; [|rewrite Hlen; lia].
  apply unpack7_of_val; [exact Hs| |].
  - unfold pack7. apply le_val_digits_of. fold n.
    eapply N.lt_le_trans; [apply le_val_bound; [lia|exact Hs]|]. fold n.
    rewrite N2Nat.id.
    change 128 with (2 ^ 7). change 256 with (2 ^ 8). rewrite <- !N.pow_mul_r.
    apply N.pow_le_mono_r; lia.
  - rewrite Hlen, N2Nat.id. fold n. unfold spare_spec. lia.
Qed.

(* ---- arithmetic of one iteration ---- *)
Lemma le_val_app B l1 l2 :
  le_val B (l1 ++ l2) = le_val B l1 + B ^ N.of_nat (length l1) * le_val B l2.
Proof.
  induction l1 as [|c t IH]; cbn [app le_val length].
  - change (B ^ N.of_nat 0) with (B ^ 0). rewrite N.pow_0_r. lia.
  - rewrite IH, Nat2N.inj_succ, N.pow_succ_r'. lia.
Qed.

(* replacing octet k: value changes by 256^k (new - old) *)
Lemma le_val_upd B buf : forall k v, (k < length buf)%nat ->
  le_val B (upd buf k v) + B ^ N.of_nat k * nth k buf 0 = le_val B buf + B ^ N.of_nat k * v.
Proof.
  induction buf as [|h t IH]; intros k v Hk; [cbn in Hk; lia|].
  destruct k as [|k]; cbn [upd le_val nth length] in *.
  - change (B ^ N.of_nat 0) with (B ^ 0). rewrite N.pow_0_r. lia.
  - specialize (IH k v ltac:(lia)). rewrite Nat2N.inj_succ, N.pow_succ_r'. nia.
Qed.

Lemma nth_upd_other buf : forall i j v, i <> j -> nth j (upd buf i v) 0 = nth j buf 0.
Proof.
  induction buf as [|h t IH]; intros [|i] [|j] v H; cbn; auto; try congruence.
Qed.

Lemma idx_nth buf k : (k < length buf)%nat -> idx buf k = Ok (nth k buf 0).
Proof.
  intro H. unfold idx. destruct (nth_error buf k) as [x|] eqn:E.
  - apply (nth_error_nth buf k 0) in E. rewrite E. reflexivity.
  - apply nth_error_None in E. lia.
Qed.

Lemma bytes_ok_upd buf k v : bytes_ok buf -> v < 256 -> bytes_ok (upd buf k v).
Proof.
  unfold bytes_ok, is_byte. revert k. induction buf as [|h t IH]; intros k Hb Hv; [constructor|].
  destruct k; cbn [upd]; constructor;
    try exact Hv; try exact (Forall_inv Hb); try exact (Forall_inv_tail Hb).
  apply IH; [exact (Forall_inv_tail Hb)|exact Hv].
Qed.

Lemma land_127 c : c < 128 -> N.land c 127 = c.
Proof. intro. change 127 with (N.ones 7). rewrite land_ones_mod. apply N.mod_small. exact H. Qed.

(* bit position 7 i = 8 k + o *)
Lemma pow_split i k o : (7 * i = 8 * k + o)%nat ->
  128 ^ N.of_nat i = 256 ^ N.of_nat k * 2 ^ N.of_nat o.
Proof.
  intro H. change 128 with (2 ^ 7). change 256 with (2 ^ 8).
  rewrite <- !N.pow_mul_r, <- N.pow_add_r. f_equal. lia.
Qed.

Lemma shl_mod c o : o <= 8 -> (c * 2 ^ o) mod 256 = (c mod 2 ^ (8 - o)) * 2 ^ o.
Proof.
  intro H. replace 256 with (2 ^ (8 - o) * 2 ^ o)
    by (rewrite <- N.pow_add_r; replace (8 - o + o) with 8 by lia; reflexivity).
  apply N.mul_mod_distr_r; apply N.pow_nonzero; lia.
Qed.

(* One iteration adds the septet c at bit position 7 i: with m octets of room,
   it never panics, keeps the length and the octet range, and the little-endian
   value of the buffer grows by c * 128^i. *)
Lemma name_step_ok c i buf pre m :
  c < 128 -> length buf = m -> bytes_ok buf ->
  le_val 256 buf = le_val 128 pre -> length pre = i -> septets_ok pre ->
  (7 * i + 7 <= 8 * m)%nat ->
  exists buf', name_step c i buf = Ok buf' /\ length buf' = m /\ bytes_ok buf' /\
               le_val 256 buf' = le_val 128 (pre ++ [c]).
Proof.
  intros Hc Hlen Hok Hval Hpre Hsep Hroom.
  unfold name_step. cbv zeta.
  set (k := ((7 * i) / 8)%nat). set (on := ((7 * i) mod 8)%nat).
  assert (Hpos : (7 * i = 8 * k + on)%nat) by (subst k on; apply Nat.div_mod; lia).
  assert (Hon : (on < 8)%nat) by (subst on; apply Nat.mod_upper_bound; lia).
  assert (Hk : (k < length buf)%nat) by lia.
  rewrite land_127 by assumption.
  set (o := N.of_nat on). assert (Ho8 : o < 8) by lia.
  set (P := 256 ^ N.of_nat k).
  assert (HP : 0 < P) by (subst P; apply pow2_pos_256).
  pose proof (pow_split i k on Hpos) as Hsplit. fold P o in Hsplit.
  set (S := 2 ^ o) in *. set (D := 2 ^ (8 - o)).
  assert (HS : 0 < S) by (subst S; apply pow2_pos).
  assert (HD : 0 < D) by (subst D; apply pow2_pos).
  assert (HDS : D * S = 256).
  { subst D S. rewrite <- N.pow_add_r. replace (8 - o + o) with 8 by lia. reflexivity. }
  (* the value so far occupies the bits below 7 i *)
  assert (HV : le_val 256 buf < P * S).
  { rewrite Hval, <- Hsplit, <- Hpre. apply le_val_bound; [lia|exact Hsep]. }
  (* octet k holds only bits below o *)
  assert (Hb : nth k buf 0 < S).
  { rewrite <- (le_val_digit 256 buf ltac:(lia) Hok k Hk). fold P.
    assert (le_val 256 buf / P < S) by (apply N.div_lt_upper_bound; lia).
    rewrite N.mod_small by nia. assumption. }
  rewrite (idx_nth buf k Hk). cbn [obind].
  set (b := nth k buf 0) in *.
  rewrite shiftl_mul, shl_mod by lia. rewrite lor_disjoint_add' by exact Hb. fold S D.
  set (L := c mod D). set (H := c / D).
  assert (HcLH : c = D * H + L) by (subst L H; apply N.div_mod; lia).
  assert (HL : L < D) by (subst L; apply N.mod_lt; lia).
  (* value after the first write *)
  pose proof (le_val_upd 256 buf k (L * S + b) Hk) as HU1.
  fold P b in HU1.
  set (buf1 := upd buf k (L * S + b)) in *.
  assert (Hl1 : length buf1 = m) by (subst buf1; rewrite upd_length; exact Hlen).
  assert (Hok1 : bytes_ok buf1).
  { subst buf1. apply bytes_ok_upd; [exact Hok|nia]. }
  rewrite le_val_app, Hpre. cbn [le_val]. rewrite Hsplit, <- Hval.
  destruct (N.ltb_spec 1 o) as [Ho|Ho].
  - (* the septet straddles octets k and k+1 *)
    assert (Hk1 : (k + 1 < length buf1)%nat) by lia.
    assert (HP1 : 256 ^ N.of_nat (k + 1) = P * 256)
      by (subst P; rewrite Nat2N.inj_add, N.pow_add_r; reflexivity).
    assert (Hz : nth (k + 1) buf1 0 = 0).
    { subst buf1. rewrite nth_upd_other by lia.
      rewrite <- (le_val_digit 256 buf ltac:(lia) Hok (k + 1)) by lia.
      rewrite HP1. rewrite N.div_small by nia. reflexivity. }
    rewrite (idx_nth buf1 (k + 1) Hk1). cbn [obind]. rewrite Hz, N.lor_0_l, shiftr_div.
    fold D H.
    pose proof (le_val_upd 256 buf1 (k + 1) H Hk1) as HU2.
    rewrite Hz, HP1 in HU2.
    eexists. split; [reflexivity|]. split; [rewrite upd_length; exact Hl1|].
    split; [apply bytes_ok_upd; [exact Hok1|subst H; unfold is_byte; nia]|].
    nia.
  - (* the septet fits into octet k: c < D *)
    assert (HDbig : 128 <= D).
    { subst D. change 128 with (2 ^ 7). apply N.pow_le_mono_r; lia. }
    assert (H = 0) by (subst H; apply N.div_small; lia).
    eexists. split; [reflexivity|]. split; [exact Hl1|]. split; [exact Hok1|].
    nia.
Qed.

(* ---- the whole loop ---- *)
Lemma name_loop_ok chars : forall pre i buf m,
  septets_ok chars -> length buf = m -> bytes_ok buf ->
  le_val 256 buf = le_val 128 pre -> length pre = i -> septets_ok pre ->
  (7 * (i + length chars) <= 8 * m)%nat ->
  exists r, name_loop chars i buf = Ok r /\ length r = m /\ bytes_ok r /\
            le_val 256 r = le_val 128 (pre ++ chars).
Proof.
  induction chars as [|c t IH]; intros pre i buf m Hs Hl Hok Hv Hp Hsp Hroom.
  - exists buf. rewrite app_nil_r. repeat split; assumption.
  - pose proof (Forall_inv Hs) as Hc. cbv beta in Hc. pose proof (Forall_inv_tail Hs) as Ht.
    cbn [length] in Hroom.
    destruct (name_step_ok c i buf pre m Hc Hl Hok Hv Hp Hsp ltac:(lia))
      as (buf' & Hstep & Hl' & Hok' & Hv').
    cbn [name_loop]. rewrite Hstep. cbn [obind].
    destruct (IH (pre ++ [c]) (S i) buf' m Ht Hl' Hok' Hv') as (r & Hr & Hlr & Hokr & Hvr).
    + rewrite app_length, Hp. cbn [length]. lia.
    + unfold septets_ok. apply Forall_app. split; [exact Hsp|constructor; [exact Hc|constructor]].
    + lia.
    + exists r. rewrite <- app_assoc in Hvr. repeat split; assumption.
Qed.

Lemma le_val_repeat0 B n : le_val B (repeat 0 n) = 0.
Proof. induction n as [|n IH]; cbn [repeat le_val]; [reflexivity|rewrite IH; lia]. Qed.

Lemma bytes_ok_repeat0 n : bytes_ok (repeat 0 n).
Proof. unfold bytes_ok. induction n; cbn [repeat]; constructor; [unfold is_byte; lia|assumption]. Qed.

(* a list of octets is the list of base-256 digits of its value *)
Lemma bytes_digits l : bytes_ok l ->
  l = map (fun i => (le_val 256 l / 256 ^ N.of_nat i) mod 256) (seq 0 (length l)).
Proof.
  intro H. rewrite <- (map_nth_seq l) at 1. apply map_ext_in. intros k Hk. apply in_seq in Hk.
  symmetry. apply le_val_digit; [lia|exact H|lia].
Qed.

Definition name_octets (n : nat) : nat := Z.to_nat (Z.quot (7 * Z.of_nat n + 7) 8).

Lemma name_octets_N n : N.of_nat (name_octets n) = (7 * N.of_nat n + 7) / 8.
Proof. unfold name_octets. lia. Qed.

(* the packed text is the specification's, for every length *)
Lemma name_loop_pack7 s : septets_ok s ->
  name_loop s 0%nat (repeat 0 (name_octets (length s))) = Ok (pack7 s).
Proof.
  intro Hs.
  destruct (name_loop_ok s [] 0%nat (repeat 0 (name_octets (length s))) (name_octets (length s)) Hs)
    as (r & Hr & Hl & Hok & Hv).
  - apply repeat_length.
  - apply bytes_ok_repeat0.
  - rewrite le_val_repeat0. reflexivity.
  - reflexivity.
  - constructor.
  - unfold name_octets. lia.
  - rewrite Hr. f_equal. cbn [app] in Hv.
    rewrite (bytes_digits r Hok), Hv, Hl. unfold pack7.
    f_equal. f_equal. unfold name_octets. lia.
Qed.

Lemma pack7_length s : length (pack7 s) = name_octets (length s).
Proof. unfold pack7. rewrite map_length, seq_length. unfold name_octets. lia. Qed.

(* ---- the information element built around the packed text ---- *)
Lemma land_7 x : N.land x 7 = x mod 8.
Proof. change 7 with (N.ones 3). apply land_ones_mod. Qed.

(* 290 septets = 254 text octets is the capacity of the element (Len <= 255) *)
Lemma NetworkNameToNas_closed s : septets_ok s -> (length s <= 290)%nat ->
  NetworkNameToNas s =
    Ok (1 + N.of_nat (length (pack7 s)), (128 + spare_spec (N.of_nat (length s))) :: pack7 s).
Proof.
  intros Hs Hn. unfold NetworkNameToNas. cbv zeta.
  change (Z.to_nat (Z.quot (7 * Z.of_nat (length s) + 7) 8)) with (name_octets (length s)).
  rewrite (name_loop_pack7 s Hs). cbn [obind].
  pose proof (pack7_length s) as Hl. set (txt := pack7 s) in *.
  assert (Hm : (length txt <= 254)%nat) by (rewrite Hl; unfold name_octets; lia).
  assert (E : N.to_nat (u8 (1 + Z.of_nat (length txt))) = S (length txt)) by (unfold u8; lia).
  rewrite E. cbn [repeat idx nth_error obind upd].
  unfold slice_from, slice. cbn [length]. rewrite repeat_length.
  replace ((1 <=? S (length txt)) && (S (length txt) <=? S (length txt)))%nat%bool with true by lia.
  cbn [obind skipn firstn]. replace (S (length txt) - 1)%nat with (length txt) by lia.
  rewrite (firstn_all2 (repeat 0 (length txt))) by (rewrite repeat_length; lia).
  rewrite repeat_length, Nat.min_id.
  rewrite (firstn_all2 txt) by lia.
  rewrite (skipn_all2 (repeat 0 (length txt))) by (rewrite repeat_length; lia).
  rewrite app_nil_r.
  f_equal. f_equal; [unfold u8; lia|]. cbn [app]. f_equal.
  change (N.land 0 143) with 0. change (N.land 0 7) with 0. change (N.shiftl 0 4) with 0.
  change ((0 + 0 mod 256) mod 256) with 0.
  change (N.land 0 247) with 0. change (N.land 0 1) with 0. change (N.shiftl 0 3) with 0.
  change ((0 + 0 mod 256) mod 256) with 0.
  change (N.land 0 127) with 0. change (N.land 1 1) with 1. change (N.shiftl 1 7) with 128.
  change ((0 + 128 mod 256) mod 256) with 128.
  change (N.land 128 248) with 128. rewrite land_7. unfold u8, spare_spec. lia.
Qed.

(* the full statement, for every name the element can hold *)
Lemma name_full s : septets_ok s -> (length s <= 290)%nat ->
  exists len b0 txt, NetworkNameToNas s = Ok (len, b0 :: txt) /\
    b0 = 128 + spare_spec (N.of_nat (length s)) /\
    len = 1 + N.of_nat (length txt) /\
    txt = pack7 s /\ N.of_nat (length txt) = (7 * N.of_nat (length s) + 7) / 8 /\
    unpack7 txt (b0 mod 8) = s.
Proof.
  intros Hs Hn. eexists _, _, _. split; [apply NetworkNameToNas_closed; assumption|].
  destruct (spec_gsm7_roundtrip s Hs) as [Hu Hlen].
  split; [reflexivity|]. split; [reflexivity|]. split; [reflexivity|]. split; [exact Hlen|].
  replace ((128 + spare_spec (N.of_nat (length s))) mod 8) with (spare_spec (N.of_nat (length s)))
    by (unfold spare_spec; lia).
  exact Hu.
Qed.

(* beyond the capacity: 291 characters make the length octet wrap to 0 and the
   first setter index an empty Buffer (panic); from 292 on the length octet is
   small and the text is silently cut *)
Lemma name_beyond_capacity :
  NetworkNameToNas (repeat 65 291) = Panic /\ NetworkNameToNas (repeat 65 292) = Ok (1, [132]).
Proof. split; vm_compute; reflexivity. Qed.

(* the former defect F13 (fixed by commit 12a658d) *)
Lemma name_former_F13 :
  NetworkNameToNas [65;66;67;68;69;70;71;72] = Ok (8, [128; 65;225;144;88;52;30;145]) /\
  NetworkNameToNas [65;66;67;68;69;70;71;72;73;74] = Ok (10, [130; 65;225;144;88;52;30;145;73;37]).
Proof. split; vm_compute; reflexivity. Qed.
