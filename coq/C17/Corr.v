(* C17 correspondence: inputs run on the Go implementation, replayed on the model. *)
From NV Require Import Lib.Base C17.Model.
Open Scope N_scope.

Inductive cin :=
| IT2 (d : Z)                      (* GPRSTimer2ToNas *)
| IT3 (d : Z)                      (* GPRSTimer3ToNas *)
| IAmbr (up down : bytes)          (* ModelsToSessionAMBR: Octet[:] *)
| ITz (s : bytes)                  (* EncodeLocalTimeZoneToNas: Octet *)
| IDst (s : bytes)                 (* EncodeDaylightSavingTimeToNas: Len, Octet *)
| IGetTz (t : gotime)              (* GetTimeZone *)
| IEncUT (t : gotime)              (* EncodeUniversalTimeAndLocalTimeZoneToNas: Octet[:] *)
| IDecUT (o : bytes)               (* DecodeUniversalTimeAndLocalTimeZone: arguments of time.Date *)
| IDecTz (o : N)                   (* DecodeLocalTimeZone *)
| IDecDst (o : N)                  (* DecodeDaylightSavingTime *)
| IName (full : bool) (s : bytes). (* Full/ShortNetworkNameToNas: Len, Buffer *)

Inductive obs :=
| ON (n : N)
| ONN (a b : N)
| OBytes (b : bytes)
| OTime (t : gotime)
| OName (len : N) (buf : bytes)
| OPanic.

Definition case := (N * cin * obs)%type.

Definition gotime_eqb (a b : gotime) : bool :=
  ((t_year a =? t_year b) && (t_month a =? t_month b) && (t_day a =? t_day b) &&
   (t_hour a =? t_hour b) && (t_minute a =? t_minute b) && (t_second a =? t_second b) &&
   (zoff a =? zoff b))%Z && Bool.eqb (isdst a) (isdst b).

Definition run (i : cin) : obs :=
  match i with
  | IT2 d => ON (GPRSTimer2ToNas d)
  | IT3 d => ON (GPRSTimer3ToNas d)
  | IAmbr u d => match ModelsToSessionAMBR u d with Ok b => OBytes b | _ => OPanic end
  | ITz s => match EncodeLocalTimeZoneToNas s with Ok n => ON n | _ => OPanic end
  | IDst s => match EncodeDaylightSavingTimeToNas s with Ok (a, b) => ONN a b | _ => OPanic end
  | IGetTz t => OBytes (GetTimeZone t)
  | IEncUT t => match EncodeUniversalTimeAndLocalTimeZoneToNas t with Ok b => OBytes b | _ => OPanic end
  | IDecUT o => match DecodeUniversalTimeAndLocalTimeZone o with Ok t => OTime t | _ => OPanic end
  | IDecTz o => OBytes (DecodeLocalTimeZone o)
  | IDecDst o => OBytes (DecodeDaylightSavingTime o)
  | IName true s => match FullNetworkNameToNas s with Ok (l, b) => OName l b | _ => OPanic end
  | IName false s => match ShortNetworkNameToNas s with Ok (l, b) => OName l b | _ => OPanic end
  end.

Definition obs_eqb (a b : obs) : bool :=
  match a, b with
  | ON x, ON y => x =? y
  | ONN x1 x2, ONN y1 y2 => (x1 =? y1) && (x2 =? y2)
  | OBytes x, OBytes y => eqb_bytes x y
  | OTime x, OTime y => gotime_eqb x y
  | OName l x, OName l' y => (l =? l') && eqb_bytes x y
  | OPanic, OPanic => true
  | _, _ => false
  end.

Definition case_id (c : case) : N := fst (fst c).
Definition case_ok (c : case) : bool := let '(_, i, o) := c in obs_eqb (run i) o.

Definition mismatches (cs : list case) : list N :=
  map case_id (filter (fun c => negb (case_ok c)) cs).
