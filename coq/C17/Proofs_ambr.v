(* C17: session AMBR *)
From NV Require Import Lib.Base Lib.Bits C17.Model C17.Spec.
From Coq Require Import ZifyN ZifyNat ZifyBool.
Open Scope N_scope.
Ltac Zify.zify_post_hook ::= Z.to_euclidean_division_equations.

Arguments N.mul : simpl never.
Arguments N.add : simpl never.
Arguments N.sub : simpl never.
Arguments N.div : simpl never.
Arguments N.modulo : simpl never.

(* ---- strings.Split on a text with exactly one space ---- *)
Lemma split_on_none sep b : ~ In sep b -> split_on sep b = [b].
Proof.
  induction b as [|c t IH]; intro H; [reflexivity|].
  cbn [split_on]. destruct (N.eqb_spec c sep) as [->|Hne].
  - exfalso. apply H. left; reflexivity.
  - rewrite IH by (intro; apply H; right; assumption). reflexivity.
Qed.

Lemma split_on_one sep a b : ~ In sep a -> ~ In sep b ->
  split_on sep (a ++ sep :: b) = [a; b].
Proof.
  intros Ha Hb. induction a as [|c t IH].
  - cbn [app split_on]. rewrite N.eqb_refl, split_on_none by assumption. reflexivity.
  - cbn [app split_on]. destruct (N.eqb_spec c sep) as [->|Hne].
    + exfalso. apply Ha. left; reflexivity.
    + rewrite IH by (intro; apply Ha; right; assumption). reflexivity.
Qed.

(* ---- strconv.ParseUint on decimal numerals ---- *)
Definition digits_ok (ds : list N) : Prop := Forall (fun d => d < 10) ds.

Lemma parse_digits_text ds : forall acc, digits_ok ds ->
  parse_digits (digits_text ds) acc = Ok (fold_left (fun a d => a * 10 + d) ds acc).
Proof.
  induction ds as [|d t IH]; intros acc H; [reflexivity|].
  pose proof (Forall_inv H) as Hd. pose proof (Forall_inv_tail H) as Ht. cbv beta in Hd.
  cbn [digits_text map parse_digits fold_left].
  replace ((48 <=? 48 + d) && (48 + d <=? 57))%bool with true by lia.
  replace (48 + d - 48) with d by lia.
  apply IH. assumption.
Qed.

Lemma ParseUint16_text ds : digits_ok ds -> ds <> [] -> digits_val ds < 65536 ->
  ParseUint16 (digits_text ds) = Ok (digits_val ds).
Proof.
  intros Hok Hne Hv. unfold ParseUint16.
  destruct ds as [|d t]; [congruence|].
  change (digits_text (d :: t)) with ((48 + d) :: digits_text t) at 1.
  cbv iota. rewrite parse_digits_text by assumption.
  fold (digits_val (d :: t)).
  destruct (N.ltb_spec (digits_val (d :: t)) 65536); [reflexivity|lia].
Qed.

Lemma digits_text_no_space ds : digits_ok ds -> ~ In 32 (digits_text ds).
Proof.
  intros H Hin. unfold digits_text in Hin. apply in_map_iff in Hin as (d & Hd & _). lia.
Qed.

Lemma ambr_text_no_space u : ~ In 32 (ambr_text u).
Proof. destruct u; cbn; intuition discriminate. Qed.

Lemma strToAMBRUnit_text u : strToAMBRUnit (ambr_text u) = ambr_code u.
Proof. destruct u; reflexivity. Qed.

(* the unit codes are the nasMessage constants *)
Lemma ambr_codes :
  ambr_code Kbps = SessionAMBRUnit1Kbps /\ ambr_code Mbps = SessionAMBRUnit1Mbps /\
  ambr_code Gbps = SessionAMBRUnit1Gbps /\ ambr_code Tbps = SessionAMBRUnit1Tbps /\
  ambr_code Pbps = SessionAMBRUnit1Pbps.
Proof. repeat split; reflexivity. Qed.

Lemma ambr_side_text ds u : digits_ok ds -> ds <> [] -> digits_val ds < 65536 ->
  ambr_side (digits_text ds ++ 32 :: ambr_text u) =
  Ok (ambr_code u, digits_val ds / 256, digits_val ds mod 256).
Proof.
  intros Hok Hne Hv. unfold ambr_side.
  rewrite split_on_one by (try apply digits_text_no_space; try apply ambr_text_no_space; assumption).
  cbn [sidx nth_error obind]. rewrite ParseUint16_text by assumption.
  rewrite strToAMBRUnit_text. unfold hi8, lo8.
  rewrite (N.mod_small (digits_val ds / 256)) by lia. reflexivity.
Qed.

(* the three octets per direction are [unit code; v / 256; v mod 256] *)
Lemma ambr_digits du uu dd ud :
  digits_ok du -> du <> [] -> digits_val du < 65536 ->
  digits_ok dd -> dd <> [] -> digits_val dd < 65536 ->
  ModelsToSessionAMBR (digits_text du ++ 32 :: ambr_text uu) (digits_text dd ++ 32 :: ambr_text ud) =
  Ok [ambr_code ud; digits_val dd / 256; digits_val dd mod 256;
      ambr_code uu; digits_val du / 256; digits_val du mod 256].
Proof.
  intros. unfold ModelsToSessionAMBR. rewrite !ambr_side_text by assumption. reflexivity.
Qed.

(* ---- the canonical decimal rendering of an integer ---- *)
Definition pv (s : bytes) (a : N) : N := fold_left (fun a c => a * 10 + (c - 48)) s a.
Definition isdigits (s : bytes) : Prop := Forall (fun c => 48 <= c <= 57) s.

Lemma parse_digits_pv s : forall a, isdigits s -> parse_digits s a = Ok (pv s a).
Proof.
  induction s as [|c t IH]; intros a H; [reflexivity|].
  pose proof (Forall_inv H) as Hc. pose proof (Forall_inv_tail H) as Ht. cbv beta in Hc.
  cbn [parse_digits]. replace ((48 <=? c) && (c <=? 57))%bool with true by lia.
  rewrite IH by assumption. reflexivity.
Qed.

Lemma dec_digits_fuel_app f : forall v acc,
  dec_digits_fuel f v acc = dec_digits_fuel f v [] ++ acc.
Proof.
  induction f as [|f IH]; intros v acc; [reflexivity|].
  cbn [dec_digits_fuel]. destruct (v <? 10); [reflexivity|].
  rewrite IH. rewrite (IH _ [_]). rewrite <- app_assoc. reflexivity.
Qed.

Lemma dec_digits_fuel_ok f : forall v, v < 10 ^ N.of_nat f -> f <> 0%nat ->
  isdigits (dec_digits_fuel f v []) /\ pv (dec_digits_fuel f v []) 0 = v /\
  dec_digits_fuel f v [] <> [].
Proof.
  induction f as [|f IH]; intros v Hv Hf.
  - congruence.
  - cbn [dec_digits_fuel]. destruct (N.ltb_spec v 10) as [Hs|Hs].
    + repeat split.
      * constructor; [lia|constructor].
      * unfold pv. cbn [fold_left]. lia.
      * discriminate.
    + rewrite dec_digits_fuel_app.
      assert (Hv' : v / 10 < 10 ^ N.of_nat f).
      { rewrite Nat2N.inj_succ, N.pow_succ_r' in Hv. apply N.div_lt_upper_bound; lia. }
      assert (Hf' : f <> 0%nat).
      { intros ->. change (10 ^ N.of_nat 0) with 1 in Hv'. lia. }
      destruct (IH (v / 10) Hv' Hf') as (H1 & H2 & H3). repeat split.
      * apply Forall_app. split; [assumption|]. constructor; [lia|constructor].
      * unfold pv in *. rewrite fold_left_app, H2. cbn [fold_left]. lia.
      * intro E. apply app_eq_nil in E as [_ E]. discriminate.
Qed.

Lemma dec_digits_no_space v : v < 10 ^ 20 -> ~ In 32 (dec_digits v).
Proof.
  intros Hv Hin. destruct (dec_digits_fuel_ok 20 v Hv ltac:(discriminate)) as (H & _ & _).
  unfold isdigits in H. rewrite Forall_forall in H. specialize (H 32 Hin). lia.
Qed.

Lemma ParseUint16_dec v : v < 65536 -> ParseUint16 (dec_digits v) = Ok v.
Proof.
  intro Hv. assert (Hv20 : v < 10 ^ 20) by (change (10 ^ 20) with 100000000000000000000; lia).
  destruct (dec_digits_fuel_ok 20 v Hv20 ltac:(discriminate)) as (H1 & H2 & H3).
  unfold ParseUint16, dec_digits in *.
  destruct (dec_digits_fuel 20 v []) as [|c t] eqn:E; [congruence|].
  rewrite parse_digits_pv by assumption. rewrite H2.
  destruct (N.ltb_spec v 65536); [reflexivity|lia].
Qed.

Lemma ambr_side_dec v u : v < 65536 ->
  ambr_side (dec_digits v ++ 32 :: ambr_text u) = Ok (ambr_code u, v / 256, v mod 256).
Proof.
  intro Hv. unfold ambr_side.
  rewrite split_on_one;
    [|apply dec_digits_no_space; change (10 ^ 20) with 100000000000000000000; lia|apply ambr_text_no_space].
  cbn [sidx nth_error obind]. rewrite ParseUint16_dec by assumption.
  rewrite strToAMBRUnit_text. unfold hi8, lo8.
  rewrite (N.mod_small (v / 256)) by lia. reflexivity.
Qed.

(* "<v> <unit>" with v in canonical decimal, all 65 536 values x 5 units, both directions *)
Lemma ambr_canonical vu uu vd ud : vu < 65536 -> vd < 65536 ->
  ModelsToSessionAMBR (dec_digits vu ++ 32 :: ambr_text uu) (dec_digits vd ++ 32 :: ambr_text ud) =
  Ok [ambr_code ud; vd / 256; vd mod 256; ambr_code uu; vu / 256; vu mod 256].
Proof.
  intros. unfold ModelsToSessionAMBR. rewrite !ambr_side_dec by assumption. reflexivity.
Qed.

(* a value above 65535 is not encoded at all: the value octets stay 0 (only a warning is logged) *)
Lemma ambr_side_too_large ds u : digits_ok ds -> ds <> [] -> 65536 <= digits_val ds ->
  ambr_side (digits_text ds ++ 32 :: ambr_text u) = Ok (ambr_code u, 0, 0).
Proof.
  intros Hok Hne Hv. unfold ambr_side.
  rewrite split_on_one by (try apply digits_text_no_space; try apply ambr_text_no_space; assumption).
  cbn [sidx nth_error obind]. unfold ParseUint16.
  destruct ds as [|d t]; [congruence|].
  change (digits_text (d :: t)) with ((48 + d) :: digits_text t) at 1. cbv iota.
  rewrite parse_digits_text by assumption. fold (digits_val (d :: t)).
  destruct (N.ltb_spec (digits_val (d :: t)) 65536); [lia|].
  rewrite strToAMBRUnit_text. reflexivity.
Qed.

(* a text without a space panics (index out of range on the second word) *)
Lemma ambr_side_no_space s : ~ In 32 s -> ambr_side s = Panic.
Proof.
  intro H. unfold ambr_side. rewrite split_on_none by assumption.
  cbn [sidx nth_error obind]. destruct (ParseUint16 s) as [v| | |]; reflexivity.
Qed.
