(* C17: time zone, daylight saving time, universal time and local time zone *)
From NV Require Import Lib.Base Lib.Bits C17.Model C17.Spec.
From Coq Require Import ZifyN ZifyNat ZifyBool.
Open Scope N_scope.
Ltac Zify.zify_post_hook ::= Z.to_euclidean_division_equations.

(* ---- finite ranges ---- *)
Definition zrange (lo : Z) (n : nat) : list Z := map (fun i => (lo + Z.of_nat i)%Z) (seq 0 n).

Lemma In_zrange lo n x : (lo <= x < lo + Z.of_nat n)%Z -> In x (zrange lo n).
Proof.
  intro H. unfold zrange. apply in_map_iff. exists (Z.to_nat (x - lo)). split; [lia|].
  apply in_seq. lia.
Qed.

Definition nrange (n : nat) : list N := map N.of_nat (seq 0 n).
Lemma In_nrange n x : (N.to_nat x < n)%nat -> In x (nrange n).
Proof.
  intro H. unfold nrange. apply in_map_iff. exists (N.to_nat x). split; [lia|].
  apply in_seq. lia.
Qed.

(* ---- the text form of a zone: sign hh:mm, then "+1" / "+2" for the
   daylight-saving adjustment; q = quarter hours of the zone without the
   adjustment; q = 0 is written "+00:00" ---- *)
Definition two_digits (n : N) : bytes := [48 + n / 10; 48 + n mod 10].
Definition tz_text (q : Z) (dst : N) : bytes :=
  let a := Z.abs_N q in
  (if (q <? 0)%Z then 45 else 43) :: two_digits (a / 4) ++ [58] ++ two_digits (15 * (a mod 4))
    ++ (if dst =? 0 then [] else [43; 48 + dst]).

Definition zones : list Z := zrange (-79) 159.
Definition dsts : list N := [0; 1; 2].

(* zone + adjustment beyond +19:45 cannot be coded at all (two BCD digits, tens <= 7) *)
Definition codable (q : Z) (dst : N) : bool := (q + 4 * Z.of_N dst <=? 79)%Z.

Definition tz_ok (q : Z) (dst : N) : bool :=
  match EncodeLocalTimeZoneToNas (tz_text q dst) with
  | Ok o =>
      match tz_dec o with
      | Some v => ((v =? q + 4 * Z.of_N dst) &&
                   (getTimeZoneOffset o =? 900 * (q + 4 * Z.of_N dst)))%Z &&
                  eqb_bytes (DecodeLocalTimeZone o) (tz_text (q + 4 * Z.of_N dst) 0)
      | None => false
      end
  | _ => false
  end.

Lemma tz_sweep :
  forallb (fun q => forallb (fun d => negb (codable q d) || tz_ok q d) dsts) zones = true.
Proof. vm_cast_no_check (@eq_refl bool true). Qed.

Lemma tz_full q dst :
  (-79 <= q <= 79)%Z -> dst <= 2 -> (q + 4 * Z.of_N dst <= 79)%Z ->
  exists o, EncodeLocalTimeZoneToNas (tz_text q dst) = Ok o /\
            tz_dec o = Some (q + 4 * Z.of_N dst)%Z /\
            getTimeZoneOffset o = (900 * (q + 4 * Z.of_N dst))%Z /\
            DecodeLocalTimeZone o = tz_text (q + 4 * Z.of_N dst) 0.
Proof.
  intros Hq Hd Hc. pose proof tz_sweep as H.
  rewrite forallb_forall in H. specialize (H q). unfold zones in H.
  specialize (H (In_zrange (-79) 159 q ltac:(lia))).
  rewrite forallb_forall in H. specialize (H dst).
  assert (Hin : In dst dsts) by (unfold dsts; cbn; lia).
  specialize (H Hin).
  unfold codable in H.
  replace (q + 4 * Z.of_N dst <=? 79)%Z with true in H by lia.
  cbn [negb orb] in H. unfold tz_ok in H.
  destruct (EncodeLocalTimeZoneToNas (tz_text q dst)) as [o| | |]; try discriminate.
  destruct (tz_dec o) as [v|] eqn:Ev; try discriminate.
  apply andb_true_iff in H as [H H3]. apply andb_true_iff in H as [H1 H2].
  exists o. split; [reflexivity|]. split; [rewrite Ev; f_equal; lia|]. split; [lia|].
  apply eqb_bytes_spec. exact H3.
Qed.

(* the former defect F14 (fixed by commit 95fc7fd): a negative zone smaller than
   the adjustment; "-00:30+1" is +00:30 = 2 quarter hours, coded 0x20 *)
Lemma tz_former_F14 :
  tz_text (-2) 1 = [45;48;48;58;51;48;43;49] /\
  EncodeLocalTimeZoneToNas (tz_text (-2) 1) = Ok 32 /\ tz_dec 32 = Some 2%Z /\
  getTimeZoneOffset 32 = 1800%Z.
Proof. repeat split; reflexivity. Qed.

(* what remains outside: zone + adjustment beyond +19:45 has no code (tens digit
   <= 7); the BCD tens digit 8 collides with the sign bit, e.g. "+19:00+1" (80
   quarter hours) is coded 0x08 = -0 *)
Lemma tz_beyond_range_example :
  EncodeLocalTimeZoneToNas (tz_text 76 1) = Ok 8 /\ tz_dec 8 = Some 0%Z.
Proof. split; reflexivity. Qed.

(* parseTimeZoneToNas needs at least 6 octets of text (index / slice panics below) *)
Definition pan_ok {A} (x : outcome A) : Prop :=
  match x with Ok _ | Panic => True | _ => False end.

Lemma bind_to_panic {A B} (x : outcome A) (f : A -> outcome B) :
  pan_ok x -> (forall a, f a = Panic) -> obind x f = Panic.
Proof. destruct x; cbn; intros H Hf; try contradiction; auto. Qed.

Lemma idx_pan_ok l i : pan_ok (idx l i).
Proof. unfold idx. destruct (nth_error l i); exact I. Qed.
Lemma slice_pan_ok l a b : pan_ok (slice l a b).
Proof. unfold slice. destruct (_ && _)%bool; exact I. Qed.
Lemma last2_pan_ok l : pan_ok (last2 l).
Proof. unfold last2. destruct (_ <? _)%nat; [exact I|apply slice_pan_ok]. Qed.

Lemma parseTimeZoneToNas_short s : (length s < 6)%nat -> parseTimeZoneToNas s = Panic.
Proof.
  intro H. unfold parseTimeZoneToNas.
  apply bind_to_panic; [apply idx_pan_ok|intro c1].
  apply bind_to_panic; [apply idx_pan_ok|intro c2].
  apply bind_to_panic; [apply last2_pan_ok|intro suffix].
  apply bind_to_panic.
  - destruct (_ || _)%bool; [|exact I].
    destruct (last_index 43 s) as [i|]; [|exact I].
    destruct (idx s 0) as [c0| | |] eqn:E0; try exact I;
      try (pose proof (idx_pan_ok s 0) as P; rewrite E0 in P; contradiction).
    cbn [obind].
    destruct (idx s (i + 1)) as [d| | |] eqn:E1; try exact I;
      try (pose proof (idx_pan_ok s (i + 1)) as P; rewrite E1 in P; contradiction).
    cbn [obind]. destruct (c0 =? 45); exact I.
  - intro tm. unfold slice.
    destruct (Nat.leb_spec 6 (length s)); [lia|].
    rewrite andb_false_r. reflexivity.
Qed.

(* ---- decoders on arbitrary octets ---- *)
Definition dec_ok (o : N) : bool :=
  match tz_dec o with
  | Some q => (getTimeZoneOffset o =? 900 * q)%Z && eqb_bytes (DecodeLocalTimeZone o) (tz_text q 0)
  | None => true
  end &&
  match dst_dec o with
  | Some v => eqb_bytes (DecodeDaylightSavingTime o) (if v =? 0 then [] else [43; 48 + v])
  | None => eqb_bytes (DecodeDaylightSavingTime o) []
  end.

Lemma dec_sweep : forallb dec_ok (nrange 256) = true.
Proof. vm_cast_no_check (@eq_refl bool true). Qed.

Lemma decoders_spec o : o < 256 ->
  (forall q, tz_dec o = Some q ->
     getTimeZoneOffset o = (900 * q)%Z /\ DecodeLocalTimeZone o = tz_text q 0) /\
  DecodeDaylightSavingTime o =
    match dst_dec o with Some v => if v =? 0 then [] else [43; 48 + v] | None => [] end.
Proof.
  intro Ho. pose proof dec_sweep as H. rewrite forallb_forall in H.
  specialize (H o (In_nrange 256 o ltac:(lia))). unfold dec_ok in H.
  apply andb_true_iff in H as [H1 H2]. split.
  - intros q Hq. rewrite Hq in H1. apply andb_true_iff in H1 as [Ha Hb].
    split; [lia|apply eqb_bytes_spec; exact Hb].
  - destruct (dst_dec o); apply eqb_bytes_spec; exact H2.
Qed.

Lemma DecodeUniversalTime_total o : length o = 7%nat ->
  exists t, DecodeUniversalTimeAndLocalTimeZone o = Ok t.
Proof.
  intro H. destruct o as [|a [|b [|c [|d [|e [|f [|g [|x t]]]]]]]]; cbn in H; try lia.
  eexists. reflexivity.
Qed.

(* ---- daylight saving time ---- *)
Definition dst_ok (q : Z) (dst : N) : bool :=
  match EncodeDaylightSavingTimeToNas (tz_text q dst) with
  | Ok (l, o) => (l =? 1) && (o =? dst) &&
                 match dst_dec o with Some v => v =? dst | None => false end &&
                 eqb_bytes (DecodeDaylightSavingTime o) (if dst =? 0 then [] else [43; 48 + dst])
  | _ => false
  end.

Lemma dst_sweep : forallb (fun q => forallb (dst_ok q) dsts) zones = true.
Proof. vm_cast_no_check (@eq_refl bool true). Qed.

Lemma dst_roundtrip q dst : (-79 <= q <= 79)%Z -> dst <= 2 ->
  EncodeDaylightSavingTimeToNas (tz_text q dst) = Ok (1, dst) /\
  dst_dec dst = Some dst /\
  DecodeDaylightSavingTime dst = (if dst =? 0 then [] else [43; 48 + dst]).
Proof.
  intros Hq Hd. pose proof dst_sweep as H.
  rewrite forallb_forall in H. specialize (H q). unfold zones in H.
  specialize (H (In_zrange (-79) 159 q ltac:(lia))).
  rewrite forallb_forall in H. specialize (H dst).
  assert (Hin : In dst dsts) by (unfold dsts; cbn; lia).
  specialize (H Hin). unfold dst_ok in H.
  destruct (EncodeDaylightSavingTimeToNas (tz_text q dst)) as [[l o]| | |]; try discriminate.
  apply andb_true_iff in H as [H H4]. apply andb_true_iff in H as [H H3].
  apply andb_true_iff in H as [H1 H2].
  assert (l = 1) by lia. assert (o = dst) by lia. subst l o.
  split; [reflexivity|]. split.
  - destruct (dst_dec dst) as [v|]; [f_equal; lia|discriminate].
  - apply eqb_bytes_spec. exact H4.
Qed.

(* ---- semi-octet BCD fields ---- *)
Definition field_ok (v : Z) : bool :=
  (unsemi (semi_bcd v) =? v)%Z &&
  match semi_dec (semi_bcd v) with Some w => Z.of_N w =? v | None => false end%Z.

Lemma field_sweep : forallb field_ok (zrange 0 100) = true.
Proof. vm_cast_no_check (@eq_refl bool true). Qed.

Lemma field_roundtrip v : (0 <= v <= 99)%Z ->
  unsemi (semi_bcd v) = v /\ semi_dec (semi_bcd v) = Some (Z.to_N v).
Proof.
  intro Hv. pose proof field_sweep as H. rewrite forallb_forall in H.
  specialize (H v (In_zrange 0 100 v ltac:(lia))). unfold field_ok in H.
  apply andb_true_iff in H as [H1 H2]. split; [lia|].
  destruct (semi_dec (semi_bcd v)) as [w|]; [f_equal; lia|discriminate].
Qed.

(* ---- the zone a time.Time carries: offset 900 q', daylight saving flag ---- *)
Definition gtz_ok (q : Z) (dst : bool) : bool :=
  eqb_bytes (GetTimeZone (mkgotime 2000 1 1 0 0 0 (900 * q) dst))
            (if dst then tz_text (q - 4) 1 else tz_text q 0).

Lemma gtz_sweep : forallb (fun q => gtz_ok q false && gtz_ok q true) (zrange (-79) 163) = true.
Proof. vm_cast_no_check (@eq_refl bool true). Qed.

Lemma GetTimeZone_fields t :
  GetTimeZone t = GetTimeZone (mkgotime 2000 1 1 0 0 0 (zoff t) (isdst t)).
Proof. reflexivity. Qed.

Lemma GetTimeZone_text t q : zoff t = (900 * q)%Z -> (-79 <= q <= 83)%Z ->
  GetTimeZone t = if isdst t then tz_text (q - 4) 1 else tz_text q 0.
Proof.
  intros Hz Hq. rewrite GetTimeZone_fields, Hz. pose proof gtz_sweep as H.
  rewrite forallb_forall in H. specialize (H q (In_zrange (-79) 163 q ltac:(lia))).
  apply andb_true_iff in H as [H1 H2]. unfold gtz_ok in *.
  destruct (isdst t); apply eqb_bytes_spec; assumption.
Qed.

(* ---- universal time and local time zone ---- *)
Definition civil_ok (t : gotime) : Prop :=
  (2000 <= t_year t <= 2099 /\ 1 <= t_month t <= 12 /\ 1 <= t_day t <= 31 /\
   0 <= t_hour t <= 23 /\ 0 <= t_minute t <= 59 /\ 0 <= t_second t <= 59)%Z.

(* zone on the quarter-hour grid, total offset (adjustment included) 900 q *)
Definition zone_ok (t : gotime) (q : Z) : Prop :=
  zoff t = (900 * q)%Z /\ (-79 <= q <= 79)%Z /\
  (* with the daylight-saving flag set the code writes the zone as (q - 4) "+1":
     that zone must itself be one of the 159 (q - 4 >= -79) *)
  (isdst t = true -> (-75 <= q)%Z).

Lemma year_rem y : (2000 <= y <= 2099)%Z -> (0 <= Z.rem y 100 <= 99 /\ 2000 + Z.rem y 100 = y)%Z.
Proof. intro. lia. Qed.

Lemma timestamp_roundtrip t q : civil_ok t -> zone_ok t q ->
  exists o, EncodeUniversalTimeAndLocalTimeZoneToNas t = Ok o /\ length o = 7%nat /\
    DecodeUniversalTimeAndLocalTimeZone o =
      Ok (mkgotime (t_year t) (t_month t) (t_day t) (t_hour t) (t_minute t) (t_second t) (zoff t) false) /\
    (* and by the standard's reading of the seven octets *)
    map semi_dec (firstn 6 o) =
      map (fun v => Some (Z.to_N v))
          [Z.rem (t_year t) 100; t_month t; t_day t; t_hour t; t_minute t; t_second t] /\
    option_map (Z.mul 900) (tz_dec (nth 6 o 0)) = Some (zoff t).
Proof.
  intros (Hy & Hmo & Hd & Hh & Hmi & Hs) (Hz & Hq & Hf).
  unfold EncodeUniversalTimeAndLocalTimeZoneToNas.
  rewrite (GetTimeZone_text t q Hz) by lia.
  assert (Htz : exists o, EncodeLocalTimeZoneToNas (if isdst t then tz_text (q - 4) 1 else tz_text q 0) = Ok o /\
                          tz_dec o = Some q /\ getTimeZoneOffset o = (900 * q)%Z).
  { destruct (isdst t) eqn:Ed.
    - specialize (Hf eq_refl). destruct (tz_full (q - 4) 1) as (o & H1 & H2 & H3 & _); try lia.
      + exists o. split; [exact H1|]. split; [rewrite H2; f_equal; lia|lia].
    - destruct (tz_full q 0) as (o & H1 & H2 & H3 & _); try lia.
      exists o. split; [exact H1|]. split; [rewrite H2; f_equal; lia|lia]. }
  destruct Htz as (o & Ho & Hdec & Hoff).
  unfold EncodeLocalTimeZoneToNas in Ho.
  destruct (parseTimeZoneToNas _) as [z| | |]; try discriminate.
  cbn [obind] in *. inversion Ho; subst o. clear Ho.
  eexists. split; [reflexivity|]. split; [reflexivity|].
  destruct (year_rem _ Hy) as [Hyr Hy2].
  split; [|split].
  - cbn [DecodeUniversalTimeAndLocalTimeZone idx nth_error obind].
    destruct (field_roundtrip _ Hyr) as [-> _].
    destruct (field_roundtrip (t_month t) ltac:(lia)) as [-> _].
    destruct (field_roundtrip (t_day t) ltac:(lia)) as [-> _].
    destruct (field_roundtrip (t_hour t) ltac:(lia)) as [-> _].
    destruct (field_roundtrip (t_minute t) ltac:(lia)) as [-> _].
    destruct (field_roundtrip (t_second t) ltac:(lia)) as [-> _].
    rewrite Hoff, Hy2, Hz. reflexivity.
  - cbn [firstn map].
    destruct (field_roundtrip _ Hyr) as [_ ->].
    destruct (field_roundtrip (t_month t) ltac:(lia)) as [_ ->].
    destruct (field_roundtrip (t_day t) ltac:(lia)) as [_ ->].
    destruct (field_roundtrip (t_hour t) ltac:(lia)) as [_ ->].
    destruct (field_roundtrip (t_minute t) ltac:(lia)) as [_ ->].
    destruct (field_roundtrip (t_second t) ltac:(lia)) as [_ ->].
    reflexivity.
  - cbn [nth]. rewrite Hdec. cbn [option_map]. rewrite Hz. reflexivity.
Qed.

(* formerly F14: a zone +00:30 in daylight saving time *)
Lemma timestamp_former_F14 :
  EncodeUniversalTimeAndLocalTimeZoneToNas (mkgotime 2023 7 1 12 0 0 1800 true) =
    Ok [50; 112; 16; 33; 0; 0; 32] /\ tz_dec 32 = Some 2%Z.
Proof. split; reflexivity. Qed.
