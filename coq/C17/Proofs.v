(* C17: all lemmas (timers, session AMBR, time, network names) *)
From NV Require Export C17.Spec C17.Proofs_timer C17.Proofs_ambr C17.Proofs_time C17.Proofs_name.
