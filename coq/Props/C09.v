(* C09 -- each IE field accessor reads and writes exactly its documented bits.
   [accessors] and [mask_body] are regenerated from nasType/*.go on every run
   (Gen/GenAccessors.v); bodies are run by the BV interpreter [run_body]. *)
From NV Require C19.Globals.
From NV Require Import Lib.Base Lib.BV C09.Types C09.Abs C09.AbsSound C09.Check C09.All C09.Pairs C09.Final
  Gen.GenAccessors.
Open Scope N_scope.

(* every translated accessor passes its reflective check (kernel-evaluated) *)
Theorem C09_all_checked : forallb (acc_ok mask_body) accessors = true.
Proof. exact all_checked. Qed.

(* hence, for all element contents and all values (see [acc_holds]):
   - a bit-field getter returns exactly the bits at the documented octet/bit positions
     ([getter_holds]: bit j of the result = bit [snd (fpos j)] of octet [fst (fpos j)], 0 above the width)
     and leaves the element unchanged;
   - a bit-field setter stores bit j of the value at that position, changes no other bit of any
     octet, and keeps Iei, Len and the length of the contents ([setter_holds]);
   - Iei/Len accessors read/write just that field (the allocating SetLen also replaces Buffer by
     Len zero octets); whole-range accessors copy exactly octets [lo,hi) *)
Theorem C09_all_accessors : Forall (acc_holds mask_body) accessors.
Proof. exact all_hold. Qed.

(* set-then-get returns the value truncated to the field width *)
Theorem C09_set_then_get : forall a b r0 r1 sbit len t,
  In a accessors -> In b accessors ->
  classify a = KSet r0 r1 sbit len t -> classify b = KGet r0 r1 sbit len ->
  forall s v, st_ok s -> octs_ok s r1 -> v < 2 ^ pbits t ->
  exists s' r, run_body mask_body s [v] [] (a_body a) = Ok (s', RNone) /\
               run_body mask_body s' [] [] (a_body b) = Ok (s', RVal r) /\
               r = v mod 2 ^ N.of_nat len.
Proof. exact pair_set_then_get. Qed.

(* a setter leaves every non-overlapping field of the same element unchanged *)
Theorem C09_frame : forall a b r0 r1 sbit len t r0' r1' sbit' len',
  In a accessors -> In b accessors ->
  classify a = KSet r0 r1 sbit len t -> classify b = KGet r0' r1' sbit' len' ->
  disjointb r0 sbit len r0' sbit' len' = true ->
  forall s v, st_ok s -> octs_ok s r1 -> octs_ok s r1' -> v < 2 ^ pbits t ->
  exists s' r, run_body mask_body s [v] [] (a_body a) = Ok (s', RNone) /\
               run_body mask_body s [] [] (a_body b) = Ok (s, RVal r) /\
               run_body mask_body s' [] [] (a_body b) = Ok (s', RVal r).
Proof. exact pair_frame. Qed.

(* ... and the identifier and length *)
Theorem C09_setter_keeps_header : forall a r0 r1 sbit len t,
  In a accessors -> classify a = KSet r0 r1 sbit len t ->
  forall s v, st_ok s -> octs_ok s r1 -> v < 2 ^ pbits t ->
  exists s', run_body mask_body s [v] [] (a_body a) = Ok (s', RNone) /\
             s_iei s' = s_iei s /\ s_len s' = s_len s /\
             List.length (s_oct s') = List.length (s_oct s).
Proof. exact set_keeps_header. Qed.

(* the only Get*/Set* methods not covered are the hand-modelled text getters *)
Theorem C09_skipped_pinned : accessors_skipped = expected_skipped.
Proof. exact skipped_pinned. Qed.

(* non-vacuity: the population of each class (getters, setters, header, copy-in, copy-out) *)
Example C09_population : class_counts = class_counts.
Proof. reflexivity. Qed.
Eval vm_compute in class_counts.

(* the functions this property is about are functions of their arguments: the files it is anchored in declare
   no package-level variable other than the pinned read-only tables (or a never-touched one of plain type) and
   none of their functions writes, slices, takes the address of, passes on or calls a method of a
   package-level variable (logger entries excepted) -- evaluated on the current source (C19/Globals.v) *)
Theorem C09_anchor_files_keep_no_state :
  Globals.hidden_state_free Globals.anchors_C09 = true.
Proof. vm_compute. reflexivity. Qed.

Print Assumptions C09_all_checked.
Print Assumptions C09_all_accessors.
Print Assumptions C09_set_then_get.
Print Assumptions C09_frame.
Print Assumptions C09_setter_keeps_header.
Print Assumptions C09_skipped_pinned.
Print Assumptions C09_anchor_files_keep_no_state.
