(* CS3G -- SNOW 3G / NEA1 / NIA1 (part of C06, C07, C08); placeholder while the proofs are built *)
From NV Require Import Lib.Base CS3G.Model CS3G.Proofs.
Open Scope N_scope.

Theorem CS3G_model_test_set_1 :
  Snow3g.GetKeyStream [0x2bd6459f; 0x82c5b300; 0x952c4910; 0x4881ff48]
                      [0xea024714; 0xad5c4d84; 0xdf1f9b25; 0x1c0bf45f] 2
  = Ok [0xabee9704; 0x7ac31373].
Proof. exact model_snow3g_test_set_1. Qed.
Print Assumptions CS3G_model_test_set_1.
