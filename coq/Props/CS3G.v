(* CS3G -- SNOW 3G, 128-NEA1 (= UEA2 / 128-EEA1) and 128-NIA1 (= UIA2 / 128-EIA1): the algorithm-identity-1
   part of properties C06, C07 and C08.

   Model:  coq/CS3G/Model.v  -- hand-written, statement by statement, from security/snow3g/snow3g.go
           and NEA1 / NIA1 (+ mulx, mulxPow, mul) of security/security.go; Go uint8/32/64 wrap-around,
           bounds-checked indexing (Panic) and loops explicit.
   Spec:   coq/CS3G/Spec.v   -- ETSI/SAGE "UEA2 & UIA2" Documents 1 and 2 with the TS 33.401 Annex B /
           TS 33.501 Annex D parameter mapping, written independently of the code, S-boxes pinned and
           checked against their algebraic definitions, validated by the published test sets.
   Bit strings: bit 0 is the most significant bit of octet 0 (Spec.octets_bits).

   Domain bounds that appear below and come from the Go types:
     8*len(payload) < 2^32 - 31   (NEA1's bit length is a uint32 and NEA1 computes length+31;
                                   see CS3G_api_length_wrap_observation for what happens at 2^29 octets)
     len(msg) < 2^60              (NIA1's bit length is a uint64 and NIA1 computes length+63). *)
From NV Require Import Lib.Base CS3G.Model CS3G.Spec CS3G.Proofs.
Open Scope N_scope.

(* ---- C06: SNOW 3G ------------------------------------------------------------------------- *)
(* snow3g.GetKeyStream(k, iv, n) is the specification's keystream z_1..z_n, for all 32-bit key and
   IV words and every n (in particular it never panics) *)
Theorem CS3G_keystream_eq_spec : forall K IV n,
  length K = 4%nat -> length IV = 4%nat ->
  Forall (fun w => w < 2 ^ 32) K -> Forall (fun w => w < 2 ^ 32) IV ->
  Snow3g.GetKeyStream K IV n = Ok (Spec.keystream K IV (N.to_nat n)).
Proof. exact GetKeyStream_eq_spec. Qed.

(* the first n keystream words do not depend on how many are requested *)
Theorem CS3G_keystream_prefix : forall K IV n m,
  Spec.keystream K IV n = firstn n (Spec.keystream K IV (n + m)).
Proof. exact keystream_prefix. Qed.

Theorem CS3G_getkeystream_prefix : forall K IV n m a b,
  length K = 4%nat -> length IV = 4%nat ->
  Forall (fun w => w < 2 ^ 32) K -> Forall (fun w => w < 2 ^ 32) IV ->
  Snow3g.GetKeyStream K IV n = Ok a -> Snow3g.GetKeyStream K IV (n + m) = Ok b ->
  a = firstn (N.to_nat n) b.
Proof. exact final_getkeystream_prefix. Qed.

(* ---- C06: NEA1 = UEA2 for every bit length ------------------------------------------------ *)
(* for every key, COUNT, BEARER < 32, DIRECTION < 2, input and bit length <= 8*len(ibs): NEA1 returns
   an output of the input's length whose first `length` bits are the standard's output for the
   first `length` input bits *)
Theorem CS3G_nea1_eq_uea2 : forall ck count bearer direction ibs length,
  List.length ck = 16%nat -> bytes_ok ck -> count < 2 ^ 32 -> bearer < 32 -> direction < 2 ->
  length <= 8 * N.of_nat (List.length ibs) -> 8 * N.of_nat (List.length ibs) < 2 ^ 32 - 31 ->
  exists obs,
    NEA1 ck count bearer direction ibs length = Ok obs /\
    List.length obs = List.length ibs /\
    firstn (N.to_nat length) (Spec.octets_bits obs)
    = Spec.EEA1 ck count bearer direction (firstn (N.to_nat length) (Spec.octets_bits ibs)).
Proof. exact final_nea1_eq_uea2. Qed.

(* beyond `length` (outside the standard): the remaining bits of the last partial octet are the
   input's bits, all later octets are zero *)
Theorem CS3G_nea1_beyond_length_observation : forall ck count bearer direction ibs length obs,
  List.length ck = 16%nat -> bytes_ok ck -> count < 2 ^ 32 -> bearer < 32 -> direction < 2 ->
  length <= 8 * N.of_nat (List.length ibs) -> 8 * N.of_nat (List.length ibs) < 2 ^ 32 - 31 ->
  NEA1 ck count bearer direction ibs length = Ok obs ->
  (forall i, length <= N.of_nat i -> (i < 8 * N.to_nat ((length + 7) / 8))%nat ->
             nth i (Spec.octets_bits obs) false = nth i (Spec.octets_bits ibs) false) /\
  (forall p, (N.to_nat ((length + 7) / 8) <= p)%nat -> nth p obs 0 = 0).
Proof. exact final_nea1_beyond_length_observation. Qed.

(* the in-place byte-length API with algorithm identity 1 is NEA1 with length = 8*len(payload) *)
Theorem CS3G_nasencrypt_alg1 : forall key count bearer direction payload,
  length key = 16%nat -> bytes_ok key -> count < 2 ^ 32 -> bearer < 32 -> direction < 2 ->
  8 * N.of_nat (length payload) < 2 ^ 32 - 31 ->
  NASEncrypt_alg1 key count bearer direction payload
  = NEA1 key count bearer direction payload (8 * N.of_nat (length payload)).
Proof. exact final_nasencrypt_alg1. Qed.

(* ... hence the API output is the standard's output on all 8*len(payload) bits *)
Theorem CS3G_nasencrypt_alg1_eq_uea2 : forall key count bearer direction payload,
  length key = 16%nat -> bytes_ok key -> count < 2 ^ 32 -> bearer < 32 -> direction < 2 ->
  8 * N.of_nat (length payload) < 2 ^ 32 - 31 ->
  exists c,
    NASEncrypt_alg1 key count bearer direction payload = Ok c /\ length c = length payload /\
    Spec.octets_bits c = Spec.EEA1 key count bearer direction (Spec.octets_bits payload).
Proof. exact final_nasencrypt_alg1_eq_uea2. Qed.

(* ---- C07: NIA1 = UIA2 with FRESH = BEARER || 0^27, every message bit length including 0 ------- *)
(* an N-bit message is given as octets whose bits beyond N are zero *)
Theorem CS3G_nia1_eq_uia2 : forall ik count bearer direction msg length,
  List.length ik = 16%nat -> bytes_ok ik -> bytes_ok msg -> count < 2 ^ 32 -> bearer < 32 -> direction < 2 ->
  length <= 8 * N.of_nat (List.length msg) -> N.of_nat (List.length msg) < 2 ^ 60 ->
  (forall k, length <= N.of_nat k -> nth k (Spec.octets_bits msg) false = false) ->
  NIA1 ik count bearer direction msg length
  = Ok (Spec.mac_octets (Spec.EIA1 ik count bearer direction (firstn (N.to_nat length) (Spec.octets_bits msg)))).
Proof. exact final_nia1_eq_uia2. Qed.

(* the byte-length API with algorithm identity 1 *)
Theorem CS3G_nasmac_alg1 : forall ik count bearer direction msg,
  length ik = 16%nat -> bytes_ok ik -> bytes_ok msg -> count < 2 ^ 32 -> bearer < 32 -> direction < 2 ->
  N.of_nat (length msg) < 2 ^ 60 ->
  NASMacCalculate_alg1 ik count bearer direction msg
  = Ok (Spec.mac_octets (Spec.EIA1 ik count bearer direction (Spec.octets_bits msg))).
Proof. exact final_nasmac_alg1. Qed.

(* ---- C08 (algorithm identity 1): laws of ciphering with length = 8*len(payload) ------------ *)
Theorem CS3G_nea1_length : forall ck count bearer direction p,
  length ck = 16%nat -> bytes_ok ck -> count < 2 ^ 32 -> bearer < 32 -> direction < 2 ->
  8 * N.of_nat (length p) < 2 ^ 32 - 31 ->
  exists c, NEA1 ck count bearer direction p (8 * N.of_nat (length p)) = Ok c /\ length c = length p.
Proof. exact final_nea1_length. Qed.

Theorem CS3G_nea1_involution : forall ck count bearer direction p c,
  length ck = 16%nat -> bytes_ok ck -> count < 2 ^ 32 -> bearer < 32 -> direction < 2 ->
  8 * N.of_nat (length p) < 2 ^ 32 - 31 ->
  NEA1 ck count bearer direction p (8 * N.of_nat (length p)) = Ok c ->
  NEA1 ck count bearer direction c (8 * N.of_nat (length c)) = Ok p.
Proof. exact final_nea1_involution. Qed.

Theorem CS3G_nea1_prefix : forall ck count bearer direction p c n,
  length ck = 16%nat -> bytes_ok ck -> count < 2 ^ 32 -> bearer < 32 -> direction < 2 ->
  8 * N.of_nat (length p) < 2 ^ 32 - 31 -> (n <= length p)%nat ->
  NEA1 ck count bearer direction p (8 * N.of_nat (length p)) = Ok c ->
  NEA1 ck count bearer direction (firstn n p) (8 * N.of_nat (length (firstn n p))) = Ok (firstn n c).
Proof. exact final_nea1_prefix. Qed.

(* ciphertext xor plaintext is the same for all plaintexts of the same length *)
Theorem CS3G_nea1_keystream_indep : forall ck count bearer direction p q c d,
  length ck = 16%nat -> bytes_ok ck -> count < 2 ^ 32 -> bearer < 32 -> direction < 2 ->
  8 * N.of_nat (length p) < 2 ^ 32 - 31 -> length q = length p ->
  NEA1 ck count bearer direction p (8 * N.of_nat (length p)) = Ok c ->
  NEA1 ck count bearer direction q (8 * N.of_nat (length q)) = Ok d ->
  xor_octets c p = xor_octets d q.
Proof. exact final_nea1_keystream_indep. Qed.

(* no panic / hang: the per-algorithm functions on their domain (every bit length, also 0), and the API
   entry points with algorithm identity 1 for EVERY bearer and direction octet and every payload
   (also empty): Ok or Err, never Panic *)
Theorem CS3G_total : forall key count bearer direction data length,
  List.length key = 16%nat -> bytes_ok key -> bytes_ok data -> count < 2 ^ 32 ->
  8 * N.of_nat (List.length data) < 2 ^ 32 - 31 ->
  is_total (NASEncrypt_alg1 key count bearer direction data) /\
  is_total (NASMacCalculate_alg1 key count bearer direction data) /\
  (bearer < 32 -> direction < 2 -> length <= 8 * N.of_nat (List.length data) ->
     is_total (NEA1 key count bearer direction data length) /\
     ((forall k, length <= N.of_nat k -> nth k (Spec.octets_bits data) false = false) ->
      is_total (NIA1 key count bearer direction data length))).
Proof. exact final_total. Qed.

Theorem CS3G_keystream_total : forall K IV n,
  length K = 4%nat -> length IV = 4%nat ->
  Forall (fun w => w < 2 ^ 32) K -> Forall (fun w => w < 2 ^ 32) IV ->
  is_total (Snow3g.GetKeyStream K IV n).
Proof. exact total_keystream. Qed.

(* the MAC is exactly 4 octets *)
Theorem CS3G_mac_len4 : forall ik count bearer direction msg length,
  List.length ik = 16%nat -> bytes_ok ik -> bytes_ok msg -> count < 2 ^ 32 -> bearer < 32 -> direction < 2 ->
  length <= 8 * N.of_nat (List.length msg) -> N.of_nat (List.length msg) < 2 ^ 60 ->
  (forall k, length <= N.of_nat k -> nth k (Spec.octets_bits msg) false = false) ->
  exists mac, NIA1 ik count bearer direction msg length = Ok mac /\ List.length mac = 4%nat.
Proof. exact final_mac_len4. Qed.

(* key and message are not modified: NEA1 / NIA1 / the wrappers are functions of their arguments that
   return a new value (functional model); on the implementation this is checked by the harness. *)

(* ---- observations outside the domain ------------------------------------------------------- *)
(* exactly 2^29 octets through the API: 8*len wraps to 0 in uint32 and the payload is overwritten
   with zeros (NEA1 with bit length 0) instead of being enciphered *)
Theorem CS3G_api_length_wrap_observation : forall key count bearer direction payload,
  length key = 16%nat -> bytes_ok key -> count < 2 ^ 32 -> bearer < 32 -> direction < 2 ->
  N.of_nat (length payload) = 536870912 ->
  NASEncrypt_alg1 key count bearer direction payload = Ok (repeat 0 (length payload)).
Proof. exact api_length_wrap_observation. Qed.

(* NIA1 does not mask pad bits: garbage there changes the MAC (the standard's input is the N-bit message) *)
Theorem CS3G_nia1_padbits_observation :
  let key := [0x2b; 0xd6; 0x45; 0x9f; 0x82; 0xc5; 0xb3; 0x00; 0x95; 0x2c; 0x49; 0x10; 0x48; 0x81; 0xff; 0x48] in
  NIA1 key 0x38a6f056 0x1f 0 [0xA0] 4 = Ok (Spec.mac_octets (Spec.EIA1 key 0x38a6f056 0x1f 0 [true; false; true; false])) /\
  NIA1 key 0x38a6f056 0x1f 0 [0xAF] 4 <> NIA1 key 0x38a6f056 0x1f 0 [0xA0] 4.
Proof. exact nia1_padbits_observation. Qed.

(* ---- non-vacuity: the hypotheses hold on published test data, and the conclusions compute ---- *)
Example CS3G_example_keystream :
  Snow3g.GetKeyStream [0x2bd6459f; 0x82c5b300; 0x952c4910; 0x4881ff48]
                      [0xea024714; 0xad5c4d84; 0xdf1f9b25; 0x1c0bf45f] 2
  = Ok [0xabee9704; 0x7ac31373].
Proof. exact model_snow3g_test_set_1. Qed.

Example CS3G_example_nea1 :
  let ck := [0x5a; 0xcb; 0x1d; 0x64; 0x4c; 0x0d; 0x51; 0x20; 0x4e; 0xa5; 0xf1; 0x45; 0x10; 0x10; 0xd8; 0x52] in
  let p := [0xad; 0x9c; 0x44; 0x1f; 0x89; 0x0b; 0x38; 0xc4; 0x57; 0xa4; 0x9d; 0x42; 0x14; 0x07; 0xe8] in
  let c := [0xba; 0x0f; 0x31; 0x30; 0x03; 0x34; 0xc5; 0x6b; 0x52; 0xa7; 0x49; 0x7c; 0xba; 0xc0; 0x46] in
  nea1_domain8 ck 0xfa556b26 3 1 p /\
  NEA1 ck 0xfa556b26 3 1 p 120 = Ok c /\ NEA1 ck 0xfa556b26 3 1 c 120 = Ok p /\
  NASEncrypt_alg1 ck 0xfa556b26 3 1 p = Ok c.
Proof. exact model_eea1_test_set_3. Qed.

Example CS3G_example_nia1 :
  let m := [0x33; 0x32; 0x34; 0x62; 0x63; 0x39; 0x38; 0x61; 0x37; 0x34; 0x79] in
  nia1_domain8 key1 0x38a6f056 0x1f 0 m /\
  NIA1 key1 0x38a6f056 0x1f 0 m 88 = Ok [0x73; 0x1f; 0x11; 0x65] /\
  NASMacCalculate_alg1 key1 0x38a6f056 0x1f 0 m = Ok [0x73; 0x1f; 0x11; 0x65] /\
  exists mac, NIA1 key1 0x38a6f056 0x1f 0 [] 0 = Ok mac /\ length mac = 4%nat.
Proof. exact model_eia1_test_set_1. Qed.

(* domains with a bit length that is not a multiple of 8 are inhabited *)
Example CS3G_example_bit_domains :
  nea1_domain key1 0x72a4f20f 0x0c 1 [0x7e; 0xc6; 0x12; 0x72; 0x74] 37 /\
  nia1_domain key1 0x36af6144 0x18 1 [0xb3; 0xd3; 0xc9; 0x14] 30.
Proof. split; [exact nea1_domain_bit_example | exact nia1_domain_bit_example]. Qed.

Print Assumptions CS3G_keystream_eq_spec.
Print Assumptions CS3G_keystream_prefix.
Print Assumptions CS3G_getkeystream_prefix.
Print Assumptions CS3G_nea1_eq_uea2.
Print Assumptions CS3G_nea1_beyond_length_observation.
Print Assumptions CS3G_nasencrypt_alg1.
Print Assumptions CS3G_nasencrypt_alg1_eq_uea2.
Print Assumptions CS3G_nia1_eq_uia2.
Print Assumptions CS3G_nasmac_alg1.
Print Assumptions CS3G_nea1_length.
Print Assumptions CS3G_nea1_involution.
Print Assumptions CS3G_nea1_prefix.
Print Assumptions CS3G_nea1_keystream_indep.
Print Assumptions CS3G_total.
Print Assumptions CS3G_keystream_total.
Print Assumptions CS3G_mac_len4.
Print Assumptions CS3G_api_length_wrap_observation.
Print Assumptions CS3G_nia1_padbits_observation.
