(* C19 -- the library is safe for concurrent use on independent values (PARTIAL: see DESIGN.md).
   What is proved: (1) for any number of threads whose actions write only thread-private locations
   and otherwise read only never-written shared locations, every complete interleaving gives each
   thread exactly what it computes alone and leaves the shared locations unchanged
   (C19_interleaving, C19_schedule_independent); (2) the current source keeps no package-level
   state that is written, address-taken, sliced or passed on outside init: the only globals are the
   constant cipher tables and the logrus entries (C19_no_global_writes, re-translated every run).
   What is NOT modelled: the Go memory model, the scheduler, logrus; sharing introduced through
   pointers inside API values -- those are exercised by the race-detector harness. *)
From NV Require Import Lib.Base C19.Types C19.Conc C19.Globals Gen.GenGlobals.
From Coq Require Import List.

Theorem C19_interleaving : forall (loc val : Type) (owns : nat -> loc -> Prop),
  (forall i j l, owns i l -> owns j l -> i = j) ->
  forall sched ts h h' ts',
    all_ok loc val owns ts -> run_sched loc val sched ts h = (h', ts') -> complete loc val ts' ->
    (forall i l, owns i l -> h' l = run_alone loc val (remaining loc val ts i) h l) /\
    (forall l, shared loc owns l -> h' l = h l).
Proof. exact interleaving_equals_alone. Qed.

Theorem C19_schedule_independent : forall (loc val : Type) (owns : nat -> loc -> Prop),
  (forall i j l, owns i l -> owns j l -> i = j) ->
  forall s1 s2 ts h h1 t1 h2 t2,
    all_ok loc val owns ts -> run_sched loc val s1 ts h = (h1, t1) -> complete loc val t1 ->
    run_sched loc val s2 ts h = (h2, t2) -> complete loc val t2 ->
    forall l, (exists i, owns i l) \/ shared loc owns l -> h1 l = h2 l.
Proof. exact schedule_independent. Qed.

(* non-vacuity: a concrete two-thread program (each thread adds the shared cell 2 to its own cell) meets the
   ownership and footprint hypotheses, and its three complete schedules all end in the same heap *)
Example C19_example :
  (forall i j l : nat, ex_owns i l -> ex_owns j l -> i = j) /\
  all_ok nat nat ex_owns ex_threads /\
  (forall sched, In sched [[1; 0; 0]; [0; 0; 1]; [0; 1; 0]]%nat ->
     complete nat nat (snd (run_sched nat nat sched ex_threads ex_heap)) /\
     fst (run_sched nat nat sched ex_threads ex_heap) 0%nat = 10%nat /\
     fst (run_sched nat nat sched ex_threads ex_heap) 1%nat = 5%nat /\
     fst (run_sched nat nat sched ex_threads ex_heap) 2%nat = 5%nat).
Proof. exact conc_example_full. Qed.

Theorem C19_no_global_writes : globals_ok = true.
Proof. vm_compute. reflexivity. Qed.

Print Assumptions C19_interleaving.
Print Assumptions C19_schedule_independent.
Print Assumptions C19_no_global_writes.
