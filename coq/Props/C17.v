(* C17 -- timers, bit rates, time zones and network names encode faithfully.
   Statements are about the hand-written model C17/Model.v of nasConvert/
   GPRSTimer2.go, GPRSTimer3.go, SessionAMBR.go, Time.go, NetWorkName.go (tied
   to the Go code by the correspondence run of harness/cmd/c17); the decoders
   dec2, dec3, tz_dec, semi_dec, dst_dec, unpack7 and the table ambr_code are
   C17/Spec.v, written from TS 24.008 / TS 24.501 / TS 23.040 / TS 23.038. *)
From NV Require C19.Globals.
From NV Require Import Lib.Base C17.Model C17.Spec C17.Proofs.
Open Scope N_scope.

(* ------------------------------------------------------------ GPRS timer 2 *)
(* every duration with an exact code (2 s, 1 min, 6 min times 0..31) decodes to itself *)
Theorem C17_timer2_exact : forall d, representable2 d ->
  dec2 (GPRSTimer2ToNas (Z.of_N d)) = Some d.
Proof. exact timer2_exact. Qed.

(* no encoded timer decodes to more than was requested; this holds for every
   d >= 0, in particular on the representable range 0..11 160 s; the result is
   never "deactivated" *)
Theorem C17_timer2_no_overshoot : forall d : Z, (0 <= d)%Z ->
  exists v, dec2 (GPRSTimer2ToNas d) = Some v /\ (Z.of_N v <= d)%Z.
Proof. exact timer2_no_overshoot. Qed.

(* above 11 160 s nothing is representable; the code silently yields a smaller timer *)
Theorem C17_timer2_above_range : forall d : Z, (11160 < d)%Z ->
  exists v, dec2 (GPRSTimer2ToNas d) = Some v /\ (Z.of_N v <= 11160)%Z.
Proof. exact timer2_above. Qed.

Example C17_timer2_ex :
  representable2 2160 /\ GPRSTimer2ToNas 2160 = 70 /\ dec2 70 = Some 2160 /\
  GPRSTimer2ToNas 64 = 32 /\ dec2 32 = Some 0 /\ GPRSTimer2ToNas 1919 = 63 /\ dec2 63 = Some 1860.
Proof. split; [exists 6; lia|repeat split; reflexivity]. Qed.

(* ------------------------------------------------------------ GPRS timer 3 *)
Theorem C17_timer3_exact : forall d, representable3 d ->
  dec3 (GPRSTimer3ToNas (Z.of_N d)) = Some d.
Proof. exact timer3_exact. Qed.

Theorem C17_timer3_no_overshoot : forall d : Z, (0 <= d <= 1116000)%Z ->
  exists v, dec3 (GPRSTimer3ToNas d) = Some v /\ (Z.of_N v <= d)%Z.
Proof. exact timer3_no_overshoot. Qed.

(* above 1 116 000 s (outside the property's range) the value overflows into the
   unit bits: octet = (0x40 + (d / 36000) mod 256) mod 256.  E.g. 320 h, which
   unit 110 could represent, is coded as 0 s, and 1330 h as 5 x 320 h = 1600 h. *)
Theorem C17_timer3_above_range : forall d : Z, (1116000 < d)%Z ->
  GPRSTimer3ToNas d = (64 + Z.to_N ((d / 36000) mod 256)) mod 256.
Proof. exact timer3_above. Qed.

Example C17_timer3_above_range_ex :
  dec3 (GPRSTimer3ToNas 1152000) = Some 0 /\ dec3 (GPRSTimer3ToNas 4788000) = Some 5760000.
Proof. exact timer3_above_examples. Qed.

Example C17_timer3_ex :
  representable3 18000 /\ GPRSTimer3ToNas 18000 = 30 /\ dec3 30 = Some 18000 /\
  GPRSTimer3ToNas 1116000 = 95 /\ dec3 95 = Some 1116000 /\ GPRSTimer3ToNas 931 = 175 /\ dec3 175 = Some 900.
Proof. split; [exists 30; lia|repeat split; reflexivity]. Qed.

(* ------------------------------------------------------------ session AMBR *)
(* "<int> <unit>" per direction, the integer in canonical decimal: the three
   octets per direction are [unit code of Table 9.11.4.14.1; v / 256; v mod 256];
   Octet = downlink unit, downlink value, uplink unit, uplink value *)
Theorem C17_ambr : forall vu uu vd ud, vu < 65536 -> vd < 65536 ->
  ModelsToSessionAMBR (dec_digits vu ++ 32 :: ambr_text uu) (dec_digits vd ++ 32 :: ambr_text ud) =
  Ok [ambr_code ud; vd / 256; vd mod 256; ambr_code uu; vu / 256; vu mod 256].
Proof. exact ambr_canonical. Qed.

(* the same for any decimal numeral (leading zeros allowed) *)
Theorem C17_ambr_digits : forall du uu dd ud,
  digits_ok du -> du <> [] -> digits_val du < 65536 ->
  digits_ok dd -> dd <> [] -> digits_val dd < 65536 ->
  ModelsToSessionAMBR (digits_text du ++ 32 :: ambr_text uu) (digits_text dd ++ 32 :: ambr_text ud) =
  Ok [ambr_code ud; digits_val dd / 256; digits_val dd mod 256;
      ambr_code uu; digits_val du / 256; digits_val du mod 256].
Proof. exact ambr_digits. Qed.

(* the table's codes are the nasMessage constants the code uses *)
Theorem C17_ambr_codes :
  ambr_code Kbps = SessionAMBRUnit1Kbps /\ ambr_code Mbps = SessionAMBRUnit1Mbps /\
  ambr_code Gbps = SessionAMBRUnit1Gbps /\ ambr_code Tbps = SessionAMBRUnit1Tbps /\
  ambr_code Pbps = SessionAMBRUnit1Pbps.
Proof. exact ambr_codes. Qed.

Example C17_ambr_ex :
  dec_digits 40000 ++ 32 :: ambr_text Mbps = [52;48;48;48;48;32;77;98;112;115] /\
  ModelsToSessionAMBR [52;48;48;48;48;32;77;98;112;115] [55;32;71;98;112;115] = Ok [11;0;7;6;156;64].
Proof. split; reflexivity. Qed.

(* ------------------------------------------------------------ time zone *)
(* For every zone q in [-79, 79] quarter hours and adjustment dst in {0,1,2},
   written sign hh:mm[+dst] (tz_text), whose sum is within the range of the
   field (q + 4 dst <= 79, i.e. at most +19:45; the lower bound -79 always
   holds): the octet decodes (TS 23.040) to q + 4 dst quarter hours,
   getTimeZoneOffset gives 900 (q + 4 dst) seconds and DecodeLocalTimeZone gives
   the text of that zone.  (F14, the sign-flip class, was fixed by 95fc7fd.)
   The only hypothesis left is representability: the 12 of the 477 combinations
   with q + 4 dst in 80..87 have no code at all in a field of two BCD digits
   whose tens digit has three bits. *)
Theorem C17_tz : forall q dst,
  (-79 <= q <= 79)%Z -> dst <= 2 -> (q + 4 * Z.of_N dst <= 79)%Z ->
  exists o, EncodeLocalTimeZoneToNas (tz_text q dst) = Ok o /\
            tz_dec o = Some (q + 4 * Z.of_N dst)%Z /\
            getTimeZoneOffset o = (900 * (q + 4 * Z.of_N dst))%Z /\
            DecodeLocalTimeZone o = tz_text (q + 4 * Z.of_N dst) 0.
Proof. exact tz_full. Qed.

(* non-vacuity, including the former F14 witness "-00:30+1" = +00:30 -> 0x20 *)
Example C17_tz_ex :
  tz_text (-20) 1 = [45;48;53;58;48;48;43;49] (* "-05:00+1" *) /\
  EncodeLocalTimeZoneToNas (tz_text (-20) 1) = Ok 105 (* 0x69 *) /\ tz_dec 105 = Some (-16)%Z /\
  tz_text (-2) 1 = [45;48;48;58;51;48;43;49] (* "-00:30+1" *) /\
  EncodeLocalTimeZoneToNas (tz_text (-2) 1) = Ok 32 /\ tz_dec 32 = Some 2%Z /\
  getTimeZoneOffset 32 = 1800%Z.
Proof. repeat split; reflexivity. Qed.

(* what the code does beyond the range: "+19:00+1" (80 quarter hours) -> 0x08 *)
Example C17_tz_beyond_range_ex :
  EncodeLocalTimeZoneToNas (tz_text 76 1) = Ok 8 /\ tz_dec 8 = Some 0%Z.
Proof. exact tz_beyond_range_example. Qed.

(* ------------------------------------------------------------ daylight saving time *)
Theorem C17_dst : forall q dst, (-79 <= q <= 79)%Z -> dst <= 2 ->
  EncodeDaylightSavingTimeToNas (tz_text q dst) = Ok (1, dst) /\
  dst_dec dst = Some dst /\
  DecodeDaylightSavingTime dst = (if dst =? 0 then [] else [43; 48 + dst]).
Proof. exact dst_roundtrip. Qed.

(* ------------------------------------------------------------ universal time *)
(* every second-resolution instant of 2000-2099 (civil_ok: month 1..12, day
   1..31, ...) in every zone on the quarter-hour grid (zone_ok: total offset
   900 q, |q| <= 79; with the daylight-saving flag q >= -75, because the code
   then writes the zone as (q - 4) "+1" and that zone must be one of the 159):
   the seven octets decode, by the code and by the standard, to the same civil
   fields and offset *)
Theorem C17_timestamp : forall t q, civil_ok t -> zone_ok t q ->
  exists o, EncodeUniversalTimeAndLocalTimeZoneToNas t = Ok o /\ length o = 7%nat /\
    DecodeUniversalTimeAndLocalTimeZone o =
      Ok (mkgotime (t_year t) (t_month t) (t_day t) (t_hour t) (t_minute t) (t_second t) (zoff t) false) /\
    map semi_dec (firstn 6 o) =
      map (fun v => Some (Z.to_N v))
          [Z.rem (t_year t) 100; t_month t; t_day t; t_hour t; t_minute t; t_second t] /\
    option_map (Z.mul 900) (tz_dec (nth 6 o 0)) = Some (zoff t).
Proof. exact timestamp_roundtrip. Qed.

(* formerly F14: zone +00:30 in daylight saving time *)
Example C17_timestamp_dst_ex :
  let t := mkgotime 2023 7 1 12 0 0 1800 true in
  civil_ok t /\ zone_ok t 2 /\
  EncodeUniversalTimeAndLocalTimeZoneToNas t = Ok [50; 112; 16; 33; 0; 0; 32] /\ tz_dec 32 = Some 2%Z.
Proof. cbv zeta. unfold civil_ok, zone_ok. cbn. repeat split; try lia. Qed.

Example C17_timestamp_ex :
  let t := mkgotime 2023 7 13 12 27 39 28800 false in
  civil_ok t /\ zone_ok t 32 /\
  EncodeUniversalTimeAndLocalTimeZoneToNas t = Ok [50; 112; 49; 33; 114; 147; 35].
Proof. cbv zeta. unfold civil_ok, zone_ok. cbn. repeat split; try lia; discriminate. Qed.

(* ------------------------------------------------------------ network names *)
(* every name of 0..290 septets (290 septets = 254 text octets is the capacity
   of the element: Len is one octet and counts octet 3 too): Len, octet 3 = ext 1
   | coding scheme 000 | add CI 0 | spare bits (8 - 7n mod 8) mod 8, the text is
   exactly the TS 23.038 packing pack7 (ceil(7n/8) octets) and unpacks to the
   name.  (F13 was fixed by 12a658d.)  Full... and Short... are the same code. *)
Theorem C17_name : forall s, septets_ok s -> (length s <= 290)%nat ->
  exists len b0 txt, FullNetworkNameToNas s = Ok (len, b0 :: txt) /\
    ShortNetworkNameToNas s = Ok (len, b0 :: txt) /\
    b0 = 128 + spare_spec (N.of_nat (length s)) /\
    len = 1 + N.of_nat (length txt) /\
    txt = pack7 s /\ N.of_nat (length txt) = (7 * N.of_nat (length s) + 7) / 8 /\
    unpack7 txt (b0 mod 8) = s.
Proof.
  intros s Hs Hn. destruct (name_full s Hs Hn) as (len & b0 & txt & H1 & H2 & H3 & H4 & H5 & H6).
  exists len, b0, txt. repeat split; assumption.
Qed.

(* the bound is exact: 291 characters make the length octet wrap to 0 and the
   first setter panics on the empty Buffer; from 292 on the text is silently cut *)
Theorem C17_name_beyond_capacity :
  NetworkNameToNas (repeat 65 291) = Panic /\ NetworkNameToNas (repeat 65 292) = Ok (1, [132]).
Proof. exact name_beyond_capacity. Qed.

(* the specification itself is consistent for every length: packing the septets
   per TS 23.038 into ceil(7n/8) octets and unpacking them with the spare-bit
   count of TS 24.008 returns the name (pack7 is what the code should emit) *)
Theorem C17_spec_gsm7_roundtrip : forall s, septets_ok s ->
  unpack7 (pack7 s) (spare_spec (N.of_nat (length s))) = s /\
  N.of_nat (length (pack7 s)) = (7 * N.of_nat (length s) + 7) / 8.
Proof. exact spec_gsm7_roundtrip. Qed.

(* non-vacuity, with the former F13 witnesses "ABCDEFGH" and "ABCDEFGHIJ" *)
Example C17_name_ex :
  septets_ok [65;66;67;68;69;70;71;72;73;74] /\
  NetworkNameToNas [65;66;67;68;69;70;71;72] = Ok (8, [128; 65;225;144;88;52;30;145]) /\
  NetworkNameToNas [65;66;67;68;69;70;71;72;73;74] = Ok (10, [130; 65;225;144;88;52;30;145;73;37]) /\
  unpack7 [65;225;144;88;52;30;145;73;37] 2 = [65;66;67;68;69;70;71;72;73;74].
Proof. split; [repeat constructor; lia|repeat split; vm_compute; reflexivity]. Qed.

(* ------------------------------------------------------------ C14 part: decoders are total *)
(* getTimeZoneOffset, DecodeLocalTimeZone, DecodeDaylightSavingTime are total
   functions of the octet in the model (no index, no slice); on every octet they
   agree with the standard where it defines a value; DecodeUniversalTime... on
   the 7-octet array never panics *)
Theorem C17_decoders_total : forall o, o < 256 ->
  (forall q, tz_dec o = Some q ->
     getTimeZoneOffset o = (900 * q)%Z /\ DecodeLocalTimeZone o = tz_text q 0) /\
  DecodeDaylightSavingTime o =
    match dst_dec o with Some v => if v =? 0 then [] else [43; 48 + v] | None => [] end.
Proof. exact decoders_spec. Qed.

Theorem C17_decode_timestamp_total : forall o, length o = 7%nat ->
  exists t, DecodeUniversalTimeAndLocalTimeZone o = Ok t.
Proof. exact DecodeUniversalTime_total. Qed.

(* domain of the text-input encoders: shorter texts panic (not UE input) *)
Theorem C17_tz_text_domain : forall s, (length s < 6)%nat -> parseTimeZoneToNas s = Panic.
Proof. exact parseTimeZoneToNas_short. Qed.

(* the functions this property is about are functions of their arguments: the files it is anchored in declare
   no package-level variable other than the pinned read-only tables (or a never-touched one of plain type) and
   none of their functions writes, slices, takes the address of, passes on or calls a method of a
   package-level variable (logger entries excepted) -- evaluated on the current source (C19/Globals.v) *)
Theorem C17_anchor_files_keep_no_state :
  Globals.hidden_state_free Globals.anchors_C17 = true.
Proof. vm_compute. reflexivity. Qed.

Print Assumptions C17_timer2_exact.
Print Assumptions C17_timer2_no_overshoot.
Print Assumptions C17_timer2_above_range.
Print Assumptions C17_timer3_exact.
Print Assumptions C17_timer3_no_overshoot.
Print Assumptions C17_timer3_above_range.
Print Assumptions C17_ambr.
Print Assumptions C17_ambr_digits.
Print Assumptions C17_ambr_codes.
Print Assumptions C17_tz.
Print Assumptions C17_dst.
Print Assumptions C17_timestamp.
Print Assumptions C17_name.
Print Assumptions C17_name_beyond_capacity.
Print Assumptions C17_spec_gsm7_roundtrip.
Print Assumptions C17_decoders_total.
Print Assumptions C17_decode_timestamp_total.
Print Assumptions C17_tz_text_domain.
Print Assumptions C17_anchor_files_keep_no_state.
