(* C17 -- timers, bit rates, time zones and network names encode faithfully.
   Statements are about the hand-written model C17/Model.v of nasConvert/
   GPRSTimer2.go, GPRSTimer3.go, SessionAMBR.go, Time.go, NetWorkName.go (tied
   to the Go code by the correspondence run of harness/cmd/c17); the decoders
   dec2, dec3, tz_dec, semi_dec, dst_dec, unpack7 and the table ambr_code are
   C17/Spec.v, written from TS 24.008 / TS 24.501 / TS 23.040 / TS 23.038. *)
From NV Require Import Lib.Base C17.Model C17.Spec C17.Proofs.
Open Scope N_scope.

(* ------------------------------------------------------------ GPRS timer 2 *)
(* every duration with an exact code (2 s, 1 min, 6 min times 0..31) decodes to itself *)
Theorem C17_timer2_exact : forall d, representable2 d ->
  dec2 (GPRSTimer2ToNas (Z.of_N d)) = Some d.
Proof. exact timer2_exact. Qed.

(* no encoded timer decodes to more than was requested; this holds for every
   d >= 0, in particular on the representable range 0..11 160 s; the result is
   never "deactivated" *)
Theorem C17_timer2_no_overshoot : forall d : Z, (0 <= d)%Z ->
  exists v, dec2 (GPRSTimer2ToNas d) = Some v /\ (Z.of_N v <= d)%Z.
Proof. exact timer2_no_overshoot. Qed.

(* above 11 160 s nothing is representable; the code silently yields a smaller timer *)
Theorem C17_timer2_above_range : forall d : Z, (11160 < d)%Z ->
  exists v, dec2 (GPRSTimer2ToNas d) = Some v /\ (Z.of_N v <= 11160)%Z.
Proof. exact timer2_above. Qed.

Example C17_timer2_ex :
  representable2 2160 /\ GPRSTimer2ToNas 2160 = 70 /\ dec2 70 = Some 2160 /\
  GPRSTimer2ToNas 64 = 32 /\ dec2 32 = Some 0 /\ GPRSTimer2ToNas 1919 = 63 /\ dec2 63 = Some 1860.
Proof. split; [exists 6; lia|repeat split; reflexivity]. Qed.

(* ------------------------------------------------------------ GPRS timer 3 *)
Theorem C17_timer3_exact : forall d, representable3 d ->
  dec3 (GPRSTimer3ToNas (Z.of_N d)) = Some d.
Proof. exact timer3_exact. Qed.

Theorem C17_timer3_no_overshoot : forall d : Z, (0 <= d <= 1116000)%Z ->
  exists v, dec3 (GPRSTimer3ToNas d) = Some v /\ (Z.of_N v <= d)%Z.
Proof. exact timer3_no_overshoot. Qed.

(* above 1 116 000 s (outside the property's range) the value overflows into the
   unit bits: octet = (0x40 + (d / 36000) mod 256) mod 256.  E.g. 320 h, which
   unit 110 could represent, is coded as 0 s, and 1330 h as 5 x 320 h = 1600 h. *)
Theorem C17_timer3_above_range : forall d : Z, (1116000 < d)%Z ->
  GPRSTimer3ToNas d = (64 + Z.to_N ((d / 36000) mod 256)) mod 256.
Proof. exact timer3_above. Qed.

Example C17_timer3_above_range_ex :
  dec3 (GPRSTimer3ToNas 1152000) = Some 0 /\ dec3 (GPRSTimer3ToNas 4788000) = Some 5760000.
Proof. exact timer3_above_examples. Qed.

Example C17_timer3_ex :
  representable3 18000 /\ GPRSTimer3ToNas 18000 = 30 /\ dec3 30 = Some 18000 /\
  GPRSTimer3ToNas 1116000 = 95 /\ dec3 95 = Some 1116000 /\ GPRSTimer3ToNas 931 = 175 /\ dec3 175 = Some 900.
Proof. split; [exists 30; lia|repeat split; reflexivity]. Qed.

(* ------------------------------------------------------------ session AMBR *)
(* "<int> <unit>" per direction, the integer in canonical decimal: the three
   octets per direction are [unit code of Table 9.11.4.14.1; v / 256; v mod 256];
   Octet = downlink unit, downlink value, uplink unit, uplink value *)
Theorem C17_ambr : forall vu uu vd ud, vu < 65536 -> vd < 65536 ->
  ModelsToSessionAMBR (dec_digits vu ++ 32 :: ambr_text uu) (dec_digits vd ++ 32 :: ambr_text ud) =
  Ok [ambr_code ud; vd / 256; vd mod 256; ambr_code uu; vu / 256; vu mod 256].
Proof. exact ambr_canonical. Qed.

(* the same for any decimal numeral (leading zeros allowed) *)
Theorem C17_ambr_digits : forall du uu dd ud,
  digits_ok du -> du <> [] -> digits_val du < 65536 ->
  digits_ok dd -> dd <> [] -> digits_val dd < 65536 ->
  ModelsToSessionAMBR (digits_text du ++ 32 :: ambr_text uu) (digits_text dd ++ 32 :: ambr_text ud) =
  Ok [ambr_code ud; digits_val dd / 256; digits_val dd mod 256;
      ambr_code uu; digits_val du / 256; digits_val du mod 256].
Proof. exact ambr_digits. Qed.

(* the table's codes are the nasMessage constants the code uses *)
Theorem C17_ambr_codes :
  ambr_code Kbps = SessionAMBRUnit1Kbps /\ ambr_code Mbps = SessionAMBRUnit1Mbps /\
  ambr_code Gbps = SessionAMBRUnit1Gbps /\ ambr_code Tbps = SessionAMBRUnit1Tbps /\
  ambr_code Pbps = SessionAMBRUnit1Pbps.
Proof. exact ambr_codes. Qed.

Example C17_ambr_ex :
  dec_digits 40000 ++ 32 :: ambr_text Mbps = [52;48;48;48;48;32;77;98;112;115] /\
  ModelsToSessionAMBR [52;48;48;48;48;32;77;98;112;115] [55;32;71;98;112;115] = Ok [11;0;7;6;156;64].
Proof. split; reflexivity. Qed.

(* ------------------------------------------------------------ time zone *)
(* For every zone q in [-79, 79] quarter hours and adjustment dst in {0,1,2},
   written sign hh:mm[+dst] (tz_text), whose sum is codable (<= +19:45) and
   outside the sign-flip class: the octet decodes (TS 23.040) to q + 4 dst
   quarter hours, getTimeZoneOffset gives 900 (q + 4 dst) seconds and
   DecodeLocalTimeZone gives the text of that zone.
   KNOWN DEFECT F14: excluded is exactly q < 0 < q + 4 dst. *)
Theorem C17_tz_partial : forall q dst,
  (-79 <= q <= 79)%Z -> dst <= 2 -> (q + 4 * Z.of_N dst <= 79)%Z ->
  ~ (q < 0 /\ 0 < q + 4 * Z.of_N dst)%Z ->
  exists o, EncodeLocalTimeZoneToNas (tz_text q dst) = Ok o /\
            tz_dec o = Some (q + 4 * Z.of_N dst)%Z /\
            getTimeZoneOffset o = (900 * (q + 4 * Z.of_N dst))%Z /\
            DecodeLocalTimeZone o = tz_text (q + 4 * Z.of_N dst) 0.
Proof. exact tz_partial. Qed.

(* full statement C17_tz (false): the same without the last hypothesis *)
Theorem C17_tz_refuted :
  exists q dst, (-79 <= q <= 79)%Z /\ dst <= 2 /\ (q + 4 * Z.of_N dst <= 79)%Z /\
    tz_text q dst = [45;48;48;58;51;48;43;49] (* "-00:30+1" *) /\
    EncodeLocalTimeZoneToNas (tz_text q dst) = Ok 239 (* 0xEF *) /\ tz_dec 239 = None /\
    getTimeZoneOffset 239 = (-75600)%Z (* -21:00 *).
Proof. exists (-2)%Z, 1. repeat split; try reflexivity; lia. Qed.

(* ... and the code is wrong on the whole excluded class *)
Theorem C17_tz_refuted_class : forall q dst,
  (-79 <= q < 0)%Z -> dst <= 2 -> (0 < q + 4 * Z.of_N dst)%Z ->
  forall o, EncodeLocalTimeZoneToNas (tz_text q dst) = Ok o ->
            tz_dec o <> Some (q + 4 * Z.of_N dst)%Z.
Proof. exact tz_refuted_class. Qed.

Example C17_tz_ex :
  tz_text (-20) 1 = [45;48;53;58;48;48;43;49] (* "-05:00+1" *) /\
  EncodeLocalTimeZoneToNas (tz_text (-20) 1) = Ok 105 (* 0x69 *) /\ tz_dec 105 = Some (-16)%Z.
Proof. repeat split; reflexivity. Qed.

(* ------------------------------------------------------------ daylight saving time *)
Theorem C17_dst : forall q dst, (-79 <= q <= 79)%Z -> dst <= 2 ->
  EncodeDaylightSavingTimeToNas (tz_text q dst) = Ok (1, dst) /\
  dst_dec dst = Some dst /\
  DecodeDaylightSavingTime dst = (if dst =? 0 then [] else [43; 48 + dst]).
Proof. exact dst_roundtrip. Qed.

(* ------------------------------------------------------------ universal time *)
(* every second-resolution instant of 2000-2099 (civil_ok: month 1..12, day
   1..31, ...) in every zone on the quarter-hour grid (zone_ok: total offset
   900 q, |q| <= 79; with the daylight-saving flag: q >= -75 and, F14, not
   0 < q < 4): the seven octets decode, by the code and by the standard, to the
   same civil fields and offset *)
Theorem C17_timestamp : forall t q, civil_ok t -> zone_ok t q ->
  exists o, EncodeUniversalTimeAndLocalTimeZoneToNas t = Ok o /\ length o = 7%nat /\
    DecodeUniversalTimeAndLocalTimeZone o =
      Ok (mkgotime (t_year t) (t_month t) (t_day t) (t_hour t) (t_minute t) (t_second t) (zoff t) false) /\
    map semi_dec (firstn 6 o) =
      map (fun v => Some (Z.to_N v))
          [Z.rem (t_year t) 100; t_month t; t_day t; t_hour t; t_minute t; t_second t] /\
    option_map (Z.mul 900) (tz_dec (nth 6 o 0)) = Some (zoff t).
Proof. exact timestamp_roundtrip. Qed.

Theorem C17_timestamp_refuted :
  EncodeUniversalTimeAndLocalTimeZoneToNas (mkgotime 2023 7 1 12 0 0 1800 true) =
    Ok [50; 112; 16; 33; 0; 0; 239] /\ tz_dec 239 = None.
Proof. exact timestamp_refuted. Qed.

Example C17_timestamp_ex :
  let t := mkgotime 2023 7 13 12 27 39 28800 false in
  civil_ok t /\ zone_ok t 32 /\
  EncodeUniversalTimeAndLocalTimeZoneToNas t = Ok [50; 112; 49; 33; 114; 147; 35].
Proof. cbv zeta. unfold civil_ok, zone_ok. cbn. repeat split; try lia; discriminate. Qed.

(* ------------------------------------------------------------ network names *)
(* names of 0..7 septets: Len, octet 3 = ext 1 | coding scheme 000 | add CI 0 |
   spare bits (8 - 7n mod 8) mod 8, and the text unpacks (TS 23.038) to the name.
   KNOWN DEFECT F13: excluded are exactly the names of 8 and more characters. *)
Theorem C17_name_partial : forall s, septets_ok s -> (length s <= 7)%nat ->
  exists len b0 txt, FullNetworkNameToNas s = Ok (len, b0 :: txt) /\
    ShortNetworkNameToNas s = Ok (len, b0 :: txt) /\
    b0 = 128 + spare_spec (N.of_nat (length s)) /\
    len = 1 + N.of_nat (length txt) /\
    unpack7 txt (b0 mod 8) = s.
Proof.
  intros s Hs Hn. destruct (name_partial s Hs Hn) as (len & b0 & txt & H1 & H2 & H3 & H4).
  exists len, b0, txt. repeat split; assumption.
Qed.

(* full statement C17_name (false): the same for every length; witnesses
   "ABCDEFGH" (unpacks to 9 septets) and "ABCDEFGHIJ" (the 10th character is lost) *)
Theorem C17_name_refuted :
  NetworkNameToNas [65;66;67;68;69;70;71;72] = Ok (9, [128; 65;225;144;88;52;30;145;0]) /\
  unpack7 [65;225;144;88;52;30;145;0] 0 = [65;66;67;68;69;70;71;72;0] /\
  pack7 [65;66;67;68;69;70;71;72] = [65;225;144;88;52;30;145] /\
  NetworkNameToNas [65;66;67;68;69;70;71;72;73;74] = Ok (11, [130; 65;225;144;88;52;30;145;73;0;37]) /\
  unpack7 [65;225;144;88;52;30;145;73;0;37] 2 = [65;66;67;68;69;70;71;72;73;0;20] /\
  pack7 [65;66;67;68;69;70;71;72;73;74] = [65;225;144;88;52;30;145;73;37].
Proof. exact name_refuted. Qed.

(* ... and the code is wrong for every name of 8..254 characters, whatever the
   characters: it emits one octet per character, which unpack to more septets
   than the name has *)
Theorem C17_name_refuted_class : forall s, (8 <= length s < 255)%nat ->
  exists len b0 txt, NetworkNameToNas s = Ok (len, b0 :: txt) /\
    length txt = length s /\
    (length (unpack7 txt (b0 mod 8)) > length s)%nat /\ unpack7 txt (b0 mod 8) <> s.
Proof. exact name_wrong_from_8. Qed.

(* the stored spare-bit count is the standard's for every length (the value 8
   computed for 7n mod 8 = 0 is reduced to 0 by the setter's mask) *)
Theorem C17_name_spare : forall s, (length s < 255)%nat ->
  exists len b0 txt, NetworkNameToNas s = Ok (len, b0 :: txt) /\
    b0 mod 8 = spare_spec (N.of_nat (length s)) /\ b0 / 8 = 16 /\
    len = 1 + N.of_nat (length txt) /\ length txt = length s.
Proof. exact name_spare. Qed.

Example C17_name_ex :
  septets_ok [65;66;67;68;69;70;71] /\
  NetworkNameToNas [65;66;67;68;69;70;71] = Ok (8, [135; 65;225;144;88;52;30;1]) /\
  unpack7 [65;225;144;88;52;30;1] 7 = [65;66;67;68;69;70;71].
Proof. split; [repeat constructor; lia|split; vm_compute; reflexivity]. Qed.

(* ------------------------------------------------------------ C14 part: decoders are total *)
(* getTimeZoneOffset, DecodeLocalTimeZone, DecodeDaylightSavingTime are total
   functions of the octet in the model (no index, no slice); on every octet they
   agree with the standard where it defines a value; DecodeUniversalTime... on
   the 7-octet array never panics *)
Theorem C17_decoders_total : forall o, o < 256 ->
  (forall q, tz_dec o = Some q ->
     getTimeZoneOffset o = (900 * q)%Z /\ DecodeLocalTimeZone o = tz_text q 0) /\
  DecodeDaylightSavingTime o =
    match dst_dec o with Some v => if v =? 0 then [] else [43; 48 + v] | None => [] end.
Proof. exact decoders_spec. Qed.

Theorem C17_decode_timestamp_total : forall o, length o = 7%nat ->
  exists t, DecodeUniversalTimeAndLocalTimeZone o = Ok t.
Proof. exact DecodeUniversalTime_total. Qed.

(* domain of the text-input encoders: shorter texts panic (not UE input) *)
Theorem C17_tz_text_domain : forall s, (length s < 6)%nat -> parseTimeZoneToNas s = Panic.
Proof. exact parseTimeZoneToNas_short. Qed.

Print Assumptions C17_timer2_exact.
Print Assumptions C17_timer2_no_overshoot.
Print Assumptions C17_timer2_above_range.
Print Assumptions C17_timer3_exact.
Print Assumptions C17_timer3_no_overshoot.
Print Assumptions C17_timer3_above_range.
Print Assumptions C17_ambr.
Print Assumptions C17_ambr_digits.
Print Assumptions C17_ambr_codes.
Print Assumptions C17_tz_partial.
Print Assumptions C17_tz_refuted.
Print Assumptions C17_tz_refuted_class.
Print Assumptions C17_dst.
Print Assumptions C17_timestamp.
Print Assumptions C17_timestamp_refuted.
Print Assumptions C17_name_partial.
Print Assumptions C17_name_refuted.
Print Assumptions C17_name_refuted_class.
Print Assumptions C17_name_spare.
Print Assumptions C17_decoders_total.
Print Assumptions C17_decode_timestamp_total.
Print Assumptions C17_tz_text_domain.
