(* C10 -- decode and encode are pure (PARTIAL at the memory level, see DESIGN.md section 5 C10).
   A functional model cannot exhibit aliasing; what is proved is the part that is logic:
   the decoders are the canonical programs (C01_all_canonical), whose language has no aliasing or
   input-writing statement form, and every slice they fill is freshly allocated by the same step. *)
From NV Require C19.Globals.
From NV Require Codec.Stmt Codec.StmtProofs.
From NV Require Import Lib.Base Lib.BV Codec.Lang Codec.Def Codec.Sem Codec.Purity Codec.Dispatch Codec.GenDefs Codec.Final
  C09.Types C09.Check C09.All C19.Globals Gen.GenMsgs Gen.GenTypes.
From Coq Require Import String.
Open Scope N_scope.

(* the decoders contain only the statement forms of the CS language (no DUnknown): in particular no
   form that keeps a slice of the input or writes through the input pointer *)
Theorem C10_all_canonical : forallb (canon_ok nas_types) all_msgs = true.
Proof. exact all_canonical. Qed.

(* every binary.Read into a Buffer is preceded, in the same block, by SetLen on that element ... *)
Theorem C10_buffers_fresh : buffers_fresh = true.
Proof. exact buffers_fresh_ok. Qed.

(* ... and SetLen of every such element type is the allocating one ... *)
Theorem C10_setlens_allocate : setlens_allocate = true.
Proof. exact setlens_allocate_ok. Qed.

(* ... which replaces Buffer by Len fresh zero octets (for all prior contents and all lengths) *)
Theorem C10_setlen_alloc_meaning : forall mb t body,
  classify_hdr body = Some (HSetLenAlloc t) ->
  forall s v, v < 2 ^ tbits t ->
    run_body mb s [v] [] body = Ok (mkst (s_iei s) v (repeat 0 (N.to_nat v)) (s_cnt s), RNone).
Proof. exact setlen_alloc_meaning. Qed.

(* encoding into a non-empty buffer is prefix ++ encoding; the message is an immutable value *)
Theorem C10_encode_appends : forall pre d m e,
  encode_def d m = Ok e -> encode_into pre d m = Ok (pre ++ e)%list.
Proof. exact encode_into_appends. Qed.

(* non-vacuity: a well-formed AuthenticationRequest encodes, and encoding it behind two octets already in
   the buffer leaves those two octets in place *)
Example C10_example :
  match find_def "AuthenticationRequest" with
  | Some d =>
      let m := [Some (mkie 0 0 [126]); Some (mkie 0 0 [0]); Some (mkie 0 0 [86]); Some (mkie 0 0 [1]);
                Some (mkie 0 2 [0; 0]);
                Some (mkie 33 0 [1;2;3;4;5;6;7;8;9;10;11;12;13;14;15;16]); None;
                Some (mkie 120 4 [2; 1; 0; 4])] in
      let e := [126;0;86;1; 2;0;0; 33;1;2;3;4;5;6;7;8;9;10;11;12;13;14;15;16; 120;0;4;2;1;0;4] in
      encode_def d m = Ok e /\ encode_into [170; 187] d m = Ok ([170; 187] ++ e)%list
  | None => False
  end.
Proof. vm_compute. repeat split. Qed.

(* the codec packages import nothing that could make them non-deterministic *)
Theorem C10_codec_imports_pure : codec_imports_ok = true.
Proof. exact codec_imports_pure. Qed.

(* statement level (Codec/Stmt.v): ANY program of the encoder language -- not only the template --
   leaves the bytes already in the buffer in place and only appends; the message is an argument that
   no statement form can write (exec_enc_top returns bytes only); both executions are functions *)
Theorem C10_programs_append_only : forall names shape_of m l out,
  Stmt.exec_enc_top names shape_of m l out = (b <- Stmt.exec_enc_top names shape_of m l []%list ;; Ok (out ++ b)%list).
Proof. exact StmtProofs.exec_enc_appends. Qed.

(* the functions this property is about are functions of their arguments: the files it is anchored in declare
   no package-level variable other than the pinned read-only tables (or a never-touched one of plain type) and
   none of their functions writes, slices, takes the address of, passes on or calls a method of a
   package-level variable (logger entries excepted) -- evaluated on the current source (C19/Globals.v) *)
Theorem C10_anchor_files_keep_no_state :
  Globals.hidden_state_free Globals.anchors_C10 = true.
Proof. vm_compute. reflexivity. Qed.

Print Assumptions C10_all_canonical.
Print Assumptions C10_buffers_fresh.
Print Assumptions C10_setlens_allocate.
Print Assumptions C10_setlen_alloc_meaning.
Print Assumptions C10_encode_appends.
Print Assumptions C10_codec_imports_pure.
Print Assumptions C10_programs_append_only.
Print Assumptions C10_anchor_files_keep_no_state.
