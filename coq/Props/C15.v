(* C15 -- QoS rules (TS 24.501 9.11.4.13) and QoS flow descriptions (9.11.4.12):
   total parsers, unknown identifiers are errors, exact round trip, TS wire format.
   Statements are about the hand-written model C15/Model.v of nasType/qos_rule.go and
   nasType/qos_flow_desc.go (tied to the Go code by the correspondence run), the TS
   layouts of C15/Spec.v and the well-formedness predicates at the end of C15/Spec.v. *)
From NV Require C19.Globals.
From NV Require Import Lib.Base C15.Model C15.Spec C15.Proofs.
Open Scope N_scope.

(* ---- parsing arbitrary octets ends with a value or an error: no panic, and the
        loops end within fuel [length + 1] (every iteration consumes >= 1 octet).
        Holds for every list of numbers, a fortiori for octet strings. ---- *)
Theorem C15_rules_total : forall bs, bytes_ok bs -> is_total (QoSRules_UnmarshalBinary bs).
Proof. exact rules_total_bytes. Qed.

Theorem C15_descs_total : forall bs, bytes_ok bs -> is_total (QoSFlowDescs_UnmarshalBinary bs).
Proof. exact descs_total_bytes. Qed.

(* ---- unknown identifiers ---- *)

(* the component factory knows exactly the 18 implemented type identifiers
   (Table 9.11.4.13.1 without the IPv6 types 0x21, 0x23) ... *)
Theorem C15_known_component_ids : forall ty,
  newPacketFilterComponent ty = None <-> ~ In ty known_component_ids.
Proof. exact newPacketFilterComponent_None. Qed.

(* ... and the parameter factory exactly 01H..07H *)
Theorem C15_known_parameter_ids : forall id,
  newQoSFlowParameters id = None <-> ~ In id known_parameter_ids.
Proof. exact newQoSFlowParameters_None. Qed.

(* an unknown component type at any component position of any packet filter of any
   rule (op <> "delete packet filters", whose filters have no components), after
   arbitrary well-formed rules / filters / components and before arbitrary octets,
   is an error *)
Theorem C15_unknown_component_err :
  forall q bq ident l1 l2 h fs bfs ph pl cs bcs ty tail,
    wf_rules_code q = true -> QoSRules_MarshalBinary q = Ok bq ->
    N.shiftr h 5 <> 5 ->
    forallb wf_filter fs = true -> buildPacketFilterList fs = Ok bfs ->
    (length fs < N.to_nat (N.land h 15))%nat ->
    forallb wf_comp cs = true -> PacketFilterComponentList_MarshalBinary cs = Ok bcs ->
    (length bcs < N.to_nat pl)%nat ->
    ~ In ty known_component_ids ->
    QoSRules_UnmarshalBinary (bq ++ ident :: l1 :: l2 :: h :: bfs ++ ph :: pl :: bcs ++ ty :: tail) = Err.
Proof. exact unknown_component_err. Qed.

(* an unknown parameter identifier (followed by its length octet) at any parameter
   position of any description is an error *)
Theorem C15_unknown_parameter_err :
  forall q bq qfi opo pno ps bps id plen tail,
    wf_descs_code q = true -> QoSFlowDescs_MarshalBinary q = Ok bq ->
    forallb wf_param ps = true -> QoSFlowParameterList_MarshalBinary ps = Ok bps ->
    (length ps < N.to_nat (N.land pno 63))%nat ->
    ~ In id known_parameter_ids ->
    QoSFlowDescs_UnmarshalBinary (bq ++ qfi :: opo :: pno :: bps ++ id :: plen :: tail) = Err.
Proof. exact unknown_parameter_err. Qed.

(* observation (boundary of the previous statement): if the input ends right after
   the identifier octet -- whatever its value -- the io.EOF of the next read is taken
   for the regular end of input: nil error, the unfinished description is dropped *)
Theorem C15_parameter_id_at_end_is_accepted :
  forall q bq qfi opo pno ps bps id,
    wf_descs_code q = true -> QoSFlowDescs_MarshalBinary q = Ok bq ->
    forallb wf_param ps = true -> QoSFlowParameterList_MarshalBinary ps = Ok bps ->
    (length ps < N.to_nat (N.land pno 63))%nat ->
    QoSFlowDescs_UnmarshalBinary (bq ++ qfi :: opo :: pno :: bps ++ [id]) = Ok q.
Proof. exact unknown_parameter_at_end_is_accepted. Qed.

(* ---- round trip ---- *)

(* each of the 18 component types *)
Theorem C15_comp_roundtrip : forall c, wf_comp c = true ->
  exists bs, comp_MarshalBinary c = Ok bs /\ length bs = comp_Length c /\
             comp_UnmarshalBinary c bs = Ok c.
Proof. exact comp_roundtrip. Qed.

(* each of the 7 parameter kinds *)
Theorem C15_param_roundtrip : forall p, wf_param p = true ->
  exists pb, param_MarshalBinary p = Ok pb /\ (length pb <= 3)%nat /\
             param_UnmarshalBinary p pb = ROk p.
Proof. exact param_roundtrip. Qed.

(* the property's domain: operations 1-6, <= 15 filters, identifiers < 16, QFI < 64,
   filter contents <= 255 octets, 20-bit flow labels, 4-octet IPv4 address and mask,
   6-octet MAC addresses, delete-type filters carry only an identifier *)
Theorem C15_rules_roundtrip : forall q, wf_rules q = true ->
  exists bs, QoSRules_MarshalBinary q = Ok bs /\ QoSRules_UnmarshalBinary bs = Ok q.
Proof. exact rules_roundtrip_prop. Qed.

(* the same on exactly what the code needs (operation codes 0-7) *)
Theorem C15_rules_roundtrip_code : forall q, wf_rules_code q = true ->
  exists bs, QoSRules_MarshalBinary q = Ok bs /\ QoSRules_UnmarshalBinary bs = Ok q.
Proof. exact rules_roundtrip. Qed.

(* operations 1-3, QFI < 64, <= 63 parameters of the 7 kinds *)
Theorem C15_descs_roundtrip : forall q, wf_descs q = true ->
  exists bs, QoSFlowDescs_MarshalBinary q = Ok bs /\ QoSFlowDescs_UnmarshalBinary bs = Ok q.
Proof. exact descs_roundtrip_prop. Qed.

(* operation codes 0-7, any QFI octet *)
Theorem C15_descs_roundtrip_code : forall q, wf_descs_code q = true ->
  exists bs, QoSFlowDescs_MarshalBinary q = Ok bs /\ QoSFlowDescs_UnmarshalBinary bs = Ok q.
Proof. exact descs_roundtrip. Qed.

(* ---- wire format ---- *)

(* FULL STATEMENT (false for the current code):
     forall q, wf_rules q = true -> QoSRules_MarshalBinary q = Ok (spec_rules q).
   Refuted by a "delete existing QoS rule" entry: the TS omits the precedence and
   segregation/QFI octets for that operation (length of QoS rule = 1), the library
   writes them (length 3), and it rejects the TS encoding. *)
Theorem C15_rules_format_refuted :
  exists q bs, wf_rules q = true /\ QoSRules_MarshalBinary q = Ok bs /\ bs <> spec_rules q /\
               QoSRules_UnmarshalBinary (spec_rules q) = Err.
Proof. exact rules_format_refuted. Qed.

(* everything else: lists without a "delete existing QoS rule" entry are serialised
   exactly as 9.11.4.13 lays them out *)
Theorem C15_rules_format_partial : forall q,
  wf_rules_code q = true -> no_delete_rule q = true ->
  QoSRules_MarshalBinary q = Ok (spec_rules q).
Proof. exact rules_format_partial. Qed.

(* and for every well-formed list the octets are the same layout with octets z+1, z+2
   present for every operation (this pins down the deviation exactly) *)
Theorem C15_rules_format_code : forall q, wf_rules_code q = true ->
  QoSRules_MarshalBinary q = Ok (spec_rules_z12_always q).
Proof. exact rules_format_always. Qed.

(* the 2-octet "length of QoS rule" never wraps on well-formed rules *)
Theorem C15_rule_size : forall r, wf_rule_code r = true ->
  (length (spec_rule_z12_always r) <= 3861)%nat.
Proof. exact rule_size. Qed.

Theorem C15_descs_format : forall q, wf_descs_code q = true ->
  QoSFlowDescs_MarshalBinary q = Ok (spec_descs q).
Proof. exact descs_format. Qed.

(* the value ranges of Table 9.11.4.13.1 (operation 1-6, direction 1-3, QFI < 64, 12-bit
   VID, 4-bit PCP/DEI, no filters for operations 2 and 6, >= 1 for 3 and 5), for values
   representable in the Go types, lie inside the domain of the theorems above *)
Theorem C15_ts_ranges_in_domain : forall r,
  ts_rule_ok r = true -> go_rule_ok r = true -> wf_rule r = true.
Proof. exact ts_rule_in_domain. Qed.

(* ---- serialising ---- *)

(* QoSRules.MarshalBinary on any value of the modelled types ends with octets or an
   error (flow label >= 2^20, IPv4 address / mask not of 4 octets) *)
Theorem C15_rules_marshal_total : forall q, is_total (QoSRules_MarshalBinary q).
Proof. exact QoSRules_MarshalBinary_total. Qed.

Theorem C15_descs_marshal_ok : forall q, exists b, QoSFlowDescs_MarshalBinary q = Ok b.
Proof. exact QoSFlowDescs_MarshalBinary_ok. Qed.

(* observation: the two "length of QoS rule" octets are read and never used *)
Theorem C15_rule_length_is_ignored : forall ident l1 l2 m1 m2 rest,
  QoSRules_UnmarshalBinary (ident :: l1 :: l2 :: rest) = QoSRules_UnmarshalBinary (ident :: m1 :: m2 :: rest).
Proof. exact rule_length_is_ignored. Qed.

(* ---- non-vacuity ---- *)

Example C15_rules_example :
  wf_rules ex_rules = true /\
  QoSRules_MarshalBinary ex_rules = Ok ex_rules_octets /\
  QoSRules_UnmarshalBinary ex_rules_octets = Ok ex_rules /\
  ex_rules_octets = spec_rules_z12_always ex_rules.
Proof. vm_compute. repeat split. Qed.

Example C15_rules_format_example :
  wf_rules ex_rules_nodel = true /\ no_delete_rule ex_rules_nodel = true /\ length ex_rules_nodel = 3%nat /\
  QoSRules_MarshalBinary ex_rules_nodel = Ok (spec_rules ex_rules_nodel).
Proof. vm_compute. repeat split. Qed.

Example C15_descs_example :
  wf_descs ex_descs = true /\
  QoSFlowDescs_MarshalBinary ex_descs = Ok ex_descs_octets /\
  QoSFlowDescs_UnmarshalBinary ex_descs_octets = Ok ex_descs /\
  ex_descs_octets = spec_descs ex_descs.
Proof. vm_compute. repeat split. Qed.

(* unknown component 0x21 (IPv6 remote address of the TS, not implemented) as second
   component of the second filter of the second rule: an instance of C15_unknown_component_err *)
Example C15_unknown_component_example :
  QoSRules_UnmarshalBinary
    ([1; 0; 3; 32; 7; 9] ++ 2 :: 0 :: 12 :: 50 :: [17; 1; 1] ++ 34 :: 9 :: [48; 6] ++ 33 :: [1; 2; 3; 4; 5; 6; 7; 8])
  = Err.
Proof. exact unknown_component_instance. Qed.

Example C15_unknown_parameter_example :
  QoSFlowDescs_UnmarshalBinary ([9; 32; 0] ++ 1 :: 32 :: 66 :: [1; 1; 9] ++ 255 :: 0 :: []) = Err /\
  QoSFlowDescs_UnmarshalBinary ([9; 32; 0] ++ 1 :: 32 :: 66 :: [1; 1; 9] ++ [255]) = Ok [mkDesc 9 1 []].
Proof. vm_compute. split; reflexivity. Qed.

(* the hypotheses of the round trip are tight: one step outside and it fails *)
Example C15_wf_tight :
  (* QFI = 64 *)
  QoSRules_UnmarshalBinary [1; 0; 3; 32; 0; 64] = Ok [mkRule 1 1 false [] 0 true 0] /\
  QoSRules_MarshalBinary [mkRule 1 1 false [] 0 false 64] = Ok [1; 0; 3; 32; 0; 64] /\
  (* 5-octet MAC address: serialised without complaint, not parseable *)
  (exists bs, QoSRules_MarshalBinary [mkRule 1 1 false [mkPF 1 1 [SourceMACAddress [1; 2; 3; 4; 5]]] 0 false 1] = Ok bs /\
              QoSRules_UnmarshalBinary bs = Err) /\
  (* flow label 2^20, 16-octet IPv4 address: refused by MarshalBinary *)
  QoSRules_MarshalBinary [mkRule 1 1 false [mkPF 1 1 [FlowLabel 1048576]] 0 false 1] = Err /\
  QoSRules_MarshalBinary [mkRule 1 1 false [mkPF 1 1 [IPv4LocalAddress [0;0;0;0;0;0;0;0;0;0;255;255;10;0;0;1] [255;255;255;0]]] 0 false 1] = Err /\
  (* 64 parameters *)
  (exists bs, QoSFlowDescs_MarshalBinary [mkDesc 1 1 (repeat (P5QI 1) 64)] = Ok bs /\
              QoSFlowDescs_UnmarshalBinary bs <> Ok [mkDesc 1 1 (repeat (P5QI 1) 64)]).
Proof.
  vm_compute. repeat split; try reflexivity; eexists; (split; [reflexivity|]); [reflexivity|discriminate].
Qed.

(* the functions this property is about are functions of their arguments: the files it is anchored in declare
   no package-level variable other than the pinned read-only tables (or a never-touched one of plain type) and
   none of their functions writes, slices, takes the address of, passes on or calls a method of a
   package-level variable (logger entries excepted) -- evaluated on the current source (C19/Globals.v) *)
Theorem C15_anchor_files_keep_no_state :
  Globals.hidden_state_free Globals.anchors_C15 = true.
Proof. vm_compute. reflexivity. Qed.

Print Assumptions C15_rules_total.
Print Assumptions C15_descs_total.
Print Assumptions C15_known_component_ids.
Print Assumptions C15_known_parameter_ids.
Print Assumptions C15_unknown_component_err.
Print Assumptions C15_unknown_parameter_err.
Print Assumptions C15_parameter_id_at_end_is_accepted.
Print Assumptions C15_comp_roundtrip.
Print Assumptions C15_param_roundtrip.
Print Assumptions C15_rules_roundtrip.
Print Assumptions C15_rules_roundtrip_code.
Print Assumptions C15_descs_roundtrip.
Print Assumptions C15_descs_roundtrip_code.
Print Assumptions C15_rules_format_refuted.
Print Assumptions C15_rules_format_partial.
Print Assumptions C15_rules_format_code.
Print Assumptions C15_rule_size.
Print Assumptions C15_descs_format.
Print Assumptions C15_rules_marshal_total.
Print Assumptions C15_descs_marshal_ok.
Print Assumptions C15_rule_length_is_ignored.
Print Assumptions C15_ts_ranges_in_domain.
Print Assumptions C15_anchor_files_keep_no_state.
