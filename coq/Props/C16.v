(* C16 -- protocol configuration options and PDU session bitmaps round-trip.
   Statements are about the hand-written model C16/Model.v of
   nasConvert/ProtocolConfigurationOptions.go, PSI.go and
   PDUSessionReactivationResultErrorCause.go (tied to the Go code by the
   correspondence run of harness/cmd/c16). *)
From NV Require C19.Globals.
From NV Require Import Lib.Base C16.Model C16.Proofs.
Open Scope N_scope.

(* Serialising a list and parsing it back yields the same identifiers, lengths
   and contents in the same order.  wf_pco: identifiers are uint16, at most 255
   content octets, LengthOfContents = len(Contents); any number of units. *)
Theorem C16_pco_roundtrip : forall l, wf_pco l -> UnMarshal (Marshal l) = Ok l.
Proof. exact pco_roundtrip. Qed.

Example C16_pco_roundtrip_ex :
  let l := [mkpcu 13 4 [8;8;8;8]; mkpcu 65535 0 []; mkpcu 16 2 [5;220]; mkpcu 0 0 []] in
  wf_pco l /\ Marshal l = [128; 0;13;4;8;8;8;8; 255;255;0; 0;16;2;5;220; 0;0;0] /\
  UnMarshal (Marshal l) = Ok l.
Proof.
  cbv zeta. split; [|split; reflexivity].
  repeat constructor; cbn; lia.
Qed.

(* ... with the configuration-protocol octet 0x80 first (no hypothesis on l) *)
Theorem C16_pco_first_octet : forall l, hd 0 (Marshal l) = 128 /\ Marshal l = 128 :: marshal_units l.
Proof. intro l. split; [apply Marshal_first_octet|apply Marshal_cons]. Qed.

(* lists built by the Add* helpers are well-formed, so they round-trip *)
Theorem C16_pco_helpers_wf : forall l, wf_pco l ->
  wf_pco (AddDNSServerIPv4AddressRequest l) /\
  wf_pco (AddDNSServerIPv6AddressRequest l) /\
  wf_pco (AddIPAddressAllocationViaNASSignallingUL l) /\
  (forall mtu, wf_pco (AddIPv4LinkMTU l mtu)) /\
  (forall ip l', AddDNSServerIPv4Address l ip = Ok l' -> wf_pco l') /\
  (forall ip l', AddPCSCFIPv4Address l ip = Ok l' -> wf_pco l') /\
  (forall ip l', AddDNSServerIPv6Address l ip = Ok l' -> wf_pco l').
Proof.
  intros l H. repeat split.
  - apply wf_AddDNSServerIPv4AddressRequest; exact H.
  - apply wf_AddDNSServerIPv6AddressRequest; exact H.
  - apply wf_AddIPAddressAllocationViaNASSignallingUL; exact H.
  - intro; apply wf_AddIPv4LinkMTU; exact H.
  - intros ip l'. apply wf_add_ipv4; [reflexivity|exact H].
  - intros ip l'. apply wf_add_ipv4; [reflexivity|exact H].
  - intros ip l'. apply wf_AddDNSServerIPv6Address; exact H.
Qed.

(* Parsing arbitrary bytes never panics and always terminates: with fuel
   |bs| + 1 the model returns a list (with or without an error), never Panic
   or OutOfFuel; whatever the receiver's list l0 was. *)
Theorem C16_pco_total : forall bs, is_total (UnMarshal bs).
Proof. exact UnMarshal_total. Qed.

Theorem C16_pco_total_full : forall l0 bs, is_total (UnMarshalFull l0 bs).
Proof. exact UnMarshalFull_total. Qed.

(* ... and never yields contents that are not in the input: the units returned
   (also those appended before an error is returned, e = true) lie back to back
   in bs from offset 1: unit k at offset off_k has its identifier in
   bs[off_k..off_k+2), its LengthOfContents = bs[off_k+2], its Contents =
   bs[off_k+3 .. off_k+3+len) entirely inside bs, and off_(k+1) = off_k+3+len. *)
Theorem C16_pco_contents_from_input : forall bs l e,
  UnMarshalFull [] bs = Ok (l, e) -> chain bs 1 l.
Proof. exact pco_contents_from_input. Qed.

Theorem C16_pco_contents_octets_from_input : forall bs l e,
  UnMarshalFull [] bs = Ok (l, e) -> Forall (fun u => incl (pcu_contents u) bs) l.
Proof. intros bs l e H. eapply chain_incl. eapply pco_contents_from_input. exact H. Qed.

Example C16_pco_contents_ex :
  UnMarshalFull [] [128; 0;1;2;7;9; 0;2;0; 0;3;5;1] = Ok ([mkpcu 1 2 [7;9]; mkpcu 2 0 []], true) /\
  chain [128; 0;1;2;7;9; 0;2;0; 0;3;5;1] 1 [mkpcu 1 2 [7;9]; mkpcu 2 0 []].
Proof. split; [reflexivity|]. eapply pco_contents_from_input. reflexivity. Qed.

(* The exact set of byte strings UnMarshal accepts and what it returns: bs is
   accepted with result l iff l is well-formed and bs is any first octet, the
   canonical encoding of l, and a trailer that is empty, a dangling identifier
   (2 octets) or a dangling identifier with a non-zero length octet (3 octets;
   these two incomplete last units are dropped without an error).  Hence the
   parser is an exact left inverse of Marshal up to that trailer, and it never
   checks the first octet. *)
Theorem C16_pco_accepts_iff : forall bs l, bytes_ok bs ->
  (UnMarshal bs = Ok l <->
   wf_pco l /\ exists x tl, bs = x :: marshal_units l ++ tl /\ trailer tl).
Proof. exact pco_accepts_iff. Qed.

(* whatever UnMarshal returns (with or without error) is well-formed *)
Theorem C16_pco_result_wf : forall bs l e, bytes_ok bs ->
  UnMarshalFull [] bs = Ok (l, e) -> wf_pco l.
Proof. exact pco_result_wf. Qed.

Example C16_pco_trailer_ex :
  UnMarshal [128; 0;1;0; 0;2] = Ok [mkpcu 1 0 []] /\ UnMarshal [128; 0;1;0; 0;2;5] = Ok [mkpcu 1 0 []] /\
  UnMarshal [128; 0;1;0; 0] = Err /\ UnMarshal [128; 0;1;0; 0;2;5;9] = Err.
Proof. repeat split; reflexivity. Qed.

(* PDU session status bitmap, TS 24.501 9.11.3.44: octet 3 (first) bit k+1 =
   PSI(k), octet 4 bit k+1 = PSI(8+k); entry i of the array is PSI(i) = bit i of
   the 16-bit value a + 256 b.  Both directions, all 2^16 values. *)
Theorem C16_psi_bitmap_roundtrip_buf : forall a b, a < 256 -> b < 256 ->
  exists arr, PSIToBooleanArray [a; b] = Ok arr /\ PSIToBuf arr = [a; b] /\
              arr = map (N.testbit (a + 256 * b)) idx16.
Proof. exact psi_buf_roundtrip. Qed.

Theorem C16_psi_bitmap_roundtrip_array : forall arr, length arr = 16%nat ->
  PSIToBooleanArray (PSIToBuf arr) = Ok arr /\
  PSIToBuf arr = [bits_val (firstn 8 arr); bits_val (skipn 8 arr)].
Proof. exact psi_arr_roundtrip. Qed.

Example C16_psi_ex :
  PSIToBooleanArray [1; 128] =
  Ok [true;false;false;false;false;false;false;false; false;false;false;false;false;false;false;true] /\
  PSIToBuf [true;false;false;false;false;false;false;false; false;false;false;false;false;false;false;true] = [1; 128].
Proof. split; reflexivity. Qed.

(* C14 part: PSIToBooleanArray never panics, whatever the length of its input;
   fewer than two octets give the all-false array *)
Theorem C16_psi_total : forall bs,
  (exists r, PSIToBooleanArray bs = Ok r /\ length r = 16%nat) /\
  ((length bs < 2)%nat -> PSIToBooleanArray bs = Ok (repeat false 16)).
Proof. intro bs. split; [apply PSIToBooleanArray_total|apply PSIToBooleanArray_short]. Qed.

(* Reactivation result error cause, TS 24.501 9.11.3.43: pairs (PDU session ID,
   cause value).  The code never panics; slices of different lengths give the
   empty result; equal lengths give id_0 cause_0 id_1 cause_1 ... *)
Theorem C16_reactivation_error_cause : forall ids causes,
  PDUSessionReactivationResultErrorCauseToBuf ids causes =
  Ok (if (length ids =? length causes)%nat
      then flat_map (fun p => [fst p; snd p]) (combine ids causes) else []).
Proof. exact reactivation_spec. Qed.

Theorem C16_reactivation_error_cause_pairs : forall ids causes,
  length ids = length causes ->
  exists buf, PDUSessionReactivationResultErrorCauseToBuf ids causes = Ok buf /\
              pairs buf = combine ids causes /\ length buf = (2 * length ids)%nat.
Proof. exact reactivation_pairs. Qed.

Example C16_reactivation_ex :
  PDUSessionReactivationResultErrorCauseToBuf [5; 7] [43; 90] = Ok [5; 43; 7; 90].
Proof. reflexivity. Qed.

(* the functions this property is about are functions of their arguments: the files it is anchored in declare
   no package-level variable other than the pinned read-only tables (or a never-touched one of plain type) and
   none of their functions writes, slices, takes the address of, passes on or calls a method of a
   package-level variable (logger entries excepted) -- evaluated on the current source (C19/Globals.v) *)
Theorem C16_anchor_files_keep_no_state :
  Globals.hidden_state_free Globals.anchors_C16 = true.
Proof. vm_compute. reflexivity. Qed.

Print Assumptions C16_pco_roundtrip.
Print Assumptions C16_pco_first_octet.
Print Assumptions C16_pco_helpers_wf.
Print Assumptions C16_pco_total.
Print Assumptions C16_pco_total_full.
Print Assumptions C16_pco_contents_from_input.
Print Assumptions C16_pco_contents_octets_from_input.
Print Assumptions C16_pco_accepts_iff.
Print Assumptions C16_pco_result_wf.
Print Assumptions C16_psi_bitmap_roundtrip_buf.
Print Assumptions C16_psi_bitmap_roundtrip_array.
Print Assumptions C16_psi_total.
Print Assumptions C16_reactivation_error_cause.
Print Assumptions C16_reactivation_error_cause_pairs.
Print Assumptions C16_anchor_files_keep_no_state.
