(* C20 -- policy-section identifier allocator (uePolicyContainer/UPSC_Generator.go).

   "For every sequence of allocate, allocate-in-range and free operations on one
    allocator, each returned identifier lies within the allocator's configured
    bounds and differs from every identifier allocated and not yet freed. Plain
    allocation fails only when all identifiers are live, and a freed identifier
    becomes allocatable again."

   Statements are about C20/Model.v (hand-written model of the Go text with
   explicit int64 wrap-around, Go's truncating %, division-by-zero panic and
   fuel-bounded loops).  The arguments of Allocate_inRange and FreeID range over
   ALL of Z (hence over all int64 values); the only hypothesis is [bounds_ok]:
   min and max are int64 values, min <= max, and the width max - min + 1 is
   itself an int64 value (otherwise NewGenerator's valueRange wraps: see
   C20_range_hypothesis_needed).

   [live g]   = identifiers allocated and not yet freed (offsets in the map + min)
   [step g o] = one API call with loop fuel (number of live ids) + 1 <= valueRange + 1
                (C20_no_hang: any fuel >= valueRange + 1 gives the same result). *)
From NV Require C19.Globals.
From NV Require Import Lib.Base C20.Model C20.Spec C20.Proofs C20.Proofs_inrange.
Open Scope Z_scope.

(* the invariant holds for a fresh generator over any admissible [min, max] *)
Theorem C20_inv_init : forall lo hi, bounds_ok lo hi -> Inv (init lo hi).
Proof. exact Inv_init. Qed.

(* every operation, with arbitrary arguments, ends without panic or hang, keeps
   the invariant and the bounds, and is a step of the abstract allocator
   "set of live identifiers" (Spec.spec_step) *)
Theorem C20_inv_step : forall g o, Inv g ->
  exists g' r, step g o = Ok (g', r) /\ Inv g' /\
    minValue g' = minValue g /\ maxValue g' = maxValue g /\
    spec_step (minValue g) (maxValue g) (live g) o r (live g').
Proof. exact step_refines. Qed.

(* a returned identifier (Allocate or Allocate_inRange, any arguments) lies in [min, max] *)
Theorem C20_in_bounds : forall g o g' id, Inv g ->
  (o = OpAllocate \/ exists a b, o = OpAllocateInRange a b) ->
  step g o = Ok (g', RId id) -> minValue g <= id <= maxValue g.
Proof. exact in_bounds. Qed.

(* ... and was not live: id - min was not in the map before; afterwards exactly it was added *)
Theorem C20_fresh : forall g o g' id, Inv g ->
  (o = OpAllocate \/ exists a b, o = OpAllocateInRange a b) ->
  step g o = Ok (g', RId id) ->
  ~ In (id - minValue g) (usedMap g) /\ ~ In id (live g) /\ live g' = id :: live g.
Proof. exact fresh. Qed.

(* plain allocation fails iff all valueRange identifiers are live (and then changes nothing) *)
Theorem C20_fail_iff_full : forall g, Inv g ->
  ((exists g', step g OpAllocate = Ok (g', RFail)) <-> length (usedMap g) = Z.to_nat (valueRange g)) /\
  (forall g', step g OpAllocate = Ok (g', RFail) ->
      g' = g /\ forall id, minValue g <= id <= maxValue g -> In id (live g)).
Proof. exact fail_iff_full. Qed.

(* after FreeID id (id within bounds, live or not) the identifier is not live and is
   allocatable again: fewer than valueRange further plain allocations, all of which
   succeed with other identifiers, are followed by an Allocate that returns id; and
   Allocate_inRange aimed at its offset (id - min, any second argument) returns it at once *)
Theorem C20_free_realloc : forall g id, Inv g -> minValue g <= id <= maxValue g ->
  let g0 := FreeID g id in
  ~ In id (live g0) /\
  (exists m g1 rs g2, (m < Z.to_nat (valueRange g))%nat /\
     run_ops g0 (repeat OpAllocate m) = Ok (g1, rs) /\
     Forall (fun r => exists id', r = RId id' /\ id' <> id) rs /\
     step g1 OpAllocate = Ok (g2, RId id)) /\
  (forall b, exists g1, step g0 (OpAllocateInRange (id - minValue g) b) = Ok (g1, RId id)).
Proof. exact free_then_realloc. Qed.

(* FreeID removes exactly that identifier from the live set and nothing else;
   an identifier outside [min, max] is ignored *)
Theorem C20_free : forall g id, Inv g ->
  Inv (FreeID g id) /\ live (FreeID g id) = spec_remove id (live g) /\
  (~ (minValue g <= id <= maxValue g) -> FreeID g id = g).
Proof. exact free_spec. Qed.

(* the loops never run out of fuel: valueRange + 1 is enough, and so is (number of
   live identifiers) + 1, which is what [step] supplies; more fuel changes nothing *)
Theorem C20_no_hang : forall fuel g o, Inv g ->
  (Z.to_nat (valueRange g) + 1 <= fuel)%nat \/ (length (usedMap g) + 1 <= fuel)%nat ->
  step_fuel fuel g o = step g o /\ exists g' r, step g o = Ok (g', r).
Proof. exact no_hang. Qed.

(* every history from a fresh generator: no panic, no hang, and the observed results
   are a run of the abstract allocator from the empty live set, ending in the
   model's live set, which is duplicate-free and within [min, max] *)
Theorem C20_histories : forall lo hi ops, bounds_ok lo hi ->
  exists g' rs, run_ops (init lo hi) ops = Ok (g', rs) /\ Inv g' /\
    spec_run lo hi [] ops rs (live g') /\ live_ok lo hi (live g').
Proof. exact histories_from_init. Qed.

(* ... and from every state satisfying the invariant *)
Theorem C20_histories_from : forall ops g, Inv g ->
  exists g' rs, run_ops g ops = Ok (g', rs) /\ Inv g' /\
    minValue g' = minValue g /\ maxValue g' = maxValue g /\
    spec_run (minValue g) (maxValue g) (live g) ops rs (live g').
Proof. exact histories_refine. Qed.

(* what Allocate_inRange(a, b) computes, in closed form ([cyc R s k] = (s + k) mod R).  With
   s = a mod valueRange (the arguments are OFFSETS, not identifiers) and o = the offset before
   the call: it returns min + cyc s k for the first position k >= 0, cyclically from s, that is
   not in the map, provided none of the positions 1..k is o or b; otherwise it fails at the
   first position j >= 1 that is o or b, leaving the offset there and the map unchanged.
   So it may fail although identifiers are free, and b is no upper bound (examples below);
   the property asks only for bounds and freshness, which C20_in_bounds / C20_fresh give. *)
Theorem C20_inrange_meaning : forall fuel g a b,
  Inv g -> (length (usedMap g) + 1 <= fuel)%nat ->
  let R := valueRange g in let s := a mod R in let o := offset g in
  (exists k, 0 <= k < R /\ ~ In (cyc R s k) (usedMap g) /\
      (forall i, 0 <= i < k -> In (cyc R s i) (usedMap g)) /\
      (forall i, 1 <= i <= k -> cyc R s i <> o /\ cyc R s i <> b) /\
      Allocate_inRange fuel g a b =
        Ok (mkgen (minValue g) (maxValue g) R (cyc R s (k + 1)) (cyc R s k :: usedMap g),
            Some (cyc R s k + minValue g)))
  \/ (exists j, 1 <= j <= R /\
      (forall i, 0 <= i < j -> In (cyc R s i) (usedMap g)) /\
      (forall i, 1 <= i < j -> cyc R s i <> o /\ cyc R s i <> b) /\
      (cyc R s j = o \/ cyc R s j = b) /\
      Allocate_inRange fuel g a b = Ok (with_offset g (cyc R s j), None)).
Proof. exact Allocate_inRange_meaning. Qed.

Example C20_inrange_fails_though_free :
  run_ops (init 0 9) [OpAllocate; OpAllocateInRange 0 5] = Ok (mkgen 0 9 10 1 [0], [RId 0; RFail]).
Proof. exact inRange_fails_though_free. Qed.

Example C20_inrange_max_is_not_a_bound :
  run_ops (init 0 9) [OpAllocateInRange 7 3] = Ok (mkgen 0 9 10 8 [7], [RId 7]).
Proof. exact inRange_max_is_not_a_bound. Qed.

(* wrap64 is two's-complement reduction *)
Theorem C20_wrap64 : forall z, wrap64 z = (z + 2 ^ 63) mod 2 ^ 64 - 2 ^ 63.
Proof. exact wrap64_mod. Qed.

(* the width hypothesis cannot be dropped: over the whole int64 range valueRange
   wraps to 0 and the first Allocate panics (integer divide by zero) *)
Theorem C20_range_hypothesis_needed : step (init (- 2 ^ 63) (2 ^ 63 - 1)) OpAllocate = Panic.
Proof. exact overflow_range_panics. Qed.

(* non-vacuity *)
Example C20_example_bounds :
  bounds_ok 5 7 /\ bounds_ok (- 2 ^ 63) (-2) /\ bounds_ok (2 ^ 63 - 4) (2 ^ 63 - 1).
Proof. exact example_bounds. Qed.

Example C20_example_history :
  run_ops (init 5 7)
    [OpAllocate; OpAllocate; OpAllocate; OpAllocate; OpFreeID 6; OpFreeID 9; OpAllocate; OpAllocate;
     OpFreeID 5; OpFreeID 7; OpAllocateInRange (-1) 100; OpAllocateInRange 4 0; OpAllocateInRange 0 1]
  = Ok (mkgen 5 7 3 1 [0; 2; 1],
        [RId 5; RId 6; RId 7; RFail; RNone; RNone; RId 6; RFail;
         RNone; RNone; RId 7; RFail; RId 5]).
Proof. exact example_history. Qed.

(* the functions this property is about are functions of their arguments: the files it is anchored in declare
   no package-level variable other than the pinned read-only tables (or a never-touched one of plain type) and
   none of their functions writes, slices, takes the address of, passes on or calls a method of a
   package-level variable (logger entries excepted) -- evaluated on the current source (C19/Globals.v) *)
Theorem C20_anchor_files_keep_no_state :
  Globals.hidden_state_free Globals.anchors_C20 = true.
Proof. vm_compute. reflexivity. Qed.

Print Assumptions C20_inv_init.
Print Assumptions C20_inv_step.
Print Assumptions C20_in_bounds.
Print Assumptions C20_fresh.
Print Assumptions C20_fail_iff_full.
Print Assumptions C20_free_realloc.
Print Assumptions C20_free.
Print Assumptions C20_no_hang.
Print Assumptions C20_histories.
Print Assumptions C20_histories_from.
Print Assumptions C20_inrange_meaning.
Print Assumptions C20_wrap64.
Print Assumptions C20_range_hypothesis_needed.
Print Assumptions C20_anchor_files_keep_no_state.
