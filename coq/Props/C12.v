(* C12 -- SUCI, 5G-GUTI, 5G-S-TMSI, IMEI/IMEISV, PLMN and AMF identifiers convert faithfully between
   wire octets and text; plus the C14 obligations (never panics) of the same functions.

   Statements are about the hand-written model C12/Model.v of nasConvert/{MobileIdentity5GS,PlmnId,AmfId}.go
   and of the nasType text getters / accessors (tied to the compiled code by the correspondence run), and the
   independent specification C12/Spec.v (TS 24.501 9.11.3.4, TS 24.008 10.5.1.3, TS 23.003).
   Model function results: Ok v | Err (the Go error result) | Panic (run-time panic). *)
From NV Require C19.Globals.
From NV Require Import Lib.Base C12.GoStd C12.Model C12.Spec C12.Proofs.
Open Scope N_scope.

(* ===== PLMN ===== *)
(* text -> wire: the octets of TS 24.008 10.5.1.3, for every MCC and every 2- and 3-digit MNC *)
Theorem C12_plmn_wire : forall p, plmn_ok p ->
  PlmnIDToNas (Spec.mcc_text p) (Spec.mnc_text p) = Ok (plmn_wire p).
Proof. exact plmn_wire_ok. Qed.

(* wire -> text *)
Theorem C12_plmn_text : forall p, plmn_ok p -> PlmnIDToString (plmn_wire p) = Ok (plmn_text p).
Proof. exact plmn_text_ok. Qed.

(* both round trips *)
Theorem C12_plmn_roundtrip : forall p, plmn_ok p ->
  (w <- PlmnIDToNas (Spec.mcc_text p) (Spec.mnc_text p) ;; PlmnIDToString w) = Ok (plmn_text p) /\
  (s <- PlmnIDToString (plmn_wire p) ;; mcc <- slice s 0 3 ;; mnc <- slice_from s 3 ;; PlmnIDToNas mcc mnc)
    = Ok (plmn_wire p).
Proof. intros p H. split; [apply plmn_roundtrip_text|apply plmn_roundtrip_wire]; exact H. Qed.

Example C12_plmn_example :
  plmn_ok {| mcc1 := 2; mcc2 := 0; mcc3 := 8; mnc1 := 9; mnc2 := 3; mnc3 := None |} /\
  PlmnIDToNas [50; 48; 56] [57; 51] = Ok [2; 248; 57] /\ PlmnIDToString [2; 248; 57] = Ok [50; 48; 56; 57; 51].
Proof. repeat split; vm_compute; reflexivity. Qed.

(* PlmnIDToString's documented domain (no error result): three octets *)
Theorem C12_total_PlmnIDToString_partial : forall buf, (3 <= length buf)%nat -> is_total (PlmnIDToString buf).
Proof. exact PlmnIDToString_total. Qed.

(* ===== AMF identifier ===== *)
(* AmfIdToNasWithError is the specification's parser on EVERY string: accepted text (6 hex digits, either
   case) gives region / set / pointer of the 24-bit value, everything else is an error *)
Theorem C12_amfid_wire : forall s a, parse_amf_text s = Some a ->
  AmfIdToNasWithError s = Ok (region a, set a, pointer a).
Proof. intros s a H. rewrite amf_nas_spec, H. reflexivity. Qed.

Theorem C12_amfid_text : forall a, amf_ok a -> AmfIdToModels (region a) (set a) (pointer a) = amf_text a.
Proof. exact amf_models_text. Qed.

(* 8 / 10 / 6 split of the three octets, for all 2^24 values *)
Theorem C12_amfid_layout : forall o0 o1 o2, o0 < 256 -> o1 < 256 -> o2 < 256 ->
  AmfIdToNasWithError (hex_EncodeToString [o0; o1; o2]) = Ok (o0, o1 * 4 + o2 / 64, o2 mod 64).
Proof. exact amf_layout. Qed.

(* both round trips, all 2^24 identifiers (arithmetic, no enumeration) *)
Theorem C12_amfid_roundtrip :
  (forall a, amf_ok a ->
     AmfIdToNasWithError (AmfIdToModels (region a) (set a) (pointer a)) = Ok (region a, set a, pointer a)) /\
  (forall a, amf_ok a ->
     (r <- AmfIdToNasWithError (amf_text a) ;; let '(x, y, z) := r in Ok (AmfIdToModels x y z)) = Ok (amf_text a)) /\
  (forall s a, parse_amf_text s = Some a ->
     (r <- AmfIdToNasWithError s ;; let '(x, y, z) := r in Ok (AmfIdToModels x y z)) = Ok (amf_text a)).
Proof.
  split; [exact amf_roundtrip_nas|]. split; [|exact amf_roundtrip_text].
  intros a H. apply amf_roundtrip_text, parse_amf_text_text, H.
Qed.

Example C12_amfid_example :
  amf_ok {| region := 202; set := 1017; pointer := 1 |} /\
  AmfIdToNasWithError [99; 97; 102; 101; 52; 49] = Ok (202, 1017, 1) /\
  AmfIdToModels 202 1017 1 = [99; 97; 102; 101; 52; 49].
Proof. repeat split; vm_compute; reflexivity. Qed.

(* ===== 5G-GUTI ===== *)
(* text -> wire: every accepted text (19 / 20 characters) gives exactly the octets of Figure 9.11.3.4.1 *)
Theorem C12_guti_wire : forall s g, bytes_ok s -> parse_guti_text s = Some g ->
  GutiToNasWithError s = Ok (0, 11, guti_wire g).
Proof. exact guti_nas_ok. Qed.

(* wire -> text *)
Theorem C12_guti_text : forall g, guti_ok g ->
  GutiToStringWithError (guti_wire g) =
  Ok (Spec.mcc_text (g_plmn g), Spec.mnc_text (g_plmn g), amf_text (g_amf g), guti_text g).
Proof. exact guti_str_ok. Qed.

Theorem C12_guti_roundtrip : forall g, guti_ok g ->
  (r <- GutiToNasWithError (guti_text g) ;; let '(_, _, o) := r in GutiToStringWithError o)
    = Ok (Spec.mcc_text (g_plmn g), Spec.mnc_text (g_plmn g), amf_text (g_amf g), guti_text g) /\
  (r <- GutiToStringWithError (guti_wire g) ;; let '(_, _, _, s) := r in GutiToNasWithError s)
    = Ok (0, 11, guti_wire g).
Proof. intros g H. split; [apply guti_roundtrip_text|apply guti_roundtrip_wire]; exact H. Qed.

(* accepted text with upper-case hex digits comes back in canonical lower case *)
Theorem C12_guti_roundtrip_accepted : forall s g, bytes_ok s -> parse_guti_text s = Some g ->
  (r <- GutiToNasWithError s ;; let '(_, _, o) := r in GutiToStringWithError o)
    = Ok (Spec.mcc_text (g_plmn g), Spec.mnc_text (g_plmn g), amf_text (g_amf g), guti_text g).
Proof. exact guti_roundtrip_accepted. Qed.

(* the specification's own grammar and printer agree (non-vacuity of the hypotheses above) *)
Theorem C12_guti_spec_consistent : forall g, guti_ok g ->
  parse_guti_text (guti_text g) = Some g /\ bytes_ok (guti_text g).
Proof. intros g H. split; [apply parse_guti_text_text|apply guti_text_bytes]; exact H. Qed.

Example C12_guti_example :   (* "20893cafe0000000001" *)
  let g := {| g_plmn := {| mcc1 := 2; mcc2 := 0; mcc3 := 8; mnc1 := 9; mnc2 := 3; mnc3 := None |};
              g_amf := {| region := 202; set := 1016; pointer := 0 |}; g_tmsi := 1 |} in
  guti_ok g /\ guti_text g = [50; 48; 56; 57; 51; 99; 97; 102; 101; 48; 48; 48; 48; 48; 48; 48; 48; 48; 49] /\
  GutiToNasWithError (guti_text g) = Ok (0, 11, [242; 2; 248; 57; 202; 254; 0; 0; 0; 0; 1]).
Proof. repeat split; vm_compute; reflexivity. Qed.

(* the nasType getters on the same octets *)
Theorem C12_guti_getters : forall g, guti_ok g ->
  let w := guti_wire g in let p := g_plmn g in let a := g_amf g in
  MI_GetTypeOfIdentity w = Ok s_5GGUTI /\
  MI_GetMCC w = Ok (Spec.mcc_text p) /\ MI_GetMNC w = Ok (Spec.mnc_text p) /\ MI_GetPlmnID w = Ok (plmn_text p) /\
  MI_GetAmfID w = Ok (amf_text a) /\ MI_GetAmfRegionID w = Ok (hex_text 2 (region a)) /\
  MI_GetAmfSetID w = Ok (dec_text (set a)) /\ MI_GetAmfPointer w = Ok (dec_text (pointer a)) /\
  MI_Get5GTMSI w = Ok (hex_text 8 (g_tmsi g)) /\
  MI_Get5GGUTI w = Ok (guti_text g) /\
  MI_GetMobileIdentity w = Ok (guti_text g, s_5GGUTI).
Proof. exact guti_getters. Qed.

(* ===== SUCI ===== *)
(* IMSI format: null scheme (MSIN in BCD) and every other scheme (hex), routing indicators of 1-4 digits,
   2- and 3-digit MNC; both nasConvert.SuciToStringWithError and nasType GetSUCI / GetMobileIdentity *)
Theorem C12_suci_text : forall s, suci_ok s ->
  SuciToStringWithError (suci_wire s) = Ok (suci_text s, plmn_text (s_plmn s)) /\
  MI_GetSUCI (suci_wire s) = Ok (suci_text s) /\
  MI_GetMobileIdentity (suci_wire s) = Ok (suci_text s, s_SUCI).
Proof.
  intros s H. destruct (suci_text_ok s H) as (A & B). repeat split; try assumption.
  apply suci_mobile_identity, H.
Qed.

(* NAI format *)
Theorem C12_suci_nai_text : forall nai, bytes_ok nai -> (1 <= length nai)%nat ->
  SuciToStringWithError (nai_wire nai) = Ok (nai_text nai, []) /\
  NaiToString (nai_wire nai) = Ok (nai_text nai) /\
  MI_GetSUCI (nai_wire nai) = Ok (nai_text nai).
Proof. exact nai_text_ok. Qed.

Example C12_suci_example :   (* "suci-0-208-93-0-0-0-00007487" *)
  let s := {| s_plmn := {| mcc1 := 2; mcc2 := 0; mcc3 := 8; mnc1 := 9; mnc2 := 3; mnc3 := None |};
              s_ri := [0]; s_scheme := 0; s_hnpki := 0; s_msin := [0; 0; 0; 0; 7; 4; 8; 7]; s_out := [] |} in
  suci_ok s /\ suci_wire s = [1; 2; 248; 57; 240; 255; 0; 0; 0; 0; 71; 120] /\
  suci_text s = [115;117;99;105;45;48;45;50;48;56;45;57;51;45;48;45;48;45;48;45;48;48;48;48;55;52;56;55].
Proof.
  cbv zeta. split; [|split; vm_compute; reflexivity].
  unfold suci_ok, plmn_ok, decs. cbn. repeat split; try lia; repeat constructor; lia.
Qed.

Example C12_suci_example_scheme1 :   (* 3-digit MNC, 4-digit routing indicator, profile A *)
  let s := {| s_plmn := {| mcc1 := 3; mcc2 := 1; mcc3 := 0; mnc1 := 2; mnc2 := 6; mnc3 := Some 0 |};
              s_ri := [1; 2; 3; 4]; s_scheme := 1; s_hnpki := 27; s_msin := []; s_out := [222; 173] |} in
  suci_ok s /\ SuciToStringWithError (suci_wire s) = Ok (suci_text s, plmn_text (s_plmn s)).
Proof.
  cbv zeta. split; [|vm_compute; reflexivity].
  unfold suci_ok, plmn_ok, decs, bytes_ok, is_byte. cbn. repeat split; try lia; repeat constructor; lia.
Qed.

(* ===== 5G-S-TMSI ===== *)
Theorem C12_stmsi_text : forall t, stmsi_ok t ->
  MI_Get5GSTMSI (stmsi_wire t) = Ok (stmsi_text t, s_5GSTMSI) /\
  TMSI5GS_Get5GSTMSI (stmsi_wire t) = Ok (stmsi_text t) /\
  MI_GetAmfSetID (stmsi_wire t) = Ok (dec_text (t_set t)) /\
  MI_GetAmfPointer (stmsi_wire t) = Ok (dec_text (t_pointer t)) /\
  MI_Get5GTMSI (stmsi_wire t) = Ok (hex_text 8 (t_tmsi t)).
Proof.
  intros t H. destruct (stmsi_text_ok t) as (A & B).
  destruct (stmsi_getters t H) as (_ & C & D & E & _). repeat split; assumption.
Qed.

(* GetMobileIdentity on a 5G-S-TMSI returns the full 5G-S-TMSI text (finding F25, fixed by c23cc0d: it used to
   answer a.Get5GTMSI(), the 32-bit 5G-TMSI only) *)
Theorem C12_stmsi_mobile_identity : forall t, stmsi_ok t ->
  MI_GetMobileIdentity (stmsi_wire t) = Ok (stmsi_text t, s_5GSTMSI).
Proof. exact stmsi_mobile_identity. Qed.

Example C12_stmsi_mobile_identity_example :   (* the F25 witness f4 fe 00 00 00 00 01 *)
  MI_GetMobileIdentity [244; 254; 0; 0; 0; 0; 1] = Ok ([102; 101; 48; 48; 48; 48; 48; 48; 48; 48; 48; 49], s_5GSTMSI).
Proof. vm_compute. reflexivity. Qed.

Example C12_stmsi_example :
  let t := {| t_set := 1016; t_pointer := 0; t_tmsi := 1 |} in
  stmsi_ok t /\ stmsi_wire t = [244; 254; 0; 0; 0; 0; 1] /\
  stmsi_text t = [102; 101; 48; 48; 48; 48; 48; 48; 48; 48; 48; 49].
Proof. repeat split; vm_compute; reflexivity. Qed.

(* ===== IMEI / IMEISV ===== *)
(* any number of digits >= 1 (IMEI: 15, odd; IMEISV: 16, even with the 1111 end mark) *)
Theorem C12_pei_text : forall typ ds, (typ = 3 \/ typ = 5) -> decs ds -> (1 <= length ds)%nat ->
  PeiToStringWithError (pei_wire typ ds) = Ok (pei_text typ ds) /\
  (typ = 3 -> MI_GetIMEI (pei_wire typ ds) = Ok (pei_text 3 ds) /\
              MI_GetMobileIdentity (pei_wire typ ds) = Ok (pei_text 3 ds, s_IMEI)) /\
  (typ = 5 -> MI_GetIMEISV (pei_wire typ ds) = Ok (pei_text 5 ds) /\
              MI_GetMobileIdentity (pei_wire typ ds) = Ok (pei_text 5 ds, s_IMEISV)).
Proof.
  intros typ ds Ht Hd Hl. split; [apply pei_text_ok; assumption|].
  destruct (pei_getters typ ds Ht Hd Hl) as (A & B). split; intro E.
  - destruct (A E) as (X & _ & Y). split; assumption.
  - destruct (B E) as (X & _ & Y). split; assumption.
Qed.

Example C12_pei_example :
  PeiToStringWithError (pei_wire 3 [1;2;3;4;5;6;7;8;9;0;1;2;3;4;5]) = Ok (pei_text 3 [1;2;3;4;5;6;7;8;9;0;1;2;3;4;5]) /\
  pei_wire 3 [1;2;3;4;5;6;7;8;9;0;1;2;3;4;5] = [27; 50; 84; 118; 152; 16; 50; 84] /\
  pei_wire 5 [1;2;3;4;5;6;7;8;9;0;1;2;3;4;5;6] = [21; 50; 84; 118; 152; 16; 50; 84; 246].
Proof. repeat split; vm_compute; reflexivity. Qed.

(* ===== invalid text is an error ===== *)
(* every octet string that is not accepted GUTI text (wrong length, a non-digit in MCC/MNC, a non-hex
   character, multi-byte UTF-8, sign characters ...) and every string that is not a 6-hex-digit AMF id *)
Theorem C12_invalid_text_err :
  (forall s, bytes_ok s -> parse_guti_text s = None -> GutiToNasWithError s = Err) /\
  (forall s, parse_amf_text s = None -> AmfIdToNasWithError s = Err).
Proof. split; [exact guti_nas_err|exact amf_invalid_err]. Qed.

Example C12_invalid_text_example :
  parse_guti_text [50;48;56;57;51;99;97;102;101;48;48;48;48;48;48;48;48;48] = None /\          (* 18 characters *)
  parse_guti_text [50;97;56;57;51;99;97;102;101;48;48;48;48;48;48;48;48;48;49] = None /\       (* 'a' in the MCC *)
  parse_guti_text [50;48;56;57;51;99;97;103;101;48;48;48;48;48;48;48;48;48;49] = None /\       (* 'g' in the AMF id *)
  parse_guti_text [195;169;56;57;51;99;97;102;101;48;48;48;48;48;48;48;48;48;49] = None /\     (* UTF-8 e-acute *)
  parse_amf_text [99; 97; 102; 101; 52] = None /\ parse_amf_text [] = None.
Proof. repeat split; vm_compute; reflexivity. Qed.

(* ===== nasType accessors agree with AmfIdToNasWithError on the same octets ===== *)
Theorem C12_accessors_consistent :
  (forall o, length o = 11%nat -> bytes_ok o ->
     AmfIdToNasWithError (hex_EncodeToString (firstn 3 (skipn 4 o))) =
     Ok (GUTI5G_GetAMFRegionID o, GUTI5G_GetAMFSetID o, GUTI5G_GetAMFPointer o)) /\
  (forall o r, length o = 7%nat -> bytes_ok o -> r < 256 ->
     AmfIdToNasWithError (hex_EncodeToString (r :: firstn 2 (skipn 1 o))) =
     Ok (r, TMSI5GS_GetAMFSetID o, TMSI5GS_GetAMFPointer o)).
Proof. split; [exact guti_accessors_consistent|exact tmsi_accessors_consistent]. Qed.

(* SetAMFSetID / SetAMFPointer then the getters: the values written, no other octet touched
   (i = 5 for GUTI5G, i = 1 for TMSI5GS) *)
Theorem C12_accessors_set_get : forall i o s p,
  (S i < length o)%nat -> bytes_ok o -> s < 1024 -> p < 64 ->
  let o' := SetAMFPointer_at (S i) (SetAMFSetID_at i o s) p in
  GetAMFSetID_at i o' = s /\ GetAMFPointer_at (S i) o' = p /\
  length o' = length o /\ bytes_ok o' /\
  forall j, j <> i -> j <> S i -> nth j o' 0 = nth j o 0.
Proof. exact set_get_at. Qed.

(* ===== C14: the conversion helpers never panic ===== *)
Theorem C12_total_SuciToStringWithError : forall buf, is_total (SuciToStringWithError buf).
Proof. exact SuciToStringWithError_total. Qed.
Theorem C12_total_SuciToString : forall buf, is_total (SuciToString buf).
Proof. exact SuciToString_total. Qed.
Theorem C12_total_NaiToString : forall buf, is_total (NaiToString buf).
Proof. exact NaiToString_total. Qed.
Theorem C12_total_GutiToStringWithError : forall buf, is_total (GutiToStringWithError buf).
Proof. exact GutiToStringWithError_total. Qed.
Theorem C12_total_GutiToString : forall buf, is_total (GutiToString buf).
Proof. exact GutiToString_total. Qed.
Theorem C12_total_PeiToStringWithError : forall buf, is_total (PeiToStringWithError buf).
Proof. exact PeiToStringWithError_total. Qed.
Theorem C12_total_PeiToString : forall buf, is_total (PeiToString buf).
Proof. exact PeiToString_total. Qed.
Theorem C12_total_GutiToNasWithError : forall s, bytes_ok s -> is_total (GutiToNasWithError s).
Proof. exact GutiToNasWithError_total. Qed.
Theorem C12_total_GutiToNas : forall s, bytes_ok s -> is_total (GutiToNas s).
Proof. exact GutiToNas_total. Qed.
Theorem C12_total_AmfIdToNasWithError : forall s, is_total (AmfIdToNasWithError s).
Proof. exact AmfIdToNasWithError_total. Qed.
Theorem C12_total_AmfIdToNas : forall s, is_total (AmfIdToNas s).
Proof. exact AmfIdToNas_total. Qed.

(* PlmnIDToNas has no error result; its documented domain is a 3-character MCC and a 2/3-character MNC *)
Theorem C12_total_PlmnIDToNas_partial : forall mcc mnc,
  bytes_ok mcc -> bytes_ok mnc -> (3 <= length mcc)%nat -> (2 <= length mnc)%nat -> is_total (PlmnIDToNas mcc mnc).
Proof. exact PlmnIDToNas_total. Qed.

(* OBSERVATION (outside the property as read here, the helper has no error result): a non-digit in the text
   is logged and encoded as digit 0, e.g. MCC "2a8" gives the octets of MCC 208 *)
Example C12_PlmnIDToNas_nondigit_observation :
  PlmnIDToNas [50; 97; 56] [57; 51] = Ok [2; 248; 57] /\ PlmnIDToNas [50; 48; 56] [57; 51] = Ok [2; 248; 57].
Proof. split; vm_compute; reflexivity. Qed.

(* malformed octets are signalled by the error result exactly when they are too short *)
Theorem C12_suci_err_iff : forall buf,
  SuciToStringWithError buf = Err <->
  match buf with
  | [] => True
  | b0 :: _ => if N.shiftr (N.land b0 240) 4 =? 1 then (length buf < 2)%nat else (length buf < 9)%nat
  end.
Proof. exact SuciToStringWithError_err_iff. Qed.
Theorem C12_pei_err_iff : forall buf, PeiToStringWithError buf = Err <-> buf = [].
Proof. exact PeiToStringWithError_err_iff. Qed.

(* ===== C14 / finding F9: the nasType.MobileIdentity5GS text getters index a.Buffer unguarded.
   Each is total exactly from a minimal Buffer length on (_partial) and panics on some Buffer of every
   shorter length (_refuted).  FULL statement (false today): forall buf, is_total (getter buf). ===== *)
Theorem C12_total_GetTypeOfIdentity_partial : forall buf, (1 <= length buf)%nat -> is_total (MI_GetTypeOfIdentity buf).
Proof. exact MI_GetTypeOfIdentity_total. Qed.
Theorem C12_total_GetTypeOfIdentity_refuted : forall k, (k < 1)%nat -> exists buf, length buf = k /\ MI_GetTypeOfIdentity buf = Panic.
Proof. exact MI_GetTypeOfIdentity_refuted. Qed.
Theorem C12_total_GetMobileIdentity_partial : forall buf, (9 <= length buf)%nat -> is_total (MI_GetMobileIdentity buf).
Proof. exact MI_GetMobileIdentity_total. Qed.
Theorem C12_total_GetMobileIdentity_refuted : forall k, (k < 9)%nat -> exists buf, length buf = k /\ MI_GetMobileIdentity buf = Panic.
Proof. exact MI_GetMobileIdentity_refuted. Qed.
Theorem C12_total_GetSUCI_partial : forall buf, (9 <= length buf)%nat -> is_total (MI_GetSUCI buf).
Proof. exact MI_GetSUCI_total. Qed.
Theorem C12_total_GetSUCI_refuted : forall k, (k < 9)%nat -> exists buf, length buf = k /\ MI_GetSUCI buf = Panic.
Proof. exact MI_GetSUCI_refuted. Qed.
Theorem C12_total_GetPlmnID_partial : forall buf, (4 <= length buf)%nat -> is_total (MI_GetPlmnID buf).
Proof. exact MI_GetPlmnID_total. Qed.
Theorem C12_total_GetPlmnID_refuted : forall k, (k < 4)%nat -> exists buf, length buf = k /\ MI_GetPlmnID buf = Panic.
Proof. exact MI_GetPlmnID_refuted. Qed.
Theorem C12_total_GetMCC_partial : forall buf, (3 <= length buf)%nat -> is_total (MI_GetMCC buf).
Proof. exact MI_GetMCC_total. Qed.
Theorem C12_total_GetMCC_refuted : forall k, (k < 3)%nat -> exists buf, length buf = k /\ MI_GetMCC buf = Panic.
Proof. exact MI_GetMCC_refuted. Qed.
Theorem C12_total_GetMNC_partial : forall buf, (4 <= length buf)%nat -> is_total (MI_GetMNC buf).
Proof. exact MI_GetMNC_total. Qed.
Theorem C12_total_GetMNC_refuted : forall k, (k < 4)%nat -> exists buf, length buf = k /\ MI_GetMNC buf = Panic.
Proof. exact MI_GetMNC_refuted. Qed.
Theorem C12_total_Get5GGUTI_partial : forall buf, (7 <= length buf)%nat -> is_total (MI_Get5GGUTI buf).
Proof. exact MI_Get5GGUTI_total. Qed.
Theorem C12_total_Get5GGUTI_refuted : forall k, (k < 7)%nat -> exists buf, length buf = k /\ MI_Get5GGUTI buf = Panic.
Proof. exact MI_Get5GGUTI_refuted. Qed.
Theorem C12_total_GetAmfID_partial : forall buf, (7 <= length buf)%nat -> is_total (MI_GetAmfID buf).
Proof. exact MI_GetAmfID_total. Qed.
Theorem C12_total_GetAmfID_refuted : forall k, (k < 7)%nat -> exists buf, length buf = k /\ MI_GetAmfID buf = Panic.
Proof. exact MI_GetAmfID_refuted. Qed.
Theorem C12_total_GetAmfRegionID_partial : forall buf, (5 <= length buf)%nat -> is_total (MI_GetAmfRegionID buf).
Proof. exact MI_GetAmfRegionID_total. Qed.
Theorem C12_total_GetAmfRegionID_refuted : forall k, (k < 5)%nat -> exists buf, length buf = k /\ MI_GetAmfRegionID buf = Panic.
Proof. exact MI_GetAmfRegionID_refuted. Qed.
Theorem C12_total_GetAmfSetID_partial : forall buf, (7 <= length buf)%nat -> is_total (MI_GetAmfSetID buf).
Proof. exact MI_GetAmfSetID_total. Qed.
Theorem C12_total_GetAmfSetID_refuted : forall k, (k < 7)%nat -> exists buf, length buf = k /\ MI_GetAmfSetID buf = Panic.
Proof. exact MI_GetAmfSetID_refuted. Qed.
Theorem C12_total_GetAmfPointer_partial : forall buf, (7 <= length buf)%nat -> is_total (MI_GetAmfPointer buf).
Proof. exact MI_GetAmfPointer_total. Qed.
Theorem C12_total_GetAmfPointer_refuted : forall k, (k < 7)%nat -> exists buf, length buf = k /\ MI_GetAmfPointer buf = Panic.
Proof. exact MI_GetAmfPointer_refuted. Qed.
Theorem C12_total_Get5GTMSI_partial : forall buf, (7 <= length buf)%nat -> is_total (MI_Get5GTMSI buf).
Proof. exact MI_Get5GTMSI_total. Qed.
Theorem C12_total_Get5GTMSI_refuted : forall k, (k < 7)%nat -> exists buf, length buf = k /\ MI_Get5GTMSI buf = Panic.
Proof. exact MI_Get5GTMSI_refuted. Qed.
Theorem C12_total_Get5GSTMSI_partial : forall buf, (7 <= length buf)%nat -> is_total (MI_Get5GSTMSI buf).
Proof. exact MI_Get5GSTMSI_total. Qed.
Theorem C12_total_Get5GSTMSI_refuted : forall k, (k < 7)%nat -> exists buf, length buf = k /\ MI_Get5GSTMSI buf = Panic.
Proof. exact MI_Get5GSTMSI_refuted. Qed.
Theorem C12_total_GetIMEI_partial : forall buf, (1 <= length buf)%nat -> is_total (MI_GetIMEI buf).
Proof. exact MI_GetIMEI_total. Qed.
Theorem C12_total_GetIMEI_refuted : forall k, (k < 1)%nat -> exists buf, length buf = k /\ MI_GetIMEI buf = Panic.
Proof. exact MI_GetIMEI_refuted. Qed.
Theorem C12_total_GetIMEISV_partial : forall buf, (1 <= length buf)%nat -> is_total (MI_GetIMEISV buf).
Proof. exact MI_GetIMEISV_total. Qed.
Theorem C12_total_GetIMEISV_refuted : forall k, (k < 1)%nat -> exists buf, length buf = k /\ MI_GetIMEISV buf = Panic.
Proof. exact MI_GetIMEISV_refuted. Qed.

(* the decoder-reachable witness: an 8-octet SUCI (IMSI format, null scheme, empty scheme output) *)
Example C12_F9_witness :
  MI_GetSUCI [1; 2; 248; 57; 240; 255; 0; 0] = Panic /\ SuciToStringWithError [1; 2; 248; 57; 240; 255; 0; 0] = Err.
Proof. split; vm_compute; reflexivity. Qed.

(* the functions this property is about are functions of their arguments: the files it is anchored in declare
   no package-level variable other than the pinned read-only tables (or a never-touched one of plain type) and
   none of their functions writes, slices, takes the address of, passes on or calls a method of a
   package-level variable (logger entries excepted) -- evaluated on the current source (C19/Globals.v) *)
Theorem C12_anchor_files_keep_no_state :
  Globals.hidden_state_free Globals.anchors_C12 = true.
Proof. vm_compute. reflexivity. Qed.

Print Assumptions C12_plmn_wire.
Print Assumptions C12_plmn_text.
Print Assumptions C12_plmn_roundtrip.
Print Assumptions C12_total_PlmnIDToString_partial.
Print Assumptions C12_amfid_wire.
Print Assumptions C12_amfid_text.
Print Assumptions C12_amfid_layout.
Print Assumptions C12_amfid_roundtrip.
Print Assumptions C12_guti_wire.
Print Assumptions C12_guti_text.
Print Assumptions C12_guti_roundtrip.
Print Assumptions C12_guti_roundtrip_accepted.
Print Assumptions C12_guti_spec_consistent.
Print Assumptions C12_guti_getters.
Print Assumptions C12_suci_text.
Print Assumptions C12_suci_nai_text.
Print Assumptions C12_stmsi_text.
Print Assumptions C12_stmsi_mobile_identity.
Print Assumptions C12_pei_text.
Print Assumptions C12_invalid_text_err.
Print Assumptions C12_accessors_consistent.
Print Assumptions C12_accessors_set_get.
Print Assumptions C12_total_SuciToStringWithError.
Print Assumptions C12_total_SuciToString.
Print Assumptions C12_total_NaiToString.
Print Assumptions C12_total_GutiToStringWithError.
Print Assumptions C12_total_GutiToString.
Print Assumptions C12_total_PeiToStringWithError.
Print Assumptions C12_total_PeiToString.
Print Assumptions C12_total_GutiToNasWithError.
Print Assumptions C12_total_GutiToNas.
Print Assumptions C12_total_AmfIdToNasWithError.
Print Assumptions C12_total_AmfIdToNas.
Print Assumptions C12_total_PlmnIDToNas_partial.
Print Assumptions C12_suci_err_iff.
Print Assumptions C12_pei_err_iff.
Print Assumptions C12_total_GetTypeOfIdentity_partial.
Print Assumptions C12_total_GetTypeOfIdentity_refuted.
Print Assumptions C12_total_GetMobileIdentity_partial.
Print Assumptions C12_total_GetMobileIdentity_refuted.
Print Assumptions C12_total_GetSUCI_partial.
Print Assumptions C12_total_GetSUCI_refuted.
Print Assumptions C12_total_GetPlmnID_partial.
Print Assumptions C12_total_GetPlmnID_refuted.
Print Assumptions C12_total_GetMCC_partial.
Print Assumptions C12_total_GetMCC_refuted.
Print Assumptions C12_total_GetMNC_partial.
Print Assumptions C12_total_GetMNC_refuted.
Print Assumptions C12_total_Get5GGUTI_partial.
Print Assumptions C12_total_Get5GGUTI_refuted.
Print Assumptions C12_total_GetAmfID_partial.
Print Assumptions C12_total_GetAmfID_refuted.
Print Assumptions C12_total_GetAmfRegionID_partial.
Print Assumptions C12_total_GetAmfRegionID_refuted.
Print Assumptions C12_total_GetAmfSetID_partial.
Print Assumptions C12_total_GetAmfSetID_refuted.
Print Assumptions C12_total_GetAmfPointer_partial.
Print Assumptions C12_total_GetAmfPointer_refuted.
Print Assumptions C12_total_Get5GTMSI_partial.
Print Assumptions C12_total_Get5GTMSI_refuted.
Print Assumptions C12_total_Get5GSTMSI_partial.
Print Assumptions C12_total_Get5GSTMSI_refuted.
Print Assumptions C12_total_GetIMEI_partial.
Print Assumptions C12_total_GetIMEI_refuted.
Print Assumptions C12_total_GetIMEISV_partial.
Print Assumptions C12_total_GetIMEISV_refuted.
Print Assumptions C12_anchor_files_keep_no_state.
