(* C13 -- slice and area lists encode to the specified layout and decode back;
   plus the C14 obligations ("never panics / hangs") for the helpers of the
   same files.

   Model: C13/Model.v (hand-written, follows nasConvert/{Snssai,Nssai,TaiList,
   ServiceAreaList,Ladn,UESecurityCapability,UPUInfo,PlmnId}.go and
   nasType/NAS_DNN.go), Go stdlib calls in C13/GoStd.v.
   Spec: C13/Spec.v -- readers written from TS 24.501 / TS 24.008 and the
   meaning of the text fields (abs_snssai, abs_tai, abs_plmn, text24):
     abs_snssai s = Some (sst, sd)   Sst in 0..255, Sd "" (sd = None) or six hex digits
     abs_tai t    = Some (plmn, tac) PlmnId non-nil, Mcc "ddd", Mnc "dd"/"ddd", Tac six hex digits
     opt_all (map abs_x l) = Some vs every element of l is well formed and denotes vs. *)
From NV Require C19.Globals.
From NV Require Import Lib.Base C13.GoStd C13.Model C13.Spec C13.Proofs.
Open Scope N_scope.

(* ------------------------------------------------------------- S-NSSAI *)

(* SnssaiToNas emits exactly the 9.11.2.8 layout (length octet + value) ... *)
Theorem C13_snssai_layout : forall s v,
  abs_snssai s = Some v ->
  SnssaiToNas s = spec_snssai_octets (mk_s_nssai (fst v) (snd v) None None).
Proof. intros s v H. exact (proj1 (SnssaiToNas_layout s v H)). Qed.

(* ... so the standard's reader recovers SST and SD: all SST 0..255 x SD absent / 24-bit *)
Theorem C13_snssai_spec_decodes : forall s v,
  abs_snssai s = Some v ->
  spec_nssai (SnssaiToNas s) = Some [mk_s_nssai (fst v) (snd v) None None].
Proof. exact snssai_spec_decodes. Qed.

(* the library's own S-NSSAI reader on the nasType.SNSSAI the NAS decoder builds
   (Len = length octet, Octet = value zero-padded to 8): canonical text back *)
Theorem C13_snssai_models_roundtrip : forall s v,
  abs_snssai s = Some v ->
  exists L body, SnssaiToNas s = L :: body /\
                 SnssaiToModels L (octet8 body) = Ok (conc_snssai (fst v) (snd v)).
Proof. exact SnssaiToModels_roundtrip. Qed.

Example C13_snssai_example :
  abs_snssai (mkSnssai 1 [48;49;48;50;70;102]) = Some (1, Some 66303) /\   (* "0102Ff" *)
  SnssaiToNas (mkSnssai 1 [48;49;48;50;70;102]) = [4; 1; 1; 2; 255] /\
  abs_snssai (mkSnssai 255 []) = Some (255, None) /\
  SnssaiToNas (mkSnssai 255 []) = [1; 255] /\
  abs_snssai (mkSnssai 256 []) = None /\ abs_snssai (mkSnssai 1 [48;49]) = None.
Proof. vm_compute. repeat split; reflexivity. Qed.

(* --------------------------------------------------------- rejected NSSAI *)

Theorem C13_rejected_snssai_spec_decodes : forall s v cause,
  abs_snssai s = Some v -> cause < 16 ->
  spec_rejected (RejectedSnssaiToNas s cause) = Some [mk_rejected (fst v) (snd v) cause].
Proof. exact rejected_snssai_spec_decodes. Qed.

(* RejectedNssaiToNas: Len = len(Buffer), and the 9.11.3.46 reader recovers every
   entry with cause 0 (not available in the PLMN) / 1 (in the registration area).
   Up to 51 entries (255 octets) -- the standard allows 8. *)
Theorem C13_rejected_nssai_spec_decodes : forall inPlmn inTa va vb,
  opt_all (map abs_snssai inPlmn) = Some va -> opt_all (map abs_snssai inTa) = Some vb ->
  (length inPlmn + length inTa <= 51)%nat ->
  let r := RejectedNssaiToNas inPlmn inTa in
  fst r = N.of_nat (length (snd r)) /\
  spec_rejected (snd r) = Some (map (fun v => mk_rejected (fst v) (snd v) 0) va
                                ++ map (fun v => mk_rejected (fst v) (snd v) 1) vb).
Proof. exact rejected_nssai_spec_decodes. Qed.

Example C13_rejected_example :
  RejectedNssaiToNas [mkSnssai 1 [48;49;48;50;48;51]] [mkSnssai 2 []] = (7, [64; 1; 1; 2; 3; 17; 2]) /\
  spec_rejected [64; 1; 1; 2; 3; 17; 2] = Some [mk_rejected 1 (Some 66051) 0; mk_rejected 2 None 1].
Proof. vm_compute. split; reflexivity. Qed.

(* ------------------------------------------------------------ NSSAI decoder *)

(* For EVERY octet string (Len = len(Buffer), as the NAS decoder guarantees) the
   decoder returns exactly what the reader of 9.11.3.37 / 9.11.2.8 returns, as
   canonical text, and Err exactly when that reader rejects.  What it accepts:
   any number of entries (no limit of 8), each with length 1, 2, 4, 5 or 8. *)
Theorem C13_nssai_decoder_is_spec : forall bs,
  bytes_ok bs ->
  RequestedNssaiToModels (N.of_nat (length bs)) bs
  = match spec_nssai bs with Some l => Ok (map conc_mapping l) | None => Err end.
Proof. exact RequestedNssaiToModels_eq_spec. Qed.

(* round trip over the standard's layout, all five shapes, any list that fits the
   one-octet Len (in particular 1..8 entries, <= 72 octets) *)
Theorem C13_nssai_roundtrip : forall l,
  forallb s_nssai_ok l = true ->
  let enc := flat_map spec_snssai_octets l in
  (length enc <= 255)%nat ->
  RequestedNssaiToModels (N.of_nat (length enc)) enc = Ok (map conc_mapping l).
Proof. intros l H enc _. exact (nssai_roundtrip l H). Qed.

Theorem C13_nssai_roundtrip_1_8 : forall l,
  forallb s_nssai_ok l = true -> (1 <= length l <= 8)%nat ->
  let enc := flat_map spec_snssai_octets l in
  (length enc <= 72)%nat /\
  RequestedNssaiToModels (N.of_nat (length enc)) enc = Ok (map conc_mapping l).
Proof.
  intros l H Hn enc. split; [|exact (nssai_roundtrip l H)].
  pose proof (nssai_octets_length l H). unfold enc. lia.
Qed.

(* round trip over the library's own encoder (SnssaiToNas per entry) *)
Theorem C13_nssai_lib_roundtrip : forall l vs,
  opt_all (map abs_snssai l) = Some vs ->
  let enc := flat_map SnssaiToNas l in
  RequestedNssaiToModels (N.of_nat (length enc)) enc
  = Ok (map (fun v => mkMapping (Some (conc_snssai (fst v) (snd v))) None) vs).
Proof. exact nssai_lib_roundtrip. Qed.

(* malformed lengths: after any well-formed prefix, a length octet that is not
   1, 2, 4, 5, 8 or that overruns the remaining octets gives Err *)
Theorem C13_nssai_malformed_err : forall l L rest,
  forallb s_nssai_ok l = true -> bytes_ok (L :: rest) ->
  (L <> 1 /\ L <> 2 /\ L <> 4 /\ L <> 5 /\ L <> 8) \/ (length rest < N.to_nat L)%nat ->
  let buf := flat_map spec_snssai_octets l ++ L :: rest in
  RequestedNssaiToModels (N.of_nat (length buf)) buf = Err.
Proof. exact nssai_malformed_err. Qed.

Example C13_nssai_example :
  let l := [mk_s_nssai 1 (Some 66051) None None; mk_s_nssai 2 None None None;
            mk_s_nssai 3 (Some 16777215) (Some 4) (Some 0); mk_s_nssai 5 None (Some 6) None;
            mk_s_nssai 7 (Some 1) (Some 8) None] in
  forallb s_nssai_ok l = true /\
  flat_map spec_snssai_octets l = [4;1;1;2;3; 1;2; 8;3;255;255;255;4;0;0;0; 2;5;6; 5;7;0;0;1;8] /\
  RequestedNssaiToModels 25 (flat_map spec_snssai_octets l) = Ok (map conc_mapping l) /\
  RequestedNssaiToModels 4 [4;1;1;2] = Err /\ RequestedNssaiToModels 4 [3;1;1;2] = Err.
Proof. vm_compute. repeat split; reflexivity. Qed.

(* ----------------------------------------------------------------- TAI list *)

(* 1..16 TAIs.  One PLMN throughout -> one partial list of type 00 (PLMN once,
   then the TACs); otherwise one partial list of type 10 (PLMN + TAC per entry).
   The 9.11.3.9 reader recovers it; the output is at most 97 octets. *)
Theorem C13_tailist_spec_decodes : forall l vs,
  opt_all (map abs_tai l) = Some vs -> (1 <= length l <= 16)%nat ->
  exists out, TaiListToNas l = Ok out /\ bytes_ok out /\ (length out <= 97)%nat /\
    ((same_plmn vs /\ exists v0 r, vs = v0 :: r /\ spec_tai_list out = Some [TL_list (fst v0) (map snd vs)]) \/
     (~ same_plmn vs /\ spec_tai_list out = Some [TL_tais vs])).
Proof. exact TaiListToNas_spec. Qed.

(* in both cases the TAIs read back are the input list, in order *)
Theorem C13_tailist_tais : forall l vs,
  opt_all (map abs_tai l) = Some vs -> (1 <= length l <= 16)%nat ->
  exists out part, TaiListToNas l = Ok out /\ spec_tai_list out = Some [part] /\ partial_tais part = vs.
Proof. exact TaiListToNas_tais. Qed.

Definition ex_plmn1 := mkPlmnId [50;48;56] [57;51].        (* 208 / 93 *)
Definition ex_plmn2 := mkPlmnId [52;54;54] [48;57;50].     (* 466 / 092 *)
Example C13_tailist_example :
  let l1 := [mkTai (Some ex_plmn1) [48;48;48;48;48;49]; mkTai (Some ex_plmn1) [102;102;70;70;102;101]] in
  let l2 := [mkTai (Some ex_plmn1) [48;48;48;48;48;49]; mkTai (Some ex_plmn2) [48;48;48;48;48;50]] in
  opt_all (map abs_tai l1) = Some [(mk_plmn 2 0 8 9 3 None, 1); (mk_plmn 2 0 8 9 3 None, 16777214)] /\
  TaiListToNas l1 = Ok [1; 2; 248; 57; 0; 0; 1; 255; 255; 254] /\
  opt_all (map abs_tai l2) = Some [(mk_plmn 2 0 8 9 3 None, 1); (mk_plmn 4 6 6 0 9 (Some 2), 2)] /\
  TaiListToNas l2 = Ok [65; 2; 248; 57; 0; 0; 1; 100; 38; 144; 0; 0; 2].
Proof. vm_compute. repeat split; reflexivity. Qed.

(* outside the domain (not UE-fed; documented, modelled faithfully): the empty
   list and a nil PlmnId panic; with 17 TAIs the count field is read as 16 by a
   conforming receiver, so the list does not come back *)
Example C13_tailist_out_of_domain :
  TaiListToNas [] = Panic /\ TaiListToNas [mkTai None [48;48;48;48;48;49]] = Panic /\
  (let l := repeat (mkTai (Some ex_plmn1) [48;48;48;48;48;49]) 17 in
   match TaiListToNas l with
   | Ok out => match spec_tai_list out with
               | Some [p] => length (partial_tais p) = 17%nat
               | _ => False
               end -> False
   | _ => False
   end).
Proof. vm_compute. repeat split; try reflexivity. intro H; exact H. Qed.

(* ------------------------------------------------------- service area list *)

(* 1..16 TACs (over any split into areas): one partial list of type 00 whose
   allowed-type bit is 0 exactly for RestrictionType "ALLOWED_AREAS" *)
Theorem C13_servicearea_spec_decodes : forall p rt areas pv tv,
  abs_plmn p = Some pv -> opt_all (map text24 (concat areas)) = Some tv ->
  (1 <= length (concat areas) <= 16)%nat ->
  exists out, PartialServiceAreaListToNas p rt areas = Ok out /\
              spec_service_area out = Some [SA_list (negb (is_allowed rt)) pv tv].
Proof. exact PartialServiceAreaListToNas_spec. Qed.

Example C13_servicearea_example :
  PartialServiceAreaListToNas ex_plmn1 RestrictionType_ALLOWED_AREAS
    [[[48;48;48;48;48;49]]; []; [[48;48;48;48;48;50]; [48;48;48;48;48;51]]]
  = Ok [2; 2; 248; 57; 0; 0; 1; 0; 0; 2; 0; 0; 3] /\
  PartialServiceAreaListToNas ex_plmn1 [78;79;84] [[[48;48;48;48;48;49]]]
  = Ok [128; 2; 248; 57; 0; 0; 1] /\
  spec_service_area [128; 2; 248; 57; 0; 0; 1] = Some [SA_list true (mk_plmn 2 0 8 9 3 None) [1]].
Proof. vm_compute. repeat split; reflexivity. Qed.

(* --------------------------------------------------------------------- LADN *)

(* LadnToNas: any DNN of up to 255 octets, 1..16 TAIs; the 9.11.3.30 reader
   recovers the DNN octets and the TAIs -- also inside a sequence of LADNs *)
Theorem C13_ladn_spec_decodes : forall dnn l vs rest,
  (length dnn <= 255)%nat -> opt_all (map abs_tai l) = Some vs -> (1 <= length l <= 16)%nat ->
  exists out part, LadnToNas dnn l = Ok out /\ partial_tais part = vs /\
    spec_ladn_info (out ++ rest) = option_map (cons (dnn, [part])) (spec_ladn_info rest).
Proof. exact LadnToNas_spec. Qed.

(* LadnToModels reads, for EVERY octet string, the complete (length, DNN)
   entries before the first overrun ... *)
Theorem C13_ladn_indication_decoder_is_spec : forall bs,
  LadnToModels bs = Ok (spec_ladn_indication_prefix bs).
Proof. intro bs. apply LadnToModels_eq_spec. lia. Qed.

(* ... hence every well-formed LADN indication (DNN lengths 0..255) comes back exactly *)
Theorem C13_ladn_indication_roundtrip : forall dnns,
  Forall (fun d => (length d <= 255)%nat) dnns ->
  LadnToModels (flat_map (fun d => N.of_nat (length d) :: d) dnns) = Ok dnns.
Proof. exact LadnToModels_roundtrip. Qed.

Theorem C13_ladn_indication_accepts_spec : forall bs l,
  spec_ladn_indication bs = Some l -> LadnToModels bs = Ok l.
Proof. exact LadnToModels_accepts_spec. Qed.

Example C13_ladn_example :
  LadnToNas [105;109;115] [mkTai (Some ex_plmn1) [48;48;48;48;48;49]]
  = Ok [3; 105; 109; 115; 7; 0; 2; 248; 57; 0; 0; 1] /\
  spec_ladn_info [3; 105; 109; 115; 7; 0; 2; 248; 57; 0; 0; 1]
  = Some [([105;109;115], [TL_list (mk_plmn 2 0 8 9 3 None) [1]])] /\
  LadnToModels [3; 105; 109; 115; 0; 1; 97] = Ok [[105;109;115]; []; [97]] /\
  LadnToModels [3; 105; 109; 115; 5; 97] = Ok [[105;109;115]].
Proof. vm_compute. repeat split; reflexivity. Qed.

(* ------------------------------------------------- C14: never panics / hangs *)

(* fuel = len + 1 suffices; Len <= len(Buffer) is what the NAS decoder
   establishes (SetLen allocates Buffer of Len octets) *)
Theorem C13_total_RequestedNssaiToModels : forall len buffer fuel,
  (N.to_nat len <= length buffer)%nat -> (length buffer + 1 <= fuel)%nat ->
  is_total (RequestedNssaiToModels_fuel fuel len buffer).
Proof. exact total_RequestedNssaiToModels. Qed.

(* a Len field larger than the Buffer (never produced by the decoder) indexes past the end *)
Example C13_RequestedNssaiToModels_len_beyond_buffer : RequestedNssaiToModels 1 [] = Panic.
Proof. reflexivity. Qed.

Theorem C13_total_snssaiToModels : forall l buf,
  match snssaiToModels l buf with Ok _ => 1 <= l <= 8 | Err => True | _ => False end.
Proof. exact snssaiToModels_total. Qed.

Theorem C13_total_SnssaiToModels : forall len octet,
  length octet = 8%nat -> is_total (SnssaiToModels len octet).
Proof. exact total_SnssaiToModels. Qed.

(* observation (outside C13's quantifier): for Len 5 / 8 (SD followed by mapped
   values) SnssaiToModels drops the SD, it only looks for Len = 4 *)
Example C13_SnssaiToModels_len5_drops_sd :
  SnssaiToModels 5 [1; 1; 2; 3; 9; 0; 0; 0] = Ok (mkSnssai 1 []).
Proof. reflexivity. Qed.

Theorem C13_total_LadnToModels : forall bs fuel,
  (length bs + 1 <= fuel)%nat -> is_total (LadnToModels_fuel fuel bs).
Proof. exact total_LadnToModels. Qed.

Theorem C13_total_UESecurityCapabilityToByteArray : forall bs,
  is_total (UESecurityCapabilityToByteArray bs).
Proof. exact total_UESecurityCapabilityToByteArray. Qed.

Theorem C13_total_UpuAckToModels : forall bs, is_total (UpuAckToModels bs).
Proof. exact total_UpuAckToModels. Qed.

(* and its value: 0x01 followed by exactly 16 octets -> their hex text, else an error *)
Theorem C13_UpuAckToModels_value : forall bs,
  UpuAckToModels bs = match bs with
                      | 1 :: t => if Nat.eqb (length t) 16 then Ok (hex_EncodeToString t) else Err
                      | _ => Err
                      end.
Proof. exact UpuAckToModels_value. Qed.

Theorem C13_total_GetDNN : forall bs fuel,
  (length bs + 1 <= fuel)%nat -> is_total (rfc1035tofqdn_fuel fuel bs).
Proof. exact total_rfc1035tofqdn. Qed.

(* nasType.DNN: SetDNN stores the label coding of the dotted text (labels <= 62
   octets, <= 100 octets in all) with Len = len(Buffer), and GetDNN returns the text *)
Theorem C13_dnn_roundtrip : forall s rr,
  fqdnToRfc1035 s = Ok rr ->
  rr = flat_map (fun seg => N.of_nat (length seg) :: seg) (strings_Split_dot s) /\ (length rr <= 100)%nat /\
  DNN_SetDNN s = (N.of_nat (length rr), rr) /\ DNN_GetDNN rr = Ok s.
Proof. exact DNN_roundtrip. Qed.

(* UpuInfoToNas starts with the UPU header octet: bit 3 = REG, bit 2 = ACK *)
Theorem C13_upu_header : forall u,
  exists body, UpuInfoToNas u = ((if UpuRegInd u then 4 else 0) + (if UpuAckInd u then 2 else 0)) :: body.
Proof. exact UpuInfoToNas_head. Qed.

Example C13_total_example :
  UESecurityCapabilityToByteArray [224; 224; 224] = Ok ([192;0], [192;0], [192;0], [0;0]) /\
  UpuAckToModels [] = Err /\ DNN_GetDNN [] = Ok [] /\
  DNN_GetDNN [3; 105; 109; 115; 2; 97] = Ok [105; 109; 115; 46; 97] /\
  LadnToModels [0; 0] = Ok [[]; []].
Proof. vm_compute. repeat split; reflexivity. Qed.

(* the functions this property is about are functions of their arguments: the files it is anchored in declare
   no package-level variable other than the pinned read-only tables (or a never-touched one of plain type) and
   none of their functions writes, slices, takes the address of, passes on or calls a method of a
   package-level variable (logger entries excepted) -- evaluated on the current source (C19/Globals.v) *)
Theorem C13_anchor_files_keep_no_state :
  Globals.hidden_state_free Globals.anchors_C13 = true.
Proof. vm_compute. reflexivity. Qed.

Print Assumptions C13_snssai_layout.
Print Assumptions C13_snssai_spec_decodes.
Print Assumptions C13_snssai_models_roundtrip.
Print Assumptions C13_rejected_snssai_spec_decodes.
Print Assumptions C13_rejected_nssai_spec_decodes.
Print Assumptions C13_nssai_decoder_is_spec.
Print Assumptions C13_nssai_roundtrip.
Print Assumptions C13_nssai_roundtrip_1_8.
Print Assumptions C13_nssai_lib_roundtrip.
Print Assumptions C13_nssai_malformed_err.
Print Assumptions C13_tailist_spec_decodes.
Print Assumptions C13_tailist_tais.
Print Assumptions C13_servicearea_spec_decodes.
Print Assumptions C13_ladn_spec_decodes.
Print Assumptions C13_ladn_indication_decoder_is_spec.
Print Assumptions C13_ladn_indication_roundtrip.
Print Assumptions C13_ladn_indication_accepts_spec.
Print Assumptions C13_total_RequestedNssaiToModels.
Print Assumptions C13_total_snssaiToModels.
Print Assumptions C13_total_SnssaiToModels.
Print Assumptions C13_total_LadnToModels.
Print Assumptions C13_total_UESecurityCapabilityToByteArray.
Print Assumptions C13_total_UpuAckToModels.
Print Assumptions C13_UpuAckToModels_value.
Print Assumptions C13_total_GetDNN.
Print Assumptions C13_dnn_roundtrip.
Print Assumptions C13_upu_header.
Print Assumptions C13_anchor_files_keep_no_state.
