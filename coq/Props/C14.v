(* C14 -- helpers that interpret UE-supplied IE contents never panic or hang.
   The theorems are stated in coq/C14/From*.v (one file per source property, same statements as the
   totality theorems of C12, C13, C16, C17); this file lists them with their assumptions.
   F9 (known finding): the nasType.MobileIdentity5GS text getters are total only from a minimal Buffer
   length (the _partial statements); below it they panic (C12_total_*_refuted). *)
From NV Require C19.Globals.
From NV Require C14.FromC12 C14.FromC13 C14.FromC16 C14.FromC17.

(* the functions this property is about are functions of their arguments: the files it is anchored in declare
   no package-level variable other than the pinned read-only tables (or a never-touched one of plain type) and
   none of their functions writes, slices, takes the address of, passes on or calls a method of a
   package-level variable (logger entries excepted) -- evaluated on the current source (C19/Globals.v) *)
Theorem C14_anchor_files_keep_no_state :
  Globals.hidden_state_free Globals.anchors_C14 = true.
Proof. vm_compute. reflexivity. Qed.

Print Assumptions NV.C14.FromC12.C14_C12_total_SuciToStringWithError.
Print Assumptions NV.C14.FromC12.C14_C12_total_SuciToString.
Print Assumptions NV.C14.FromC12.C14_C12_total_NaiToString.
Print Assumptions NV.C14.FromC12.C14_C12_total_GutiToStringWithError.
Print Assumptions NV.C14.FromC12.C14_C12_total_GutiToString.
Print Assumptions NV.C14.FromC12.C14_C12_total_PeiToStringWithError.
Print Assumptions NV.C14.FromC12.C14_C12_total_PeiToString.
Print Assumptions NV.C14.FromC12.C14_C12_total_GutiToNasWithError.
Print Assumptions NV.C14.FromC12.C14_C12_total_GutiToNas.
Print Assumptions NV.C14.FromC12.C14_C12_total_AmfIdToNasWithError.
Print Assumptions NV.C14.FromC12.C14_C12_total_AmfIdToNas.
Print Assumptions NV.C14.FromC12.C14_C12_total_GetTypeOfIdentity_partial.
Print Assumptions NV.C14.FromC12.C14_C12_total_GetMobileIdentity_partial.
Print Assumptions NV.C14.FromC12.C14_C12_total_GetSUCI_partial.
Print Assumptions NV.C14.FromC12.C14_C12_total_GetPlmnID_partial.
Print Assumptions NV.C14.FromC12.C14_C12_total_GetMCC_partial.
Print Assumptions NV.C14.FromC12.C14_C12_total_GetMNC_partial.
Print Assumptions NV.C14.FromC12.C14_C12_total_Get5GGUTI_partial.
Print Assumptions NV.C14.FromC12.C14_C12_total_GetAmfID_partial.
Print Assumptions NV.C14.FromC12.C14_C12_total_GetAmfRegionID_partial.
Print Assumptions NV.C14.FromC12.C14_C12_total_GetAmfSetID_partial.
Print Assumptions NV.C14.FromC12.C14_C12_total_GetAmfPointer_partial.
Print Assumptions NV.C14.FromC12.C14_C12_total_Get5GTMSI_partial.
Print Assumptions NV.C14.FromC12.C14_C12_total_Get5GSTMSI_partial.
Print Assumptions NV.C14.FromC12.C14_C12_total_GetIMEI_partial.
Print Assumptions NV.C14.FromC12.C14_C12_total_GetIMEISV_partial.
Print Assumptions NV.C14.FromC13.C14_C13_total_RequestedNssaiToModels.
Print Assumptions NV.C14.FromC13.C14_C13_total_snssaiToModels.
Print Assumptions NV.C14.FromC13.C14_C13_total_SnssaiToModels.
Print Assumptions NV.C14.FromC13.C14_C13_total_LadnToModels.
Print Assumptions NV.C14.FromC13.C14_C13_total_UESecurityCapabilityToByteArray.
Print Assumptions NV.C14.FromC13.C14_C13_total_UpuAckToModels.
Print Assumptions NV.C14.FromC13.C14_C13_total_GetDNN.
Print Assumptions NV.C14.FromC16.C14_C16_pco_total.
Print Assumptions NV.C14.FromC16.C14_C16_psi_total.
Print Assumptions NV.C14.FromC17.C14_C17_decoders_total.
Print Assumptions NV.C14.FromC17.C14_C17_decode_timestamp_total.
Print Assumptions C14_anchor_files_keep_no_state.
