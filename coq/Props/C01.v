(* C01 -- decoding arbitrary bytes as a NAS message never panics or hangs.
   [all_msgs], [nas_types], the dispatch tables are regenerated from /repo on every run;
   [decode_def] is the meaning of the generator template (Codec/Sem.v), tied to the Go code by
   the canonical-program check below and by the correspondence run. *)
From NV Require C19.Globals.
From NV Require Import Lib.Base Codec.Lang Codec.Def Codec.Sem Codec.Total Codec.Cost Codec.Dispatch Codec.DispatchProofs Codec.GenDefs Codec.Stmt Codec.StmtProofs Codec.Final
  Gen.GenMsgs Gen.GenTypes Gen.GenDispatch.
From Coq Require Import String.
Open Scope N_scope.

(* all 90 generated functions are exactly the generator's template on their definition:
   every binary.Read error is propagated, every length check is in place, the optional loop
   has the fixed shape that consumes one identifier octet per iteration *)
Theorem C01_all_canonical : forallb (canon_ok nas_types) all_msgs = true.
Proof. exact all_canonical. Qed.

(* every definition is well-formed: every Octet[:Len] / Octet[:n] read is dominated by a check
   that bounds Len by the array capacity *)
Theorem C01_all_wf : forallb (fun p => wf_defb (snd p)) defs = true.
Proof. exact all_wf. Qed.

(* for ANY well-formed definition and ANY byte string: a message or an error -- no panic, and
   the loop fuel |bs|+1 is never exhausted (each iteration consumes at least one octet) *)
Theorem C01_decode_total : forall d bs, wf_defb d = true -> is_total (decode_def d bs).
Proof. exact decode_total. Qed.

(* the 45 message decoders of the current source *)
Theorem C01_message_decoders_total : forall n d bs, find_def n = Some d -> is_total (decode_def d bs).
Proof. exact message_decode_total. Qed.

(* the three entry points: GmmMessageDecode / GsmMessageDecode ... *)
Theorem C01_part_decode_total : forall gmm bs, bytes_ok bs -> is_total (part_decode gmm bs).
Proof. exact part_decode_total. Qed.

(* ... and PlainNasDecode (None = nil pointer) *)
Theorem C01_plain_decode_total : forall obs,
  match obs with Some bs => bytes_ok bs | None => True end -> is_total (plain_decode obs).
Proof. exact plain_decode_total. Qed.

(* the slice-bound panic is real when the check is missing: a definition with Octet[:Len]
   and no bound is not total (non-vacuity of wf_defb) *)
Example C01_unchecked_slice_panics :
  let sd := mkslot "X"%string true 0 true LNone VArrLen false (ShKnown false 1 (TBArray 2)) CtorNone in
  decode_def [sd] [3; 1; 2; 3] = Panic /\ wf_defb [sd] = false.
Proof. split; reflexivity. Qed.

(* ---- bounded work and allocation (cost model: Codec/Cost.v) ----
   for ANY definition whose slots pass the cost check and ANY octet string: executed statements
   are linear in the input, allocated octets are linear in the input plus one maximum-size
   element (a 16-bit length can request 65535 octets twice before the short read is noticed) *)
Theorem C01_decode_cost_bound : forall d bs, cost_defb d = true -> bytes_ok bs ->
  fst (decode_cost d bs) <= 4 * N.of_nat (List.length d) + 8 * N.of_nat (List.length bs) + 1 /\
  snd (decode_cost d bs) <= (max_struct d + 3) * N.of_nat (List.length bs) + 2 * BIG + 2 * max_struct d.
Proof. exact decode_cost_bound. Qed.

(* every definition of the current source passes the cost check *)
Theorem C01_all_cost : forallb (fun p => cost_defb (snd p)) defs = true.
Proof. exact all_cost. Qed.

(* hence, for the 45 message decoders of the current source ([worst_struct] is recomputed from it) *)
Theorem C01_message_decode_cost : forall n d bs, find_def n = Some d -> bytes_ok bs ->
  fst (decode_cost d bs) <= 4 * N.of_nat (List.length d) + 8 * N.of_nat (List.length bs) + 1 /\
  snd (decode_cost d bs) <= (worst_struct + 3) * N.of_nat (List.length bs) + 2 * BIG + 2 * worst_struct.
Proof. exact message_decode_cost. Qed.

(* non-vacuity: the one-maximum-element term is reached -- 3 octets of input make a Buffer-backed
   element with a 2-octet length request 65535 octets twice *)
Example C01_big_request_is_real :
  let sd := mkslot "X"%string true 0 true LNone VBuf false (ShKnown false 2 TBBuffer) CtorNone in
  cost_defb [sd] = true /\ snd (decode_cost [sd] [255; 255; 0]) = 2 + 65535 + 65535.
Proof. split; vm_compute; reflexivity. Qed.


(* ---- the same, on the transliterated PROGRAMS run statement by statement (Codec/Stmt.v):
   every generated Decode* function, executed as the sequence of its Go statements, computes
   decode_def of its definition (exec_dec_is_decode_def), hence is total *)
Theorem C01_programs_are_decode_def : forall g bs, In g all_msgs ->
  exec_dec nas_types g bs = decode_def (def_of nas_types g) bs.
Proof. exact generated_decoder. Qed.

Theorem C01_programs_total : forall g bs, In g all_msgs -> is_total (exec_dec nas_types g bs).
Proof. exact program_decode_total. Qed.

(* for ANY definition with distinct field names: the generator template run statement by statement is decode_def *)
Theorem C01_template_is_decode_def : forall d shape_of, NoDup (map sd_name d) ->
  (forall sd, In sd d -> shape_of (sd_name sd) = sd_shape sd) -> forallb stmt_okb d = true -> forall bs,
  omap s_fields (exec_top (map sd_name d) shape_of (canon_dec d) (mkst (initf d) 0 bs)) = decode_def d bs.
Proof. exact exec_canon_dec. Qed.

(* the functions this property is about are functions of their arguments: the files it is anchored in declare
   no package-level variable other than the pinned read-only tables (or a never-touched one of plain type) and
   none of their functions writes, slices, takes the address of, passes on or calls a method of a
   package-level variable (logger entries excepted) -- evaluated on the current source (C19/Globals.v) *)
Theorem C01_anchor_files_keep_no_state :
  Globals.hidden_state_free Globals.anchors_C01 = true.
Proof. vm_compute. reflexivity. Qed.

Print Assumptions C01_all_canonical.
Print Assumptions C01_all_wf.
Print Assumptions C01_decode_total.
Print Assumptions C01_message_decoders_total.
Print Assumptions C01_part_decode_total.
Print Assumptions C01_plain_decode_total.
Print Assumptions C01_decode_cost_bound.
Print Assumptions C01_all_cost.
Print Assumptions C01_message_decode_cost.
Print Assumptions C01_programs_are_decode_def.
Print Assumptions C01_programs_total.
Print Assumptions C01_template_is_decode_def.
Print Assumptions C01_anchor_files_keep_no_state.
