(* C03 -- re-encoding a decoded message is stable, and byte-exact for canonical input. *)
From NV Require C19.Globals.
From NV Require Import Lib.Base Codec.Lang Codec.Def Codec.Sem Codec.Total Codec.Dispatch Codec.GenDefs Codec.WF Codec.RoundTrip Codec.DecodeWF Codec.Stmt Codec.StmtProofs Codec.Final
  Gen.GenMsgs Gen.GenTypes.
From Coq Require Import String.
Open Scope N_scope.

(* whatever the decoder accepts -- including reordered, duplicated and unknown optional elements --
   is a well-formed message value *)
Theorem C03_decode_wf : forall d bs m,
  rt_defb d = true -> bytes_ok bs -> decode_def d bs = Ok m -> wf_msgb d m = true.
Proof. exact decode_wf. Qed.

(* hence re-encoding succeeds and decoding that output yields the same message again *)
Theorem C03_stable : forall d bs m,
  rt_defb d = true -> bytes_ok bs -> decode_def d bs = Ok m ->
  exists bs', encode_def d m = Ok bs' /\ decode_def d bs' = Ok m.
Proof. exact reencode_stable. Qed.

(* and encoding once more yields identical bytes (a fixed point) *)
Theorem C03_fixed_point : forall d bs m bs' m' bs'',
  rt_defb d = true -> bytes_ok bs -> decode_def d bs = Ok m ->
  encode_def d m = Ok bs' -> decode_def d bs' = Ok m' -> encode_def d m' = Ok bs'' ->
  m' = m /\ bs'' = bs'.
Proof. exact reencode_fixed_point. Qed.

(* canonical input = the encoding of some well-formed message value, i.e. (C04_format) the mandatory
   elements followed by known optional elements, each at most once, in definition order: it is
   reproduced byte for byte *)
Theorem C03_canonical_exact : forall d bs m,
  rt_defb d = true -> canonical d bs -> decode_def d bs = Ok m -> encode_def d m = Ok bs.
Proof. exact canonical_exact. Qed.

(* the 45 definitions of the current source satisfy rt_defb *)
Theorem C03_all_defs_ok : forallb (fun p => rt_defb (snd p)) defs = true.
Proof. exact all_rt. Qed.

(* non-vacuity: a non-canonical accepted input (unknown octet 0x00, RAND twice, AUTN before) decodes,
   and its re-encoding is the canonical form *)
Example C03_example :
  match find_def "AuthenticationRequest" with
  | Some d =>
      let bs := [126;0;86;1; 2;0;0; 0; 33;9;9;9;9;9;9;9;9;9;9;9;9;9;9;9;9; 33;1;2;3;4;5;6;7;8;9;10;11;12;13;14;15;16] in
      exists m, decode_def d bs = Ok m /\
        encode_def d m = Ok [126;0;86;1; 2;0;0; 33;1;2;3;4;5;6;7;8;9;10;11;12;13;14;15;16]
  | None => False
  end.
Proof. vm_compute. eexists. split; reflexivity. Qed.

(* on the transliterated programs run statement by statement (Codec/Stmt.v) *)
Theorem C03_stable_programs : forall g bs m, In g all_msgs -> bytes_ok bs -> exec_dec nas_types g bs = Ok m ->
  exists bs', exec_enc nas_types g m = Ok bs' /\ exec_dec nas_types g bs' = Ok m.
Proof. exact program_reencode_stable. Qed.

(* the functions this property is about are functions of their arguments: the files it is anchored in declare
   no package-level variable other than the pinned read-only tables (or a never-touched one of plain type) and
   none of their functions writes, slices, takes the address of, passes on or calls a method of a
   package-level variable (logger entries excepted) -- evaluated on the current source (C19/Globals.v) *)
Theorem C03_anchor_files_keep_no_state :
  Globals.hidden_state_free Globals.anchors_C03 = true.
Proof. vm_compute. reflexivity. Qed.

Print Assumptions C03_decode_wf.
Print Assumptions C03_stable.
Print Assumptions C03_fixed_point.
Print Assumptions C03_canonical_exact.
Print Assumptions C03_all_defs_ok.
Print Assumptions C03_stable_programs.
Print Assumptions C03_anchor_files_keep_no_state.
