(* C08 -- security API laws, for the concrete wrappers

     NASEncrypt      = CAES.Model.NASEncrypt      AES-128  CS3G.Model.NEA1  CZUC.Model.NEA3
     NASMacCalculate = CAES.Model.NASMacCalculate AES-128  CS3G.Model.NIA1  CZUC.Model.NIA3

   (C08/Glue.v): the hand-written models of security/security.go's NASEncrypt / NASMacCalculate
   (CAES/Model.v), of NEA1/NIA1 + snow3g (CS3G/Model.v) and of NEA3/NIA3 + zuc (CZUC/Model.v), each tied to
   the Go code by its part's correspondence run; AES is the FIPS-197 definition of CAES/Spec.v.

   Reading:  alg, b (bearer), d (direction) range over all of N, so in particular over 0..255;
             a nil payload is None, Some [] is the empty payload;
             NASEncrypt returns (nil-or-error, payload after the call); Err = an error was returned;
             block_ok k := k is 16 octets (< 256 each)        -- Go's [16]byte
             c < 2^32                                          -- Go's uint32 COUNT
             dom n := 8 * n < 2^32 - 31                        -- the payload has fewer than 2^29 - 3
                      octets, so that the uint32 bit length 8*len and "(length + 31) / 32" inside NEA1 /
                      NEA3 / NIA3 do not wrap (hypothesis of the SNOW 3G and ZUC theorems; at exactly 2^29
                      octets algorithms 1 and 3 overwrite the payload with zeros:
                      CS3G_api_length_wrap_observation, CZUC_enc_wrap_observation)
             payload_ok dom x := x is nil, or its octets are < 256 and dom (length x)
   "key and message are never modified": all functions here are pure functions returning new values; on
   the implementation this is checked by the harnesses of the three parts. *)
From NV Require C19.Globals.
From NV Require Import Lib.Base CAES.Util CAES.Proofs_aes CAES.Proofs C08.Glue.
Open Scope N_scope.

(* ciphering preserves the length -- whatever the call returns, for every alg / bearer / direction *)
Theorem C08_length : forall alg k c b d (p ct : bytes),
  block_ok k -> c < 2 ^ 32 -> dom (length p) ->
  snd (NASEncrypt alg k c b d (Some p)) = Some ct -> length ct = length p.
Proof. exact c08_length. Qed.

(* a call succeeds exactly when alg <= 3, bearer <= 31, direction <= 1 (and the payload is not nil) *)
Theorem C08_success_iff : forall alg k c b d (p : bytes),
  block_ok k -> c < 2 ^ 32 -> dom (length p) ->
  ((exists ct, NASEncrypt alg k c b d (Some p) = (Ok tt, Some ct)) <-> (alg <= 3 /\ b <= 31 /\ d <= 1)).
Proof. exact c08_ok_iff. Qed.

(* ciphering is its own inverse *)
Theorem C08_involution : forall alg k c b d (p ct : bytes),
  block_ok k -> c < 2 ^ 32 -> dom (length p) ->
  NASEncrypt alg k c b d (Some p) = (Ok tt, Some ct) ->
  NASEncrypt alg k c b d (Some ct) = (Ok tt, Some p).
Proof. exact c08_involution. Qed.

(* the ciphertext of a prefix is the prefix of the ciphertext *)
Theorem C08_prefix : forall alg k c b d (p ct : bytes) n,
  block_ok k -> c < 2 ^ 32 -> dom (length p) ->
  NASEncrypt alg k c b d (Some p) = (Ok tt, Some ct) ->
  NASEncrypt alg k c b d (Some (firstn n p)) = (Ok tt, Some (firstn n ct)).
Proof. exact c08_prefix. Qed.

(* ciphertext xor plaintext does not depend on the plaintext *)
Theorem C08_keystream_indep : forall alg k c b d (p q cp cq : bytes),
  block_ok k -> c < 2 ^ 32 -> dom (length p) -> length q = length p ->
  NASEncrypt alg k c b d (Some p) = (Ok tt, Some cp) ->
  NASEncrypt alg k c b d (Some q) = (Ok tt, Some cq) ->
  xorb cp p = xorb cq q.
Proof. exact c08_keystream_indep. Qed.

(* algorithm 0 leaves the payload unchanged and yields an all-zero MAC (any key, count, length) *)
Theorem C08_null : forall k c b d p, b <= 31 -> d <= 1 ->
  NASEncrypt 0 k c b d (Some p) = (Ok tt, Some p) /\
  NASMacCalculate 0 k c b d (Some p) = Ok [0; 0; 0; 0].
Proof. exact c08_null. Qed.

(* bearer > 31, direction > 1, nil payload or unknown algorithm: error, payload untouched, no MAC
   (no other hypothesis: any key, count, payload) *)
Theorem C08_validation : forall alg k c b d payload,
  31 < b \/ 1 < d \/ payload = None \/ 3 < alg ->
  NASEncrypt alg k c b d payload = (Err, payload) /\ NASMacCalculate alg k c b d payload = Err.
Proof. exact c08_validation. Qed.

(* a MAC is always exactly 4 octets: every call returns an error or 4 octets *)
Theorem C08_mac_len4 : forall alg k c b d msg,
  block_ok k -> c < 2 ^ 32 -> payload_ok dom msg ->
  NASMacCalculate alg k c b d msg = Err \/
  exists m, NASMacCalculate alg k c b d msg = Ok m /\ length m = 4%nat.
Proof. exact c08_mac_len4. Qed.

(* no payload length -- including empty and nil -- and no alg / bearer / direction causes a panic *)
Theorem C08_total : forall alg k c b d payload,
  block_ok k -> c < 2 ^ 32 -> payload_ok dom payload ->
  is_total (fst (NASEncrypt alg k c b d payload)) /\ is_total (NASMacCalculate alg k c b d payload).
Proof. exact c08_total. Qed.

(* ---- non-vacuity: the hypotheses hold and the calls compute, for each of algorithms 1, 2, 3 ---- *)
Definition ex_k : bytes := [0x5a; 0xcb; 0x1d; 0x64; 0x4c; 0x0d; 0x51; 0x20; 0x4e; 0xa5; 0xf1; 0x45; 0x10; 0x10; 0xd8; 0x52].
Definition ex_p : bytes := [0xad; 0x9c; 0x44; 0x1f; 0x89; 0x0b; 0x38; 0xc4; 0x57; 0xa4; 0x9d; 0x42; 0x14; 0x07; 0xe8].
Definition ex_c1 : bytes := [186; 15; 49; 48; 3; 52; 197; 107; 82; 167; 73; 124; 186; 192; 70].   (* 128-EEA1 test set 3 *)
Definition ex_c2 : bytes := [209; 252; 31; 136; 26; 109; 226; 114; 78; 2; 20; 151; 23; 255; 29].
Definition ex_c3 : bytes := [138; 252; 165; 100; 98; 33; 173; 58; 30; 6; 28; 121; 0; 19; 161].

Example C08_example_hyps :
  block_ok ex_k /\ 0xfa556b26 < 2 ^ 32 /\ dom (length ex_p) /\ payload_ok dom (Some ex_p) /\
  payload_ok dom (Some []) /\ payload_ok dom None.
Proof.
  unfold block_ok, dom, payload_ok.
  repeat split; try reflexivity; try (apply bytes_okb_spec; vm_compute; reflexivity); constructor.
Qed.

Example C08_example_alg1 :
  NASEncrypt 1 ex_k 0xfa556b26 3 1 (Some ex_p) = (Ok tt, Some ex_c1) /\
  NASEncrypt 1 ex_k 0xfa556b26 3 1 (Some ex_c1) = (Ok tt, Some ex_p) /\
  NASEncrypt 1 ex_k 0xfa556b26 3 1 (Some (firstn 6 ex_p)) = (Ok tt, Some (firstn 6 ex_c1)) /\
  NASEncrypt 1 ex_k 0xfa556b26 3 1 (Some []) = (Ok tt, Some []) /\
  NASMacCalculate 1 ex_k 0xfa556b26 3 1 (Some ex_p) = Ok [166; 153; 130; 197] /\
  NASMacCalculate 1 ex_k 0xfa556b26 3 1 (Some []) = Ok [177; 112; 250; 54].
Proof. vm_compute. repeat split. Qed.

Example C08_example_alg2 :
  NASEncrypt 2 ex_k 0xfa556b26 3 1 (Some ex_p) = (Ok tt, Some ex_c2) /\
  NASEncrypt 2 ex_k 0xfa556b26 3 1 (Some ex_c2) = (Ok tt, Some ex_p) /\
  NASEncrypt 2 ex_k 0xfa556b26 3 1 (Some (firstn 6 ex_p)) = (Ok tt, Some (firstn 6 ex_c2)) /\
  NASEncrypt 2 ex_k 0xfa556b26 3 1 (Some []) = (Ok tt, Some []) /\
  NASMacCalculate 2 ex_k 0xfa556b26 3 1 (Some ex_p) = Ok [76; 106; 14; 0].
Proof. vm_compute. repeat split. Qed.

Example C08_example_alg3 :
  NASEncrypt 3 ex_k 0xfa556b26 3 1 (Some ex_p) = (Ok tt, Some ex_c3) /\
  NASEncrypt 3 ex_k 0xfa556b26 3 1 (Some ex_c3) = (Ok tt, Some ex_p) /\
  NASEncrypt 3 ex_k 0xfa556b26 3 1 (Some (firstn 6 ex_p)) = (Ok tt, Some (firstn 6 ex_c3)) /\
  NASEncrypt 3 ex_k 0xfa556b26 3 1 (Some []) = (Ok tt, Some []) /\
  NASMacCalculate 3 ex_k 0xfa556b26 3 1 (Some ex_p) = Ok [148; 100; 225; 104] /\
  NASMacCalculate 3 ex_k 0xfa556b26 3 1 (Some []) = Ok [251; 56; 112; 182].
Proof. vm_compute. repeat split. Qed.

Example C08_example_invalid :
  NASEncrypt 1 ex_k 0xfa556b26 32 1 (Some ex_p) = (Err, Some ex_p) /\
  NASEncrypt 3 ex_k 0xfa556b26 3 2 (Some ex_p) = (Err, Some ex_p) /\
  NASEncrypt 4 ex_k 0xfa556b26 3 1 (Some ex_p) = (Err, Some ex_p) /\
  NASEncrypt 255 ex_k 0xfa556b26 255 255 (Some ex_p) = (Err, Some ex_p) /\
  NASEncrypt 1 ex_k 0xfa556b26 3 1 None = (Err, None) /\
  NASMacCalculate 3 ex_k 0xfa556b26 3 1 None = Err /\
  NASMacCalculate 0 ex_k 0xfa556b26 3 1 (Some ex_p) = Ok [0; 0; 0; 0] /\
  NASEncrypt 0 ex_k 0xfa556b26 3 1 (Some ex_p) = (Ok tt, Some ex_p).
Proof. vm_compute. repeat split. Qed.

(* the functions this property is about are functions of their arguments: the files it is anchored in declare
   no package-level variable other than the pinned read-only tables (or a never-touched one of plain type) and
   none of their functions writes, slices, takes the address of, passes on or calls a method of a
   package-level variable (logger entries excepted) -- evaluated on the current source (C19/Globals.v) *)
Theorem C08_anchor_files_keep_no_state :
  Globals.hidden_state_free Globals.anchors_C08 = true.
Proof. vm_compute. reflexivity. Qed.

Print Assumptions C08_length.
Print Assumptions C08_success_iff.
Print Assumptions C08_involution.
Print Assumptions C08_prefix.
Print Assumptions C08_keystream_indep.
Print Assumptions C08_null.
Print Assumptions C08_validation.
Print Assumptions C08_mac_len4.
Print Assumptions C08_total.
Print Assumptions C08_anchor_files_keep_no_state.
