(* CZUC -- the ZUC part of C06 / C07 / C08: algorithm identity 3 of free5gc/nas security.

   Model (CZUC/Model.v, hand-written, statement by statement): security/zuc/zuc.go (tables, Lfsr.state
   with the end-around-carry addition, bitReorganization, nonlinF, l1, l2, key loading, 32
   initialisation rounds, generateKeystream, Zuc) and security.NEA3, NIA3, genMac, getWord, plus the
   AlgoID = 3 paths of NASEncrypt / NASMacCalculate (NASEncrypt3 / NASMacCalculate3).
   Specification (CZUC/Spec.v, independent of the code): ZUC v1.6 with arithmetic mod 2^31 - 1,
   128-EEA3 and 128-EIA3 on bit strings; validated against the published test vectors
   (CZUC/Proofs_Vectors.v).

   key_ok k      := length k = 16 /\ every element < 256          (a [16]byte)
   payload_ok p  := 8 * length p + 31 < 2^32                       (uint32 bit length does not wrap)
   octets_bits   := the bit string of an octet string, most significant bit first. *)
From NV Require Import Lib.Base CZUC.Spec CZUC.Model CZUC.Proofs.
Open Scope N_scope.

(* the S-boxes and the constants D of the code are those pinned in the specification *)
Theorem CZUC_tables_eq : sbox0 = ZucSpec.S0 /\ sbox1 = ZucSpec.S1 /\ ek_d = ZucSpec.D.
Proof. exact tables_eq. Qed.

(* C06: zuc.Zuc(k, iv, n) never panics and returns exactly the first n keystream words of ZUC v1.6
   (LFSR feedback computed mod 2^31 - 1 in the specification, by add-with-carry in the code) *)
Theorem CZUC_keystream_eq_spec : forall k iv n, key_ok k -> key_ok iv ->
  Zuc k iv n = Ok (ZucSpec.keystream k iv (N.to_nat n)).
Proof. exact zuc_model_eq_spec. Qed.

(* C06: NEA3 with an arbitrary bit length: the result has the length of the input, its first
   [length] bits are the 128-EEA3 ciphertext of the first [length] input bits, all later bits are 0 *)
Theorem CZUC_nea3_eq_eea3 : forall ck count bearer direction ibs length,
  key_ok ck -> count < 2 ^ 32 -> bearer < 32 -> direction < 2 ->
  length <= 8 * N.of_nat (List.length ibs) -> length + 31 < 2 ^ 32 ->
  exists obs,
    NEA3 ck count bearer direction ibs length = Ok obs /\
    List.length obs = List.length ibs /\
    octets_bits obs
    = EEA3Spec.eea3 ck count bearer direction (firstn (N.to_nat length) (octets_bits ibs))
      ++ repeat false (8 * List.length ibs - N.to_nat length).
Proof. exact nea3_eq_eea3. Qed.

(* C06: the in-place byte-length API with algorithm identity 3 = 128-EEA3 of all 8 * len bits *)
Theorem CZUC_enc_eq_eea3 : forall key count bearer direction p,
  key_ok key -> count < 2 ^ 32 -> bearer <= 31 -> direction <= 1 -> payload_ok p ->
  exists c, NASEncrypt3 key count bearer direction p = Ok c /\
            length c = length p /\
            octets_bits c = EEA3Spec.eea3 key count bearer direction (octets_bits p).
Proof. exact enc_eq_eea3. Qed.

(* C07: NIA3 for every bit length (0, non-multiples of 8 / 32 / 64 included): the MAC is the four
   octets of the 128-EIA3 MAC of the first [length] message bits *)
Theorem CZUC_nia3_eq_eia3 : forall ik count bearer direction msg length,
  key_ok ik -> count < 2 ^ 32 -> bearer < 32 -> direction < 2 ->
  length <= 8 * N.of_nat (List.length msg) -> length + 31 < 2 ^ 32 ->
  NIA3 ik count bearer direction msg length
  = Ok (word_octets (EIA3Spec.eia3 ik count bearer direction
                       (firstn (N.to_nat length) (octets_bits msg)))).
Proof. exact nia3_eq_eia3. Qed.

(* C07: NASMacCalculate with algorithm identity 3 = 128-EIA3 of all 8 * len bits *)
Theorem CZUC_mac_eq_eia3 : forall key count bearer direction msg,
  key_ok key -> count < 2 ^ 32 -> bearer <= 31 -> direction <= 1 -> payload_ok msg ->
  NASMacCalculate3 key count bearer direction msg
  = Ok (word_octets (EIA3Spec.eia3 key count bearer direction (octets_bits msg))).
Proof. exact mac_eq_eia3. Qed.

(* C08: ciphering preserves the length *)
Theorem CZUC_nea3_length : forall key count bearer direction p c,
  key_ok key -> payload_ok p ->
  NASEncrypt3 key count bearer direction p = Ok c -> length c = length p.
Proof. exact enc_length. Qed.

(* C08: ciphering is its own inverse *)
Theorem CZUC_nea3_involution : forall key count bearer direction p c,
  key_ok key -> payload_ok p ->
  NASEncrypt3 key count bearer direction p = Ok c ->
  NASEncrypt3 key count bearer direction c = Ok p.
Proof. exact enc_involution. Qed.

(* C08: the ciphertext of a prefix is the prefix of the ciphertext; and its reason: the keystream of
   n words is a prefix of the keystream of n + m words *)
Theorem CZUC_nea3_prefix :
  (forall key count bearer direction p c n,
     key_ok key -> payload_ok p ->
     NASEncrypt3 key count bearer direction p = Ok c ->
     NASEncrypt3 key count bearer direction (firstn n p) = Ok (firstn n c)) /\
  (forall k iv n m a b, key_ok k -> key_ok iv ->
     Zuc k iv n = Ok a -> Zuc k iv (n + m) = Ok b -> a = firstn (N.to_nat n) b).
Proof. split; [exact enc_prefix|exact zuc_prefix]. Qed.

(* C08: ciphertext xor plaintext does not depend on the plaintext *)
Theorem CZUC_nea3_keystream_indep : forall key count bearer direction p p' c c',
  key_ok key -> payload_ok p -> length p = length p' ->
  NASEncrypt3 key count bearer direction p = Ok c ->
  NASEncrypt3 key count bearer direction p' = Ok c' ->
  xor_bytes c p = xor_bytes c' p'.
Proof. exact enc_keystream_indep. Qed.

(* C08: no panic and no non-termination, for every count, bearer and direction (also out of range:
   uint8 arithmetic wraps / the API returns an error), every payload including the empty one and
   every bit length up to 8 * len; in particular the reads stream[loc+1] of getWord are in range
   for the number of keystream words NIA3 requests *)
Theorem CZUC_total :
  (forall k iv n, key_ok k -> key_ok iv -> is_total (Zuc k iv n)) /\
  (forall ck count bearer direction ibs length,
     key_ok ck -> length <= 8 * N.of_nat (List.length ibs) -> length + 31 < 2 ^ 32 ->
     is_total (NEA3 ck count bearer direction ibs length)) /\
  (forall ik count bearer direction msg length,
     key_ok ik -> length <= 8 * N.of_nat (List.length msg) -> length + 31 < 2 ^ 32 ->
     is_total (NIA3 ik count bearer direction msg length)) /\
  (forall key count bearer direction p,
     key_ok key -> payload_ok p -> is_total (NASEncrypt3 key count bearer direction p)) /\
  (forall key count bearer direction msg,
     key_ok key -> payload_ok msg -> is_total (NASMacCalculate3 key count bearer direction msg)).
Proof.
  repeat split.
  - exact zuc_total.
  - exact nea3_total.
  - exact nia3_total.
  - exact enc_total.
  - exact mac_total.
Qed.

(* C08: a MAC is exactly 4 octets *)
Theorem CZUC_mac_len4 :
  (forall key count bearer direction msg mac,
     key_ok key -> payload_ok msg ->
     NASMacCalculate3 key count bearer direction msg = Ok mac -> length mac = 4%nat) /\
  (forall ik count bearer direction msg length mac,
     key_ok ik -> length <= 8 * N.of_nat (List.length msg) -> length + 31 < 2 ^ 32 ->
     NIA3 ik count bearer direction msg length = Ok mac -> List.length mac = 4%nat /\ bytes_ok mac).
Proof. split; [exact mac_len4|exact nia3_mac_len4]. Qed.

(* observation (why payload_ok is a hypothesis): a payload of exactly 2^29 octets has the uint32
   bit length 0 and is overwritten with zeros *)
Theorem CZUC_enc_wrap_observation : forall key count bearer direction p,
  key_ok key -> bearer <= 31 -> direction <= 1 -> N.of_nat (length p) = 2 ^ 29 ->
  NASEncrypt3 key count bearer direction p = Ok (repeat 0 (length p)).
Proof. exact enc_wrap_observation. Qed.

(* non-vacuity: the hypotheses hold for the published vectors, on which model and specification
   give the published results (CZUC/Proofs_Vectors.v) *)
Example CZUC_example_keys : key_ok zk3 /\ key_ok ziv3 /\ key_ok ea_ck1 /\ key_ok ia_ik3.
Proof. exact key_ok_vector. Qed.

Example CZUC_example_zuc : Zuc zk3 ziv3 2 = Ok [0x14f1c272; 0x3279c419]
  /\ ZucSpec.keystream zk3 ziv3 2 = [0x14f1c272; 0x3279c419].
Proof. split; [exact model_zuc_vector3|exact spec_zuc_vector3]. Qed.

Example CZUC_example_nea3 :
  NEA3 ea_ck1 0x66035492 0xf 0 ea_ibs1 193 = Ok ea_obs1 /\
  EEA3Spec.eea3 ea_ck1 0x66035492 0xf 0 (firstn (N.to_nat 193) (octets_bits ea_ibs1))
  = firstn (N.to_nat 193) (octets_bits ea_obs1) /\
  193 <= 8 * N.of_nat (length ea_ibs1) /\ payload_ok ea_ibs1.
Proof.
  split; [exact model_nea3_vector1|]. split; [exact spec_eea3_vector1|].
  split; vm_compute; first [reflexivity | intro; discriminate].
Qed.

Example CZUC_example_nia3 :
  NIA3 ia_ik3 0xa94059da 0xa 1 ia_msg3 577 = Ok [0xfa; 0xe8; 0xff; 0x0b] /\
  EIA3Spec.eia3 ia_ik3 0xa94059da 0xa 1 (firstn (N.to_nat 577) (octets_bits ia_msg3)) = 0xfae8ff0b.
Proof. split; [exact model_nia3_vector3|exact spec_eia3_vector3]. Qed.

Print Assumptions CZUC_tables_eq.
Print Assumptions CZUC_keystream_eq_spec.
Print Assumptions CZUC_nea3_eq_eea3.
Print Assumptions CZUC_enc_eq_eea3.
Print Assumptions CZUC_nia3_eq_eia3.
Print Assumptions CZUC_mac_eq_eia3.
Print Assumptions CZUC_nea3_length.
Print Assumptions CZUC_nea3_involution.
Print Assumptions CZUC_nea3_prefix.
Print Assumptions CZUC_nea3_keystream_indep.
Print Assumptions CZUC_total.
Print Assumptions CZUC_mac_len4.
Print Assumptions CZUC_enc_wrap_observation.
Print Assumptions CZUC_example_nea3.
