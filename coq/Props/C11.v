(* C11 -- NAS COUNT behaves as a 24-bit overflow||sequence-number counter.
   Statements are about [step]/[run_ops] of C11/Model.v, i.e. the BV
   interpreter applied to the method bodies translated from the current
   security/counter.go (Gen/GenCounter.v). *)
From NV Require C19.Globals.
From NV Require Import Lib.Base Lib.BV Gen.GenCounter C11.Model C11.Proofs.
Open Scope N_scope.

(* the translator understood every statement of counter.go *)
Theorem C11_translation_complete :
  counter_unknown = [] /\ counter_is_single_uint32 = true.
Proof. exact translator_complete. Qed.

(* the zero value satisfies the invariant "value < 2^24" *)
Theorem C11_inv_init : Inv 0.
Proof. exact Inv_0. Qed.

(* value = overflow * 256 + sqn, overflow < 2^16, sqn < 2^8 *)
Theorem C11_value : forall c, Inv c ->
  c = fst (abs c) * 256 + snd (abs c) /\ fst (abs c) < 2 ^ 16 /\ snd (abs c) < 2 ^ 8.
Proof. exact value_decomposes. Qed.

(* every operation: terminates without panic, keeps the invariant, and acts on
   (overflow, sqn) exactly as the abstract counter [spec_step]: AddOne adds one
   modulo 2^24 with carry from sqn 255 into overflow, SetSQN leaves overflow,
   SetOverflow leaves sqn, reads change nothing and return sqn / overflow /
   overflow*256+sqn *)
Theorem C11_step : forall c o, Inv c -> op_args_ok o ->
  exists c' r, step c o = Ok (c', r) /\ Inv c' /\ (abs c', r) = spec_step (abs c) o.
Proof. exact step_refines. Qed.

(* the same for every operation sequence from every state below 2^24 *)
Theorem C11_histories : forall ops c, Inv c -> Forall op_args_ok ops ->
  exists c' rs, run_ops c ops = Ok (c', rs) /\ Inv c' /\
                (abs c', rs) = spec_run (abs c) ops.
Proof. exact histories_refine. Qed.

(* AddOne in closed form, including the wrap 2^24 - 1 -> 0 *)
Theorem C11_addone : forall c, Inv c -> step c OpAddOne = Ok ((c + 1) mod 2 ^ 24, RNone).
Proof. intros c H. apply run_AddOne. apply inv_lt32; exact H. Qed.

(* non-vacuity: a concrete history through the carry and the wrap-around *)
Example C11_example :
  run_ops 16777215 [OpAddOne; OpGet; OpSetSQN 255; OpAddOne; OpOverflow; OpSQN; OpSetOverflow 65535; OpGet]
  = Ok (16776960, [RNone; RVal 0; RNone; RNone; RVal 1; RVal 0; RNone; RVal 16776960]).
Proof. vm_compute. reflexivity. Qed.

(* the functions this property is about are functions of their arguments: the files it is anchored in declare
   no package-level variable other than the pinned read-only tables (or a never-touched one of plain type) and
   none of their functions writes, slices, takes the address of, passes on or calls a method of a
   package-level variable (logger entries excepted) -- evaluated on the current source (C19/Globals.v) *)
Theorem C11_anchor_files_keep_no_state :
  Globals.hidden_state_free Globals.anchors_C11 = true.
Proof. vm_compute. reflexivity. Qed.

Print Assumptions C11_translation_complete.
Print Assumptions C11_inv_init.
Print Assumptions C11_value.
Print Assumptions C11_step.
Print Assumptions C11_histories.
Print Assumptions C11_addone.
Print Assumptions C11_anchor_files_keep_no_state.
