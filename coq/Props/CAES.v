(* CAES -- the AES part of C06 / C07 / C08:
   NEA2 = 128-EEA2, NIA2 = 128-EIA2, stream-cipher laws, and the API wrappers
   NASEncrypt / NASMacCalculate (dispatch, validation, NULL algorithm, laws, MAC length, totality).

   Statements are about CAES/Model.v (hand-written model of security/security.go, tied to the
   implementation by the correspondence run) and CAES/Spec.v (FIPS-197, SP 800-38A, RFC 4493,
   TS 33.401 B.1.3 / B.2.3).  [E] is the block cipher (crypto/aes in the implementation); every
   theorem holds for every E that maps 16-octet blocks to 16-octet blocks ([E_wf]), and
   [CAES_aes_wf] gives that for the FIPS-197 AES-128.  A key is a 16-octet list ([block_ok]),
   COUNT < 2^32 (Go uint32).  nil payload = None; the payload after the call is the second
   component of NASEncrypt's result.  NEA1/NEA3/NIA1/NIA3 are arbitrary functions subject to
   [stream_iface] / [mac_iface] (premises, to be discharged from the SNOW 3G / ZUC parts). *)
From NV Require Import Lib.Base CAES.Util CAES.Spec CAES.Model
  CAES.Proofs_aes CAES.Proofs_ctr CAES.Proofs_cmac CAES.Proofs.
Open Scope N_scope.

(* ---- the specification reproduces the published vectors ---- *)

(* the pinned S-box is FIPS-197 5.1.1 (inverse in GF(2^8), then the affine map) *)
Theorem CAES_sbox_is_definition : map sbox_def all_bytes = SBOX.
Proof. exact sbox_table_is_definition. Qed.

(* FIPS-197 App. B and C.1; SP 800-38A F.5.1; RFC 4493 examples 1-4; TS 33.401 EEA2 set 1, EIA2 set 1 *)
Theorem CAES_aes_vectors :
  aes128 [43;126;21;22;40;174;210;166;171;247;21;136;9;207;79;60]
         [50;67;246;168;136;90;48;141;49;49;152;162;224;55;7;52]
  = [57;37;132;29;2;220;9;251;220;17;133;151;25;106;11;50] /\
  aes128 [0;1;2;3;4;5;6;7;8;9;10;11;12;13;14;15]
         [0;17;34;51;68;85;102;119;136;153;170;187;204;221;238;255]
  = [105;196;224;216;106;123;4;48;216;205;183;128;112;180;197;90] /\
  cmac aes128 [43;126;21;22;40;174;210;166;171;247;21;136;9;207;79;60] []
  = [187;29;105;41;233;89;55;40;127;163;125;18;155;117;103;70] /\
  EEA2 [211;197;213;146;50;127;177;28;64;53;198;104;10;248;198;209] 965368244 21 1
   [152;27;166;130;76;27;251;26;180;133;71;32;41;183;29;128;140;227;62;44;195;192;181;252;31;61;232;166;220;102;177]
  = [233;254;216;166;61;21;83;4;215;29;242;11;243;232;34;20;178;14;215;218;210;242;51;220;60;34;215;189;238;237;142] /\
  EIA2 [211;197;213;146;50;127;177;28;64;53;198;104;10;248;198;209] 965368244 26 1
   [72;69;131;213;175;224;130;174]
  = [185;55;135;230].
Proof. exact (conj fips197_B (conj fips197_C1 (conj rfc4493_ex1 (conj eea2_NEA2TestCase1 eia2_NIA2TestCase1)))). Qed.
(* the remaining vectors (SP 800-38A F.5.1/F.5.2, RFC 4493 subkeys and examples 2-4, EEA2 sets 2-6,
   EIA2 set 2 with 2056 octets) are the Examples at the end of CAES/Spec.v *)

(* the FIPS-197 AES maps 16-octet key and block to a 16-octet block *)
Theorem CAES_aes_wf : E_wf aes128.
Proof. exact aes128_wf. Qed.

(* ---- C06, algorithm 2 ---- *)

(* Go's CTR stream is E(iv), E(iv+1), ... with iv+j taken modulo 2^128 (byte-wise ripple carry) *)
Theorem CAES_ctr_model_counters : forall E key n iv, block_ok iv ->
  ctr_stream E key n iv = concat (map (fun j => E key (go_counter iv (N.of_nat j))) (seq 0 n)).
Proof. exact ctr_stream_blocks. Qed.

(* ... and on the NEA2 counter block (64 zero low bits) that equals the standard's 64-bit counter
   field for fewer than 2^64 blocks *)
Theorem CAES_ctr_counter_agree : forall count b d j,
  count < 2 ^ 32 -> b < 32 -> d < 2 -> j < 2 ^ 64 ->
  counter_block 64 (eea2_t1 count b d) j = go_counter (nea2_counter count b d) j.
Proof. exact counter_block_go. Qed.

(* NEA2 is 128-EEA2 for every key, COUNT, bearer 0..31, direction, payload (any block cipher E) *)
Theorem CAES_nea2_eq_eea2 : forall E key count b d ibs,
  length key = 16%nat -> count < 2 ^ 32 -> b < 32 -> d < 2 ->
  N.of_nat (length ibs) < 2 ^ 63 ->
  NEA2 E key count b d ibs = Ok (eea2 E key count b d ibs).
Proof. exact nea2_eq_eea2. Qed.

Theorem CAES_nea2_aes_eq_EEA2 : forall key count b d ibs,
  length key = 16%nat -> count < 2 ^ 32 -> b < 32 -> d < 2 ->
  N.of_nat (length ibs) < 2 ^ 63 ->
  NEA2_aes key count b d ibs = Ok (EEA2 key count b d ibs).
Proof. exact (nea2_eq_eea2 aes128). Qed.

(* ... and through the in-place API *)
Theorem CAES_encrypt_eea2 : forall E nea1 nea3, E_wf E -> forall k c b d (p : bytes),
  valid_args k c b d -> N.of_nat (length p) < 2 ^ 63 ->
  NASEncrypt E nea1 nea3 2 k c b d (Some p) = (Ok tt, Some (eea2 E k c b d p)).
Proof. exact encrypt_eea2. Qed.

(* ---- C07, algorithm 2 ---- *)

(* cmac.Sum as modelled is RFC 4493 *)
Theorem CAES_cmac_model_eq_rfc4493 : forall E, E_wf E -> forall key, block_ok key ->
  forall M, bytes_ok M -> cmac_Sum E key M = cmac E key M /\ block_ok (cmac E key M).
Proof. exact cmac_Sum_eq. Qed.

(* NIA2 is 128-EIA2 and has exactly 4 octets, for every message length (also 0) *)
Theorem CAES_nia2_eq_eia2 : forall E, E_wf E -> forall key count b d msg,
  block_ok key -> count < 2 ^ 32 -> b < 32 -> d < 2 -> bytes_ok msg ->
  NIA2 E key count b d msg = Ok (eia2 E key count b d msg) /\
  length (eia2 E key count b d msg) = 4%nat /\ bytes_ok (eia2 E key count b d msg).
Proof. exact nia2_eq_eia2. Qed.

Theorem CAES_nia2_aes_eq_EIA2 : forall key count b d msg,
  block_ok key -> count < 2 ^ 32 -> b < 32 -> d < 2 -> bytes_ok msg ->
  NIA2_aes key count b d msg = Ok (EIA2 key count b d msg) /\
  length (EIA2 key count b d msg) = 4%nat /\ bytes_ok (EIA2 key count b d msg).
Proof. exact (nia2_eq_eia2 aes128 aes128_wf). Qed.

Theorem CAES_mac_eia2 : forall E nia1 nia3, E_wf E -> forall k c b d m,
  valid_args k c b d -> bytes_ok m ->
  NASMacCalculate E nia1 nia3 2 k c b d (Some m) = Ok (eia2 E k c b d m) /\
  length (eia2 E k c b d m) = 4%nat.
Proof. exact mac_eia2. Qed.

(* ---- C08: the stream-cipher laws of NEA2 itself (any COUNT / bearer / direction values) ---- *)

Theorem CAES_ctr_length : forall E, E_wf E -> forall key count b d, block_ok key ->
  forall p c, NEA2 E key count b d p = Ok c -> length c = length p.
Proof. exact nea2_length. Qed.

Theorem CAES_ctr_involution : forall E, E_wf E -> forall key count b d, block_ok key ->
  forall p c, NEA2 E key count b d p = Ok c -> NEA2 E key count b d c = Ok p.
Proof. exact nea2_involution. Qed.

Theorem CAES_ctr_prefix : forall E, E_wf E -> forall key count b d, block_ok key ->
  forall p c n, NEA2 E key count b d p = Ok c ->
  NEA2 E key count b d (firstn n p) = Ok (firstn n c).
Proof. exact nea2_prefix. Qed.

Theorem CAES_ctr_keystream_indep : forall E, E_wf E -> forall key count b d, block_ok key ->
  forall p q c c', length p = length q ->
  NEA2 E key count b d p = Ok c -> NEA2 E key count b d q = Ok c' -> xorb c p = xorb c' q.
Proof. exact nea2_keystream_indep. Qed.

Theorem CAES_ctr_total : forall E key count b d, block_ok key ->
  forall p, exists c, NEA2 E key count b d p = Ok c.
Proof. exact nea2_total. Qed.

(* ---- C08: the wrappers ---- *)

(* after the guards, algorithm 0 returns at once and 1/2/3 call exactly NEA1/NEA2/NEA3 with the
   widened bearer/direction and the bit length uint32(len(payload))*8 (wrapping as in Go);
   the result is copied over the payload only when the function returned no error *)
Theorem CAES_encrypt_dispatch : forall E nea1 nea3 k c b d p, b <= 31 -> d <= 1 ->
  NASEncrypt E nea1 nea3 0 k c b d (Some p) = (Ok tt, Some p) /\
  NASEncrypt E nea1 nea3 1 k c b d (Some p) =
    enc_finish p (nea1 k c b d p ((N.of_nat (length p) mod 2 ^ 32 * 8) mod 2 ^ 32)) /\
  NASEncrypt E nea1 nea3 2 k c b d (Some p) = enc_finish p (NEA2 E k c b d p) /\
  NASEncrypt E nea1 nea3 3 k c b d (Some p) =
    enc_finish p (nea3 k c b d p ((N.of_nat (length p) mod 2 ^ 32 * 8) mod 2 ^ 32)).
Proof. exact encrypt_dispatch. Qed.

(* bearer > 31, direction > 1, nil payload or algorithm identity > 3: error, payload untouched;
   all alg, bearer, direction in N (so in particular 0..255) *)
Theorem CAES_encrypt_validation : forall E nea1 nea3 alg k c b d payload,
  31 < b \/ 1 < d \/ payload = None \/ 3 < alg ->
  NASEncrypt E nea1 nea3 alg k c b d payload = (Err, payload).
Proof. exact encrypt_validation. Qed.

Theorem CAES_encrypt_null : forall E nea1 nea3 k c b d p, b <= 31 -> d <= 1 ->
  NASEncrypt E nea1 nea3 0 k c b d (Some p) = (Ok tt, Some p).
Proof. exact encrypt_null. Qed.

(* length, involution, prefix stability, keystream independence through the wrapper, for
   algorithms 0..3 (Section-closed: the interface of NEA1/NEA3 on the length domain [dom] is a premise) *)
Theorem CAES_encrypt_laws : forall E nea1 nea3, E_wf E ->
  forall dom, len_dom dom ->
  forall ks1 ks3, stream_iface nea1 ks1 dom -> stream_iface nea3 ks3 dom ->
  forall alg k c b d (p : bytes),
  alg <= 3 -> valid_args k c b d -> dom (length p) ->
  exists ct,
    NASEncrypt E nea1 nea3 alg k c b d (Some p) = (Ok tt, Some ct) /\
    length ct = length p /\
    NASEncrypt E nea1 nea3 alg k c b d (Some ct) = (Ok tt, Some p) /\
    (forall n, NASEncrypt E nea1 nea3 alg k c b d (Some (firstn n p)) = (Ok tt, Some (firstn n ct))) /\
    (forall (q cq : bytes), length q = length p ->
       NASEncrypt E nea1 nea3 alg k c b d (Some q) = (Ok tt, Some cq) -> xorb ct p = xorb cq q).
Proof. exact encrypt_laws. Qed.

Theorem CAES_mac_dispatch : forall E nia1 nia3 k c b d m, b <= 31 -> d <= 1 ->
  NASMacCalculate E nia1 nia3 0 k c b d (Some m) = Ok (zeros 4) /\
  NASMacCalculate E nia1 nia3 1 k c b d (Some m) =
    nia1 k c b d m ((N.of_nat (length m) mod 2 ^ 64 * 8) mod 2 ^ 64) /\
  NASMacCalculate E nia1 nia3 2 k c b d (Some m) = NIA2 E k c b d m /\
  NASMacCalculate E nia1 nia3 3 k c b d (Some m) =
    nia3 k c b d m ((N.of_nat (length m) mod 2 ^ 32 * 8) mod 2 ^ 32).
Proof. exact mac_dispatch. Qed.

Theorem CAES_mac_validation : forall E nia1 nia3 alg k c b d msg,
  31 < b \/ 1 < d \/ msg = None \/ 3 < alg ->
  NASMacCalculate E nia1 nia3 alg k c b d msg = Err.
Proof. exact mac_validation. Qed.

Theorem CAES_mac_null : forall E nia1 nia3 k c b d m, b <= 31 -> d <= 1 ->
  NASMacCalculate E nia1 nia3 0 k c b d (Some m) = Ok [0; 0; 0; 0].
Proof. exact mac_null. Qed.

(* every call returns an error or exactly 4 octets: all algorithm identities, bearers, directions *)
Theorem CAES_mac_len4 : forall E nia1 nia3, E_wf E ->
  forall dom, len_dom dom -> mac_iface nia1 dom -> mac_iface nia3 dom ->
  forall alg k c b d msg, block_ok k -> c < 2 ^ 32 -> payload_ok dom msg ->
  NASMacCalculate E nia1 nia3 alg k c b d msg = Err \/
  exists m, NASMacCalculate E nia1 nia3 alg k c b d msg = Ok m /\ length m = 4%nat.
Proof. exact mac_len4. Qed.

(* no panic for any algorithm identity, bearer, direction, payload (nil, empty, any length) *)
Theorem CAES_total : forall E nea1 nea3 nia1 nia3, E_wf E ->
  forall dom, len_dom dom ->
  forall ks1 ks3, stream_iface nea1 ks1 dom -> stream_iface nea3 ks3 dom ->
  mac_iface nia1 dom -> mac_iface nia3 dom ->
  forall alg k c b d payload, block_ok k -> c < 2 ^ 32 -> payload_ok dom payload ->
  is_total (fst (NASEncrypt E nea1 nea3 alg k c b d payload)) /\
  is_total (NASMacCalculate E nia1 nia3 alg k c b d payload).
Proof.
  intros E nea1 nea3 nia1 nia3 W dom D ks1 ks3 I1 I3 M1 M3 alg k c b d p K C P.
  exact (conj (enc_total E nea1 nea3 W dom D ks1 ks3 I1 I3 alg k c b d p K C P)
              (mac_total E nia1 nia3 W dom D M1 M3 alg k c b d p K C P)).
Qed.

(* the interface premise follows from the laws the SNOW 3G / ZUC parts prove about NEA1 / NEA3:
   totality with length, keystream independence, prefix stability (on whole octets);
   the keystream is the output on zero octets *)
Theorem CAES_iface_from_laws : forall nea (dom : nat -> Prop),
  (forall k c b d p, valid_args k c b d -> dom (length p) ->
     exists o, nea k c b d p (8 * N.of_nat (length p)) = Ok o /\ length o = length p) ->
  (forall k c b d p q o o', valid_args k c b d -> dom (length p) -> length p = length q ->
     nea k c b d p (8 * N.of_nat (length p)) = Ok o ->
     nea k c b d q (8 * N.of_nat (length q)) = Ok o' -> xorb o p = xorb o' q) ->
  (forall k c b d p o n, valid_args k c b d -> dom (length p) -> (n <= length p)%nat ->
     nea k c b d p (8 * N.of_nat (length p)) = Ok o ->
     nea k c b d (firstn n p) (8 * N.of_nat (length (firstn n p))) = Ok (firstn n o)) ->
  stream_iface nea (ks_of_zeros nea) dom.
Proof. exact stream_iface_of_laws. Qed.

(* ---- non-vacuity ---- *)

(* the interface premises are satisfiable (by NEA2 / NIA2 themselves, with AES) *)
Example CAES_iface_inhabited :
  len_dom len32_ok /\
  stream_iface (fun k c b d p _ => NEA2 aes128 k c b d p) (nea2_ks aes128) len32_ok /\
  mac_iface (fun k c b d m _ => NIA2 aes128 k c b d m) len32_ok.
Proof.
  exact (conj len32_dom (conj (nea2_stream_iface aes128 aes128_wf len32_ok)
                              (nia2_mac_iface aes128 aes128_wf len32_ok))).
Qed.

Definition ex_key : bytes := [211;197;213;146;50;127;177;28;64;53;198;104;10;248;198;209].
Definition ex_pt : bytes :=
  [152;27;166;130;76;27;251;26;180;133;71;32;41;183;29;128;140;227;62;44;195;192;181;252;31;61;232;166;220;102;177].
Definition ex_ct : bytes :=
  [233;254;216;166;61;21;83;4;215;29;242;11;243;232;34;20;178;14;215;218;210;242;51;220;60;34;215;189;238;237;142].
Definition ex_nea (k : bytes) (c b d : N) (p : bytes) (_ : N) := NEA2 aes128 k c b d p.
Definition ex_nia (k : bytes) (c b d : N) (m : bytes) (_ : N) := NIA2 aes128 k c b d m.

Example CAES_example_valid_args : valid_args ex_key 965368244 21 1 /\ bytes_ok ex_pt /\ len32_ok (length ex_pt).
Proof.
  unfold valid_args, block_ok, len32_ok.
  repeat split; try reflexivity; apply bytes_okb_spec; vm_compute; reflexivity.
Qed.

(* TS 33.401 EEA2 test set 1 through the wrapper: ciphers in place, and back *)
Example CAES_example_encrypt :
  NASEncrypt aes128 ex_nea ex_nea 2 ex_key 965368244 21 1 (Some ex_pt) = (Ok tt, Some ex_ct) /\
  NASEncrypt aes128 ex_nea ex_nea 2 ex_key 965368244 21 1 (Some ex_ct) = (Ok tt, Some ex_pt) /\
  NASEncrypt aes128 ex_nea ex_nea 2 ex_key 965368244 21 1 (Some (firstn 17 ex_pt)) = (Ok tt, Some (firstn 17 ex_ct)) /\
  NASEncrypt aes128 ex_nea ex_nea 2 ex_key 965368244 32 1 (Some ex_pt) = (Err, Some ex_pt) /\
  NASEncrypt aes128 ex_nea ex_nea 2 ex_key 965368244 21 2 (Some ex_pt) = (Err, Some ex_pt) /\
  NASEncrypt aes128 ex_nea ex_nea 4 ex_key 965368244 21 1 (Some ex_pt) = (Err, Some ex_pt) /\
  NASEncrypt aes128 ex_nea ex_nea 2 ex_key 965368244 21 1 None = (Err, None) /\
  NASEncrypt aes128 ex_nea ex_nea 2 ex_key 965368244 21 1 (Some []) = (Ok tt, Some []).
Proof. vm_compute. repeat split. Qed.

Example CAES_example_mac :
  NASMacCalculate aes128 ex_nia ex_nia 2 ex_key 965368244 26 1 (Some [72;69;131;213;175;224;130;174]) = Ok [185;55;135;230] /\
  NASMacCalculate aes128 ex_nia ex_nia 0 ex_key 965368244 26 1 (Some [72;69]) = Ok [0;0;0;0] /\
  NASMacCalculate aes128 ex_nia ex_nia 2 ex_key 965368244 26 1 (Some []) = Ok [61;110;68;36] /\
  NASMacCalculate aes128 ex_nia ex_nia 2 ex_key 965368244 26 1 None = Err /\
  NASMacCalculate aes128 ex_nia ex_nia 255 ex_key 965368244 26 1 (Some []) = Err.
Proof. vm_compute. repeat split. Qed.

Print Assumptions CAES_aes_vectors.
Print Assumptions CAES_nea2_eq_eea2.
Print Assumptions CAES_nia2_eq_eia2.
Print Assumptions CAES_ctr_length.
Print Assumptions CAES_ctr_involution.
Print Assumptions CAES_ctr_prefix.
Print Assumptions CAES_ctr_keystream_indep.
Print Assumptions CAES_encrypt_dispatch.
Print Assumptions CAES_encrypt_validation.
Print Assumptions CAES_encrypt_null.
Print Assumptions CAES_encrypt_laws.
Print Assumptions CAES_mac_dispatch.
Print Assumptions CAES_mac_validation.
Print Assumptions CAES_mac_null.
Print Assumptions CAES_mac_len4.
Print Assumptions CAES_total.

(* the auxiliary statements, checked together (one traversal instead of twelve) *)
Definition CAES_auxiliary :=
  (CAES_sbox_is_definition,
   CAES_aes_wf,
   CAES_ctr_model_counters,
   CAES_ctr_counter_agree,
   CAES_nea2_aes_eq_EEA2,
   CAES_encrypt_eea2,
   CAES_cmac_model_eq_rfc4493,
   CAES_nia2_aes_eq_EIA2,
   CAES_mac_eia2,
   CAES_ctr_total,
   CAES_iface_from_laws,
   CAES_iface_inhabited).
Print Assumptions CAES_auxiliary.
