(* C05 -- dispatch on protocol discriminator and message type is exact. *)
From NV Require C19.Globals.
From NV Require Import Lib.Base Codec.Lang Codec.Def Codec.Sem Codec.Total Codec.Dispatch Codec.DispatchProofs Codec.GenDefs Codec.Final
  Gen.GenMsgs Gen.GenTypes Gen.GenDispatch Spec.MsgTypes.
From Coq Require Import String.
Open Scope N_scope.

(* the four switches and the two Plain* functions have the expected shape; keys distinct; each decode
   case allocates slot X and calls DecodeX; the encode tables mirror the decode tables *)
Theorem C05_dispatch_checked : dispatch_ok T = true.
Proof. exact dispatch_checked. Qed.

(* the translated tables equal the pinned TS 24.501 tables 9.7.1 / 9.7.2 for all 256 type octets *)
Theorem C05_tables_pinned : tables_pinned T = true.
Proof. exact dispatch_pinned. Qed.

(* PlainNasDecode routes on the first octet: 0x7E mobility management, 0x2E session management *)
Theorem C05_plain_decode_routes : forall obs pm,
  plain_decode obs = Ok pm ->
  exists b t, obs = Some (b :: t) /\
    ((b = 126 /\ part_decode true (b :: t) = Ok pm) \/ (b = 46 /\ part_decode false (b :: t) = Ok pm)).
Proof. exact (plain_decode_exact T dispatch_checked). Qed.

(* a successful decode populates exactly one body, the one named by the message-type octet, and the
   header view is the first 3/4 octets = that body's own header octets *)
Theorem C05_decode_dispatch : forall gmm bs pm, bytes_ok bs ->
  part_decode gmm bs = Ok pm ->
  let h := hlen_of gmm in
  (h <= List.length bs)%nat /\ pm_gmm pm = gmm /\ pm_header pm = firstn h bs /\
  exists name m,
    pm_bodies pm = [(name, m)] /\
    assocN (nth (h - 1) bs 0) (pinned gmm) = Some name /\
    firstn h m = map (fun b => Some (mkie 0 0 [b])) (firstn h bs).
Proof. exact (part_decode_exact T dispatch_checked dispatch_pinned headers_checked_ok). Qed.

(* nil, empty, foreign discriminator, shorter than a header, unknown message type: error *)
Theorem C05_reject :
  plain_decode None = Err /\ plain_decode (Some []) = Err /\
  (forall b t, b <> 126 -> b <> 46 -> plain_decode (Some (b :: t)) = Err) /\
  (forall gmm bs, (List.length bs < hlen_of gmm)%nat -> part_decode gmm bs = Err) /\
  (forall gmm bs, bytes_ok bs -> (hlen_of gmm <= List.length bs)%nat ->
      assocN (nth (hlen_of gmm - 1) bs 0) (pinned gmm) = None -> part_decode gmm bs = Err).
Proof. exact (plain_decode_rejects T dispatch_checked dispatch_pinned headers_checked_ok). Qed.

(* encoding: no part -> error; unknown type -> error; otherwise the encoder of that type runs on
   that body (hypothesis: the named body is present -- see C05_encode_nil_body_refuted) *)
Theorem C05_encode_dispatch_partial :
  plain_encode None = Err /\
  (forall pm, bytes_ok (pm_header pm) ->
     let ty := nth (hlen_of (pm_gmm pm) - 1) (pm_header pm) 0 in ty < 256 ->
     match assocN ty (pinned (pm_gmm pm)) with
     | None => plain_encode (Some pm) = Err
     | Some name =>
         forall m d, find (fun p => String.eqb (fst p) name) (pm_bodies pm) = Some (name, m) ->
                     find_def name = Some d ->
                     plain_encode (Some pm) = encode_def d m
     end).
Proof. exact (plain_encode_exact T dispatch_checked dispatch_pinned). Qed.

(* known finding F20: header names a type whose body pointer is nil -> nil dereference, not an error *)
Theorem C05_encode_nil_body_refuted : exists pm, plain_encode (Some pm) = Panic.
Proof. exact encode_nil_body_refuted. Qed.

(* non-vacuity: a registration request header dispatches *)
Example C05_example :
  exists pm, plain_decode (Some [126; 0; 67]) = Ok pm /\ map fst (pm_bodies pm) = ["RegistrationComplete"%string].
Proof. eexists. split; vm_compute; reflexivity. Qed.

(* the functions this property is about are functions of their arguments: the files it is anchored in declare
   no package-level variable other than the pinned read-only tables (or a never-touched one of plain type) and
   none of their functions writes, slices, takes the address of, passes on or calls a method of a
   package-level variable (logger entries excepted) -- evaluated on the current source (C19/Globals.v) *)
Theorem C05_anchor_files_keep_no_state :
  Globals.hidden_state_free Globals.anchors_C05 = true.
Proof. vm_compute. reflexivity. Qed.

Print Assumptions C05_dispatch_checked.
Print Assumptions C05_tables_pinned.
Print Assumptions C05_plain_decode_routes.
Print Assumptions C05_decode_dispatch.
Print Assumptions C05_reject.
Print Assumptions C05_encode_dispatch_partial.
Print Assumptions C05_encode_nil_body_refuted.
Print Assumptions C05_anchor_files_keep_no_state.
