(* C07 -- NIA1 / NIA2 / NIA3 MACs equal the standard 128-EIA1 / 128-EIA2 / 128-EIA3 functions, through the
   per-algorithm functions (every bit length including 0 for NIA1 and NIA3; NIA2 is octet-granular in this
   library) and through NASMacCalculate.

   Models:  CS3G.Model.NIA1, CAES.Model.NIA2 with AES-128 = FIPS-197 (NIA2_aes), CZUC.Model.NIA3;
            NASMacCalculate = the wrapper model instantiated with these (C08/Glue.v).
   Standards: CS3G.Spec.Spec.EIA1 (ETSI/SAGE UIA2 = f9 with FRESH = BEARER || 0^27), CAES.Spec.EIA2
            (TS 33.401 B.2.3: first 32 bits of AES-CMAC (RFC 4493) over COUNT | BEARER | DIRECTION | 0^26 |
            MESSAGE), CZUC.Spec.EIA3Spec.eia3 (128-EIA3).  mac_octets / word_octets = the 4 octets of a
            32-bit MAC, most significant first.
   An N-bit message is given as ceil(N/8) octets; for NIA1 the bits beyond N must be zero (NIA1 does not
   mask them: CS3G_nia1_padbits_observation), NIA3 ignores them.
   Key: 16 octets < 256; COUNT < 2^32; BEARER < 32; DIRECTION < 2; message octets < 256.
   Length bounds (Go integer types): len < 2^60 octets for NIA1, bit length + 31 < 2^32 for NIA3
   (8 * len < 2^32 - 31 through the API). *)
From NV Require C19.Globals.
From NV Require Import Lib.Base CAES.Util CAES.Spec CAES.Proofs_aes CAES.Proofs C08.Glue.
From NV Require CAES.Model CS3G.Model CS3G.Spec CZUC.Model CZUC.Spec.
From NV Require Import Props.CS3G Props.CZUC Props.CAES.
Open Scope N_scope.

Theorem C07_nia1_eq_eia1 : forall ik count bearer direction msg length,
  List.length ik = 16%nat -> bytes_ok ik -> bytes_ok msg -> count < 2 ^ 32 -> bearer < 32 -> direction < 2 ->
  length <= 8 * N.of_nat (List.length msg) -> N.of_nat (List.length msg) < 2 ^ 60 ->
  (forall k, length <= N.of_nat k -> nth k (CS3G.Spec.Spec.octets_bits msg) false = false) ->
  CS3G.Model.NIA1 ik count bearer direction msg length
  = Ok (CS3G.Spec.Spec.mac_octets
          (CS3G.Spec.Spec.EIA1 ik count bearer direction
             (firstn (N.to_nat length) (CS3G.Spec.Spec.octets_bits msg)))).
Proof. exact CS3G_nia1_eq_uia2. Qed.

(* NIA2 = 128-EIA2, exactly 4 octets, every message of whole octets (also the empty one) *)
Theorem C07_nia2_eq_eia2 : forall key count bearer direction msg,
  List.length key = 16%nat /\ bytes_ok key -> count < 2 ^ 32 -> bearer < 32 -> direction < 2 -> bytes_ok msg ->
  CAES.Model.NIA2_aes key count bearer direction msg = Ok (EIA2 key count bearer direction msg) /\
  List.length (EIA2 key count bearer direction msg) = 4%nat /\ bytes_ok (EIA2 key count bearer direction msg).
Proof. exact CAES_nia2_aes_eq_EIA2. Qed.

Theorem C07_nia3_eq_eia3 : forall ik count bearer direction msg length,
  List.length ik = 16%nat /\ bytes_ok ik -> count < 2 ^ 32 -> bearer < 32 -> direction < 2 ->
  length <= 8 * N.of_nat (List.length msg) -> length + 31 < 2 ^ 32 ->
  CZUC.Model.NIA3 ik count bearer direction msg length
  = Ok (CZUC.Spec.word_octets
          (CZUC.Spec.EIA3Spec.eia3 ik count bearer direction
             (firstn (N.to_nat length) (CZUC.Spec.octets_bits msg)))).
Proof. exact CZUC_nia3_eq_eia3. Qed.

(* NASMacCalculate with algorithm identity 1 / 2 / 3 returns the standard's MAC of all 8 * len bits *)
Theorem C07_nasmac_eq_standard : forall k c b d (m : bytes),
  List.length k = 16%nat /\ bytes_ok k -> c < 2 ^ 32 -> b < 32 -> d < 2 -> bytes_ok m ->
  8 * N.of_nat (List.length m) < 2 ^ 32 - 31 ->
  NASMacCalculate 1 k c b d (Some m)
  = Ok (CS3G.Spec.Spec.mac_octets (CS3G.Spec.Spec.EIA1 k c b d (CS3G.Spec.Spec.octets_bits m))) /\
  NASMacCalculate 2 k c b d (Some m) = Ok (EIA2 k c b d m) /\
  NASMacCalculate 3 k c b d (Some m)
  = Ok (CZUC.Spec.word_octets (CZUC.Spec.EIA3Spec.eia3 k c b d (CZUC.Spec.octets_bits m))).
Proof.
  intros k c b d m K Hc Hb Hd O Hn.
  exact (conj (c07_mac_alg1 k c b d m (conj K (conj Hc (conj Hb Hd))) O Hn)
        (conj (proj1 (c07_mac_alg2 k c b d m (conj K (conj Hc (conj Hb Hd))) O))
              (c07_mac_alg3 k c b d m (conj K (conj Hc (conj Hb Hd))) Hn))).
Qed.

(* non-vacuity: CS3G_example_nia1 (128-EIA1 test set 1 through NIA1 and the API, and the empty message),
   CAES_aes_vectors (128-EIA2 test set 1), CZUC_example_nia3 (128-EIA3 test set 3, 577 bits),
   C08_example_alg1/2/3; here the three MACs of one message and of the empty message *)
Example C07_example :
  let k := [0x5a; 0xcb; 0x1d; 0x64; 0x4c; 0x0d; 0x51; 0x20; 0x4e; 0xa5; 0xf1; 0x45; 0x10; 0x10; 0xd8; 0x52] in
  let m := [0xad; 0x9c; 0x44; 0x1f; 0x89; 0x0b; 0x38; 0xc4; 0x57; 0xa4; 0x9d; 0x42; 0x14; 0x07; 0xe8] in
  (List.length k = 16%nat /\ bytes_ok k) /\ bytes_ok m /\ 8 * N.of_nat (List.length m) < 2 ^ 32 - 31 /\
  NASMacCalculate 1 k 0xfa556b26 3 1 (Some m) = Ok [166; 153; 130; 197] /\
  NASMacCalculate 2 k 0xfa556b26 3 1 (Some m) = Ok [76; 106; 14; 0] /\
  NASMacCalculate 3 k 0xfa556b26 3 1 (Some m) = Ok [148; 100; 225; 104] /\
  NASMacCalculate 1 k 0xfa556b26 3 1 (Some []) = Ok [177; 112; 250; 54] /\
  NASMacCalculate 3 k 0xfa556b26 3 1 (Some []) = Ok [251; 56; 112; 182].
Proof.
  cbv zeta. split; [split; [reflexivity|apply bytes_okb_spec; vm_compute; reflexivity]|].
  split; [apply bytes_okb_spec; vm_compute; reflexivity|].
  split; [vm_compute; reflexivity|]. vm_compute. repeat split.
Qed.

(* the functions this property is about are functions of their arguments: the files it is anchored in declare
   no package-level variable other than the pinned read-only tables (or a never-touched one of plain type) and
   none of their functions writes, slices, takes the address of, passes on or calls a method of a
   package-level variable (logger entries excepted) -- evaluated on the current source (C19/Globals.v) *)
Theorem C07_anchor_files_keep_no_state :
  Globals.hidden_state_free Globals.anchors_C07 = true.
Proof. vm_compute. reflexivity. Qed.

Print Assumptions C07_nia1_eq_eia1.
Print Assumptions C07_nia2_eq_eia2.
Print Assumptions C07_nia3_eq_eia3.
Print Assumptions C07_nasmac_eq_standard.
Print Assumptions C07_anchor_files_keep_no_state.
