(* C04 -- the wire format of every message matches the TS 24.501 message tables. *)
From NV Require C19.Globals.
From NV Require Import Lib.Base Codec.Lang Codec.Def Codec.Sem Codec.Total Codec.Dispatch Codec.GenDefs Codec.WF
  Codec.SpecTable Codec.SpecProofs Codec.SpecDecode Codec.Stmt Codec.StmtProofs Codec.Final Spec.TS24501Tables Gen.GenMsgs Gen.GenTypes.
From Coq Require Import String.
Open Scope N_scope.

(* (c) the 45 definitions extracted from the current source, seen as specification tables (presence,
   format V/LV/LV-E/T/TV/TLV/TLV-E, identifier, length bounds: 357 slots), equal the pinned tables *)
Theorem C04_tables_eq : map (fun p => (fst p, abstract (snd p))) defs = ts24501_tables.
Proof. exact tables_eq_pinned. Qed.

(* (d) statically, all 90 generated functions are the generator template on those definitions *)
Theorem C04_static_all90 : forallb (canon_ok nas_types) all_msgs = true.
Proof. exact all_canonical. Qed.

Theorem C04_all_defs_ok : forallb (fun p => spec_defb (snd p)) defs = true.
Proof. exact all_spec. Qed.

(* (a) the encoder emits exactly: header and mandatory elements in table order in V / LV / LV-E form,
   then each present optional element in table order with its table identifier and T / TV / TLV / TLV-E framing *)
Theorem C04_format : forall d m, spec_defb d = true -> wf_msgb d m = true ->
  encode_def d m = Ok (spec_format (abstract d) m).
Proof. exact format_eq. Qed.

(* (b) for EVERY byte string the generated decoder and the independent table-driven decoder
   (tokenise by the table: T 1 octet, TV 1+n, TLV 2+L, TLV-E 3+L with L within [min,max] / the allowed set,
   unknown octet skipped, truncation = error; then last duplicate wins) agree: same accept / reject and the
   same identifier, declared length and transmitted octets in every slot *)
Theorem C04_decode_equiv : forall d bs, spec_defb d = true -> bytes_ok bs ->
  match decode_def d bs with
  | Ok m => spec_decode (abstract d) bs = Ok (proj_msg d m)
  | Err => spec_decode (abstract d) bs = Err
  | _ => False
  end.
Proof. exact decode_agrees_with_spec. Qed.

(* non-vacuity / the property's own terms on one message: out-of-bounds length and truncation are rejected,
   optional elements in any order, the last duplicate wins *)
Example C04_grammar_example :
  match find_def "AuthenticationRequest" with
  | Some d =>
      let t := abstract d in
      spec_decode t [126;0;86;1; 2;0;0; 120;0;3;1;2;3] = Err /\                      (* EAP message length 3 < min 4 *)
      spec_decode t [126;0;86;1; 2;0;0; 120;0;4;1;2] = Err /\                        (* truncated *)
      spec_decode t [126;0;86;1; 2;0;0; 120;0;4;1;2;3;4; 120;0;4;9;9;9;9] =
      spec_decode t [126;0;86;1; 2;0;0; 120;0;4;9;9;9;9]                              (* last duplicate wins *)
  | None => False
  end.
Proof. vm_compute. repeat split. Qed.

(* on the transliterated programs run statement by statement (Codec/Stmt.v) *)
Theorem C04_decode_equiv_programs : forall g bs, In g all_msgs -> bytes_ok bs ->
  match exec_dec nas_types g bs with
  | Ok m => spec_decode (abstract (def_of nas_types g)) bs = Ok (proj_msg (def_of nas_types g) m)
  | Err => spec_decode (abstract (def_of nas_types g)) bs = Err
  | _ => False
  end.
Proof. exact program_decode_is_table_lookup. Qed.

Theorem C04_format_programs : forall g m, In g all_msgs -> wf_msgb (def_of nas_types g) m = true ->
  exec_enc nas_types g m = Ok (spec_format (abstract (def_of nas_types g)) m).
Proof. exact program_format. Qed.

(* the functions this property is about are functions of their arguments: the files it is anchored in declare
   no package-level variable other than the pinned read-only tables (or a never-touched one of plain type) and
   none of their functions writes, slices, takes the address of, passes on or calls a method of a
   package-level variable (logger entries excepted) -- evaluated on the current source (C19/Globals.v) *)
Theorem C04_anchor_files_keep_no_state :
  Globals.hidden_state_free Globals.anchors_C04 = true.
Proof. vm_compute. reflexivity. Qed.

Print Assumptions C04_tables_eq.
Print Assumptions C04_static_all90.
Print Assumptions C04_all_defs_ok.
Print Assumptions C04_format.
Print Assumptions C04_decode_equiv.
Print Assumptions C04_decode_equiv_programs.
Print Assumptions C04_format_programs.
Print Assumptions C04_anchor_files_keep_no_state.
