(* C02 -- encoding then decoding a well-formed message returns the same message. *)
From NV Require C19.Globals.
From NV Require Import Lib.Base Codec.Lang Codec.Def Codec.Sem Codec.Total Codec.Dispatch Codec.GenDefs Codec.WF Codec.RoundTrip Codec.Stmt Codec.StmtProofs Codec.Final
  Gen.GenMsgs Gen.GenTypes.
From Coq Require Import String.
Open Scope N_scope.

(* all 45 definitions of the current source satisfy the round-trip side conditions: every value form
   matches its backing store, optional identifiers are pairwise distinct after classification,
   half-octet identifiers are 8..15, full-octet identifiers 16..127 live in an Iei field *)
Theorem C02_all_defs_ok : forallb (fun p => rt_defb (snd p)) defs = true.
Proof. exact all_rt. Qed.

(* for ANY such definition and ANY well-formed message value (wf_msgb: declared length = content
   length within the element's bounds, identifiers those of the definition, mandatory Iei = 0, array
   contents zero beyond the transmitted part, octets < 256): encoding succeeds and decoding the
   produced bytes yields exactly the original, slot for slot (Iei, Len and contents) *)
Theorem C02_roundtrip : forall d m, rt_defb d = true -> wf_msgb d m = true ->
  exists bs, encode_def d m = Ok bs /\ decode_def d bs = Ok m.
Proof. exact roundtrip. Qed.

(* the 45 messages of the current source (44 dispatchable + the security-protected envelope) *)
Theorem C02_roundtrip_msg : forall n d m, find_def n = Some d -> wf_msgb d m = true ->
  exists bs, encode_def d m = Ok bs /\ decode_def d bs = Ok m.
Proof. exact message_roundtrip. Qed.

(* non-vacuity: a well-formed AuthenticationRequest with ABBA, RAND and EAP message present *)
Example C02_example :
  match find_def "AuthenticationRequest" with
  | Some d =>
      let m := [Some (mkie 0 0 [126]); Some (mkie 0 0 [0]); Some (mkie 0 0 [86]); Some (mkie 0 0 [1]);
                Some (mkie 0 2 [0; 0]);
                Some (mkie 33 0 [1;2;3;4;5;6;7;8;9;10;11;12;13;14;15;16]); None;
                Some (mkie 120 4 [2; 1; 0; 4])] in
      wf_msgb d m = true /\
      encode_def d m = Ok [126;0;86;1; 2;0;0; 33;1;2;3;4;5;6;7;8;9;10;11;12;13;14;15;16; 120;0;4;2;1;0;4] /\
      decode_def d [126;0;86;1; 2;0;0; 33;1;2;3;4;5;6;7;8;9;10;11;12;13;14;15;16; 120;0;4;2;1;0;4] = Ok m
  | None => False
  end.
Proof. vm_compute. repeat split. Qed.

(* on the transliterated programs run statement by statement (Codec/Stmt.v) *)
Theorem C02_roundtrip_programs : forall g m, In g all_msgs -> wf_msgb (def_of nas_types g) m = true ->
  exists bs, exec_enc nas_types g m = Ok bs /\ exec_dec nas_types g bs = Ok m.
Proof. exact program_roundtrip. Qed.

Theorem C02_programs_are_encode_def : forall g m, In g all_msgs ->
  exec_enc nas_types g m = encode_def (def_of nas_types g) m.
Proof. exact generated_encoder. Qed.

(* the functions this property is about are functions of their arguments: the files it is anchored in declare
   no package-level variable other than the pinned read-only tables (or a never-touched one of plain type) and
   none of their functions writes, slices, takes the address of, passes on or calls a method of a
   package-level variable (logger entries excepted) -- evaluated on the current source (C19/Globals.v) *)
Theorem C02_anchor_files_keep_no_state :
  Globals.hidden_state_free Globals.anchors_C02 = true.
Proof. vm_compute. reflexivity. Qed.

Print Assumptions C02_all_defs_ok.
Print Assumptions C02_roundtrip.
Print Assumptions C02_roundtrip_msg.
Print Assumptions C02_roundtrip_programs.
Print Assumptions C02_programs_are_encode_def.
Print Assumptions C02_anchor_files_keep_no_state.
