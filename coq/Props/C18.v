(* C18 -- UE policy container (package uePolicyContainer without the identifier generator).

   "Decoding arbitrary bytes as a UE policy delivery message, a section-management list or a
    section-management result terminates with a value or an error, never a panic. Messages
    and nested lists built through the API encode to bytes that decode to equal structures
    with lengths computed from content, and the three PLMN octets use the same TS 24.008
    digit order as every other PLMN encoder in the library."

   Statements are about C18/Model.v (hand-written model of the Go text: bytes.Buffer as
   unread suffix, binary.Read with io.EOF / unexpected EOF, buf.Next, uint8 / uint16
   wrap-around, nil-pointer panic of the encoder, loops on fuel = length of the buffer + 1,
   which every Unmarshal function computes itself).

   Decoders: UePolDeliverySerDecode; the section-management list and result as information
   elements (Iei, Len, Buffer: decode_list_ie / decode_result_ie) and as nested contents
   (ListContent_UnmarshalBinary: sublists > instructions > policy parts;
    ResultContent_UnmarshalBinary: subresults > results). *)
From NV Require C19.Globals.
From NV Require Import Lib.Base C18.Model C18.Spec C18.Proofs_base C18.Proofs_total C18.Proofs_rt C18.Proofs_plmn.
Open Scope N_scope.

(* ---------- never a panic, never a hang: for ALL octet strings ---------- *)
Theorem C18_total_delivery_message : forall bs, is_total (UePolDeliverySerDecode bs).
Proof. exact UePolDeliverySerDecode_total. Qed.

Theorem C18_total_list : forall bs,
  is_total (decode_list_ie bs) /\ is_total (ListContent_UnmarshalBinary bs) /\
  is_total (SubListContents_UnmarshalBinary bs) /\ is_total (UEPolicySectionContents_UnmarshalBinary bs).
Proof.
  intro bs. split; [apply decode_list_ie_total|]. split; [apply ListContent_total|].
  split; [apply SubListContents_total|apply SectionContents_total].
Qed.

Theorem C18_total_result : forall bs,
  is_total (decode_result_ie bs) /\ is_total (ResultContent_UnmarshalBinary bs) /\
  is_total (SubResultContents_UnmarshalBinary bs).
Proof.
  intro bs. split; [apply decode_result_ie_total|]. split; [apply ResultContent_total|apply SubResultContents_total].
Qed.

(* every iteration of the five list loops consumes at least one octet, and the loops
   get fuel = length + 1: they cannot hang *)
Theorem C18_loops_consume :
  consumes parseUEPolicyPart /\ consumes parseInstruction /\ consumes parseUEPlcSublist /\
  consumes parseResult /\ consumes parseUEPlcSubResult.
Proof. exact loops_consume. Qed.

(* ---------- encode then decode ---------- *)
(* Nested list.  wf_sub: the PLMN octets hold decimal digits and every length fits its 16-bit
   field; the Len fields the structure held before are irrelevant (all three levels recompute
   them, C18_part_len_recomputed).  norm_sub: the sublist as MarshalBinary leaves it (all Len
   fields recomputed from content) with Mcc / Mnc re-derived from the three octets. *)
Theorem C18_roundtrip_list_content : forall l, Forall wf_sub l ->
  ListContent_UnmarshalBinary (fst (ListContent_MarshalBinary l)) = Ok (map norm_sub l).
Proof. exact ListContent_rt. Qed.

(* when Mcc / Mnc hold what the octets say (as after SetPlmnDigit, C18_setplmn_api), the
   decoded list is exactly the list as MarshalBinary leaves it *)
Theorem C18_roundtrip_list_content_api : forall l, Forall wf_sub l -> Forall plmn_consistent l ->
  ListContent_UnmarshalBinary (fst (ListContent_MarshalBinary l)) = Ok (snd (ListContent_MarshalBinary l)).
Proof. exact ListContent_rt_api. Qed.

(* "lengths computed from content": every Len counts exactly the octets that follow it *)
Theorem C18_lengths_from_content :
  (forall p, wf_part p -> p_Len (norm_part p) = 1 + blen (p_Contents p) /\ blen (enc_part p) = 2 + p_Len (norm_part p)) /\
  (forall i, wf_ins i -> i_Len (norm_ins i) = 2 + blen (parts_bytes (i_Contents i)) /\ blen (enc_ins i) = 2 + i_Len (norm_ins i)) /\
  (forall s, wf_sub s -> s_Len (norm_sub s) = 3 + blen (ins_bytes (s_Contents s)) /\ blen (enc_sub s) = 2 + s_Len (norm_sub s)).
Proof.
  split; [exact lengths_from_content_part|]. split; [exact lengths_from_content_ins|exact lengths_from_content_sub].
Qed.

(* Nested result.  norm_subres: Len recomputed, Mcc / Mnc re-derived, every Cause = 0x6f
   (MarshalBinary and parseResult both overwrite the cause). *)
Theorem C18_roundtrip_result_content : forall l, Forall wf_subres l ->
  ResultContent_UnmarshalBinary (fst (ResultContent_MarshalBinary l)) = Ok (map norm_subres l).
Proof. exact ResultContent_rt. Qed.

(* Information elements (list and result): Len is set by the caller here, as for every
   nasType element; with Len = len(Buffer) the element is read back, the rest untouched *)
Theorem C18_roundtrip_ie : forall x rest, wf_ie x ->
  List_UnmarshalBinary (List_MarshalBinary x ++ rest) = POk x rest /\
  Result_IE_UnmarshalBinary (Result_IE_MarshalBinary x ++ rest) = POk x rest.
Proof. intros x rest H. split; apply IE_rt; exact H. Qed.

(* Messages: header type, body and body type agree (wf_ser); the decoded message is the
   built one with the header taken from the body's PTI / type (norm_ser) *)
Theorem C18_roundtrip_message : forall u bs, wf_ser u ->
  UePolDeliverySerEncode u = Ok bs -> UePolDeliverySerDecode bs = Ok (norm_ser u).
Proof. exact ser_rt. Qed.

(* ---------- PLMN octets ---------- *)
(* F17: SetPlmnDigit(208, 93) writes 08 f2 93; TS 24.008 (and nasConvert.PlmnIDToNas) give 02 f8 39 *)
Theorem C18_plmn_refuted :
  SetPlmnDigit_octets 208 93 = Some (8, 242, 147) /\ spec_plmn 208 93 = (2, 248, 57).
Proof. exact plmn_refuted. Qed.

(* exactly the pairs whose MCC and MNC digit strings are palindromes are encoded as TS 24.008 says
   (3-digit MCC, 2- or 3-digit MNC) *)
Theorem C18_plmn_partial : forall mcc mnc : N, 100 <= mcc <= 999 -> 10 <= mnc <= 999 ->
  (SetPlmnDigit_octets (Z.of_N mcc) (Z.of_N mnc) = Some (spec_plmn mcc mnc) <-> palindromic mcc mnc).
Proof. exact setplmn_vs_24008. Qed.

(* the octets in closed form: tens|units of the MCC, (1111 or MNC hundreds)|MCC hundreds, tens|units of the MNC *)
Theorem C18_plmn_octets : forall mcc mnc : N, 99 <= mcc <= 999 -> 9 <= mnc <= 999 ->
  SetPlmnDigit_octets (Z.of_N mcc) (Z.of_N mnc) =
    Some (((mcc / 10) mod 10) * 16 + mcc mod 10,
          (if mnc <? 100 then 15 else mnc / 100) * 16 + mcc / 100,
          ((mnc / 10) mod 10) * 16 + mnc mod 10).
Proof. exact octets_closed. Qed.

(* the decoder mirrors the reversed order: the standard octets of PLMN 208/93 are read as 802/39 *)
Theorem C18_plmn_decode_refuted :
  spec_plmn 208 93 = (2, 248, 57) /\
  ListContent_UnmarshalBinary [0; 3; 2; 248; 57] = Ok [mkSubList 3 2 248 57 (Some 802%Z) (Some 39%Z) []].
Proof. split; vm_compute; reflexivity. Qed.

(* the other encoder of the library has the TS 24.008 layout *)
Theorem C18_plmnidtonas_24008 : forall m1 m2 m3 n1 n2 n3, m1 < 16 -> m3 < 16 -> n1 < 16 ->
  PlmnIDToNas_digits m1 m2 m3 n1 n2 n3 = plmn_24008 m1 m2 m3 n1 n2 n3.
Proof. exact PlmnIDToNas_is_24008. Qed.

(* the parse side mirrors the order: internally SetPlmnDigit round-trips *)
Theorem C18_plmn_internal_roundtrip : forall mcc mnc : Z, (99 <= mcc <= 999)%Z -> (9 <= mnc <= 999)%Z ->
  exists d1 d2 d3, SetPlmnDigit_octets mcc mnc = Some (d1, d2, d3) /\
    plmn_ok d1 d2 d3 /\ plmn_mcc d1 d2 = mcc /\ plmn_mnc d2 d3 = mnc.
Proof. exact setplmn_parse. Qed.

Theorem C18_setplmn_api : forall s (mcc mnc : Z), (99 <= mcc <= 999)%Z -> (9 <= mnc <= 999)%Z ->
  exists s', SubList_SetPlmnDigit s mcc mnc = (s', true) /\
    plmn_ok (s_D1 s') (s_D2 s') (s_D3 s') /\ plmn_consistent s' /\
    s_Mcc s' = Some mcc /\ s_Mnc s' = Some mnc /\ s_Contents s' = s_Contents s /\ s_Len s' = s_Len s.
Proof. exact SetPlmnDigit_api. Qed.

(* repaired defects, now full statements ------------------------------------------- *)
(* F23 (fixed): SetPlmnDigit accepts exactly 99 <= mcc <= 999 and 9 <= mnc <= 999 ... *)
Theorem C18_setplmn_accepts : forall mcc mnc : Z,
  SetPlmnDigit_octets mcc mnc <> None <-> (99 <= mcc <= 999 /\ 9 <= mnc <= 999)%Z.
Proof. exact setplmn_accepts. Qed.

(* ... every accepted pair yields octets that the decoder accepts and reads back as the same
   MCC / MNC, and every other pair (any MNC > 999, any MCC outside 99..999, MNC < 9, negative
   values) is refused *)
Theorem C18_setplmn_validation : forall mcc mnc : Z,
  ((99 <= mcc <= 999 /\ 9 <= mnc <= 999)%Z /\
     exists d1 d2 d3, SetPlmnDigit_octets mcc mnc = Some (d1, d2, d3) /\
       plmn_ok d1 d2 d3 /\ plmn_mcc d1 d2 = mcc /\ plmn_mnc d2 d3 = mnc)
  \/ (~ (99 <= mcc <= 999 /\ 9 <= mnc <= 999)%Z /\ SetPlmnDigit_octets mcc mnc = None).
Proof. exact setplmn_validation. Qed.

(* F24 (fixed): for EVERY part, whatever Len held before, MarshalBinary writes and stores
   Len = 1 + len(contents) (in uint16 arithmetic; no wrap when the content fits, wf_part) *)
Theorem C18_part_len_recomputed : forall p,
  UEPolicyPart_MarshalBinary p =
    (put_u16 ((1 + blen (p_Contents p)) mod 65536) ++ [p_Type p] ++ p_Contents p,
     mkPart ((1 + blen (p_Contents p)) mod 65536) (p_Type p) (p_Contents p)).
Proof. exact part_len_recomputed. Qed.

Example C18_f23_witnesses :
  SetPlmnDigit_octets 208 1500 = None /\ SetPlmnDigit_octets 208 1000 = None /\
  SetPlmnDigit_octets 1000 93 = None /\ SetPlmnDigit_octets 98 93 = None /\ SetPlmnDigit_octets 208 8 = None.
Proof. exact setplmn_f23_witnesses. Qed.

Example C18_f24_witness :
  snd (UEPolicyPart_MarshalBinary (mkPart 0 1 [1; 2; 3])) = mkPart 4 1 [1; 2; 3] /\
  UEPolicyPart_MarshalBinary (mkPart 4 1 [9]) = ([0; 2; 1; 9], mkPart 2 1 [9]) /\
  parseUEPolicyPart [0; 2; 1; 9] = POk (mkPart 2 1 [9]) [].
Proof. exact part_f24_witness. Qed.

(* non-vacuity *)
Example C18_example_wf : Forall wf_sub example_list /\ Forall plmn_consistent example_list.
Proof. exact example_list_wf. Qed.

Example C18_example_roundtrip :
  fst (ListContent_MarshalBinary example_list) =
    [0; 20; 8; 242; 147; 0; 11; 0; 7; 0; 4; 1; 1; 2; 3; 0; 1; 2; 0; 2; 0; 8;
     0; 12; 16; 67; 16; 0; 7; 0; 9; 0; 3; 4; 200; 201] /\
  ListContent_UnmarshalBinary (fst (ListContent_MarshalBinary example_list)) =
    Ok (snd (ListContent_MarshalBinary example_list)).
Proof. exact example_list_roundtrip. Qed.

Example C18_example_message :
  let u := mkSer 9 1 (Some (mkCommand 5 1 (mkIE 112 3 [1; 2; 3]) (Some (mkClassmark 113 2 1 0)))) None None in
  wf_ser u /\ UePolDeliverySerEncode u = Ok [5; 1; 112; 0; 3; 1; 2; 3; 113; 2; 1; 0] /\
  UePolDeliverySerDecode [5; 1; 112; 0; 3; 1; 2; 3; 113; 2; 1; 0] = Ok (norm_ser u) /\
  h_PTI (norm_ser u) = 5.
Proof. cbn. repeat split; reflexivity. Qed.

Example C18_example_errors :
  UePolDeliverySerDecode [] = Err /\ UePolDeliverySerDecode [1; 1; 112; 0; 9; 1] = Err /\
  UePolDeliverySerDecode [1; 9] = Err /\ UePolDeliverySerDecode [1; 4] = Ok (mkSer 1 4 None None None) /\
  ListContent_UnmarshalBinary [0; 7; 2; 248; 57; 0; 1; 0; 0] = Err /\
  ListContent_UnmarshalBinary [0; 0; 8; 242; 147] = Ok [mkSubList 0 8 242 147 (Some 208%Z) (Some 93%Z) []] /\
  UePolDeliverySerEncode (mkSer 0 1 None None None) = Panic.
Proof. repeat split; vm_compute; reflexivity. Qed.

(* the functions this property is about are functions of their arguments: the files it is anchored in declare
   no package-level variable other than the pinned read-only tables (or a never-touched one of plain type) and
   none of their functions writes, slices, takes the address of, passes on or calls a method of a
   package-level variable (logger entries excepted) -- evaluated on the current source (C19/Globals.v) *)
Theorem C18_anchor_files_keep_no_state :
  Globals.hidden_state_free Globals.anchors_C18 = true.
Proof. vm_compute. reflexivity. Qed.

Print Assumptions C18_total_delivery_message.
Print Assumptions C18_total_list.
Print Assumptions C18_total_result.
Print Assumptions C18_loops_consume.
Print Assumptions C18_roundtrip_list_content.
Print Assumptions C18_roundtrip_list_content_api.
Print Assumptions C18_lengths_from_content.
Print Assumptions C18_roundtrip_result_content.
Print Assumptions C18_roundtrip_ie.
Print Assumptions C18_roundtrip_message.
Print Assumptions C18_plmn_refuted.
Print Assumptions C18_plmn_partial.
Print Assumptions C18_plmn_decode_refuted.
Print Assumptions C18_plmn_octets.
Print Assumptions C18_plmnidtonas_24008.
Print Assumptions C18_plmn_internal_roundtrip.
Print Assumptions C18_setplmn_api.
Print Assumptions C18_setplmn_accepts.
Print Assumptions C18_setplmn_validation.
Print Assumptions C18_part_len_recomputed.
Print Assumptions C18_anchor_files_keep_no_state.
