(* C06 -- NEA1 / NEA2 / NEA3 ciphering equals the standard 128-EEA1 / 128-EEA2 / 128-EEA3 functions,
   through the per-algorithm functions (arbitrary bit lengths for NEA1 and NEA3; NEA2 is octet-granular in
   this library) and through the in-place byte-length API NASEncrypt.

   Models:  CS3G.Model.NEA1 (+ snow3g), CAES.Model.NEA2 with AES-128 = FIPS-197 (NEA2_aes),
            CZUC.Model.NEA3 (+ zuc); NASEncrypt = the wrapper model instantiated with these (C08/Glue.v).
   Standards (written from the documents, validated by the published test sets in each part):
            CS3G.Spec.Spec.EEA1 (ETSI/SAGE UEA2 = f8 over SNOW 3G), CAES.Spec.EEA2 (TS 33.401 B.1.3:
            AES-128 in SP 800-38A CTR mode), CZUC.Spec.EEA3Spec.eea3 (128-EEA3 v1.7 over ZUC v1.6),
            with the TS 33.401 Annex B / TS 33.501 Annex D parameter mapping.
   octets_bits = the bit string of an octet string, most significant bit first (each part has its own copy).
   Key: 16 octets < 256; COUNT < 2^32; BEARER < 32; DIRECTION < 2.
   Length bounds (from the Go integer types): bit length + 31 < 2^32 for NEA1 / NEA3
   (dom n := 8 * n < 2^32 - 31 for the byte-length API), len < 2^63 for NEA2. *)
From NV Require C19.Globals.
From NV Require Import Lib.Base CAES.Util CAES.Spec CAES.Proofs_aes CAES.Proofs C08.Glue.
From NV Require CAES.Model CS3G.Model CS3G.Spec CZUC.Model CZUC.Spec.
From NV Require Import Props.CS3G Props.CZUC Props.CAES.
Open Scope N_scope.

(* NEA1 = 128-EEA1 for every bit length <= 8 * len(ibs): the output has the input's length and its first
   [length] bits are the standard's output for the first [length] input bits *)
Theorem C06_nea1_eq_eea1 : forall ck count bearer direction ibs length,
  List.length ck = 16%nat -> bytes_ok ck -> count < 2 ^ 32 -> bearer < 32 -> direction < 2 ->
  length <= 8 * N.of_nat (List.length ibs) -> 8 * N.of_nat (List.length ibs) < 2 ^ 32 - 31 ->
  exists obs,
    CS3G.Model.NEA1 ck count bearer direction ibs length = Ok obs /\
    List.length obs = List.length ibs /\
    firstn (N.to_nat length) (CS3G.Spec.Spec.octets_bits obs)
    = CS3G.Spec.Spec.EEA1 ck count bearer direction
        (firstn (N.to_nat length) (CS3G.Spec.Spec.octets_bits ibs)).
Proof. exact CS3G_nea1_eq_uea2. Qed.

(* NEA2 = 128-EEA2 (counter block COUNT | BEARER | DIRECTION | 0^26 | 0^64, incremented per block) for
   every payload of whole octets *)
Theorem C06_nea2_eq_eea2 : forall key count bearer direction ibs,
  List.length key = 16%nat -> count < 2 ^ 32 -> bearer < 32 -> direction < 2 ->
  N.of_nat (List.length ibs) < 2 ^ 63 ->
  CAES.Model.NEA2_aes key count bearer direction ibs = Ok (EEA2 key count bearer direction ibs).
Proof. exact CAES_nea2_aes_eq_EEA2. Qed.

(* NEA3 = 128-EEA3 for every bit length <= 8 * len(ibs): first [length] bits are the standard's output,
   all later bits are 0 *)
Theorem C06_nea3_eq_eea3 : forall ck count bearer direction ibs length,
  List.length ck = 16%nat /\ bytes_ok ck -> count < 2 ^ 32 -> bearer < 32 -> direction < 2 ->
  length <= 8 * N.of_nat (List.length ibs) -> length + 31 < 2 ^ 32 ->
  exists obs,
    CZUC.Model.NEA3 ck count bearer direction ibs length = Ok obs /\
    List.length obs = List.length ibs /\
    CZUC.Spec.octets_bits obs
    = CZUC.Spec.EEA3Spec.eea3 ck count bearer direction
        (firstn (N.to_nat length) (CZUC.Spec.octets_bits ibs))
      ++ repeat false (8 * List.length ibs - N.to_nat length).
Proof. exact CZUC_nea3_eq_eea3. Qed.

(* through the in-place byte-length API: with algorithm identity 1 / 2 / 3 NASEncrypt succeeds and
   overwrites the payload with exactly the standard's output on all 8 * len bits *)
Theorem C06_nasencrypt_eq_standard : forall k c b d (p : bytes),
  List.length k = 16%nat /\ bytes_ok k -> c < 2 ^ 32 -> b < 32 -> d < 2 ->
  8 * N.of_nat (List.length p) < 2 ^ 32 - 31 ->
  (exists ct, NASEncrypt 1 k c b d (Some p) = (Ok tt, Some ct) /\ List.length ct = List.length p /\
     CS3G.Spec.Spec.octets_bits ct = CS3G.Spec.Spec.EEA1 k c b d (CS3G.Spec.Spec.octets_bits p)) /\
  NASEncrypt 2 k c b d (Some p) = (Ok tt, Some (EEA2 k c b d p)) /\
  (exists ct, NASEncrypt 3 k c b d (Some p) = (Ok tt, Some ct) /\ List.length ct = List.length p /\
     CZUC.Spec.octets_bits ct = CZUC.Spec.EEA3Spec.eea3 k c b d (CZUC.Spec.octets_bits p)).
Proof.
  intros k c b d p K Hc Hb Hd Hn.
  exact (conj (c06_enc_alg1 k c b d p (conj K (conj Hc (conj Hb Hd))) Hn)
        (conj (c06_enc_alg2 k c b d p (conj K (conj Hc (conj Hb Hd))) Hn)
              (c06_enc_alg3 k c b d p (conj K (conj Hc (conj Hb Hd))) Hn))).
Qed.

(* non-vacuity: see C08_example_alg1/2/3 (concrete calls), CS3G_example_nea1 (128-EEA1 test set 3 through
   NEA1 and the API), CAES_aes_vectors (128-EEA2 test set 1), CZUC_example_nea3 (128-EEA3 test set 1, 193 bits);
   here: the API on 128-EEA1 test set 3 and the 128-EEA2 value of the same call *)
Example C06_example :
  let k := [0x5a; 0xcb; 0x1d; 0x64; 0x4c; 0x0d; 0x51; 0x20; 0x4e; 0xa5; 0xf1; 0x45; 0x10; 0x10; 0xd8; 0x52] in
  let p := [0xad; 0x9c; 0x44; 0x1f; 0x89; 0x0b; 0x38; 0xc4; 0x57; 0xa4; 0x9d; 0x42; 0x14; 0x07; 0xe8] in
  (List.length k = 16%nat /\ bytes_ok k) /\ 8 * N.of_nat (List.length p) < 2 ^ 32 - 31 /\
  NASEncrypt 1 k 0xfa556b26 3 1 (Some p)
  = (Ok tt, Some [0xba; 0x0f; 0x31; 0x30; 0x03; 0x34; 0xc5; 0x6b; 0x52; 0xa7; 0x49; 0x7c; 0xba; 0xc0; 0x46]) /\
  NASEncrypt 2 k 0xfa556b26 3 1 (Some p) = (Ok tt, Some (EEA2 k 0xfa556b26 3 1 p)) /\
  snd (NASEncrypt 3 k 0xfa556b26 3 1 (Some p)) <> Some p.
Proof.
  cbv zeta. split; [split; [reflexivity|apply bytes_okb_spec; vm_compute; reflexivity]|].
  split; [vm_compute; reflexivity|].
  split; [vm_compute; reflexivity|]. split; [vm_compute; reflexivity|].
  vm_compute. discriminate.
Qed.

(* the functions this property is about are functions of their arguments: the files it is anchored in declare
   no package-level variable other than the pinned read-only tables (or a never-touched one of plain type) and
   none of their functions writes, slices, takes the address of, passes on or calls a method of a
   package-level variable (logger entries excepted) -- evaluated on the current source (C19/Globals.v) *)
Theorem C06_anchor_files_keep_no_state :
  Globals.hidden_state_free Globals.anchors_C06 = true.
Proof. vm_compute. reflexivity. Qed.

Print Assumptions C06_nea1_eq_eea1.
Print Assumptions C06_nea2_eq_eea2.
Print Assumptions C06_nea3_eq_eea3.
Print Assumptions C06_nasencrypt_eq_standard.
Print Assumptions C06_anchor_files_keep_no_state.
