(* C18: executable model of /repo/uePolicyContainer (everything except the identifier
   generator, which is C20).  Hand-written, function by function, Go names kept.

   bytes.Buffer is its unread suffix (a [bytes]).  The stdlib calls are modelled as:
   - binary.Read(buf, BigEndian, &x) for a fixed-size x of n > 0 octets:
       n octets available -> value, buffer advanced by n;
       buffer empty       -> io.EOF                    ([PEof]);
       fewer than n       -> io.ErrUnexpectedEOF, the buffer is drained ([PErr]);
     for a zero-length slice it succeeds and reads nothing;
   - buf.Next(n), n >= 0: the first min(n, Len) octets, buffer advanced by as many;
   - binary.Write / buf.Write into a bytes.Buffer never fail: appending octets.
   Error texts are not modelled; the only distinction kept among errors is
   "err == io.EOF" ([PEof]), because the list loops test for it.  uint8 / uint16
   arithmetic wraps explicitly. *)
From NV Require Import Lib.Base.
Open Scope N_scope.

(* ---------- result of parsing one item from a buffer ---------- *)
Inductive pres (A : Type) : Type :=
| POk (a : A) (rest : bytes)   (* value, unread suffix *)
| PEof                         (* returned error is io.EOF *)
| PErr                         (* any other error *)
| PPanic
| PFuel.
Arguments POk {A} a rest.
Arguments PEof {A}.
Arguments PErr {A}.
Arguments PPanic {A}.
Arguments PFuel {A}.

Definition pbind {A B} (p : pres A) (f : A -> bytes -> pres B) : pres B :=
  match p with
  | POk a r => f a r
  | PEof => PEof
  | PErr => PErr
  | PPanic => PPanic
  | PFuel => PFuel
  end.

(* binary.Read of a uint8 / uint16 / n octets *)
Definition read_u8 (b : bytes) : pres N :=
  match b with [] => PEof | x :: r => POk x r end.
Definition read_u16 (b : bytes) : pres N :=
  match b with [] => PEof | [_] => PErr | x :: y :: r => POk (x * 256 + y) r end.
Definition read_n (n : nat) (b : bytes) : pres bytes :=
  match n with
  | O => POk [] b
  | _ => if (n <=? length b)%nat then POk (firstn n b) (skipn n b)
         else match b with [] => PEof | _ => PErr end
  end.
(* buf.Next(n) for n >= 0 *)
Definition buf_next (n : nat) (b : bytes) : bytes * bytes := (firstn n b, skipn n b).

Definition u16 (n : N) : N := n mod 65536.
Definition put_u16 (v : N) : bytes := [(v / 256) mod 256; v mod 256].

(* the shape shared by the five list loops:
     for { item, err := parse(buf); if err != nil { if err == io.EOF { return nil }; return err }; append item } *)
Fixpoint ploop {A} (fuel : nat) (p : bytes -> pres A) (b : bytes) (acc : list A) : outcome (list A) :=
  match fuel with
  | O => OutOfFuel
  | S f =>
      match p b with
      | POk a rest => ploop f p rest (acc ++ [a])
      | PEof => Ok acc
      | PErr => Err
      | PPanic => Panic
      | PFuel => OutOfFuel
      end
  end.

Definition lift {A B} (o : outcome A) (f : A -> pres B) : pres B :=
  match o with
  | Ok a => f a
  | Err => PErr
  | Panic => PPanic
  | OutOfFuel => PFuel
  end.

(* ---------- UEPolicyPart (UePolicyContainer_UEPolicyParts.go) ---------- *)
Record UEPolicyPart := mkPart {
  p_Len : N;                   (* uint16 *)
  p_Type : N;                  (* UEPolicyPartType.Octet *)
  p_Contents : bytes
}.

(* SetLen_byContent: ctnLen = uint16(1); ctnLen += uint16(len(contents)) *)
Definition SetLen_byContent (p : UEPolicyPart) : UEPolicyPart :=
  mkPart (u16 (1 + u16 (N.of_nat (length (p_Contents p))))) (p_Type p) (p_Contents p).

(* returns the octets and the receiver as MarshalBinary leaves it; since fix F24 the
   length is recomputed from the content on every call, whatever Len held before *)
Definition UEPolicyPart_MarshalBinary (p : UEPolicyPart) : bytes * UEPolicyPart :=
  let p1 := SetLen_byContent p in
  (put_u16 (p_Len p1) ++ [p_Type p1] ++ p_Contents p1, p1).

Definition parseUEPolicyPart (b : bytes) : pres UEPolicyPart :=
  pbind (read_u16 b) (fun len b1 =>
  pbind (read_u8 b1) (fun ty b2 =>
  (* make([]byte, GetLen()-1) in uint16 arithmetic: Len = 0 asks for 65535 octets *)
  pbind (read_n (N.to_nat ((len + 65535) mod 65536)) b2) (fun c b3 =>
  POk (mkPart len ty c) b3))).

(* range loop of the three list MarshalBinary methods *)
Fixpoint marshal_all {A} (m : A -> bytes * A) (l : list A) : bytes * list A :=
  match l with
  | [] => ([], [])
  | x :: t => let (bx, x') := m x in let (bt, t') := marshal_all m t in (bx ++ bt, x' :: t')
  end.

Definition UEPolicySectionContents_MarshalBinary (ps : list UEPolicyPart) : bytes * list UEPolicyPart :=
  marshal_all UEPolicyPart_MarshalBinary ps.

Definition UEPolicySectionContents_UnmarshalBinary (b : bytes) : outcome (list UEPolicyPart) :=
  ploop (S (length b)) parseUEPolicyPart b [].

(* ---------- Instruction (UePolicyContainer_Instruction.go) ---------- *)
Record Instruction := mkIns {
  i_Len : N;
  i_Upsc : N;
  i_Contents : list UEPolicyPart
}.

Definition Instruction_MarshalBinary (i : Instruction) : bytes * Instruction :=
  let (cb, ps) := UEPolicySectionContents_MarshalBinary (i_Contents i) in
  let len := u16 (N.of_nat (length cb) + 2) in
  (put_u16 len ++ put_u16 (i_Upsc i) ++ cb, mkIns len (i_Upsc i) ps).

Definition parseInstruction (b : bytes) : pres Instruction :=
  pbind (read_u16 b) (fun len b1 =>
  pbind (read_u16 b1) (fun upsc b2 =>
  if len <? 2 then PErr
  else
    let (c, b3) := buf_next (N.to_nat (len - 2)) b2 in
    lift (UEPolicySectionContents_UnmarshalBinary c) (fun ps => POk (mkIns len upsc ps) b3))).

Definition SubListContents_MarshalBinary (l : list Instruction) : bytes * list Instruction :=
  marshal_all Instruction_MarshalBinary l.

Definition SubListContents_UnmarshalBinary (b : bytes) : outcome (list Instruction) :=
  ploop (S (length b)) parseInstruction b [].

(* ---------- PLMN digits (same text in SubList.go and SubResult.go) ---------- *)
(* uint8(x) of a Go int *)
Definition u8z (z : Z) : N := Z.to_N (z mod 256)%Z.
(* uint8 << 4 *)
Definition shl4 (x : N) : N := (x * 16) mod 256.

(* SetPlmnDigit: None = the error return (digits untouched) *)
Definition SetPlmnDigit_octets (mcc mnc : Z) : option (N * N * N) :=
  if ((mcc <? 99) || (mcc >? 999))%Z then None
  else if ((mnc <? 9) || (mnc >? 999))%Z then None
  else
    let d1 := N.lor (shl4 (u8z (Z.quot (Z.rem mcc 100) 10))) (u8z (Z.rem mcc 10)) in
    let d2 := if (mnc <? 100)%Z then N.lor 240 (u8z (Z.quot mcc 100))
              else N.lor (shl4 (u8z (Z.quot mnc 100))) (u8z (Z.quot mcc 100)) in
    let d3 := N.lor (shl4 (u8z (Z.quot (Z.rem mnc 100) 10))) (u8z (Z.rem mnc 10)) in
    Some (d1, d2, d3).

(* the digit checks of parseUEPlcSublist / parseUEPlcSubResult after all three octets
   are known; [plmn_check1 d1] etc. are evaluated in the Go order between the reads *)
Definition lo4 (x : N) : N := N.land 15 x.
Definition hi4 (x : N) : N := N.shiftr (N.land 240 x) 4.
Definition plmn_check1 (d1 : N) : bool := (lo4 d1 <=? 9) && (hi4 d1 <=? 9).
Definition plmn_check2 (d2 : N) : bool := (lo4 d2 <=? 9) && ((hi4 d2 <=? 9) || (hi4 d2 =? 15)).
Definition plmn_check3 (d3 : N) : bool := (lo4 d3 <=? 9) && (hi4 d3 <=? 9).
Definition plmn_mcc (d1 d2 : N) : Z := Z.of_N (lo4 d1 + hi4 d1 * 10 + lo4 d2 * 100).
Definition plmn_mnc (d2 d3 : N) : Z :=
  Z.of_N (lo4 d3 + hi4 d3 * 10 + (if hi4 d2 =? 15 then 0 else hi4 d2) * 100).

(* ---------- UEPolicySectionManagementSubList ---------- *)
Record SubList := mkSubList {
  s_Len : N;
  s_D1 : N; s_D2 : N; s_D3 : N;          (* PlmnDigit1..3 *)
  s_Mcc : option Z; s_Mnc : option Z;    (* pointers to int, nil until SetPlmnDigit / parse *)
  s_Contents : list Instruction
}.

Definition SubList_SetPlmnDigit (s : SubList) (mcc mnc : Z) : SubList * bool :=
  match SetPlmnDigit_octets mcc mnc with
  | None => (mkSubList (s_Len s) (s_D1 s) (s_D2 s) (s_D3 s) (Some mcc) (Some mnc) (s_Contents s), false)
  | Some (d1, d2, d3) => (mkSubList (s_Len s) d1 d2 d3 (Some mcc) (Some mnc) (s_Contents s), true)
  end.

Definition SubList_MarshalBinary (s : SubList) : bytes * SubList :=
  let (cb, ins) := SubListContents_MarshalBinary (s_Contents s) in
  let len := u16 (3 + N.of_nat (length cb)) in
  (put_u16 len ++ [s_D1 s; s_D2 s; s_D3 s] ++ cb,
   mkSubList len (s_D1 s) (s_D2 s) (s_D3 s) (s_Mcc s) (s_Mnc s) ins).

Definition parseUEPlcSublist (b : bytes) : pres SubList :=
  pbind (read_u16 b) (fun len b1 =>
  pbind (read_u8 b1) (fun d1 b2 =>
  if negb (plmn_check1 d1) then PErr else
  pbind (read_u8 b2) (fun d2 b3 =>
  if negb (plmn_check2 d2) then PErr else
  pbind (read_u8 b3) (fun d3 b4 =>
  if negb (plmn_check3 d3) then PErr else
  (* "int(u.Len-3) < 0" is never true: the subtraction is done in uint16 *)
  let (c, b5) := buf_next (N.to_nat ((len + 65533) mod 65536)) b4 in
  lift (SubListContents_UnmarshalBinary c) (fun ins =>
    POk (mkSubList len d1 d2 d3 (Some (plmn_mcc d1 d2)) (Some (plmn_mnc d2 d3)) ins) b5))))).

(* UEPolicySectionManagementListContent *)
Definition ListContent_MarshalBinary (l : list SubList) : bytes * list SubList :=
  marshal_all SubList_MarshalBinary l.

Definition ListContent_UnmarshalBinary (b : bytes) : outcome (list SubList) :=
  ploop (S (length b)) parseUEPlcSublist b [].

(* ---------- Result (UePolicyContainer_Result.go) ---------- *)
Record Result := mkResult { r_Upsc : N; r_Order : N; r_Cause : N }.

Definition Result_MarshalBinary (r : Result) : bytes * Result :=
  let r1 := mkResult (r_Upsc r) (r_Order r) 111 in
  (put_u16 (r_Upsc r1) ++ put_u16 (r_Order r1) ++ [r_Cause r1], r1).

Definition parseResult (b : bytes) : pres Result :=
  pbind (read_u16 b) (fun upsc b1 =>
  pbind (read_u16 b1) (fun order b2 =>
  pbind (read_u8 b2) (fun cause b3 =>
  POk (mkResult upsc order 111) b3))).

Definition SubResultContents_MarshalBinary (l : list Result) : bytes * list Result :=
  marshal_all Result_MarshalBinary l.

Definition SubResultContents_UnmarshalBinary (b : bytes) : outcome (list Result) :=
  ploop (S (length b)) parseResult b [].

(* ---------- UEPolicySectionManagementSubResult ---------- *)
Record SubResult := mkSubResult {
  sr_Len : N;
  sr_D1 : N; sr_D2 : N; sr_D3 : N;
  sr_Mcc : option Z; sr_Mnc : option Z;
  sr_Contents : list Result
}.

Definition SubResult_SetPlmnDigit (s : SubResult) (mcc mnc : Z) : SubResult * bool :=
  match SetPlmnDigit_octets mcc mnc with
  | None => (mkSubResult (sr_Len s) (sr_D1 s) (sr_D2 s) (sr_D3 s) (Some mcc) (Some mnc) (sr_Contents s), false)
  | Some (d1, d2, d3) => (mkSubResult (sr_Len s) d1 d2 d3 (Some mcc) (Some mnc) (sr_Contents s), true)
  end.

Definition SubResult_MarshalBinary (s : SubResult) : bytes * SubResult :=
  let (cb, rs) := SubResultContents_MarshalBinary (sr_Contents s) in
  let len := u16 (3 + N.of_nat (length cb)) in
  (put_u16 len ++ [sr_D1 s; sr_D2 s; sr_D3 s] ++ cb,
   mkSubResult len (sr_D1 s) (sr_D2 s) (sr_D3 s) (sr_Mcc s) (sr_Mnc s) rs).

Definition parseUEPlcSubResult (b : bytes) : pres SubResult :=
  pbind (read_u16 b) (fun len b1 =>
  pbind (read_u8 b1) (fun d1 b2 =>
  if negb (plmn_check1 d1) then PErr else
  pbind (read_u8 b2) (fun d2 b3 =>
  if negb (plmn_check2 d2) then PErr else
  pbind (read_u8 b3) (fun d3 b4 =>
  if negb (plmn_check3 d3) then PErr else
  let (c, b5) := buf_next (N.to_nat ((len + 65533) mod 65536)) b4 in
  lift (SubResultContents_UnmarshalBinary c) (fun rs =>
    POk (mkSubResult len d1 d2 d3 (Some (plmn_mcc d1 d2)) (Some (plmn_mnc d2 d3)) rs) b5))))).

Definition ResultContent_MarshalBinary (l : list SubResult) : bytes * list SubResult :=
  marshal_all SubResult_MarshalBinary l.

Definition ResultContent_UnmarshalBinary (b : bytes) : outcome (list SubResult) :=
  ploop (S (length b)) parseUEPlcSubResult b [].

(* ---------- the two information elements: Iei, Len, Buffer ---------- *)
(* UEPolicySectionManagementList and UEPolicySectionManagementResult have the same
   fields and the same MarshalBinary / UnmarshalBinary text *)
Record IE := mkIE { ie_Iei : N; ie_Len : N; ie_Buffer : bytes }.

Definition IE_MarshalBinary (x : IE) : bytes :=
  [ie_Iei x] ++ put_u16 (ie_Len x) ++ ie_Buffer x.

Definition IE_UnmarshalBinary (b : bytes) : pres IE :=
  pbind (read_u8 b) (fun iei b1 =>
  pbind (read_u16 b1) (fun len b2 =>
  pbind (read_n (N.to_nat len) b2) (fun buf b3 =>
  POk (mkIE iei len buf) b3))).

Definition List_MarshalBinary := IE_MarshalBinary.
Definition List_UnmarshalBinary := IE_UnmarshalBinary.
Definition Result_IE_MarshalBinary := IE_MarshalBinary.
Definition Result_IE_UnmarshalBinary := IE_UnmarshalBinary.

(* ---------- UEPolicyNetworkClassmark ---------- *)
Record Classmark := mkClassmark { c_Iei : N; c_Len : N; c_NSSUI : N; c_Spare : N }.

(* ---------- the three messages ---------- *)
Record Command := mkCommand {
  cmd_PTI : N; cmd_Type : N; cmd_List : IE; cmd_Classmark : option Classmark
}.
Record Complete := mkComplete { cpl_PTI : N; cpl_Type : N }.
Record Reject := mkReject { rej_PTI : N; rej_Type : N; rej_Result : IE }.

Definition EncodeManageUEPolicyCommand (m : Command) : bytes :=
  [cmd_PTI m; cmd_Type m] ++ [ie_Iei (cmd_List m)] ++ put_u16 (ie_Len (cmd_List m)) ++ ie_Buffer (cmd_List m)
  ++ match cmd_Classmark m with
     | Some c => [c_Iei c; c_Len c; c_NSSUI c; c_Spare c]
     | None => []
     end.

Definition DecodeManageUEPolicyCommand (b : bytes) : pres Command :=
  pbind (read_u8 b) (fun pti b1 =>
  pbind (read_u8 b1) (fun ty b2 =>
  pbind (read_u8 b2) (fun iei b3 =>
  pbind (read_u16 b3) (fun len b4 =>
  pbind (read_n (N.to_nat len) b4) (fun buf b5 =>
  match b5 with
  | [] => POk (mkCommand pti ty (mkIE iei len buf) None) []
  | _ =>
    pbind (read_u8 b5) (fun ci b6 =>
    pbind (read_u8 b6) (fun cl b7 =>
    pbind (read_u8 b7) (fun cn b8 =>
    pbind (read_u8 b8) (fun cs b9 =>
    match b9 with
    | [] => POk (mkCommand pti ty (mkIE iei len buf) (Some (mkClassmark ci cl cn cs))) []
    | _ => PErr
    end))))
  end))))).

Definition EncodeManageUEPolicyComplete (m : Complete) : bytes := [cpl_PTI m; cpl_Type m].

Definition DecodeManageUEPolicyComplete (b : bytes) : pres Complete :=
  pbind (read_u8 b) (fun pti b1 =>
  pbind (read_u8 b1) (fun ty b2 =>
  POk (mkComplete pti ty) b2)).

Definition EncodeManageUEPolicyReject (m : Reject) : bytes :=
  [rej_PTI m; rej_Type m] ++ Result_IE_MarshalBinary (rej_Result m).

Definition DecodeManageUEPolicyReject (b : bytes) : pres Reject :=
  pbind (read_u8 b) (fun pti b1 =>
  pbind (read_u8 b1) (fun ty b2 =>
  pbind (Result_IE_UnmarshalBinary b2) (fun r b3 =>
  POk (mkReject pti ty r) b3))).

(* ---------- UePolDeliverySer (UePolicyContainer.go) ---------- *)
Record UePolDeliverySer := mkSer {
  h_PTI : N; h_Type : N;                 (* UePolDeliveryHeader.Octet[0], [1] *)
  u_Command : option Command;            (* the three embedded pointers *)
  u_Complete : option Complete;
  u_Reject : option Reject
}.

Definition to_outcome {A} (p : pres A) : outcome A :=
  match p with
  | POk a _ => Ok a
  | PEof | PErr => Err
  | PPanic => Panic
  | PFuel => OutOfFuel
  end.

Definition UePolDeliverySerDecode (b : bytes) : outcome UePolDeliverySer :=
  match read_n 2 b with
  | POk hdr _ =>
      let h0 := nth 0 hdr 0 in
      let h1 := nth 1 hdr 0 in
      if h1 =? 1 then m <- to_outcome (DecodeManageUEPolicyCommand b) ;; Ok (mkSer h0 h1 (Some m) None None)
      else if h1 =? 2 then m <- to_outcome (DecodeManageUEPolicyComplete b) ;; Ok (mkSer h0 h1 None (Some m) None)
      else if h1 =? 3 then m <- to_outcome (DecodeManageUEPolicyReject b) ;; Ok (mkSer h0 h1 None None (Some m))
      else if (h1 =? 4) || (h1 =? 5) || (h1 =? 6) then Ok (mkSer h0 h1 None None None)
      else Err
  | _ => Err
  end.

(* a nil embedded pointer is dereferenced by the Encode method: run-time panic *)
Definition UePolDeliverySerEncode (u : UePolDeliverySer) : outcome bytes :=
  let h1 := h_Type u in
  if h1 =? 1 then match u_Command u with Some m => Ok (EncodeManageUEPolicyCommand m) | None => Panic end
  else if h1 =? 2 then match u_Complete u with Some m => Ok (EncodeManageUEPolicyComplete m) | None => Panic end
  else if h1 =? 3 then match u_Reject u with Some m => Ok (EncodeManageUEPolicyReject m) | None => Panic end
  else if (h1 =? 4) || (h1 =? 5) || (h1 =? 6) then Ok []
  else Err.

(* the three decoders of the property as functions from octets *)
Definition decode_list_ie (b : bytes) : outcome (IE * bytes) :=
  match List_UnmarshalBinary b with POk x r => Ok (x, r) | PEof | PErr => Err | PPanic => Panic | PFuel => OutOfFuel end.
Definition decode_result_ie (b : bytes) : outcome (IE * bytes) :=
  match Result_IE_UnmarshalBinary b with POk x r => Ok (x, r) | PEof | PErr => Err | PPanic => Panic | PFuel => OutOfFuel end.
