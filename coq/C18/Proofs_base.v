(* C18: generic facts about the readers and the list loop. *)
From NV Require Import Lib.Base C18.Model.
From Coq Require Import ZifyN ZifyNat ZifyBool.
Open Scope N_scope.
Ltac Zify.zify_post_hook ::= Z.div_mod_to_equations.

Arguments N.modulo : simpl never.
Arguments N.div : simpl never.
Arguments N.mul : simpl never.
Arguments N.add : simpl never.
Arguments N.sub : simpl never.
Arguments N.to_nat : simpl never.
Arguments N.of_nat : simpl never.
Arguments firstn : simpl never.
Arguments skipn : simpl never.

(* "a value or an error" for one parsing step *)
Definition pres_total {A} (p : pres A) : Prop :=
  match p with PPanic | PFuel => False | _ => True end.

Lemma pbind_total {A B} (p : pres A) (f : A -> bytes -> pres B) :
  pres_total p -> (forall a r, pres_total (f a r)) -> pres_total (pbind p f).
Proof. destruct p; cbn; auto. Qed.

Lemma read_u8_total b : pres_total (read_u8 b).
Proof. destruct b; cbn; auto. Qed.
Lemma read_u16_total b : pres_total (read_u16 b).
Proof. destruct b as [|x [|y r]]; cbn; auto. Qed.
Lemma read_n_total n b : pres_total (read_n n b).
Proof.
  unfold read_n. destruct n; [exact I|].
  destruct (S n <=? length b)%nat; [exact I|]. destruct b; exact I.
Qed.
Lemma lift_total {A B} (o : outcome A) (f : A -> pres B) :
  is_total o -> (forall a, pres_total (f a)) -> pres_total (lift o f).
Proof. destruct o; cbn; auto; tauto. Qed.

Lemma to_outcome_total {A} (p : pres A) : pres_total p -> is_total (to_outcome p).
Proof. destruct p; cbn; auto. Qed.

(* what a successful read consumes *)
Lemma read_u8_ok b v r : read_u8 b = POk v r -> b = v :: r.
Proof. destruct b; cbn; intro H; inversion H; reflexivity. Qed.
Lemma read_u16_ok b v r : read_u16 b = POk v r -> exists x y, b = x :: y :: r /\ v = x * 256 + y.
Proof. destruct b as [|x [|y t]]; cbn; intro H; inversion H. eauto. Qed.
Lemma read_n_ok n b c r : read_n n b = POk c r ->
  c = firstn n b /\ r = skipn n b /\ (n <= length b)%nat.
Proof.
  unfold read_n. destruct n.
  - intro H; inversion H. unfold firstn, skipn. split; [reflexivity|]. split; [reflexivity|lia].
  - destruct (Nat.leb_spec (S n) (length b)).
    + intro E; inversion E. auto.
    + destruct b; discriminate.
Qed.

Lemma firstn_skipn_app (c rest : bytes) :
  firstn (length c) (c ++ rest) = c /\ skipn (length c) (c ++ rest) = rest.
Proof.
  split.
  - rewrite firstn_app, Nat.sub_diag, firstn_all. unfold firstn at 1. apply app_nil_r.
  - rewrite skipn_app, Nat.sub_diag, skipn_all. reflexivity.
Qed.

Lemma read_n_app c rest : read_n (length c) (c ++ rest) = POk c rest.
Proof.
  destruct (firstn_skipn_app c rest) as [E1 E2].
  unfold read_n. destruct (length c) as [|n] eqn:El.
  - destruct c; [reflexivity|discriminate].
  - rewrite E1, E2. rewrite app_length, El.
    destruct (Nat.leb_spec (S n) (S n + length rest)); [reflexivity|lia].
Qed.

Lemma buf_next_app c rest : buf_next (length c) (c ++ rest) = (c, rest).
Proof.
  destruct (firstn_skipn_app c rest) as [E1 E2]. unfold buf_next. rewrite E1, E2. reflexivity.
Qed.

Lemma buf_next_len n b : (length (snd (buf_next n b)) <= length b)%nat /\ (length (fst (buf_next n b)) <= length b)%nat.
Proof. unfold buf_next. cbn [fst snd]. rewrite skipn_length, firstn_length. lia. Qed.

(* big-endian 16-bit fields *)
Lemma read_put_u16 v rest : v < 65536 -> read_u16 (put_u16 v ++ rest) = POk v rest.
Proof.
  intro H. unfold put_u16. cbn [app read_u16]. f_equal. lia.
Qed.

Lemma put_u16_length v : length (put_u16 v) = 2%nat.
Proof. reflexivity. Qed.

(* ---- the list loop ---- *)
Definition consumes {A} (p : bytes -> pres A) : Prop :=
  forall b a r, p b = POk a r -> (length r < length b)%nat.
Definition step_total {A} (p : bytes -> pres A) : Prop := forall b, pres_total (p b).

Lemma ploop_total {A} (p : bytes -> pres A) :
  consumes p -> step_total p ->
  forall fuel b acc, (length b < fuel)%nat -> is_total (ploop fuel p b acc).
Proof.
  intros Hc Ht. induction fuel as [|f IH]; intros b acc Hf; [lia|].
  cbn [ploop]. specialize (Ht b). destruct (p b) as [a r| | | |] eqn:E; cbn in *; auto.
  apply IH. apply Hc in E. lia.
Qed.

Lemma marshal_all_spec {A} (m : A -> bytes * A) l :
  marshal_all m l = (concat (map (fun x => fst (m x)) l), map (fun x => snd (m x)) l).
Proof.
  induction l as [|x t IH]; [reflexivity|].
  cbn [marshal_all map concat]. destruct (m x) as [bx x']. rewrite IH. reflexivity.
Qed.

Lemma ploop_roundtrip {A B} (p : bytes -> pres B) (enc : A -> bytes) (norm : A -> B) (wf : A -> Prop) :
  (forall x rest, wf x -> p (enc x ++ rest) = POk (norm x) rest) ->
  (forall x, wf x -> enc x <> []) ->
  p [] = PEof ->
  forall xs, Forall wf xs ->
  forall fuel acc, (length (concat (map enc xs)) < fuel)%nat ->
  ploop fuel p (concat (map enc xs)) acc = Ok (acc ++ map norm xs).
Proof.
  intros Hp Hne Heof. induction xs as [|x t IH]; intros Hwf fuel acc Hf.
  - cbn [map concat]. destruct fuel; [lia|]. cbn [ploop]. rewrite Heof, app_nil_r. reflexivity.
  - inversion Hwf as [|? ? Hx Ht]; subst.
    cbn [map concat] in *. destruct fuel; [lia|]. cbn [ploop].
    rewrite (Hp x _ Hx). rewrite IH; [rewrite <- app_assoc; reflexivity|assumption|].
    rewrite app_length in Hf. specialize (Hne x Hx). destruct (enc x); [congruence|]. cbn [length] in Hf. lia.
Qed.
