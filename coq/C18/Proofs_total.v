(* C18: every decoder returns a value or an error on every octet string. *)
From NV Require Import Lib.Base C18.Model C18.Proofs_base.
From Coq Require Import ZifyN ZifyNat ZifyBool.
Open Scope N_scope.

Lemma pbind_ok {A B} (p : pres A) (f : A -> bytes -> pres B) a r :
  pbind p f = POk a r -> exists x r1, p = POk x r1 /\ f x r1 = POk a r.
Proof. destruct p; cbn; try discriminate. eauto. Qed.

Lemma lift_ok {A B} (o : outcome A) (f : A -> pres B) a r :
  lift o f = POk a r -> exists x, o = Ok x /\ f x = POk a r.
Proof. destruct o; cbn; try discriminate. eauto. Qed.

Local Ltac inv_reads :=
  repeat match goal with
  | H : pbind _ _ = POk _ _ |- _ => apply pbind_ok in H; destruct H as (? & ? & ? & H)
  | H : read_u8 _ = POk _ _ |- _ => apply read_u8_ok in H
  | H : read_u16 _ = POk _ _ |- _ => apply read_u16_ok in H; destruct H as (? & ? & H & ?)
  | H : read_n _ _ = POk _ _ |- _ => apply read_n_ok in H; destruct H as (? & ? & ?)
  | H : lift _ _ = POk _ _ |- _ => apply lift_ok in H; destruct H as (? & ? & H)
  | H : (if ?c then PErr else _) = POk _ _ |- _ => destruct c; [discriminate|]
  | H : POk _ _ = POk _ _ |- _ => inversion H; clear H
  end.

(* ---- policy parts ---- *)
Lemma parseUEPolicyPart_consumes : consumes parseUEPolicyPart.
Proof.
  intros b a r H. unfold parseUEPolicyPart in H. inv_reads. subst.
  cbn [length]. rewrite skipn_length. lia.
Qed.

Lemma parseUEPolicyPart_total : step_total parseUEPolicyPart.
Proof.
  intro b. unfold parseUEPolicyPart.
  apply pbind_total; [apply read_u16_total|]. intros len b1.
  apply pbind_total; [apply read_u8_total|]. intros ty b2.
  apply pbind_total; [apply read_n_total|]. intros c b3. exact I.
Qed.

Lemma SectionContents_total b : is_total (UEPolicySectionContents_UnmarshalBinary b).
Proof.
  apply ploop_total; [apply parseUEPolicyPart_consumes|apply parseUEPolicyPart_total|lia].
Qed.

(* ---- instructions ---- *)
Lemma parseInstruction_consumes : consumes parseInstruction.
Proof.
  intros b a r H. unfold parseInstruction in H. inv_reads.
  destruct (buf_next _ _) as [c b3] eqn:E. inv_reads. subst.
  match type of E with buf_next ?n ?l = _ => pose proof (buf_next_len n l) as [L _] end.
  rewrite E in L. cbn [snd] in L. cbn [length]. lia.
Qed.

Lemma parseInstruction_total : step_total parseInstruction.
Proof.
  intro b. unfold parseInstruction.
  apply pbind_total; [apply read_u16_total|]. intros len b1.
  apply pbind_total; [apply read_u16_total|]. intros upsc b2.
  destruct (len <? 2); [exact I|].
  destruct (buf_next _ _) as [c b3].
  apply lift_total; [apply SectionContents_total|]. intros; exact I.
Qed.

Lemma SubListContents_total b : is_total (SubListContents_UnmarshalBinary b).
Proof.
  apply ploop_total; [apply parseInstruction_consumes|apply parseInstruction_total|lia].
Qed.

(* ---- sublists ---- *)
Lemma parseUEPlcSublist_consumes : consumes parseUEPlcSublist.
Proof.
  intros b a r H. unfold parseUEPlcSublist in H. inv_reads.
  destruct (buf_next _ _) as [c b5] eqn:E. inv_reads. subst.
  match type of E with buf_next ?n ?l = _ => pose proof (buf_next_len n l) as [L _] end.
  rewrite E in L. cbn [snd] in L. cbn [length]. lia.
Qed.

Lemma parseUEPlcSublist_total : step_total parseUEPlcSublist.
Proof.
  intro b. unfold parseUEPlcSublist.
  apply pbind_total; [apply read_u16_total|]. intros len b1.
  apply pbind_total; [apply read_u8_total|]. intros d1 b2.
  destruct (negb (plmn_check1 d1)); [exact I|].
  apply pbind_total; [apply read_u8_total|]. intros d2 b3.
  destruct (negb (plmn_check2 d2)); [exact I|].
  apply pbind_total; [apply read_u8_total|]. intros d3 b4.
  destruct (negb (plmn_check3 d3)); [exact I|].
  destruct (buf_next _ _) as [c b5].
  apply lift_total; [apply SubListContents_total|]. intros; exact I.
Qed.

Lemma ListContent_total b : is_total (ListContent_UnmarshalBinary b).
Proof.
  apply ploop_total; [apply parseUEPlcSublist_consumes|apply parseUEPlcSublist_total|lia].
Qed.

(* ---- results ---- *)
Lemma parseResult_consumes : consumes parseResult.
Proof.
  intros b a r H. unfold parseResult in H. inv_reads. subst. cbn [length]. lia.
Qed.

Lemma parseResult_total : step_total parseResult.
Proof.
  intro b. unfold parseResult.
  apply pbind_total; [apply read_u16_total|]. intros u b1.
  apply pbind_total; [apply read_u16_total|]. intros o b2.
  apply pbind_total; [apply read_u8_total|]. intros c b3. exact I.
Qed.

Lemma SubResultContents_total b : is_total (SubResultContents_UnmarshalBinary b).
Proof.
  apply ploop_total; [apply parseResult_consumes|apply parseResult_total|lia].
Qed.

Lemma parseUEPlcSubResult_consumes : consumes parseUEPlcSubResult.
Proof.
  intros b a r H. unfold parseUEPlcSubResult in H. inv_reads.
  destruct (buf_next _ _) as [c b5] eqn:E. inv_reads. subst.
  match type of E with buf_next ?n ?l = _ => pose proof (buf_next_len n l) as [L _] end.
  rewrite E in L. cbn [snd] in L. cbn [length]. lia.
Qed.

Lemma parseUEPlcSubResult_total : step_total parseUEPlcSubResult.
Proof.
  intro b. unfold parseUEPlcSubResult.
  apply pbind_total; [apply read_u16_total|]. intros len b1.
  apply pbind_total; [apply read_u8_total|]. intros d1 b2.
  destruct (negb (plmn_check1 d1)); [exact I|].
  apply pbind_total; [apply read_u8_total|]. intros d2 b3.
  destruct (negb (plmn_check2 d2)); [exact I|].
  apply pbind_total; [apply read_u8_total|]. intros d3 b4.
  destruct (negb (plmn_check3 d3)); [exact I|].
  destruct (buf_next _ _) as [c b5].
  apply lift_total; [apply SubResultContents_total|]. intros; exact I.
Qed.

Lemma ResultContent_total b : is_total (ResultContent_UnmarshalBinary b).
Proof.
  apply ploop_total; [apply parseUEPlcSubResult_consumes|apply parseUEPlcSubResult_total|lia].
Qed.

(* ---- information elements and messages (no loops) ---- *)
Lemma IE_Unmarshal_total b : pres_total (IE_UnmarshalBinary b).
Proof.
  unfold IE_UnmarshalBinary.
  apply pbind_total; [apply read_u8_total|]. intros iei b1.
  apply pbind_total; [apply read_u16_total|]. intros len b2.
  apply pbind_total; [apply read_n_total|]. intros; exact I.
Qed.

Lemma decode_list_ie_total b : is_total (decode_list_ie b).
Proof.
  unfold decode_list_ie, List_UnmarshalBinary. pose proof (IE_Unmarshal_total b) as H.
  destruct (IE_UnmarshalBinary b); cbn in *; auto.
Qed.

Lemma decode_result_ie_total b : is_total (decode_result_ie b).
Proof.
  unfold decode_result_ie, Result_IE_UnmarshalBinary. pose proof (IE_Unmarshal_total b) as H.
  destruct (IE_UnmarshalBinary b); cbn in *; auto.
Qed.

Lemma DecodeCommand_total b : pres_total (DecodeManageUEPolicyCommand b).
Proof.
  unfold DecodeManageUEPolicyCommand.
  apply pbind_total; [apply read_u8_total|]. intros pti b1.
  apply pbind_total; [apply read_u8_total|]. intros ty b2.
  apply pbind_total; [apply read_u8_total|]. intros iei b3.
  apply pbind_total; [apply read_u16_total|]. intros len b4.
  apply pbind_total; [apply read_n_total|]. intros buf b5.
  destruct b5 as [|z b5]; [exact I|].
  apply pbind_total; [apply read_u8_total|]. intros ci b6.
  apply pbind_total; [apply read_u8_total|]. intros cl b7.
  apply pbind_total; [apply read_u8_total|]. intros cn b8.
  apply pbind_total; [apply read_u8_total|]. intros cs b9.
  destruct b9; exact I.
Qed.

Lemma DecodeComplete_total b : pres_total (DecodeManageUEPolicyComplete b).
Proof.
  unfold DecodeManageUEPolicyComplete.
  apply pbind_total; [apply read_u8_total|]. intros pti b1.
  apply pbind_total; [apply read_u8_total|]. intros; exact I.
Qed.

Lemma DecodeReject_total b : pres_total (DecodeManageUEPolicyReject b).
Proof.
  unfold DecodeManageUEPolicyReject.
  apply pbind_total; [apply read_u8_total|]. intros pti b1.
  apply pbind_total; [apply read_u8_total|]. intros ty b2.
  apply pbind_total; [apply IE_Unmarshal_total|]. intros; exact I.
Qed.

Lemma obind_total {A B} (o : outcome A) (f : A -> outcome B) :
  is_total o -> (forall a, is_total (f a)) -> is_total (obind o f).
Proof. destruct o; cbn; auto. Qed.

Lemma UePolDeliverySerDecode_total b : is_total (UePolDeliverySerDecode b).
Proof.
  unfold UePolDeliverySerDecode.
  destruct (read_n 2 b) as [hdr r| | | |]; try exact I.
  destruct (nth 1 hdr 0 =? 1).
  { apply obind_total; [apply to_outcome_total, DecodeCommand_total|]. intros; exact I. }
  destruct (nth 1 hdr 0 =? 2).
  { apply obind_total; [apply to_outcome_total, DecodeComplete_total|]. intros; exact I. }
  destruct (nth 1 hdr 0 =? 3).
  { apply obind_total; [apply to_outcome_total, DecodeReject_total|]. intros; exact I. }
  destruct ((nth 1 hdr 0 =? 4) || (nth 1 hdr 0 =? 5) || (nth 1 hdr 0 =? 6)); exact I.
Qed.

(* every iteration of the five loops consumes at least two octets *)
Lemma loops_consume :
  consumes parseUEPolicyPart /\ consumes parseInstruction /\ consumes parseUEPlcSublist /\
  consumes parseResult /\ consumes parseUEPlcSubResult.
Proof.
  repeat split; [apply parseUEPolicyPart_consumes|apply parseInstruction_consumes|
    apply parseUEPlcSublist_consumes|apply parseResult_consumes|apply parseUEPlcSubResult_consumes].
Qed.
