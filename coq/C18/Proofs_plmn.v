(* C18: SetPlmnDigit against TS 24.008, and against its own parser. *)
From NV Require Import Lib.Base Lib.Bits C18.Model C18.Spec C18.Proofs_rt.
From Coq Require Import ZifyN ZifyNat ZifyBool.
Open Scope N_scope.

Definition triple_eqb (a b : N * N * N) : bool :=
  let '(a1, a2, a3) := a in let '(b1, b2, b3) := b in (a1 =? b1) && (a2 =? b2) && (a3 =? b3).

Lemma triple_eqb_spec a b : triple_eqb a b = true <-> a = b.
Proof.
  destruct a as [[a1 a2] a3], b as [[b1 b2] b3]. cbn.
  rewrite !andb_true_iff, !N.eqb_eq. split.
  - intros [[-> ->] ->]. reflexivity.
  - intro H. inversion H. auto.
Qed.

Lemma palindromicb_spec mcc mnc : palindromicb mcc mnc = true <-> palindromic mcc mnc.
Proof.
  unfold palindromicb, palindromic. rewrite andb_true_iff, N.eqb_eq.
  destruct (mnc <? 100); rewrite N.eqb_eq; tauto.
Qed.

(* ranges as lists *)
Definition nrange (lo : nat) (n : nat) : list N := map N.of_nat (seq lo n).

Lemma nrange_In lo n x : (N.of_nat lo <= x < N.of_nat (lo + n)) -> In x (nrange lo n).
Proof.
  intro H. unfold nrange. apply in_map_iff. exists (N.to_nat x). split; [lia|].
  apply in_seq. lia.
Qed.

(* ---- nibbles ---- *)
Lemma nib_sweep :
  forallb (fun a => forallb (fun b => (lo4 (a * 16 + b) =? b) && (hi4 (a * 16 + b) =? a)) (nrange 0 16)) (nrange 0 16) = true.
Proof. vm_compute. reflexivity. Qed.

Lemma nib a b : a < 16 -> b < 16 -> lo4 (a * 16 + b) = b /\ hi4 (a * 16 + b) = a.
Proof.
  intros Ha Hb. pose proof nib_sweep as S. rewrite forallb_forall in S.
  specialize (S a (nrange_In 0 16 a ltac:(lia))). rewrite forallb_forall in S.
  specialize (S b (nrange_In 0 16 b ltac:(lia))). apply andb_true_iff in S.
  rewrite !N.eqb_eq in S. exact S.
Qed.

(* ---- the four sub-expressions of SetPlmnDigit in closed form, by one sweep over
        each argument ---- *)
Definition code_d1 (mcc : Z) : N := N.lor (shl4 (u8z (Z.quot (Z.rem mcc 100) 10))) (u8z (Z.rem mcc 10)).
Definition code_h (mcc : Z) : N := u8z (Z.quot mcc 100).
Definition code_g (mnc : Z) : N := if (mnc <? 100)%Z then 240 else shl4 (u8z (Z.quot mnc 100)).
Definition code_d3 (mnc : Z) : N := N.lor (shl4 (u8z (Z.quot (Z.rem mnc 100) 10))) (u8z (Z.rem mnc 10)).

Lemma mcc_sweep :
  forallb (fun mcc => (code_d1 (Z.of_N mcc) =? ((mcc / 10) mod 10) * 16 + mcc mod 10)
                      && (code_h (Z.of_N mcc) =? mcc / 100)) (nrange 99 901) = true.
Proof. vm_compute. reflexivity. Qed.

Lemma mnc_sweep :
  forallb (fun mnc => (code_d3 (Z.of_N mnc) =? ((mnc / 10) mod 10) * 16 + mnc mod 10)
                      && (code_g (Z.of_N mnc) =? (if mnc <? 100 then 15 else mnc / 100) * 16)) (nrange 9 991) = true.
Proof. vm_compute. reflexivity. Qed.

Lemma octets_unfold (mcc mnc : Z) : (99 <= mcc <= 999)%Z -> (9 <= mnc <= 999)%Z ->
  SetPlmnDigit_octets mcc mnc = Some (code_d1 mcc, N.lor (code_g mnc) (code_h mcc), code_d3 mnc).
Proof.
  intros Hm Hn. unfold SetPlmnDigit_octets, code_d1, code_g, code_h, code_d3.
  destruct (Z.ltb_spec mcc 99); [lia|]. destruct (Z.gtb_spec mcc 999); [lia|].
  destruct (Z.ltb_spec mnc 9); [lia|]. destruct (Z.gtb_spec mnc 999); [lia|]. cbn [orb].
  destruct (mnc <? 100)%Z; reflexivity.
Qed.

(* octet 1 = tens | units of the MCC, octet 2 = (1111 or hundreds of the MNC) | hundreds of the
   MCC, octet 3 = tens | units of the MNC *)
Lemma octets_closed (mcc mnc : N) : 99 <= mcc <= 999 -> 9 <= mnc <= 999 ->
  SetPlmnDigit_octets (Z.of_N mcc) (Z.of_N mnc) =
    Some (((mcc / 10) mod 10) * 16 + mcc mod 10,
          (if mnc <? 100 then 15 else mnc / 100) * 16 + mcc / 100,
          ((mnc / 10) mod 10) * 16 + mnc mod 10).
Proof.
  intros Hm Hn. rewrite octets_unfold by lia.
  pose proof mcc_sweep as S1. rewrite forallb_forall in S1.
  specialize (S1 mcc (nrange_In 99 901 mcc ltac:(lia))). apply andb_true_iff in S1.
  rewrite !N.eqb_eq in S1. destruct S1 as [E1 Eh].
  pose proof mnc_sweep as S2. rewrite forallb_forall in S2.
  specialize (S2 mnc (nrange_In 9 991 mnc ltac:(lia))). apply andb_true_iff in S2.
  rewrite !N.eqb_eq in S2. destruct S2 as [E3 Eg].
  rewrite E1, Eh, E3, Eg.
  change 16 with (2 ^ 4) at 2. rewrite lor_disjoint_add by (change (2 ^ 4) with 16; lia).
  reflexivity.
Qed.

(* internal round trip: what SetPlmnDigit writes, the parser reads back *)
Lemma setplmn_parse (mcc mnc : Z) : (99 <= mcc <= 999)%Z -> (9 <= mnc <= 999)%Z ->
  exists d1 d2 d3, SetPlmnDigit_octets mcc mnc = Some (d1, d2, d3) /\
    plmn_ok d1 d2 d3 /\ plmn_mcc d1 d2 = mcc /\ plmn_mnc d2 d3 = mnc.
Proof.
  intros Hm Hn.
  pose proof (octets_closed (Z.to_N mcc) (Z.to_N mnc) ltac:(lia) ltac:(lia)) as H.
  rewrite !Z2N.id in H by lia.
  set (m := Z.to_N mcc) in *. set (n := Z.to_N mnc) in *.
  assert (Bm : 99 <= m <= 999) by lia. assert (Bn : 9 <= n <= 999) by lia.
  eexists _, _, _. split; [exact H|].
  set (G := if n <? 100 then 15 else n / 100).
  assert (BG : G < 16) by (unfold G; destruct (N.ltb_spec n 100); lia).
  destruct (nib ((m / 10) mod 10) (m mod 10) ltac:(lia) ltac:(lia)) as [L1 H1].
  destruct (nib G (m / 100) BG ltac:(lia)) as [L2 H2].
  destruct (nib ((n / 10) mod 10) (n mod 10) ltac:(lia) ltac:(lia)) as [L3 H3].
  split; [|split].
  - unfold plmn_ok, plmn_check1, plmn_check2, plmn_check3. rewrite L1, H1, L2, H2, L3, H3.
    unfold G. destruct (N.ltb_spec n 100); repeat split; lia.
  - unfold plmn_mcc. rewrite L1, H1, L2. lia.
  - unfold plmn_mnc. rewrite L3, H3, H2. unfold G. destruct (N.ltb_spec n 100).
    + cbn [N.eqb Pos.eqb]. lia.
    + destruct (N.eqb_spec (n / 100) 15); lia.
Qed.

(* against TS 24.008: equal exactly on palindromic digit strings *)
Lemma setplmn_vs_24008 (mcc mnc : N) : 100 <= mcc <= 999 -> 10 <= mnc <= 999 ->
  (SetPlmnDigit_octets (Z.of_N mcc) (Z.of_N mnc) = Some (spec_plmn mcc mnc) <-> palindromic mcc mnc).
Proof.
  intros Hm Hn. rewrite octets_closed by lia.
  unfold spec_plmn, mcc_digits, mnc_digits, plmn_24008, palindromic.
  destruct (N.ltb_spec mnc 100).
  - split.
    + intro E. inversion E. lia.
    + intros [E1 E2]. f_equal. f_equal; [f_equal|]; lia.
  - split.
    + intro E. inversion E. lia.
    + intros [E1 E2]. f_equal. f_equal; [f_equal|]; lia.
Qed.

(* the witness of the defect report *)
Lemma plmn_refuted :
  SetPlmnDigit_octets 208 93 = Some (8, 242, 147) /\ spec_plmn 208 93 = (2, 248, 57).
Proof. split; reflexivity. Qed.

(* the library's other encoder is the TS 24.008 layout *)
Lemma PlmnIDToNas_is_24008 m1 m2 m3 n1 n2 n3 :
  m1 < 16 -> m3 < 16 -> n1 < 16 ->
  PlmnIDToNas_digits m1 m2 m3 n1 n2 n3 = plmn_24008 m1 m2 m3 n1 n2 n3.
Proof.
  intros H1 H3 Hn. unfold PlmnIDToNas_digits, plmn_24008.
  rewrite !shiftl_mul.
  rewrite (lor_disjoint_add m2 m1 4), (lor_disjoint_add n3 m3 4), (lor_disjoint_add n2 n1 4)
    by (change (2 ^ 4) with 16; assumption).
  reflexivity.
Qed.

(* validation (since fix F23): SetPlmnDigit accepts exactly 99 <= mcc <= 999 and
   9 <= mnc <= 999 -- every MNC above 999 and every MCC outside 99..999 is rejected
   (the lower bounds are 99 and 9, not 100 and 10: MCC 99 is the three-digit string 099,
   MNC 9 the two-digit string 09) *)
Lemma setplmn_accepts (mcc mnc : Z) :
  SetPlmnDigit_octets mcc mnc <> None <-> (99 <= mcc <= 999 /\ 9 <= mnc <= 999)%Z.
Proof.
  unfold SetPlmnDigit_octets.
  destruct (Z.ltb_spec mcc 99), (Z.gtb_spec mcc 999), (Z.ltb_spec mnc 9), (Z.gtb_spec mnc 999); cbn [orb];
    split; intro HH; try congruence; try lia; discriminate.
Qed.

(* ... and everything it accepts decodes back to the same MCC / MNC; everything else is
   refused and leaves the octets alone *)
Lemma setplmn_validation (mcc mnc : Z) :
  ((99 <= mcc <= 999 /\ 9 <= mnc <= 999)%Z /\
     exists d1 d2 d3, SetPlmnDigit_octets mcc mnc = Some (d1, d2, d3) /\
       plmn_ok d1 d2 d3 /\ plmn_mcc d1 d2 = mcc /\ plmn_mnc d2 d3 = mnc)
  \/ (~ (99 <= mcc <= 999 /\ 9 <= mnc <= 999)%Z /\ SetPlmnDigit_octets mcc mnc = None).
Proof.
  destruct (SetPlmnDigit_octets mcc mnc) as [t|] eqn:E.
  - left. assert (H : (99 <= mcc <= 999 /\ 9 <= mnc <= 999)%Z) by (apply setplmn_accepts; congruence).
    split; [exact H|]. rewrite <- E. apply setplmn_parse; tauto.
  - right. split; [|reflexivity]. intro H. apply setplmn_accepts in H. congruence.
Qed.

(* the witnesses of the repaired defect F23 are now refused *)
Example setplmn_f23_witnesses :
  SetPlmnDigit_octets 208 1500 = None /\ SetPlmnDigit_octets 208 1000 = None /\
  SetPlmnDigit_octets 1000 93 = None /\ SetPlmnDigit_octets 98 93 = None /\ SetPlmnDigit_octets 208 8 = None.
Proof. repeat split; reflexivity. Qed.

(* a sublist whose PLMN was set with in-range values, or never set, has octets the decoder accepts *)
Lemma plmn_ok_zero : plmn_ok 0 0 0.
Proof. repeat split; reflexivity. Qed.

(* ---- API-built sublists ---- *)
Definition plmn_consistent (s : SubList) : Prop :=
  s_Mcc s = Some (plmn_mcc (s_D1 s) (s_D2 s)) /\ s_Mnc s = Some (plmn_mnc (s_D2 s) (s_D3 s)).

(* SetPlmnDigit with a 3-digit MCC (or 99) and an MNC 9..999 leaves octets the decoder
   accepts and that decode to the values recorded in Mcc / Mnc *)
Lemma SetPlmnDigit_api s (mcc mnc : Z) : (99 <= mcc <= 999)%Z -> (9 <= mnc <= 999)%Z ->
  exists s', SubList_SetPlmnDigit s mcc mnc = (s', true) /\
    plmn_ok (s_D1 s') (s_D2 s') (s_D3 s') /\ plmn_consistent s' /\
    s_Mcc s' = Some mcc /\ s_Mnc s' = Some mnc /\ s_Contents s' = s_Contents s /\ s_Len s' = s_Len s.
Proof.
  intros Hm Hn. destruct (setplmn_parse mcc mnc Hm Hn) as (d1 & d2 & d3 & E & Hok & Emcc & Emnc).
  unfold SubList_SetPlmnDigit. rewrite E. eexists. split; [reflexivity|].
  cbn [s_D1 s_D2 s_D3 s_Mcc s_Mnc s_Contents s_Len]. unfold plmn_consistent.
  cbn [s_D1 s_D2 s_D3 s_Mcc s_Mnc]. rewrite Emcc, Emnc. auto 10.
Qed.

Lemma norm_sub_consistent s : wf_sub s -> plmn_consistent s ->
  norm_sub s = snd (SubList_MarshalBinary s).
Proof.
  intros H [E1 E2]. unfold norm_sub. rewrite (marshal_sub_eq s H).
  cbn [snd s_Len s_D1 s_D2 s_D3 s_Contents]. rewrite <- E1, <- E2. reflexivity.
Qed.

(* decode (encode l) is exactly l as MarshalBinary leaves it (Len fields recomputed) *)
Lemma ListContent_rt_api l : Forall wf_sub l -> Forall plmn_consistent l ->
  ListContent_UnmarshalBinary (fst (ListContent_MarshalBinary l)) = Ok (snd (ListContent_MarshalBinary l)).
Proof.
  intros Hwf Hc. rewrite (ListContent_rt l Hwf). rewrite ListContent_after. f_equal.
  induction l as [|s t IH]; [reflexivity|].
  inversion Hwf; inversion Hc; subst. cbn [map]. rewrite norm_sub_consistent by assumption.
  rewrite IH by assumption. reflexivity.
Qed.

(* ---- F24 (fixed): the witness of the stale length now re-encodes correctly ---- *)
Example part_f24_witness :
  snd (UEPolicyPart_MarshalBinary (mkPart 0 1 [1; 2; 3])) = mkPart 4 1 [1; 2; 3] /\
  (* SetPartContent([9]) keeps Len = 4; the second encoding recomputes it *)
  UEPolicyPart_MarshalBinary (mkPart 4 1 [9]) = ([0; 2; 1; 9], mkPart 2 1 [9]) /\
  parseUEPolicyPart [0; 2; 1; 9] = POk (mkPart 2 1 [9]) [].
Proof. repeat split; reflexivity. Qed.

(* non-vacuity: a list with two sublists, instructions and parts of every kind *)
Definition example_list : list SubList :=
  [ mkSubList 0 8 242 147 (Some 208%Z) (Some 93%Z)
      [ mkIns 0 7 [mkPart 0 1 [1; 2; 3]; mkPart 65535 2 []];
        mkIns 0 8 [] ];
    mkSubList 0 16 67 16 (Some 310%Z) (Some 410%Z) [ mkIns 40000 9 [mkPart 77 4 [200; 201]] ] ].

Example example_list_wf : Forall wf_sub example_list /\ Forall plmn_consistent example_list.
Proof.
  split.
  - unfold example_list.
    repeat match goal with
    | |- Forall _ _ => constructor
    | |- _ /\ _ => split
    | |- _ \/ _ => first [left; reflexivity|right; reflexivity]
    | |- wf_sub _ => unfold wf_sub, plmn_ok
    | |- wf_ins _ => unfold wf_ins
    | |- wf_part _ => unfold wf_part
    | |- _ = true => reflexivity
    | |- _ < _ => vm_compute; reflexivity
    end.
  - repeat constructor.
Qed.

Example example_list_roundtrip :
  fst (ListContent_MarshalBinary example_list) =
    [0; 20; 8; 242; 147; 0; 11; 0; 7; 0; 4; 1; 1; 2; 3; 0; 1; 2; 0; 2; 0; 8;
     0; 12; 16; 67; 16; 0; 7; 0; 9; 0; 3; 4; 200; 201] /\
  ListContent_UnmarshalBinary (fst (ListContent_MarshalBinary example_list)) =
    Ok (snd (ListContent_MarshalBinary example_list)).
Proof. split; vm_compute; reflexivity. Qed.
