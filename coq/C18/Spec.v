(* C18: the PLMN octets as the standard defines them, written independently of the code.

   TS 24.008 10.5.1.3 (figure 10.5.3, used by TS 24.501 D.6.2.3 / D.6.3.3 for the UE
   policy section management sublist and subresult):
       octet 1 :  MCC digit 2 | MCC digit 1
       octet 2 :  MNC digit 3 | MCC digit 3        (MNC digit 3 = 1111 for a two-digit MNC)
       octet 3 :  MNC digit 2 | MNC digit 1
   (high nibble | low nibble), where digit 1 is the first, most significant decimal digit:
   MCC 208 has digits 2, 0, 8; MNC 93 has digits 9, 3. *)
From NV Require Import Lib.Base.
Open Scope N_scope.

Definition plmn_24008 (m1 m2 m3 n1 n2 n3 : N) : N * N * N :=
  (m2 * 16 + m1, n3 * 16 + m3, n2 * 16 + n1).

(* decimal digits, most significant first; an MNC below 100 is a two-digit MNC *)
Definition mcc_digits (mcc : N) : N * N * N := (mcc / 100, (mcc / 10) mod 10, mcc mod 10).
Definition mnc_digits (mnc : N) : N * N * N :=
  if mnc <? 100 then (mnc / 10, mnc mod 10, 15) else (mnc / 100, (mnc / 10) mod 10, mnc mod 10).

Definition spec_plmn (mcc mnc : N) : N * N * N :=
  let '(m1, m2, m3) := mcc_digits mcc in
  let '(n1, n2, n3) := mnc_digits mnc in
  plmn_24008 m1 m2 m3 n1 n2 n3.

(* the library's other PLMN encoder, nasConvert.PlmnIDToNas, on the digit values of its
   text argument: (mccDigit2 << 4) | mccDigit1, (mncDigit3 << 4) | mccDigit3, (mncDigit2 << 4) | mncDigit1 *)
Definition PlmnIDToNas_digits (m1 m2 m3 n1 n2 n3 : N) : N * N * N :=
  (N.lor (N.shiftl m2 4) m1, N.lor (N.shiftl n3 4) m3, N.lor (N.shiftl n2 4) n1).

(* the digit strings read the same forwards and backwards *)
Definition palindromic (mcc mnc : N) : Prop :=
  mcc / 100 = mcc mod 10 /\ (if mnc <? 100 then mnc / 10 = mnc mod 10 else mnc / 100 = mnc mod 10).
Definition palindromicb (mcc mnc : N) : bool :=
  (mcc / 100 =? mcc mod 10) && (if mnc <? 100 then mnc / 10 =? mnc mod 10 else mnc / 100 =? mnc mod 10).
