(* C18: structures built through the API encode to octets that decode to the same
   structures, with every length field recomputed from the content. *)
From NV Require Import Lib.Base C18.Model C18.Proofs_base.
From Coq Require Import ZifyN ZifyNat ZifyBool.
Open Scope N_scope.
Ltac Zify.zify_post_hook ::= Z.div_mod_to_equations.

Arguments N.modulo : simpl never.
Arguments N.div : simpl never.
Arguments N.mul : simpl never.
Arguments N.add : simpl never.
Arguments N.sub : simpl never.
Arguments N.to_nat : simpl never.
Arguments N.of_nat : simpl never.
Arguments firstn : simpl never.
Arguments skipn : simpl never.
Arguments put_u16 : simpl never.

Definition blen (b : bytes) : N := N.of_nat (length b).

(* ---------- policy parts ---------- *)
(* the content fits the 16-bit length field; the prior value of Len is irrelevant
   (MarshalBinary recomputes it on every call) *)
Definition wf_part (p : UEPolicyPart) : Prop := 1 + blen (p_Contents p) < 65536.

Definition enc_part (p : UEPolicyPart) : bytes := fst (UEPolicyPart_MarshalBinary p).
Definition norm_part (p : UEPolicyPart) : UEPolicyPart := snd (UEPolicyPart_MarshalBinary p).

(* for EVERY part: after MarshalBinary Len is 1 + len(contents) in uint16 arithmetic,
   whatever it was before, and that is the length written *)
Lemma part_len_recomputed p :
  UEPolicyPart_MarshalBinary p =
    (put_u16 ((1 + blen (p_Contents p)) mod 65536) ++ [p_Type p] ++ p_Contents p,
     mkPart ((1 + blen (p_Contents p)) mod 65536) (p_Type p) (p_Contents p)).
Proof.
  unfold UEPolicyPart_MarshalBinary, SetLen_byContent, u16, blen. cbn [p_Len p_Type p_Contents].
  replace ((1 + N.of_nat (length (p_Contents p)) mod 65536) mod 65536)
    with ((1 + N.of_nat (length (p_Contents p))) mod 65536) by lia.
  reflexivity.
Qed.

Lemma marshal_part_eq p : wf_part p ->
  UEPolicyPart_MarshalBinary p =
    (put_u16 (1 + blen (p_Contents p)) ++ [p_Type p] ++ p_Contents p,
     mkPart (1 + blen (p_Contents p)) (p_Type p) (p_Contents p)).
Proof.
  intro Hsz. rewrite part_len_recomputed. unfold wf_part in Hsz.
  rewrite N.mod_small by lia. reflexivity.
Qed.

Lemma part_rt p rest : wf_part p ->
  parseUEPolicyPart (enc_part p ++ rest) = POk (norm_part p) rest.
Proof.
  intro H. unfold enc_part, norm_part. rewrite (marshal_part_eq p H). cbn [fst snd].
  unfold wf_part, blen in *.
  unfold parseUEPolicyPart. rewrite <- !app_assoc.
  rewrite read_put_u16 by lia. cbn [pbind app read_u8].
  replace (N.to_nat ((1 + N.of_nat (length (p_Contents p)) + 65535) mod 65536))
    with (length (p_Contents p)) by lia.
  rewrite read_n_app. reflexivity.
Qed.

Lemma enc_part_nonempty p : enc_part p <> [].
Proof.
  unfold enc_part, UEPolicyPart_MarshalBinary. cbn [fst]. unfold put_u16. discriminate.
Qed.

Definition parts_bytes (ps : list UEPolicyPart) : bytes := fst (UEPolicySectionContents_MarshalBinary ps).
Definition norm_parts (ps : list UEPolicyPart) : list UEPolicyPart := snd (UEPolicySectionContents_MarshalBinary ps).

Lemma SectionContents_rt ps : Forall wf_part ps ->
  UEPolicySectionContents_UnmarshalBinary (parts_bytes ps) = Ok (norm_parts ps).
Proof.
  intro H. unfold parts_bytes, norm_parts, UEPolicySectionContents_MarshalBinary, UEPolicySectionContents_UnmarshalBinary.
  rewrite marshal_all_spec. cbn [fst snd].
  apply (ploop_roundtrip parseUEPolicyPart enc_part norm_part wf_part) with (acc := []).
  - intros x rest Hx. apply part_rt. exact Hx.
  - intros x _. apply enc_part_nonempty.
  - reflexivity.
  - exact H.
  - apply Nat.lt_succ_diag_r.
Qed.

(* ---------- instructions ---------- *)
Definition wf_ins (i : Instruction) : Prop :=
  Forall wf_part (i_Contents i) /\ i_Upsc i < 65536 /\ blen (parts_bytes (i_Contents i)) + 2 < 65536.

Definition enc_ins (i : Instruction) : bytes := fst (Instruction_MarshalBinary i).
Definition norm_ins (i : Instruction) : Instruction := snd (Instruction_MarshalBinary i).

Lemma marshal_ins_eq i : wf_ins i ->
  Instruction_MarshalBinary i =
    (put_u16 (blen (parts_bytes (i_Contents i)) + 2) ++ put_u16 (i_Upsc i) ++ parts_bytes (i_Contents i),
     mkIns (blen (parts_bytes (i_Contents i)) + 2) (i_Upsc i) (norm_parts (i_Contents i))).
Proof.
  intros (_ & _ & Hsz). unfold Instruction_MarshalBinary, parts_bytes, norm_parts, blen in *.
  destruct (UEPolicySectionContents_MarshalBinary (i_Contents i)) as [cb ps]. cbn [fst snd] in *.
  unfold u16. rewrite N.mod_small by lia. reflexivity.
Qed.

Lemma ins_rt i rest : wf_ins i ->
  parseInstruction (enc_ins i ++ rest) = POk (norm_ins i) rest.
Proof.
  intro H. unfold enc_ins, norm_ins. rewrite (marshal_ins_eq i H). cbn [fst snd].
  destruct H as (Hps & Hu & Hsz). unfold blen in *.
  unfold parseInstruction. rewrite <- !app_assoc.
  rewrite read_put_u16 by lia. cbn [pbind].
  rewrite read_put_u16 by lia. cbn [pbind].
  destruct (N.ltb_spec (N.of_nat (length (parts_bytes (i_Contents i))) + 2) 2); [lia|].
  replace (N.to_nat (N.of_nat (length (parts_bytes (i_Contents i))) + 2 - 2))
    with (length (parts_bytes (i_Contents i))) by lia.
  rewrite buf_next_app. rewrite (SectionContents_rt _ Hps). reflexivity.
Qed.

Lemma enc_ins_nonempty i : enc_ins i <> [].
Proof.
  unfold enc_ins, Instruction_MarshalBinary.
  destruct (UEPolicySectionContents_MarshalBinary (i_Contents i)). cbn [fst]. unfold put_u16. discriminate.
Qed.

Definition ins_bytes (l : list Instruction) : bytes := fst (SubListContents_MarshalBinary l).
Definition norm_inss (l : list Instruction) : list Instruction := snd (SubListContents_MarshalBinary l).

Lemma SubListContents_rt l : Forall wf_ins l ->
  SubListContents_UnmarshalBinary (ins_bytes l) = Ok (norm_inss l).
Proof.
  intro H. unfold ins_bytes, norm_inss, SubListContents_MarshalBinary, SubListContents_UnmarshalBinary.
  rewrite marshal_all_spec. cbn [fst snd].
  apply (ploop_roundtrip parseInstruction enc_ins norm_ins wf_ins) with (acc := []).
  - intros x rest Hx. apply ins_rt. exact Hx.
  - intros x _. apply enc_ins_nonempty.
  - reflexivity.
  - exact H.
  - apply Nat.lt_succ_diag_r.
Qed.

(* ---------- sublists ---------- *)
(* the three PLMN octets hold decimal digits (1111 allowed for MNC digit 3): what
   SetPlmnDigit produces for the values it is meant for (Proofs_plmn.setplmn_digits_ok),
   and also the all-zero octets of a sublist whose PLMN was never set *)
Definition plmn_ok (d1 d2 d3 : N) : Prop :=
  plmn_check1 d1 = true /\ plmn_check2 d2 = true /\ plmn_check3 d3 = true.

Definition wf_sub (s : SubList) : Prop :=
  plmn_ok (s_D1 s) (s_D2 s) (s_D3 s) /\ Forall wf_ins (s_Contents s) /\
  3 + blen (ins_bytes (s_Contents s)) < 65536.

Definition enc_sub (s : SubList) : bytes := fst (SubList_MarshalBinary s).
(* what decoding yields: the receiver as MarshalBinary leaves it (Len recomputed), with
   Mcc / Mnc re-derived from the octets *)
Definition norm_sub (s : SubList) : SubList :=
  let s' := snd (SubList_MarshalBinary s) in
  mkSubList (s_Len s') (s_D1 s') (s_D2 s') (s_D3 s')
    (Some (plmn_mcc (s_D1 s) (s_D2 s))) (Some (plmn_mnc (s_D2 s) (s_D3 s))) (s_Contents s').

Lemma marshal_sub_eq s : wf_sub s ->
  SubList_MarshalBinary s =
    (put_u16 (3 + blen (ins_bytes (s_Contents s))) ++ [s_D1 s; s_D2 s; s_D3 s] ++ ins_bytes (s_Contents s),
     mkSubList (3 + blen (ins_bytes (s_Contents s))) (s_D1 s) (s_D2 s) (s_D3 s) (s_Mcc s) (s_Mnc s)
       (norm_inss (s_Contents s))).
Proof.
  intros (_ & _ & Hsz). unfold SubList_MarshalBinary, ins_bytes, norm_inss, blen in *.
  destruct (SubListContents_MarshalBinary (s_Contents s)) as [cb ins]. cbn [fst snd] in *.
  unfold u16. rewrite N.mod_small by lia. reflexivity.
Qed.

Lemma sub_rt s rest : wf_sub s ->
  parseUEPlcSublist (enc_sub s ++ rest) = POk (norm_sub s) rest.
Proof.
  intro H. unfold enc_sub, norm_sub. rewrite (marshal_sub_eq s H). cbn [fst snd s_Len s_D1 s_D2 s_D3 s_Contents].
  destruct H as ((C1 & C2 & C3) & Hins & Hsz). unfold blen in *.
  unfold parseUEPlcSublist. rewrite <- !app_assoc.
  rewrite read_put_u16 by lia. cbn [pbind app read_u8].
  rewrite C1, C2, C3. cbn [negb pbind read_u8].
  replace (N.to_nat ((3 + N.of_nat (length (ins_bytes (s_Contents s))) + 65533) mod 65536))
    with (length (ins_bytes (s_Contents s))) by lia.
  rewrite buf_next_app. rewrite (SubListContents_rt _ Hins). reflexivity.
Qed.

Lemma enc_sub_nonempty s : enc_sub s <> [].
Proof.
  unfold enc_sub, SubList_MarshalBinary.
  destruct (SubListContents_MarshalBinary (s_Contents s)). cbn [fst]. unfold put_u16. discriminate.
Qed.

Lemma ListContent_rt l : Forall wf_sub l ->
  ListContent_UnmarshalBinary (fst (ListContent_MarshalBinary l)) = Ok (map norm_sub l).
Proof.
  intro H. unfold ListContent_MarshalBinary, ListContent_UnmarshalBinary.
  rewrite marshal_all_spec. cbn [fst snd].
  apply (ploop_roundtrip parseUEPlcSublist enc_sub norm_sub wf_sub) with (acc := []).
  - intros x rest Hx. apply sub_rt. exact Hx.
  - intros x _. apply enc_sub_nonempty.
  - reflexivity.
  - exact H.
  - apply Nat.lt_succ_diag_r.
Qed.

(* the receiver after MarshalBinary is the decoded value up to Mcc / Mnc *)
Lemma ListContent_after l :
  snd (ListContent_MarshalBinary l) = map (fun s => snd (SubList_MarshalBinary s)) l.
Proof. unfold ListContent_MarshalBinary. rewrite marshal_all_spec. reflexivity. Qed.

(* lengths computed from content: each length field counts exactly the octets that follow it
   within its element *)
Lemma lengths_from_content_part p : wf_part p ->
  p_Len (norm_part p) = 1 + blen (p_Contents p) /\
  blen (enc_part p) = 2 + p_Len (norm_part p).
Proof.
  intro H. unfold norm_part, enc_part. rewrite (marshal_part_eq p H). cbn [fst snd p_Len].
  split; [reflexivity|]. unfold blen. rewrite !app_length, put_u16_length. cbn [length]. lia.
Qed.

Lemma lengths_from_content_ins i : wf_ins i ->
  i_Len (norm_ins i) = 2 + blen (parts_bytes (i_Contents i)) /\
  blen (enc_ins i) = 2 + i_Len (norm_ins i).
Proof.
  intro H. unfold norm_ins, enc_ins. rewrite (marshal_ins_eq i H). cbn [fst snd i_Len].
  split; [lia|]. unfold blen. rewrite !app_length, !put_u16_length. lia.
Qed.

Lemma lengths_from_content_sub s : wf_sub s ->
  s_Len (norm_sub s) = 3 + blen (ins_bytes (s_Contents s)) /\
  blen (enc_sub s) = 2 + s_Len (norm_sub s).
Proof.
  intro H. unfold norm_sub, enc_sub. rewrite (marshal_sub_eq s H). cbn [fst snd s_Len].
  split; [reflexivity|]. unfold blen. rewrite !app_length, !put_u16_length. cbn [length]. lia.
Qed.

(* ---------- results ---------- *)
Definition wf_result (r : Result) : Prop := r_Upsc r < 65536 /\ r_Order r < 65536.
Definition enc_result (r : Result) : bytes := fst (Result_MarshalBinary r).
(* Cause is normalised to 0x6f by MarshalBinary (and by parseResult) *)
Definition norm_result (r : Result) : Result := mkResult (r_Upsc r) (r_Order r) 111.

Lemma result_rt r rest : wf_result r ->
  parseResult (enc_result r ++ rest) = POk (norm_result r) rest.
Proof.
  intros [Hu Ho]. unfold enc_result, Result_MarshalBinary, parseResult. cbn [fst r_Upsc r_Order r_Cause].
  rewrite <- !app_assoc. rewrite read_put_u16 by lia. cbn [pbind].
  rewrite read_put_u16 by lia. cbn [pbind app read_u8]. reflexivity.
Qed.

Lemma result_after r : snd (Result_MarshalBinary r) = norm_result r.
Proof. reflexivity. Qed.

Definition results_bytes (l : list Result) : bytes := fst (SubResultContents_MarshalBinary l).

Lemma SubResultContents_rt l : Forall wf_result l ->
  SubResultContents_UnmarshalBinary (results_bytes l) = Ok (map norm_result l).
Proof.
  intro H. unfold results_bytes, SubResultContents_MarshalBinary, SubResultContents_UnmarshalBinary.
  rewrite marshal_all_spec. cbn [fst snd].
  apply (ploop_roundtrip parseResult enc_result norm_result wf_result) with (acc := []).
  - intros x rest Hx. apply result_rt. exact Hx.
  - intros x _. unfold enc_result, Result_MarshalBinary. cbn [fst]. unfold put_u16. discriminate.
  - reflexivity.
  - exact H.
  - apply Nat.lt_succ_diag_r.
Qed.

Lemma results_bytes_length l : length (results_bytes l) = (5 * length l)%nat.
Proof.
  unfold results_bytes, SubResultContents_MarshalBinary. rewrite marshal_all_spec. cbn [fst].
  induction l as [|x t IH]; [reflexivity|]. cbn [map concat length]. rewrite app_length, IH.
  unfold Result_MarshalBinary. cbn [fst]. rewrite !app_length, !put_u16_length. cbn [length]. lia.
Qed.

Definition blen' {A} (l : list A) : N := N.of_nat (length l).

Definition wf_subres (s : SubResult) : Prop :=
  plmn_ok (sr_D1 s) (sr_D2 s) (sr_D3 s) /\ Forall wf_result (sr_Contents s) /\
  3 + 5 * blen' (sr_Contents s) < 65536.

Definition enc_subres (s : SubResult) : bytes := fst (SubResult_MarshalBinary s).
Definition norm_subres (s : SubResult) : SubResult :=
  mkSubResult (3 + 5 * blen' (sr_Contents s)) (sr_D1 s) (sr_D2 s) (sr_D3 s)
    (Some (plmn_mcc (sr_D1 s) (sr_D2 s))) (Some (plmn_mnc (sr_D2 s) (sr_D3 s)))
    (map norm_result (sr_Contents s)).

Lemma marshal_subres_eq s : wf_subres s ->
  SubResult_MarshalBinary s =
    (put_u16 (3 + 5 * blen' (sr_Contents s)) ++ [sr_D1 s; sr_D2 s; sr_D3 s] ++ results_bytes (sr_Contents s),
     mkSubResult (3 + 5 * blen' (sr_Contents s)) (sr_D1 s) (sr_D2 s) (sr_D3 s) (sr_Mcc s) (sr_Mnc s)
       (map norm_result (sr_Contents s))).
Proof.
  intros (_ & _ & Hsz). pose proof (results_bytes_length (sr_Contents s)) as HL.
  unfold SubResult_MarshalBinary, results_bytes, blen' in *.
  unfold SubResultContents_MarshalBinary in *. rewrite marshal_all_spec in *. cbn [fst snd] in *.
  unfold u16. rewrite HL. rewrite N.mod_small by lia.
  replace (3 + N.of_nat (5 * length (sr_Contents s))) with (3 + 5 * N.of_nat (length (sr_Contents s))) by lia.
  reflexivity.
Qed.

Lemma subres_rt s rest : wf_subres s ->
  parseUEPlcSubResult (enc_subres s ++ rest) = POk (norm_subres s) rest.
Proof.
  intro H. unfold enc_subres, norm_subres. rewrite (marshal_subres_eq s H). cbn [fst snd].
  destruct H as ((C1 & C2 & C3) & Hrs & Hsz).
  pose proof (results_bytes_length (sr_Contents s)) as HL. unfold blen' in *.
  unfold parseUEPlcSubResult. rewrite <- !app_assoc.
  rewrite read_put_u16 by lia. cbn [pbind app read_u8].
  rewrite C1, C2, C3. cbn [negb pbind read_u8].
  replace (N.to_nat ((3 + 5 * N.of_nat (length (sr_Contents s)) + 65533) mod 65536))
    with (length (results_bytes (sr_Contents s))) by lia.
  rewrite buf_next_app. rewrite (SubResultContents_rt _ Hrs). reflexivity.
Qed.

Lemma ResultContent_rt l : Forall wf_subres l ->
  ResultContent_UnmarshalBinary (fst (ResultContent_MarshalBinary l)) = Ok (map norm_subres l).
Proof.
  intro H. unfold ResultContent_MarshalBinary, ResultContent_UnmarshalBinary.
  rewrite marshal_all_spec. cbn [fst snd].
  apply (ploop_roundtrip parseUEPlcSubResult enc_subres norm_subres wf_subres) with (acc := []).
  - intros x rest Hx. apply subres_rt. exact Hx.
  - intros x _. unfold enc_subres, SubResult_MarshalBinary.
    destruct (SubResultContents_MarshalBinary (sr_Contents x)). cbn [fst]. unfold put_u16. discriminate.
  - reflexivity.
  - exact H.
  - apply Nat.lt_succ_diag_r.
Qed.

(* ---------- information elements ---------- *)
(* Len is set by the caller (SetLen), as for every element of nasType: here an input *)
Definition wf_ie (x : IE) : Prop := ie_Len x = blen (ie_Buffer x) /\ ie_Len x < 65536.

Lemma IE_rt x rest : wf_ie x -> IE_UnmarshalBinary (IE_MarshalBinary x ++ rest) = POk x rest.
Proof.
  intros [El Hl]. unfold IE_MarshalBinary, IE_UnmarshalBinary. rewrite <- !app_assoc.
  cbn [app read_u8 pbind]. rewrite read_put_u16 by lia. cbn [pbind].
  rewrite El. unfold blen. rewrite Nat2N.id. rewrite read_n_app. cbn [pbind].
  destruct x as [i l b]. cbn in *. subst l. reflexivity.
Qed.

(* ---------- messages ---------- *)
Definition wf_ser (u : UePolDeliverySer) : Prop :=
  match u_Command u, u_Complete u, u_Reject u with
  | Some m, None, None => h_Type u = 1 /\ cmd_Type m = 1 /\ wf_ie (cmd_List m)
  | None, Some m, None => h_Type u = 2 /\ cpl_Type m = 2
  | None, None, Some m => h_Type u = 3 /\ rej_Type m = 3 /\ wf_ie (rej_Result m)
  | _, _, _ => False
  end.

(* the decoded header is the first two octets, i.e. the body's PTI and message type *)
Definition norm_ser (u : UePolDeliverySer) : UePolDeliverySer :=
  match u_Command u, u_Complete u, u_Reject u with
  | Some m, _, _ => mkSer (cmd_PTI m) (cmd_Type m) (Some m) None None
  | None, Some m, _ => mkSer (cpl_PTI m) (cpl_Type m) None (Some m) None
  | None, None, Some m => mkSer (rej_PTI m) (rej_Type m) None None (Some m)
  | None, None, None => u
  end.

Lemma Command_rt m : wf_ie (cmd_List m) ->
  DecodeManageUEPolicyCommand (EncodeManageUEPolicyCommand m) = POk m [].
Proof.
  intros [El Hl]. unfold EncodeManageUEPolicyCommand, DecodeManageUEPolicyCommand.
  rewrite <- ?app_assoc. cbn [app read_u8 pbind].
  rewrite read_put_u16 by lia. cbn [pbind].
  rewrite El. unfold blen. rewrite Nat2N.id. rewrite read_n_app. cbn [pbind].
  destruct m as [pti ty [iei len buf] cm]. cbn in *. subst len.
  destruct cm as [[ci cl cn cs]|]; reflexivity.
Qed.

Lemma ser_rt u bs : wf_ser u -> UePolDeliverySerEncode u = Ok bs ->
  UePolDeliverySerDecode bs = Ok (norm_ser u).
Proof.
  unfold wf_ser, norm_ser, UePolDeliverySerEncode.
  destruct (u_Command u) as [m|], (u_Complete u) as [c|], (u_Reject u) as [r|]; try tauto.
  - intros (Hh & Ht & Hie). rewrite Hh. cbn [N.eqb Pos.eqb]. intro E. inversion E; subst bs; clear E.
    unfold UePolDeliverySerDecode.
    assert (Hr : read_n 2 (EncodeManageUEPolicyCommand m) =
                 POk [cmd_PTI m; cmd_Type m] (skipn 2 (EncodeManageUEPolicyCommand m))).
    { unfold EncodeManageUEPolicyCommand. reflexivity. }
    rewrite Hr. cbn [nth]. rewrite Ht. cbn [N.eqb Pos.eqb].
    rewrite (Command_rt m Hie). cbn [to_outcome obind]. rewrite <- Ht. reflexivity.
  - intros (Hh & Ht). rewrite Hh. cbn [N.eqb Pos.eqb]. intro E. inversion E; subst bs; clear E.
    unfold UePolDeliverySerDecode, EncodeManageUEPolicyComplete.
    change (read_n 2 [cpl_PTI c; cpl_Type c]) with (POk [cpl_PTI c; cpl_Type c] (@nil N)).
    cbn [nth]. rewrite Ht. cbn [N.eqb Pos.eqb].
    unfold DecodeManageUEPolicyComplete. cbn [read_u8 pbind to_outcome obind].
    rewrite <- Ht. destruct c; reflexivity.
  - intros (Hh & Ht & Hie). rewrite Hh. cbn [N.eqb Pos.eqb]. intro E. inversion E; subst bs; clear E.
    unfold UePolDeliverySerDecode.
    assert (Hr : read_n 2 (EncodeManageUEPolicyReject r) =
                 POk [rej_PTI r; rej_Type r] (skipn 2 (EncodeManageUEPolicyReject r))).
    { unfold EncodeManageUEPolicyReject. reflexivity. }
    rewrite Hr. cbn [nth]. rewrite Ht. cbn [N.eqb Pos.eqb].
    unfold DecodeManageUEPolicyReject, EncodeManageUEPolicyReject, Result_IE_UnmarshalBinary, Result_IE_MarshalBinary.
    cbn [app read_u8 pbind].
    rewrite <- (app_nil_r (IE_MarshalBinary (rej_Result r))). rewrite (IE_rt _ [] Hie).
    cbn [pbind to_outcome obind]. rewrite <- Ht. destruct r; reflexivity.
Qed.
