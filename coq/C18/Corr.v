(* C18 correspondence: decoders, encoders and SetPlmnDigit observed on the Go
   implementation, replayed on the model.  Structures are compared through a
   canonical flattening (field values and list lengths in order), computed by the
   harness on the Go values and by [flat_*] on the model values. *)
From NV Require Import Lib.Base C18.Model.
Open Scope N_scope.

Definition flat_list {A} (f : A -> list N) (l : list A) : list N :=
  N.of_nat (length l) :: flat_map f l.
Definition flat_bytes (b : bytes) : list N := N.of_nat (length b) :: b.

(* *int: nil -> 9999999999, negative -> 4000000000 + |z| *)
Definition zopt (o : option Z) : N :=
  match o with
  | Some z => if (z <? 0)%Z then 4000000000 + Z.to_N (- z) else Z.to_N z
  | None => 9999999999
  end.

Definition flat_part (p : UEPolicyPart) : list N :=
  [p_Len p; p_Type p] ++ flat_bytes (p_Contents p).
Definition flat_ins (i : Instruction) : list N :=
  [i_Len i; i_Upsc i] ++ flat_list flat_part (i_Contents i).
Definition flat_sub (s : SubList) : list N :=
  [s_Len s; s_D1 s; s_D2 s; s_D3 s; zopt (s_Mcc s); zopt (s_Mnc s)] ++ flat_list flat_ins (s_Contents s).
Definition flat_result (r : Result) : list N := [r_Upsc r; r_Order r; r_Cause r].
Definition flat_subres (s : SubResult) : list N :=
  [sr_Len s; sr_D1 s; sr_D2 s; sr_D3 s; zopt (sr_Mcc s); zopt (sr_Mnc s)] ++ flat_list flat_result (sr_Contents s).
Definition flat_ie (x : IE) : list N := [ie_Iei x; ie_Len x] ++ flat_bytes (ie_Buffer x).
Definition flat_opt {A} (f : A -> list N) (o : option A) : list N :=
  match o with Some a => 1 :: f a | None => [0] end.
Definition flat_classmark (c : Classmark) : list N := [c_Iei c; c_Len c; c_NSSUI c; c_Spare c].
Definition flat_command (m : Command) : list N :=
  [cmd_PTI m; cmd_Type m] ++ flat_ie (cmd_List m) ++ flat_opt flat_classmark (cmd_Classmark m).
Definition flat_complete (m : Complete) : list N := [cpl_PTI m; cpl_Type m].
Definition flat_reject (m : Reject) : list N := [rej_PTI m; rej_Type m] ++ flat_ie (rej_Result m).
Definition flat_ser (u : UePolDeliverySer) : list N :=
  [h_PTI u; h_Type u] ++ flat_opt flat_command (u_Command u) ++ flat_opt flat_complete (u_Complete u)
  ++ flat_opt flat_reject (u_Reject u).

(* observed result of a call: flattened value, error, panic *)
Inductive obs := OOk (v : list N) | OErr | OPanic | OHang.

Definition obs_eqb (a b : obs) : bool :=
  match a, b with
  | OOk x, OOk y => eqb_bytes x y
  | OErr, OErr => true
  | OPanic, OPanic => true
  | OHang, OHang => true
  | _, _ => false
  end.

Definition obs_of {A} (f : A -> list N) (o : outcome A) : obs :=
  match o with Ok a => OOk (f a) | Err => OErr | Panic => OPanic | OutOfFuel => OHang end.

Inductive case :=
| CDecSer (id : N) (input : bytes) (o : obs)             (* UePolDeliverySerDecode *)
| CDecListIE (id : N) (input : bytes) (o : obs)          (* UEPolicySectionManagementList.UnmarshalBinary; value ++ [octets left] *)
| CDecResultIE (id : N) (input : bytes) (o : obs)        (* UEPolicySectionManagementResult.UnmarshalBinary *)
| CDecListContent (id : N) (input : bytes) (o : obs)     (* UEPolicySectionManagementListContent.UnmarshalBinary *)
| CDecResultContent (id : N) (input : bytes) (o : obs)   (* UEPolicySectionManagementResultContent.UnmarshalBinary *)
| CEncListContent (id : N) (x : list SubList) (out : bytes) (after : list N)      (* MarshalBinary: octets, receiver afterwards *)
| CEncResultContent (id : N) (x : list SubResult) (out : bytes) (after : list N)
| CEncSer (id : N) (u : UePolDeliverySer) (o : obs)      (* UePolDeliverySerEncode *)
| CSetPlmn (id : N) (mcc mnc : Z) (ok : bool) (d1 d2 d3 : N).  (* SetPlmnDigit on a zero SubList / SubResult *)

Definition case_id (c : case) : N :=
  match c with
  | CDecSer id _ _ | CDecListIE id _ _ | CDecResultIE id _ _ | CDecListContent id _ _
  | CDecResultContent id _ _ | CEncListContent id _ _ _ | CEncResultContent id _ _ _
  | CEncSer id _ _ | CSetPlmn id _ _ _ _ _ _ => id
  end.

Definition flat_ie_rest (x : IE * bytes) : list N := flat_ie (fst x) ++ [N.of_nat (length (snd x))].

Definition case_ok (c : case) : bool :=
  match c with
  | CDecSer _ b o => obs_eqb (obs_of flat_ser (UePolDeliverySerDecode b)) o
  | CDecListIE _ b o => obs_eqb (obs_of flat_ie_rest (decode_list_ie b)) o
  | CDecResultIE _ b o => obs_eqb (obs_of flat_ie_rest (decode_result_ie b)) o
  | CDecListContent _ b o => obs_eqb (obs_of (flat_list flat_sub) (ListContent_UnmarshalBinary b)) o
  | CDecResultContent _ b o => obs_eqb (obs_of (flat_list flat_subres) (ResultContent_UnmarshalBinary b)) o
  | CEncListContent _ x out after =>
      let (bs, x') := ListContent_MarshalBinary x in
      eqb_bytes bs out && eqb_bytes (flat_list flat_sub x') after
  | CEncResultContent _ x out after =>
      let (bs, x') := ResultContent_MarshalBinary x in
      eqb_bytes bs out && eqb_bytes (flat_list flat_subres x') after
  | CEncSer _ u o => obs_eqb (obs_of (fun b => b) (UePolDeliverySerEncode u)) o
  | CSetPlmn _ mcc mnc ok d1 d2 d3 =>
      match SetPlmnDigit_octets mcc mnc with
      | Some (e1, e2, e3) => ok && (e1 =? d1) && (e2 =? d2) && (e3 =? d3)
      | None => negb ok && (d1 =? 0) && (d2 =? 0) && (d3 =? 0)
      end
  end.

Definition mismatches (cs : list case) : list N :=
  map case_id (filter (fun c => negb (case_ok c)) cs).
