(* C09 correspondence: accessor calls observed on the Go implementation, replayed on the
   BV interpreter over the translated bodies. *)
From NV Require Import Lib.Base Lib.BV C09.Types C09.Check Gen.GenAccessors.
From Coq Require Import String.
Open Scope N_scope.

Inductive obs :=
| OPanic
| ORes (iei len : N) (oct : bytes) (r : retv).

Definition retv_eqb (a b : retv) : bool :=
  match a, b with
  | RNone, RNone => true
  | RVal x, RVal y => x =? y
  | RBytes x, RBytes y => eqb_bytes x y
  | _, _ => false
  end.

(* id, type, method, prior (iei, len, octets), scalar argument, byte argument, observed *)
Definition case := (N * string * string * (N * N * bytes) * N * bytes * obs)%type.

Definition find_acc (t m : string) : option accessor :=
  find (fun a => String.eqb (a_type a) t && String.eqb (a_name a) m) accessors.

Definition case_ok (c : case) : bool :=
  let '(_, t, m, (iei, len, oct), v, pb, o) := c in
  match find_acc t m with
  | None => false
  | Some a =>
      let ps := if a_set a then [v] else [] in
      match run_body mask_body (mkst iei len oct 0) ps pb (a_body a), o with
      | Ok (s', r), ORes iei' len' oct' r' =>
          (s_iei s' =? iei') && (s_len s' =? len') && eqb_bytes (s_oct s') oct' && retv_eqb r r'
      | Panic, OPanic => true
      | _, _ => false
      end
  end.

Definition case_id (c : case) : N := let '(i, _, _, _, _, _, _) := c in i.
Definition mismatches (cs : list case) : list N := map case_id (filter (fun c => negb (case_ok c)) cs).
