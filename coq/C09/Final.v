(* C09: instantiation on the accessors translated from the current nasType/*.go. *)
From NV Require Import Lib.Base Lib.Bits Lib.BV C09.Types C09.Abs C09.AbsSound C09.Check C09.All C09.Pairs
  Gen.GenAccessors.
From Coq Require Import String.
Open Scope N_scope.

Lemma mask_ok : mask_closed mask_body = true /\ params_lt 2 mask_body = true.
Proof. split; vm_compute; reflexivity. Qed.

(* THE obligation that is re-checked against the source on every run *)
Lemma all_checked : forallb (acc_ok mask_body) accessors = true.
Proof. vm_compute. reflexivity. Qed.

Lemma all_hold : Forall (acc_holds mask_body) accessors.
Proof. apply all_sound; [apply mask_ok|apply mask_ok|apply all_checked]. Qed.

Lemma holds_of_in a : In a accessors -> acc_holds mask_body a.
Proof. intro H. pose proof all_hold as F. rewrite Forall_forall in F. auto. Qed.

Lemma wf_of_get a r0 r1 sbit len :
  In a accessors -> classify a = KGet r0 r1 sbit len -> layout_wf r0 r1 sbit len = true.
Proof.
  intros Hin Hc. pose proof all_checked as F. rewrite forallb_forall in F.
  specialize (F a Hin). unfold acc_ok in F. rewrite Hc in F. unfold getter_ok in F.
  destruct (a_body a) as [|[ | |e| | | | | ] [|]]; try discriminate.
  apply andb_true_iff in F as [F _]. apply andb_true_iff in F as [F _]. exact F.
Qed.

Lemma pair_set_then_get a b r0 r1 sbit len t :
  In a accessors -> In b accessors ->
  classify a = KSet r0 r1 sbit len t -> classify b = KGet r0 r1 sbit len ->
  forall s v, st_ok s -> octs_ok s r1 -> v < 2 ^ pbits t ->
  exists s' r, run_body mask_body s [v] [] (a_body a) = Ok (s', RNone) /\
               run_body mask_body s' [] [] (a_body b) = Ok (s', RVal r) /\
               r = v mod 2 ^ N.of_nat len.
Proof.
  intros Ha Hb Ca Cb.
  pose proof (holds_of_in a Ha) as HA. pose proof (holds_of_in b Hb) as HB.
  unfold acc_holds in HA, HB. rewrite Ca in HA. rewrite Cb in HB.
  eapply set_then_get; eauto using wf_of_get.
Qed.

Lemma pair_frame a b r0 r1 sbit len t r0' r1' sbit' len' :
  In a accessors -> In b accessors ->
  classify a = KSet r0 r1 sbit len t -> classify b = KGet r0' r1' sbit' len' ->
  disjointb r0 sbit len r0' sbit' len' = true ->
  forall s v, st_ok s -> octs_ok s r1 -> octs_ok s r1' -> v < 2 ^ pbits t ->
  exists s' r, run_body mask_body s [v] [] (a_body a) = Ok (s', RNone) /\
               run_body mask_body s [] [] (a_body b) = Ok (s, RVal r) /\
               run_body mask_body s' [] [] (a_body b) = Ok (s', RVal r).
Proof.
  intros Ha Hb Ca Cb Hd.
  pose proof (holds_of_in a Ha) as HA. pose proof (holds_of_in b Hb) as HB.
  unfold acc_holds in HA, HB. rewrite Ca in HA. rewrite Cb in HB.
  eapply frame; eauto.
Qed.

Lemma set_keeps_header a r0 r1 sbit len t :
  In a accessors -> classify a = KSet r0 r1 sbit len t ->
  forall s v, st_ok s -> octs_ok s r1 -> v < 2 ^ pbits t ->
  exists s', run_body mask_body s [v] [] (a_body a) = Ok (s', RNone) /\
             s_iei s' = s_iei s /\ s_len s' = s_len s /\
             List.length (s_oct s') = List.length (s_oct s).
Proof.
  intros Ha Ca. pose proof (holds_of_in a Ha) as HA. unfold acc_holds in HA. rewrite Ca in HA.
  eapply setter_keeps_header; eauto.
Qed.

(* Get*/Set* methods outside the BV fragment: exactly the hand-modelled text getters *)
Definition expected_skipped : list string :=
  ["DNN.GetDNN"; "DNN.SetDNN"; "MobileIdentity5GS.Get5GGUTI"; "MobileIdentity5GS.Get5GSTMSI";
   "MobileIdentity5GS.Get5GTMSI"; "MobileIdentity5GS.GetAmfID"; "MobileIdentity5GS.GetAmfPointer";
   "MobileIdentity5GS.GetAmfRegionID"; "MobileIdentity5GS.GetAmfSetID"; "MobileIdentity5GS.GetIMEI";
   "MobileIdentity5GS.GetIMEISV"; "MobileIdentity5GS.GetMCC"; "MobileIdentity5GS.GetMNC";
   "MobileIdentity5GS.GetMobileIdentity"; "MobileIdentity5GS.GetPlmnID"; "MobileIdentity5GS.GetSUCI";
   "MobileIdentity5GS.GetTypeOfIdentity"; "TMSI5GS.Get5GSTMSI"]%string.

Lemma skipped_pinned : accessors_skipped = expected_skipped.
Proof. reflexivity. Qed.

(* how many accessors of each class (non-vacuity of the Forall) *)
Definition class_counts : (nat * nat * nat * nat * nat) :=
  fold_left (fun '(g, s, h, ci, co) a =>
    match classify a with
    | KGet _ _ _ _ => (S g, s, h, ci, co)
    | KSet _ _ _ _ _ => (g, S s, h, ci, co)
    | KHdr _ => (g, s, S h, ci, co)
    | KCopyIn _ _ => (g, s, h, S ci, co)
    | KCopyOut _ _ _ => (g, s, h, ci, S co)
    | KBad => (g, s, h, ci, co)
    end) accessors (0, 0, 0, 0, 0)%nat.
