(* C09: consequences for getter/setter pairs: set-then-get and the frame property. *)
From NV Require Import Lib.Base Lib.Bits Lib.BV C09.Types C09.Abs C09.AbsSound C09.Check.
From Coq Require Import ZifyN ZifyNat ZifyBool.
Open Scope N_scope.
Ltac Zify.zify_post_hook ::= Z.div_mod_to_equations.

Lemma fpos_inj r0 sbit len j j' :
  (1 <= sbit <= 8)%nat -> j < N.of_nat len -> j' < N.of_nat len ->
  fpos r0 sbit len j = fpos r0 sbit len j' -> j = j'.
Proof.
  intros Hs Hj Hj' H. unfold fpos in H.
  set (g := N.of_nat (8 - sbit) + (N.of_nat len - 1 - j)) in *.
  set (g' := N.of_nat (8 - sbit) + (N.of_nat len - 1 - j')) in *.
  cbv zeta in H. apply pair_equal_spec in H as [H1 H2].
  assert (g / 8 = g' / 8) by lia.
  assert (g mod 8 = g' mod 8).
  { assert (g mod 8 < 8) by (apply N.mod_lt; lia).
    assert (g' mod 8 < 8) by (apply N.mod_lt; lia). lia. }
  assert (g = g').
  { rewrite (N.div_mod g 8), (N.div_mod g' 8) by lia. congruence. }
  subst g g'. lia.
Qed.

Lemma fpos_bit_lt8 r0 sbit len j : snd (fpos r0 sbit len j) < 8.
Proof. unfold fpos. cbn [snd]. lia. Qed.

Lemma find_field_fpos r0 sbit len j :
  (1 <= sbit <= 8)%nat -> j < N.of_nat len ->
  find_field r0 sbit len (fst (fpos r0 sbit len j)) (snd (fpos r0 sbit len j)) = Some j.
Proof.
  intros Hs Hj. unfold find_field.
  destruct (find _ (field_js len)) as [j'|] eqn:E.
  - apply find_some in E as [Hin Heq]. apply andb_true_iff in Heq as [A B].
    apply Nat.eqb_eq in A. apply N.eqb_eq in B.
    unfold field_js in Hin. apply in_map_iff in Hin as (k & <- & Hk). apply in_seq in Hk.
    f_equal. symmetry. apply (fpos_inj r0 sbit len); try lia.
    destruct (fpos r0 sbit len j), (fpos r0 sbit len (N.of_nat k)). cbn in *. congruence.
  - exfalso.
    assert (Hin : In j (field_js len)).
    { unfold field_js. apply in_map_iff. exists (N.to_nat j). split; [lia|]. apply in_seq. lia. }
    pose proof (find_none _ _ E j Hin) as Hf. cbv beta in Hf.
    rewrite Nat.eqb_refl, N.eqb_refl in Hf. discriminate.
Qed.

Lemma wf_sbit r0 r1 sbit len : layout_wf r0 r1 sbit len = true -> (1 <= sbit <= 8)%nat.
Proof.
  unfold layout_wf. intro H. repeat (apply andb_true_iff in H as [H ?]).
  apply Nat.leb_le in H. apply Nat.leb_le in H2. lia.
Qed.

(* set then get returns the value truncated to the field width *)
Theorem set_then_get mb r0 r1 sbit len t gbody sbody :
  layout_wf r0 r1 sbit len = true ->
  getter_holds mb r0 r1 sbit len gbody -> setter_holds mb r0 r1 sbit len t sbody ->
  forall s v, st_ok s -> octs_ok s r1 -> v < 2 ^ pbits t ->
  exists s' r, run_body mb s [v] [] sbody = Ok (s', RNone) /\
               run_body mb s' [] [] gbody = Ok (s', RVal r) /\
               r = v mod 2 ^ N.of_nat len.
Proof.
  intros Hwf Hg Hset s v Hs Ho Hv.
  pose proof (wf_sbit _ _ _ _ Hwf) as Hsb.
  destruct (Hset s v Hs Ho Hv) as (s' & Hrun & _ & _ & _ & Hlen & Hs' & Hbits).
  assert (Ho' : octs_ok s' r1) by (unfold octs_ok in *; lia).
  destruct (Hg s' Hs' Ho') as (r & Hrg & Hrb).
  exists s', r. split; [exact Hrun|]. split; [exact Hrg|].
  apply N.bits_inj. intro j. rewrite Hrb.
  destruct (N.ltb_spec j (N.of_nat len)) as [Hj|Hj].
  - rewrite N.mod_pow2_bits_low by assumption.
    cbv zeta. rewrite Hbits by apply fpos_bit_lt8.
    unfold set_spec_bit. rewrite find_field_fpos by assumption. reflexivity.
  - rewrite N.mod_pow2_bits_high by assumption. reflexivity.
Qed.

(* no bit of the getter's field (layout g) belongs to the setter's field (layout s) *)
Definition disjointb (r0 sbit len : nat) (r0' sbit' len' : nat) : bool :=
  forallb (fun j' => let p := fpos r0' sbit' len' j' in
                     match find_field r0 sbit len (fst p) (snd p) with None => true | Some _ => false end)
          (field_js len').

(* a setter leaves every non-overlapping field of the same element unchanged *)
Theorem frame mb r0 r1 sbit len t sbody r0' r1' sbit' len' gbody :
  setter_holds mb r0 r1 sbit len t sbody -> getter_holds mb r0' r1' sbit' len' gbody ->
  disjointb r0 sbit len r0' sbit' len' = true ->
  forall s v, st_ok s -> octs_ok s r1 -> octs_ok s r1' -> v < 2 ^ pbits t ->
  exists s' r, run_body mb s [v] [] sbody = Ok (s', RNone) /\
               run_body mb s [] [] gbody = Ok (s, RVal r) /\
               run_body mb s' [] [] gbody = Ok (s', RVal r).
Proof.
  intros Hset Hg Hd s v Hs Ho Ho' Hv.
  destruct (Hset s v Hs Ho Hv) as (s' & Hrun & _ & _ & _ & Hlen & Hs' & Hbits).
  assert (Ho2 : octs_ok s' r1') by (unfold octs_ok in *; lia).
  destruct (Hg s Hs Ho') as (r & Hr & Hrb).
  destruct (Hg s' Hs' Ho2) as (r' & Hr' & Hrb').
  exists s', r. split; [exact Hrun|]. split; [exact Hr|].
  replace r with r'; [exact Hr'|].
  apply N.bits_inj. intro j. rewrite Hrb, Hrb'.
  destruct (N.ltb_spec j (N.of_nat len')) as [Hj|Hj]; [|reflexivity].
  cbv zeta. rewrite Hbits by apply fpos_bit_lt8.
  unfold set_spec_bit.
  unfold disjointb in Hd. rewrite forallb_forall in Hd.
  specialize (Hd j). cbv zeta in Hd.
  destruct (find_field r0 sbit len _ _); [|reflexivity].
  assert (In j (field_js len')).
  { unfold field_js. apply in_map_iff. exists (N.to_nat j). split; [lia|]. apply in_seq. lia. }
  specialize (Hd H). discriminate.
Qed.

(* a setter never changes the identifier or the length of the element *)
Theorem setter_keeps_header mb r0 r1 sbit len t sbody :
  setter_holds mb r0 r1 sbit len t sbody ->
  forall s v, st_ok s -> octs_ok s r1 -> v < 2 ^ pbits t ->
  exists s', run_body mb s [v] [] sbody = Ok (s', RNone) /\
             s_iei s' = s_iei s /\ s_len s' = s_len s /\
             List.length (s_oct s') = List.length (s_oct s).
Proof.
  intros Hset s v Hs Ho Hv.
  destruct (Hset s v Hs Ho Hv) as (s' & Hrun & A & B & _ & D & _).
  exists s'. auto.
Qed.
