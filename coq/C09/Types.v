(* C09: what the translator emits for each nasType accessor. *)
From NV Require Import Lib.Base Lib.BV.
From Coq Require String.

Inductive backing := BScalar | BArray (n : nat) | BBuffer | BNone.
Record shape := mkshape { sh_iei : bool; sh_lenw : nat; sh_back : backing }.

(* "<Field> Row, sBit, len = [r0, r1], sbit , len|INF" *)
Record layout := mklayout {
  l_field : String.string;
  l_rows : option (nat * nat);
  l_sbit : nat;
  l_len : option nat }.

Record accessor := mkacc {
  a_type : String.string;
  a_name : String.string;
  a_set : bool;
  a_layout : option layout;
  a_shape : shape;
  a_pty : option ty;          (* scalar parameter / result type *)
  a_plen : option nat;        (* length of the array parameter / result *)
  a_body : list stmt }.
