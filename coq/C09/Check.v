(* C09: the reflective checker for accessors and its soundness. *)
From NV Require Import Lib.Base Lib.Bits Lib.BV C09.Types C09.Abs C09.AbsSound.
From Coq Require Import ZifyN ZifyNat ZifyBool.
Open Scope N_scope.

(* ---------- layout -> bit positions ---------- *)

(* field bit j (LSB first, j < len) lives in octet [fst], bit [snd] (0 = LSB) *)
Definition fpos (r0 sbit len : nat) (j : N) : nat * N :=
  let g := N.of_nat (8 - sbit) + (N.of_nat len - 1 - j) in
  ((r0 + N.to_nat (g / 8))%nat, 7 - g mod 8).

Definition layout_fin (l : layout) : option (nat * nat * nat * nat) :=
  match l_rows l, l_len l with
  | Some (r0, r1), Some len => Some (r0, r1, l_sbit l, len)
  | _, _ => None
  end.

Definition layout_wf (r0 r1 sbit len : nat) : bool :=
  (Nat.leb 1 sbit && Nat.leb sbit 8 && Nat.leb 1 len && Nat.leb len 64 &&
   Nat.eqb (r0 + (8 - sbit + len - 1) / 8) r1)%nat.

Definition field_js (len : nat) : list N := map N.of_nat (seq 0 len).

(* which field bit, if any, sits at (octet o, bit b) *)
Definition find_field (r0 sbit len : nat) (o : nat) (b : N) : option N :=
  find (fun j => let p := fpos r0 sbit len j in Nat.eqb (fst p) o && (snd p =? b)) (field_js len).

Definition aval_eq64 (a b : aval) : bool := forallb (fun i => abit_eqb (a i) (b i)) idx64.

Lemma aval_eq64_spec a b i : aval_eq64 a b = true -> i < 64 -> a i = b i.
Proof.
  intros H Hi. unfold aval_eq64 in H. rewrite forallb_forall in H.
  apply abit_eqb_eq. apply H. apply in_idx64. assumption.
Qed.

(* ---------- safety: the expression evaluates (no Panic) ---------- *)

Fixpoint params_lt (n : nat) (e : expr) : bool :=
  match e with
  | EParam k _ => Nat.ltb k n
  | EBin _ _ a b => params_lt n a && params_lt n b
  | ECast _ a => params_lt n a
  | _ => true
  end.

Fixpoint safe_expr (nparams noct : nat) (e : expr) : bool :=
  match e with
  | EConst _ _ | EFld _ => true
  | EParam k _ => Nat.ltb k nparams
  | EOct i => Nat.ltb i noct
  | EBin _ _ a b | EMask a b => safe_expr nparams noct a && safe_expr nparams noct b
  | ECast _ a => safe_expr nparams noct a
  | EUnknown => false
  end.

Lemma closed_eval_ok e call s ps :
  mask_closed e = true -> params_lt (length ps) e = true ->
  exists r, eval_gen call s ps e = Ok r.
Proof.
  induction e as [t n|k t|o|f|op t a IHa b IHb|t a IHa|a IHa b IHb|]; cbn [mask_closed params_lt]; intros H1 H2;
    try discriminate; cbn [eval_gen].
  - eexists; reflexivity.
  - apply Nat.ltb_lt in H2. destruct (nth_error ps k) eqn:E; [eexists; reflexivity|].
    apply nth_error_None in E. lia.
  - apply andb_true_iff in H1 as [A1 B1]. apply andb_true_iff in H2 as [A2 B2].
    destruct (IHa A1 A2) as [x ->]. destruct (IHb B1 B2) as [y ->]. cbn. eexists; reflexivity.
  - destruct (IHa H1 H2) as [x ->]. cbn. eexists; reflexivity.
Qed.

Lemma safe_eval_ok mb s ps e :
  mask_closed mb = true -> params_lt 2 mb = true ->
  safe_expr (length ps) (length (s_oct s)) e = true ->
  exists r, eval mb s ps e = Ok r.
Proof.
  intros Hc Hp.
  induction e as [t n|k t|o|f|op t a IHa b IHb|t a IHa|a IHa b IHb|]; cbn [safe_expr]; intro H;
    try discriminate.
  - eexists; reflexivity.
  - apply Nat.ltb_lt in H. unfold eval; cbn [eval_gen].
    destruct (nth_error ps k) eqn:E; [eexists; reflexivity|]. apply nth_error_None in E. lia.
  - apply Nat.ltb_lt in H. unfold eval; cbn [eval_gen]. unfold idx.
    destruct (nth_error (s_oct s) o) eqn:E; [eexists; reflexivity|]. apply nth_error_None in E. lia.
  - eexists; reflexivity.
  - apply andb_true_iff in H as [A B]. rewrite eval_bin.
    destruct (IHa A) as [x ->]. destruct (IHb B) as [y ->]. cbn. eexists; reflexivity.
  - rewrite eval_cast. destruct (IHa H) as [x ->]. cbn. eexists; reflexivity.
  - apply andb_true_iff in H as [A B]. rewrite eval_mask.
    destruct (IHa A) as [x ->]. destruct (IHb B) as [y ->]. cbn [obind].
    apply closed_eval_ok; assumption.
Qed.

(* ---------- getters ---------- *)

Definition expected_get (r0 sbit len : nat) : aval :=
  fun j => if j <? N.of_nat len then let p := fpos r0 sbit len j in AO (fst p) (snd p) else A0.

Definition getter_ok (mb : expr) (r0 r1 sbit len : nat) (body : list stmt) : bool :=
  match body with
  | [SRet e] =>
      layout_wf r0 r1 sbit len && safe_expr 0 (S r1) e &&
      aval_eq64 (aeval mb e) (expected_get r0 sbit len)
  | _ => false
  end.

Definition octs_ok (s : st) (r1 : nat) : Prop := (r1 < length (s_oct s))%nat.

Definition run_body (mb : expr) (s : st) (ps : list N) (pb : bytes) (body : list stmt) :=
  exec mb (fun _ => None) 0 s ps pb body.

(* the getter returns exactly the documented bits and leaves the element unchanged *)
Definition getter_holds (mb : expr) (r0 r1 sbit len : nat) (body : list stmt) : Prop :=
  forall s, st_ok s -> octs_ok s r1 ->
    exists r, run_body mb s [] [] body = Ok (s, RVal r) /\
      forall j, N.testbit r j =
        if j <? N.of_nat len
        then let p := fpos r0 sbit len j in N.testbit (nth (fst p) (s_oct s) 0) (snd p)
        else false.

Lemma safe_mono np n m e : (n <= m)%nat -> safe_expr np n e = true -> safe_expr np m e = true.
Proof.
  intro Hnm. induction e; cbn [safe_expr]; intro H; auto.
  - apply Nat.ltb_lt in H. apply Nat.ltb_lt. lia.
  - apply andb_true_iff in H as [A B]. rewrite IHe1, IHe2; auto.
  - apply andb_true_iff in H as [A B]. rewrite IHe1, IHe2; auto.
Qed.

Lemma getter_sound mb r0 r1 sbit len body :
  mask_closed mb = true -> params_lt 2 mb = true ->
  getter_ok mb r0 r1 sbit len body = true -> getter_holds mb r0 r1 sbit len body.
Proof.
  intros Hc Hp H. unfold getter_ok in H.
  destruct body as [|[ | |e| | | | | ] [|]]; try discriminate.
  apply andb_true_iff in H as [H Heq]. apply andb_true_iff in H as [Hwf Hsafe].
  intros s Hs Ho. unfold octs_ok in Ho.
  assert (Hsafe' : safe_expr (length (@nil N)) (length (s_oct s)) e = true).
  { cbn [length]. eapply safe_mono; [|exact Hsafe]. lia. }
  destruct (safe_eval_ok mb s [] e Hc Hp Hsafe') as [r Hr].
  exists r. split.
  - unfold run_body. cbn [exec]. unfold eval1. rewrite Hr. reflexivity.
  - intro j.
    assert (Hv : 0 < 2 ^ 64) by (apply pow2_pos).
    (* the abstract value was computed for parameter list [v]; getters take none:
       evaluation with [] and with [0] agree because the expression is safe for 0 parameters *)
    assert (Hr0 : eval mb s [0] e = Ok r).
    { clear - Hsafe Hr. revert r Hr.
      induction e as [t n|k t|o|f|op t a IHa b IHb|t a IHa|a IHa b IHb|]; cbn [safe_expr] in Hsafe; intros r Hr;
        try discriminate; try exact Hr.
      - apply andb_true_iff in Hsafe as [A B]. rewrite eval_bin in *.
        destruct (eval mb s [] a) as [x| | |] eqn:Ea; cbn [obind] in Hr; try discriminate.
        destruct (eval mb s [] b) as [y| | |] eqn:Eb; cbn [obind] in Hr; try discriminate.
        rewrite (IHa A x eq_refl), (IHb B y eq_refl). exact Hr.
      - rewrite eval_cast in *.
        destruct (eval mb s [] a) as [x| | |] eqn:Ea; cbn [obind] in Hr; try discriminate.
        rewrite (IHa Hsafe x eq_refl). exact Hr.
      - apply andb_true_iff in Hsafe as [A B]. rewrite eval_mask in *.
        destruct (eval mb s [] a) as [x| | |] eqn:Ea; cbn [obind] in Hr; try discriminate.
        destruct (eval mb s [] b) as [y| | |] eqn:Eb; cbn [obind] in Hr; try discriminate.
        rewrite (IHa A x eq_refl), (IHb B y eq_refl). exact Hr. }
    pose proof (aeval_sound mb s 0 e Hc Hs Hv r Hr0) as HR.
    pose proof (eval_hi mb s [0] e r Hs Hr0) as Hhi.
    destruct (N.ltb_spec j 64) as [Hj|Hj].
    + specialize (HR j). rewrite (aval_eq64_spec _ _ j Heq Hj) in HR.
      unfold expected_get in HR.
      destruct (N.ltb_spec j (N.of_nat len)) as [Hl|Hl].
      * apply HR. reflexivity.
      * apply HR. reflexivity.
    + rewrite Hhi by assumption.
      destruct (N.ltb_spec j (N.of_nat len)) as [Hl|Hl]; [|reflexivity].
      unfold layout_wf in Hwf. repeat (apply andb_true_iff in Hwf as [Hwf ?]).
      apply Nat.leb_le in H0. lia.
Qed.

(* ---------- setters ---------- *)

(* bits of the new value of octet o: parameter bits inside the field, the old bits elsewhere *)
Definition expected_set (r0 sbit len : nat) (o : nat) : aval :=
  fun b => if b <? 8
           then match find_field r0 sbit len o b with Some j => AP j | None => AO o b end
           else A0.

Fixpoint sets_of (body : list stmt) : option (list (nat * expr)) :=
  match body with
  | [] => Some []
  | SSetOct i e :: t => match sets_of t with Some l => Some ((i, e) :: l) | None => None end
  | _ => None
  end.

Fixpoint nodupb (l : list nat) : bool :=
  match l with [] => true | x :: t => negb (existsb (Nat.eqb x) t) && nodupb t end.

Lemma nodupb_spec l : nodupb l = true -> NoDup l.
Proof.
  induction l as [|x t IH]; cbn; intro H; constructor.
  - apply andb_true_iff in H as [H _]. apply negb_true_iff in H.
    intro Hin. assert (existsb (Nat.eqb x) t = true); [|congruence].
    apply existsb_exists. exists x. split; [assumption|apply Nat.eqb_refl].
  - apply andb_true_iff in H as [_ H]. auto.
Qed.

Definition pbits (t : ty) : N := tbits t.

Definition setter_ok (mb : expr) (r0 r1 sbit len : nat) (pt : ty) (body : list stmt) : bool :=
  match sets_of body with
  | Some l =>
      layout_wf r0 r1 sbit len && nodupb (map fst l) &&
      forallb (fun ie => safe_expr 1 (S r1) (snd ie) &&
                         aval_eq64 (aeval mb (snd ie)) (expected_set r0 sbit len (fst ie))) l &&
      (* every field bit is written *)
      forallb (fun j => existsb (Nat.eqb (fst (fpos r0 sbit len j))) (map fst l)) (field_js len) &&
      forallb (fun i => Nat.leb i r1) (map fst l) &&
      negb (Nat.eqb (List.length l) 0)
  | None => false
  end.

Definition set_spec_bit (r0 sbit len : nat) (o : nat) (b : N) (old : bool) (v : N) : bool :=
  match find_field r0 sbit len o b with Some j => N.testbit v j | None => old end.

(* the setter writes exactly the field bits (from the value) and nothing else *)
Definition setter_holds (mb : expr) (r0 r1 sbit len : nat) (pt : ty) (body : list stmt) : Prop :=
  forall s v, st_ok s -> octs_ok s r1 -> v < 2 ^ pbits pt ->
    exists s', run_body mb s [v] [] body = Ok (s', RNone) /\
      s_iei s' = s_iei s /\ s_len s' = s_len s /\ s_cnt s' = s_cnt s /\
      List.length (s_oct s') = List.length (s_oct s) /\ st_ok s' /\
      forall o b, b < 8 ->
        N.testbit (nth o (s_oct s') 0) b =
        set_spec_bit r0 sbit len o b (N.testbit (nth o (s_oct s) 0) b) v.

Fixpoint exec_sets (mb : expr) (s : st) (v : N) (l : list (nat * expr)) : outcome st :=
  match l with
  | [] => Ok s
  | (i, e) :: t =>
      x <- eval mb s [v] e ;;
      if Nat.ltb i (List.length (s_oct s))
      then exec_sets mb (seto s (upd (s_oct s) i x)) v t
      else Panic
  end.

Lemma exec_sets_eq mb body l : sets_of body = Some l ->
  forall s v pb, run_body mb s [v] pb body = omap (fun s' => (s', RNone)) (exec_sets mb s v l).
Proof.
  revert l. induction body as [|c rest IH]; intros l H s v pb.
  - inversion H; subst. reflexivity.
  - destruct c; try discriminate. cbn [sets_of] in H.
    destruct (sets_of rest) as [l'|] eqn:E; [|discriminate]. inversion H; subst.
    unfold run_body. cbn [exec exec_sets]. unfold eval1.
    destruct (eval mb s [v] e) as [x| | |]; cbn [obind omap]; try reflexivity.
    destruct (Nat.ltb i (List.length (s_oct s))); [|reflexivity].
    apply (IH l' eq_refl).
Qed.

Lemma nth_upd_same l i x d : (i < List.length l)%nat -> nth i (upd l i x) d = x.
Proof.
  intro H. apply nth_error_nth. apply nth_error_upd_same. assumption.
Qed.

Lemma nth_upd_other l i j x d : i <> j -> nth j (upd l i x) d = nth j l d.
Proof.
  intro H. pose proof (nth_error_upd_other l i j x H) as E.
  destruct (nth_error l j) eqn:E2.
  - erewrite (nth_error_nth _ _ _ E). symmetry. apply nth_error_nth. assumption.
  - rewrite !nth_overflow; auto.
    + apply nth_error_None in E2. assumption.
    + rewrite upd_length. apply nth_error_None in E2. assumption.
Qed.

Lemma bytes_ok_upd l i x : bytes_ok l -> x < 256 -> bytes_ok (upd l i x).
Proof.
  unfold bytes_ok. revert i. induction l as [|h t IH]; intros [|i] Hl Hx; cbn; auto;
    inversion Hl; subst; constructor; auto.
Qed.

Lemma st_ok_seto s i x : st_ok s -> x < 256 -> st_ok (seto s (upd (s_oct s) i x)).
Proof.
  intros (A & B & C & D) Hx. unfold st_ok, seto. cbn. repeat split; auto.
  apply bytes_ok_upd; assumption.
Qed.

Lemma exec_sets_sound mb r0 sbit len : mask_closed mb = true -> params_lt 2 mb = true ->
  forall l s v n,
  NoDup (map fst l) ->
  forallb (fun ie => safe_expr 1 n (snd ie) &&
                     aval_eq64 (aeval mb (snd ie)) (expected_set r0 sbit len (fst ie))) l = true ->
  forallb (fun i => Nat.ltb i n) (map fst l) = true ->
  st_ok s -> (n <= List.length (s_oct s))%nat -> v < 2 ^ 64 ->
  exists s', exec_sets mb s v l = Ok s' /\
    s_iei s' = s_iei s /\ s_len s' = s_len s /\ s_cnt s' = s_cnt s /\
    List.length (s_oct s') = List.length (s_oct s) /\ st_ok s' /\
    (forall o, ~ In o (map fst l) -> nth o (s_oct s') 0 = nth o (s_oct s) 0) /\
    (forall o b, In o (map fst l) -> b < 8 ->
       N.testbit (nth o (s_oct s') 0) b =
       set_spec_bit r0 sbit len o b (N.testbit (nth o (s_oct s) 0) b) v).
Proof.
  intros Hc Hp. induction l as [|[i e] t IH]; intros s v n Hnd Hchk Hidx Hs Hn Hv.
  - exists s. cbn [exec_sets map]. split; [reflexivity|]. do 5 (split; [auto|]). split; [auto|]. intros o b [].
  - cbn [map fst] in Hnd. inversion Hnd as [|? ? Hni Hnd']; subst.
    cbn [forallb fst snd] in Hchk. apply andb_true_iff in Hchk as [Hie Hchk].
    apply andb_true_iff in Hie as [Hsafe Heq].
    cbn [map fst forallb] in Hidx. apply andb_true_iff in Hidx as [Hi Hidx].
    apply Nat.ltb_lt in Hi.
    assert (Hsafe' : safe_expr (List.length [v]) (List.length (s_oct s)) e = true).
    { cbn [List.length]. eapply safe_mono; [|exact Hsafe]. lia. }
    destruct (safe_eval_ok mb s [v] e Hc Hp Hsafe') as [x Hx].
    pose proof (aeval_sound mb s v e Hc Hs Hv x Hx) as HR.
    pose proof (eval_hi mb s [v] e x Hs Hx) as Hhi.
    (* bits of x *)
    assert (Hbits : forall b, N.testbit x b =
              if b <? 8 then set_spec_bit r0 sbit len i b (N.testbit (nth i (s_oct s) 0) b) v else false).
    { intro b. destruct (N.ltb_spec b 64) as [Hb|Hb].
      - specialize (HR b). rewrite (aval_eq64_spec _ _ b Heq Hb) in HR.
        unfold expected_set in HR. unfold set_spec_bit.
        destruct (N.ltb_spec b 8) as [Hb8|Hb8].
        + destruct (find_field r0 sbit len i b); apply HR; reflexivity.
        + apply HR. reflexivity.
      - rewrite Hhi by assumption. destruct (N.ltb_spec b 8); [lia|reflexivity]. }
    assert (Hx256 : x < 256).
    { destruct (N.lt_ge_cases x 256) as [|Hge]; [assumption|exfalso].
      assert (Hnz : x <> 0) by lia.
      pose proof (N.bit_log2 x Hnz) as Hl.
      rewrite Hbits in Hl.
      destruct (N.ltb_spec (N.log2 x) 8) as [Hlt|]; [|discriminate].
      assert (2 ^ 8 <= x) by (change (2 ^ 8) with 256; lia).
      apply N.log2_le_pow2 in H; lia. }
    cbn [exec_sets]. rewrite Hx. cbn [obind].
    assert (Hil : Nat.ltb i (List.length (s_oct s)) = true) by (apply Nat.ltb_lt; lia).
    rewrite Hil.
    set (s1 := seto s (upd (s_oct s) i x)).
    assert (Hs1 : st_ok s1) by (apply st_ok_seto; assumption).
    assert (Hn1 : (n <= List.length (s_oct s1))%nat) by (unfold s1, seto; cbn; rewrite upd_length; assumption).
    destruct (IH s1 v n Hnd' Hchk Hidx Hs1 Hn1 Hv) as (s' & He & A & B & C & D & E & F & G).
    exists s'. split; [exact He|].
    unfold s1, seto in A, B, C, D; cbn in A, B, C, D. rewrite upd_length in D.
    do 5 (split; [auto|]). split.
    + intros o Ho. cbn [map fst In] in Ho.
      rewrite F by tauto. unfold s1, seto; cbn. apply nth_upd_other. tauto.
    + intros o b Ho Hb. cbn [map fst In] in Ho. destruct Ho as [<-|Ho].
      * rewrite F by assumption. unfold s1, seto; cbn.
        rewrite nth_upd_same by lia. rewrite Hbits.
        destruct (N.ltb_spec b 8); [reflexivity|lia].
      * rewrite G by assumption. f_equal. unfold s1, seto; cbn.
        rewrite nth_upd_other; [reflexivity|]. intro; subst. contradiction.
Qed.

Lemma pbits_le t : pbits t <= 64.
Proof. destruct t; cbn; lia. Qed.

Lemma setter_sound mb r0 r1 sbit len pt body :
  mask_closed mb = true -> params_lt 2 mb = true ->
  setter_ok mb r0 r1 sbit len pt body = true -> setter_holds mb r0 r1 sbit len pt body.
Proof.
  intros Hc Hp H. unfold setter_ok in H.
  destruct (sets_of body) as [l|] eqn:El; [|discriminate].
  repeat (apply andb_true_iff in H as [H ?]).
  rename H0 into Hne, H1 into Hle, H2 into Hall, H3 into Hchk, H4 into Hnd.
  intros s v Hs Ho Hv. unfold octs_ok in Ho.
  assert (Hv64 : v < 2 ^ 64).
  { eapply N.lt_le_trans; [exact Hv|]. apply N.pow_le_mono_r; [lia|apply pbits_le]. }
  assert (Hidx : forallb (fun i => Nat.ltb i (S r1)) (map fst l) = true).
  { rewrite forallb_forall in *. intros i Hi. apply Hle in Hi. apply Nat.leb_le in Hi. apply Nat.ltb_lt. lia. }
  destruct (exec_sets_sound mb r0 sbit len Hc Hp l s v (S r1) (nodupb_spec _ Hnd) Hchk Hidx Hs ltac:(lia) Hv64)
    as (s' & He & A & B & C & D & E & F & G).
  exists s'. split.
  - rewrite (exec_sets_eq mb body l El). rewrite He. reflexivity.
  - do 5 (split; [auto|]).
    intros o b Hb.
    destruct (in_dec Nat.eq_dec o (map fst l)) as [Hin|Hnin].
    + apply G; assumption.
    + rewrite F by assumption. unfold set_spec_bit.
      destruct (find_field r0 sbit len o b) as [j|] eqn:Ef; [|reflexivity].
      exfalso. unfold find_field in Ef. apply find_some in Ef as [Hj Hpos].
      apply andb_true_iff in Hpos as [Hpo _]. apply Nat.eqb_eq in Hpo.
      rewrite forallb_forall in Hall. specialize (Hall j Hj).
      apply existsb_exists in Hall as (o' & Hin' & Heq). apply Nat.eqb_eq in Heq.
      apply Hnin. congruence.
Qed.

(* ---------- header fields (Iei, Len) ---------- *)

Inductive hdr_kind := HGetIei | HGetLen | HSetIei (t : ty) | HSetLen (t : ty) | HSetLenAlloc (t : ty).

Definition classify_hdr (body : list stmt) : option hdr_kind :=
  match body with
  | [SRet (EFld FIei)] => Some HGetIei
  | [SRet (EFld FLen)] => Some HGetLen
  | [SSetFld FIei (EParam 0 t)] => Some (HSetIei t)
  | [SSetFld FLen (EParam 0 t)] => Some (HSetLen t)
  | [SSetFld FLen (EParam 0 t); SMakeBuf (EFld FLen)] => Some (HSetLenAlloc t)
  | _ => None
  end.

Definition hdr_holds (mb : expr) (k : hdr_kind) (body : list stmt) : Prop :=
  match k with
  | HGetIei => forall s, run_body mb s [] [] body = Ok (s, RVal (s_iei s))
  | HGetLen => forall s, run_body mb s [] [] body = Ok (s, RVal (s_len s))
  | HSetIei t => forall s v, v < 2 ^ tbits t ->
      run_body mb s [v] [] body = Ok (mkst v (s_len s) (s_oct s) (s_cnt s), RNone)
  | HSetLen t => forall s v, v < 2 ^ tbits t ->
      run_body mb s [v] [] body = Ok (mkst (s_iei s) v (s_oct s) (s_cnt s), RNone)
  | HSetLenAlloc t => forall s v, v < 2 ^ tbits t ->
      (* the allocating SetLen of Buffer-backed elements: Len := v, Buffer := v zero octets *)
      run_body mb s [v] [] body = Ok (mkst (s_iei s) v (repeat 0 (N.to_nat v)) (s_cnt s), RNone)
  end.

Lemma hdr_sound mb body k : classify_hdr body = Some k -> hdr_holds mb k body.
Proof.
  intro H. unfold classify_hdr in H.
  repeat match type of H with
         | match ?x with _ => _ end = _ => destruct x; try discriminate
         end; inversion H; subst; cbn [hdr_holds]; intros; unfold run_body; cbn;
    unfold wrap; rewrite ?N.mod_small by assumption; reflexivity.
Qed.

(* ---------- whole-range copies (arrays and Buffer contents) ---------- *)

Lemma copy_at_length dst lo src room : List.length (copy_at dst lo src room) = List.length dst.
Proof.
  revert dst src room. induction lo as [|lo IH]; intros dst src room.
  - revert dst src. induction room as [|r IHr]; intros dst src; destruct dst, src; cbn; auto.
  - destruct dst; cbn; auto.
Qed.

Lemma copy_at_nth dst lo src room i d :
  nth i (copy_at dst lo src room) d =
  if (Nat.leb lo i && Nat.ltb i (lo + Nat.min room (List.length src)) && Nat.ltb i (List.length dst))%bool
  then nth (i - lo) src d else nth i dst d.
Proof.
  revert dst src room i. induction lo as [|lo IH]; intros dst src room i.
  - cbn [copy_at Nat.leb andb Nat.add]. rewrite Nat.sub_0_r.
    revert dst src i. induction room as [|r IHr]; intros dst src i.
    + cbn. destruct dst, src; reflexivity.
    + destruct src as [|x src]; [destruct dst; cbn; destruct i; reflexivity|].
      destruct dst as [|y dst]; [cbn; rewrite andb_false_r; reflexivity|].
      cbn [copy_at nth List.length Nat.min]. destruct i as [|i]; [reflexivity|].
      rewrite IHr. cbn [Nat.ltb Nat.leb]. reflexivity.
  - destruct dst as [|y dst]; cbn [copy_at].
    + cbn. rewrite andb_false_r. reflexivity.
    + destruct i as [|i]; [reflexivity|].
      cbn [nth]. rewrite IH. cbn [List.length]. reflexivity.
Qed.

Definition copy_set_holds (mb : expr) (lo : nat) (hi : option nat) (body : list stmt) : Prop :=
  forall s pb, let h := match hi with Some h => h | None => List.length (s_oct s) end in
    (lo <= h <= List.length (s_oct s))%nat ->
    exists s', run_body mb s [] pb body = Ok (s', RNone) /\
      s_iei s' = s_iei s /\ s_len s' = s_len s /\ s_cnt s' = s_cnt s /\
      List.length (s_oct s') = List.length (s_oct s) /\
      forall i, nth i (s_oct s') 0 =
        if (Nat.leb lo i && Nat.ltb i (lo + Nat.min (h - lo) (List.length pb)))%bool
        then nth (i - lo) pb 0 else nth i (s_oct s) 0.

Lemma copy_set_sound mb lo hi : copy_set_holds mb lo hi [SCopyIn lo hi].
Proof.
  intros s pb h Hh. unfold run_body. cbn [exec].
  assert (E : (Nat.leb lo h && Nat.leb h (List.length (s_oct s)))%bool = true).
  { apply andb_true_iff; split; apply Nat.leb_le; lia. }
  assert (Hgen : exists s',
     (@Ok (st * retv) (seto s (copy_at (s_oct s) lo pb (h - lo)), RNone)) = Ok (s', RNone) /\
      s_iei s' = s_iei s /\ s_len s' = s_len s /\ s_cnt s' = s_cnt s /\
      List.length (s_oct s') = List.length (s_oct s) /\
      forall i, nth i (s_oct s') 0 =
        if (Nat.leb lo i && Nat.ltb i (lo + Nat.min (h - lo) (List.length pb)))%bool
        then nth (i - lo) pb 0 else nth i (s_oct s) 0).
  { eexists. split; [reflexivity|]. unfold seto. cbn [s_iei s_len s_cnt s_oct].
    do 3 (split; [reflexivity|]). split; [apply copy_at_length|].
    intro i. rewrite copy_at_nth.
    destruct (Nat.leb lo i) eqn:E1; cbn [andb]; [|reflexivity].
    destruct (Nat.ltb i (lo + Nat.min (h - lo) (List.length pb))) eqn:E2; cbn [andb]; [|reflexivity].
    destruct (Nat.ltb i (List.length (s_oct s))) eqn:E3; [reflexivity|].
    apply Nat.leb_le in E1. apply Nat.ltb_lt in E2. apply Nat.ltb_ge in E3. lia. }
  destruct hi as [h'|]; subst h; rewrite E; exact Hgen.
Qed.

Lemma my_nth_firstn {A} (l : list A) n i d :
  nth i (firstn n l) d = if Nat.ltb i n then nth i l d else d.
Proof.
  revert n i. induction l as [|x l IH]; intros [|n] [|i]; cbn [firstn nth]; auto.
  - destruct (Nat.ltb (S i) (S n)); reflexivity.
  - rewrite IH. reflexivity.
Qed.

Lemma my_nth_skipn {A} (l : list A) n i d : nth i (skipn n l) d = nth (n + i) l d.
Proof.
  revert l. induction n as [|n IH]; intros [|x l]; cbn [skipn Nat.add nth]; auto.
  destruct i; reflexivity.
Qed.

Definition copy_get_holds (mb : expr) (lo : nat) (hi : option nat) (n : option nat) (body : list stmt) : Prop :=
  forall s, let h := match hi with Some h => h | None => List.length (s_oct s) end in
    (lo <= h <= List.length (s_oct s))%nat ->
    let dlen := match n with Some n => n | None => (List.length (s_oct s) - lo)%nat end in
    exists r, run_body mb s [] [] body = Ok (s, RBytes r) /\ List.length r = dlen /\
      forall i, nth i r 0 =
        if Nat.ltb i (Nat.min dlen (h - lo)) then nth (lo + i) (s_oct s) 0 else 0.

Lemma copy_get_sound mb lo hi n : copy_get_holds mb lo hi n [SRetCopy lo hi n].
Proof.
  intros s h Hh dlen. unfold run_body. cbn [exec].
  assert (E : (Nat.leb lo h && Nat.leb h (List.length (s_oct s)))%bool = true).
  { apply andb_true_iff; split; apply Nat.leb_le; lia. }
  assert (Hgen : forall dl, exists r,
     (@Ok (st * retv) (s, RBytes (copy_at (repeat 0 dl) 0 (firstn (h - lo) (skipn lo (s_oct s))) dl))) = Ok (s, RBytes r) /\
     List.length r = dl /\
     forall i, nth i r 0 = if Nat.ltb i (Nat.min dl (h - lo)) then nth (lo + i) (s_oct s) 0 else 0).
  { intro dl. eexists. split; [reflexivity|]. split; [rewrite copy_at_length; apply repeat_length|].
    intro i. rewrite copy_at_nth. cbn [Nat.leb andb Nat.add]. rewrite Nat.sub_0_r.
    rewrite repeat_length, firstn_length, skipn_length.
    replace (Nat.min (h - lo) (List.length (s_oct s) - lo)) with (h - lo)%nat by lia.
    destruct (Nat.ltb i (Nat.min dl (h - lo))) eqn:E1.
    - apply Nat.ltb_lt in E1.
      replace (Nat.ltb i dl) with true by (symmetry; apply Nat.ltb_lt; lia). cbn [andb].
      rewrite my_nth_firstn. replace (Nat.ltb i (h - lo)) with true by (symmetry; apply Nat.ltb_lt; lia).
      rewrite my_nth_skipn. reflexivity.
    - apply Nat.ltb_ge in E1.
      destruct (Nat.ltb i (Nat.min dl (h - lo))) eqn:E0; [apply Nat.ltb_lt in E0; lia|].
      destruct (Nat.ltb i dl) eqn:E2; cbn [andb]; [|].
      + apply Nat.ltb_lt in E2. destruct (Nat.ltb i (Nat.min dl (h - lo))) eqn:E3.
        * apply Nat.ltb_lt in E3. lia.
        * clear E3. destruct (Nat.ltb i (Nat.min dl (h-lo))); apply nth_repeat.
      + destruct (Nat.ltb i (Nat.min dl (h-lo))); apply nth_repeat. }
  destruct hi as [h'|]; subst h; rewrite E; destruct n as [n'|]; subst dlen; apply Hgen.
Qed.
