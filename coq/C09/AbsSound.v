(* Soundness of the bit-provenance abstract interpretation. *)
From NV Require Import Lib.Base Lib.Bits Lib.BV C09.Abs.
From Coq Require Import ZifyN ZifyNat ZifyBool.
Open Scope N_scope.

Definition hi0 (n : N) : Prop := forall i, 64 <= i -> N.testbit n i = false.
Definition Rb (c : cenv) (a : aval) (n : N) : Prop :=
  forall i b, sem c (a i) = Some b -> N.testbit n i = b.

Lemma hi0_lt n : n < 2 ^ 64 -> hi0 n.
Proof. intros H i Hi. apply (testbit_small n 64); assumption. Qed.

Lemma hi0_mod n w : w <= 64 -> hi0 (n mod 2 ^ w).
Proof. intros Hw i Hi. apply N.mod_pow2_bits_high. lia. Qed.

Lemma hi0_wrap t n : hi0 (wrap t n).
Proof. unfold wrap. apply hi0_mod. destruct t; cbn; lia. Qed.

Lemma hi0_land_l x y : hi0 x -> hi0 (N.land x y).
Proof. intros H i Hi. rewrite N.land_spec, H by assumption. reflexivity. Qed.

Lemma hi0_lor x y : hi0 x -> hi0 y -> hi0 (N.lor x y).
Proof. intros H1 H2 i Hi. rewrite N.lor_spec, H1, H2 by assumption. reflexivity. Qed.

Lemma hi0_lxor x y : hi0 x -> hi0 y -> hi0 (N.lxor x y).
Proof. intros H1 H2 i Hi. rewrite N.lxor_spec, H1, H2 by assumption. reflexivity. Qed.

Lemma hi0_shiftr x y : hi0 x -> hi0 (N.shiftr x y).
Proof. intros H i Hi. rewrite N.shiftr_spec'. apply H. lia. Qed.

Lemma hi0_binop op t x y : hi0 x -> hi0 y -> hi0 (binop_sem op t x y).
Proof.
  intros Hx Hy. destruct op; cbn [binop_sem];
    auto using hi0_wrap, hi0_land_l, hi0_lor, hi0_lxor, hi0_shiftr.
Qed.

(* state whose scalars are machine words and whose octets are octets *)
Definition st_ok (s : st) : Prop :=
  s_iei s < 2 ^ 64 /\ s_len s < 2 ^ 64 /\ s_cnt s < 2 ^ 64 /\ bytes_ok (s_oct s).

Lemma idx_byte l o x : bytes_ok l -> idx l o = Ok x -> x < 256.
Proof.
  unfold idx. intros Hl H. destruct (nth_error l o) eqn:E; inversion H; subst.
  apply nth_error_In in E. unfold bytes_ok in Hl. rewrite Forall_forall in Hl.
  apply Hl in E. exact E.
Qed.

Lemma eval_gen_hi call s ps e r :
  st_ok s -> (forall x y z, call x y = Ok z -> hi0 z) ->
  eval_gen call s ps e = Ok r -> hi0 r.
Proof.
  intros (Hi & Hl & Hc & Hb) Hcall. revert r.
  induction e as [t n|k t|o|f|op t a IHa b IHb|t a IHa|a IHa b IHb|]; intros r H; cbn [eval_gen] in H.
  - inversion H; subst. apply hi0_wrap.
  - destruct (nth_error ps k); inversion H; subst. apply hi0_wrap.
  - apply hi0_lt. apply idx_byte in H; [|assumption]. lia.
  - inversion H; subst. destruct f; cbn; apply hi0_lt; assumption.
  - destruct (eval_gen call s ps a) as [x| | |]; cbn [obind] in H; try discriminate.
    destruct (eval_gen call s ps b) as [y| | |]; cbn [obind] in H; try discriminate.
    inversion H; subst. apply hi0_binop; auto.
  - destruct (eval_gen call s ps a) as [x| | |]; cbn [obind] in H; try discriminate.
    inversion H; subst. apply hi0_wrap.
  - destruct (eval_gen call s ps a) as [x| | |]; cbn [obind] in H; try discriminate.
    destruct (eval_gen call s ps b) as [y| | |]; cbn [obind] in H; try discriminate.
    eapply Hcall; eassumption.
  - discriminate.
Qed.

Lemma eval_hi mb s ps e r : st_ok s -> eval mb s ps e = Ok r -> hi0 r.
Proof.
  intros Hs H. unfold eval in H. eapply eval_gen_hi; [exact Hs| |exact H].
  intros x y z Hz. eapply eval_gen_hi; [exact Hs| |exact Hz].
  intros; discriminate.
Qed.

(* ---- is_const ---- *)

Definition isA1 (a : abit) : bool := match a with A1 => true | _ => false end.

Lemma is_const_list_spec (a : aval) (l : list N) m :
  fold_right (fun i acc =>
    match acc, a i with
    | Some n, A0 => Some n
    | Some n, A1 => Some (N.lor n (N.shiftl 1 i))
    | _, _ => None
    end) (Some 0) l = Some m ->
  (forall i, In i l -> a i = A0 \/ a i = A1) /\
  (forall j, N.testbit m j = existsb (fun i => (i =? j) && isA1 (a i)) l).
Proof.
  revert m. induction l as [|i l IH]; intros m H; cbn [fold_right] in H.
  - inversion H; subst. split; [intros ? []|]. intro j. cbn [existsb]. apply N.bits_0.
  - match type of H with match ?X with _ => _ end = _ => destruct X as [n|] eqn:E end; [|discriminate].
    destruct (IH n eq_refl) as [IH1 IH2].
    destruct (a i) eqn:Ea; try discriminate; injection H as <-.
    + split.
      * intros k [<-|Hk]; auto.
      * intro j. cbn [existsb]. rewrite Ea. cbn [isA1]. rewrite andb_false_r. cbn. apply IH2.
    + split.
      * intros k [<-|Hk]; auto.
      * intro j. cbn [existsb]. rewrite Ea. cbn [isA1]. rewrite andb_true_r.
        rewrite N.lor_spec, IH2, orb_comm. f_equal.
        change (N.pos (Pos.shiftl 1 i)) with (N.shiftl 1 i).
        rewrite N.shiftl_1_l. rewrite N.pow2_bits_eqb. rewrite N.eqb_sym. reflexivity.
Qed.

Lemma existsb_idx64 (a : aval) j :
  (forall i, In i idx64 -> a i = A0 \/ a i = A1) ->
  existsb (fun i => (i =? j) && isA1 (a i)) idx64 = if j <? 64 then isA1 (a j) else false.
Proof.
  intro Hall.
  destruct (N.ltb_spec j 64) as [Hj|Hj].
  - destruct (isA1 (a j)) eqn:E.
    + apply existsb_exists. exists j. split; [apply in_idx64; assumption|].
      rewrite N.eqb_refl, E. reflexivity.
    + destruct (existsb _ idx64) eqn:Ex; [|reflexivity].
      apply existsb_exists in Ex as (i & _ & Hi). apply andb_true_iff in Hi as [H1 H2].
      apply N.eqb_eq in H1. subst. congruence.
  - destruct (existsb _ idx64) eqn:Ex; [|reflexivity].
    apply existsb_exists in Ex as (i & Hin & Hi). apply andb_true_iff in Hi as [H1 _].
    apply N.eqb_eq in H1. subst. unfold idx64 in Hin. apply in_map_iff in Hin as (k & <- & Hk).
    apply in_seq in Hk. lia.
Qed.

Lemma is_const_sound c a n m : hi0 n -> Rb c a n -> is_const a = Some m -> n = m.
Proof.
  intros Hh HR Hc. unfold is_const in Hc.
  apply is_const_list_spec in Hc as [Hall Hbits].
  apply N.bits_inj. intro j. rewrite Hbits, existsb_idx64 by assumption.
  destruct (N.ltb_spec j 64) as [Hj|Hj].
  - destruct (Hall j (in_idx64 j Hj)) as [E|E]; rewrite E; cbn [isA1];
      apply HR; rewrite E; reflexivity.
  - apply Hh. assumption.
Qed.

(* ---- operators ---- *)

Lemma Rb_aconst c n : Rb c (aconst n) n.
Proof.
  intros i b H. unfold aconst in H. destruct (N.testbit n i); cbn in H; congruence.
Qed.

Lemma Rb_atop c n : Rb c atop n.
Proof. intros i b H. discriminate. Qed.

Lemma Rb_atrunc c a n w : Rb c a n -> Rb c (atrunc w a) (n mod 2 ^ w).
Proof.
  intros HR i b H. unfold atrunc in H.
  destruct (N.ltb_spec i w) as [Hi|Hi].
  - rewrite N.mod_pow2_bits_low by assumption. apply HR. assumption.
  - cbn in H. inversion H; subst. apply N.mod_pow2_bits_high. assumption.
Qed.

Lemma sem_eq_abit c x y : abit_eqb x y = true -> sem c x = sem c y.
Proof. intro H. apply abit_eqb_eq in H. congruence. Qed.

Local Ltac fin Hp Hq :=
  cbn [sem] in *; try discriminate;
  repeat match goal with
    | Hx : forall v, Some ?w = Some v -> _ |- _ => specialize (Hx w eq_refl)
    | Hx : forall v, None = Some v -> _ |- _ => clear Hx
    | Hx : Some _ = Some _ |- _ => injection Hx as Hx
    end; subst;
  auto using andb_false_r, andb_true_r, andb_diag, orb_false_r, orb_true_r, orb_diag,
             xorb_false_r, xorb_false_l, xorb_nilpotent.

Local Ltac bycases p q H f :=
  destruct p, q; cbn [f] in H;
  try match type of H with
      | context [if ?cnd then _ else _] =>
          let Eq := fresh "Eq" in
          destruct cnd eqn:Eq;
          [try solve [cbn in Eq; discriminate Eq]; apply abit_eqb_eq in Eq; inversion Eq; subst|]
      end.

Lemma aand1_sound c p q bp bq b :
  (forall v, sem c p = Some v -> bp = v) -> (forall v, sem c q = Some v -> bq = v) ->
  sem c (aand1 p q) = Some b -> bp && bq = b.
Proof. intros Hp Hq H. bycases p q H aand1; fin Hp Hq. Qed.

Lemma aor1_sound c p q bp bq b :
  (forall v, sem c p = Some v -> bp = v) -> (forall v, sem c q = Some v -> bq = v) ->
  sem c (aor1 p q) = Some b -> bp || bq = b.
Proof. intros Hp Hq H. bycases p q H aor1; fin Hp Hq. Qed.

Lemma axor1_sound c p q bp bq b :
  (forall v, sem c p = Some v -> bp = v) -> (forall v, sem c q = Some v -> bq = v) ->
  sem c (axor1 p q) = Some b -> xorb bp bq = b.
Proof. intros Hp Hq H. bycases p q H axor1; fin Hp Hq. Qed.

Lemma aandnot1_sound c p q bp bq b :
  (forall v, sem c p = Some v -> bp = v) -> (forall v, sem c q = Some v -> bq = v) ->
  sem c (aandnot1 p q) = Some b -> bp && negb bq = b.
Proof.
  intros Hp Hq H.
  assert (Hx : forall q', (match p with A0 => A0 | _ => ATop end) = q' -> sem c q' = Some b -> bp && negb bq = b).
  { intros q' E Hs. subst q'. destruct p; cbn in Hs; try discriminate. inversion Hs; subst.
    specialize (Hp false eq_refl). subst bp. reflexivity. }
  destruct q; cbn [aandnot1] in H.
  - specialize (Hq false eq_refl). subst bq. cbn. rewrite andb_true_r. apply Hp. exact H.
  - specialize (Hq true eq_refl). subst bq. cbn in *. inversion H. apply andb_false_r.
  - eapply Hx; [reflexivity|exact H].
  - eapply Hx; [reflexivity|exact H].
  - eapply Hx; [reflexivity|exact H].
  - eapply Hx; [reflexivity|exact H].
Qed.

Lemma Rb_andnot c a1 a2 x y w : Rb c a1 x -> Rb c a2 y ->
  Rb c (fun i => if i <? w then aandnot1 (a1 i) (a2 i) else A0) (N.land x ((N.lnot y w) mod 2 ^ w)).
Proof.
  intros H1 H2 i b H. rewrite N.land_spec. destruct (N.ltb_spec i w) as [Hi|Hi].
  - rewrite N.mod_pow2_bits_low, N.lnot_spec_low by assumption.
    eapply aandnot1_sound; [apply H1|apply H2|exact H].
  - cbn in H. inversion H; subst. rewrite N.mod_pow2_bits_high by assumption. apply andb_false_r.
Qed.

Lemma Rb_and c a1 a2 x y : Rb c a1 x -> Rb c a2 y ->
  Rb c (fun i => aand1 (a1 i) (a2 i)) (N.land x y).
Proof.
  intros H1 H2 i b H. rewrite N.land_spec.
  eapply aand1_sound; [apply H1|apply H2|exact H].
Qed.

Lemma Rb_or c a1 a2 x y : Rb c a1 x -> Rb c a2 y ->
  Rb c (fun i => aor1 (a1 i) (a2 i)) (N.lor x y).
Proof.
  intros H1 H2 i b H. rewrite N.lor_spec.
  eapply aor1_sound; [apply H1|apply H2|exact H].
Qed.

Lemma Rb_xor c a1 a2 x y : Rb c a1 x -> Rb c a2 y ->
  Rb c (fun i => axor1 (a1 i) (a2 i)) (N.lxor x y).
Proof.
  intros H1 H2 i b H. rewrite N.lxor_spec.
  eapply axor1_sound; [apply H1|apply H2|exact H].
Qed.

Lemma Rb_shl c a x n : Rb c a x ->
  Rb c (fun i => if i <? n then A0 else a (i - n)) (N.shiftl x n).
Proof.
  intros HR i b H. destruct (N.ltb_spec i n) as [Hi|Hi].
  - cbn in H. inversion H; subst. apply N.shiftl_spec_low. assumption.
  - rewrite N.shiftl_spec_high' by assumption. apply HR. assumption.
Qed.

Lemma Rb_shr c a x n : Rb c a x -> Rb c (fun i => a (i + n)) (N.shiftr x n).
Proof. intros HR i b H. rewrite N.shiftr_spec'. apply HR. assumption. Qed.

Lemma carry_free_land0 c a1 a2 x y :
  hi0 x -> hi0 y -> Rb c a1 x -> Rb c a2 y -> carry_free a1 a2 = true -> N.land x y = 0.
Proof.
  intros Hx Hy H1 H2 Hcf. apply N.bits_inj_0. intro i. rewrite N.land_spec.
  destruct (N.ltb_spec i 64) as [Hi|Hi].
  - unfold carry_free in Hcf. rewrite forallb_forall in Hcf.
    specialize (Hcf i (in_idx64 i Hi)).
    destruct (a1 i) eqn:E1.
    + rewrite (H1 i false) by (rewrite E1; reflexivity). reflexivity.
    + destruct (a2 i) eqn:E2; try discriminate.
      rewrite (H2 i false) by (rewrite E2; reflexivity). apply andb_false_r.
    + destruct (a2 i) eqn:E2; try discriminate.
      rewrite (H2 i false) by (rewrite E2; reflexivity). apply andb_false_r.
    + destruct (a2 i) eqn:E2; try discriminate.
      rewrite (H2 i false) by (rewrite E2; reflexivity). apply andb_false_r.
    + destruct (a2 i) eqn:E2; try discriminate.
      rewrite (H2 i false) by (rewrite E2; reflexivity). apply andb_false_r.
    + destruct (a2 i) eqn:E2; try discriminate.
      rewrite (H2 i false) by (rewrite E2; reflexivity). apply andb_false_r.
  - rewrite Hx by assumption. reflexivity.
Qed.

Lemma Rb_add_cf c a1 a2 x y :
  hi0 x -> hi0 y -> Rb c a1 x -> Rb c a2 y -> carry_free a1 a2 = true ->
  Rb c (fun i => pick1 (a1 i) (a2 i)) (x + y).
Proof.
  intros Hx Hy H1 H2 Hcf.
  pose proof (carry_free_land0 c a1 a2 x y Hx Hy H1 H2 Hcf) as H0.
  rewrite <- lor_nocarry_add by assumption.
  intros i b H. rewrite N.lor_spec.
  destruct (N.ltb_spec i 64) as [Hi|Hi].
  - unfold carry_free in Hcf. rewrite forallb_forall in Hcf.
    specialize (Hcf i (in_idx64 i Hi)).
    unfold pick1 in H. destruct (a1 i) eqn:E1.
    + rewrite (H1 i false) by (rewrite E1; reflexivity). cbn. apply H2. assumption.
    + destruct (a2 i) eqn:E2; try discriminate.
      rewrite (H2 i false) by (rewrite E2; reflexivity). rewrite orb_false_r. apply H1. rewrite E1. assumption.
    + destruct (a2 i) eqn:E2; try discriminate.
      rewrite (H2 i false) by (rewrite E2; reflexivity). rewrite orb_false_r. apply H1. rewrite E1. assumption.
    + destruct (a2 i) eqn:E2; try discriminate.
      rewrite (H2 i false) by (rewrite E2; reflexivity). rewrite orb_false_r. apply H1. rewrite E1. assumption.
    + destruct (a2 i) eqn:E2; try discriminate.
      rewrite (H2 i false) by (rewrite E2; reflexivity). rewrite orb_false_r. apply H1. rewrite E1. assumption.
    + discriminate.
  - rewrite Hx, Hy by assumption. cbn.
    (* beyond bit 63 nothing is claimed unless the abstract bit is known *)
    unfold pick1 in H.
    destruct (a1 i) eqn:E1.
    + symmetry. rewrite <- (Hy i Hi). symmetry. apply H2. assumption.
    + rewrite <- (Hx i Hi). apply H1. rewrite E1. assumption.
    + rewrite <- (Hx i Hi). apply H1. rewrite E1. assumption.
    + rewrite <- (Hx i Hi). apply H1. rewrite E1. assumption.
    + rewrite <- (Hx i Hi). apply H1. rewrite E1. assumption.
    + discriminate.
Qed.

(* ---- the interpreter ---- *)

Fixpoint mask_closed (e : expr) : bool :=
  match e with
  | EConst _ _ | EParam _ _ => true
  | EBin _ _ a b => mask_closed a && mask_closed b
  | ECast _ a => mask_closed a
  | EOct _ | EFld _ | EMask _ _ | EUnknown => false
  end.

Lemma closed_state_indep e : mask_closed e = true ->
  forall call call' s s' ps, eval_gen call s ps e = eval_gen call' s' ps e.
Proof.
  induction e as [t n|k t|o|f|op t a IHa b IHb|t a IHa|a IHa b IHb|]; cbn [mask_closed]; intro H;
    try discriminate; intros; cbn [eval_gen]; auto.
  - apply andb_true_iff in H as [Ha Hb].
    rewrite (IHa Ha call call' s s' ps), (IHb Hb call call' s s' ps). reflexivity.
  - rewrite (IHa H call call' s s' ps). reflexivity.
Qed.

Definition env_of (s : st) (v : N) : cenv := mkenv (fun o => nth o (s_oct s) 0) v (getf s).

Lemma eval_bin mb s ps op t a b :
  eval mb s ps (EBin op t a b) =
  (x <- eval mb s ps a ;; y <- eval mb s ps b ;; Ok (binop_sem op t x y)).
Proof. reflexivity. Qed.
Lemma eval_cast mb s ps t a :
  eval mb s ps (ECast t a) = (x <- eval mb s ps a ;; Ok (wrap t x)).
Proof. reflexivity. Qed.
Lemma eval_mask mb s ps a b :
  eval mb s ps (EMask a b) =
  (x <- eval mb s ps a ;; y <- eval mb s ps b ;;
   eval_gen (fun _ _ => OutOfFuel) s [x; y] mb).
Proof. reflexivity. Qed.

Lemma Rb_const_eq c n m : n = m -> Rb c (aconst m) n.
Proof. intros ->. apply Rb_aconst. Qed.

(* general form: any parameter list; the tracked parameter is the first one *)
Theorem aeval_sound_ps mb s ps e : mask_closed mb = true -> st_ok s ->
  forall r, eval mb s ps e = Ok r -> Rb (env_of s (nth 0 ps 0)) (aeval mb e) r.
Proof.
  intros Hmb Hs.
  induction e as [t n|k t|o|f|op t a IHa b IHb|t a IHa|a IHa b IHb|]; intros r H.
  - cbn in H. inversion H; subst. cbn [aeval]. apply Rb_aconst.
  - destruct k as [|k].
    + unfold eval in H. cbn [eval_gen] in H. destruct ps as [|v ps']; cbn [nth_error] in H; [discriminate|].
      inversion H; subst. cbn [aeval nth]. unfold wrap. apply Rb_atrunc.
      intros i b Hb. cbn in Hb. inversion Hb; subst. reflexivity.
    + cbn [aeval]. apply Rb_atop.
  - cbn [aeval].
    assert (Hx : r < 256).
    { destruct Hs as (_ & _ & _ & Hb). unfold eval in H. cbn [eval_gen] in H.
      eapply idx_byte; eassumption. }
    replace r with (r mod 2 ^ 8) by (apply N.mod_small; exact Hx).
    apply Rb_atrunc. intros i b Hb. cbn in Hb. inversion Hb; subst.
    unfold eval in H. cbn [eval_gen] in H. unfold idx in H.
    destruct (nth_error (s_oct s) o) eqn:E; inversion H; subst.
    erewrite nth_error_nth by eassumption. reflexivity.
  - cbn [aeval]. unfold eval in H. cbn [eval_gen] in H. inversion H; subst.
    intros i b Hb. cbn in Hb. inversion Hb; subst. reflexivity.
  - rewrite eval_bin in H.
    destruct (eval mb s ps a) as [x| | |] eqn:Ea; cbn [obind] in H; try discriminate.
    destruct (eval mb s ps b) as [y| | |] eqn:Eb; cbn [obind] in H; try discriminate.
    inversion H; subst; clear H.
    pose proof (eval_hi mb s ps a x Hs Ea) as Hhx.
    pose proof (eval_hi mb s ps b y Hs Eb) as Hhy.
    specialize (IHa x eq_refl). specialize (IHb y eq_refl).
    destruct op; cbn [aeval binop_sem].
    + apply Rb_and; assumption.
    + apply Rb_or; assumption.
    + apply Rb_xor; assumption.
    + destruct (is_const (aeval mb a)) as [p|] eqn:Ca; [destruct (is_const (aeval mb b)) as [q|] eqn:Cb|].
      * apply Rb_const_eq. cbn [binop_sem].
        rewrite (is_const_sound _ _ _ _ Hhx IHa Ca), (is_const_sound _ _ _ _ Hhy IHb Cb). reflexivity.
      * destruct (carry_free (aeval mb a) (aeval mb b)) eqn:Cf; [|apply Rb_atop].
        unfold wrap. apply Rb_atrunc. apply Rb_add_cf; assumption.
      * destruct (carry_free (aeval mb a) (aeval mb b)) eqn:Cf; [|apply Rb_atop].
        unfold wrap. apply Rb_atrunc. apply Rb_add_cf; assumption.
    + destruct (is_const (aeval mb a)) as [p|] eqn:Ca; [destruct (is_const (aeval mb b)) as [q|] eqn:Cb|];
        try apply Rb_atop.
      apply Rb_const_eq. cbn [binop_sem].
      rewrite (is_const_sound _ _ _ _ Hhx IHa Ca), (is_const_sound _ _ _ _ Hhy IHb Cb). reflexivity.
    + destruct (is_const (aeval mb b)) as [q|] eqn:Cb; [|apply Rb_atop].
      rewrite (is_const_sound _ _ _ _ Hhy IHb Cb).
      unfold wrap. apply Rb_atrunc. apply Rb_shl. assumption.
    + destruct (is_const (aeval mb b)) as [q|] eqn:Cb; [|apply Rb_atop].
      rewrite (is_const_sound _ _ _ _ Hhy IHb Cb).
      apply Rb_shr. assumption.
    + destruct (is_const (aeval mb a)) as [p|] eqn:Ca; [destruct (is_const (aeval mb b)) as [q|] eqn:Cb|].
      * apply Rb_const_eq. cbn [binop_sem].
        rewrite (is_const_sound _ _ _ _ Hhx IHa Ca), (is_const_sound _ _ _ _ Hhy IHb Cb). reflexivity.
      * unfold wrap. apply Rb_andnot; assumption.
      * unfold wrap. apply Rb_andnot; assumption.
  - rewrite eval_cast in H.
    destruct (eval mb s ps a) as [x| | |] eqn:Ea; cbn [obind] in H; try discriminate.
    inversion H; subst. cbn [aeval]. unfold wrap. apply Rb_atrunc. apply IHa. reflexivity.
  - rewrite eval_mask in H.
    destruct (eval mb s ps a) as [x| | |] eqn:Ea; cbn [obind] in H; try discriminate.
    destruct (eval mb s ps b) as [y| | |] eqn:Eb; cbn [obind] in H; try discriminate.
    pose proof (eval_hi mb s ps a x Hs Ea) as Hhx.
    pose proof (eval_hi mb s ps b y Hs Eb) as Hhy.
    specialize (IHa x eq_refl). specialize (IHb y eq_refl).
    cbn [aeval].
    destruct (is_const (aeval mb a)) as [p|] eqn:Ca; [destruct (is_const (aeval mb b)) as [q|] eqn:Cb|];
      try apply Rb_atop.
    rewrite <- (is_const_sound _ _ _ _ Hhx IHa Ca), <- (is_const_sound _ _ _ _ Hhy IHb Cb).
    unfold conc_mask.
    rewrite (closed_state_indep mb Hmb (fun _ _ => OutOfFuel) (fun _ _ => OutOfFuel) (mkst 0 0 [] 0) s [x; y]).
    rewrite H. apply Rb_aconst.
  - cbn in H. discriminate.
Qed.

Theorem aeval_sound mb s v e : mask_closed mb = true -> st_ok s -> v < 2 ^ 64 ->
  forall r, eval mb s [v] e = Ok r -> Rb (env_of s v) (aeval mb e) r.
Proof. intros Hmb Hs _ r H. exact (aeval_sound_ps mb s [v] e Hmb Hs r H). Qed.
