(* C09: one boolean check per accessor, its meaning, and the soundness theorem. *)
From NV Require Import Lib.Base Lib.Bits Lib.BV C09.Types C09.Abs C09.AbsSound C09.Check.
From Coq Require Import String.
Open Scope N_scope.

Inductive acc_class :=
| KGet (r0 r1 sbit len : nat)
| KSet (r0 r1 sbit len : nat) (t : ty)
| KHdr (k : hdr_kind)
| KCopyIn (lo : nat) (hi : option nat)
| KCopyOut (lo : nat) (hi : option nat) (n : option nat)
| KBad.

Definition copy_layout_ok (lay : layout) (r0 r1 lo : nat) (hi n plen : option nat) : bool :=
  Nat.eqb lo r0 &&
  match l_len lay with
  | Some len =>
      Nat.eqb (l_sbit lay) 8 && Nat.eqb len (8 * (r1 + 1 - r0)) && Nat.leb r0 r1 &&
      match hi, plen with
      | Some h, Some p => Nat.eqb h (r1 + 1) && Nat.eqb p (r1 + 1 - r0) &&
                          match n with Some n' => Nat.eqb n' p | None => true end
      | _, _ => false
      end
  | None => match hi, plen with None, None => true | _, _ => false end
  end.

(* accessors that carry no layout comment in the source; pinned here.
   Non3GppNwPolicies is a type-1 (half-octet) element: its IEI is the high nibble (TS 24.501 9.11.3.36A / 24.007 11.2.1.1.1) *)
Definition pinned_layouts : list (string * string * layout) :=
  [("Non3GppNwPolicies", "GetIei", mklayout "Iei" (Some (0%nat, 0%nat)) 8 (Some 4%nat));
   ("Non3GppNwPolicies", "SetIei", mklayout "Iei" (Some (0%nat, 0%nat)) 8 (Some 4%nat))]%string.

Definition layout_of (a : accessor) : option layout :=
  match a_layout a with
  | Some l => Some l
  | None =>
      match find (fun e => String.eqb (fst (fst e)) (a_type a) && String.eqb (snd (fst e)) (a_name a)) pinned_layouts with
      | Some e => Some (snd e)
      | None => None
      end
  end.

Definition classify (a : accessor) : acc_class :=
  match layout_of a with
  | None => (* no layout annotation: only the Iei / Len header accessors are accepted *)
      match classify_hdr (a_body a) with Some k => KHdr k | None => KBad end
  | Some lay =>
      match l_rows lay with
      | None => match classify_hdr (a_body a) with Some k => KHdr k | None => KBad end
      | Some (r0, r1) =>
          match a_pty a, l_len lay with
          | Some t, Some len =>
              if a_set a then KSet r0 r1 (l_sbit lay) len t else KGet r0 r1 (l_sbit lay) len
          | Some _, None => KBad
          | None, _ =>
              match a_body a with
              | [SCopyIn lo hi] =>
                  if a_set a && copy_layout_ok lay r0 r1 lo hi None (a_plen a) then KCopyIn lo hi else KBad
              | [SRetCopy lo hi n] =>
                  if negb (a_set a) && copy_layout_ok lay r0 r1 lo hi n (a_plen a) then KCopyOut lo hi n else KBad
              | _ => KBad
              end
          end
      end
  end.

Definition acc_ok (mb : expr) (a : accessor) : bool :=
  match classify a with
  | KGet r0 r1 sbit len => getter_ok mb r0 r1 sbit len (a_body a)
  | KSet r0 r1 sbit len t => setter_ok mb r0 r1 sbit len t (a_body a)
  | KHdr _ | KCopyIn _ _ | KCopyOut _ _ _ => true
  | KBad => false
  end.

(* what the check establishes, for all element contents and all values *)
Definition acc_holds (mb : expr) (a : accessor) : Prop :=
  match classify a with
  | KGet r0 r1 sbit len => getter_holds mb r0 r1 sbit len (a_body a)
  | KSet r0 r1 sbit len t => setter_holds mb r0 r1 sbit len t (a_body a)
  | KHdr k => hdr_holds mb k (a_body a)
  | KCopyIn lo hi => copy_set_holds mb lo hi (a_body a)
  | KCopyOut lo hi n => copy_get_holds mb lo hi n (a_body a)
  | KBad => False
  end.

Theorem acc_sound mb a :
  mask_closed mb = true -> params_lt 2 mb = true ->
  acc_ok mb a = true -> acc_holds mb a.
Proof.
  intros Hc Hp H. unfold acc_ok, acc_holds in *.
  destruct (classify a) eqn:E; try discriminate.
  - apply getter_sound; assumption.
  - apply setter_sound; assumption.
  - unfold classify in E.
    destruct (layout_of a) as [lay|];
      [|destruct (classify_hdr (a_body a)) as [k'|] eqn:Ek; inversion E; subst; apply hdr_sound; assumption].
    destruct (l_rows lay) as [[r0 r1]|].
    + destruct (a_pty a), (l_len lay); try discriminate;
        try (destruct (a_set a); discriminate);
        repeat match type of E with
               | match ?x with _ => _ end = _ => destruct x; try discriminate
               end.
    + destruct (classify_hdr (a_body a)) as [k'|] eqn:Ek; inversion E; subst.
      apply hdr_sound. assumption.
  - unfold classify in E.
    destruct (layout_of a) as [lay|]; [|destruct (classify_hdr (a_body a)); discriminate].
    destruct (l_rows lay) as [[r0 r1]|]; [|destruct (classify_hdr (a_body a)); discriminate].
    destruct (a_pty a); [destruct (l_len lay); try discriminate; destruct (a_set a); discriminate|].
    destruct (a_body a) as [|[ | | | | |lo' hi'| |lo' hi' n'] [|]] eqn:Eb; try discriminate.
    + destruct (a_set a && copy_layout_ok lay r0 r1 lo' hi' None (a_plen a))%bool; inversion E; subst.
      apply copy_set_sound.
    + destruct (negb (a_set a) && copy_layout_ok lay r0 r1 lo' hi' n' (a_plen a))%bool; discriminate.
  - unfold classify in E.
    destruct (layout_of a) as [lay|]; [|destruct (classify_hdr (a_body a)); discriminate].
    destruct (l_rows lay) as [[r0 r1]|]; [|destruct (classify_hdr (a_body a)); discriminate].
    destruct (a_pty a); [destruct (l_len lay); try discriminate; destruct (a_set a); discriminate|].
    destruct (a_body a) as [|[ | | | | |lo' hi'| |lo' hi' n'] [|]] eqn:Eb; try discriminate.
    + destruct (a_set a && copy_layout_ok lay r0 r1 lo' hi' None (a_plen a))%bool; discriminate.
    + destruct (negb (a_set a) && copy_layout_ok lay r0 r1 lo' hi' n' (a_plen a))%bool; inversion E; subst.
      apply copy_get_sound.
Qed.

Theorem all_sound mb (l : list accessor) :
  mask_closed mb = true -> params_lt 2 mb = true ->
  forallb (acc_ok mb) l = true -> Forall (acc_holds mb) l.
Proof.
  intros Hc Hp H. rewrite forallb_forall in H. apply Forall_forall.
  intros a Ha. apply acc_sound; auto.
Qed.

(* names of the accessors whose check fails (for the report) *)
Definition failing (mb : expr) (l : list accessor) : list (string * string) :=
  map (fun a => (a_type a, a_name a)) (filter (fun a => negb (acc_ok mb a)) l).
