(* Bit-provenance abstract interpretation of BV expressions, with soundness.
   An abstract value says, for every bit of the result, whether it is a constant,
   a copy of a given bit of the parameter / of a given octet, or unknown. *)
From NV Require Import Lib.Base Lib.Bits Lib.BV.
From Coq Require Import ZifyN ZifyNat ZifyBool.
Open Scope N_scope.

Inductive abit :=
| A0 | A1
| AP (i : N)            (* bit i of parameter 0 *)
| AO (o : nat) (i : N)  (* bit i of octet o *)
| AF (f : fld) (i : N)  (* bit i of the field f (a.Iei, a.Len, counter.count) *)
| ATop.

Definition fld_eqb (f g : fld) : bool :=
  match f, g with FIei, FIei | FLen, FLen | FCount, FCount => true | _, _ => false end.

Definition abit_eqb (a b : abit) : bool :=
  match a, b with
  | A0, A0 | A1, A1 => true   (* ATop is not equal to itself: two unknown bits need not agree *)
  | AP i, AP j => i =? j
  | AO o i, AO p j => Nat.eqb o p && (i =? j)
  | AF f i, AF g j => fld_eqb f g && (i =? j)
  | _, _ => false
  end.

Lemma abit_eqb_eq a b : abit_eqb a b = true -> a = b.
Proof.
  destruct a, b; cbn; try discriminate; auto.
  - intro H. apply N.eqb_eq in H. congruence.
  - intro H. apply andb_true_iff in H as [H1 H2].
    apply Nat.eqb_eq in H1. apply N.eqb_eq in H2. congruence.
  - intro H. apply andb_true_iff in H as [H1 H2]. apply N.eqb_eq in H2.
    destruct f, f0; cbn in H1; try discriminate; congruence.
Qed.

(* concrete environment: octets (as a total function) and the parameter value *)
Record cenv := mkenv { c_oct : nat -> N; c_par : N; c_fld : fld -> N }.

Definition sem (c : cenv) (a : abit) : option bool :=
  match a with
  | A0 => Some false
  | A1 => Some true
  | AP i => Some (N.testbit (c_par c) i)
  | AO o i => Some (N.testbit (c_oct c o) i)
  | AF f i => Some (N.testbit (c_fld c f) i)
  | ATop => None
  end.

Definition aval := N -> abit.

(* [R c a n]: n is a 64-bit value whose bits are described by a *)
Definition R (c : cenv) (a : aval) (n : N) : Prop :=
  n < 2 ^ 64 /\ forall i b, sem c (a i) = Some b -> N.testbit n i = b.

Definition aconst (n : N) : aval := fun i => if N.testbit n i then A1 else A0.
Definition atop : aval := fun _ => ATop.
Definition atrunc (w : N) (a : aval) : aval := fun i => if i <? w then a i else A0.

Definition aand1 (x y : abit) : abit :=
  match x, y with
  | A0, _ | _, A0 => A0
  | A1, z | z, A1 => z
  | _, _ => if abit_eqb x y then x else ATop
  end.
Definition aor1 (x y : abit) : abit :=
  match x, y with
  | A1, _ | _, A1 => A1
  | A0, z | z, A0 => z
  | _, _ => if abit_eqb x y then x else ATop
  end.
Definition axor1 (x y : abit) : abit :=
  match x, y with
  | A0, z | z, A0 => z
  | A1, A1 => A0
  | _, _ => if abit_eqb x y then A0 else ATop
  end.

(* x &^ y, bit by bit *)
Definition aandnot1 (x y : abit) : abit :=
  match y with
  | A0 => x
  | A1 => A0
  | _ => match x with A0 => A0 | _ => ATop end
  end.

Definition idx64 : list N := map N.of_nat (seq 0 64).

Lemma in_idx64 i : i < 64 -> In i idx64.
Proof.
  intro H. unfold idx64. apply in_map_iff. exists (N.to_nat i). split; [lia|].
  apply in_seq. lia.
Qed.

(* all 64 low bits known: the value *)
Definition is_const (a : aval) : option N :=
  fold_right (fun i acc =>
    match acc, a i with
    | Some n, A0 => Some n
    | Some n, A1 => Some (N.lor n (N.shiftl 1 i))
    | _, _ => None
    end) (Some 0) idx64.

Definition carry_free (a b : aval) : bool :=
  forallb (fun i => match a i, b i with A0, _ | _, A0 => true | _, _ => false end) idx64.

Definition pick1 (x y : abit) : abit := match x with A0 => y | _ => x end.

Section AEval.
  Variable mask_body : expr.

  Definition conc_mask (x y : N) : option N :=
    match eval_gen (fun _ _ => OutOfFuel) (mkst 0 0 [] 0) [x; y] mask_body with
    | Ok r => Some r | _ => None end.

  Fixpoint aeval (e : expr) : aval :=
    match e with
    | EConst t n => aconst (wrap t n)
    | EParam O t => atrunc (tbits t) (fun i => AP i)
    | EParam _ _ => atop
    | EOct o => atrunc 8 (fun i => AO o i)
    | EFld f => fun i => AF f i
    | ECast t a => atrunc (tbits t) (aeval a)
    | EBin op t a b =>
        let x := aeval a in
        let y := aeval b in
        match op with
        | OAnd => fun i => aand1 (x i) (y i)
        | OOr => fun i => aor1 (x i) (y i)
        | OXor => fun i => axor1 (x i) (y i)
        | OShl =>
            match is_const y with
            | Some n => atrunc (tbits t) (fun i => if i <? n then A0 else x (i - n))
            | None => atop
            end
        | OShr =>
            match is_const y with
            | Some n => fun i => x (i + n)
            | None => atop
            end
        | OAdd =>
            match is_const x, is_const y with
            | Some p, Some q => aconst (binop_sem OAdd t p q)
            | _, _ => if carry_free x y then atrunc (tbits t) (fun i => pick1 (x i) (y i)) else atop
            end
        | OSub =>
            match is_const x, is_const y with
            | Some p, Some q => aconst (binop_sem op t p q)
            | _, _ => atop
            end
        | OAndNot =>
            match is_const x, is_const y with
            | Some p, Some q => aconst (binop_sem op t p q)
            | _, _ => fun i => if i <? tbits t then aandnot1 (x i) (y i) else A0
            end
        end
    | EMask a b =>
        match is_const (aeval a), is_const (aeval b) with
        | Some p, Some q =>
            match conc_mask p q with Some r => aconst r | None => atop end
        | _, _ => atop
        end
    | EUnknown => atop
    end.
End AEval.
