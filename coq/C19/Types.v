(* C19: what the translator emits about package-level state. *)
Inductive use_kind :=
| UWrite    (* assignment target, ++/--, range variable *)
| UAddr     (* &x *)
| USlice    (* x[a:b] *)
| UMethod   (* x.m(...) or x.f.m(...) *)
| UArg.     (* passed by name as an argument *)
