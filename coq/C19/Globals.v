(* C19: the hypothesis of the interleaving theorem, checked on the current source:
   the library keeps no package-level state that is written after initialisation. *)
From NV Require Import Lib.Base C19.Types Gen.GenGlobals.
From Coq Require Import String.
Open Scope string_scope.

(* the package-level variables of the library (pinned): constant tables and the logger entries *)
Definition expected_vars : list (string * string) :=
  [("logger", "ConvertLog"); ("logger", "NasLog"); ("logger", "NasMsgLog"); ("logger", "SecurityLog");
   ("logger", "log");
   ("security/snow3g", "sq"); ("security/snow3g", "sr");
   ("security/zuc", "ek_d"); ("security/zuc", "sbox0"); ("security/zuc", "sbox1")].

Definition pair_eqb (a b : string * string) : bool := String.eqb (fst a) (fst b) && String.eqb (snd a) (snd b).

Definition vars_pinned : bool :=
  eqb_list pair_eqb (map (fun v => (fst (fst v), snd (fst v))) package_vars) expected_vars.

Definition is_logger_var (pkg v : string) : bool :=
  String.eqb pkg "logger" || String.prefix "logger." v.

(* outside init: no package-level variable is assigned, incremented, has its address or a slice
   taken, or is passed on; the only non-read uses are method calls on the logger entries
   (logrus entries, which synchronise internally -- external, trusted) *)
Definition use_ok (u : string * string * string * use_kind) : bool :=
  let '(pkg, v, _, k) := u in
  match k with
  | UMethod => is_logger_var pkg v
  | UWrite | UAddr | USlice | UArg => false
  end.

Definition no_shared_writes : bool := forallb use_ok global_uses.

(* the codec packages are deterministic functions of their arguments: no clock, randomness,
   process state, synchronisation or unsafe memory access is imported *)
Definition forbidden_imports : list string :=
  ["time"; "math/rand"; "crypto/rand"; "os"; "sync"; "sync/atomic"; "unsafe"; "runtime"; "reflect"].
Definition codec_packages : list string := ["nas"; "nasMessage"; "nasType"].

Definition codec_imports_ok : bool :=
  forallb (fun pi => negb (existsb (String.eqb (fst pi)) codec_packages &&
                           existsb (String.eqb (snd pi)) forbidden_imports)) package_imports.

(* no library package imports unsafe or sync (no hidden shared memory tricks, no home-made locking) *)
Definition no_unsafe : bool :=
  forallb (fun pi => negb (existsb (String.eqb (snd pi)) ["unsafe"; "sync"; "sync/atomic"])) package_imports.

Definition globals_ok : bool := vars_pinned && no_shared_writes && codec_imports_ok && no_unsafe.

Lemma globals_checked : globals_ok = true.
Proof. vm_compute. reflexivity. Qed.
