(* C19: the hypothesis of the interleaving theorem, checked on the current source:
   the library keeps no package-level state that is written after initialisation. *)
From NV Require Import Lib.Base C19.Types Gen.GenGlobals.
From Coq Require Import String Ascii.
Open Scope string_scope.

(* the package-level variables of the library (pinned): constant tables and the logger entries *)
Definition expected_vars : list (string * string) :=
  [("logger", "ConvertLog"); ("logger", "NasLog"); ("logger", "NasMsgLog"); ("logger", "SecurityLog");
   ("logger", "log");
   ("security/snow3g", "sq"); ("security/snow3g", "sr");
   ("security/zuc", "ek_d"); ("security/zuc", "sbox0"); ("security/zuc", "sbox1")].

Definition pair_eqb (a b : string * string) : bool := String.eqb (fst a) (fst b) && String.eqb (snd a) (snd b).

Definition vars_pinned : bool :=
  eqb_list pair_eqb (map (fun v => (fst (fst v), snd (fst v))) package_vars) expected_vars.

(* the pinned variables are all there; any further one must be harmless by its type (see hidden_state_free) *)
Definition vars_ok : bool :=
  forallb (fun e => existsb (pair_eqb e) (map (fun v => (fst (fst v), snd (fst v))) package_vars)) expected_vars.

Definition is_logger_var (pkg v : string) : bool :=
  String.eqb pkg "logger" || String.prefix "logger." v.

(* outside init: no package-level variable is assigned, incremented, has its address or a slice
   taken, or is passed on; the only non-read uses are method calls on the logger entries
   (logrus entries, which synchronise internally -- external, trusted) *)
Definition use_ok (u : string * string * string * use_kind) : bool :=
  let '(pkg, v, _, k) := u in
  match k with
  | UMethod => is_logger_var pkg v
  | UWrite | UAddr | USlice | UArg => false
  end.

Definition no_shared_writes : bool := forallb use_ok global_uses.

(* the codec packages are deterministic functions of their arguments: no clock, randomness,
   process state, synchronisation or unsafe memory access is imported *)
Definition forbidden_imports : list string :=
  ["time"; "math/rand"; "crypto/rand"; "os"; "sync"; "sync/atomic"; "unsafe"; "runtime"; "reflect"].
Definition codec_packages : list string := ["nas"; "nasMessage"; "nasType"].

Definition codec_imports_ok : bool :=
  forallb (fun pi => negb (existsb (String.eqb (fst pi)) codec_packages &&
                           existsb (String.eqb (snd pi)) forbidden_imports)) package_imports.

(* no library package imports unsafe or sync (no hidden shared memory tricks, no home-made locking) *)
Definition no_unsafe : bool :=
  forallb (fun pi => negb (existsb (String.eqb (snd pi)) ["unsafe"; "sync"; "sync/atomic"])) package_imports.

(* ---------- hidden state, per property ----------
   The hand-written models (and the codec semantics) treat the library functions as functions of their
   arguments.  That assumption is checked here on the current source, scoped to the files a property is
   anchored in: every package-level variable DECLARED in such a file is one of the pinned read-only tables /
   logger entries, or has a plain type (basic type or array of basic types) and is never written, sliced,
   address-taken, passed on or used as a method receiver anywhere; and no function IN such a file does any of
   that to any package-level variable (other than calling a method of a logger entry). *)
Definition is_digit (a : Ascii.ascii) : bool :=
  let n := Ascii.nat_of_ascii a in (Nat.leb 48 n && Nat.leb n 57)%bool.

Fixpoint drop_arrays (fuel : nat) (s : string) : string :=
  match fuel with
  | O => s
  | S f =>
      match s with
      | String "["%char r =>
          match String.index 0 "]" r with
          | Some i =>
              let d := String.substring 0 i r in
              if (Nat.ltb 0 i && forallb is_digit (list_ascii_of_string d))%bool
              then drop_arrays f (String.substring (S i) (String.length r - S i) r)
              else s
          | None => s
          end
      | _ => s
      end
  end.

Definition basic_types : list string :=
  ["bool"; "string"; "int"; "int8"; "int16"; "int32"; "int64"; "uint"; "uint8"; "uint16"; "uint32"; "uint64";
   "byte"; "rune"; "float32"; "float64"].

Definition plain_type (t : string) : bool := existsb (String.eqb (drop_arrays 4 t)) basic_types.

Definition in_scope (anchors : list string) (file : string) : bool :=
  existsb (fun a => String.prefix a file) anchors.

Definition var_type (pkg v : string) : string :=
  match find (fun e => String.eqb (fst (fst e)) pkg && String.eqb (snd (fst e)) v) package_vars with
  | Some e => snd e
  | None => "?"
  end.

(* the last path component of a package ("security/zuc" -> "zuc"): how other packages name its variables *)
Fixpoint last_component (s acc : string) : string :=
  match s with
  | EmptyString => acc
  | String "/"%char r => last_component r ""
  | String c r => last_component r (acc ++ String c "")
  end.

Definition never_touched (pkg v : string) : bool :=
  forallb (fun u => let '(p, w, _, _) := u in
             negb ((String.eqb p pkg && String.eqb w v) || String.eqb w (last_component pkg "" ++ "." ++ v)))
          global_uses.

Definition hidden_state_free (anchors : list string) : bool :=
  forallb (fun e => let '(pkg, v, file) := e in
             if in_scope anchors file
             then existsb (pair_eqb (pkg, v)) expected_vars || (plain_type (var_type pkg v) && never_touched pkg v)
             else true) package_var_files &&
  forallb (fun u => let '(pkg, v, file, k) := u in
             if in_scope anchors file then use_ok (pkg, v, "", k) else true) global_use_files.

(* the files each property is anchored in (properties.jsonl, anchors.files), as path prefixes; C08's wrapper
   delegates to the algorithm files, so their state is its state *)
Definition anchors_C01 : list string := ["nas.go"; "nas_generated.go"; "nasMessage/NAS_"; "nasType/NAS_"].
Definition anchors_C02 : list string := ["nas.go"; "nas_generated.go"; "nasMessage/NAS_"].
Definition anchors_C03 : list string := ["nas.go"; "nas_generated.go"; "nasMessage/NAS_"].
Definition anchors_C04 : list string := ["nasMessage/NAS_"; "nas_generated.go"].
Definition anchors_C05 : list string := ["nas.go"; "nas_generated.go"].
Definition anchors_C06 : list string := ["security/security.go"; "security/snow3g/snow3g.go"; "security/zuc/zuc.go"; "security/parameters.go"].
Definition anchors_C07 : list string := ["security/security.go"; "security/snow3g/snow3g.go"; "security/zuc/zuc.go"].
Definition anchors_C08 : list string := ["security/security.go"; "security/snow3g/snow3g.go"; "security/zuc/zuc.go"].
Definition anchors_C09 : list string := ["nasType/NAS_"; "nasType/comm_util.go"].
Definition anchors_C10 : list string := ["nas.go"; "nas_generated.go"; "nasMessage/NAS_"; "nasType/NAS_"].
Definition anchors_C11 : list string := ["security/counter.go"].
Definition anchors_C12 : list string := ["nasConvert/MobileIdentity5GS.go"; "nasConvert/PlmnId.go"; "nasConvert/AmfId.go"; "nasType/NAS_GUTI5G.go"; "nasType/NAS_TMSI5GS.go"; "nasType/NAS_MobileIdentity5GS.go"].
Definition anchors_C13 : list string := ["nasConvert/Snssai.go"; "nasConvert/Nssai.go"; "nasConvert/TaiList.go"; "nasConvert/ServiceAreaList.go"; "nasConvert/Ladn.go"].
Definition anchors_C14 : list string := ["nasConvert/MobileIdentity5GS.go"; "nasConvert/Nssai.go"; "nasConvert/Ladn.go"; "nasConvert/UESecurityCapability.go"; "nasConvert/PSI.go"; "nasConvert/UPUInfo.go"; "nasConvert/AmfId.go"; "nasConvert/Time.go"; "nasType/NAS_MobileIdentity5GS.go"; "nasType/NAS_DNN.go"].
Definition anchors_C15 : list string := ["nasType/qos_rule.go"; "nasType/qos_flow_desc.go"].
Definition anchors_C16 : list string := ["nasConvert/ProtocolConfigurationOptions.go"; "nasConvert/PSI.go"; "nasConvert/PDUSessionReactivationResultErrorCause.go"].
Definition anchors_C17 : list string := ["nasConvert/GPRSTimer2.go"; "nasConvert/GPRSTimer3.go"; "nasConvert/SessionAMBR.go"; "nasConvert/Time.go"; "nasConvert/NetWorkName.go"].
Definition anchors_C18 : list string := ["uePolicyContainer/UePolicyContainer"].
Definition anchors_C20 : list string := ["uePolicyContainer/UPSC_Generator.go"].

(* every file is in scope for C19 (the empty prefix); a further read-only table of plain type is accepted, a
   cache, a pool, a lock or any written variable is not *)
Definition globals_ok : bool := vars_ok && hidden_state_free [""] && no_shared_writes && codec_imports_ok && no_unsafe.

(* the checks themselves are evaluated in the Props files (this file only defines them, so that a property
   whose own files are clean still builds when another file gains state) *)
