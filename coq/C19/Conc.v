(* C19: interleavings of threads whose footprints are private (plus read-only shared state)
   are observationally equal to running each thread alone.  Heaps are total maps; all
   statements are pointwise, so no extensionality axiom is needed. *)
From Coq Require Import List Arith Lia Bool.
Import ListNotations.

Section Conc.
  Variable loc val : Type.
  Definition heap := loc -> val.
  Definition action := heap -> heap.

  (* which thread owns a location; a location owned by nobody is shared and read-only *)
  Variable owns : nat -> loc -> Prop.
  Hypothesis owns_disjoint : forall i j l, owns i l -> owns j l -> i = j.
  Definition shared (l : loc) : Prop := forall i, ~ owns i l.

  (* an action of thread i writes only what i owns, and what it writes depends only on
     i's own locations and the shared ones *)
  Definition ok_for (i : nat) (a : action) : Prop :=
    (forall h l, ~ owns i l -> a h l = h l) /\
    (forall h h', (forall l, owns i l \/ shared l -> h l = h' l) -> forall l, owns i l -> a h l = a h' l).

  Definition threads := list (list action).
  Definition remaining (ts : threads) (i : nat) : list action := nth i ts [].
  Definition all_ok (ts : threads) : Prop := forall i, Forall (ok_for i) (remaining ts i).

  (* thread i alone *)
  Definition run_alone (acts : list action) (h : heap) : heap := fold_left (fun h a => a h) acts h.

  (* one scheduling step: thread i performs its next action (no-op if it has none) *)
  Fixpoint pop (ts : threads) (i : nat) : option (action * threads) :=
    match ts with
    | [] => None
    | x :: t =>
        match i with
        | O => match x with [] => None | a :: rest => Some (a, rest :: t) end
        | S j => match pop t j with Some (a, t') => Some (a, x :: t') | None => None end
        end
    end.

  Fixpoint run_sched (sched : list nat) (ts : threads) (h : heap) : heap * threads :=
    match sched with
    | [] => (h, ts)
    | i :: s => match pop ts i with
                | Some (a, ts') => run_sched s ts' (a h)
                | None => run_sched s ts h
                end
    end.

  Lemma pop_spec ts i a ts' : pop ts i = Some (a, ts') ->
    remaining ts i = a :: remaining ts' i /\ (forall j, j <> i -> remaining ts' j = remaining ts j).
  Proof.
    unfold remaining. revert i ts'. induction ts as [|x t IH]; intros i ts' H; [destruct i; discriminate|].
    destruct i as [|i]; cbn [pop] in H.
    - destruct x as [|b rest]; [discriminate|]. inversion H; subst. cbn. split; [reflexivity|].
      intros [|j] Hj; [exfalso; apply Hj; reflexivity|reflexivity].
    - destruct (pop t i) as [[a0 t0]|] eqn:E; [|discriminate]. inversion H; subst.
      destruct (IH _ _ E) as (A & C). cbn. split; [exact A|].
      intros [|j] Hj; [reflexivity|]. apply C. congruence.
  Qed.

  Lemma run_alone_local i acts : Forall (ok_for i) acts ->
    forall h h', (forall l, owns i l \/ shared l -> h l = h' l) ->
    forall l, owns i l \/ shared l -> run_alone acts h l = run_alone acts h' l.
  Proof.
    induction 1 as [|a acts Ha _ IH]; intros h h' Hag l Hl; cbn [run_alone fold_left]; [auto|].
    apply IH; [|exact Hl].
    intros l' [Ho|Hs].
    - destruct Ha as [_ Hloc]. apply Hloc; assumption.
    - destruct Ha as [Hfr _]. rewrite (Hfr h l' (Hs i)), (Hfr h' l' (Hs i)). apply Hag. right. exact Hs.
  Qed.

  (* scheduling steps do not change what each thread will have computed on its own locations,
     nor the shared locations *)
  Theorem sched_invariant sched : forall ts h, all_ok ts ->
    let '(h', ts') := run_sched sched ts h in
    all_ok ts' /\
    (forall i l, owns i l -> run_alone (remaining ts' i) h' l = run_alone (remaining ts i) h l) /\
    (forall l, shared l -> h' l = h l).
  Proof.
    induction sched as [|k s IH]; intros ts h Hok; cbn [run_sched]; [auto|].
    destruct (pop ts k) as [[a ts1]|] eqn:E; [|apply IH; exact Hok].
    destruct (pop_spec _ _ _ _ E) as (Hk & Hother).
    assert (Hak : ok_for k a).
    { specialize (Hok k). rewrite Hk in Hok. inversion Hok; assumption. }
    assert (Hok1 : all_ok ts1).
    { intro i. destruct (Nat.eq_dec i k) as [->|Hne].
      - specialize (Hok k). rewrite Hk in Hok. inversion Hok; assumption.
      - rewrite (Hother i Hne). apply Hok. }
    specialize (IH ts1 (a h) Hok1). destruct (run_sched s ts1 (a h)) as [h' ts'].
    destruct IH as (A & B & C). split; [exact A|]. split.
    - intros i l Hl. rewrite (B i l Hl).
      destruct (Nat.eq_dec i k) as [->|Hne].
      + rewrite Hk. reflexivity.
      + rewrite (Hother i Hne).
        apply (run_alone_local i); [apply Hok| |left; exact Hl].
        intros l' [Ho|Hs]; destruct Hak as [Hfr _]; apply Hfr.
        * intro Hk'. apply Hne. eapply owns_disjoint; eassumption.
        * apply Hs.
    - intros l Hl. rewrite (C l Hl). destruct Hak as [Hfr _]. apply Hfr. apply Hl.
  Qed.

  (* a complete schedule: every thread has run to its end *)
  Definition complete (ts : threads) : Prop := forall i, remaining ts i = [].

  (* every complete interleaving gives, on each thread's locations, what that thread computes alone,
     and leaves the shared locations as they were -- for any number of threads and any schedule *)
  Theorem interleaving_equals_alone sched ts h h' ts' :
    all_ok ts -> run_sched sched ts h = (h', ts') -> complete ts' ->
    (forall i l, owns i l -> h' l = run_alone (remaining ts i) h l) /\
    (forall l, shared l -> h' l = h l).
  Proof.
    intros Hok Hr Hc. pose proof (sched_invariant sched ts h Hok) as H. rewrite Hr in H.
    destruct H as (_ & B & C). split; [|exact C].
    intros i l Hl. rewrite <- (B i l Hl). rewrite (Hc i). reflexivity.
  Qed.

  (* hence any two complete interleavings (in particular a sequential one) agree everywhere
     that is owned by some thread or shared *)
  Corollary schedule_independent s1 s2 ts h h1 t1 h2 t2 :
    all_ok ts -> run_sched s1 ts h = (h1, t1) -> complete t1 ->
    run_sched s2 ts h = (h2, t2) -> complete t2 ->
    forall l, (exists i, owns i l) \/ shared l -> h1 l = h2 l.
  Proof.
    intros Hok R1 C1 R2 C2 l Hl.
    destruct (interleaving_equals_alone _ _ _ _ _ Hok R1 C1) as [A1 B1].
    destruct (interleaving_equals_alone _ _ _ _ _ Hok R2 C2) as [A2 B2].
    destruct Hl as [[i Hi]|Hs]; [rewrite (A1 i l Hi), (A2 i l Hi)|rewrite (B1 l Hs), (B2 l Hs)]; reflexivity.
  Qed.
End Conc.

(* non-vacuity: two threads incrementing their own cell while reading a shared one *)
Definition ex_act (i : nat) : action nat nat := fun h l => if Nat.eqb l i then h i + h 2 else h l.
Definition ex_threads : threads nat nat := [[ex_act 0; ex_act 0]; [ex_act 1]].
Definition ex_heap : heap nat nat := fun l => if Nat.eqb l 2 then 5 else 0.
Example conc_example :
  fst (run_sched nat nat [1; 0; 0] ex_threads ex_heap) 0 = 10 /\
  fst (run_sched nat nat [0; 0; 1] ex_threads ex_heap) 0 = 10 /\
  fst (run_sched nat nat [0; 1; 0] ex_threads ex_heap) 1 = 5.
Proof. cbn. repeat split. Qed.

(* the same program meets every hypothesis of the interleaving theorem: thread i owns cell i (i < 2), cell 2 is
   shared and never written; all three complete schedules end with both threads done and the same heap *)
Local Close Scope N_scope.
Local Open Scope nat_scope.
Definition ex_owns (i l : nat) : Prop := i = l /\ l < 2.
Lemma conc_example_full :
  (forall i j l, ex_owns i l -> ex_owns j l -> i = j) /\
  all_ok nat nat ex_owns ex_threads /\
  (forall sched, In sched [[1; 0; 0]; [0; 0; 1]; [0; 1; 0]] ->
     complete nat nat (snd (run_sched nat nat sched ex_threads ex_heap)) /\
     fst (run_sched nat nat sched ex_threads ex_heap) 0 = 10 /\
     fst (run_sched nat nat sched ex_threads ex_heap) 1 = 5 /\
     fst (run_sched nat nat sched ex_threads ex_heap) 2 = 5).
Proof.
  split; [|split].
  - unfold ex_owns; intros i j l [Hi _] [Hj _]; congruence.
  - assert (Hok : forall i, (i < 2)%nat -> ok_for nat nat ex_owns i (ex_act i)).
    { intros i Hi; split.
      - intros h l Hn. unfold ex_act. destruct (Nat.eqb_spec l i) as [->|Hne]; [|reflexivity].
        exfalso; apply Hn; split; [reflexivity|exact Hi].
      - intros h h' Heq l [Hil _]. subst l. unfold ex_act. rewrite Nat.eqb_refl.
        rewrite (Heq i), (Heq 2); [reflexivity| |].
        + right. intros k [Hk Hlt]. lia.
        + left. split; [reflexivity|exact Hi]. }
    intros i. unfold remaining, ex_threads.
    destruct i as [|[|i]]; cbn [nth].
    + repeat constructor; apply Hok; lia.
    + repeat constructor; apply Hok; lia.
    + destruct i; constructor.
  - intros sched Hs. cbn [In] in Hs.
    assert (Hc : forall i, nth i [[]; []] ([] : list (action nat nat)) = []).
    { intros [|[|[|i]]]; reflexivity. }
    destruct Hs as [<-|[<-|[<-|[]]]]; (split; [intros i; exact (Hc i)|cbn; repeat split]).
Qed.
