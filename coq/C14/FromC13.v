(* C14: totality obligations restated from property C13 (same statements, same proofs). *)
From NV Require Import Lib.Base C13.GoStd C13.Model C13.Spec C13.Proofs.
Open Scope N_scope.
From NV Require Import Props.C13.

Theorem C14_C13_total_RequestedNssaiToModels :
  forall len buffer fuel,
  (N.to_nat len <= length buffer)%nat -> (length buffer + 1 <= fuel)%nat ->
  is_total (RequestedNssaiToModels_fuel fuel len buffer).
Proof. exact C13_total_RequestedNssaiToModels. Qed.

Theorem C14_C13_total_snssaiToModels :
  forall l buf,
  match snssaiToModels l buf with Ok _ => 1 <= l <= 8 | Err => True | _ => False end.
Proof. exact C13_total_snssaiToModels. Qed.

Theorem C14_C13_total_SnssaiToModels :
  forall len octet,
  length octet = 8%nat -> is_total (SnssaiToModels len octet).
Proof. exact C13_total_SnssaiToModels. Qed.

Theorem C14_C13_total_LadnToModels :
  forall bs fuel,
  (length bs + 1 <= fuel)%nat -> is_total (LadnToModels_fuel fuel bs).
Proof. exact C13_total_LadnToModels. Qed.

Theorem C14_C13_total_UESecurityCapabilityToByteArray :
  forall bs,
  is_total (UESecurityCapabilityToByteArray bs).
Proof. exact C13_total_UESecurityCapabilityToByteArray. Qed.

Theorem C14_C13_total_UpuAckToModels :
  forall bs, is_total (UpuAckToModels bs).
Proof. exact C13_total_UpuAckToModels. Qed.

Theorem C14_C13_total_GetDNN :
  forall bs fuel,
  (length bs + 1 <= fuel)%nat -> is_total (rfc1035tofqdn_fuel fuel bs).
Proof. exact C13_total_GetDNN. Qed.

