(* C14: totality obligations restated from property C12 (same statements, same proofs). *)
From NV Require Import Lib.Base C12.GoStd C12.Model C12.Spec C12.Proofs.
Open Scope N_scope.
From NV Require Import Props.C12.

Theorem C14_C12_total_SuciToStringWithError :
  forall buf, is_total (SuciToStringWithError buf).
Proof. exact C12_total_SuciToStringWithError. Qed.

Theorem C14_C12_total_SuciToString :
  forall buf, is_total (SuciToString buf).
Proof. exact C12_total_SuciToString. Qed.

Theorem C14_C12_total_NaiToString :
  forall buf, is_total (NaiToString buf).
Proof. exact C12_total_NaiToString. Qed.

Theorem C14_C12_total_GutiToStringWithError :
  forall buf, is_total (GutiToStringWithError buf).
Proof. exact C12_total_GutiToStringWithError. Qed.

Theorem C14_C12_total_GutiToString :
  forall buf, is_total (GutiToString buf).
Proof. exact C12_total_GutiToString. Qed.

Theorem C14_C12_total_PeiToStringWithError :
  forall buf, is_total (PeiToStringWithError buf).
Proof. exact C12_total_PeiToStringWithError. Qed.

Theorem C14_C12_total_PeiToString :
  forall buf, is_total (PeiToString buf).
Proof. exact C12_total_PeiToString. Qed.

Theorem C14_C12_total_GutiToNasWithError :
  forall s, bytes_ok s -> is_total (GutiToNasWithError s).
Proof. exact C12_total_GutiToNasWithError. Qed.

Theorem C14_C12_total_GutiToNas :
  forall s, bytes_ok s -> is_total (GutiToNas s).
Proof. exact C12_total_GutiToNas. Qed.

Theorem C14_C12_total_AmfIdToNasWithError :
  forall s, is_total (AmfIdToNasWithError s).
Proof. exact C12_total_AmfIdToNasWithError. Qed.

Theorem C14_C12_total_AmfIdToNas :
  forall s, is_total (AmfIdToNas s).
Proof. exact C12_total_AmfIdToNas. Qed.

Theorem C14_C12_total_GetTypeOfIdentity_partial :
  forall buf, (1 <= length buf)%nat -> is_total (MI_GetTypeOfIdentity buf).
Proof. exact C12_total_GetTypeOfIdentity_partial. Qed.

Theorem C14_C12_total_GetMobileIdentity_partial :
  forall buf, (9 <= length buf)%nat -> is_total (MI_GetMobileIdentity buf).
Proof. exact C12_total_GetMobileIdentity_partial. Qed.

Theorem C14_C12_total_GetSUCI_partial :
  forall buf, (9 <= length buf)%nat -> is_total (MI_GetSUCI buf).
Proof. exact C12_total_GetSUCI_partial. Qed.

Theorem C14_C12_total_GetPlmnID_partial :
  forall buf, (4 <= length buf)%nat -> is_total (MI_GetPlmnID buf).
Proof. exact C12_total_GetPlmnID_partial. Qed.

Theorem C14_C12_total_GetMCC_partial :
  forall buf, (3 <= length buf)%nat -> is_total (MI_GetMCC buf).
Proof. exact C12_total_GetMCC_partial. Qed.

Theorem C14_C12_total_GetMNC_partial :
  forall buf, (4 <= length buf)%nat -> is_total (MI_GetMNC buf).
Proof. exact C12_total_GetMNC_partial. Qed.

Theorem C14_C12_total_Get5GGUTI_partial :
  forall buf, (7 <= length buf)%nat -> is_total (MI_Get5GGUTI buf).
Proof. exact C12_total_Get5GGUTI_partial. Qed.

Theorem C14_C12_total_GetAmfID_partial :
  forall buf, (7 <= length buf)%nat -> is_total (MI_GetAmfID buf).
Proof. exact C12_total_GetAmfID_partial. Qed.

Theorem C14_C12_total_GetAmfRegionID_partial :
  forall buf, (5 <= length buf)%nat -> is_total (MI_GetAmfRegionID buf).
Proof. exact C12_total_GetAmfRegionID_partial. Qed.

Theorem C14_C12_total_GetAmfSetID_partial :
  forall buf, (7 <= length buf)%nat -> is_total (MI_GetAmfSetID buf).
Proof. exact C12_total_GetAmfSetID_partial. Qed.

Theorem C14_C12_total_GetAmfPointer_partial :
  forall buf, (7 <= length buf)%nat -> is_total (MI_GetAmfPointer buf).
Proof. exact C12_total_GetAmfPointer_partial. Qed.

Theorem C14_C12_total_Get5GTMSI_partial :
  forall buf, (7 <= length buf)%nat -> is_total (MI_Get5GTMSI buf).
Proof. exact C12_total_Get5GTMSI_partial. Qed.

Theorem C14_C12_total_Get5GSTMSI_partial :
  forall buf, (7 <= length buf)%nat -> is_total (MI_Get5GSTMSI buf).
Proof. exact C12_total_Get5GSTMSI_partial. Qed.

Theorem C14_C12_total_GetIMEI_partial :
  forall buf, (1 <= length buf)%nat -> is_total (MI_GetIMEI buf).
Proof. exact C12_total_GetIMEI_partial. Qed.

Theorem C14_C12_total_GetIMEISV_partial :
  forall buf, (1 <= length buf)%nat -> is_total (MI_GetIMEISV buf).
Proof. exact C12_total_GetIMEISV_partial. Qed.

