(* C14: totality obligations restated from property C17 (same statements, same proofs). *)
From NV Require Import Lib.Base C17.Model C17.Spec C17.Proofs.
Open Scope N_scope.
From NV Require Import Props.C17.

Theorem C14_C17_decoders_total :
  forall o, o < 256 ->
  (forall q, tz_dec o = Some q ->
     getTimeZoneOffset o = (900 * q)%Z /\ DecodeLocalTimeZone o = tz_text q 0) /\
  DecodeDaylightSavingTime o =
    match dst_dec o with Some v => if v =? 0 then [] else [43; 48 + v] | None => [] end.
Proof. exact C17_decoders_total. Qed.

Theorem C14_C17_decode_timestamp_total :
  forall o, length o = 7%nat ->
  exists t, DecodeUniversalTimeAndLocalTimeZone o = Ok t.
Proof. exact C17_decode_timestamp_total. Qed.

