(* C14: totality obligations restated from property C16 (same statements, same proofs). *)
From NV Require Import Lib.Base C16.Model C16.Proofs.
Open Scope N_scope.
From NV Require Import Props.C16.

Theorem C14_C16_pco_total :
  forall bs, is_total (UnMarshal bs).
Proof. exact C16_pco_total. Qed.

Theorem C14_C16_psi_total :
  forall bs,
  (exists r, PSIToBooleanArray bs = Ok r /\ length r = 16%nat) /\
  ((length bs < 2)%nat -> PSIToBooleanArray bs = Ok (repeat false 16)).
Proof. exact C16_psi_total. Qed.

