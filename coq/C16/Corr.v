(* C16 correspondence: inputs run on the Go implementation, replayed on the model. *)
From NV Require Import Lib.Base C16.Model.
Open Scope N_scope.

Inductive addop :=
| AReq4 | AReq6 | AAlloc
| ADns4 (ip : bytes) | APcscf4 (ip : bytes) | ADns6 (ip : bytes)
| AMtu (mtu : N).

(* run the Add* helpers in sequence: final list and, per call, "returned an error" *)
Fixpoint run_adds (l : list pcu) (ops : list addop) : list pcu * list bool :=
  match ops with
  | [] => (l, [])
  | o :: t =>
      let '(l1, e) :=
        match o with
        | AReq4 => (AddDNSServerIPv4AddressRequest l, false)
        | AReq6 => (AddDNSServerIPv6AddressRequest l, false)
        | AAlloc => (AddIPAddressAllocationViaNASSignallingUL l, false)
        | ADns4 ip => match AddDNSServerIPv4Address l ip with Ok l' => (l', false) | _ => (l, true) end
        | APcscf4 ip => match AddPCSCFIPv4Address l ip with Ok l' => (l', false) | _ => (l, true) end
        | ADns6 ip => match AddDNSServerIPv6Address l ip with Ok l' => (l', false) | _ => (l, true) end
        | AMtu m => (AddIPv4LinkMTU l m, false)
        end in
      let '(l2, es) := run_adds l1 t in (l2, e :: es)
  end.

Inductive cin :=
| IMarshal (l : list pcu)
| IUnMarshal (bs : bytes)
| IPsiArr (bs : bytes)
| IPsiBuf (arr : list bool)
| IReact (ids causes : bytes)
| IAdds (ops : list addop).

Inductive obs :=
| OBytes (b : bytes)
| OUnits (l : list pcu) (err : bool)
| OBools (l : list bool)
| OAdds (l : list pcu) (errs : list bool) (wire : bytes)
| OPanic.

Definition case := (N * cin * obs)%type.

Definition pcu_eqb (a b : pcu) : bool :=
  (pcu_id a =? pcu_id b) && (pcu_len a =? pcu_len b) && eqb_bytes (pcu_contents a) (pcu_contents b).

Definition run (i : cin) : obs :=
  match i with
  | IMarshal l => OBytes (Marshal l)
  | IUnMarshal bs =>
      match UnMarshalFull [] bs with
      | Ok (l, e) => OUnits l e
      | _ => OPanic
      end
  | IPsiArr bs => match PSIToBooleanArray bs with Ok l => OBools l | _ => OPanic end
  | IPsiBuf arr => OBytes (PSIToBuf arr)
  | IReact a b => match PDUSessionReactivationResultErrorCauseToBuf a b with Ok r => OBytes r | _ => OPanic end
  | IAdds ops => let '(l, es) := run_adds NewProtocolConfigurationOptions ops in OAdds l es (Marshal l)
  end.

Definition obs_eqb (a b : obs) : bool :=
  match a, b with
  | OBytes x, OBytes y => eqb_bytes x y
  | OUnits l e, OUnits l' e' => eqb_list pcu_eqb l l' && Bool.eqb e e'
  | OBools x, OBools y => eqb_list Bool.eqb x y
  | OAdds l e w, OAdds l' e' w' => eqb_list pcu_eqb l l' && eqb_list Bool.eqb e e' && eqb_bytes w w'
  | OPanic, OPanic => true
  | _, _ => false
  end.

Definition case_id (c : case) : N := fst (fst c).
Definition case_ok (c : case) : bool := let '(_, i, o) := c in obs_eqb (run i) o.

Definition mismatches (cs : list case) : list N :=
  map case_id (filter (fun c => negb (case_ok c)) cs).
