(* C16: hand-written executable model of
     /repo/nasConvert/ProtocolConfigurationOptions.go
     /repo/nasConvert/PSI.go
     /repo/nasConvert/PDUSessionReactivationResultErrorCause.go
   following the Go text function by function.

   Modelled Go library calls (trusted, exercised by the correspondence run):
     bytes.NewReader + binary.Read(r, BigEndian, &uint8 / &uint16 / []uint8):
        reads exactly 1 / 2 / len octets; when fewer are left it returns an
        error (io.EOF / io.ErrUnexpectedEOF) and leaves the destination
        untouched                                           -> [read_n]
     binary.Write(buf, BigEndian, &uint8 / &uint16 / &[]byte): appends the
        octet / the two octets high first / the octets       -> list append
     net.IP.To4 / net.IP.To16                                -> [To4] / [To16]
   Logging calls are not modelled. *)
From NV Require Import Lib.Base.
Open Scope N_scope.

(* ------------------------------------------------------------------ *)
(* type ProtocolOrContainerUnit struct {ProtocolOrContainerID uint16;
   LengthOfContents uint8; Contents []byte} *)
Record pcu := mkpcu { pcu_id : N; pcu_len : N; pcu_contents : bytes }.

(* NewProtocolOrContainerUnit *)
Definition NewProtocolOrContainerUnit : pcu := mkpcu 0 0 [].

(* NewProtocolConfigurationOptions: the empty list *)
Definition NewProtocolConfigurationOptions : list pcu := [].

(* one container unit as Marshal's loop body writes it: identifier (uint16,
   big endian), the LengthOfContents field, then the Contents slice; the two
   are written independently of each other *)
Definition marshal_unit (u : pcu) : bytes :=
  hi8 (pcu_id u) :: lo8 (pcu_id u) :: pcu_len u :: pcu_contents u.

Fixpoint marshal_units (l : list pcu) : bytes :=
  match l with
  | [] => []
  | u :: t => marshal_unit u ++ marshal_units t
  end.

(* metaInfo = (extension << 7) | (spare << 6) | configurationProtocol
   with extension = 1, spare = 0, configurationProtocol = 0, in uint8 *)
Definition metaInfo : N :=
  N.lor (N.lor ((N.shiftl 1 7) mod 256) ((N.shiftl 0 6) mod 256)) 0.

Definition Marshal (l : list pcu) : bytes := metaInfo :: marshal_units l.

(* ------------------------------------------------------------------ *)
(* binary.Read of k octets from a bytes.Reader whose unread part is [rest] *)
Definition read_n (rest : bytes) (k : nat) : outcome (bytes * bytes) :=
  if (k <=? length rest)%nat then Ok (firstn k rest, skipn k rest) else Err.

Inductive PCOReadingState := ReadingID | ReadingLength | ReadingContent.

(* The for loop of UnMarshal.
     n     numOfBytes (Go int: may in principle become negative)
     st    readingState
     cur   curContainer, a pointer that is nil before the first ReadingID step
           (a dereference of nil is a [Panic])
     rest  unread part of byteReader
   Result: the units appended to ProtocolOrContainerList by this and the later
   iterations, in order, and whether an error was returned.  (Go appends to
   the receiver's list as it goes, so the units appended before an error stay
   in the list; that is why the list is returned in the error case, too.) *)
Fixpoint loop (fuel : nat) (n : Z) (st : PCOReadingState) (cur : option pcu)
         (rest : bytes) : outcome (list pcu * bool) :=
  if (n <=? 0)%Z then Ok ([], false) else
  match fuel with
  | O => OutOfFuel
  | S f =>
      match st with
      | ReadingID =>
          match read_n rest 2 with
          | Ok (a :: b :: _, rest') =>
              let c := mkpcu (be16 a b) (pcu_len NewProtocolOrContainerUnit)
                             (pcu_contents NewProtocolOrContainerUnit) in
              loop f (n - 2)%Z ReadingLength (Some c) rest'
          | Ok _ => Panic      (* unreachable: read_n _ 2 returns two octets *)
          | _ => Ok ([], true)
          end
      | ReadingLength =>
          match cur with
          | None => Panic
          | Some c =>
              match read_n rest 1 with
              | Ok (a :: _, rest') =>
                  let c' := mkpcu (pcu_id c) a (pcu_contents c) in
                  r <- loop f (n - 1)%Z ReadingContent (Some c') rest' ;;
                  if a =? 0 then Ok (c' :: fst r, snd r) else Ok r
              | Ok _ => Panic  (* unreachable *)
              | _ => Ok ([], true)
              end
          end
      | ReadingContent =>
          match cur with
          | None => Panic
          | Some c =>
              if 0 <? pcu_len c then
                (* make([]uint8, Len); binary.Read into it *)
                match read_n rest (N.to_nat (pcu_len c)) with
                | Ok (cs, rest') =>
                    let c' := mkpcu (pcu_id c) (pcu_len c) cs in
                    r <- loop f (n - Z.of_N (pcu_len c))%Z ReadingID (Some c') rest' ;;
                    Ok (c' :: fst r, snd r)
                | _ => Ok ([], true)
                end
              else
                loop f (n - Z.of_N (pcu_len c))%Z ReadingID (Some c) rest
          end
      end
  end.

(* UnMarshal on a receiver whose list is [l0]: final list and "error returned" *)
Definition UnMarshalFull_fuel (fuel : nat) (l0 : list pcu) (data : bytes)
  : outcome (list pcu * bool) :=
  match read_n data 1 with
  | Ok (_, rest) =>
      r <- loop fuel (Z.of_nat (length data) - 1)%Z ReadingID None rest ;;
      Ok (l0 ++ fst r, snd r)
  | _ => Ok (l0, true)
  end.

Definition UnMarshalFull (l0 : list pcu) (data : bytes) :=
  UnMarshalFull_fuel (length data + 1) l0 data.

(* the view used by the round trip: fresh receiver, list on success *)
Definition UnMarshal (data : bytes) : outcome (list pcu) :=
  r <- UnMarshalFull [] data ;;
  if snd r then Err else Ok (fst r).

(* ------------------------------------------------------------------ *)
(* The Add* helpers (nasMessage constants inlined with their names). *)
Definition DNSServerIPv6AddressRequestUL : N := 3.
Definition IPAddressAllocationViaNASSignallingUL : N := 10.
Definition DNSServerIPv4AddressRequestUL : N := 13.
Definition DNSServerIPv6AddressDL : N := 3.
Definition PCSCFIPv4AddressDL : N := 12.
Definition DNSServerIPv4AddressDL : N := 13.
Definition IPv4LinkMTUDL : N := 16.

Definition AddDNSServerIPv4AddressRequest (l : list pcu) : list pcu :=
  l ++ [mkpcu DNSServerIPv4AddressRequestUL 0 []].
Definition AddDNSServerIPv6AddressRequest (l : list pcu) : list pcu :=
  l ++ [mkpcu DNSServerIPv6AddressRequestUL 0 []].
Definition AddIPAddressAllocationViaNASSignallingUL (l : list pcu) : list pcu :=
  l ++ [mkpcu IPAddressAllocationViaNASSignallingUL 0 []].

(* net.IP.To4: a 4-octet address is itself, a 16-octet IPv4-mapped address
   (ten 0 octets, ff ff) yields its last four octets, anything else nil *)
Definition v4InV6Prefix : bytes := [0;0;0;0;0;0;0;0;0;0;255;255].
Definition To4 (ip : bytes) : option bytes :=
  if (length ip =? 4)%nat then Some ip
  else if ((length ip =? 16)%nat && eqb_bytes (firstn 12 ip) v4InV6Prefix)%bool
       then Some (skipn 12 ip) else None.
(* net.IP.To16 *)
Definition To16 (ip : bytes) : option bytes :=
  if (length ip =? 4)%nat then Some (v4InV6Prefix ++ ip)
  else if (length ip =? 16)%nat then Some ip else None.

(* AddDNSServerIPv4Address / AddPCSCFIPv4Address: Err leaves the list unchanged *)
Definition add_ipv4 (id : N) (l : list pcu) (ip : bytes) : outcome (list pcu) :=
  match To4 ip with
  | None => Err
  | Some ip4 =>
      if negb (length ip4 =? 4)%nat then Err
      else Ok (l ++ [mkpcu id 4 ip4])
  end.
Definition AddDNSServerIPv4Address := add_ipv4 DNSServerIPv4AddressDL.
Definition AddPCSCFIPv4Address := add_ipv4 PCSCFIPv4AddressDL.

Definition AddDNSServerIPv6Address (l : list pcu) (ip : bytes) : outcome (list pcu) :=
  match To16 ip with
  | None => Err
  | Some ip16 =>
      if negb (length ip =? 16)%nat then Err
      else Ok (l ++ [mkpcu DNSServerIPv6AddressDL 16 ip16])
  end.

(* AddIPv4LinkMTU(mtu uint16): contents = {uint8(mtu >> 8), uint8(mtu & 0xff)} *)
Definition AddIPv4LinkMTU (l : list pcu) (mtu : N) : list pcu :=
  l ++ [mkpcu IPv4LinkMTUDL 2 [(N.shiftr mtu 8) mod 256; (N.land mtu 255) mod 256]].

(* ------------------------------------------------------------------ *)
(* PSI.go.  [16]bool is a list of 16 booleans. *)

(* the loop "for i := uint8(0); i < 16; i++" as a fold over 0..15 *)
Definition idx16 : list N := [0;1;2;3;4;5;6;7;8;9;10;11;12;13;14;15].

(* (buf[i/8] & (1 << (i % 8))) > 0, in uint8 *)
Definition psi_bit (buf : bytes) (i : N) : outcome bool :=
  b <- idx buf (N.to_nat (i / 8)) ;;
  Ok (0 <? N.land b ((N.shiftl 1 (i mod 8)) mod 256)).

Fixpoint psi_bits (buf : bytes) (is : list N) : outcome (list bool) :=
  match is with
  | [] => Ok []
  | i :: t => b <- psi_bit buf i ;; r <- psi_bits buf t ;; Ok (b :: r)
  end.

Definition PSIToBooleanArray (buf : bytes) : outcome (list bool) :=
  if (length buf <? 2)%nat then Ok (repeat false 16)
  else psi_bits buf idx16.

(* buf[i/8] |= 1 << (i % 8) on var buf [2]uint8; array[i] on a [16]bool never
   panics for i < 16: [nth] with default is used only below the length *)
Definition psi_set (buf : bytes) (i : N) : bytes :=
  upd buf (N.to_nat (i / 8))
      (N.lor (nth (N.to_nat (i / 8)) buf 0) ((N.shiftl 1 (i mod 8)) mod 256)).

Fixpoint psi_fold (array : list bool) (buf : bytes) (is : list N) : bytes :=
  match is with
  | [] => buf
  | i :: t =>
      psi_fold array (if nth (N.to_nat i) array false then psi_set buf i else buf) t
  end.

(* the parameter type is [16]bool: [length array = 16] is a precondition *)
Definition PSIToBuf (array : list bool) : bytes := psi_fold array [0; 0] idx16.

(* ------------------------------------------------------------------ *)
(* PDUSessionReactivationResultErrorCauseToBuf.  nil and empty slices are both
   [] (a non-nil empty errPduSessionId with an empty errCause also yields nil). *)
Fixpoint interleave (ids causes : bytes) : outcome bytes :=
  match ids with
  | [] => Ok []
  | i :: ti =>
      match causes with
      | [] => Panic            (* errCause[i] out of range: unreachable behind the guard *)
      | c :: tc => r <- interleave ti tc ;; Ok (i :: c :: r)
      end
  end.

Definition PDUSessionReactivationResultErrorCauseToBuf (ids causes : bytes) : outcome bytes :=
  if negb (length ids =? length causes)%nat then Ok []
  else interleave ids causes.
