(* C16: proofs about the model of ProtocolConfigurationOptions.go, PSI.go,
   PDUSessionReactivationResultErrorCause.go *)
From NV Require Import Lib.Base Lib.Bits C16.Model.
From Coq Require Import ZifyN ZifyNat ZifyBool.
Open Scope N_scope.
Ltac Zify.zify_post_hook ::= Z.div_mod_to_equations.

Arguments N.land : simpl never.
Arguments N.lor : simpl never.
Arguments N.shiftl : simpl never.
Arguments N.shiftr : simpl never.
Arguments N.modulo : simpl never.
Arguments N.div : simpl never.
Arguments N.pow : simpl never.
Arguments N.add : simpl never.
Arguments N.mul : simpl never.
Arguments N.sub : simpl never.
Arguments Z.sub : simpl never.
Arguments Z.add : simpl never.
Arguments Z.of_N : simpl never.
Arguments Z.of_nat : simpl never.
Arguments N.to_nat : simpl never.
Arguments N.of_nat : simpl never.

(* ------------------------------------------------------------------ *)
(* Marshal *)

Lemma metaInfo_val : metaInfo = 128.
Proof. reflexivity. Qed.

Lemma Marshal_first_octet l : hd 0 (Marshal l) = 128.
Proof. reflexivity. Qed.

Lemma Marshal_cons l : Marshal l = 128 :: marshal_units l.
Proof. reflexivity. Qed.

Lemma marshal_units_app l1 l2 :
  marshal_units (l1 ++ l2) = marshal_units l1 ++ marshal_units l2.
Proof.
  induction l1 as [|u t IH]; [reflexivity|].
  cbn [marshal_units app]. rewrite IH, app_assoc. reflexivity.
Qed.

(* well-formed unit: the Go field types (uint16, uint8) and
   LengthOfContents = len(Contents) *)
Definition wf_unit (u : pcu) : Prop :=
  pcu_id u < 65536 /\ pcu_len u = N.of_nat (length (pcu_contents u)) /\
  (length (pcu_contents u) <= 255)%nat.
Definition wf_pco (l : list pcu) : Prop := Forall wf_unit l.

(* ------------------------------------------------------------------ *)
(* one-step unfoldings of the loop *)

Lemma loop_done fuel n st cur rest :
  (n <= 0)%Z -> loop fuel n st cur rest = Ok ([], false).
Proof.
  intro H. destruct fuel; cbn [loop];
    destruct (Z.leb_spec n 0); try lia; reflexivity.
Qed.

Lemma loop_ID_step f n cur a b rest :
  (0 < n)%Z ->
  loop (S f) n ReadingID cur (a :: b :: rest) =
  loop f (n - 2)%Z ReadingLength (Some (mkpcu (be16 a b) 0 [])) rest.
Proof.
  intro H. cbn [loop]. destruct (Z.leb_spec n 0); try lia. reflexivity.
Qed.

Lemma loop_ID_short f n cur rest :
  (0 < n)%Z -> (length rest < 2)%nat ->
  loop (S f) n ReadingID cur rest = Ok ([], true).
Proof.
  intros H Hl. cbn [loop]. destruct (Z.leb_spec n 0); try lia.
  destruct rest as [|a [|b t]]; cbn in Hl; try lia; reflexivity.
Qed.

Lemma loop_Len_step f n c a rest :
  (0 < n)%Z ->
  loop (S f) n ReadingLength (Some c) (a :: rest) =
  (r <- loop f (n - 1)%Z ReadingContent (Some (mkpcu (pcu_id c) a (pcu_contents c))) rest ;;
   if a =? 0 then Ok (mkpcu (pcu_id c) a (pcu_contents c) :: fst r, snd r) else Ok r).
Proof.
  intro H. cbn [loop]. destruct (Z.leb_spec n 0); try lia. reflexivity.
Qed.

Lemma loop_Len_short f n c :
  (0 < n)%Z -> loop (S f) n ReadingLength (Some c) [] = Ok ([], true).
Proof.
  intro H. cbn [loop]. destruct (Z.leb_spec n 0); try lia. reflexivity.
Qed.

Lemma read_n_app cs rest : read_n (cs ++ rest) (length cs) = Ok (cs, rest).
Proof.
  unfold read_n. rewrite app_length.
  destruct (Nat.leb_spec (length cs) (length cs + length rest)); try lia.
  rewrite firstn_app, Nat.sub_diag, firstn_all, skipn_app, Nat.sub_diag, skipn_all.
  cbn. rewrite app_nil_r. reflexivity.
Qed.

Lemma read_n_ok rest k x r :
  read_n rest k = Ok (x, r) -> rest = x ++ r /\ length x = k.
Proof.
  unfold read_n. destruct (Nat.leb_spec k (length rest)); [|discriminate].
  intro E. inversion E; subst. split.
  - symmetry. apply firstn_skipn.
  - apply firstn_length_le. assumption.
Qed.

Lemma read_n_cases rest k :
  (exists x r, read_n rest k = Ok (x, r)) \/ read_n rest k = Err.
Proof.
  unfold read_n. destruct (k <=? length rest)%nat; [left; eauto|right; reflexivity].
Qed.

Lemma loop_Content_pos f n c cs rest :
  (0 < n)%Z -> 0 < pcu_len c -> length cs = N.to_nat (pcu_len c) ->
  loop (S f) n ReadingContent (Some c) (cs ++ rest) =
  (r <- loop f (n - Z.of_N (pcu_len c))%Z ReadingID
             (Some (mkpcu (pcu_id c) (pcu_len c) cs)) rest ;;
   Ok (mkpcu (pcu_id c) (pcu_len c) cs :: fst r, snd r)).
Proof.
  intros H Hp Hl. cbn [loop]. destruct (Z.leb_spec n 0); try lia.
  destruct (N.ltb_spec 0 (pcu_len c)); try lia.
  rewrite <- Hl, read_n_app. reflexivity.
Qed.

Lemma loop_Content_zero f n c rest :
  (0 < n)%Z -> pcu_len c = 0 ->
  loop (S f) n ReadingContent (Some c) rest = loop f n ReadingID (Some c) rest.
Proof.
  intros H Hz. cbn [loop]. destruct (Z.leb_spec n 0); try lia.
  rewrite Hz. cbn. f_equal. lia.
Qed.

(* ------------------------------------------------------------------ *)
(* round trip *)

Lemma be16_hi_lo w : w < 65536 -> be16 (hi8 w) (lo8 w) = w.
Proof. unfold be16, hi8, lo8. intro. lia. Qed.

Lemma marshal_units_nil l : marshal_units l = [] -> l = [].
Proof. destruct l; [reflexivity|discriminate]. Qed.

Lemma loop_marshal_units l : forall fuel n cur,
  wf_pco l ->
  n = Z.of_nat (length (marshal_units l)) ->
  (length (marshal_units l) <= fuel)%nat ->
  loop fuel n ReadingID cur (marshal_units l) = Ok (l, false).
Proof.
  induction l as [|u t IH]; intros fuel n cur Hwf Hn Hf.
  - cbn in Hn. apply loop_done. lia.
  - pose proof (Forall_inv Hwf) as Hu. pose proof (Forall_inv_tail Hwf) as Ht.
    destruct u as [id len cts]. destruct Hu as (Hid & Hlen & Hc). cbn [pcu_id pcu_len pcu_contents] in *.
    cbn [marshal_units marshal_unit pcu_id pcu_len pcu_contents app] in *.
    cbn [length] in Hf. rewrite app_length in Hf.
    assert (Hn' : n = (3 + Z.of_nat (length cts) + Z.of_nat (length (marshal_units t)))%Z).
    { rewrite Hn. cbn [length]. rewrite app_length. lia. }
    clear Hn.
    destruct fuel as [|f1]; [lia|]. destruct f1 as [|f2]; [lia|]. destruct f2 as [|f3]; [lia|].
    rewrite loop_ID_step by lia.
    rewrite loop_Len_step by lia. cbn [pcu_id pcu_contents].
    rewrite be16_hi_lo by assumption.
    destruct cts as [|c0 cts'].
    + (* zero-length contents: appended by the ReadingLength step *)
      cbn [length] in *. subst len. cbn [app].
      destruct t as [|u2 t2].
      * cbn [marshal_units]. rewrite loop_done by (cbn [marshal_units length] in Hn'; lia).
        reflexivity.
      * rewrite loop_Content_zero; [|cbn [marshal_units marshal_unit length app] in Hn'; lia|reflexivity].
        rewrite (IH f3 _ _ Ht) by lia.
        reflexivity.
    + (* non-empty contents: appended by the ReadingContent step *)
      assert (Hl0 : len <> 0) by (subst len; cbn [length]; lia).
      rewrite loop_Content_pos; cbn [pcu_len pcu_id]; [|lia|lia|lia].
      rewrite (IH f3 _ _ Ht) by lia.
      cbn [obind fst snd].
      destruct (N.eqb_spec len 0); [contradiction|]. reflexivity.
Qed.

Lemma pco_roundtrip l : wf_pco l -> UnMarshal (Marshal l) = Ok l.
Proof.
  intro Hwf. unfold UnMarshal, UnMarshalFull, UnMarshalFull_fuel.
  rewrite Marshal_cons.
  change (read_n (128 :: marshal_units l) 1) with (Ok ([128], marshal_units l)).
  cbv iota beta.
  rewrite (loop_marshal_units l _ _ None Hwf).
  - reflexivity.
  - cbn [length]. lia.
  - cbn [length]. lia.
Qed.

(* ------------------------------------------------------------------ *)
(* totality *)

Definition mu (st : PCOReadingState) (n : Z) : Z :=
  match st with ReadingID => n | _ => (n + 1)%Z end.

Definition cur_ok (st : PCOReadingState) (cur : option pcu) : Prop :=
  match st with ReadingID => True | _ => cur <> None end.

Lemma total_bind {A B} (x : outcome A) (f : A -> outcome B) :
  is_total x -> (forall a, is_total (f a)) -> is_total (obind x f).
Proof. destruct x; cbn; auto. Qed.

Lemma loop_total fuel : forall n st cur rest,
  cur_ok st cur -> (mu st n <= Z.of_nat fuel)%Z -> is_total (loop fuel n st cur rest).
Proof.
  induction fuel as [|f IH]; intros n st cur rest Hc Hm.
  - rewrite loop_done; [exact I|]. destruct st; cbn [mu] in Hm; lia.
  - destruct (Z.leb_spec n 0) as [Hn|Hn]; [rewrite loop_done by assumption; exact I|].
    destruct st; cbn [mu cur_ok] in *.
    + destruct rest as [|a [|b t]];
        try (rewrite loop_ID_short by (cbn [length]; lia); exact I).
      rewrite loop_ID_step by assumption. apply IH; [discriminate|cbn [mu]; lia].
    + destruct cur as [c|]; [|congruence].
      destruct rest as [|a t]; [rewrite loop_Len_short by assumption; exact I|].
      rewrite loop_Len_step by assumption.
      apply total_bind; [apply IH; [discriminate|cbn [mu]; lia]|].
      intro r. destruct (a =? 0); exact I.
    + destruct cur as [c|]; [|congruence].
      destruct (N.ltb_spec 0 (pcu_len c)) as [Hp|Hz].
      * destruct (read_n_cases rest (N.to_nat (pcu_len c))) as [(x & r & E)|E].
        -- destruct (read_n_ok _ _ _ _ E) as [-> Hl].
           rewrite loop_Content_pos by assumption.
           apply total_bind; [apply IH; [exact I|cbn [mu]; lia]|]. intro; exact I.
        -- cbn [loop]. destruct (Z.leb_spec n 0); try lia.
           destruct (N.ltb_spec 0 (pcu_len c)); try lia. rewrite E. exact I.
      * rewrite loop_Content_zero by (try assumption; lia).
        apply IH; [exact I|cbn [mu]; lia].
Qed.

Lemma UnMarshalFull_total l0 bs : is_total (UnMarshalFull l0 bs).
Proof.
  unfold UnMarshalFull, UnMarshalFull_fuel.
  destruct bs as [|x rest]; [exact I|].
  change (read_n (x :: rest) 1) with (Ok ([x], rest)). cbv iota beta.
  apply total_bind; [|intro; exact I].
  apply loop_total; [exact I|cbn [mu length]; lia].
Qed.

Lemma UnMarshal_total bs : is_total (UnMarshal bs).
Proof.
  unfold UnMarshal. apply total_bind; [apply UnMarshalFull_total|].
  intro r. destruct (snd r); exact I.
Qed.

(* ------------------------------------------------------------------ *)
(* contents come from the input, at the positions the headers announce *)

(* relative form: [rest] starts with the units of [l], back to back *)
Fixpoint rchain (rest : bytes) (l : list pcu) : Prop :=
  match l with
  | [] => True
  | u :: t =>
      exists a b rest',
        rest = a :: b :: pcu_len u :: pcu_contents u ++ rest' /\
        pcu_id u = be16 a b /\
        length (pcu_contents u) = N.to_nat (pcu_len u) /\
        rchain rest' t
  end.

Definition loop_inv (st : PCOReadingState) (cur : option pcu) (rest : bytes) (l : list pcu) : Prop :=
  match st with
  | ReadingID => rchain rest l
  | ReadingLength =>
      forall c, cur = Some c -> pcu_contents c = [] ->
      forall a b, pcu_id c = be16 a b -> rchain (a :: b :: rest) l
  | ReadingContent =>
      forall c, cur = Some c -> pcu_contents c = [] ->
      if pcu_len c =? 0 then rchain rest l
      else forall a b, pcu_id c = be16 a b -> rchain (a :: b :: pcu_len c :: rest) l
  end.

Lemma loop_rchain fuel : forall n st cur rest l e,
  loop fuel n st cur rest = Ok (l, e) -> loop_inv st cur rest l.
Proof.
  induction fuel as [|f IH]; intros n st cur rest l e H.
  - destruct (Z.leb_spec n 0) as [Hn|Hn].
    + rewrite loop_done in H by assumption. inversion H; subst.
      destruct st; cbn; auto. intros c _ _. destruct (pcu_len c =? 0); cbn; auto.
    + cbn [loop] in H. destruct (Z.leb_spec n 0); try lia. discriminate.
  - destruct (Z.leb_spec n 0) as [Hn|Hn].
    + rewrite loop_done in H by assumption. inversion H; subst.
      destruct st; cbn; auto. intros c _ _. destruct (pcu_len c =? 0); cbn; auto.
    + destruct st; cbn [loop_inv].
      * destruct rest as [|a [|b t]];
          try (rewrite loop_ID_short in H by (cbn [length]; lia); inversion H; subst; exact I).
        rewrite loop_ID_step in H by assumption.
        apply IH in H. cbn [loop_inv] in H. eapply H; reflexivity.
      * intros c -> Hc a b Hid.
        destruct rest as [|x t]; [rewrite loop_Len_short in H by assumption; inversion H; subst; exact I|].
        rewrite loop_Len_step in H by assumption.
        destruct (loop f (n - 1)%Z ReadingContent _ t) as [[l' e']| | |] eqn:E; try discriminate.
        apply IH in E. cbn [loop_inv] in E.
        specialize (E _ eq_refl Hc). cbn [pcu_len pcu_id] in E.
        cbn [obind fst snd] in H.
        destruct (N.eqb_spec x 0) as [->|Hx].
        -- inversion H; subst. cbn [rchain pcu_len pcu_contents pcu_id].
           exists a, b, t. rewrite Hc. cbn [app length]. repeat split; auto.
        -- inversion H; subst. apply E. assumption.
      * intros c -> Hc.
        destruct (N.eqb_spec (pcu_len c) 0) as [Hz|Hz].
        -- rewrite loop_Content_zero in H by assumption.
           apply IH in H. exact H.
        -- intros a b Hid.
           destruct (read_n_cases rest (N.to_nat (pcu_len c))) as [(x & r & E)|E].
           ++ destruct (read_n_ok _ _ _ _ E) as [-> Hl].
              rewrite loop_Content_pos in H by (try assumption; lia).
              destruct (loop f _ ReadingID _ r) as [[l' e']| | |] eqn:E2; try discriminate.
              apply IH in E2. cbn [loop_inv] in E2.
              cbn [obind fst snd] in H. inversion H; subst.
              cbn [rchain pcu_len pcu_contents pcu_id].
              exists a, b, r. repeat split; auto.
           ++ cbn [loop] in H. destruct (Z.leb_spec n 0); try lia.
              destruct (N.ltb_spec 0 (pcu_len c)); try lia.
              rewrite E in H. inversion H; subst. exact I.
Qed.

(* absolute form, as the property states it: unit k of the result sits in the
   input [bs] at offset [off]: two identifier octets, the length octet, and
   exactly that many content octets, all inside [bs] *)
Definition unit_at (bs : bytes) (off : nat) (u : pcu) : Prop :=
  (exists a b, firstn 3 (skipn off bs) = [a; b; pcu_len u] /\ pcu_id u = be16 a b) /\
  pcu_contents u = firstn (N.to_nat (pcu_len u)) (skipn (off + 3) bs) /\
  length (pcu_contents u) = N.to_nat (pcu_len u) /\
  (off + 3 + N.to_nat (pcu_len u) <= length bs)%nat.

Fixpoint chain (bs : bytes) (off : nat) (l : list pcu) : Prop :=
  match l with
  | [] => True
  | u :: t => unit_at bs off u /\ chain bs (off + 3 + N.to_nat (pcu_len u)) t
  end.

Lemma skipn_app_exact {A} (p q : list A) : skipn (length p) (p ++ q) = q.
Proof. rewrite skipn_app, Nat.sub_diag, skipn_all. reflexivity. Qed.

Lemma rchain_chain l : forall pre rest,
  rchain rest l -> chain (pre ++ rest) (length pre) l.
Proof.
  induction l as [|u t IH]; intros pre rest H; [exact I|].
  cbn [rchain] in H. destruct H as (a & b & rest' & -> & Hid & Hl & Ht).
  cbn [chain]. split.
  - unfold unit_at. repeat split.
    + exists a, b. split; [|assumption]. rewrite skipn_app_exact. reflexivity.
    + replace (pre ++ a :: b :: pcu_len u :: pcu_contents u ++ rest')
        with ((pre ++ [a; b; pcu_len u]) ++ pcu_contents u ++ rest')
        by (rewrite <- app_assoc; reflexivity).
      replace (length pre + 3)%nat with (length (pre ++ [a; b; pcu_len u]))
        by (rewrite app_length; reflexivity).
      rewrite skipn_app_exact, <- Hl, firstn_app, Nat.sub_diag, firstn_all.
      cbn. rewrite app_nil_r. reflexivity.
    + assumption.
    + rewrite app_length. cbn [length]. rewrite app_length. lia.
  - replace (pre ++ a :: b :: pcu_len u :: pcu_contents u ++ rest')
      with ((pre ++ [a; b; pcu_len u] ++ pcu_contents u) ++ rest')
      by (rewrite <- !app_assoc; reflexivity).
    replace (length pre + 3 + N.to_nat (pcu_len u))%nat
      with (length (pre ++ [a; b; pcu_len u] ++ pcu_contents u))
      by (rewrite !app_length; cbn [length]; lia).
    apply IH. assumption.
Qed.

Lemma pco_contents_from_input bs l e :
  UnMarshalFull [] bs = Ok (l, e) -> chain bs 1 l.
Proof.
  unfold UnMarshalFull, UnMarshalFull_fuel.
  destruct bs as [|x rest].
  - cbn. intro H; inversion H; subst. exact I.
  - change (read_n (x :: rest) 1) with (Ok ([x], rest)). cbv iota beta.
    destruct (loop _ _ ReadingID None rest) as [[l' e']| | |] eqn:E; try discriminate.
    cbn [obind fst snd app]. intro H; inversion H; subst.
    apply loop_rchain in E. cbn [loop_inv] in E.
    apply (rchain_chain l [x] rest E).
Qed.

(* every content octet returned is an octet of the input *)
Lemma In_firstn {A} (x : A) n : forall l, In x (firstn n l) -> In x l.
Proof.
  induction n as [|n IH]; intros [|h t] H; cbn in *; try contradiction.
  destruct H; [left; assumption|right; apply IH; assumption].
Qed.

Lemma In_skipn {A} (x : A) n : forall l, In x (skipn n l) -> In x l.
Proof.
  induction n as [|n IH]; intros [|h t] H; cbn in *; try contradiction; auto.
Qed.

Lemma chain_incl bs : forall l off, chain bs off l ->
  Forall (fun u => incl (pcu_contents u) bs) l.
Proof.
  induction l as [|u t IH]; intros off H; constructor.
  - destruct H as [(_ & Hc & _) _]. rewrite Hc.
    intros x Hx. apply In_firstn in Hx. apply In_skipn in Hx. exact Hx.
  - destruct H as [_ Ht]. eapply IH; eassumption.
Qed.

(* ------------------------------------------------------------------ *)
(* Add* helpers keep the list well-formed, so lists built with them round-trip *)

Lemma wf_pco_snoc l u : wf_pco l -> wf_unit u -> wf_pco (l ++ [u]).
Proof. intros Hl Hu. apply Forall_app. split; [assumption|constructor; [assumption|constructor]]. Qed.

Lemma wf_AddDNSServerIPv4AddressRequest l : wf_pco l -> wf_pco (AddDNSServerIPv4AddressRequest l).
Proof. intro. apply wf_pco_snoc; [assumption|]. unfold wf_unit; cbn; repeat split; (reflexivity || lia). Qed.
Lemma wf_AddDNSServerIPv6AddressRequest l : wf_pco l -> wf_pco (AddDNSServerIPv6AddressRequest l).
Proof. intro. apply wf_pco_snoc; [assumption|]. unfold wf_unit; cbn; repeat split; (reflexivity || lia). Qed.
Lemma wf_AddIPAddressAllocationViaNASSignallingUL l :
  wf_pco l -> wf_pco (AddIPAddressAllocationViaNASSignallingUL l).
Proof. intro. apply wf_pco_snoc; [assumption|]. unfold wf_unit; cbn; repeat split; (reflexivity || lia). Qed.
Lemma wf_AddIPv4LinkMTU l mtu : wf_pco l -> wf_pco (AddIPv4LinkMTU l mtu).
Proof. intro. apply wf_pco_snoc; [assumption|]. unfold wf_unit; cbn; repeat split; (reflexivity || lia). Qed.

Lemma wf_add_ipv4 id l ip l' : id < 65536 -> wf_pco l -> add_ipv4 id l ip = Ok l' -> wf_pco l'.
Proof.
  intros Hid Hl. unfold add_ipv4. destruct (To4 ip) as [ip4|]; [|discriminate].
  destruct (Nat.eqb_spec (length ip4) 4) as [E|E]; cbn [negb]; [|discriminate].
  intro H; inversion H; subst. apply wf_pco_snoc; [assumption|].
  unfold wf_unit; cbn [pcu_id pcu_len pcu_contents]. rewrite E. cbn. lia.
Qed.

Lemma wf_AddDNSServerIPv6Address l ip l' :
  wf_pco l -> AddDNSServerIPv6Address l ip = Ok l' -> wf_pco l'.
Proof.
  intro Hl. unfold AddDNSServerIPv6Address, To16.
  destruct (Nat.eqb_spec (length ip) 4) as [E4|E4].
  - rewrite E4. cbn. discriminate.
  - destruct (Nat.eqb_spec (length ip) 16) as [E|E]; cbn [negb]; [|discriminate].
    intro H; inversion H; subst. apply wf_pco_snoc; [assumption|].
    unfold wf_unit; cbn [pcu_id pcu_len pcu_contents]. rewrite E. repeat split; (reflexivity || lia).
Qed.

Lemma AddIPv4LinkMTU_contents l mtu : mtu < 65536 ->
  AddIPv4LinkMTU l mtu = l ++ [mkpcu 16 2 [hi8 mtu; lo8 mtu]].
Proof.
  intro H. unfold AddIPv4LinkMTU, IPv4LinkMTUDL, hi8, lo8.
  rewrite shiftr_div. change 255 with (N.ones 8). rewrite land_ones_mod.
  change (2 ^ 8) with 256. rewrite N.mod_mod by lia. reflexivity.
Qed.

(* ------------------------------------------------------------------ *)
(* PDU session status bitmap *)

(* enumeration of the finite domains *)
Fixpoint all_bools (n : nat) : list (list bool) :=
  match n with
  | O => [[]]
  | S k => map (cons false) (all_bools k) ++ map (cons true) (all_bools k)
  end.

Lemma all_bools_complete n : forall l, length l = n -> In l (all_bools n).
Proof.
  induction n as [|k IH]; intros [|b t] H; cbn in H; try discriminate.
  - left; reflexivity.
  - cbn [all_bools]. apply in_or_app. injection H as H.
    destruct b; [right|left]; apply in_map; apply IH; assumption.
Qed.

Definition octets : list N := map N.of_nat (seq 0 256).

Lemma octets_complete a : a < 256 -> In a octets.
Proof.
  intro H. unfold octets. rewrite <- (N2Nat.id a). apply in_map.
  apply in_seq. lia.
Qed.

Definition eqb_obools (a b : outcome (list bool)) : bool :=
  eqb_outcome (eqb_list Bool.eqb) a b.

Lemma eqb_list_bool_spec a : forall b, eqb_list Bool.eqb a b = true -> a = b.
Proof.
  induction a as [|x a IH]; intros [|y b] H; cbn in H; try discriminate; auto.
  apply andb_true_iff in H as [H1 H2]. apply Bool.eqb_prop in H1. f_equal; auto.
Qed.

Lemma eqb_obools_spec a b : eqb_obools a b = true -> a = b.
Proof.
  destruct a, b; cbn; try discriminate; auto.
  intro H. f_equal. apply eqb_list_bool_spec. exact H.
Qed.

(* little-endian value of a bit list *)
Fixpoint bits_val (l : list bool) : N :=
  match l with [] => 0 | b :: t => N.b2n b + 2 * bits_val t end.

(* buf -> array -> buf, all 256 x 256 octet pairs *)
Definition psi_check1 (a b : N) : bool :=
  match PSIToBooleanArray [a; b] with
  | Ok arr => eqb_bytes (PSIToBuf arr) [a; b] &&
              eqb_list Bool.eqb arr (map (N.testbit (a + 256 * b)) idx16)
  | _ => false
  end.

Lemma psi_sweep1 : forallb (fun a => forallb (psi_check1 a) octets) octets = true.
Proof. vm_cast_no_check (@eq_refl bool true). Qed.

Lemma psi_buf_roundtrip a b : a < 256 -> b < 256 ->
  exists arr, PSIToBooleanArray [a; b] = Ok arr /\ PSIToBuf arr = [a; b] /\
              arr = map (N.testbit (a + 256 * b)) idx16.
Proof.
  intros Ha Hb. pose proof psi_sweep1 as H.
  rewrite forallb_forall in H. specialize (H a (octets_complete a Ha)).
  rewrite forallb_forall in H. specialize (H b (octets_complete b Hb)).
  unfold psi_check1 in H. destruct (PSIToBooleanArray [a; b]) as [arr| | |]; try discriminate.
  apply andb_true_iff in H as [H1 H2].
  exists arr. split; [reflexivity|]. split.
  - apply eqb_bytes_spec. exact H1.
  - apply eqb_list_bool_spec. exact H2.
Qed.

(* array -> buf -> array, all 2^16 arrays *)
Definition psi_check2 (arr : list bool) : bool :=
  eqb_obools (PSIToBooleanArray (PSIToBuf arr)) (Ok arr) &&
  eqb_bytes (PSIToBuf arr) [bits_val (firstn 8 arr); bits_val (skipn 8 arr)].

Lemma psi_sweep2 : forallb psi_check2 (all_bools 16) = true.
Proof. vm_cast_no_check (@eq_refl bool true). Qed.

Lemma psi_arr_roundtrip arr : length arr = 16%nat ->
  PSIToBooleanArray (PSIToBuf arr) = Ok arr /\
  PSIToBuf arr = [bits_val (firstn 8 arr); bits_val (skipn 8 arr)].
Proof.
  intro Hl. pose proof psi_sweep2 as H. rewrite forallb_forall in H.
  specialize (H arr (all_bools_complete 16 arr Hl)).
  unfold psi_check2 in H. apply andb_true_iff in H as [H1 H2]. split.
  - apply eqb_obools_spec. exact H1.
  - apply eqb_bytes_spec. exact H2.
Qed.

(* never panics, for every byte string *)
Lemma psi_bits_total buf : forall is,
  (forall i, In i is -> (N.to_nat (i / 8) < length buf)%nat) ->
  exists r, psi_bits buf is = Ok r /\ length r = length is.
Proof.
  induction is as [|i t IH]; intro H; [exists []; split; reflexivity|].
  destruct IH as (r & Hr & Hl); [intros; apply H; right; assumption|].
  cbn [psi_bits]. unfold psi_bit, idx.
  destruct (nth_error buf (N.to_nat (i / 8))) as [x|] eqn:E.
  - cbn [obind]. rewrite Hr. cbn [obind]. eexists; split; [reflexivity|]. cbn [length]. lia.
  - apply nth_error_None in E. specialize (H i (or_introl eq_refl)). lia.
Qed.

Lemma idx16_lt i : In i idx16 -> i < 16.
Proof. cbn. intuition subst; lia. Qed.

Lemma PSIToBooleanArray_total bs :
  exists r, PSIToBooleanArray bs = Ok r /\ length r = 16%nat.
Proof.
  unfold PSIToBooleanArray. destruct (Nat.ltb_spec (length bs) 2) as [H|H].
  - eexists; split; reflexivity.
  - apply psi_bits_total. intros i Hi. apply idx16_lt in Hi. lia.
Qed.

Lemma PSIToBooleanArray_short bs : (length bs < 2)%nat ->
  PSIToBooleanArray bs = Ok (repeat false 16).
Proof. unfold PSIToBooleanArray. intro H. destruct (Nat.ltb_spec (length bs) 2); [reflexivity|lia]. Qed.

(* ------------------------------------------------------------------ *)
(* reactivation result error cause *)

Lemma interleave_spec ids : forall causes, length ids = length causes ->
  interleave ids causes = Ok (flat_map (fun p => [fst p; snd p]) (combine ids causes)).
Proof.
  induction ids as [|i t IH]; intros [|c tc] H; cbn in H; try discriminate; [reflexivity|].
  cbn [interleave]. rewrite IH by lia. reflexivity.
Qed.

Lemma reactivation_spec ids causes :
  PDUSessionReactivationResultErrorCauseToBuf ids causes =
  Ok (if (length ids =? length causes)%nat
      then flat_map (fun p => [fst p; snd p]) (combine ids causes) else []).
Proof.
  unfold PDUSessionReactivationResultErrorCauseToBuf.
  destruct (Nat.eqb_spec (length ids) (length causes)) as [E|E]; cbn [negb]; [|reflexivity].
  apply interleave_spec. assumption.
Qed.

(* reading the element back as (PDU session ID, cause) pairs, TS 24.501 9.11.3.43 *)
Fixpoint pairs (b : bytes) : list (N * N) :=
  match b with
  | i :: c :: t => (i, c) :: pairs t
  | _ => []
  end.

Lemma pairs_flat_map (l : list (N * N)) :
  pairs (flat_map (fun p => [fst p; snd p]) l) = l.
Proof. induction l as [|[i c] t IH]; [reflexivity|]. cbn. rewrite IH. reflexivity. Qed.

Lemma reactivation_pairs ids causes : length ids = length causes ->
  exists buf, PDUSessionReactivationResultErrorCauseToBuf ids causes = Ok buf /\
              pairs buf = combine ids causes /\ length buf = (2 * length ids)%nat.
Proof.
  intro H. rewrite reactivation_spec. rewrite H, Nat.eqb_refl.
  eexists; split; [reflexivity|]. split; [apply pairs_flat_map|].
  revert causes H. induction ids as [|i t IH]; intros [|c tc] H; cbn in *; try discriminate; auto.
  rewrite (IH tc) by lia. lia.
Qed.

(* ------------------------------------------------------------------ *)
(* exact left inverse: when UnMarshal succeeds, the input is the canonical
   encoding of the result, followed by a trailer that is empty, a dangling
   identifier (2 octets), or a dangling identifier with a non-zero length octet
   (3 octets) -- the two incomplete last units the reader drops silently. *)

Definition trailer (tl : bytes) : Prop :=
  tl = [] \/ length tl = 2%nat \/ (length tl = 3%nat /\ nth 2 tl 0 <> 0).

Definition canon (rest : bytes) (l : list pcu) : Prop :=
  exists tl, rest = marshal_units l ++ tl /\ trailer tl.

Definition loop_inv3 (st : PCOReadingState) (cur : option pcu) (rest : bytes) (l : list pcu) : Prop :=
  match st with
  | ReadingID => canon rest l
  | ReadingLength =>
      forall c, cur = Some c -> pcu_contents c = [] ->
      forall a b, pcu_id c = be16 a b -> a < 256 -> b < 256 -> canon (a :: b :: rest) l
  | ReadingContent =>
      forall c, cur = Some c -> pcu_contents c = [] ->
      if pcu_len c =? 0 then canon rest l
      else forall a b, pcu_id c = be16 a b -> a < 256 -> b < 256 ->
           canon (a :: b :: pcu_len c :: rest) l
  end.

Lemma hi_lo_be16 a b : a < 256 -> b < 256 -> hi8 (be16 a b) = a /\ lo8 (be16 a b) = b.
Proof. unfold hi8, lo8, be16. intros. lia. Qed.

Lemma loop_inv3_exit st cur rest : rest = [] -> loop_inv3 st cur rest [].
Proof.
  intros ->. destruct st; cbn [loop_inv3].
  - exists []. split; [reflexivity|left; reflexivity].
  - intros c _ _ a b _ _ _. exists [a; b]. split; [reflexivity|right; left; reflexivity].
  - intros c _ _. destruct (N.eqb_spec (pcu_len c) 0) as [Hz|Hz].
    + exists []. split; [reflexivity|left; reflexivity].
    + intros a b _ _ _. exists [a; b; pcu_len c]. split; [reflexivity|].
      right; right. split; [reflexivity|exact Hz].
Qed.

Lemma loop_canon fuel : forall n st cur rest l,
  n = Z.of_nat (length rest) -> bytes_ok rest ->
  loop fuel n st cur rest = Ok (l, false) -> loop_inv3 st cur rest l.
Proof.
  induction fuel as [|f IH]; intros n st cur rest l Hn Hok H.
  - destruct (Z.leb_spec n 0) as [Hle|Hgt].
    + rewrite loop_done in H by assumption. inversion H; subst.
      apply loop_inv3_exit. destruct rest; [reflexivity|cbn [length] in Hle; lia].
    + cbn [loop] in H. destruct (Z.leb_spec n 0); try lia. discriminate.
  - destruct (Z.leb_spec n 0) as [Hle|Hgt].
    + rewrite loop_done in H by assumption. inversion H; subst.
      apply loop_inv3_exit. destruct rest; [reflexivity|cbn [length] in Hle; lia].
    + destruct st; cbn [loop_inv3].
      * destruct rest as [|a [|b t]];
          try (rewrite loop_ID_short in H by (cbn [length]; lia); discriminate).
        rewrite loop_ID_step in H by assumption.
        pose proof (Forall_inv Hok) as Ha. pose proof (Forall_inv (Forall_inv_tail Hok)) as Hb.
        apply IH in H; [|cbn [length] in Hn; lia|exact (Forall_inv_tail (Forall_inv_tail Hok))].
        cbn [loop_inv3] in H. eapply H; try reflexivity; assumption.
      * intros c -> Hc a b Hid Ha Hb.
        destruct rest as [|x t]; [rewrite loop_Len_short in H by assumption; discriminate|].
        rewrite loop_Len_step in H by assumption.
        destruct (loop f (n - 1)%Z ReadingContent _ t) as [[l' e']| | |] eqn:E; try discriminate.
        cbn [obind fst snd] in H.
        assert (He : e' = false) by (destruct (x =? 0); inversion H; reflexivity). subst e'.
        apply IH in E; [|cbn [length] in Hn; lia|exact (Forall_inv_tail Hok)].
        cbn [loop_inv3] in E. specialize (E _ eq_refl Hc). cbn [pcu_len pcu_id] in E.
        destruct (N.eqb_spec x 0) as [->|Hx].
        -- inversion H; subst. destruct E as (tl & -> & Htl).
           exists tl. split; [|exact Htl].
           cbn [marshal_units marshal_unit pcu_id pcu_len pcu_contents]. rewrite Hc, Hid.
           unfold marshal_unit. cbn [pcu_id pcu_len pcu_contents app].
           destruct (hi_lo_be16 a b Ha Hb) as [-> ->]. reflexivity.
        -- inversion H; subst. apply E; assumption.
      * intros c -> Hc.
        destruct (N.eqb_spec (pcu_len c) 0) as [Hz|Hz].
        -- rewrite loop_Content_zero in H by assumption.
           apply IH in H; [exact H|lia|exact Hok].
        -- intros a b Hid Ha Hb.
           destruct (read_n_cases rest (N.to_nat (pcu_len c))) as [(x & r & E)|E].
           ++ destruct (read_n_ok _ _ _ _ E) as [-> Hl].
              rewrite loop_Content_pos in H by (try assumption; lia).
              destruct (loop f _ ReadingID _ r) as [[l' e']| | |] eqn:E2; try discriminate.
              cbn [obind fst snd] in H.
              assert (He : e' = false) by (inversion H; reflexivity). subst e'.
              apply IH in E2; [|rewrite app_length in Hn; lia|].
              ** inversion H; subst. cbn [loop_inv3] in E2. destruct E2 as (tl & -> & Htl).
                 exists tl. split; [|exact Htl].
                 cbn [marshal_units marshal_unit pcu_id pcu_len pcu_contents]. rewrite Hid.
                 unfold marshal_unit. cbn [pcu_id pcu_len pcu_contents app].
                 destruct (hi_lo_be16 a b Ha Hb) as [-> ->].
                 rewrite <- app_assoc. reflexivity.
              ** unfold bytes_ok in *. apply Forall_app in Hok. apply Hok.
           ++ cbn [loop] in H. destruct (Z.leb_spec n 0); try lia.
              destruct (N.ltb_spec 0 (pcu_len c)); try lia.
              rewrite E in H. discriminate.
Qed.

Lemma pco_exact_inverse bs l : bytes_ok bs -> UnMarshal bs = Ok l ->
  exists x tl, bs = x :: marshal_units l ++ tl /\ trailer tl.
Proof.
  intros Hok. unfold UnMarshal, UnMarshalFull, UnMarshalFull_fuel.
  destruct bs as [|x rest]; [cbn; discriminate|].
  change (read_n (x :: rest) 1) with (Ok ([x], rest)). cbv iota beta.
  destruct (loop _ _ ReadingID None rest) as [[l' e']| | |] eqn:E; try discriminate.
  cbn [obind fst snd app]. destruct e'; [discriminate|].
  intro H; inversion H; subst.
  apply loop_canon in E; [|cbn [length]; lia|exact (Forall_inv_tail Hok)].
  cbn [loop_inv3] in E. destruct E as (tl & -> & Htl).
  exists x, tl. split; [reflexivity|exact Htl].
Qed.

(* the result of a successful parse is well-formed, so it can be serialised again *)
Lemma rchain_wf l : forall rest, bytes_ok rest -> rchain rest l -> wf_pco l.
Proof.
  induction l as [|u t IH]; intros rest Hok H; [constructor|].
  cbn [rchain] in H. destruct H as (a & b & rest' & -> & Hid & Hl & Ht).
  unfold bytes_ok in Hok.
  pose proof (Forall_inv Hok) as Ha. pose proof (Forall_inv (Forall_inv_tail Hok)) as Hb.
  pose proof (Forall_inv (Forall_inv_tail (Forall_inv_tail Hok))) as Hlen.
  pose proof (Forall_inv_tail (Forall_inv_tail (Forall_inv_tail Hok))) as Hrest.
  apply Forall_app in Hrest as [_ Hrest'].
  unfold is_byte in *. constructor.
  - unfold wf_unit. rewrite Hid. unfold be16. repeat split; lia.
  - eapply IH; eassumption.
Qed.

Lemma pco_result_wf bs l e : bytes_ok bs -> UnMarshalFull [] bs = Ok (l, e) -> wf_pco l.
Proof.
  intros Hok. unfold UnMarshalFull, UnMarshalFull_fuel.
  destruct bs as [|x rest].
  - cbn. intro H; inversion H; subst. constructor.
  - change (read_n (x :: rest) 1) with (Ok ([x], rest)). cbv iota beta.
    destruct (loop _ _ ReadingID None rest) as [[l' e']| | |] eqn:E; try discriminate.
    cbn [obind fst snd app]. intro H; inversion H; subst.
    apply loop_rchain in E. cbn [loop_inv] in E.
    eapply rchain_wf; [exact (Forall_inv_tail Hok)|exact E].
Qed.

(* conversely, every canonical encoding followed by such a trailer is accepted *)
Lemma loop_trailer fuel n cur tl : trailer tl ->
  n = Z.of_nat (length tl) -> (length tl <= fuel)%nat ->
  loop fuel n ReadingID cur tl = Ok ([], false).
Proof.
  intros [->|[H2|[H3 Hc]]] Hn Hf.
  - apply loop_done. cbn in Hn. lia.
  - destruct tl as [|a [|b [|c t]]]; cbn [length] in H2; try lia.
    destruct fuel as [|f]; [cbn [length] in Hf; lia|].
    rewrite loop_ID_step by (cbn [length] in Hn; lia).
    apply loop_done. cbn [length] in Hn. lia.
  - destruct tl as [|a [|b [|c [|d t]]]]; cbn [length] in H3; try lia.
    cbn [nth] in Hc.
    destruct fuel as [|[|f]]; cbn [length] in Hf; try lia.
    rewrite loop_ID_step by (cbn [length] in Hn; lia).
    rewrite loop_Len_step by (cbn [length] in Hn; lia).
    rewrite loop_done by (cbn [length] in Hn; lia).
    cbn [obind fst snd]. destruct (N.eqb_spec c 0); [contradiction|reflexivity].
Qed.

Lemma loop_marshal_units_trailer l tl : trailer tl -> forall fuel n cur,
  wf_pco l ->
  n = Z.of_nat (length (marshal_units l ++ tl)) ->
  (length (marshal_units l ++ tl) <= fuel)%nat ->
  loop fuel n ReadingID cur (marshal_units l ++ tl) = Ok (l, false).
Proof.
  intro Htl. induction l as [|u t IH]; intros fuel n cur Hwf Hn Hf.
  - cbn [marshal_units app] in *. apply loop_trailer; assumption.
  - pose proof (Forall_inv Hwf) as Hu. pose proof (Forall_inv_tail Hwf) as Ht.
    destruct u as [id len cts]. destruct Hu as (Hid & Hlen & Hc). cbn [pcu_id pcu_len pcu_contents] in *.
    cbn [marshal_units marshal_unit pcu_id pcu_len pcu_contents app] in *.
    rewrite <- !app_assoc in *. cbn [app] in *.
    cbn [length] in Hf. rewrite app_length in Hf.
    assert (Hn' : n = (3 + Z.of_nat (length cts) + Z.of_nat (length (marshal_units t ++ tl)))%Z).
    { rewrite Hn. cbn [length]. rewrite app_length. lia. }
    clear Hn.
    destruct fuel as [|f1]; [lia|]. destruct f1 as [|f2]; [lia|]. destruct f2 as [|f3]; [lia|].
    rewrite loop_ID_step by lia.
    rewrite loop_Len_step by lia. cbn [pcu_id pcu_contents].
    rewrite be16_hi_lo by assumption.
    destruct cts as [|c0 cts'].
    + cbn [length] in *. subst len. cbn [app].
      destruct (marshal_units t ++ tl) as [|y ys] eqn:Erest.
      * rewrite loop_done by (cbn [length] in Hn'; lia).
        apply app_eq_nil in Erest as [Et _]. apply marshal_units_nil in Et. subst t. reflexivity.
      * rewrite loop_Content_zero; [|cbn [length] in Hn'; lia|reflexivity].
        rewrite <- Erest in *. rewrite (IH f3 _ _ Ht) by lia. reflexivity.
    + assert (Hl0 : len <> 0) by (subst len; cbn [length]; lia).
      rewrite loop_Content_pos; cbn [pcu_len pcu_id]; [|lia|lia|lia].
      rewrite (IH f3 _ _ Ht) by lia.
      cbn [obind fst snd].
      destruct (N.eqb_spec len 0); [contradiction|]. reflexivity.
Qed.

Lemma pco_accepts x l tl : wf_pco l -> trailer tl ->
  UnMarshal (x :: marshal_units l ++ tl) = Ok l.
Proof.
  intros Hwf Htl. unfold UnMarshal, UnMarshalFull, UnMarshalFull_fuel.
  change (read_n (x :: marshal_units l ++ tl) 1) with (Ok ([x], marshal_units l ++ tl)).
  cbv iota beta.
  rewrite (loop_marshal_units_trailer l tl Htl _ _ None Hwf).
  - reflexivity.
  - cbn [length]. lia.
  - cbn [length]. lia.
Qed.

(* the exact set of byte strings UnMarshal accepts, and what it returns *)
Lemma pco_accepts_iff bs l : bytes_ok bs ->
  (UnMarshal bs = Ok l <->
   wf_pco l /\ exists x tl, bs = x :: marshal_units l ++ tl /\ trailer tl).
Proof.
  intro Hok. split.
  - intro H. split; [|apply pco_exact_inverse; assumption].
    unfold UnMarshal in H.
    destruct (UnMarshalFull [] bs) as [[l' e]| | |] eqn:E; try discriminate.
    cbn [obind fst snd] in H. destruct e; [discriminate|]. inversion H; subst.
    eapply pco_result_wf; eassumption.
  - intros (Hwf & x & tl & -> & Htl). apply pco_accepts; assumption.
Qed.
