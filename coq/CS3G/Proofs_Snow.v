(* CS3G: snow3g.go against the SNOW 3G specification: clockFsm, the two LFSR modes,
   newSnow3g, generateKeystream, GetKeyStream; keystream prefix law. *)
From NV Require Import Lib.Base Lib.Bits CS3G.Model CS3G.Spec CS3G.Proofs_Words.
From Coq Require Import ZifyN ZifyNat ZifyBool.
Open Scope N_scope.
Ltac Zify.zify_post_hook ::= Z.div_mod_to_equations.

Arguments N.land : simpl never.
Arguments N.lor : simpl never.
Arguments N.lxor : simpl never.
Arguments N.shiftl : simpl never.
Arguments N.shiftr : simpl never.
Arguments N.modulo : simpl never.
Arguments N.div : simpl never.
Arguments N.pow : simpl never.
Arguments N.add : simpl never.
Arguments N.mul : simpl never.
Arguments N.sub : simpl never.
Arguments N.testbit : simpl never.

Import Snow3g.

Definition w32 (x : N) : Prop := x < 2 ^ 32.

(* the implementation state that represents a specification state *)
Definition conc (st : Spec.state) : snow3g :=
  mkSnow (Spec.LFSR st) [Spec.R1 st; Spec.R2 st; Spec.R3 st].

(* well-formed specification states: 16 stages, everything a 32-bit word *)
Definition wfst (st : Spec.state) : Prop :=
  length (Spec.LFSR st) = 16%nat /\ Forall w32 (Spec.LFSR st) /\
  w32 (Spec.R1 st) /\ w32 (Spec.R2 st) /\ w32 (Spec.R3 st).

Lemma length16 {A} (l : list A) : length l = 16%nat ->
  exists a0 a1 a2 a3 a4 a5 a6 a7 a8 a9 a10 a11 a12 a13 a14 a15,
    l = [a0; a1; a2; a3; a4; a5; a6; a7; a8; a9; a10; a11; a12; a13; a14; a15].
Proof.
  intro H.
  do 16 (destruct l as [|? l]; [discriminate H|]).
  destruct l; [|discriminate H].
  repeat eexists.
Qed.

(* ---------- the feedback word ---------- *)
Lemma shl8_word w : w < 2 ^ 32 ->
  u32 (N.shiftl w 8) = Spec.cat4 (Spec.byte_of w 1) (Spec.byte_of w 2) (Spec.byte_of w 3) 0.
Proof.
  intro H. rewrite u32_mod, shiftl_mul. unfold Spec.cat4, Spec.byte_of.
  change (2 ^ (8 * (3 - N.of_nat 1))) with 65536.
  change (2 ^ (8 * (3 - N.of_nat 2))) with 256.
  change (2 ^ (8 * (3 - N.of_nat 3))) with 1.
  rewrite p32 in *. rewrite p8. lia.
Qed.

Lemma shr8_word w : w < 2 ^ 32 ->
  N.shiftr w 8 = Spec.cat4 0 (Spec.byte_of w 0) (Spec.byte_of w 1) (Spec.byte_of w 2).
Proof.
  intro H. rewrite shiftr_div. unfold Spec.cat4, Spec.byte_of.
  change (2 ^ (8 * (3 - N.of_nat 0))) with 16777216.
  change (2 ^ (8 * (3 - N.of_nat 1))) with 65536.
  change (2 ^ (8 * (3 - N.of_nat 2))) with 256.
  rewrite p32 in *. rewrite p8. lia.
Qed.

Lemma top_byte w : N.land (u8 (N.shiftr w 24)) 0xff = Spec.byte_of w 0.
Proof.
  change 0xff with (N.ones 8). rewrite land_ones_mod, u8_mod, shiftr_div.
  rewrite N.mod_mod by (rewrite p8; lia). reflexivity.
Qed.

Lemma low_byte w : u8 (N.land w 0xff) = Spec.byte_of w 3.
Proof. rewrite byte3_eq. apply u8_small. apply byte_of_lt. Qed.

Lemma feedback_eq l0 l2 l11 : l0 < 2 ^ 32 -> l11 < 2 ^ 32 ->
  N.lxor (N.lxor (N.lxor (N.lxor
     (u32 (N.shiftl l0 8)) (mulAlpha (N.land (u8 (N.shiftr l0 24)) 0xff))) l2) (N.shiftr l11 8))
     (divAlpha (u8 (N.land l11 0xff)))
  = Spec.xor (Spec.xor (Spec.xor (Spec.xor
     (Spec.cat4 (Spec.byte_of l0 1) (Spec.byte_of l0 2) (Spec.byte_of l0 3) 0)
     (Spec.MULalpha (Spec.byte_of l0 0))) l2)
     (Spec.cat4 0 (Spec.byte_of l11 0) (Spec.byte_of l11 1) (Spec.byte_of l11 2)))
     (Spec.DIValpha (Spec.byte_of l11 3)).
Proof.
  intros H0 H11. rewrite top_byte, low_byte, shl8_word, shr8_word by assumption.
  rewrite mulAlpha_eq, divAlpha_eq by apply byte_of_lt. reflexivity.
Qed.

Lemma LFSR_v_lt st : wfst st -> Spec.LFSR_v st < 2 ^ 32.
Proof.
  intros (Hlen & Hall & _).
  assert (Hn : forall i, Spec.s_ st i < 2 ^ 32).
  { intro i. unfold Spec.s_. apply (nth_Forall w32); [assumption | unfold w32; rewrite p32; lia]. }
  unfold Spec.LFSR_v, Spec.xor.
  apply lxor_lt; [apply lxor_lt; [apply lxor_lt; [apply lxor_lt|]|]|].
  - apply cat4_lt; try apply byte_of_lt; lia.
  - apply MULalpha_lt; apply byte_of_lt.
  - apply Hn.
  - apply cat4_lt; try apply byte_of_lt; lia.
  - apply DIValpha_lt; apply byte_of_lt.
Qed.

(* ---------- clockFsm ---------- *)
Lemma clockFsm_conc st :
  clockFsm (conc st) (Spec.s_ st 15) (Spec.s_ st 5) = Ok (conc (Spec.FSM_clock st), Spec.FSM_F st).
Proof.
  unfold clockFsm, conc. cbn [fsm lfsr idx nth_error obind].
  rewrite s2_eq. cbn [obind store idx nth_error].
  rewrite s1_eq. cbn [obind store].
  unfold Spec.FSM_clock, Spec.FSM_F, Spec.add32, Spec.xor. cbn [Spec.LFSR Spec.R1 Spec.R2 Spec.R3].
  rewrite !u32_mod. reflexivity.
Qed.

Lemma FSM_clock_wf st : wfst st -> wfst (Spec.FSM_clock st).
Proof.
  intros (Hlen & Hall & H1 & H2 & H3). unfold wfst, Spec.FSM_clock. cbn [Spec.LFSR Spec.R1 Spec.R2 Spec.R3].
  repeat split; try assumption.
  - unfold w32, Spec.add32. apply N.mod_lt. rewrite p32. lia.
  - apply S1_lt.
  - apply S2_lt.
Qed.

Lemma FSM_F_lt st : wfst st -> Spec.FSM_F st < 2 ^ 32.
Proof.
  intros (Hlen & Hall & H1 & H2 & H3). unfold Spec.FSM_F, Spec.xor, Spec.add32.
  apply lxor_lt; [apply N.mod_lt; rewrite p32; lia | assumption].
Qed.

(* ---------- the LFSR modes ---------- *)
Lemma s_nth st i : Spec.s_ st i = nth i (Spec.LFSR st) 0.
Proof. reflexivity. Qed.

Lemma LFSR_shift_wf st v : wfst st -> v < 2 ^ 32 -> wfst (Spec.LFSR_shift st v).
Proof.
  intros (Hlen & Hall & H1 & H2 & H3) Hv.
  destruct (length16 _ Hlen) as (a0&a1&a2&a3&a4&a5&a6&a7&a8&a9&a10&a11&a12&a13&a14&a15&E).
  unfold wfst, Spec.LFSR_shift. rewrite E in *. cbn [Spec.LFSR Spec.R1 Spec.R2 Spec.R3 tl app length].
  repeat split; try assumption.
  inversion Hall; subst.
  apply (proj2 (Forall_app w32 [a1; a2; a3; a4; a5; a6; a7; a8; a9; a10; a11; a12; a13; a14; a15] [v])).
  split; [assumption | constructor; [exact Hv | constructor]].
Qed.

Lemma lfsrKeystreamMode_conc st : wfst st ->
  lfsrKeystreamMode (conc st) = Ok (conc (Spec.LFSR_shift st (Spec.LFSR_v st))).
Proof.
  intros Hwf. pose proof Hwf as (Hlen & Hall & H1 & H2 & H3).
  destruct st as [L r1 r2 r3]. cbn [Spec.LFSR Spec.R1 Spec.R2 Spec.R3] in *.
  destruct (length16 _ Hlen) as (a0&a1&a2&a3&a4&a5&a6&a7&a8&a9&a10&a11&a12&a13&a14&a15&E). subst L.
  unfold lfsrKeystreamMode, conc. cbn [lfsr fsm idx nth_error obind Spec.LFSR Spec.R1 Spec.R2 Spec.R3].
  assert (Ha0 : a0 < 2 ^ 32) by (inversion Hall; assumption).
  assert (Ha11 : a11 < 2 ^ 32) by (do 11 (inversion Hall as [|? ? _ Hall']; clear Hall; rename Hall' into Hall); inversion Hall; assumption).
  rewrite feedback_eq by assumption.
  reflexivity.
Qed.

Lemma lfsrInitializationMode_conc st F : wfst st ->
  lfsrInitializationMode (conc st) F = Ok (conc (Spec.LFSR_shift st (Spec.xor (Spec.LFSR_v st) F))).
Proof.
  intros Hwf. pose proof Hwf as (Hlen & Hall & H1 & H2 & H3).
  destruct st as [L r1 r2 r3]. cbn [Spec.LFSR Spec.R1 Spec.R2 Spec.R3] in *.
  destruct (length16 _ Hlen) as (a0&a1&a2&a3&a4&a5&a6&a7&a8&a9&a10&a11&a12&a13&a14&a15&E). subst L.
  unfold lfsrInitializationMode, conc. cbn [lfsr fsm idx nth_error obind Spec.LFSR Spec.R1 Spec.R2 Spec.R3].
  assert (Ha0 : a0 < 2 ^ 32) by (inversion Hall; assumption).
  assert (Ha11 : a11 < 2 ^ 32) by (do 11 (inversion Hall as [|? ? _ Hall']; clear Hall; rename Hall' into Hall); inversion Hall; assumption).
  rewrite feedback_eq by assumption.
  reflexivity.
Qed.

Lemma idx_s st i : wfst st -> (i < 16)%nat -> idx (lfsr (conc st)) i = Ok (Spec.s_ st i).
Proof.
  intros (Hlen & _) Hi. unfold conc. cbn [lfsr]. rewrite idx_nth by lia. reflexivity.
Qed.

(* ---------- one step of each mode ---------- *)
Definition init_body (s : snow3g) : outcome snow3g :=
  s15 <- idx (lfsr s) 15 ;; s5 <- idx (lfsr s) 5 ;;
  r <- clockFsm s s15 s5 ;;
  lfsrInitializationMode (fst r) (snd r).

Lemma init_body_conc st : wfst st ->
  init_body (conc st) = Ok (conc (Spec.clock_init st)) /\ wfst (Spec.clock_init st).
Proof.
  intro Hwf. unfold init_body.
  rewrite !idx_s by (assumption || lia). cbn [obind].
  rewrite clockFsm_conc. cbn [obind fst snd].
  pose proof (FSM_clock_wf st Hwf) as Hwf1.
  rewrite lfsrInitializationMode_conc by assumption.
  split; [reflexivity|].
  unfold Spec.clock_init. apply LFSR_shift_wf; [assumption|].
  unfold Spec.xor. apply lxor_lt; [apply LFSR_v_lt; assumption | apply FSM_F_lt; assumption].
Qed.

Lemma clock_ks_wf st : wfst st -> wfst (Spec.clock_ks st).
Proof.
  intro Hwf. unfold Spec.clock_ks. pose proof (FSM_clock_wf st Hwf).
  apply LFSR_shift_wf; [assumption | apply LFSR_v_lt; assumption].
Qed.

(* ---------- generic loop lemmas ---------- *)
Lemma iter_succ_r {A} n (f : A -> A) x : Nat.iter (S n) f x = Nat.iter n f (f x).
Proof. induction n as [|n IH]; [reflexivity|]. simpl in *. rewrite IH. reflexivity. Qed.

Lemma for_loop_const {A} (f : A -> outcome A) (g : A -> A) (P : A -> Prop) n i a :
  (forall a, P a -> f a = Ok (g a) /\ P (g a)) -> P a ->
  for_loop n i (fun _ a => f a) a = Ok (Nat.iter n g a) /\ P (Nat.iter n g a).
Proof.
  intros Hf. revert i a. induction n as [|n IH]; intros i a Ha.
  - simpl. auto.
  - cbn [for_loop]. destruct (Hf a Ha) as [E Hg]. rewrite E. cbn [obind].
    rewrite iter_succ_r. apply IH. assumption.
Qed.

(* ---------- newSnow3g ---------- *)
Lemma Forall4 (P : N -> Prop) (l : list N) : length l = 4%nat -> Forall P l ->
  exists a b c d, l = [a; b; c; d] /\ P a /\ P b /\ P c /\ P d.
Proof.
  intros H HP. do 4 (destruct l as [|? l]; [discriminate H|]). destruct l; [|discriminate H].
  inversion HP as [|? ? ? HP1]; subst. inversion HP1 as [|? ? ? HP2]; subst.
  inversion HP2 as [|? ? ? HP3]; subst. inversion HP3; subst.
  repeat eexists; assumption.
Qed.

Lemma xor_ones_lt a : a < 2 ^ 32 -> N.lxor a 0xffffffff < 2 ^ 32.
Proof. intro. apply lxor_lt; [assumption | rewrite p32; lia]. Qed.

Lemma init_state_wf K IV : length K = 4%nat -> length IV = 4%nat -> Forall w32 K -> Forall w32 IV ->
  wfst (Spec.init_state K IV).
Proof.
  intros HK HIV FK FIV.
  destruct (Forall4 _ _ HK FK) as (k0&k1&k2&k3&->&?&?&?&?).
  destruct (Forall4 _ _ HIV FIV) as (i0&i1&i2&i3&->&?&?&?&?).
  unfold wfst, Spec.init_state, Spec.xor. cbn [Spec.LFSR Spec.R1 Spec.R2 Spec.R3 nth length].
  unfold w32 in *.
  repeat split; try (rewrite p32; lia).
  repeat constructor; repeat apply lxor_lt; try assumption; rewrite p32; lia.
Qed.

Lemma newSnow3g_eq K IV : length K = 4%nat -> length IV = 4%nat -> Forall w32 K -> Forall w32 IV ->
  newSnow3g K IV = Ok (conc (Spec.initialise K IV)) /\ wfst (Spec.initialise K IV).
Proof.
  intros HK HIV FK FIV. pose proof (init_state_wf K IV HK HIV FK FIV) as Hwf0.
  destruct (Forall4 _ _ HK FK) as (k0&k1&k2&k3&->&?&?&?&?).
  destruct (Forall4 _ _ HIV FIV) as (i0&i1&i2&i3&->&?&?&?&?).
  unfold newSnow3g. cbn [idx nth_error obind repeat store].
  change (for_loop 3 0 (fun (i : nat) (f : list N) => store f i 0) [0; 0; 0]) with (Ok [0; 0; 0]).
  cbn [obind].
  change (mkSnow _ _) with (conc (Spec.init_state [k0; k1; k2; k3] [i0; i1; i2; i3])).
  change (fun (_ : nat) (s : snow3g) => _) with (fun (_ : nat) (s : snow3g) => init_body s).
  unfold Spec.initialise.
  (* run the 32 rounds on the specification side *)
  assert (Hloop : forall n i st, wfst st ->
            for_loop n i (fun _ s => init_body s) (conc st) = Ok (conc (Nat.iter n Spec.clock_init st))
            /\ wfst (Nat.iter n Spec.clock_init st)).
  { induction n as [|n IH]; intros i st Hst.
    - simpl. auto.
    - cbn [for_loop]. destruct (init_body_conc st Hst) as [E Hst']. rewrite E. cbn [obind].
      rewrite iter_succ_r. apply IH. assumption. }
  apply Hloop. assumption.
Qed.

(* ---------- generateKeystream ---------- *)
Definition ks_body (i : nat) (st : snow3g * list N) : outcome (snow3g * list N) :=
  let '(s, ks) := st in
  s15 <- idx (lfsr s) 15 ;; s5 <- idx (lfsr s) 5 ;;
  r <- clockFsm s s15 s5 ;;
  l0 <- idx (lfsr (fst r)) 0 ;;
  ks <- store ks i (N.lxor (snd r) l0) ;;
  s <- lfsrKeystreamMode (fst r) ;;
  Ok (s, ks).

Lemma store_app (a : list N) x b v : store (a ++ x :: b) (length a) v = Ok (a ++ v :: b).
Proof.
  induction a as [|h a IH]; cbn [app length store]; [reflexivity|]. rewrite IH. reflexivity.
Qed.

Lemma store_length l i v l' : store l i v = Ok l' -> length l' = length l.
Proof.
  revert i l'. induction l as [|h t IH]; intros i l' H; cbn [store] in H; [discriminate|].
  destruct i.
  - inversion H. reflexivity.
  - destruct (store t i v) eqn:E; cbn [obind] in H; try discriminate. inversion H. simpl. f_equal. eapply IH. eassumption.
Qed.

Lemma store_upd l i v : (i < length l)%nat -> store l i v = Ok (upd l i v).
Proof.
  revert i. induction l as [|h t IH]; intros i H; [simpl in H; lia|].
  destruct i; cbn [store upd]; [reflexivity|]. rewrite IH by (simpl in H; lia). reflexivity.
Qed.

Lemma gen_length n st : length (Spec.gen n st) = n.
Proof. revert st. induction n; intro st; simpl; [reflexivity | rewrite IHn; reflexivity]. Qed.

(* the loop fills ks[i .. i+n-1] with the next n keystream words *)
Lemma ks_loop n : forall i st (done rest : list N), wfst st ->
  length done = i -> length rest = n ->
  exists st', for_loop n i ks_body (conc st, done ++ rest) = Ok (conc st', done ++ Spec.gen n st) /\ wfst st'.
Proof.
  induction n as [|n IH]; intros i st done rest Hwf Hd Hr.
  - destruct rest; [|discriminate Hr]. exists st. simpl. auto.
  - destruct rest as [|x rest]; [discriminate Hr|].
    cbn [for_loop]. unfold ks_body at 1.
    rewrite !idx_s by (assumption || lia). cbn [obind].
    rewrite clockFsm_conc. cbn [obind fst snd].
    pose proof (FSM_clock_wf st Hwf) as Hwf1.
    rewrite idx_s by (assumption || lia). cbn [obind].
    subst i. rewrite store_app. cbn [obind].
    rewrite lfsrKeystreamMode_conc by assumption. cbn [obind].
    set (st2 := Spec.LFSR_shift (Spec.FSM_clock st) (Spec.LFSR_v (Spec.FSM_clock st))).
    assert (Hwf2 : wfst st2) by (apply LFSR_shift_wf; [assumption | apply LFSR_v_lt; assumption]).
    replace (done ++ N.lxor (Spec.FSM_F st) (Spec.s_ (Spec.FSM_clock st) 0) :: rest)
      with ((done ++ [N.lxor (Spec.FSM_F st) (Spec.s_ (Spec.FSM_clock st) 0)]) ++ rest)
      by (rewrite <- app_assoc; reflexivity).
    destruct (IH (S (length done)) st2 (done ++ [N.lxor (Spec.FSM_F st) (Spec.s_ (Spec.FSM_clock st) 0)]) rest Hwf2)
      as (st' & E & Hwf').
    + rewrite app_length. simpl. lia.
    + simpl in Hr. lia.
    + exists st'. split; [|assumption]. rewrite E. rewrite <- app_assoc. reflexivity.
Qed.

Lemma generateKeystream_eq st n : wfst st ->
  exists st', generateKeystream (conc st) n (repeat 0 n) = Ok (conc st', Spec.gen n (Spec.clock_ks st)).
Proof.
  intro Hwf. unfold generateKeystream.
  rewrite !idx_s by (assumption || lia). cbn [obind].
  rewrite clockFsm_conc. cbn [obind fst snd].
  pose proof (FSM_clock_wf st Hwf) as Hwf1.
  rewrite lfsrKeystreamMode_conc by assumption. cbn [obind].
  change (fun (i : nat) (st0 : snow3g * list N) => _) with ks_body.
  destruct (ks_loop n 0 (Spec.clock_ks st) [] (repeat 0 n)) as (st' & E & _).
  - apply clock_ks_wf. assumption.
  - reflexivity.
  - apply repeat_length.
  - exists st'. exact E.
Qed.

(* ---------- GetKeyStream = the specification's keystream ---------- *)
Theorem GetKeyStream_eq_spec K IV n :
  length K = 4%nat -> length IV = 4%nat -> Forall w32 K -> Forall w32 IV ->
  GetKeyStream K IV n = Ok (Spec.keystream K IV (N.to_nat n)).
Proof.
  intros HK HIV FK FIV. unfold GetKeyStream.
  destruct (newSnow3g_eq K IV HK HIV FK FIV) as [E Hwf]. rewrite E. cbn [obind].
  destruct (generateKeystream_eq _ (N.to_nat n) Hwf) as (st' & E'). rewrite E'. reflexivity.
Qed.

(* ---------- properties of the specification's keystream ---------- *)
Lemma gen_prefix n m st : Spec.gen n st = firstn n (Spec.gen (n + m) st).
Proof.
  revert st. induction n as [|n IH]; intro st; [reflexivity|].
  cbn [Nat.add Spec.gen firstn]. f_equal. apply IH.
Qed.

Lemma keystream_prefix K IV n m : Spec.keystream K IV n = firstn n (Spec.keystream K IV (n + m)).
Proof. unfold Spec.keystream. apply gen_prefix. Qed.

Lemma keystream_length K IV n : length (Spec.keystream K IV n) = n.
Proof. apply gen_length. Qed.

Lemma gen_w32 n st : wfst st -> Forall w32 (Spec.gen n st).
Proof.
  revert st. induction n as [|n IH]; intros st Hwf; cbn [Spec.gen]; constructor.
  - pose proof (FSM_clock_wf st Hwf) as (Hlen & Hall & _).
    unfold w32, Spec.xor. apply lxor_lt; [apply FSM_F_lt; assumption|].
    unfold Spec.s_. apply (nth_Forall w32); [assumption | unfold w32; rewrite p32; lia].
  - apply IH. pose proof (FSM_clock_wf st Hwf). apply LFSR_shift_wf; [assumption | apply LFSR_v_lt; assumption].
Qed.

Lemma keystream_w32 K IV n :
  length K = 4%nat -> length IV = 4%nat -> Forall w32 K -> Forall w32 IV ->
  Forall w32 (Spec.keystream K IV n).
Proof.
  intros HK HIV FK FIV. unfold Spec.keystream. apply gen_w32. apply clock_ks_wf.
  apply (newSnow3g_eq K IV HK HIV FK FIV).
Qed.
